(* C06: rebalancing (rebalance_interval, both rotation branches, any outcome of the float decisions) changes levels only:
   starts, ends and coarsening levels of all objects and their order are untouched. *)
From Coq Require Import ZArith List Bool QArith Qcanon Arith Lia.
From SG Require Import Base.QcUtil Model.RefTree Proofs.RefSelect.
Import ListNotations.
Open Scope nat_scope.

Definition geom (iv : ival) : Qc * Qc * Z := (i_start iv, i_end iv, i_coarse iv).

Lemma apply_deltas_geom seg : forall prev ds, map geom (apply_deltas prev ds seg) = map geom seg.
Proof. induction seg as [|iv seg IH]; intros prev ds; simpl; [reflexivity|]. rewrite IH. reflexivity. Qed.

Lemma splice_geom objs s e seg' :
  s <= e -> map geom seg' = map geom (firstn (e - s) (skipn s objs)) ->
  map geom (splice objs s e seg') = map geom objs.
Proof.
  intros Hle H. unfold splice. rewrite !map_app, H, <- !map_app.
  replace (skipn e objs) with (skipn (e - s) (skipn s objs)).
  - rewrite firstn_skipn, firstn_skipn. reflexivity.
  - rewrite skipn_skipn'. f_equal. lia.
Qed.

Theorem rebalance_interval_geom fuel dec : forall s e level objs objs',
  rebalance_interval fuel dec s e level objs = Some objs' -> map geom objs' = map geom objs.
Proof.
  induction fuel as [|f IH]; intros s e level objs objs' H.
  - simpl in H. destruct (Nat.leb (e - s) 2); [injection H as <-; reflexivity | discriminate].
  - cbn [rebalance_interval] in H.
    destruct (Nat.leb (e - s) 2) eqn:E2; [injection H as <-; reflexivity|].
    apply Nat.leb_gt in E2.
    destruct (rb_scan level (firstn (e - s) (skipn s objs)) 0 (None, None, None)) as [[[[pl|] pl1l] pl1r]|]; try discriminate.
    assert (Hsp : forall ds, map geom (splice objs s e (apply_deltas 0%Z ds (firstn (e - s) (skipn s objs)))) = map geom objs).
    { intro ds. apply splice_geom; [lia | apply apply_deltas_geom]. }
    assert (Hrec : forall a b c o1 o3, map geom o1 = map geom objs ->
               match rebalance_interval f dec a b (level + 1)%Z o1 with
               | Some o2 => rebalance_interval f dec b c (level + 1)%Z o2
               | None => None
               end = Some o3 -> map geom o3 = map geom objs).
    { intros a b c o1 o3 H1 H2. destruct (rebalance_interval f dec a b (level + 1)%Z o1) as [o2|] eqn:Ea; [|discriminate].
      apply IH in Ea. apply IH in H2. congruence. }
    destruct (match pl1r with Some r => if dec pl r (e - s - 2) then Some r else None | None => None end) as [r|].
    + destruct (negb (Nat.ltb pl r)); [discriminate|].
      destruct (rot_right_scan level pl r 0 _ false) as [[ds [p|]] [|]]; try discriminate.
      eapply Hrec; [apply Hsp | exact H].
    + destruct (match pl1l with Some l => if dec pl l (e - s - 2) then Some l else None | None => None end) as [l|].
      * destruct (negb (Nat.ltb l pl)); [discriminate|].
        destruct (rot_left_scan level pl l 0 _ true) as [[ds [p|]] [|]]; try discriminate.
        eapply Hrec; [apply Hsp | exact H].
      * eapply Hrec; [reflexivity | exact H].
Qed.

Theorem rebalance_geom dec objs objs' : rebalance dec objs = Some objs' -> map geom objs' = map geom objs.
Proof. apply rebalance_interval_geom. Qed.
