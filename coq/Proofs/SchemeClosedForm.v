(* C01, general: the closed-form binomial scheme of getCombiScheme is a permutation of the inclusion-exclusion
   coefficients of the freshly initialised adaptive index set, for EVERY dimension d = S n and every 0 <= lmin <= lmax.
   Route: (1) the keys of the coefficient dictionary are duplicate-free, so a coefficient is the point-wise sum psum;
   (2) Moebius inversion over the cube {0,1}^d turns the dominating sums of SchemeIE.v into point-wise coefficients:
       c(k) = sum_{t in {0,1}^d} (-1)^|t| [k + t in idx];
   (3) for the initial simplex this is the alternating partial sum A d r = (-1)^r C(d-1, r);
   (4) the factorial-quotient binom of the model equals the Pascal binomial;
   (5) both lists are duplicate-free and have the same members. *)
From Coq Require Import ZArith List Bool Lia Permutation.
From SG Require Import Model.CombiScheme Proofs.SchemeBasics Proofs.SchemeIE Proofs.SchemeInv.
Import ListNotations.
Open Scope Z_scope.
Local Arguments Z.add : simpl never.
Local Arguments Z.mul : simpl never.
Local Arguments Z.opp : simpl never.
Local Arguments Z.sub : simpl never.
Local Arguments Z.leb : simpl never.
Local Arguments Z.ltb : simpl never.
Local Arguments Z.eqb : simpl never.
Local Arguments Z.of_nat : simpl never.
Local Arguments Z.div : simpl never.

(* ---------- elementary sums ---------- *)
Lemma sumZ_cons x l : sumZ (x :: l) = x + sumZ l.
Proof. reflexivity. Qed.

Lemma sumZ_nil : sumZ [] = 0.
Proof. reflexivity. Qed.

Lemma sumZ_map_ext_in {A} (f g : A -> Z) l : (forall x, In x l -> f x = g x) -> sumZ (map f l) = sumZ (map g l).
Proof. intro H. f_equal. apply map_ext_in. exact H. Qed.

Lemma sumZ_map_add {A} (f g : A -> Z) l : sumZ (map (fun x => f x + g x) l) = sumZ (map f l) + sumZ (map g l).
Proof.
  induction l as [|a l IH]; [reflexivity|]. cbn [map]. rewrite !sumZ_cons, IH. lia.
Qed.

Lemma sumZ_map_mul_l {A} c (f : A -> Z) l : sumZ (map (fun x => c * f x) l) = c * sumZ (map f l).
Proof.
  induction l as [|a l IH]; [cbn [map]; rewrite sumZ_nil; lia|]. cbn [map]. rewrite !sumZ_cons, IH. lia.
Qed.

Lemma sumZ_map_zero {A} (l : list A) : sumZ (map (fun _ => 0) l) = 0.
Proof. induction l as [|a l IH]; [reflexivity|]. cbn [map]. rewrite sumZ_cons, IH. reflexivity. Qed.

Lemma sg_succ p : sg (p + 1) = - sg p.
Proof. unfold sg. rewrite Z.even_add. simpl (Z.even 1). destruct (Z.even p); reflexivity. Qed.

Lemma sg_succ_l p : sg (1 + p) = - sg p.
Proof. rewrite Z.add_comm. apply sg_succ. Qed.

Lemma sg_pred' p : sg (p - 1) = - sg p.
Proof. unfold sg. rewrite Z.even_sub. simpl (Z.even 1). destruct (Z.even p); reflexivity. Qed.

(* ---------- the cube {0,1}^d ---------- *)
Fixpoint cube (d : nat) : list (list Z) :=
  match d with
  | O => [[]]
  | S d' => map (cons 0) (cube d') ++ map (cons 1) (cube d')
  end.

Lemma cube_props d : forall t, In t (cube d) -> length t = d /\ Forall (fun x => 0 <= x <= 1) t.
Proof.
  induction d as [|d IH]; intros t Ht.
  - destruct Ht as [<-|[]]. split; [reflexivity|constructor].
  - cbn [cube] in Ht. apply in_app_or in Ht.
    destruct Ht as [Ht|Ht]; apply in_map_iff in Ht; destruct Ht as [t' [<- Ht']];
      destruct (IH t' Ht') as [L F]; (split; [simpl; congruence | constructor; [lia|exact F]]).
Qed.

(* ---------- Moebius inversion: dominating sums -> point-wise coefficient ---------- *)
Definition psum (k0 : lv) (cs : list (lv * Z)) : Z :=
  sumZ (map (fun kv => if lv_eqb (fst kv) k0 then snd kv else 0) cs).

Lemma mobius_single : forall k0 k p, length k = length k0 ->
  sumZ (map (fun t => sg (p + sumZ t) * b2z (lv_geb k (lv_add k0 t))) (cube (length k0)))
  = sg p * b2z (lv_eqb k k0).
Proof.
  induction k0 as [|y k0 IH]; intros [|x k] p Hlen; simpl in Hlen; try discriminate.
  - cbn [length cube map lv_add lv_geb lv_eqb]. rewrite sumZ_cons, !sumZ_nil. rewrite !Z.add_0_r. reflexivity.
  - injection Hlen as Hlen.
    assert (forall a, sumZ (map (fun t => sg (p + sumZ t) * b2z (lv_geb (x :: k) (lv_add (y :: k0) t)))
                                (map (cons a) (cube (length k0))))
                      = b2z (y + a <=? x) * (sg (p + a) * b2z (lv_eqb k k0))) as Hrow.
    { intro a. rewrite map_map. rewrite <- (IH k (p + a) Hlen). rewrite <- sumZ_map_mul_l.
      apply sumZ_map_ext_in. intros t _. cbn [lv_add lv_geb]. rewrite sumZ_cons.
      replace (p + (a + sumZ t)) with (p + a + sumZ t) by lia.
      unfold b2z. destruct (y + a <=? x); destruct (lv_geb k (lv_add k0 t)); simpl; lia. }
    cbn [length cube]. rewrite map_app, sumZ_app, !Hrow.
    cbn [lv_eqb]. rewrite sg_succ. rewrite !Z.add_0_r.
    destruct (Z.leb_spec y x), (Z.leb_spec (y + 1) x), (Z.eqb_spec x y); unfold b2z; simpl; try lia;
      destruct (lv_eqb k k0); lia.
Qed.

Lemma mobius_inversion k0 cs :
  (forall k c, In (k, c) cs -> length k = length k0) ->
  sumZ (map (fun t => sg (sumZ t) * wsum (lv_add k0 t) cs) (cube (length k0))) = psum k0 cs.
Proof.
  induction cs as [|[k v] cs IH]; intro H.
  - unfold psum. cbn [map]. rewrite sumZ_nil. rewrite <- (sumZ_map_zero (cube (length k0))).
    apply sumZ_map_ext_in. intros t _. unfold wsum. cbn [map]. rewrite sumZ_nil. lia.
  - unfold psum. cbn [map fst snd]. rewrite sumZ_cons. fold (psum k0 cs).
    rewrite <- IH by (intros k' c' H'; apply (H k' c'); right; exact H').
    rewrite (sumZ_map_ext_in _ (fun t => v * (sg (0 + sumZ t) * b2z (lv_geb k (lv_add k0 t)))
                                         + sg (sumZ t) * wsum (lv_add k0 t) cs)).
    + rewrite sumZ_map_add, sumZ_map_mul_l.
      rewrite mobius_single by (apply (H k v); left; reflexivity).
      change (sg 0) with 1. unfold b2z. destruct (lv_eqb k k0); lia.
    + intros t _. rewrite wsum_cons. rewrite Z.add_0_l. unfold b2z.
      destruct (lv_geb k (lv_add k0 t)); lia.
Qed.

(* ---------- the dictionary has duplicate-free keys ---------- *)
Lemma dict_add_NoDup_keys k v dct : NoDup (map fst dct) -> NoDup (map fst (dict_add k v dct)).
Proof.
  induction dct as [|[k' v'] r IH]; intro H.
  - simpl. constructor; [intros []|constructor].
  - cbn [map fst] in H. inversion H as [|? ? Hnin Hr]; subst. cbn [dict_add].
    destruct (lv_eqb k k') eqn:E.
    + cbn [map fst]. constructor; assumption.
    + cbn [map fst]. constructor; [|apply IH; exact Hr].
      intro Hin. apply dict_add_keys in Hin. destruct Hin as [Hin|Hin]; [|contradiction].
      subst k'. rewrite lv_eqb_refl in E. discriminate.
Qed.

Lemma accumulate_NoDup_keys_gen cs : forall acc, NoDup (map fst acc) ->
  NoDup (map fst (fold_left (fun dct kv => dict_add (fst kv) (snd kv) dct) cs acc)).
Proof.
  induction cs as [|[k v] cs IH]; intros acc H; simpl; [exact H|].
  apply IH. apply dict_add_NoDup_keys. exact H.
Qed.

Lemma accumulate_NoDup_keys cs : NoDup (map fst (accumulate cs)).
Proof. unfold accumulate. apply accumulate_NoDup_keys_gen. constructor. Qed.

Lemma filter_NoDup_keys (f : lv * Z -> bool) dct : NoDup (map fst dct) -> NoDup (map fst (filter f dct)).
Proof.
  induction dct as [|[k v] r IH]; intro H; [constructor|].
  cbn [map fst] in H. inversion H as [|? ? Hnin Hr]; subst. cbn [filter].
  destruct (f (k, v)); [|apply IH; exact Hr].
  cbn [map fst]. constructor; [|apply IH; exact Hr].
  intro Hin. apply Hnin. apply in_map_iff in Hin. destruct Hin as [[k' v'] [E Hin]]. simpl in E. subst k'.
  apply filter_In in Hin. destruct Hin as [Hin _]. apply in_map_iff. exists (k, v'). split; [reflexivity|exact Hin].
Qed.

Lemma coefficients_NoDup_keys lmin idx : NoDup (map fst (coefficients lmin idx)).
Proof. unfold coefficients. apply filter_NoDup_keys. apply accumulate_NoDup_keys. Qed.

Lemma coefficients_NoDup lmin idx : NoDup (coefficients lmin idx).
Proof. apply (NoDup_map_inv fst). apply coefficients_NoDup_keys. Qed.

Lemma psum_notin k cs : ~ In k (map fst cs) -> psum k cs = 0.
Proof.
  induction cs as [|[k' v'] r IH]; intro H; [reflexivity|].
  unfold psum. cbn [map fst snd]. rewrite sumZ_cons. fold (psum k r).
  rewrite IH by (intro Hin; apply H; right; exact Hin).
  destruct (lv_eqb k' k) eqn:E; [|lia].
  apply lv_eqb_eq in E. subst k'. exfalso. apply H. left. reflexivity.
Qed.

Lemma psum_in k c cs : NoDup (map fst cs) -> In (k, c) cs -> psum k cs = c.
Proof.
  induction cs as [|[k' v'] r IH]; intros Hnd Hin; [destruct Hin|].
  cbn [map fst] in Hnd. inversion Hnd as [|? ? Hnin Hr]; subst.
  unfold psum. cbn [map fst snd]. rewrite sumZ_cons. fold (psum k r).
  destruct Hin as [E|Hin].
  - inversion E; subst. rewrite lv_eqb_refl. rewrite psum_notin by exact Hnin. lia.
  - assert (lv_eqb k' k = false) as E.
    { apply lv_eqb_neq. intro E. subst k'. apply Hnin. apply in_map_iff. exists (k, c). split; [reflexivity|exact Hin]. }
    rewrite E. rewrite (IH Hr Hin). lia.
Qed.

(* membership in a key-duplicate-free list with no zero value = the point-wise sum *)
Lemma NoDup_keys_member cs k c :
  NoDup (map fst cs) -> (forall k' c', In (k', c') cs -> c' <> 0) ->
  (In (k, c) cs <-> c = psum k cs /\ c <> 0).
Proof.
  intros Hnd Hnz. split.
  - intro Hin. split; [symmetry; apply psum_in; assumption | apply (Hnz k c Hin)].
  - intros [E Hc]. destruct (in_dec (list_eq_dec Z.eq_dec) k (map fst cs)) as [Hin|Hnin].
    + apply in_map_iff in Hin. destruct Hin as [[k' c'] [Ek Hin]]. simpl in Ek. subst k'.
      rewrite (psum_in k c' cs Hnd Hin) in E. subst c'. exact Hin.
    + rewrite (psum_notin k cs Hnin) in E. contradiction.
Qed.

(* ---------- point-wise coefficient of an arbitrary well-formed duplicate-free index set ---------- *)
Lemma lv_add_cube_gen lmin : forall k0 t, length t = length k0 -> Forall (fun x => 0 <= x <= 1) t ->
  Forall (fun x => lmin <= x) k0 ->
  length (lv_add k0 t) = length k0 /\ Forall (fun x => lmin <= x) (lv_add k0 t) /\
  sumZ (lv_add k0 t) = sumZ k0 + sumZ t.
Proof.
  induction k0 as [|y k0 IH]; intros [|a t] Hlen Ht Hk; simpl in Hlen; try discriminate.
  - split; [reflexivity|]. split; [constructor|]. reflexivity.
  - injection Hlen as Hlen. inversion Ht as [|? ? Ha Ht']; subst. inversion Hk as [|? ? Hy Hk']; subst.
    destruct (IH t Hlen Ht' Hk') as [L [F Sm]]. cbn [lv_add]. split; [simpl; congruence|].
    split; [constructor; [lia|exact F]|]. rewrite !sumZ_cons, Sm. lia.
Qed.

Lemma lv_add_cube lmin k0 t : In t (cube (length k0)) -> Forall (fun x => lmin <= x) k0 ->
  length (lv_add k0 t) = length k0 /\ Forall (fun x => lmin <= x) (lv_add k0 t) /\
  sumZ (lv_add k0 t) = sumZ k0 + sumZ t.
Proof.
  intros Ht Hk. destruct (cube_props (length k0) t Ht) as [L F]. apply lv_add_cube_gen; assumption.
Qed.

Lemma coefficients_key_wf lmin idx d k c :
  (forall g, In g idx -> length g = d /\ Forall (fun x => lmin <= x) g) ->
  In (k, c) (coefficients lmin idx) -> length k = d /\ Forall (fun x => lmin <= x) k.
Proof.
  intros Hidx Hin. apply coefficients_keys in Hin. destruct Hin as [g [s [Hg [Hs ->]]]].
  destruct (Hidx g Hg) as [Lg Fg]. destruct (cross_stencil_props lmin g s Hs Fg) as [Ls Fs].
  split; [|exact Fs]. rewrite lv_add_length by exact Ls. exact Lg.
Qed.

Theorem coeff_pointwise lmin idx k0 :
  NoDup idx ->
  (forall g, In g idx -> length g = length k0 /\ Forall (fun x => lmin <= x) g) ->
  Forall (fun x => lmin <= x) k0 ->
  psum k0 (coefficients lmin idx)
  = sumZ (map (fun t => sg (sumZ t) * b2z (mem (lv_add k0 t) idx)) (cube (length k0))).
Proof.
  intros Hnd Hidx Hk.
  rewrite <- mobius_inversion.
  2: { intros k c Hin. destruct (coefficients_key_wf lmin idx (length k0) k c Hidx Hin) as [L _]. exact L. }
  apply sumZ_map_ext_in. intros t Ht. f_equal.
  destruct (lv_add_cube lmin k0 t Ht Hk) as [L [F _]].
  rewrite <- dominating_sum_wsum. rewrite coeffs_inclusion_exclusion_gen; [reflexivity|exact Hnd| |exact F].
  intros g Hg. rewrite L. exact (Hidx g Hg).
Qed.

(* ---------- alternating partial sums over the cube ---------- *)
Definition A (d : nat) (r : Z) : Z := sumZ (map (fun t => sg (sumZ t) * b2z (sumZ t <=? r)) (cube d)).

Lemma A_0 r : A 0 r = b2z (0 <=? r).
Proof. unfold A. cbn [cube map]. rewrite sumZ_cons, !sumZ_nil. change (sg 0) with 1. lia. Qed.

Lemma A_S d r : A (S d) r = A d r - A d (r - 1).
Proof.
  unfold A. cbn [cube]. rewrite map_app, sumZ_app, !map_map.
  assert (sumZ (map (fun t => sg (sumZ (0 :: t)) * b2z (sumZ (0 :: t) <=? r)) (cube d))
          = sumZ (map (fun t => sg (sumZ t) * b2z (sumZ t <=? r)) (cube d))) as E0.
  { apply sumZ_map_ext_in. intros t _. rewrite sumZ_cons, Z.add_0_l. reflexivity. }
  assert (sumZ (map (fun t => sg (sumZ (1 :: t)) * b2z (sumZ (1 :: t) <=? r)) (cube d))
          = -1 * sumZ (map (fun t => sg (sumZ t) * b2z (sumZ t <=? r - 1)) (cube d))) as E1.
  { rewrite <- sumZ_map_mul_l. apply sumZ_map_ext_in. intros t _. rewrite sumZ_cons, sg_succ_l.
    unfold b2z. destruct (Z.leb_spec (1 + sumZ t) r), (Z.leb_spec (sumZ t) (r - 1)); lia. }
  rewrite E0, E1. lia.
Qed.

(* Pascal binomial *)
Fixpoint pbin (n k : nat) {struct n} : Z :=
  match n, k with
  | _, O => 1
  | O, S _ => 0
  | S n', S k' => pbin n' k' + pbin n' k
  end.

Definition PB (m : nat) (r : Z) : Z := if r <? 0 then 0 else pbin m (Z.to_nat r).

Lemma pbin_0_r n : pbin n 0 = 1.
Proof. destruct n; reflexivity. Qed.

Lemma PB_0 r : PB 0 r = b2z (r =? 0).
Proof.
  unfold PB, b2z. destruct (Z.ltb_spec r 0), (Z.eqb_spec r 0); try lia; try reflexivity.
  - subst. reflexivity.
  - destruct (Z.to_nat r) eqn:E; [lia|reflexivity].
Qed.

Lemma PB_S m r : PB (S m) r = PB m r + PB m (r - 1).
Proof.
  unfold PB. destruct (Z.ltb_spec r 0), (Z.ltb_spec (r - 1) 0); try lia.
  - assert (r = 0) as -> by lia. simpl Z.to_nat. rewrite !pbin_0_r. lia.
  - replace (Z.to_nat r) with (S (Z.to_nat (r - 1))) by lia. cbn [pbin]. lia.
Qed.

Theorem A_closed : forall m r, A (S m) r = sg r * PB m r.
Proof.
  induction m as [|m IH]; intro r.
  - rewrite A_S, !A_0, PB_0. unfold b2z.
    destruct (Z.leb_spec 0 r), (Z.leb_spec 0 (r - 1)), (Z.eqb_spec r 0); try lia.
    subst r. change (sg 0) with 1. lia.
  - rewrite A_S, !IH, PB_S, sg_pred'. lia.
Qed.

Lemma pbin_gt : forall n k, (n < k)%nat -> pbin n k = 0.
Proof.
  induction n as [|n IH]; intros [|k] H; try lia; [reflexivity|].
  cbn [pbin]. rewrite !IH by lia. reflexivity.
Qed.

Lemma fact_pos n : 0 < fact n.
Proof. induction n as [|n IH]; [reflexivity|]. cbn [fact]. apply Z.mul_pos_pos; lia. Qed.

Lemma pbin_fact : forall n k, (k <= n)%nat -> pbin n k * (fact k * fact (n - k)) = fact n.
Proof.
  induction n as [|n IH]; intros [|k] H; try lia.
  - reflexivity.
  - rewrite pbin_0_r. change (S n - 0)%nat with (S n). change (fact 0) with 1. lia.
  - change (S n - S k)%nat with (n - k)%nat. cbn [pbin].
    change (fact (S k)) with (Z.of_nat (S k) * fact k). change (fact (S n)) with (Z.of_nat (S n) * fact n).
    destruct (Nat.eq_dec k n) as [->|Hne].
    + rewrite (pbin_gt n (S n)) by lia. pose proof (IH n (le_n n)) as IH1.
      remember (pbin n n) as X. remember (fact n) as F. remember (fact (n - n)) as G.
      replace ((X + 0) * (Z.of_nat (S n) * F * G)) with (Z.of_nat (S n) * (X * (F * G))) by ring.
      rewrite IH1. reflexivity.
    + pose proof (IH k ltac:(lia)) as IH1. pose proof (IH (S k) ltac:(lia)) as IH2.
      assert ((n - k)%nat = S (n - S k)) as Hd by lia. rewrite Hd in *.
      change (fact (S (n - S k))) with (Z.of_nat (S (n - S k)) * fact (n - S k)) in *.
      change (fact (S k)) with (Z.of_nat (S k) * fact k) in IH2.
      assert (Z.of_nat (S n) = Z.of_nat (S k) + Z.of_nat (S (n - S k))) as Hs by lia.
      rewrite Hs.
      remember (pbin n k) as X. remember (pbin n (S k)) as Y. remember (fact n) as F.
      remember (fact k) as Fk. remember (fact (n - S k)) as G.
      remember (Z.of_nat (S k)) as a. remember (Z.of_nat (S (n - S k))) as b.
      replace ((X + Y) * (a * Fk * (b * G))) with (a * (X * (Fk * (b * G))) + b * (Y * (a * Fk * G))) by ring.
      rewrite IH1, IH2. ring.
Qed.

Lemma binom_pbin n k : (k <= n)%nat -> binom n k = pbin n k.
Proof.
  intro H. unfold binom. rewrite <- (pbin_fact n k H). apply Z.div_mul.
  pose proof (fact_pos k). pose proof (fact_pos (n - k)). apply Z.neq_mul_0. split; lia.
Qed.

Lemma pbin_nonzero n k : (k <= n)%nat -> pbin n k <> 0.
Proof.
  intros H E. pose proof (pbin_fact n k H) as P. rewrite E in P. pose proof (fact_pos n). lia.
Qed.

Lemma even_of_nat q : Z.even (Z.of_nat q) = Nat.even q.
Proof.
  induction q as [|q IH]; [reflexivity|].
  rewrite Nat2Z.inj_succ, Z.even_succ, Nat.even_succ. rewrite <- Z.negb_even, <- Nat.negb_even. rewrite IH. reflexivity.
Qed.

Lemma sg_of_nat q : sg (Z.of_nat q) = if Nat.even q then 1 else -1.
Proof. unfold sg. rewrite even_of_nat. reflexivity. Qed.

(* ---------- duplicate-freeness of the closed-form list ---------- *)
Lemma NoDup_app_disj {X} (a b : list X) : NoDup a -> NoDup b -> (forall x, In x a -> ~ In x b) -> NoDup (a ++ b).
Proof.
  induction a as [|x a IH]; intros Ha Hb Hd; [exact Hb|].
  inversion Ha as [|? ? Hnin Ha']; subst. cbn [app]. constructor.
  - rewrite in_app_iff. intros [H|H]; [contradiction|]. apply (Hd x); [left; reflexivity|exact H].
  - apply IH; [exact Ha'|exact Hb|]. intros y Hy. apply Hd. right. exact Hy.
Qed.

Lemma NoDup_flat_map_disj {X Y} (f : X -> list Y) l :
  NoDup l -> (forall x, In x l -> NoDup (f x)) ->
  (forall x y b, In x l -> In y l -> In b (f x) -> In b (f y) -> x = y) ->
  NoDup (flat_map f l).
Proof.
  induction l as [|x l IH]; intros Hl Hf Hd; [constructor|].
  inversion Hl as [|? ? Hnin Hl']; subst. cbn [flat_map]. apply NoDup_app_disj.
  - apply Hf. left. reflexivity.
  - apply IH; [exact Hl'| |].
    + intros y Hy. apply Hf. right. exact Hy.
    + intros y z b Hy Hz. apply Hd; right; assumption.
  - intros b Hb Hin. apply in_flat_map in Hin. destruct Hin as [y [Hy Hby]].
    assert (x = y) as E by (apply (Hd x y b); [left; reflexivity|right; exact Hy|exact Hb|exact Hby]).
    subst y. contradiction.
Qed.

Lemma NoDup_map_inj {X Y} (f : X -> Y) l : (forall x y, f x = f y -> x = y) -> NoDup l -> NoDup (map f l).
Proof.
  intros Hf. induction l as [|x l IH]; intro Hl; [constructor|].
  inversion Hl as [|? ? Hnin Hl']; subst. cbn [map]. constructor; [|apply IH; exact Hl'].
  intro Hin. apply in_map_iff in Hin. destruct Hin as [y [E Hy]]. apply Hf in E. subst y. contradiction.
Qed.

Lemma zrange_NoDup v : NoDup (zrange v).
Proof. unfold zrange. apply NoDup_map_inj; [intros x y; apply Nat2Z.inj|apply seq_NoDup]. Qed.

Lemma getGrids_NoDup : forall d v, NoDup (getGrids d v).
Proof.
  induction d as [|n IH]; intro v; [constructor|].
  destruct n as [|n].
  - simpl. constructor; [intros []|constructor].
  - change (getGrids (S (S n)) v) with
      (flat_map (fun index => map (cons (index + 1)) (getGrids (S n) (v - index))) (zrange v)).
    apply NoDup_flat_map_disj.
    + apply zrange_NoDup.
    + intros i _. apply NoDup_map_inj; [|apply IH]. intros x y E. injection E as E. exact E.
    + intros i j b _ _ Hi Hj. apply in_map_iff in Hi. destruct Hi as [g [<- _]].
      apply in_map_iff in Hj. destruct Hj as [g' [E _]]. injection E as E _. lia.
Qed.

Lemma map_shift_inj c (g g' : list Z) : map (fun l => l + c) g = map (fun l => l + c) g' -> g = g'.
Proof.
  revert g'. induction g as [|x g IH]; intros [|y g'] E; simpl in E; try discriminate; [reflexivity|].
  injection E as E1 E2. f_equal; [lia|apply IH; exact E2].
Qed.

(* one q-block of the closed form *)
Lemma std_block n lmin lmax q (C : Z) (k : lv) (c : Z) : Z.of_nat q < lmax - lmin + 1 ->
  (In (k, c) (map (fun g => (map (fun l => l + (lmin - 1)) g, C)) (getGrids (S n) (lmax - lmin + 1 - Z.of_nat q))) <->
   c = C /\ length k = S n /\ Forall (fun x => lmin <= x) k /\
   sumZ k = lmax - lmin - Z.of_nat q + Z.of_nat (S n) * lmin).
Proof.
  intro Hq.
  pose proof (shifted_grids_spec n (lmax - lmin + 1 - Z.of_nat q) (lmin - 1) k ltac:(lia)) as Hsp.
  unfold shift_all in Hsp. replace (lmin - 1 + 1) with lmin in Hsp by lia.
  rewrite in_map_iff. split.
  - intros [g [E Hg]]. injection E as Ek Ec. split; [symmetry; exact Ec|].
    assert (In k (map (map (fun l => l + (lmin - 1))) (getGrids (S n) (lmax - lmin + 1 - Z.of_nat q)))) as Hin.
    { apply in_map_iff. exists g. split; assumption. }
    apply Hsp in Hin. destruct Hin as [L [F Sm]]. split; [exact L|]. split; [exact F|]. lia.
  - intros [Ec [L [F Sm]]].
    assert (In k (map (map (fun l => l + (lmin - 1))) (getGrids (S n) (lmax - lmin + 1 - Z.of_nat q)))) as Hin.
    { apply Hsp. split; [exact L|]. split; [exact F|]. lia. }
    apply in_map_iff in Hin. destruct Hin as [g [Ek Hg]]. exists g. split; [|exact Hg]. subst c. rewrite <- Ek. reflexivity.
Qed.

Lemma std_member n lmin lmax k c :
  (In (k, c) (combi_scheme_standard (S n) lmin lmax) <->
   exists q : nat, Z.of_nat q < Z.min (Z.of_nat (S n)) (lmax - lmin + 1) /\
     length k = S n /\ Forall (fun x => lmin <= x) k /\
     sumZ k = lmax - lmin - Z.of_nat q + Z.of_nat (S n) * lmin /\
     c = (if Nat.even q then 1 else -1) * binom n q).
Proof.
  unfold combi_scheme_standard. replace (S n - 1)%nat with n by lia. rewrite in_flat_map. split.
  - intros [q [Hq Hin]]. apply in_seq in Hq. apply std_block in Hin; [|lia].
    destruct Hin as [Ec [L [F Sm]]]. exists q. split; [lia|]. split; [exact L|]. split; [exact F|].
    split; [exact Sm|exact Ec].
  - intros [q [Hq [L [F [Sm Ec]]]]]. exists q. split; [apply in_seq; lia|].
    apply std_block; [lia|]. split; [exact Ec|]. split; [exact L|]. split; [exact F|exact Sm].
Qed.

Lemma std_NoDup n lmin lmax : NoDup (combi_scheme_standard (S n) lmin lmax).
Proof.
  unfold combi_scheme_standard. apply NoDup_flat_map_disj.
  - apply seq_NoDup.
  - intros q _. apply NoDup_map_inj; [|apply getGrids_NoDup].
    intros g g' E. injection E as E. apply map_shift_inj in E. exact E.
  - intros q q' [k c] Hq Hq' H1 H2. apply in_seq in Hq. apply in_seq in Hq'.
    apply std_block in H1; [|lia]. apply std_block in H2; [|lia].
    destruct H1 as [_ [_ [_ S1]]]. destruct H2 as [_ [_ [_ S2]]]. lia.
Qed.

(* ---------- the coefficients of the freshly initialised adaptive scheme ---------- *)
Section Init.
Variables (n : nat) (lmin lmax : Z).
Hypothesis Hle : lmin <= lmax.

Let idx := set_union (init_active_index_set lmax lmin (S n)) (init_old_index_set lmax lmin (S n)).
Let B := lmax - lmin + Z.of_nat (S n) * lmin.

Lemma init_idx_In k : In k idx <-> length k = S n /\ Forall (fun x => lmin <= x) k /\ sumZ k <= B.
Proof.
  unfold idx, B. rewrite set_union_In. rewrite init_active_spec by exact Hle. rewrite init_old_spec by exact Hle.
  split.
  - intros [[L [F Sm]]|[L [F Sm]]]; (split; [exact L|]; split; [exact F|]; lia).
  - intros [L [F Sm]].
    destruct (Z.eq_dec (sumZ k) (lmax - lmin + Z.of_nat (S n) * lmin)) as [E|E].
    + left. split; [exact L|]. split; [exact F|exact E].
    + right. split; [exact L|]. split; [exact F|lia].
Qed.

Lemma init_idx_NoDup : NoDup idx.
Proof. unfold idx. apply set_union_NoDup. unfold init_active_index_set. apply set_of_list_NoDup. Qed.

Lemma init_coeff_value k : length k = S n -> Forall (fun x => lmin <= x) k ->
  psum k (coefficients lmin idx) = sg (B - sumZ k) * PB n (B - sumZ k).
Proof.
  intros L F. rewrite coeff_pointwise; [|exact init_idx_NoDup| |exact F].
  2: { intros g Hg. apply init_idx_In in Hg. destruct Hg as [Lg [Fg _]]. split; [congruence|exact Fg]. }
  rewrite <- A_closed. unfold A. rewrite L. apply sumZ_map_ext_in. intros t Ht. f_equal.
  rewrite <- L in Ht. destruct (lv_add_cube lmin k t Ht F) as [La [Fa Sa]].
  unfold b2z. destruct (mem (lv_add k t) idx) eqn:E.
  - apply mem_In in E. apply init_idx_In in E. destruct E as [_ [_ Sm]].
    destruct (Z.leb_spec (sumZ t) (B - sumZ k)); [reflexivity|lia].
  - apply mem_false in E. destruct (Z.leb_spec (sumZ t) (B - sumZ k)); [|reflexivity].
    exfalso. apply E. apply init_idx_In. split; [congruence|]. split; [exact Fa|lia].
Qed.

Lemma init_coeff_member k c :
  In (k, c) (coefficients lmin idx) <->
  length k = S n /\ Forall (fun x => lmin <= x) k /\ c = sg (B - sumZ k) * PB n (B - sumZ k) /\ c <> 0.
Proof.
  pose proof (NoDup_keys_member (coefficients lmin idx) k c (coefficients_NoDup_keys lmin idx)
                (coefficients_nonzero lmin idx)) as M.
  split.
  - intro Hin.
    destruct (coefficients_key_wf lmin idx (S n) k c) as [L F]; [|exact Hin|].
    { intros g Hg. apply init_idx_In in Hg. destruct Hg as [Lg [Fg _]]. split; assumption. }
    apply M in Hin. destruct Hin as [E Hc]. split; [exact L|]. split; [exact F|]. split; [|exact Hc].
    rewrite E. apply init_coeff_value; assumption.
  - intros [L [F [E Hc]]]. apply M. split; [|exact Hc]. rewrite E. symmetry. apply init_coeff_value; assumption.
Qed.

Theorem std_perm_init : Permutation (combi_scheme_standard (S n) lmin lmax) (coefficients lmin idx).
Proof.
  apply NoDup_Permutation; [apply std_NoDup|apply coefficients_NoDup|].
  intros [k c]. rewrite std_member, init_coeff_member. fold B. split.
  - intros [q [Hq [L [F [Sm Ec]]]]]. split; [exact L|]. split; [exact F|].
    assert (B - sumZ k = Z.of_nat q) as Ee by (unfold B; lia). rewrite Ee.
    assert (q <= n)%nat as Hqn by lia.
    assert (PB n (Z.of_nat q) = pbin n q) as EP.
    { unfold PB. destruct (Z.ltb_spec (Z.of_nat q) 0); [lia|]. rewrite Nat2Z.id. reflexivity. }
    rewrite EP, sg_of_nat. rewrite (binom_pbin n q Hqn) in Ec. split; [exact Ec|].
    rewrite Ec. pose proof (pbin_nonzero n q Hqn). destruct (Nat.even q); lia.
  - intros [L [F [Ec Hc]]].
    set (e := B - sumZ k) in *.
    assert (0 <= e) as He0.
    { destruct (Z.ltb_spec e 0) as [Hneg|]; [|assumption]. exfalso. apply Hc. rewrite Ec. unfold PB.
      destruct (Z.ltb_spec e 0); lia. }
    assert (PB n e = pbin n (Z.to_nat e)) as EP.
    { unfold PB. destruct (Z.ltb_spec e 0); [lia|reflexivity]. }
    assert (Z.to_nat e <= n)%nat as Hen.
    { destruct (le_lt_dec (Z.to_nat e) n) as [H|H]; [exact H|]. exfalso. apply Hc. rewrite Ec, EP.
      rewrite pbin_gt by exact H. lia. }
    pose proof (sumZ_ge_length lmin k F) as Hs. rewrite L in Hs.
    exists (Z.to_nat e). rewrite Z2Nat.id by exact He0.
    split; [unfold e, B in *; lia|]. split; [exact L|]. split; [exact F|]. split; [unfold e; lia|].
    rewrite (binom_pbin n (Z.to_nat e) Hen). rewrite <- sg_of_nat. rewrite Z2Nat.id by exact He0.
    rewrite Ec, EP. reflexivity.
Qed.
End Init.

(* ---------- the general theorem ---------- *)
Theorem std_equals_adaptive_init : forall n lmin lmax s,
  init_scheme (S n) lmax lmin = Some s ->
  Permutation (combi_scheme_standard (S n) lmin lmax) (combi_scheme_adaptive s).
Proof.
  intros n lmin lmax s Hs. unfold init_scheme in Hs.
  destruct ((lmax >=? lmin) && (lmax >=? 0) && (lmin >=? 0)) eqn:E; [|discriminate].
  injection Hs as <-. unfold combi_scheme_adaptive, index_set. cbn [s_lmin s_active s_old].
  apply andb_true_iff in E. destruct E as [E _]. apply andb_true_iff in E. destruct E as [E _].
  apply std_perm_init. lia.
Qed.

Theorem std_perm_check_general : forall n lmin lmax, 0 <= lmin <= lmax ->
  exists s, init_scheme (S n) lmax lmin = Some s /\
            Permutation (combi_scheme_standard (S n) lmin lmax) (combi_scheme_adaptive s).
Proof.
  intros n lmin lmax H.
  assert ((lmax >=? lmin) && (lmax >=? 0) && (lmin >=? 0) = true) as E.
  { apply andb_true_iff. split; [apply andb_true_iff; split|]; lia. }
  destruct (init_scheme (S n) lmax lmin) as [s|] eqn:Hs.
  - exists s. split; [reflexivity|]. apply std_equals_adaptive_init. exact Hs.
  - unfold init_scheme in Hs. rewrite E in Hs. discriminate.
Qed.

(* explicit value of every coefficient of the closed form / the initial adaptive scheme *)
Corollary init_coefficient_formula : forall n lmin lmax s k c,
  init_scheme (S n) lmax lmin = Some s ->
  (In (k, c) (combi_scheme_adaptive s) <->
   length k = S n /\ Forall (fun x => lmin <= x) k /\
   let e := lmax - lmin + Z.of_nat (S n) * lmin - sumZ k in
   c = sg e * PB n e /\ c <> 0).
Proof.
  intros n lmin lmax s k c Hs. unfold init_scheme in Hs.
  destruct ((lmax >=? lmin) && (lmax >=? 0) && (lmin >=? 0)) eqn:E; [|discriminate].
  injection Hs as <-. unfold combi_scheme_adaptive, index_set. cbn [s_lmin s_active s_old].
  apply andb_true_iff in E. destruct E as [E _]. apply andb_true_iff in E. destruct E as [E _].
  apply init_coeff_member. lia.
Qed.
