(* C20: the converse of the minimiser theorem and uniqueness.
   - every minimiser of J(a) = 1/m |A a - y|^2 + lambda a^T M a (M symmetric; NO definiteness, NO sign condition on lambda)
     satisfies the normal equations (1/m A^T A + lambda M) alpha = 1/m A^T y of the model;
   - if the system is positive definite (1/m |A d|^2 + lambda d^T M d > 0 for d <> 0) the minimiser is unique, and so is the
     solution of the normal equations; instance: identity regularisation with lambda > 0 (ridge regression). *)
From Coq Require Import ZArith List QArith Qcanon Bool Lia Lqa.
From SG Require Import Base.QcUtil Model.Gram Model.Regress Proofs.GramHat Proofs.GramEntries Proofs.GramPD Proofs.GramNorm
  Proofs.RegressP Proofs.RegressLS.
Import ListNotations.
Open Scope Qc_scope.

Definition vscale (t : Qc) (v : list Qc) : list Qc := map (fun x => t * x) v.
Definition gap (A : list (list Qc)) (lam : Qc) (M : list (list Qc)) (d : list Qc) : Qc :=
  (1 / qc_of_nat (length A)) * sqnorm (matvec A d) + lam * quad M d.

Lemma vscale_length t v : length (vscale t v) = length v.
Proof. apply map_length. Qed.
Lemma dotQ_scale_r c r a : dotQ a (vscale c r) = c * dotQ a r.
Proof. unfold vscale. rewrite dotQ_comm, dotQ_scale_l, dotQ_comm. reflexivity. Qed.
Lemma matvec_vscale G t v : matvec G (vscale t v) = vscale t (matvec G v).
Proof. unfold matvec, vscale. rewrite map_map. apply map_ext. intro row. apply dotQ_scale_r. Qed.
Lemma sqnorm_vscale t v : sqnorm (vscale t v) = t * t * sqnorm v.
Proof. unfold sqnorm. rewrite dotQ_scale_r. unfold vscale. rewrite dotQ_scale_l. ring. Qed.
Lemma quad_vscale M t v : quad M (vscale t v) = t * t * quad M v.
Proof. unfold quad. rewrite matvec_vscale, dotQ_scale_r. unfold vscale at 1. rewrite dotQ_scale_l. ring. Qed.
Lemma gap_vscale A lam M t d : gap A lam M (vscale t d) = t * t * gap A lam M d.
Proof. unfold gap. rewrite matvec_vscale, sqnorm_vscale, quad_vscale. ring. Qed.

Lemma J_shift_gap n A y lam M alpha delta :
  wf_matrix n A -> A <> [] -> length y = length A -> wf_matrix n M -> length M = n -> length alpha = n -> length delta = n ->
  bilinear_symmetric n M ->
  J A y lam M (vadd alpha delta)
  = J A y lam M alpha
    + (1 + 1) * (dotQ delta (matvec (left_matrix_gen A lam M) alpha) - dotQ delta (right_vector A y)) + gap A lam M delta.
Proof. intros. unfold gap. apply (J_shift n); assumption. Qed.

Lemma left_matrix_gen_length n A lam M : wf_matrix n A -> A <> [] -> length M = n -> length (left_matrix_gen A lam M) = n.
Proof.
  intros Hwf Hne HlM. unfold left_matrix_gen, mat_add. rewrite map2_length; unfold mat_scale, gram_of_columns; rewrite !map_length;
    unfold transpose; rewrite transpose_n_length, (ncols_wf n A Hwf Hne); [reflexivity | exact HlM].
Qed.
Lemma right_vector_length n A y : wf_matrix n A -> A <> [] -> length (right_vector A y) = n.
Proof. intros Hwf Hne. unfold right_vector. rewrite map_length. unfold transpose. rewrite transpose_n_length. apply (ncols_wf n A Hwf Hne). Qed.

Lemma sqnorm_zero v : sqnorm v = 0 -> v = repeat 0 (length v).
Proof.
  unfold sqnorm. induction v as [|x v IH]; intro H; [reflexivity|]. cbn [dotQ] in H. cbn [length repeat].
  pose proof (sq_nonneg x) as P1. pose proof (dotQ_self_nonneg v) as P2.
  assert (Hx : x * x = 0) by (revert H P1 P2; generalize (x * x) (dotQ v v); intros; qc_order).
  assert (Hv : dotQ v v = 0) by (revert H P1 P2; generalize (x * x) (dotQ v v); intros; qc_order).
  rewrite <- (IH Hv). f_equal.
  destruct (Qc_eq_dec x 0) as [E|E]; [exact E|]. exfalso. pose proof (sq_pos x E) as P. rewrite Hx in P. revert P. unfold Qclt. intro P. apply Qlt_irrefl in P. exact P.
Qed.

Lemma vsub_zero_eq : forall a b, length b = length a -> vsub a b = repeat 0 (length a) -> a = b.
Proof.
  induction a as [|x a IH]; intros [|y b] Hl H; try discriminate; [reflexivity|].
  unfold vsub in *. cbn [map2 length repeat] in H.
  assert (H1 : x - y = 0) by (apply (f_equal (hd 0)) in H; exact H).
  assert (H2 : map2 Qcminus a b = repeat 0 (length a)) by (apply (f_equal (@tl Qc)) in H; exact H).
  f_equal.
  - assert (E : x = x - y + y) by ring. rewrite E, H1. ring.
  - apply IH; [simpl in Hl; lia | exact H2].
Qed.

(* ------------------------------------------------------------------ minimisers satisfy the normal equations *)
Theorem minimiser_satisfies_normal_equations n A y lam M alpha :
  wf_matrix n A -> A <> [] -> length y = length A -> wf_matrix n M -> length M = n -> length alpha = n ->
  bilinear_symmetric n M ->
  (forall beta, length beta = n -> J A y lam M alpha <= J A y lam M beta) ->
  matvec (left_matrix_gen A lam M) alpha = right_vector A y.
Proof.
  intros Hwf Hne Hy HM HlM Ha Hsym Hmin.
  set (La := matvec (left_matrix_gen A lam M) alpha). set (r := right_vector A y).
  assert (LLa : length La = n) by (unfold La; rewrite matvec_length; apply (left_matrix_gen_length n); assumption).
  assert (Lr : length r = n) by (apply (right_vector_length n); assumption).
  set (rho := vsub La r). assert (Lrho : length rho = n) by (unfold rho; rewrite vsub_length; congruence).
  (* along the direction -t rho the functional changes by  -2 t |rho|^2 + t^2 gap(rho) *)
  assert (Step : forall t, 0 <= (1 + 1) * (- t * sqnorm rho) + t * t * gap A lam M rho).
  { intro t. set (delta := vscale (- t) rho).
    assert (Ld : length delta = n) by (unfold delta; rewrite vscale_length; exact Lrho).
    pose proof (Hmin (vadd alpha delta) ltac:(rewrite vadd_length; congruence)) as Hm.
    rewrite (J_shift_gap n A y lam M alpha delta Hwf Hne Hy HM HlM Ha Ld Hsym) in Hm. fold La r in Hm.
    assert (E : dotQ delta La - dotQ delta r = - t * sqnorm rho).
    { rewrite <- dotQ_vsub_r by congruence. fold rho. unfold delta, vscale. rewrite dotQ_scale_l. reflexivity. }
    rewrite E in Hm. unfold delta in Hm. rewrite gap_vscale in Hm.
    replace (- t * - t) with (t * t) in Hm by ring.
    revert Hm. generalize (J A y lam M alpha) ((1 + 1) * (- t * sqnorm rho)) (t * t * gap A lam M rho). intros j p q Hm. qc_order. }
  assert (Z : sqnorm rho = 0).
  { pose proof (dotQ_self_nonneg rho) as P. fold (sqnorm rho) in P. set (s := sqnorm rho) in *. set (g := gap A lam M rho) in *.
    destruct (Qc_eq_dec s 0) as [E|E]; [exact E|]. exfalso.
    assert (Hs : 0 < s). { destruct (Qcle_or_lt s 0) as [L|L]; [exfalso; apply E; apply Qcle_antisym; assumption | exact L]. }
    destruct (Qcle_or_lt g 0) as [Hg|Hg].
    - pose proof (Step 1) as S1. revert S1 Hs Hg. replace ((1 + 1) * (- (1) * s) + 1 * 1 * g) with (g - (1 + 1) * s) by ring.
      intros. qc_order.
    - pose proof (Step (s / g)) as S1.
      assert (Eq : (1 + 1) * (- (s / g) * s) + s / g * (s / g) * g = - (s * s / g)) by (field; apply Qc_pos_nz; exact Hg).
      rewrite Eq in S1.
      assert (Pos : 0 < s * s / g) by (apply div_pos; [exact Hg | apply sq_pos; exact E]).
      revert S1 Pos. generalize (s * s / g). intros. qc_order. }
  apply sqnorm_zero in Z. rewrite Lrho in Z. apply vsub_zero_eq; [congruence | rewrite LLa; exact Z].
Qed.

(* ------------------------------------------------------------------ uniqueness for positive definite systems *)
Definition system_pd (n : nat) (A : list (list Qc)) (lam : Qc) (M : list (list Qc)) : Prop :=
  forall d, length d = n -> d <> repeat 0 n -> 0 < gap A lam M d.

Theorem minimiser_unique n A y lam M alpha beta :
  wf_matrix n A -> A <> [] -> length y = length A -> wf_matrix n M -> length M = n -> length alpha = n -> length beta = n ->
  bilinear_symmetric n M -> system_pd n A lam M ->
  matvec (left_matrix_gen A lam M) alpha = right_vector A y ->
  J A y lam M beta <= J A y lam M alpha -> beta = alpha.
Proof.
  intros Hwf Hne Hy HM HlM Ha Hb Hsym Hpd NE Hle.
  set (d := vsub beta alpha). assert (Ld : length d = n) by (unfold d; rewrite vsub_length; congruence).
  rewrite <- (vadd_vsub alpha beta) in Hle by congruence. fold d in Hle.
  rewrite (normal_equations_gap n A y lam M alpha d Hwf Hne Hy HM HlM Ha Ld Hsym NE) in Hle. fold (gap A lam M d) in Hle.
  assert (Dz : d = repeat 0 n).
  { destruct (list_eq_dec Qc_eq_dec d (repeat 0 n)) as [E|E]; [exact E|]. exfalso.
    pose proof (Hpd d Ld E) as P. revert Hle P. generalize (J A y lam M alpha) (gap A lam M d). intros. qc_order. }
  unfold d in Dz. rewrite <- Hb in Dz. apply vsub_zero_eq in Dz; [exact Dz | congruence].
Qed.

Corollary normal_equations_unique n A y lam M alpha beta :
  wf_matrix n A -> A <> [] -> length y = length A -> wf_matrix n M -> length M = n -> length alpha = n -> length beta = n ->
  bilinear_symmetric n M -> system_pd n A lam M ->
  matvec (left_matrix_gen A lam M) alpha = right_vector A y ->
  matvec (left_matrix_gen A lam M) beta = right_vector A y -> beta = alpha.
Proof.
  intros Hwf Hne Hy HM HlM Ha Hb Hsym Hpd NEa NEb.
  apply (minimiser_unique n A y lam M alpha beta); try assumption.
  set (d := vsub alpha beta). assert (Ld : length d = n) by (unfold d; rewrite vsub_length; congruence).
  rewrite <- (vadd_vsub beta alpha) by congruence. fold d.
  rewrite (normal_equations_gap n A y lam M beta d Hwf Hne Hy HM HlM Hb Ld Hsym NEb). fold (gap A lam M d).
  assert (G : 0 <= gap A lam M d).
  { destruct (list_eq_dec Qc_eq_dec d (repeat 0 n)) as [E|E].
    - rewrite E. unfold gap, sqnorm, quad.
      assert (Zd : forall G : list (list Qc), dotQ (matvec G (repeat 0 n)) (matvec G (repeat 0 n)) = 0 /\ dotQ (repeat 0 n) (matvec G (repeat 0 n)) = 0).
      { intro G0. assert (Zm : matvec G0 (repeat 0 n) = repeat 0 (length G0)).
        { unfold matvec. induction G0 as [|row G0 IHG]; [reflexivity|]. cbn [map length repeat]. rewrite IHG. f_equal.
          clear. revert row. induction n as [|k IHk]; intros [|x row]; simpl; try reflexivity. rewrite IHk. ring. }
        rewrite Zm. split.
        - clear. induction (length G0) as [|k IHk]; [reflexivity|]. cbn [repeat dotQ]. rewrite IHk. ring.
        - clear. generalize (length G0). induction n as [|k IHk]; intros [|j]; simpl; try reflexivity. rewrite IHk. ring. }
      destruct (Zd A) as [Z1 _]. destruct (Zd M) as [_ Z2]. rewrite Z1, Z2.
      replace (1 / qc_of_nat (length A) * 0 + lam * 0) with 0 by ring. apply Qcle_refl.
    - apply Qclt_le_weak. apply Hpd; assumption. }
  revert G. generalize (J A y lam M beta) (gap A lam M d). intros. qc_order.
Qed.

(* identity regularisation with lambda > 0: the system is positive definite for EVERY design matrix *)
Lemma ridge_system_pd n A lam : 0 < lam -> system_pd n A lam (identity n).
Proof.
  intros Hl d Ld Hnz. unfold gap.
  pose proof (inv_count_nonneg (length A)) as H1. pose proof (dotQ_self_nonneg (matvec A d)) as H2. fold (sqnorm (matvec A d)) in H2.
  pose proof (mul_nonneg _ _ H1 H2) as P1.
  assert (Q : quad (identity n) d = sqnorm d) by (unfold quad; rewrite <- Ld, matvec_identity; reflexivity).
  rewrite Q.
  assert (Pd : 0 < sqnorm d).
  { pose proof (dotQ_self_nonneg d) as P. fold (sqnorm d) in P.
    destruct (Qc_eq_dec (sqnorm d) 0) as [E|E].
    - exfalso. apply Hnz. rewrite <- Ld. apply sqnorm_zero. exact E.
    - destruct (Qcle_or_lt (sqnorm d) 0) as [L|L]; [exfalso; apply E; apply Qcle_antisym; assumption | exact L]. }
  assert (P2 : 0 < lam * sqnorm d).
  { replace 0 with (0 * sqnorm d) by ring. apply Qcmult_lt_compat_r; assumption. }
  revert P1 P2. generalize (1 / qc_of_nat (length A) * sqnorm (matvec A d)) (lam * sqnorm d). intros. qc_order.
Qed.

Theorem ridge_minimiser_unique n A y lam C alpha beta :
  wf_matrix n A -> A <> [] -> length y = length A -> length alpha = n -> length beta = n -> 0 < lam ->
  matvec (left_matrix A lam false C) alpha = right_vector A y ->
  J A y lam (identity n) beta <= J A y lam (identity n) alpha -> beta = alpha.
Proof.
  intros Hwf Hne Hy Ha Hb Hlam NE Hle. rewrite left_matrix_is_gen in NE. rewrite (ncols_wf n A Hwf Hne) in NE.
  destruct (identity_from_wf n n 0%nat) as [W L].
  exact (minimiser_unique n A y lam (identity n) alpha beta Hwf Hne Hy W L Ha Hb (identity_bilinear n) (ridge_system_pd n A lam Hlam) NE Hle).
Qed.
