(* C10 — phase 5: the matrix product by columns, the checked solve column by column, and the flat pole sweep theorem without any
   hypothesis on the solvers (forward substitution or checked Gauss). *)
From Coq Require Import ZArith List QArith Qcanon Bool Arith Lia.
From SG Require Import Base.QcUtil Model.Basis Model.BasisPieces Proofs.BasisLagrange Proofs.BasisHier Proofs.BasisInterp Proofs.BasisCheck
  Proofs.BasisFlat Proofs.BasisGaussCol.
Import ListNotations.
Open Scope Qc_scope.

Definition colsel (k : nat) (X : list (list Qc)) : list (list Qc) := map (fun x => [nthQ x k]) X.

Lemma veq_refl a : veq a a = true.
Proof.
  unfold veq. rewrite Nat.eqb_refl. cbn [andb]. apply forallb_forall. intros [x y] H. cbn [fst snd]. apply Qc_eqb_eq.
  induction a as [|z a IH]; [contradiction|]. cbn [combine] in H. destruct H as [H|H]; [injection H as E1 E2; subst; reflexivity | exact (IH H)].
Qed.

Lemma forallb_veq_refl (B : list (list Qc)) : forallb (fun ab => veq (fst ab) (snd ab)) (combine B B) = true.
Proof. induction B as [|b B IH]; [reflexivity|]. cbn [combine forallb fst snd]. rewrite veq_refl, IH. reflexivity. Qed.

Lemma nthQ_vsum k : forall l : list (list Qc), nthQ (vsum [] lvadd l) k = sumQ (map (fun v => nthQ v k) l).
Proof. induction l as [|v l IH]; [apply nthQ_nil|]. cbn [vsum map sumQ]. rewrite nthQ_lvadd, IH. reflexivity. Qed.

Lemma vsum_singletons : forall l : list Qc, l <> [] -> vsum [] lvadd (map (fun x => [x]) l) = [sumQ l].
Proof.
  induction l as [|x l IH]; intro H; [contradiction|].
  destruct l as [|y l]; [cbn; f_equal; ring|].
  change (vsum [] lvadd (map (fun x0 => [x0]) (x :: y :: l))) with (lvadd [x] (vsum [] lvadd (map (fun x0 => [x0]) (y :: l)))).
  rewrite IH by discriminate. reflexivity.
Qed.

Lemma combine_map_r {A B C} (f : B -> C) : forall (a : list A) (b : list B),
  combine a (map f b) = map (fun ab => (fst ab, f (snd ab))) (combine a b).
Proof. induction a as [|x a IH]; intros [|y b]; try reflexivity. cbn [map combine fst snd]. rewrite IH. reflexivity. Qed.

(* THE MATRIX-PRODUCT-BY-COLUMNS LEMMA: one row of M applied to column k of X is the singleton of component k of the row applied to X *)
Lemma row_apply_column (row : list Qc) (X : list (list Qc)) k :
  combine row X <> [] ->
  vsum [] lvadd (map (fun cs => lvscale (fst cs) (snd cs)) (combine row (colsel k X)))
  = [nthQ (vsum [] lvadd (map (fun cs => lvscale (fst cs) (snd cs)) (combine row X))) k].
Proof.
  intro Hne. unfold colsel. rewrite combine_map_r, map_map. cbn [fst snd lvscale map].
  rewrite nthQ_vsum, map_map.
  rewrite <- (map_map (fun cs => fst cs * nthQ (snd cs) k) (fun x => [x])).
  rewrite vsum_singletons.
  - f_equal. f_equal. apply map_ext. intro cs. symmetry. apply nthQ_lvscale.
  - intro E. apply Hne. destruct (combine row X); [reflexivity | discriminate E].
Qed.

Theorem mapplyV_by_columns (M : matrix) (X : list (list Qc)) k :
  (forall r, In r M -> combine r X <> []) -> mapplyV M (colsel k X) = colsel k (mapplyV M X).
Proof.
  intro H. unfold mapplyV, mapply, colsel. rewrite map_map. apply map_ext_in. intros row Hr.
  apply row_apply_column. exact (H row Hr).
Qed.

(* ------------------------------------------------------------------ the checked solve, column by column *)
Theorem solve_checked_columnwise (M : matrix) (B X : list (list Qc)) len k :
  (forall r, In r M -> length r = length M) -> (forall b, In b B -> length b = len) -> (k < len)%nat ->
  solve_checked M B = Some X ->
  length X = length B /\ (forall x, In x X -> length x = len) /\ solve_checked M (colsel k B) = Some (colsel k X).
Proof.
  intros HM HB Hk H. unfold solve_checked in H.
  destruct (gauss_solve M B) as [X'|] eqn:G; [|discriminate].
  destruct ((length X' =? length B)%nat && (length M =? length B)%nat
            && forallb (fun x => (length x =? length (hd [] B))%nat) X'
            && forallb (fun ab => veq (fst ab) (snd ab)) (combine (mapplyV M X') B)) eqn:C; [|discriminate].
  injection H as H. subst X'.
  apply andb_true_iff in C. destruct C as [C C4]. apply andb_true_iff in C. destruct C as [C C3].
  apply andb_true_iff in C. destruct C as [C1 C2]. apply Nat.eqb_eq in C1. apply Nat.eqb_eq in C2.
  assert (SX : forall x, In x X -> length x = len).
  { intros x Hx. rewrite forallb_forall in C3. specialize (C3 x Hx). apply Nat.eqb_eq in C3. rewrite C3.
    destruct B as [|b0 B']; [destruct X; [contradiction | discriminate C1]|]. cbn [hd]. apply HB. left. reflexivity. }
  split; [exact C1|]. split; [exact SX|].
  unfold solve_checked. unfold colsel at 1. rewrite (gauss_solve_columnwise M B len k HM HB Hk), G. fold (colsel k X).
  assert (E4 : mapplyV M X = B).
  { apply meq_eq. unfold meq. apply andb_true_iff. split; [|exact C4].
    apply Nat.eqb_eq. unfold mapplyV, mapply. rewrite map_length. exact C2. }
  assert (T1 : (length (colsel k X) =? length (colsel k B))%nat = true) by (unfold colsel; rewrite !map_length; apply Nat.eqb_eq; exact C1).
  assert (T2 : (length M =? length (colsel k B))%nat = true) by (unfold colsel; rewrite map_length; apply Nat.eqb_eq; exact C2).
  assert (T3 : forallb (fun x => (length x =? length (hd [] (colsel k B)))%nat) (colsel k X) = true).
  { apply forallb_forall. intros x Hx. unfold colsel in Hx. apply in_map_iff in Hx. destruct Hx as [x0 [E Hx0]]. subst x.
    destruct B as [|b0 B']; [destruct X; [contradiction | discriminate C1]|]. reflexivity. }
  assert (T4 : forallb (fun ab => veq (fst ab) (snd ab)) (combine (mapplyV M (colsel k X)) (colsel k B)) = true).
  { rewrite mapplyV_by_columns.
    - rewrite E4. apply forallb_veq_refl.
    - intros r Hr E. pose proof (HM r Hr) as Lr.
      destruct r as [|r0 r']; [destruct M; [contradiction | discriminate Lr]|].
      destruct X as [|x0 X']; [|discriminate E]. destruct B; [|discriminate C1]. destruct M; [contradiction | discriminate C2]. }
  rewrite T1, T2, T3, T4. reflexivity.
Qed.

Lemma colloc_square sys : forall r, In r (colloc sys) -> length r = length (colloc sys).
Proof. intros r Hr. unfold colloc in *. apply in_map_iff in Hr. destruct Hr as [x [E _]]. subst r. rewrite !map_length. reflexivity. Qed.

(* every checked-Gauss system acts column by column wherever its solve succeeds *)
Theorem gauss_system_colwise_succ s : s_ord s = None -> sys_single s \/ sys_colwise_succ s.
Proof.
  intro Ho. destruct (s_basis s) as [|[x bf] [|q t]] eqn:E.
  - right. intros cs len r Lc Sc Hr.
    assert (Sv : solve1V s cs = solve_checked (colloc (s_basis s)) cs) by (unfold solve1V; rewrite E, Ho; reflexivity).
    rewrite Sv in Hr.
    assert (G : forall k, (k < len)%nat -> length r = length cs /\ (forall x0, In x0 r -> length x0 = len)
                                         /\ solve_checked (colloc (s_basis s)) (colsel k cs) = Some (colsel k r))
      by (intros k Hk; exact (solve_checked_columnwise _ cs r len k (colloc_square _) Sc Hk Hr)).
    assert (L0 : length r = s_n s /\ (forall c, In c r -> length c = len)).
    { unfold s_n in *. rewrite E in *. cbn [length] in Lc. destruct cs; [|discriminate Lc].
      unfold solve_checked, gauss_solve in Hr. cbn in Hr. injection Hr as Hr. subst r. split; [reflexivity | intros c []]. }
    split; [exact (proj1 L0)|]. split; [exact (proj2 L0)|].
    intros k Hk. destruct (G k Hk) as [_ [_ Ck]]. unfold solve1Q. rewrite Ho.
    replace (map (fun x0 => [x0]) (comp k cs)) with (colsel k cs) by (unfold colsel, comp; rewrite map_map; reflexivity).
    rewrite Ck. f_equal. unfold colsel, comp. rewrite map_map. reflexivity.
  - left. exists x, bf. exact E.
  - right. intros cs len r Lc Sc Hr.
    assert (Sv : solve1V s cs = solve_checked (colloc (s_basis s)) cs) by (unfold solve1V; rewrite E, Ho; reflexivity).
    rewrite Sv in Hr.
    assert (G : forall k, (k < len)%nat -> length r = length cs /\ (forall x0, In x0 r -> length x0 = len)
                                         /\ solve_checked (colloc (s_basis s)) (colsel k cs) = Some (colsel k r))
      by (intros k Hk; exact (solve_checked_columnwise _ cs r len k (colloc_square _) Sc Hk Hr)).
    assert (L0 : length r = s_n s /\ (forall c, In c r -> length c = len)).
    { unfold solve_checked in Hr. destruct (gauss_solve (colloc (s_basis s)) cs) as [X'|]; [|discriminate].
      destruct ((length X' =? length cs)%nat && (length (colloc (s_basis s)) =? length cs)%nat
                && forallb (fun x0 => (length x0 =? length (hd [] cs))%nat) X'
                && forallb (fun ab => veq (fst ab) (snd ab)) (combine (mapplyV (colloc (s_basis s)) X') cs)) eqn:C; [|discriminate].
      injection Hr as Hr. subst X'.
      apply andb_true_iff in C. destruct C as [C _]. apply andb_true_iff in C. destruct C as [C C3].
      apply andb_true_iff in C. destruct C as [C1 _]. apply Nat.eqb_eq in C1.
      split; [rewrite C1; exact Lc|].
      intros c Hc. rewrite forallb_forall in C3. specialize (C3 c Hc). apply Nat.eqb_eq in C3. rewrite C3.
      destruct cs as [|c0 cs']; [destruct r; [contradiction | discriminate C1]|]. cbn [hd]. apply Sc. left. reflexivity. }
    split; [exact (proj1 L0)|]. split; [exact (proj2 L0)|].
    intros k Hk. destruct (G k Hk) as [_ [_ Ck]]. unfold solve1Q. rewrite Ho.
    replace (map (fun x0 => [x0]) (comp k cs)) with (colsel k cs) by (unfold colsel, comp; rewrite map_map; reflexivity).
    rewrite Ck. f_equal. unfold colsel, comp. rewrite map_map. reflexivity.
Qed.

(* ------------------------------------------------------------------ UNCONDITIONAL: forward substitution or checked Gauss *)
Theorem hier_flat_follows_hier_nd_all_solvers ss v sur :
  Forall (fun s => s_n s <> O /\ (s_ord s = None \/ sys_sound s)) ss ->
  length v = prodN (map s_n ss) ->
  hier_nd ss v = Some sur -> hier_flat ss v = Some sur.
Proof.
  intros H Hv Hnd. apply (hier_flat_follows_hier_nd ss v sur); [|exact Hv | exact Hnd].
  apply Forall_impl with (2 := H). intros s [Hn Hs]. split; [exact Hn|].
  destruct (s_ord s) as [o|] eqn:Eo.
  - destruct Hs as [Hs|Hs]; [discriminate Hs|].
    destruct (fsub_system_colwise s o Eo Hs) as [S|C]; [left; exact S | right; apply sys_colwise_is_succ; exact C].
  - exact (gauss_system_colwise_succ s Eo).
Qed.

(* the model pipeline (solver chosen by choose_solver for every dimension: forward substitution on accepted Lagrange systems,
   checked Gauss on B-spline / modified systems): whenever the tensor recursion returns surpluses, the code-shaped flat pole sweep
   returns the same ones - no hypothesis on the solvers left *)
Corollary pipeline_flat_sweep ds v sur :
  let ss := map (fun d => fst (choose_solver d)) ds in
  Forall (fun s => s_n s <> O) ss -> length v = prodN (map s_n ss) ->
  hier_nd ss v = Some sur -> hier_flat ss v = Some sur.
Proof.
  cbv zeta. intros Hn Hv Hnd. apply hier_flat_follows_hier_nd_all_solvers; [|exact Hv | exact Hnd].
  rewrite Forall_forall in *. intros s Hs. split; [exact (Hn s Hs)|]. right.
  apply in_map_iff in Hs. destruct Hs as [d [E _]]. subst s. apply choose_solver_sound.
Qed.
