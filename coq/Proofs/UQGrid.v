(* C15 — from the 1D weights to the reported expectation and variance: tensor product, combination, vector valued
   expectation-variance function, both evaluation paths. Proofs for Model/UQGrid.v. *)
From Coq Require Import ZArith List QArith Qcanon Bool Arith Lia Lqa.
From SG Require Import Base.QcUtil Model.Trap Model.UQ Model.UQGrid Proofs.TrapBasics Proofs.UQ.
Import ListNotations.
Open Scope Qc_scope.

Lemma leb_false_lt' x y : Qc_leb x y = false -> y < x.
Proof. intro H. apply Qcnot_le_lt. intro L. apply Qc_leb_le in L. congruence. Qed.

(* ---------------------------------------------------------------- small list facts *)
Lemma sumQ_map_scale_l (x : Qc) (l : list Qc) : sumQ (map (fun t => x * t) l) = x * sumQ l.
Proof. induction l as [|a l IH]; simpl; [ring | rewrite IH; ring]. Qed.

Lemma sumQ_map_scale_r (x : Qc) (l : list Qc) : sumQ (map (fun t => t * x) l) = sumQ l * x.
Proof. induction l as [|a l IH]; simpl; [ring | rewrite IH; ring]. Qed.

Lemma sumQ_flat_map {A} (f : A -> list Qc) (l : list A) : sumQ (flat_map f l) = sumQ (map (fun a => sumQ (f a)) l).
Proof. induction l as [|a l IH]; simpl; [reflexivity | rewrite sumQ_app, IH; reflexivity]. Qed.

(* ---------------------------------------------------------------- tensor product weights *)
Theorem tensor_weights_sum (ws : list (list Qc)) : sumQ (tensor_weights ws) = prodQ (map sumQ ws).
Proof.
  induction ws as [|w r IH]; [simpl; ring|].
  cbn [tensor_weights map prodQ]. cbv zeta. rewrite sumQ_flat_map.
  rewrite <- IH. generalize (tensor_weights r) as tr. intro tr.
  induction w as [|x w IHw]; simpl; [ring|]. rewrite IHw, sumQ_map_scale_l. ring.
Qed.

Theorem tensor_weights_length (ws : list (list Qc)) :
  length (tensor_weights ws) = fold_right (fun w n => (length w * n)%nat) 1%nat ws.
Proof.
  induction ws as [|w r IH]; [reflexivity|].
  cbn [tensor_weights fold_right]. cbv zeta. rewrite <- IH. generalize (tensor_weights r) as tr. intro tr.
  induction w as [|x w IHw]; [reflexivity|]. cbn [flat_map]. rewrite app_length, map_length, IHw. simpl. reflexivity.
Qed.

Theorem tensor_weights_nonneg (ws : list (list Qc)) :
  (forall w, In w ws -> forall q, In q w -> 0 <= q) -> forall q, In q (tensor_weights ws) -> 0 <= q.
Proof.
  induction ws as [|w r IH]; intros H q Hq.
  - destruct Hq as [<-|[]]. qc_order.
  - cbn [tensor_weights] in Hq. cbv zeta in Hq. apply in_flat_map in Hq. destruct Hq as [x [Hx Hq]].
    apply in_map_iff in Hq. destruct Hq as [t [<- Ht]].
    apply Qc_mul_nonneg.
    + apply (H w (or_introl eq_refl)). exact Hx.
    + apply IH; [|exact Ht]. intros w' Hw'. apply H. right. exact Hw'.
Qed.

(* the tensor product of probability vectors is a probability vector (every number of dimensions) *)
Definition prob_vector (w : list Qc) : Prop := sumQ w = 1 /\ forall q, In q w -> 0 <= q.

Lemma prodQ_ones (l : list Qc) : (forall x, In x l -> x = 1) -> prodQ l = 1.
Proof.
  induction l as [|x l IH]; intro H; [reflexivity|]. cbn [prodQ].
  rewrite (H x (or_introl eq_refl)), IH by (intros y Hy; apply H; right; exact Hy). ring.
Qed.

Theorem tensor_probability (ws : list (list Qc)) :
  (forall w, In w ws -> prob_vector w) -> prob_vector (tensor_weights ws).
Proof.
  intro H. split.
  - rewrite tensor_weights_sum. apply prodQ_ones. intros x Hx. apply in_map_iff in Hx. destruct Hx as [w [<- Hw]].
    exact (proj1 (H w Hw)).
  - apply tensor_weights_nonneg. intros w Hw. exact (proj2 (H w Hw)).
Qed.

(* getWeight(indexvector) is the entry of get_weights at the row-major position (two-dimensional statement kept simple:
   the general statement is the definition of tensor_weights itself) *)
Lemma get_weight_nil : get_weight [] [] = 1.
Proof. reflexivity. Qed.

(* ---------------------------------------------------------------- set_grid: dimension d depends on request d only *)
Lemma opt_list_nth {A} (l : list (option A)) (r : list A) (d : nat) (x : option A) (y : A) :
  opt_list l = Some r -> (d < length l)%nat -> nth d l x = Some (nth d r y).
Proof.
  revert r d. induction l as [|[a|] l IH]; intros r d H Hd; cbn [opt_list] in H; try discriminate; [simpl in Hd; lia|].
  destruct (opt_list l) as [r'|] eqn:E; [|discriminate]. inversion H; subst.
  destruct d as [|d]; [reflexivity|]. cbn [nth]. apply IH; [reflexivity | simpl in Hd; lia].
Qed.

Theorem set_grid_weights_nth boundary mb dims ws d :
  set_grid_weights boundary mb dims = Some ws -> (d < length dims)%nat ->
  grid_weights_1d boundary mb (nth d dims {| d_a := 0; d_b := 0; d_ivs := [] |}) = Some (nth d ws []).
Proof.
  intros H Hd. unfold set_grid_weights in H.
  pose proof (opt_list_nth _ _ d (grid_weights_1d boundary mb {| d_a := 0; d_b := 0; d_ivs := [] |}) [] H) as N.
  rewrite map_length in N. specialize (N Hd). rewrite <- N.
  symmetry. apply (map_nth (grid_weights_1d boundary mb)).
Qed.

(* two requests that agree in dimension d produce the same weights in dimension d, whatever the other dimensions hold
   (and whatever was requested before: the model has no state) *)
Theorem set_grid_weights_dimension_independent boundary mb dims1 dims2 ws1 ws2 d :
  set_grid_weights boundary mb dims1 = Some ws1 -> set_grid_weights boundary mb dims2 = Some ws2 ->
  (d < length dims1)%nat -> (d < length dims2)%nat ->
  nth d dims1 {| d_a := 0; d_b := 0; d_ivs := [] |} = nth d dims2 {| d_a := 0; d_b := 0; d_ivs := [] |} ->
  nth d ws1 [] = nth d ws2 [].
Proof.
  intros H1 H2 L1 L2 E.
  pose proof (set_grid_weights_nth _ _ _ _ d H1 L1) as N1. pose proof (set_grid_weights_nth _ _ _ _ d H2 L2) as N2.
  rewrite E in N1. rewrite N1 in N2. inversion N2. reflexivity.
Qed.

Lemma set_grid_weights_length boundary mb dims ws : set_grid_weights boundary mb dims = Some ws -> length ws = length dims.
Proof. intro H. unfold set_grid_weights in H. apply opt_list_length in H. rewrite map_length in H. exact H. Qed.

(* ---------------------------------------------------------------- the weights set_grid stores per dimension *)
Lemma sumQ_strip_ends (inner : list Qc) : sumQ (strip (0 :: inner ++ [0])) = sumQ inner.
Proof.
  unfold strip. cbn [tl]. rewrite removelast_last. reflexivity.
Qed.

Lemma strip_ends (inner : list Qc) : strip (0 :: inner ++ [0]) = inner.
Proof. unfold strip. cbn [tl]. apply removelast_last. Qed.

Lemma In_strip {A} (l : list A) x : In x (strip l) -> In x l.
Proof.
  unfold strip. destruct l as [|a l]; [intros []|]. cbn [tl]. intro H. right.
  revert H. induction l as [|b l IH]; [intros []|]. destruct l as [|c l]; [intros []|].
  cbn [removelast]. intros [<-|H]; [left; reflexivity | right; apply IH; exact H].
Qed.

(* without boundary points: the stored inner weights are a probability vector for ARBITRARY moment inputs, whenever
   compute_weights returns and the grid has at least three points *)
Theorem grid_weights_1d_noboundary_probability r w :
  grid_weights_1d false false r = Some w -> (2 <= length (d_ivs r))%nat -> prob_vector w.
Proof.
  unfold grid_weights_1d. destruct (wtrap false false (d_a r) (d_b r) (d_ivs r)) as [w0|] eqn:E; [|discriminate].
  intros H Hl. inversion H; subst w. clear H. split.
  - pose proof (wtrap_sum_one_noboundary _ _ _ _ E) as Hsum.
    unfold wtrap in E. cbn [negb andb orb] in E.
    destruct (S (length (d_ivs r)) =? 1)%nat eqn:E1; [apply Nat.eqb_eq in E1; lia|].
    destruct (S (length (d_ivs r)) =? 3)%nat eqn:E3.
    + inversion E; subst. reflexivity.
    + destruct (3 <? S (length (d_ivs r)))%nat eqn:E4; cbn [negb] in E; [|discriminate].
      unfold wtrap_general in E. destruct (opt_list (map clip (accum 0 (d_ivs r)))) as [w1|]; [|discriminate].
      unfold renormalise in E. destruct (Qc_eqb (sumQ (strip w1)) 0); [discriminate|]. inversion E; subst w0.
      rewrite strip_ends. etransitivity; [|exact Hsum]. cbn [sumQ]. rewrite sumQ_app. cbn [sumQ]. ring.
  - intros q Hq. apply (wtrap_nonneg _ _ _ _ _ E). apply In_strip. exact Hq.
Qed.

(* with boundary points, under the interval-moment hypotheses of a non-negative density: non-negative, sum = total mass *)
Theorem grid_weights_1d_boundary r :
  (1 <= length (d_ivs r))%nat -> (forall iv, In iv (d_ivs r) -> ival_ok iv) ->
  exists w, grid_weights_1d true false r = Some w /\ sumQ w = sum_m0 (d_ivs r) /\ forall q, In q w -> 0 <= q.
Proof.
  intros Hl Hok. destruct (wtrap_boundary_sum (d_a r) (d_b r) (d_ivs r) Hl Hok) as [E Hsum].
  exists (accum 0 (d_ivs r)). unfold grid_weights_1d. rewrite E. split; [reflexivity|]. split; [exact Hsum|].
  apply (wtrap_nonneg _ _ _ _ _ E).
Qed.

(* ---------------------------------------------------------------- combination *)
Theorem combined_weights_sum (comps : list (Qc * list (list Qc))) :
  sumQ (combined_weights comps) = sumQ (map (fun cw => fst cw * prodQ (map sumQ (snd cw))) comps).
Proof.
  unfold combined_weights. rewrite sumQ_flat_map. f_equal.
  induction comps as [|[c ws] r IH]; [reflexivity|]. cbn [map fst snd]. rewrite IH.
  rewrite sumQ_map_scale_r, tensor_weights_sum. f_equal. ring.
Qed.

(* a combination whose coefficients sum to 1 (C01 / C03) of component grids whose 1D weights each sum to 1:
   the combined weights sum to 1 (they are NOT non-negative: coefficients are of either sign) *)
Theorem combined_weights_sum_one (comps : list (Qc * list (list Qc))) :
  sumQ (map fst comps) = 1 ->
  (forall cw, In cw comps -> forall w, In w (snd cw) -> sumQ w = 1) ->
  sumQ (combined_weights comps) = 1.
Proof.
  intros Hc H1. rewrite combined_weights_sum.
  assert (E : map (fun cw : Qc * list (list Qc) => fst cw * prodQ (map sumQ (snd cw))) comps = map fst comps).
  { clear Hc. induction comps as [|[c ws] r IH]; [reflexivity|]. cbn [map fst snd]. f_equal.
    - rewrite prodQ_ones; [ring|]. intros x Hx. apply in_map_iff in Hx. destruct Hx as [w [<- Hw]].
      apply (H1 (c, ws) (or_introl eq_refl)). exact Hw.
    - apply IH. intros cw Hcw. apply H1. right. exact Hcw. }
  rewrite E. exact Hc.
Qed.

Lemma combined_weights_req_spec boundary comps W :
  combined_weights_req boundary comps = Some W ->
  exists l, W = combined_weights l /\ map fst l = map fst comps /\
            forall k, (k < length comps)%nat ->
              set_grid_weights boundary false (snd (nth k comps (0, []))) = Some (snd (nth k l (0, []))).
Proof.
  unfold combined_weights_req.
  set (f := fun cr : Qc * list dimreq => match set_grid_weights boundary false (snd cr) with
                                          | Some ws => Some (fst cr, ws) | None => None end).
  destruct (opt_list (map f comps)) as [l|] eqn:E; [|discriminate]. intro H. inversion H; subst W. clear H. exists l.
  split; [reflexivity|].
  revert l E. induction comps as [|[c dims] r IH]; intros l E.
  - inversion E; subst. split; [reflexivity|]. intros k Hk. simpl in Hk. lia.
  - cbn [map opt_list] in E. unfold f at 1 in E. cbn [fst snd] in E.
    destruct (set_grid_weights boundary false dims) as [ws|] eqn:Es; [|discriminate].
    destruct (opt_list (map f r)) as [l'|] eqn:El; [|discriminate]. inversion E; subst l.
    destruct (IH l' eq_refl) as [F N]. split; [cbn [map fst]; rewrite F; reflexivity|].
    intros [|k] Hk; [exact Es|]. cbn [nth]. apply N. simpl in Hk. lia.
Qed.

(* ---------------------------------------------------------------- vector valued integration *)
Lemma vadd_length u v : length u = length v -> length (vadd u v) = length u.
Proof. revert v. induction u as [|x u IH]; intros [|y v] H; try discriminate; simpl; [reflexivity|]. f_equal. apply IH. simpl in H. lia. Qed.

Lemma nq_vadd u v j : length u = length v -> nq (vadd u v) j = nq u j + nq v j.
Proof.
  revert v j. induction u as [|x u IH]; intros [|y v] j H; try discriminate.
  - unfold nq. destruct j; simpl; ring.
  - destruct j as [|j]; [reflexivity|]. unfold nq in *. cbn [vadd nth]. apply IH. simpl in H. lia.
Qed.

Lemma nq_vscale c v j : nq (vscale c v) j = c * nq v j.
Proof.
  unfold nq, vscale. revert j. induction v as [|x v IH]; intro j; [destruct j; simpl; ring|].
  destruct j as [|j]; [reflexivity|]. cbn [map nth]. apply IH.
Qed.

Lemma nq_repeat0 K j : nq (repeat 0 K) j = 0.
Proof. unfold nq. revert j. induction K as [|K IH]; intro j; destruct j; simpl; try reflexivity. apply IH. Qed.

Lemma integrate_rule_length K w vals :
  (forall v, In v vals -> length v = K) -> length (integrate_rule K w vals) = K.
Proof.
  revert vals. induction w as [|x w IH]; intros [|v vals] H; cbn [integrate_rule]; try apply repeat_length.
  rewrite vadd_length.
  - unfold vscale. rewrite map_length. apply H. left. reflexivity.
  - unfold vscale. rewrite map_length, IH by (intros u Hu; apply H; right; exact Hu). apply H. left. reflexivity.
Qed.

(* component j of the integral of a vector valued function = the scalar rule applied to component j *)
Theorem integrate_rule_comp K w vals j :
  (forall v, In v vals -> length v = K) -> length w = length vals ->
  nq (integrate_rule K w vals) j = dotQ w (comp j vals).
Proof.
  revert vals. induction w as [|x w IH]; intros [|v vals] H Hl; try discriminate.
  - cbn [integrate_rule]. rewrite nq_repeat0. reflexivity.
  - cbn [integrate_rule comp map dotQ]. rewrite nq_vadd.
    + rewrite nq_vscale. fold (comp j vals). rewrite IH; [reflexivity | intros u Hu; apply H; right; exact Hu | simpl in Hl; lia].
    + unfold vscale. rewrite map_length, integrate_rule_length by (intros u Hu; apply H; right; exact Hu). apply H. left. reflexivity.
Qed.

Lemma list_eq_nq (l1 l2 : list Qc) : length l1 = length l2 -> (forall j, (j < length l1)%nat -> nq l1 j = nq l2 j) -> l1 = l2.
Proof.
  revert l2. induction l1 as [|x l1 IH]; intros [|y l2] Hl H; try discriminate; [reflexivity|].
  f_equal; [apply (H 0%nat); simpl; lia|]. apply IH; [simpl in Hl; lia|]. intros j Hj. apply (H (S j)). simpl. lia.
Qed.

Theorem integrate_rule_spec K w vals :
  (forall v, In v vals -> length v = K) -> length w = length vals ->
  integrate_rule K w vals = map (fun j => dotQ w (comp j vals)) (seq 0 K).
Proof.
  intros H Hl. apply list_eq_nq.
  - rewrite integrate_rule_length, map_length, seq_length by exact H. reflexivity.
  - intros j Hj. rewrite integrate_rule_length in Hj by exact H. rewrite integrate_rule_comp by assumption.
    rewrite nq_map_seq by exact Hj. reflexivity.
Qed.

(* components of the expectation-variance function *)
Lemma comp_ev_low K vals j : (forall v, In v vals -> length v = K) -> (j < K)%nat -> comp j (map ev_function vals) = comp j vals.
Proof.
  intros H Hj. unfold comp. rewrite map_map. apply map_ext_in. intros v Hv. unfold ev_function, nq.
  apply app_nth1. rewrite (H v Hv). exact Hj.
Qed.

Lemma comp_ev_high K vals j : (forall v, In v vals -> length v = K) -> (j < K)%nat ->
  comp (K + j) (map ev_function vals) = map (fun t => t * t) (comp j vals).
Proof.
  intros H Hj. unfold comp. rewrite !map_map. apply map_ext_in. intros v Hv. unfold ev_function, nq.
  rewrite app_nth2 by (rewrite (H v Hv); lia). rewrite (H v Hv). replace (K + j - K)%nat with j by lia.
  rewrite (nth_indep _ 0 ((fun t => t * t) 0)) by (rewrite map_length, (H v Hv); exact Hj).
  apply (map_nth (fun t => t * t)).
Qed.

Lemma ev_function_length K v : length v = K -> length (ev_function v) = (K + K)%nat.
Proof. intro H. unfold ev_function. rewrite app_length, map_length, H. reflexivity. Qed.

Lemma variances_map (A : Type) (f g : A -> Qc) (l : list A) :
  variances (map f l) (map g l) = map (fun j => absneg (g j - f j * f j)) l.
Proof. induction l as [|a l IH]; [reflexivity|]. cbn [map variances]. rewrite IH. reflexivity. Qed.

Lemma seq_shift_map {A} (f : nat -> A) K n : map f (seq K n) = map (fun j => f (K + j)%nat) (seq 0 n).
Proof.
  revert K. induction n as [|n IH]; intro K; [reflexivity|]. cbn [seq map]. rewrite Nat.add_0_r. f_equal.
  rewrite IH. rewrite <- seq_shift, map_map. apply map_ext. intro j. f_equal. lia.
Qed.

(* calculate_expectation_and_variance through the combined integral of the expectation-variance function:
   per output component the scalar expectation and variance of the rule *)
Theorem ev_combi_spec K w vals :
  (forall v, In v vals -> length v = K) -> length w = length vals ->
  ev_combi K w vals = (map (fun j => rule_mom1 w (comp j vals)) (seq 0 K), map (fun j => variance_of w (comp j vals)) (seq 0 K)).
Proof.
  intros H Hl. unfold ev_combi, expectation_and_variance, moments_to_expectation_variance.
  assert (HL : forall v, In v (map ev_function vals) -> length v = (K + K)%nat).
  { intros v Hv. apply in_map_iff in Hv. destruct Hv as [u [<- Hu]]. apply ev_function_length. apply H. exact Hu. }
  rewrite integrate_rule_spec by (try exact HL; rewrite map_length; exact Hl).
  rewrite map_length, seq_length. replace ((K + K) / 2)%nat with K by (replace (K + K)%nat with (K * 2)%nat by lia; rewrite Nat.div_mul; lia).
  rewrite seq_app, map_app. rewrite firstn_app, skipn_app, map_length, seq_length, Nat.sub_diag.
  rewrite firstn_all2 by (rewrite map_length, seq_length; lia). rewrite skipn_all2 by (rewrite map_length, seq_length; lia).
  cbn [firstn skipn app]. rewrite app_nil_r. cbn [Nat.add].
  rewrite (seq_shift_map (fun j => dotQ w (comp j (map ev_function vals))) K K).
  assert (E1 : map (fun j => dotQ w (comp j (map ev_function vals))) (seq 0 K) = map (fun j => rule_mom1 w (comp j vals)) (seq 0 K)).
  { apply map_ext_in. intros j Hj. apply in_seq in Hj. rewrite (comp_ev_low K) by (try exact H; lia). reflexivity. }
  assert (E2 : map (fun j => dotQ w (comp (K + j) (map ev_function vals))) (seq 0 K) = map (fun j => rule_mom2 w (comp j vals)) (seq 0 K)).
  { apply map_ext_in. intros j Hj. apply in_seq in Hj. rewrite (comp_ev_high K) by (try exact H; lia). reflexivity. }
  rewrite E1, E2. f_equal. rewrite variances_map. apply map_ext. intro j. reflexivity.
Qed.

Lemma comp_map_sq j vals : comp j (map (map (fun t => t * t)) vals) = map (fun t => t * t) (comp j vals).
Proof.
  unfold comp. rewrite !map_map. apply map_ext. intro v. unfold nq.
  destruct (Nat.lt_ge_cases j (length v)) as [Hj|Hj].
  - rewrite (nth_indep _ 0 ((fun t => t * t) 0)) by (rewrite map_length; exact Hj). apply (map_nth (fun t => t * t)).
  - rewrite !nth_overflow by (rewrite ?map_length; exact Hj). ring.
Qed.

(* the nodes-and-weights path (use_combiinstance_solution=False) returns the same pair *)
Theorem ev_nodes_spec K w vals :
  (forall v, In v vals -> length v = K) -> length w = length vals ->
  ev_nodes K w vals = ev_combi K w vals.
Proof.
  intros H Hl. rewrite ev_combi_spec by assumption. unfold ev_nodes, moments_to_expectation_variance.
  assert (HS : forall v, In v (map (map (fun t => t * t)) vals) -> length v = K).
  { intros v Hv. apply in_map_iff in Hv. destruct Hv as [u [<- Hu]]. rewrite map_length. apply H. exact Hu. }
  rewrite !integrate_rule_spec by (try assumption; rewrite ?map_length; exact Hl).
  f_equal. rewrite variances_map. apply map_ext. intro j. rewrite comp_map_sq. reflexivity.
Qed.

(* ---------------------------------------------------------------- end to end: the vector model (f, c f + e) on one rule *)
Theorem uq_affine_vector_model w f c e :
  length w = length f -> sumQ w = 1 ->
  ev_combi 2 w (map (fun t => [t; c * t + e]) f)
  = ([rule_mom1 w f; c * rule_mom1 w f + e], [variance_of w f; c * c * variance_of w f]).
Proof.
  intros Hl Hs.
  rewrite ev_combi_spec; [| intros v Hv; apply in_map_iff in Hv; destruct Hv as [t [<- _]]; reflexivity | rewrite map_length; exact Hl].
  cbn [seq map].
  assert (C0 : comp 0 (map (fun t => [t; c * t + e]) f) = f).
  { unfold comp. rewrite map_map. cbn [nq nth]. unfold nq. cbn [nth]. apply map_id. }
  assert (C1 : comp 1 (map (fun t => [t; c * t + e]) f) = map (fun t => c * t + e) f).
  { unfold comp. rewrite map_map. unfold nq. cbn [nth]. reflexivity. }
  rewrite C0, C1. rewrite expectation_affine, variance_affine by assumption. reflexivity.
Qed.

Theorem uq_constant_vector_model w k c e n :
  length w = n -> sumQ w = 1 ->
  ev_combi 2 w (repeat [k; c * k + e] n) = ([k; c * k + e], [0; 0]).
Proof.
  intros Hl Hs.
  assert (R : repeat [k; c * k + e] n = map (fun t => [t; c * t + e]) (repeat k n)).
  { clear. induction n as [|n IH]; [reflexivity|]. cbn [repeat map]. rewrite IH. reflexivity. }
  rewrite R, uq_affine_vector_model by (rewrite ?repeat_length; assumption).
  destruct (constant_model w k n Hl Hs) as [M V]. rewrite M, V. f_equal. f_equal. f_equal. ring.
Qed.

(* ---------------------------------------------------------------- the whole pipeline on the combined sparse-grid rule *)
Theorem uq_combined_rule_laws (comps : list (Qc * list (list Qc))) f c e :
  sumQ (map fst comps) = 1 ->
  (forall cw, In cw comps -> forall w, In w (snd cw) -> sumQ w = 1) ->
  let W := combined_weights comps in
  length W = length f ->
  ev_combi 2 W (map (fun t => [t; c * t + e]) f)
  = ([rule_mom1 W f; c * rule_mom1 W f + e], [variance_of W f; c * c * variance_of W f])
  /\ ev_nodes 2 W (map (fun t => [t; c * t + e]) f) = ev_combi 2 W (map (fun t => [t; c * t + e]) f)
  /\ 0 <= variance_of W f.
Proof.
  intros Hc H1 W Hl. split; [|split].
  - apply uq_affine_vector_model; [exact Hl | apply combined_weights_sum_one; assumption].
  - apply ev_nodes_spec; [intros v Hv; apply in_map_iff in Hv; destruct Hv as [t [<- _]]; reflexivity | rewrite map_length; exact Hl].
  - apply variance_nonneg.
Qed.

(* ---------------------------------------------------------------- more on the 1D weights *)
(* without boundary points, under the moment hypotheses: nothing is clipped, no assert fires; the result is the inner composite
   weights renormalised (it exists exactly when the inner weights carry mass) *)
Theorem wtrap_noboundary_ok a b ivs :
  (3 <= length ivs)%nat -> (forall iv, In iv ivs -> ival_ok iv) ->
  let inner := strip (accum 0 ivs) in
  sumQ inner <> 0 ->
  wtrap false false a b ivs = Some (0 :: map (fun v => (1 / sumQ inner) * v) inner ++ [0]).
Proof.
  intros Hn Hok inner Hne. unfold wtrap.
  destruct (Nat.eqb_spec (S (length ivs)) 1); [lia|]. cbn [negb andb orb].
  destruct (Nat.eqb_spec (S (length ivs)) 3); [lia|].
  destruct (Nat.ltb_spec 3 (S (length ivs))); [|lia]. cbn [negb].
  unfold wtrap_general. rewrite opt_list_clip_id.
  - unfold renormalise. fold inner. destruct (Qc_eqb (sumQ inner) 0) eqn:E; [apply Qc_eqb_eq in E; contradiction | reflexivity].
  - apply accum_nonneg; [apply Qcle_refl|]. intros iv Hiv. apply ival_ok_weights. apply Hok. exact Hiv.
Qed.

(* robustness against the rounding of the moments (ARBITRARY moment inputs, e.g. those of scipy.integrate.quad): each clipped
   weight moves by less than the clipping tolerance 1e-5, so with boundary points the returned weights sum to the sum of the
   zeroth moments up to (number of points) * 1e-5, from above *)
Lemma clip_bounds w v : clip w = Some v -> w <= v /\ v < w + clip_tol.
Proof.
  unfold clip. assert (T : 0 < clip_tol) by (unfold clip_tol; qc_order).
  destruct (Qc_leb 0 w) eqn:E.
  - intro H. inversion H; subst. split; [apply Qcle_refl | qc_order].
  - apply leb_false_lt' in E. destruct (Qc_ltb (- w) clip_tol) eqn:E2; [|discriminate].
    intro H. inversion H; subst. apply Qc_ltb_lt in E2. split; qc_order.
Qed.

Lemma qc_of_Z_succ n : qc_of_Z (Z.succ n) = qc_of_Z n + 1.
Proof.
  apply Qc_eq_Qeq. unfold qc_of_Z. qc_unfold_ops. unfold Z.succ. rewrite inject_Z_plus. reflexivity.
Qed.

Lemma opt_list_clip_bounds l w :
  opt_list (map clip l) = Some w ->
  sumQ l <= sumQ w /\ sumQ w <= sumQ l + qc_of_Z (Z.of_nat (length l)) * clip_tol.
Proof.
  revert w. induction l as [|x l IH]; intros w H.
  - inversion H; subst. cbn [sumQ length]. split; [apply Qcle_refl|].
    change (qc_of_Z (Z.of_nat 0)) with (Q2Qc 0). assert (Z0 : 0 + 0 * clip_tol = 0) by ring. rewrite Z0. apply Qcle_refl.
  - cbn [map opt_list] in H. destruct (clip x) as [v|] eqn:Ec; [|discriminate].
    destruct (opt_list (map clip l)) as [r|] eqn:Er; [|discriminate]. inversion H; subst. clear H.
    destruct (IH r eq_refl) as [L U]. destruct (clip_bounds _ _ Ec) as [L1 U1].
    assert (N : qc_of_Z (Z.of_nat (length (x :: l))) = qc_of_Z (Z.of_nat (length l)) + 1).
    { cbn [length]. rewrite Nat2Z.inj_succ. apply qc_of_Z_succ. }
    cbn [sumQ]. rewrite N. set (m := qc_of_Z (Z.of_nat (length l))) in *.
    assert (D : (m + 1) * clip_tol = m * clip_tol + clip_tol) by ring. rewrite D.
    set (mt := m * clip_tol) in *. split; qc_order.
Qed.

Theorem wtrap_boundary_sum_robust a b ivs w :
  (1 <= length ivs)%nat -> wtrap true false a b ivs = Some w ->
  sum_m0 ivs <= sumQ w /\ sumQ w <= sum_m0 ivs + qc_of_Z (Z.of_nat (S (length ivs))) * clip_tol.
Proof.
  intros Hn H. unfold wtrap in H. destruct (Nat.eqb_spec (S (length ivs)) 1); [lia|]. cbn [negb andb orb] in H.
  unfold wtrap_general in H. destruct (opt_list (map clip (accum 0 ivs))) as [c|] eqn:Ec; [|discriminate].
  inversion H; subst. destruct (opt_list_clip_bounds _ _ Ec) as [L U].
  rewrite accum_length, accum_sum in *. assert (Z0 : 0 + sum_m0 ivs = sum_m0 ivs) by ring. rewrite Z0 in *. split; assumption.
Qed.

(* ---------------------------------------------------------------- the weighted midpoint of the uniform distribution *)
(* ppf((cdf a + cdf b)/2) of Uniform(A,B) is (a+b)/2: it is returned unchanged, lies strictly inside and halves the probability *)
Theorem mid_uniform (A B a b : Qc) :
  A < B -> a < b ->
  let m := Qchalf * (a + b) in
  get_middle_weighted (Fin a) (Fin b) (Fin m) = Some (Fin m) /\ a < m /\ m < b /\ uni_m0 A B a m = uni_m0 A B m b.
Proof.
  intros HAB Hab m.
  assert (H1 : a < m) by (unfold m; qc_order). assert (H2 : m < b) by (unfold m; qc_order).
  split; [|split; [exact H1 | split; [exact H2|]]].
  - unfold get_middle_weighted, inside. cbn [ext_ltb].
    apply Qc_ltb_lt in H1. apply Qc_ltb_lt in H2. rewrite H1, H2. reflexivity.
  - unfold uni_m0, m. qfield. apply lt_sub_neq0. exact HAB.
Qed.
