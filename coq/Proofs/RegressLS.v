(* C20: the normal equations of Model/Regress.v characterise the minimiser of the regularised least-squares
   functional                J(a) = 1/m |A a - y|^2 + lambda a^T M a
   for EVERY design matrix A (m rows, n columns), targets y, lambda >= 0 and symmetric positive semi-definite M:
       left_matrix A lambda M alpha = right_vector A y   ->   J(alpha) <= J(alpha + delta)  for every delta,
   with the exact gap  J(alpha + delta) - J(alpha) = 1/m |A delta|^2 + lambda delta^T M delta.
   Also: surpluses accepted by the residual checker are minimisers up to 2 |delta|_1 tol scale. *)
From Coq Require Import ZArith List QArith Qcanon Bool Lia Lqa.
From SG Require Import Base.QcUtil Model.Gram Model.Regress Proofs.GramHat Proofs.GramEntries Proofs.GramPD Proofs.GramNorm
  Proofs.RegressP.
Import ListNotations.
Open Scope Qc_scope.

(* ------------------------------------------------------------------ vectors as lists *)
Definition vadd (a b : list Qc) : list Qc := map2 Qcplus a b.
Definition vsub (a b : list Qc) : list Qc := map2 Qcminus a b.
Definition sqnorm (v : list Qc) : Qc := dotQ v v.
Definition wf_matrix (n : nat) (A : list (list Qc)) : Prop := Forall (fun row => length row = n) A.

Lemma vadd_length a b : length b = length a -> length (vadd a b) = length a.
Proof. apply map2_length. Qed.

Lemma matvec_length G x : length (matvec G x) = length G.
Proof. unfold matvec. apply map_length. Qed.

Lemma dotQ_vadd_r r a d : length d = length a -> dotQ r (vadd a d) = dotQ r a + dotQ r d.
Proof.
  revert a d; induction r as [|x r IH]; intros [|y a] [|z d] H; simpl in *; try discriminate; try ring.
  unfold vadd in IH. rewrite IH by lia. ring.
Qed.

Lemma dotQ_vadd_l r a d : length d = length a -> dotQ (vadd a d) r = dotQ a r + dotQ d r.
Proof. intro H. rewrite dotQ_comm, dotQ_vadd_r by exact H. rewrite (dotQ_comm r a), (dotQ_comm r d). reflexivity. Qed.

Lemma dotQ_vsub_r r a d : length d = length a -> dotQ r (vsub a d) = dotQ r a - dotQ r d.
Proof.
  revert a d; induction r as [|x r IH]; intros [|y a] [|z d] H; simpl in *; try discriminate; try ring.
  unfold vsub in IH. rewrite IH by lia. ring.
Qed.

Lemma dotQ_scale_l c r a : dotQ (map (fun x => c * x) r) a = c * dotQ r a.
Proof. revert a; induction r as [|x r IH]; intros [|y a]; simpl; try ring. rewrite IH. ring. Qed.

Lemma dotQ_map2_plus r1 r2 a : length r2 = length r1 -> dotQ (map2 Qcplus r1 r2) a = dotQ r1 a + dotQ r2 a.
Proof. intro H. exact (dotQ_vadd_l a r1 r2 H). Qed.

Lemma matvec_vadd G a d : length d = length a -> matvec G (vadd a d) = vadd (matvec G a) (matvec G d).
Proof.
  intro H. unfold matvec. induction G as [|row G IH]; [reflexivity|]. cbn [map]. rewrite IH.
  rewrite dotQ_vadd_r by exact H. reflexivity.
Qed.

Lemma sqnorm_shift u w y : length w = length u -> length y = length u ->
  sqnorm (vsub (vadd u w) y) = sqnorm (vsub u y) + (1 + 1) * dotQ w (vsub u y) + sqnorm w.
Proof.
  unfold sqnorm. revert w y; induction u as [|a u IH]; intros [|b w] [|c y] H1 H2; simpl in *; try discriminate; try ring.
  unfold vsub, vadd in IH. rewrite IH by lia. ring.
Qed.

Lemma vadd_vsub a b : length b = length a -> vadd a (vsub b a) = b.
Proof.
  revert b; induction a as [|x a IH]; intros [|y b] H; try discriminate; [reflexivity|].
  unfold vadd, vsub in *. cbn [map2]. rewrite IH by (simpl in H; lia). f_equal. ring.
Qed.

Lemma vsub_length a b : length b = length a -> length (vsub a b) = length a.
Proof. apply map2_length. Qed.

(* ------------------------------------------------------------------ transpose: the adjoint identity *)
Lemma transpose_n_col_length n : forall A, Forall (fun c => length c = length A) (transpose_n n A).
Proof.
  induction n as [|k IH]; intro A; [constructor|]. cbn [transpose_n]. constructor.
  - apply map_length.
  - specialize (IH (map (fun row => tl row) A)). rewrite map_length in IH. exact IH.
Qed.

Lemma transpose_n_length n A : length (transpose_n n A) = n.
Proof. revert A; induction n as [|k IH]; intro A; [reflexivity|]. cbn [transpose_n length]. rewrite IH. reflexivity. Qed.

Lemma wf_tl k A : wf_matrix (S k) A -> wf_matrix k (map (fun row => tl row) A).
Proof.
  unfold wf_matrix. intro H. induction H as [|row A Hr HA IH]; [constructor|]. cbn [map]. constructor; [|exact IH].
  destruct row; simpl in *; [discriminate | lia].
Qed.

(* one column split off: A x = hd-column * x0 + (tails of A) x' *)
Lemma dot_split_col k A x0 x' z : wf_matrix (S k) A ->
  dotQ z (matvec A (x0 :: x'))
  = x0 * dotQ (map (fun row => hd 0 row) A) z + dotQ z (matvec (map (fun row => tl row) A) x').
Proof.
  unfold wf_matrix. intro H. revert z. induction H as [|row A Hr HA IH]; intro z.
  - destruct z; simpl; ring.
  - destruct row as [|h t]; [simpl in Hr; discriminate|].
    destruct z as [|c z]; [simpl; ring|].
    unfold matvec in *. cbn [map hd tl dotQ]. rewrite IH. ring.
Qed.

(* sum_i (col_i . z) x_i = z . (A x) *)
Lemma adjoint n : forall A x z, wf_matrix n A -> length x = n ->
  dotQ (map (fun col => dotQ col z) (transpose_n n A)) x = dotQ z (matvec A x).
Proof.
  induction n as [|k IH]; intros A x z Hwf Hx.
  - destruct x; [|discriminate]. cbn [transpose_n map dotQ].
    unfold matvec. clear Hx. revert z. unfold wf_matrix in Hwf. induction Hwf as [|row A Hr HA IHA]; intro z.
    + destruct z; reflexivity.
    + destruct z as [|c z]; [reflexivity|]. cbn [map dotQ]. rewrite <- IHA.
      destruct row; [simpl; ring | discriminate].
  - destruct x as [|x0 x']; [discriminate|]. cbn [transpose_n map dotQ].
    rewrite (IH (map (fun row => tl row) A) x' z (wf_tl k A Hwf)) by (simpl in Hx; lia).
    rewrite (dot_split_col k A x0 x' z Hwf). ring.
Qed.

Lemma ncols_wf n A : wf_matrix n A -> A <> [] -> ncols A = n.
Proof. intros H Hne. destruct A as [|row A]; [contradiction|]. inversion H; subst. reflexivity. Qed.

(* ------------------------------------------------------------------ the system of the model in matrix-free form *)
Definition matvecT (n : nat) (A : list (list Qc)) (z : list Qc) : list Qc := map (fun col => dotQ col z) (transpose_n n A).

Lemma gram_matvec n A alpha : wf_matrix n A -> length alpha = n ->
  matvec (gram_of_columns (transpose_n n A)) alpha = matvecT n A (matvec A alpha).
Proof.
  intros Hwf Ha. unfold gram_of_columns, matvec at 1, matvecT. rewrite map_map.
  apply map_ext_in. intros ci Hci.
  rewrite <- (adjoint n A alpha ci Hwf Ha). f_equal. apply map_ext. intro cj. apply dotQ_comm.
Qed.

Lemma right_vector_dot n A y delta : wf_matrix n A -> A <> [] -> length delta = n ->
  dotQ delta (right_vector A y) = (1 / qc_of_nat (length A)) * dotQ (matvec A delta) y.
Proof.
  intros Hwf Hne Hd. unfold right_vector, transpose. rewrite (ncols_wf n A Hwf Hne).
  set (c := 1 / qc_of_nat (length A)).
  replace (map (fun col => c * dotQ col y) (transpose_n n A)) with (map (fun x => c * x) (matvecT n A y))
    by (unfold matvecT; rewrite map_map; reflexivity).
  rewrite dotQ_comm, dotQ_scale_l. unfold matvecT. rewrite (adjoint n A delta y Hwf Hd). rewrite (dotQ_comm y). reflexivity.
Qed.

Lemma matvec_mat_add G1 G2 a n : wf_matrix n G1 -> wf_matrix n G2 -> length G2 = length G1 ->
  matvec (mat_add G1 G2) a = vadd (matvec G1 a) (matvec G2 a).
Proof.
  unfold wf_matrix, mat_add. intro H1. revert G2. induction H1 as [|r1 G1 Hr1 HG1 IH]; intros [|r2 G2] H2 Hl; simpl in *; try discriminate;
    [reflexivity|].
  inversion H2; subst. unfold matvec, vadd in *. cbn [map map2]. rewrite dotQ_map2_plus by congruence.
  f_equal. apply IH; [assumption | lia].
Qed.

Lemma matvec_mat_scale c G a : matvec (mat_scale c G) a = map (fun x => c * x) (matvec G a).
Proof. unfold matvec, mat_scale. rewrite !map_map. apply map_ext. intro row. apply dotQ_scale_l. Qed.

Lemma wf_mat_scale c n G : wf_matrix n G -> wf_matrix n (mat_scale c G).
Proof.
  unfold wf_matrix, mat_scale. intro H. induction H as [|row G Hr HG IH]; [constructor|]. cbn [map]. constructor; [|exact IH].
  rewrite map_length. exact Hr.
Qed.

Lemma wf_gram n A : wf_matrix n (gram_of_columns (transpose_n n A)).
Proof.
  unfold wf_matrix, gram_of_columns. apply Forall_forall. intros row Hin. apply in_map_iff in Hin.
  destruct Hin as [ci [E _]]. subst row. rewrite map_length. apply transpose_n_length.
Qed.

(* the general system matrix: 1/m A^T A + lambda M *)
Definition left_matrix_gen (A : list (list Qc)) (lam : Qc) (M : list (list Qc)) : list (list Qc) :=
  mat_add (mat_scale (1 / qc_of_nat (length A)) (gram_of_columns (transpose A))) (mat_scale lam M).

Lemma left_matrix_is_gen A lam use_C C :
  left_matrix A lam use_C C = left_matrix_gen A lam (if use_C then C else identity (ncols A)).
Proof. reflexivity. Qed.

Lemma left_matrix_dot n A lam M alpha delta :
  wf_matrix n A -> A <> [] -> wf_matrix n M -> length M = n -> length alpha = n -> length delta = n ->
  dotQ delta (matvec (left_matrix_gen A lam M) alpha)
  = (1 / qc_of_nat (length A)) * dotQ (matvec A delta) (matvec A alpha) + lam * dotQ delta (matvec M alpha).
Proof.
  intros Hwf Hne HM HlM Ha Hd. unfold left_matrix_gen, transpose. rewrite (ncols_wf n A Hwf Hne).
  rewrite (matvec_mat_add _ _ alpha n).
  - rewrite !matvec_mat_scale. rewrite dotQ_vadd_r by (rewrite !map_length, !matvec_length; unfold gram_of_columns;
      rewrite map_length, transpose_n_length; exact HlM).
    rewrite (dotQ_comm delta (map _ (matvec (gram_of_columns _) alpha))), dotQ_scale_l.
    rewrite (dotQ_comm delta (map _ (matvec M alpha))), dotQ_scale_l.
    rewrite (gram_matvec n A alpha Hwf Ha). unfold matvecT.
    rewrite (adjoint n A delta (matvec A alpha) Hwf Hd).
    rewrite (dotQ_comm (matvec M alpha) delta), (dotQ_comm (matvec A alpha)). reflexivity.
  - apply wf_mat_scale. apply wf_gram.
  - apply wf_mat_scale. exact HM.
  - unfold mat_scale, gram_of_columns. rewrite !map_length, transpose_n_length. exact HlM.
Qed.

(* ------------------------------------------------------------------ the functional and its expansion *)
Definition J (A : list (list Qc)) (y : list Qc) (lam : Qc) (M : list (list Qc)) (a : list Qc) : Qc :=
  (1 / qc_of_nat (length A)) * sqnorm (vsub (matvec A a) y) + lam * quad M a.

Definition bilinear_symmetric (n : nat) (M : list (list Qc)) : Prop :=
  forall u v, length u = n -> length v = n -> dotQ u (matvec M v) = dotQ v (matvec M u).

Lemma quad_shift n M alpha delta : length M = n -> length alpha = n -> length delta = n -> bilinear_symmetric n M ->
  quad M (vadd alpha delta) = quad M alpha + (1 + 1) * dotQ delta (matvec M alpha) + quad M delta.
Proof.
  intros HlM Ha Hd Hsym. unfold quad. rewrite matvec_vadd by congruence.
  rewrite dotQ_vadd_l by congruence.
  rewrite !dotQ_vadd_r by (rewrite !matvec_length; reflexivity).
  rewrite (Hsym alpha delta Ha Hd). ring.
Qed.

Lemma J_shift n A y lam M alpha delta :
  wf_matrix n A -> A <> [] -> length y = length A -> wf_matrix n M -> length M = n -> length alpha = n -> length delta = n ->
  bilinear_symmetric n M ->
  J A y lam M (vadd alpha delta)
  = J A y lam M alpha
    + (1 + 1) * (dotQ delta (matvec (left_matrix_gen A lam M) alpha) - dotQ delta (right_vector A y))
    + ((1 / qc_of_nat (length A)) * sqnorm (matvec A delta) + lam * quad M delta).
Proof.
  intros Hwf Hne Hy HM HlM Ha Hd Hsym. unfold J.
  rewrite matvec_vadd by congruence.
  rewrite sqnorm_shift by (rewrite !matvec_length; congruence).
  rewrite (quad_shift n M alpha delta HlM Ha Hd Hsym).
  rewrite (left_matrix_dot n A lam M alpha delta Hwf Hne HM HlM Ha Hd).
  rewrite (right_vector_dot n A y delta Hwf Hne Hd).
  rewrite dotQ_vsub_r by (rewrite matvec_length; exact Hy).
  ring.
Qed.

Lemma qc_of_nat_nonneg k : 0 <= qc_of_nat k.
Proof. induction k as [|k IH]; [unfold Qcle; vm_compute; discriminate | rewrite qc_of_nat_S; qc_order]. Qed.

Lemma inv_count_nonneg k : 0 <= 1 / qc_of_nat k.
Proof.
  destruct k as [|k]; [unfold Qcle; vm_compute; discriminate|].
  - apply Qclt_le_weak. apply (div_pos 1 (qc_of_nat (S k))); [|qc_order].
    rewrite qc_of_nat_S. pose proof (qc_of_nat_nonneg k). qc_order.
Qed.

(* ------------------------------------------------------------------ main theorems *)
(* exact gap: no hypothesis on lambda or definiteness *)
Theorem normal_equations_gap n A y lam M alpha delta :
  wf_matrix n A -> A <> [] -> length y = length A -> wf_matrix n M -> length M = n -> length alpha = n -> length delta = n ->
  bilinear_symmetric n M ->
  matvec (left_matrix_gen A lam M) alpha = right_vector A y ->
  J A y lam M (vadd alpha delta)
  = J A y lam M alpha + ((1 / qc_of_nat (length A)) * sqnorm (matvec A delta) + lam * quad M delta).
Proof.
  intros Hwf Hne Hy HM HlM Ha Hd Hsym NE.
  rewrite (J_shift n A y lam M alpha delta Hwf Hne Hy HM HlM Ha Hd Hsym). rewrite NE. ring.
Qed.

Lemma mul_nonneg (a b : Qc) : 0 <= a -> 0 <= b -> 0 <= a * b.
Proof. intros Ha Hb. replace 0 with (0 * b) by ring. apply Qcmult_le_compat_r; assumption. Qed.

Definition psd (n : nat) (M : list (list Qc)) : Prop := forall v, length v = n -> 0 <= quad M v.

Lemma gap_nonneg n A lam M delta : 0 <= lam -> psd n M -> length delta = n ->
  0 <= (1 / qc_of_nat (length A)) * sqnorm (matvec A delta) + lam * quad M delta.
Proof.
  intros Hl Hp Hd.
  pose proof (inv_count_nonneg (length A)) as H1.
  pose proof (dotQ_self_nonneg (matvec A delta)) as H2.
  pose proof (Hp delta Hd) as H3.
  assert (P1 : 0 <= (1 / qc_of_nat (length A)) * sqnorm (matvec A delta)) by (apply mul_nonneg; assumption).
  assert (P2 : 0 <= lam * quad M delta) by (apply mul_nonneg; assumption).
  revert P1 P2. generalize ((1 / qc_of_nat (length A)) * sqnorm (matvec A delta)) (lam * quad M delta). intros p q P1 P2. qc_order.
Qed.

(* solutions of the normal equations minimise the regularised least-squares functional *)
Theorem normal_equations_minimise n A y lam M alpha beta :
  wf_matrix n A -> A <> [] -> length y = length A -> wf_matrix n M -> length M = n -> length alpha = n -> length beta = n ->
  bilinear_symmetric n M -> psd n M -> 0 <= lam ->
  matvec (left_matrix_gen A lam M) alpha = right_vector A y ->
  J A y lam M alpha <= J A y lam M beta.
Proof.
  intros Hwf Hne Hy HM HlM Ha Hb Hsym Hpsd Hlam NE.
  rewrite <- (vadd_vsub alpha beta) by congruence.
  assert (Hd : length (vsub beta alpha) = n) by (rewrite vsub_length; congruence).
  rewrite (normal_equations_gap n A y lam M alpha (vsub beta alpha) Hwf Hne Hy HM HlM Ha Hd Hsym NE).
  pose proof (gap_nonneg n A lam M (vsub beta alpha) Hlam Hpsd Hd) as G.
  revert G. generalize ((1 / qc_of_nat (length A)) * sqnorm (matvec A (vsub beta alpha)) + lam * quad M (vsub beta alpha)).
  generalize (J A y lam M alpha). intros j g G. qc_order.
Qed.

(* ------------------------------------------------------------------ instances: matrices built by the double loop, identity *)
Lemma sym_matrix_wf {T} (e : T -> T -> Qc) lam pts : wf_matrix (length pts) (sym_matrix e lam pts).
Proof.
  unfold wf_matrix. induction pts as [|t ts IH]; [constructor|]. cbn [sym_matrix length]. constructor.
  - cbn [length]. rewrite map_length. reflexivity.
  - assert (L : length (sym_matrix e lam ts) = length (map (e t) ts)) by (rewrite sym_matrix_length, map_length; reflexivity).
    revert IH L. generalize (sym_matrix e lam ts) (map (e t) ts). intros G r IH. revert r.
    induction IH as [|row G Hr HG IHG]; intros [|x r] L; simpl in *; try discriminate; constructor.
    + simpl. rewrite Hr. reflexivity.
    + apply IHG. lia.
Qed.

Lemma sym_matrix_bilinear {T} (e : T -> T -> Qc) lam pts : bilinear_symmetric (length pts) (sym_matrix e lam pts).
Proof.
  unfold bilinear_symmetric. induction pts as [|t ts IH]; intros u v Hu Hv.
  - destruct u, v; try discriminate. reflexivity.
  - destruct u as [|a u]; [discriminate|]. destruct v as [|b v]; [discriminate|]. simpl in Hu, Hv.
    cbn [sym_matrix]. unfold matvec. cbn [map dotQ].
    fold (matvec (map2 cons (map (e t) ts) (sym_matrix e lam ts)) (b :: v)).
    fold (matvec (map2 cons (map (e t) ts) (sym_matrix e lam ts)) (a :: u)).
    rewrite !matvec_map2_cons.
    rewrite !dotQ_map2_lin by (rewrite ?map_length, ?sym_matrix_length; lia).
    rewrite (IH u v) by lia.
    rewrite (dotQ_comm (map (e t) ts) v), (dotQ_comm (map (e t) ts) u). ring.
Qed.

(* identity: rows i .. i+k-1 of the n x n identity pick the entries i .. of a vector *)
Lemma unit_row_zero i v : forall s, (i < s)%nat ->
  dotQ (map (fun j => if (i =? j)%nat then 1 else 0) (seq s (length v))) v = 0.
Proof.
  induction v as [|x v IH]; intros s Hs; [reflexivity|]. cbn [length seq map dotQ].
  destruct (Nat.eqb_spec i s) as [E|E]; [lia|]. rewrite IH by lia. ring.
Qed.

Lemma unit_row_pick i v : forall s, (s <= i)%nat ->
  dotQ (map (fun j => if (i =? j)%nat then 1 else 0) (seq s (length v))) v = nth (i - s) v 0.
Proof.
  induction v as [|x v IH]; intros s Hs; [destruct (i - s)%nat; reflexivity|]. cbn [length seq map dotQ].
  destruct (Nat.eqb_spec i s) as [E|E].
  - subst. rewrite unit_row_zero by lia. rewrite Nat.sub_diag. cbn [nth]. ring.
  - rewrite IH by lia. replace (i - s)%nat with (S (i - S s)) by lia. cbn [nth]. ring.
Qed.

Lemma matvec_identity_from v : forall k i, (i + k <= length v)%nat ->
  matvec (identity_from i (length v) k) v = firstn k (skipn i v).
Proof.
  induction k as [|k IH]; intros i H; [reflexivity|]. cbn [identity_from]. unfold matvec in *. cbn [map].
  rewrite IH by lia. rewrite (unit_row_pick i v 0) by lia. rewrite Nat.sub_0_r.
  assert (E : skipn i v = nth i v 0 :: skipn (S i) v).
  { clear IH. revert i H. induction v as [|x v IHv]; intros i H; [simpl in H; lia|].
    destruct i as [|i]; [reflexivity|]. cbn [skipn nth]. cbn [skipn] in IHv. apply IHv. simpl in H. lia. }
  rewrite E. reflexivity.
Qed.

Lemma matvec_identity v : matvec (identity (length v)) v = v.
Proof. unfold identity. rewrite matvec_identity_from by lia. cbn [skipn]. apply firstn_all. Qed.

Lemma identity_from_wf n : forall k i, wf_matrix n (identity_from i n k) /\ length (identity_from i n k) = k.
Proof.
  induction k as [|k IH]; intro i; [split; [constructor | reflexivity]|]. cbn [identity_from]. destruct (IH (S i)) as [W L]. split.
  - constructor; [rewrite map_length, seq_length; reflexivity | exact W].
  - cbn [length]. rewrite L. reflexivity.
Qed.

Lemma identity_bilinear n : bilinear_symmetric n (identity n).
Proof.
  intros u v Hu Hv. rewrite <- Hv at 1. rewrite matvec_identity. rewrite <- Hu. rewrite matvec_identity. apply dotQ_comm.
Qed.

Lemma identity_psd n : psd n (identity n).
Proof. intros v Hv. subst n. unfold quad. rewrite matvec_identity. apply dotQ_self_nonneg. Qed.

(* ---- the model's system with the identity (regularization_matrix = 'I'; lambda = 0 is plain least squares) *)
Theorem ridge_normal_equations_minimise n A y lam C alpha beta :
  wf_matrix n A -> A <> [] -> length y = length A -> length alpha = n -> length beta = n -> 0 <= lam ->
  matvec (left_matrix A lam false C) alpha = right_vector A y ->
  J A y lam (identity n) alpha <= J A y lam (identity n) beta.
Proof.
  intros Hwf Hne Hy Ha Hb Hlam NE. rewrite left_matrix_is_gen in NE. rewrite (ncols_wf n A Hwf Hne) in NE.
  destruct (identity_from_wf n n 0%nat) as [W L].
  exact (normal_equations_minimise n A y lam (identity n) alpha beta Hwf Hne Hy W L Ha Hb (identity_bilinear n) (identity_psd n) Hlam NE).
Qed.

Corollary plain_least_squares_minimise n A y use_C C alpha beta :
  wf_matrix n A -> A <> [] -> length y = length A -> length alpha = n -> length beta = n ->
  (use_C = true -> wf_matrix n C /\ length C = n) ->
  matvec (left_matrix A 0 use_C C) alpha = right_vector A y ->
  sqnorm (vsub (matvec A alpha) y) <= sqnorm (vsub (matvec A beta) y).
Proof.
  intros Hwf Hne Hy Ha Hb HC NE.
  assert (K : forall M, wf_matrix n M -> length M = n -> matvec (left_matrix_gen A 0 M) alpha = right_vector A y ->
              sqnorm (vsub (matvec A alpha) y) <= sqnorm (vsub (matvec A beta) y)).
  { intros M W L NE'.
    (* with lambda = 0 the matrix M does not matter: compare with the identity *)
    assert (NEI : matvec (left_matrix_gen A 0 (identity n)) alpha = right_vector A y).
    { rewrite <- NE'. unfold left_matrix_gen, transpose. rewrite (ncols_wf n A Hwf Hne).
      destruct (identity_from_wf n n 0%nat) as [WI LI].
      rewrite (matvec_mat_add _ _ alpha n); [| apply wf_mat_scale, wf_gram | apply wf_mat_scale; exact WI
        | unfold mat_scale, gram_of_columns; rewrite !map_length, transpose_n_length; exact LI].
      rewrite (matvec_mat_add _ _ alpha n); [| apply wf_mat_scale, wf_gram | apply wf_mat_scale; exact W
        | unfold mat_scale, gram_of_columns; rewrite !map_length, transpose_n_length; exact L].
      f_equal. rewrite !matvec_mat_scale.
      assert (Z : forall G : list (list Qc), length G = n -> map (fun x => 0 * x) (matvec G alpha) = repeat 0 n).
      { intros G LG. rewrite <- LG. unfold matvec. rewrite map_map. clear. induction G as [|row G IH]; [reflexivity|].
        cbn [map length repeat]. rewrite IH. f_equal. ring. }
      rewrite (Z (identity n) LI), (Z M L). reflexivity. }
    destruct (identity_from_wf n n 0%nat) as [WI LI].
    pose proof (normal_equations_minimise n A y 0 (identity n) alpha beta Hwf Hne Hy WI LI Ha Hb (identity_bilinear n)
                  (identity_psd n) (Qcle_refl 0) NEI) as Hmin.
    unfold J in Hmin.
    pose proof (inv_count_nonneg (length A)) as Hc.
    assert (Hpos : 0 < 1 / qc_of_nat (length A)).
    { destruct A as [|row A']; [contradiction|]. cbn [length]. apply (div_pos 1 (qc_of_nat (S (length A')))); [|qc_order].
      rewrite qc_of_nat_S. pose proof (qc_of_nat_nonneg (length A')). qc_order. }
    revert Hmin Hpos. generalize (1 / qc_of_nat (length A)) (sqnorm (vsub (matvec A alpha) y)) (sqnorm (vsub (matvec A beta) y))
      (quad (identity n) alpha) (quad (identity n) beta). intros c s1 s2 q1 q2 Hmin Hpos.
    assert (E : c * s1 <= c * s2) by (revert Hmin; generalize (c * s1) (c * s2); intros; qc_order).
    apply (Qcmult_lt_0_le_reg_r s1 s2 c Hpos). rewrite (Qcmult_comm s1 c), (Qcmult_comm s2 c). exact E. }
  rewrite left_matrix_is_gen in NE. destruct use_C.
  - destruct (HC eq_refl) as [W L]. exact (K C W L NE).
  - rewrite (ncols_wf n A Hwf Hne) in NE. destruct (identity_from_wf n n 0%nat) as [WI LI]. exact (K (identity n) WI LI NE).
Qed.

(* ---- the model's system with a smoothing matrix built by the double loop (build_C_matrix(_dimension_wise)) *)
Theorem smooth_normal_equations_minimise {T} (e : T -> T -> Qc) pts A y lam alpha beta :
  let n := length pts in let C := sym_matrix e 0 pts in
  wf_matrix n A -> A <> [] -> length y = length A -> length alpha = n -> length beta = n -> 0 <= lam -> psd n C ->
  matvec (left_matrix A lam true C) alpha = right_vector A y ->
  J A y lam C alpha <= J A y lam C beta.
Proof.
  intros n C Hwf Hne Hy Ha Hb Hlam Hpsd NE. rewrite left_matrix_is_gen in NE.
  exact (normal_equations_minimise n A y lam C alpha beta Hwf Hne Hy (sym_matrix_wf e 0 pts) (sym_matrix_length e 0 pts) Ha Hb
           (sym_matrix_bilinear e 0 pts) Hpsd Hlam NE).
Qed.

(* ---- one dimension: positive semi-definiteness is proved, so the statement is unconditional *)
Theorem smooth_normal_equations_minimise_1d xs A y lam alpha beta :
  strictly_inc xs -> hd 0 xs = 0 -> last xs 0 = 1 ->
  let n := length (windows xs) in let C := C_matrix_dw_spec [xs] in
  wf_matrix n A -> A <> [] -> length y = length A -> length alpha = n -> length beta = n -> 0 <= lam ->
  matvec (left_matrix A lam true C) alpha = right_vector A y ->
  J A y lam C alpha <= J A y lam C beta.
Proof.
  intros Hs H0 H1 n C Hwf Hne Hy Ha Hb Hlam NE.
  assert (Ln : length (grid_hats [xs]) = n).
  { rewrite (grid_hats_1d xs H0 H1). unfold pts1. rewrite map_length. reflexivity. }
  unfold C, C_matrix_dw_spec in *. rewrite <- Ln in *.
  apply (smooth_normal_equations_minimise C_val_dw_spec (grid_hats [xs]) A y lam alpha beta); try assumption.
  intros v Hv. apply (C_positive_semidefinite_1d xs v Hs H0 H1). rewrite Hv. exact Ln.
Qed.

(* ------------------------------------------------------------------ accepted surpluses are near-minimisers *)
Lemma abs_mul_bound (d r b : Qc) : Qc_abs r <= b -> - (Qc_abs d * b) <= d * r.
Proof.
  intro H.
  assert (Hr : - b <= r /\ r <= b).
  { unfold Qc_abs in H. destruct (Qc_leb 0 r) eqn:E.
    - apply Qc_leb_le in E. split; qc_order.
    - apply Qc_leb_false in E. split; qc_order. }
  destruct Hr as [R1 R2].
  unfold Qc_abs. destruct (Qc_leb 0 d) eqn:E.
  - apply Qc_leb_le in E.
    assert (K : (- b) * d <= r * d) by (apply Qcmult_le_compat_r; assumption).
    replace (- (d * b)) with ((- b) * d) by ring. rewrite (Qcmult_comm d r). exact K.
  - apply Qc_leb_false in E.
    assert (E' : 0 <= - d) by qc_order.
    assert (K : r * (- d) <= b * (- d)) by (apply Qcmult_le_compat_r; assumption).
    replace (- (- d * b)) with (- (b * (- d))) by ring. replace (d * r) with (- (r * (- d))) by ring.
    revert K. generalize (r * - d) (b * - d). intros p q K. qc_order.
Qed.

Lemma dot_residual_bound alpha b : forall L r, Forall2 (fun row ri => Qc_abs (dotQ row alpha - ri) <= b) L r ->
  forall delta, length delta = length L -> - (sumQ (map Qc_abs delta) * b) <= dotQ delta (matvec L alpha) - dotQ delta r.
Proof.
  intros L r H. induction H as [|row ri L r Hh Ht IH]; intros delta Hl.
  - destruct delta; [|discriminate]. unfold Qcle. vm_compute. discriminate.
  - destruct delta as [|d delta]; [discriminate|].
    unfold matvec in *. cbn [map dotQ sumQ].
    pose proof (abs_mul_bound d (dotQ row alpha - ri) b Hh) as K1. assert (K2 := IH delta ltac:(simpl in Hl; lia)).
    replace (d * dotQ row alpha + dotQ delta (map (fun row0 => dotQ row0 alpha) L) - (d * ri + dotQ delta r))
      with (d * (dotQ row alpha - ri) + (dotQ delta (map (fun row0 => dotQ row0 alpha) L) - dotQ delta r)) by ring.
    replace (- ((Qc_abs d + sumQ (map Qc_abs delta)) * b)) with (- (Qc_abs d * b) + - (sumQ (map Qc_abs delta) * b)) by ring.
    revert K1 K2. generalize (d * (dotQ row alpha - ri)) (dotQ delta (map (fun row0 => dotQ row0 alpha) L) - dotQ delta r)
      (- (Qc_abs d * b)) (- (sumQ (map Qc_abs delta) * b)). intros. qc_order.
Qed.

(* surpluses accepted by the verified residual checker minimise J up to 2 |delta|_1 * tol * scale *)
Theorem residual_ok_near_minimiser n A y lam M alpha delta tol :
  wf_matrix n A -> A <> [] -> length y = length A -> wf_matrix n M -> length M = n -> length alpha = n -> length delta = n ->
  bilinear_symmetric n M -> psd n M -> 0 <= lam ->
  residual_ok (left_matrix_gen A lam M) (right_vector A y) alpha tol = true ->
  J A y lam M alpha
  <= J A y lam M (vadd alpha delta)
     + (1 + 1) * (sumQ (map Qc_abs delta) * (tol * residual_scale (left_matrix_gen A lam M) (right_vector A y) alpha)).
Proof.
  intros Hwf Hne Hy HM HlM Ha Hd Hsym Hpsd Hlam OK.
  rewrite (J_shift n A y lam M alpha delta Hwf Hne Hy HM HlM Ha Hd Hsym).
  pose proof (gap_nonneg n A lam M delta Hlam Hpsd Hd) as G.
  assert (LL : length delta = length (left_matrix_gen A lam M)).
  { unfold left_matrix_gen, mat_add. rewrite map2_length; unfold mat_scale, gram_of_columns; rewrite !map_length.
    - unfold transpose. rewrite transpose_n_length, (ncols_wf n A Hwf Hne). exact Hd.
    - unfold transpose. rewrite transpose_n_length, (ncols_wf n A Hwf Hne). exact HlM. }
  pose proof (dot_residual_bound alpha _ _ _ (residual_ok_sound _ _ _ _ OK) delta LL) as B.
  revert G B.
  generalize ((1 / qc_of_nat (length A)) * sqnorm (matvec A delta) + lam * quad M delta).
  generalize (dotQ delta (matvec (left_matrix_gen A lam M) alpha) - dotQ delta (right_vector A y)).
  generalize (sumQ (map Qc_abs delta) * (tol * residual_scale (left_matrix_gen A lam M) (right_vector A y) alpha)).
  generalize (J A y lam M alpha). intros j s t g G B. qc_order.
Qed.

(* ------------------------------------------------------------------ the checker with the cancellation-aware scale *)
Theorem residual_ok_floor_sound L r alpha tol floor : residual_ok_floor L r alpha tol floor = true ->
  Forall2 (fun row ri => Qc_abs (dotQ row alpha - ri) <= tol * Qc_max (residual_scale L r alpha) floor) L r.
Proof.
  unfold residual_ok_floor. intro H. apply andb_true_iff in H. destruct H as [_ H].
  set (b := tol * Qc_max (residual_scale L r alpha) floor) in *. clearbody b.
  apply forallb2_Forall2 in H. induction H as [|row ri L' r' Hh Ht IH]; constructor.
  - apply Qc_leb_le. exact Hh.
  - exact IH.
Qed.

(* any componentwise bound b on the residual of the normal equations makes alpha a minimiser up to 2 |delta|_1 b *)
Theorem residual_bound_near_minimiser n A y lam M alpha delta b :
  wf_matrix n A -> A <> [] -> length y = length A -> wf_matrix n M -> length M = n -> length alpha = n -> length delta = n ->
  bilinear_symmetric n M -> psd n M -> 0 <= lam ->
  Forall2 (fun row ri => Qc_abs (dotQ row alpha - ri) <= b) (left_matrix_gen A lam M) (right_vector A y) ->
  J A y lam M alpha <= J A y lam M (vadd alpha delta) + (1 + 1) * (sumQ (map Qc_abs delta) * b).
Proof.
  intros Hwf Hne Hy HM HlM Ha Hd Hsym Hpsd Hlam OK.
  rewrite (J_shift n A y lam M alpha delta Hwf Hne Hy HM HlM Ha Hd Hsym).
  pose proof (gap_nonneg n A lam M delta Hlam Hpsd Hd) as G.
  assert (LL : length delta = length (left_matrix_gen A lam M)).
  { unfold left_matrix_gen, mat_add. rewrite map2_length; unfold mat_scale, gram_of_columns; rewrite !map_length.
    - unfold transpose. rewrite transpose_n_length, (ncols_wf n A Hwf Hne). exact Hd.
    - unfold transpose. rewrite transpose_n_length, (ncols_wf n A Hwf Hne). exact HlM. }
  pose proof (dot_residual_bound alpha _ _ _ OK delta LL) as B.
  revert G B.
  generalize ((1 / qc_of_nat (length A)) * sqnorm (matvec A delta) + lam * quad M delta).
  generalize (dotQ delta (matvec (left_matrix_gen A lam M) alpha) - dotQ delta (right_vector A y)).
  generalize (sumQ (map Qc_abs delta) * b).
  generalize (J A y lam M alpha). intros j s t g G B. qc_order.
Qed.

Corollary residual_ok_floor_near_minimiser n A y lam M alpha delta tol :
  wf_matrix n A -> A <> [] -> length y = length A -> wf_matrix n M -> length M = n -> length alpha = n -> length delta = n ->
  bilinear_symmetric n M -> psd n M -> 0 <= lam ->
  residual_ok_floor (left_matrix_gen A lam M) (right_vector A y) alpha tol (residual_floor A y) = true ->
  J A y lam M alpha
  <= J A y lam M (vadd alpha delta)
     + (1 + 1) * (sumQ (map Qc_abs delta)
                  * (tol * Qc_max (residual_scale (left_matrix_gen A lam M) (right_vector A y) alpha) (residual_floor A y))).
Proof.
  intros Hwf Hne Hy HM HlM Ha Hd Hsym Hpsd Hlam OK.
  apply (residual_bound_near_minimiser n A y lam M alpha delta _ Hwf Hne Hy HM HlM Ha Hd Hsym Hpsd Hlam).
  apply residual_ok_floor_sound. exact OK.
Qed.
