(* C09 — the global trapezoidal rule with the modified basis (no boundary points, linear extrapolation):
   weights . values = integral of the extrapolated interpolant; sum and first moment; the self-assert never fires. *)
From Coq Require Import ZArith List QArith Qcanon Bool Arith Lia Lqa.
From SG Require Import Base.QcUtil Model.Trap Proofs.TrapBasics Proofs.Trap.
Import ListNotations.
Open Scope Qc_scope.

Ltac nat_tests :=
  repeat match goal with
  | |- context [Nat.eqb ?a ?b] => destruct (Nat.eqb_spec a b); try lia
  | |- context [Nat.ltb ?a ?b] => destruct (Nat.ltb_spec a b); try lia
  end; cbn [andb orb negb].

(* the special weights of the modified basis, as functions of the three points involved *)
Definition ext_near (x0 x1 x2 : Qc) : Qc := sq (x2 - x0) / (Qc2 * (x2 - x1)).                 (* h_b^2 / (2 h_a) *)
Definition ext_far (x0 x1 x2 : Qc) : Qc := (x2 - x0) - sq (x2 - x0) / (Qc2 * (x2 - x1)).       (* h_b - h_b^2 / (2 h_a) *)
(* mirrored versions at the right end: points x3 < x4 < x5 *)
Definition ext_near_r (x3 x4 x5 : Qc) : Qc := sq (x5 - x3) / (Qc2 * (x4 - x3)).
Definition ext_far_r (x3 x4 x5 : Qc) : Qc := (x5 - x3) - sq (x5 - x3) / (Qc2 * (x4 - x3)).

Lemma ext_left_is_line_int x0 x1 x2 v1 v2 :
  x2 <> x1 -> ext_near x0 x1 x2 * v1 + ext_far x0 x1 x2 * v2 = line_int x1 v1 x2 v2 x0 x2.
Proof.
  intro Hne. pose proof (sub_neq0 x2 x1 Hne) as Hd.
  unfold ext_near, ext_far, line_int, lin_int, icept, slope, sq. qfield.
Qed.

Lemma ext_right_is_line_int x3 x4 x5 v3 v4 :
  x4 <> x3 -> ext_far_r x3 x4 x5 * v3 + ext_near_r x3 x4 x5 * v4 = line_int x3 v3 x4 v4 x3 x5.
Proof.
  intro Hne. pose proof (sub_neq0 x4 x3 Hne) as Hd.
  unfold ext_near_r, ext_far_r, line_int, lin_int, icept, slope, sq. qfield.
Qed.

Section Weights.
Variable X : nat -> Qc.

Lemma wg_mod_first n : w_general true X n 0 = 0.
Proof. unfold w_general. reflexivity. Qed.

Lemma wg_mod_last n : (1 <= n)%nat -> w_general true X n (n - 1) = 0.
Proof. intro H. unfold w_general. cbn [andb]. rewrite Nat.eqb_refl, orb_true_r. reflexivity. Qed.

Lemma wg_mod_1 n : (5 <= n)%nat -> w_general true X n 1 = ext_near (X 0%nat) (X 1%nat) (X 2%nat).
Proof.
  intro H. unfold w_general, wl, wr. cbn [andb]. nat_tests. cbn [orb].
  unfold ext_near. cbn [Nat.add Nat.sub]. ring.
Qed.

Lemma wg_mod_2_ge6 n :
  (6 <= n)%nat -> w_general true X n 2 = ext_far (X 0%nat) (X 1%nat) (X 2%nat) + half_step X 2.
Proof.
  intro H. unfold w_general, wl, wr. cbn [andb]. nat_tests. cbn [orb].
  unfold ext_far, half_step. cbn [Nat.add Nat.sub]. ring.
Qed.

Lemma wg_mod_2_eq5 :
  w_general true X 5 2 = ext_far (X 0%nat) (X 1%nat) (X 2%nat) + ext_far_r (X 2%nat) (X 3%nat) (X 4%nat).
Proof. unfold w_general, wl, wr, ext_far, ext_far_r. cbn. ring. Qed.

Lemma wg_mod_mid n i :
  (3 <= i)%nat -> (i + 4 <= n)%nat -> w_general true X n i = half_step X (i - 1) + half_step X i.
Proof.
  intros H1 H2. unfold w_general, wl, wr. cbn [andb]. nat_tests. cbn [orb].
  unfold half_step. replace (S (i - 1)) with i by lia. replace (i + 1)%nat with (S i) by lia. ring.
Qed.

Lemma wg_mod_n3 n :
  (6 <= n)%nat ->
  w_general true X n (n - 3) = half_step X (n - 4) + ext_far_r (X (n - 3)%nat) (X (n - 2)%nat) (X (n - 1)%nat).
Proof.
  intro H. unfold w_general, wl, wr. cbn [andb]. nat_tests. cbn [orb].
  unfold half_step, ext_far_r.
  replace (n - 3 - 1)%nat with (n - 4)%nat by lia. replace (S (n - 4)) with (n - 3)%nat by lia.
  replace (n - 3 + 2)%nat with (n - 1)%nat by lia. replace (n - 3 + 1)%nat with (n - 2)%nat by lia. ring.
Qed.

Lemma wg_mod_n2 n :
  (5 <= n)%nat -> w_general true X n (n - 2) = ext_near_r (X (n - 3)%nat) (X (n - 2)%nat) (X (n - 1)%nat).
Proof.
  intro H. unfold w_general, wl, wr. cbn [andb]. nat_tests. cbn [orb].
  unfold ext_near_r.
  replace (n - 2 + 1)%nat with (n - 1)%nat by lia. replace (n - 2 - 1)%nat with (n - 3)%nat by lia. ring.
Qed.

(* the rule as a sum over indices, n = 5 and n >= 6 *)
Lemma mod_index_sum_5 V :
  X 2%nat <> X 1%nat -> X 3%nat <> X 2%nat ->
  sum_range (fun i => w_general true X 5 i * V i) 0 5 = mod_int X V 5 (X 0%nat) (X 4%nat).
Proof.
  intros H21 H32. unfold mod_int. cbn [Nat.eqb Nat.sub].
  rewrite <- (ext_left_is_line_int (X 0%nat)) by exact H21.
  rewrite <- (ext_right_is_line_int (X 2%nat) (X 3%nat) (X 4%nat)) by exact H32.
  unfold pl_int, sum_range. cbn [seq map sumQ].
  rewrite wg_mod_first, (wg_mod_1 5), wg_mod_2_eq5 by lia.
  pose proof (wg_mod_n2 5 ltac:(lia)) as E3. cbn [Nat.sub] in E3. rewrite E3.
  pose proof (wg_mod_last 5 ltac:(lia)) as E4. cbn [Nat.sub] in E4. rewrite E4.
  ring.
Qed.

Lemma sum_range_3 (f : nat -> Qc) lo : sum_range f lo 3 = f lo + f (S lo) + f (S (S lo)).
Proof. unfold sum_range. simpl. ring. Qed.

Lemma sum_range_ends (f : nat -> Qc) m :
  sum_range f 0 (m + 6) = f 0%nat + f 1%nat + f 2%nat + sum_range f 3 m + (f (m + 3)%nat + f (m + 4)%nat + f (m + 5)%nat).
Proof.
  replace (m + 6)%nat with (3 + (m + 3))%nat by lia.
  rewrite sum_range_split. rewrite (sum_range_split f (0 + 3) m 3). rewrite !sum_range_3.
  cbn [Nat.add]. replace (S (S (S m))) with (m + 3)%nat by lia.
  replace (S (m + 3)) with (m + 4)%nat by lia. replace (S (m + 4)) with (m + 5)%nat by lia. ring.
Qed.

Lemma mod_index_sum_ge6 V m :
  X 2%nat <> X 1%nat -> X (m + 4)%nat <> X (m + 3)%nat ->
  sum_range (fun i => w_general true X (m + 6) i * V i) 0 (m + 6) = mod_int X V (m + 6) (X 0%nat) (X (m + 5)%nat).
Proof.
  intros H21 H43.
  rewrite sum_range_ends.
  rewrite wg_mod_first, (wg_mod_1 (m + 6)), (wg_mod_2_ge6 (m + 6)) by lia.
  pose proof (wg_mod_n3 (m + 6) ltac:(lia)) as E3.
  pose proof (wg_mod_n2 (m + 6) ltac:(lia)) as E2.
  pose proof (wg_mod_last (m + 6) ltac:(lia)) as E1.
  replace (m + 6 - 3)%nat with (m + 3)%nat in * by lia. replace (m + 6 - 2)%nat with (m + 4)%nat in * by lia.
  replace (m + 6 - 1)%nat with (m + 5)%nat in * by lia. replace (m + 6 - 4)%nat with (m + 2)%nat in * by lia.
  rewrite E3, E2, E1.
  rewrite (sum_range_ext (fun i => w_general true X (m + 6) i * V i)
                         (fun i => (half_step X (i - 1) + half_step X i) * V i) 3 m).
  2: { intros i Hi. rewrite wg_mod_mid by lia. reflexivity. }
  unfold mod_int.
  destruct (Nat.eqb_spec (m + 6) 3); [lia|]. destruct (Nat.eqb_spec (m + 6) 4); [lia|].
  replace (m + 6 - 3)%nat with (m + 3)%nat by lia. replace (m + 6 - 2)%nat with (m + 4)%nat by lia.
  replace (m + 6 - 1)%nat with (m + 5)%nat by lia. replace (m + 6 - 5)%nat with (S m) by lia.
  rewrite <- (ext_left_is_line_int (X 0%nat)) by exact H21.
  rewrite <- (ext_right_is_line_int (X (m + 3)%nat) (X (m + 4)%nat) (X (m + 5)%nat)) by exact H43.
  rewrite pl_int_half_step. rewrite <- (trap_index X V 2 m).
  replace (2 + m)%nat with (m + 2)%nat by lia. replace (S (m + 2)) with (m + 3)%nat by lia.
  ring.
Qed.

End Weights.

(* ---------------------------------------------------------------- list level *)
Lemma weights_raw_mod_ge5 x a b :
  (5 <= length x)%nat -> weights_raw true x a b = weights_general true x.
Proof.
  intro H. unfold weights_raw. cbn [andb].
  destruct (Nat.eqb_spec (length x) 3); [lia|]. destruct (Nat.eqb_spec (length x) 4); [lia|]. reflexivity.
Qed.

(* T6: weights . values = integral of the extrapolated interpolant (the boundary entries of v are irrelevant) *)
Theorem trap_mod_is_extrapolated_integral x v a b :
  strictly_increasing x -> (3 <= length x)%nat -> length v = length x ->
  nq x 0 = a -> nq x (length x - 1) = b ->
  dotQ (weights_raw true x a b) v = mod_int (nq x) (nq v) (length x) a b.
Proof.
  intros Hs H3 Hl Ha Hb.
  assert (Hstep : forall i, (S i < length x)%nat -> nq x (S i) <> nq x i).
  { intros i Hi E. pose proof (strictly_increasing_step x i Hs Hi) as L. rewrite E in L.
    apply (Qclt_not_le _ _ L). apply Qcle_refl. }
  destruct (Nat.eq_dec (length x) 3) as [E3|N3].
  - destruct x as [|x0 [|x1 [|x2 [|? ?]]]]; try discriminate E3.
    destruct v as [|v0 [|v1 [|v2 [|? ?]]]]; try discriminate Hl.
    unfold weights_raw, mod_int, nq. cbn. ring.
  - destruct (Nat.eq_dec (length x) 4) as [E4|N4].
    + destruct x as [|x0 [|x1 [|x2 [|x3 [|? ?]]]]]; try discriminate E4.
      destruct v as [|v0 [|v1 [|v2 [|v3 [|? ?]]]]]; try discriminate Hl.
      pose proof (Hstep 1%nat ltac:(simpl; lia)) as H21. unfold nq in H21. cbn in H21.
      pose proof (sub_neq0 x2 x1 H21) as Hd.
      unfold weights_raw, mod_int, w4_2, nq, line_int, lin_int, icept, slope. cbn. qfield.
    + rewrite weights_raw_mod_ge5 by lia. unfold weights_general.
      rewrite dotQ_map_seq0 by exact Hl.
      destruct (Nat.eq_dec (length x) 5) as [E5|N5].
      * rewrite E5 in *. subst a b. apply mod_index_sum_5; apply Hstep; lia.
      * replace (length x) with ((length x - 6) + 6)%nat by lia.
        subst a b. replace (length x - 1)%nat with ((length x - 6) + 5)%nat by lia.
        apply mod_index_sum_ge6; [apply Hstep; lia|].
        replace (length x - 6 + 4)%nat with (S (length x - 6 + 3)) by lia. apply Hstep. lia.
Qed.

(* the extrapolated interpolant of a linear function is that function: exactness for linear functions, n >= 4 *)
Lemma mod_int_linear X alpha beta n :
  (4 <= n)%nat -> (forall i, (S i < n)%nat -> X (S i) <> X i) ->
  mod_int X (fun j => alpha * X j + beta) n (X 0%nat) (X (n - 1)%nat) = lin_int alpha beta (X 0%nat) (X (n - 1)%nat).
Proof.
  intros H4 Hstep. unfold mod_int.
  destruct (Nat.eqb_spec n 3); [lia|].
  destruct (Nat.eqb_spec n 4) as [E4|N4].
  - apply line_int_linear. apply (Hstep 1%nat). lia.
  - rewrite pl_int_linear. rewrite !line_int_linear.
    + replace (2 + (n - 5))%nat with (n - 3)%nat by lia. unfold lin_int. ring.
    + replace (n - 2)%nat with (S (n - 3)) by lia. apply Hstep. lia.
    + apply (Hstep 1%nat). lia.
Qed.

Lemma mod_int_ext X V V' n a b :
  (forall j, (1 <= j)%nat -> (j + 2 <= n)%nat -> V j = V' j) -> (3 <= n)%nat -> mod_int X V n a b = mod_int X V' n a b.
Proof.
  intros H H3. unfold mod_int.
  destruct (Nat.eqb_spec n 3); [rewrite (H 1%nat) by lia; reflexivity|].
  destruct (Nat.eqb_spec n 4); [rewrite (H 1%nat), (H 2%nat) by lia; reflexivity|].
  rewrite (H 1%nat), (H 2%nat), (H (n - 3)%nat), (H (n - 2)%nat) by lia.
  f_equal. f_equal. unfold pl_int. apply sum_range_ext. intros j Hj. rewrite (H j), (H (S j)) by lia. reflexivity.
Qed.

Theorem trap_mod_linear_exact x a b alpha beta :
  strictly_increasing x -> (4 <= length x)%nat -> nq x 0 = a -> nq x (length x - 1) = b ->
  dotQ (weights_raw true x a b) (map (fun t => alpha * t + beta) x) = lin_int alpha beta a b.
Proof.
  intros Hs H4 Ha Hb.
  rewrite trap_mod_is_extrapolated_integral; try assumption; [|lia|apply map_length].
  rewrite (mod_int_ext (nq x) _ (fun j => alpha * nq x j + beta)); [|intros j H1 H2; apply nq_map_fun; lia|lia].
  subst a b. apply mod_int_linear; [exact H4|].
  intros i Hi E. pose proof (strictly_increasing_step x i Hs Hi) as L. rewrite E in L.
  apply (Qclt_not_le _ _ L). apply Qcle_refl.
Qed.

(* three points: the one-point rule (b-a) f(x_1); exact for constants, and for linear functions iff x_1 is the midpoint *)
Theorem trap_mod_linear_exact_3 x a b alpha beta :
  length x = 3%nat -> nq x 1 = (a + b) * Qchalf ->
  dotQ (weights_raw true x a b) (map (fun t => alpha * t + beta) x) = lin_int alpha beta a b.
Proof.
  intros E3 Hmid.
  destruct x as [|x0 [|x1 [|x2 [|? ?]]]]; try discriminate E3.
  unfold nq in Hmid. cbn in Hmid. subst x1.
  unfold weights_raw, lin_int. cbn. qfield.
Qed.

Lemma dotQ_const_one (w y : list Qc) : length w = length y -> dotQ w (map (fun t => 0 * t + 1) y) = sumQ w.
Proof.
  revert y. induction w as [|c w IH]; intros [|d y] Hy; try discriminate; simpl; [reflexivity|].
  rewrite IH by (simpl in Hy; lia). ring.
Qed.

Lemma weights_raw_length mb x a b : length (weights_raw mb x a b) = length x.
Proof.
  unfold weights_raw.
  destruct (mb && (length x =? 3)%nat) eqn:E3.
  - apply andb_true_iff in E3. destruct E3 as [_ E3]. apply Nat.eqb_eq in E3. rewrite E3. reflexivity.
  - destruct (mb && (length x =? 4)%nat) eqn:E4.
    + apply andb_true_iff in E4. destruct E4 as [_ E4]. apply Nat.eqb_eq in E4. rewrite E4. reflexivity.
    + apply weights_general_length.
Qed.

(* T7: the weights sum to b - a for every n >= 3 *)
Theorem trap_mod_sum x a b :
  strictly_increasing x -> (3 <= length x)%nat -> nq x 0 = a -> nq x (length x - 1) = b ->
  sumQ (weights_raw true x a b) = b - a.
Proof.
  intros Hs H3 Ha Hb.
  rewrite <- (dotQ_const_one _ x) by apply weights_raw_length.
  destruct (Nat.eq_dec (length x) 3) as [E3|N3].
  - destruct x as [|x0 [|x1 [|x2 [|? ?]]]]; try discriminate E3. unfold weights_raw. cbn. ring.
  - rewrite trap_mod_linear_exact by (try assumption; lia). unfold lin_int. ring.
Qed.

Theorem trap_mod_first_moment x a b :
  strictly_increasing x -> (4 <= length x)%nat -> nq x 0 = a -> nq x (length x - 1) = b ->
  dotQ (weights_raw true x a b) x = (b * b - a * a) * Qchalf.
Proof.
  intros Hs H4 Ha Hb.
  assert (E : forall y : list Qc, map (fun t => 1 * t + 0) y = y).
  { induction y as [|c y IH]; simpl; [reflexivity|]. f_equal; [ring | exact IH]. }
  pose proof (trap_mod_linear_exact x a b 1 0 Hs H4 Ha Hb) as H. rewrite E in H. rewrite H. unfold lin_int. ring.
Qed.

(* boundary weights are zero: the stripped weights carry the whole rule *)
Lemma weights_raw_mod_ends x a b :
  (3 <= length x)%nat -> nq (weights_raw true x a b) 0 = 0 /\ nq (weights_raw true x a b) (length x - 1) = 0.
Proof.
  intro H3.
  destruct (Nat.eq_dec (length x) 3) as [E3|N3].
  - unfold weights_raw. cbn [andb]. rewrite E3. split; reflexivity.
  - destruct (Nat.eq_dec (length x) 4) as [E4|N4].
    + unfold weights_raw. cbn [andb]. rewrite E4. split; reflexivity.
    + rewrite weights_raw_mod_ge5 by lia. unfold weights_general. split.
      * rewrite nq_map_seq by lia. apply wg_mod_first.
      * rewrite nq_map_seq by lia. apply wg_mod_last. lia.
Qed.

Theorem trap_mod_stripped_sum x a b :
  strictly_increasing x -> (3 <= length x)%nat -> nq x 0 = a -> nq x (length x - 1) = b ->
  sumQ (strip (weights_raw true x a b)) = b - a.
Proof.
  intros Hs H3 Ha Hb. rewrite <- (trap_mod_sum x a b Hs H3 Ha Hb).
  rewrite (sumQ_strip (weights_raw true x a b)) by (rewrite weights_raw_length; lia).
  rewrite weights_raw_length. destruct (weights_raw_mod_ends x a b H3) as [-> ->]. ring.
Qed.

(* T8: the self-assert of the Python never fires on a valid grid: compute_weights returns the weights *)
Theorem trap_mod_assert_never_fails x a b :
  strictly_increasing x -> (3 <= length x)%nat -> nq x 0 = a -> nq x (length x - 1) = b ->
  compute_weights x a b true = Some (weights_raw true x a b).
Proof.
  intros Hs H3 Ha Hb. unfold compute_weights. cbn [andb].
  destruct (Nat.ltb_spec (length x) 3); [lia|].
  unfold mod_assert_ok. rewrite (trap_mod_stripped_sum x a b Hs H3 Ha Hb).
  assert (Hab : a < b). { subst a b. apply strictly_increasing_lt; [exact Hs|lia|lia]. }
  assert (L1 : Qc_leb ((b - a) * (1 - assert_eps)) (b - a) = true).
  { apply Qc_leb_le. unfold assert_eps. qc_order. }
  assert (L2 : Qc_leb (b - a) ((b - a) * (1 + assert_eps)) = true).
  { apply Qc_leb_le. unfold assert_eps. qc_order. }
  rewrite L1, L2. reflexivity.
Qed.
