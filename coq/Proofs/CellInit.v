(* C04 / cell strategy: initialize_refinement.  For EVERY dimension, minimum level and non-degenerate domain the initial state satisfies
   the invariants of Proofs/CellExactB.v (CInv: the lmin cells tile the domain) and Proofs/CellDefined.v (DInv: width/level consistency,
   parent closure): no child created by split_cell_arbitrary_dim is already in cell_dict (boxes of equal level vectors created in one pass
   have disjoint interiors, boxes of different passes have different widths). *)
From Coq Require Import ZArith List Bool QArith Qcanon Lia.
From SG Require Import Base.QcUtil Model.CombiScheme Model.Tensor Model.ExtendSplit Model.ESExact Model.CellScheme
     Proofs.ESGeom Proofs.ESExact Proofs.ESMoments Proofs.TrapBasics Proofs.CellExactA Proofs.CellExactB Proofs.CellDefined.
Import ListNotations.
Open Scope Z_scope.

(* ---------------------------------------------------------------- finding cells *)
Lemma box_eqb_neq k k' : k <> k' -> box_eqb k k' = false.
Proof. intro H. destruct (box_eqb k k') eqn:E; [|reflexivity]. exfalso. apply H. apply box_eqb_eq. exact E. Qed.

Lemma find_cell_none k dict : (forall c, In c dict -> ckey c <> k) -> find_cell k dict = None.
Proof.
  unfold find_cell. induction dict as [|c dict IH]; intro H; [reflexivity|]. simpl.
  rewrite (box_eqb_neq _ _ (H c (or_introl eq_refl))). apply IH. intros c' Hc'. apply H. right. exact Hc'.
Qed.

Lemma find_cell_app2 k d1 d2 : find_cell k (d1 ++ d2) = match find_cell k d1 with Some c => Some c | None => find_cell k d2 end.
Proof. unfold find_cell. induction d1 as [|c d1 IH]; simpl; [reflexivity|]. destruct (box_eqb (ckey c) k); [reflexivity | exact IH]. Qed.

Lemma find_cell_nodup k dict c : NoDup (map ckey dict) -> In c dict -> ckey c = k -> find_cell k dict = Some c.
Proof.
  unfold find_cell. induction dict as [|c0 dict IH]; intros ND Hin Ek; [destruct Hin|]. simpl. inversion ND as [|? ? Hn ND']; subst.
  destruct Hin as [->|Hin].
  - rewrite box_eqb_refl. reflexivity.
  - destruct (box_eqb (ckey c0) (ckey c)) eqn:E.
    + exfalso. apply box_eqb_eq in E. apply Hn. rewrite E. apply in_map. exact Hin.
    + apply IH; [exact ND' | exact Hin | reflexivity].
Qed.

(* ---------------------------------------------------------------- closed form of one splitting pass *)
Definition mkc (klv : box * list Z) : cell := mkCell (fst (fst klv)) (snd (fst klv)) (snd klv) true.
Definition chlv (d : nat) (klv : box * list Z) : list (box * list Z) :=
  map (fun ch => (ch, bump_lv d 1 (snd klv))) (children_keys d (fst klv)).

Lemma ckey_mkc klv : ckey (mkc klv) = fst klv.
Proof. unfold ckey, mkc. cbn [c_s c_e]. destruct (fst klv); reflexivity. Qed.

Lemma map_fst_chlv d klv : map fst (chlv d klv) = children_keys d (fst klv).
Proof. unfold chlv. rewrite map_map. cbn [fst]. apply map_id. Qed.

Lemma split_cell_spec d dict out klv :
  (forall ch, In ch (children_keys d (fst klv)) -> find_cell ch dict = None) -> NoDup (children_keys d (fst klv)) ->
  split_cell d (dict, out) klv = (dict ++ map mkc (chlv d klv), out ++ chlv d klv).
Proof.
  intros Hnf ND. unfold split_cell, chlv. unfold children_keys in *. cbv zeta in *.
  set (u := (set_nth d (nth d (fst (fst klv)) 0 + Qchalf * (nth d (snd (fst klv)) 0 - nth d (fst (fst klv)) 0))%Qc (fst (fst klv)), snd (fst klv))) in *.
  set (l := (fst (fst klv), set_nth d (nth d (snd (fst klv)) 0 - Qchalf * (nth d (snd (fst klv)) 0 - nth d (fst (fst klv)) 0))%Qc (snd (fst klv)))) in *.
  cbn [fold_left map].
  rewrite (Hnf u (or_introl eq_refl)).
  rewrite find_cell_app, (Hnf l (or_intror (or_introl eq_refl))).
  assert (Hul : u <> l) by (inversion ND as [|? ? Hn _]; subst; intro E; apply Hn; left; symmetry; exact E).
  unfold ckey. cbn [c_s c_e]. assert (Eu : (fst u, snd u) = u) by (destruct u; reflexivity). rewrite Eu, (box_eqb_neq _ _ Hul).
  unfold mkc. cbn [fst snd]. rewrite <- !app_assoc. reflexivity.
Qed.

Lemma find_cell_map_mkc_none k L : ~ In k (map fst L) -> find_cell k (map mkc L) = None.
Proof.
  intro H. apply find_cell_none. intros c Hc. apply in_map_iff in Hc. destruct Hc as [klv [<- Hk]]. rewrite ckey_mkc.
  intro E. apply H. rewrite <- E. apply in_map. exact Hk.
Qed.

Lemma NoDup_app_inv {A} (l1 l2 : list A) : NoDup (l1 ++ l2) -> NoDup l1 /\ NoDup l2 /\ forall x, In x l1 -> ~ In x l2.
Proof.
  induction l1 as [|x l1 IH]; intro H; [split; [constructor | split; [exact H | intros x []]]|].
  simpl in H. inversion H as [|? ? Hn H']; subst. destruct (IH H') as [N1 [N2 N3]]. split; [|split; [exact N2|]].
  - constructor; [intro Hx; apply Hn; apply in_or_app; left; exact Hx | exact N1].
  - intros y [->|Hy]; [intro Hy2; apply Hn; apply in_or_app; right; exact Hy2 | apply N3; exact Hy].
Qed.

Lemma split_pass_spec d : forall l dict0 out0,
  (forall klv ch, In klv l -> In ch (children_keys d (fst klv)) -> find_cell ch dict0 = None) ->
  NoDup (flat_map (children_keys d) (map fst l)) ->
  fold_left (split_cell d) l (dict0, out0) = (dict0 ++ map mkc (flat_map (chlv d) l), out0 ++ flat_map (chlv d) l).
Proof.
  induction l as [|klv l IH]; intros dict0 out0 Hnf ND; [simpl; rewrite !app_nil_r; reflexivity|].
  cbn [fold_left flat_map map] in *. destruct (NoDup_app_inv _ _ ND) as [NDh [ND2 NDx]].
  rewrite (split_cell_spec d dict0 out0 klv (fun ch Hch => Hnf klv ch (or_introl eq_refl) Hch) NDh).
  rewrite (IH (dict0 ++ map mkc (chlv d klv)) (out0 ++ chlv d klv)).
  - rewrite map_app, <- !app_assoc. reflexivity.
  - intros klv' ch Hk Hch. rewrite find_cell_app2, (Hnf klv' ch (or_intror Hk) Hch). apply find_cell_map_mkc_none.
    rewrite map_fst_chlv. intro Hin. apply (NDx ch Hin).
    apply in_flat_map. exists (fst klv'). split; [apply in_map; exact Hk | exact Hch].
  - exact ND2.
Qed.

(* ---------------------------------------------------------------- geometry: children partition their parent *)
Lemma children_keys_halves d k : children_keys d k = rev (halves d k).
Proof.
  unfold children_keys, halves, midpoint, qc_half. cbn [rev app].
  assert (E1 : (nth d (fst k) 0 + Qchalf * (nth d (snd k) 0 - nth d (fst k) 0) = (nth d (fst k) 0 + nth d (snd k) 0) * Qchalf)%Qc).
  { rewrite half_eq. field. intro H. discriminate H. }
  assert (E2 : (nth d (snd k) 0 - Qchalf * (nth d (snd k) 0 - nth d (fst k) 0) = (nth d (fst k) 0 + nth d (snd k) 0) * Qchalf)%Qc).
  { rewrite half_eq. field. intro H. discriminate H. }
  rewrite E1, E2. reflexivity.
Qed.

Lemma parts_swap2 d b x y : Parts d b [x; y] -> Parts d b [y; x].
Proof.
  intros [W S Si C D]. constructor.
  - inversion W as [|? ? Wx W']; subst. inversion W' as [|? ? Wy _]; subst. constructor; [exact Wy | constructor; [exact Wx | constructor]].
  - intros q p Hq. apply S. destruct Hq as [<-|[<-|[]]]; [right; left | left]; reflexivity.
  - intros q p Hq. apply Si. destruct Hq as [<-|[<-|[]]]; [right; left | left]; reflexivity.
  - intros p Hp. destruct (C p Hp) as [q [Hq Hb]]. exists q. split; [|exact Hb]. destruct Hq as [<-|[<-|[]]]; [right; left | left]; reflexivity.
  - simpl in *. destruct D as [D1 _]. inversion D1 as [|? ? Dxy _]; subst. split; [constructor; [apply disj_sym; exact Dxy | constructor] | split; [constructor | exact I]].
Qed.

Lemma parts_children d k b : Wf d b -> (k < d)%nat -> Parts d b (children_keys k b).
Proof. intros W Hk. rewrite children_keys_halves. unfold halves. cbn [rev app]. apply parts_swap2. apply (parts_halves d k b W Hk). Qed.

Lemma ma_children ex d k b : Wf d b -> (k < d)%nat -> length ex = d -> MA ex b (children_keys k b).
Proof.
  intros W Hk Lx. rewrite children_keys_halves. pose proof (ma_halves ex d k b W Hk Lx) as H. unfold MA in *. unfold halves in *. cbn [rev app map sumQ] in *.
  rewrite <- H. ring.
Qed.

(* a non-degenerate box has an interior point *)
Lemma wfbox_interior : forall s e, wfbox s e -> exists p, inint p s e.
Proof.
  induction s as [|x s IH]; intros [|y e] W; simpl in W; try contradiction; [exists []; exact I|].
  destruct W as [Hxy W]. destruct (IH e W) as [p Hp]. exists (qc_half (x + y) :: p). simpl.
  destruct (half_between x y Hxy) as [A B]. repeat split; assumption.
Qed.

Lemma parts_NoDup d b P : Parts d b P -> NoDup P.
Proof.
  intros [W _ _ _ D]. induction P as [|q P IH]; [constructor|].
  inversion W as [|? ? Wq W']; subst. simpl in D. destruct D as [Dq D']. constructor; [|apply IH; assumption].
  intro Hin. rewrite Forall_forall in Dq. specialize (Dq q Hin). destruct Wq as [Wq _]. destruct (wfbox_interior _ _ Wq) as [p Hp].
  apply (Dq p). split; exact Hp.
Qed.

(* ---------------------------------------------------------------- the level vector of the cells produced in pass (d, t) *)
Definition Lv (dim : nat) (lmin : Z) (d : nat) (t : Z) : list Z :=
  map (fun d' => if (d' <? d)%nat then lmin else if (d' =? d)%nat then t else 0) (seq 0 dim).

Lemma Lv_length dim lmin d t : length (Lv dim lmin d t) = dim.
Proof. unfold Lv. rewrite map_length, seq_length. reflexivity. Qed.

Lemma nth_map_seq {A} (f : nat -> A) dflt : forall n s d', (d' < n)%nat -> nth d' (map f (seq s n)) dflt = f (s + d')%nat.
Proof.
  induction n as [|n IH]; intros s d' H; [lia|]. destruct d' as [|d']; simpl; [f_equal; lia|]. rewrite IH by lia. f_equal. lia.
Qed.

Lemma Lv_nth dim lmin d t d' : (d' < dim)%nat ->
  nth d' (Lv dim lmin d t) 0 = if (d' <? d)%nat then lmin else if (d' =? d)%nat then t else 0.
Proof. intro H. unfold Lv. rewrite nth_map_seq by exact H. reflexivity. Qed.

Lemma Lv_bump dim lmin d t : (d < dim)%nat -> bump_lv d 1 (Lv dim lmin d t) = Lv dim lmin d (t + 1).
Proof.
  intro Hd. apply (nth_ext _ _ 0 0); [rewrite bump_lv_length, !Lv_length; reflexivity|]. intros d' Hd'. rewrite bump_lv_length, Lv_length in Hd'.
  destruct (Nat.eq_dec d' d) as [->|Hne].
  - rewrite nth_bump_same by (rewrite Lv_length; exact Hd). rewrite !Lv_nth by exact Hd. rewrite Nat.ltb_irrefl, Nat.eqb_refl. reflexivity.
  - rewrite nth_bump_other by lia. rewrite !Lv_nth by exact Hd'. destruct (d' <? d)%nat; [reflexivity|].
    destruct (Nat.eqb_spec d' d); [contradiction | reflexivity].
Qed.

Lemma Lv_next dim lmin d : Lv dim lmin d lmin = Lv dim lmin (S d) 0.
Proof.
  apply (nth_ext _ _ 0 0); [rewrite !Lv_length; reflexivity|]. intros d' Hd'. rewrite Lv_length in Hd'. rewrite !Lv_nth by exact Hd'.
  destruct (Nat.ltb_spec d' d); destruct (Nat.ltb_spec d' (S d)); destruct (Nat.eqb_spec d' d); destruct (Nat.eqb_spec d' (S d)); try lia; reflexivity.
Qed.

Lemma nth_repeat_lt {A} (x dflt : A) : forall n d', (d' < n)%nat -> nth d' (repeat x n) dflt = x.
Proof. induction n as [|n IH]; intros [|d'] H; simpl; try lia; [reflexivity | apply IH; lia]. Qed.

Lemma Lv_zero dim lmin : Lv dim lmin 0 0 = repeat 0 dim.
Proof.
  apply (nth_ext _ _ 0 0); [rewrite Lv_length, repeat_length; reflexivity|]. intros d' Hd'. rewrite Lv_length in Hd'. rewrite Lv_nth by exact Hd'.
  rewrite nth_repeat_lt by exact Hd'. destruct (d' <? 0)%nat eqn:E; [apply Nat.ltb_lt in E; lia|]. destruct (d' =? 0)%nat; reflexivity.
Qed.

Lemma Lv_final dim lmin t : Lv dim lmin dim t = repeat lmin dim.
Proof.
  apply (nth_ext _ _ 0 0); [rewrite Lv_length, repeat_length; reflexivity|]. intros d' Hd'. rewrite Lv_length in Hd'. rewrite Lv_nth by exact Hd'.
  destruct (Nat.ltb_spec d' dim); [|lia]. symmetry. apply nth_repeat_lt. exact Hd'.
Qed.

(* ---------------------------------------------------------------- invariant of the initialisation loop *)
Section Init.
Variables (dim : nat) (lmin : Z) (a b : list Qc) (ex : list nat).
Hypotheses (Hbox : wfbox a b) (Hdim : length a = dim) (Hlmin : 0 <= lmin) (Hex : length ex = dim).

Lemma Hab_of : forall d, (d < dim)%nat -> (nth d a 0 < nth d b 0)%Qc.
Proof. intros d Hd. apply wfbox_nth; [exact Hbox | lia]. Qed.

Definition cell_ok (d : nat) (t : Z) (c : cell) : Prop :=
  cWL a b dim (ckey c) (c_lv c) /\ wfbox (c_s c) (c_e c) /\
  forall d', (d' < dim)%nat -> 0 <= nth d' (c_lv c) 0 <= nth d' (Lv dim lmin d t) 0.

Record PI (d : nat) (t : Z) (acc : list cell * list (box * list Z)) : Prop := mkPI {
  p_parts : Parts dim (a, b) (map fst (snd acc));
  p_mom : MA ex (a, b) (map fst (snd acc));
  p_out : forall klv, In klv (snd acc) -> snd klv = Lv dim lmin d t /\ cWL a b dim (fst klv) (snd klv) /\ In (mkc klv) (fst acc);
  p_dict : forall c, In c (fst acc) -> cell_ok d t c;
  p_nodup : NoDup (map ckey (fst acc))
}.

Lemma map_fst_flat_chlv d out : map fst (flat_map (chlv d) out) = flat_map (children_keys d) (map fst out).
Proof. induction out as [|klv out IH]; [reflexivity|]. cbn [flat_map map]. rewrite map_app, map_fst_chlv, IH. reflexivity. Qed.

Lemma NoDup_app_intro {A} (l1 l2 : list A) : NoDup l1 -> NoDup l2 -> (forall x, In x l1 -> ~ In x l2) -> NoDup (l1 ++ l2).
Proof.
  induction l1 as [|x l1 IH]; intros N1 N2 H; [exact N2|]. inversion N1 as [|? ? Hn N1']; subst. simpl. constructor.
  - intro Hx. apply in_app_or in Hx. destruct Hx as [Hx|Hx]; [apply Hn; exact Hx | apply (H x (or_introl eq_refl)); exact Hx].
  - apply IH; [exact N1' | exact N2 | intros y Hy; apply H; right; exact Hy].
Qed.

Lemma pass_step d t acc : (d < dim)%nat -> 0 <= t < lmin -> PI d t acc -> PI d (t + 1) (split_all_cells d acc).
Proof.
  intros Hd Ht [PP PM PO PD PN]. destruct acc as [dict out]. cbn [fst snd] in *.
  assert (Wout : forall klv, In klv out -> Wf dim (fst klv)).
  { intros klv Hk. pose proof (pt_wf _ _ _ PP) as W. rewrite Forall_forall in W. apply W. apply in_map. exact Hk. }
  assert (Cwl : forall klv ch, In klv out -> In ch (children_keys d (fst klv)) -> cWL a b dim ch (Lv dim lmin d (t + 1))).
  { intros klv ch Hk Hch. destruct (PO klv Hk) as [E [W _]]. rewrite <- (Lv_bump dim lmin d t Hd), <- E.
    apply (child_cWL a b dim (fst klv) (snd klv) d ch Hab_of W Hd Hch). }
  assert (Hnf : forall klv ch, In klv out -> In ch (children_keys d (fst klv)) -> forall c, In c dict -> ckey c <> ch).
  { intros klv ch Hk Hch c Hc E. destruct (PD c Hc) as [Wc [_ Lc]]. pose proof (Cwl klv ch Hk Hch) as Wch. rewrite <- E in Wch.
    pose proof (level_from_width a b dim Hab_of (ckey c) (c_lv c) (ckey c) (Lv dim lmin d (t + 1)) d Wc Wch Hd eq_refl) as El.
    rewrite (Lv_nth dim lmin d (t + 1) d Hd), Nat.ltb_irrefl, Nat.eqb_refl in El.
    destruct (Lc d Hd) as [_ Ub]. rewrite (Lv_nth dim lmin d t d Hd), Nat.ltb_irrefl, Nat.eqb_refl in Ub. lia. }
  assert (PP' : Parts dim (a, b) (flat_map (children_keys d) (map fst out))).
  { apply parts_flat_map; [exact PP|]. intros q Hq. apply parts_children; [|exact Hd].
    pose proof (pt_wf _ _ _ PP) as W. rewrite Forall_forall in W. apply W. exact Hq. }
  assert (ND : NoDup (flat_map (children_keys d) (map fst out))) by (apply (parts_NoDup dim (a, b)); exact PP').
  unfold split_all_cells. cbn [fst snd].
  rewrite (split_pass_spec d out dict [] (fun klv ch Hk Hch => find_cell_none ch dict (Hnf klv ch Hk Hch)) ND). cbn [app].
  constructor; cbn [fst snd].
  - rewrite map_fst_flat_chlv. exact PP'.
  - rewrite map_fst_flat_chlv. apply ma_flat_map; [exact PM|]. intros q Hq. apply (ma_children ex dim d q); [|exact Hd | exact Hex].
    pose proof (pt_wf _ _ _ PP) as W. rewrite Forall_forall in W. apply W. exact Hq.
  - intros klv' Hk'. apply in_flat_map in Hk'. destruct Hk' as [klv [Hk Hin]]. unfold chlv in Hin. apply in_map_iff in Hin.
    destruct Hin as [ch [<- Hch]]. cbn [fst snd]. destruct (PO klv Hk) as [E _]. split; [rewrite E; apply Lv_bump; exact Hd|]. split.
    + rewrite E, (Lv_bump dim lmin d t Hd). exact (Cwl klv ch Hk Hch).
    + apply in_or_app. right. apply in_map. apply in_flat_map. exists klv. split; [exact Hk|]. unfold chlv. apply in_map_iff. exists ch. split; [reflexivity | exact Hch].
  - intros c Hc. apply in_app_or in Hc. destruct Hc as [Hc|Hc].
    + destruct (PD c Hc) as [Wc [Bc Lc]]. split; [exact Wc | split; [exact Bc|]]. intros d' Hd'. destruct (Lc d' Hd') as [L0 L1]. split; [exact L0|].
      rewrite (Lv_nth dim lmin d t d' Hd') in L1. rewrite (Lv_nth dim lmin d (t + 1) d' Hd'). destruct (d' <? d)%nat; [exact L1|]. destruct (d' =? d)%nat; lia.
    + apply in_map_iff in Hc. destruct Hc as [klv' [<- Hk']]. apply in_flat_map in Hk'. destruct Hk' as [klv [Hk Hin]]. unfold chlv in Hin.
      apply in_map_iff in Hin. destruct Hin as [ch [<- Hch]]. destruct (PO klv Hk) as [E _].
      unfold cell_ok. rewrite ckey_mkc. unfold mkc. cbn [fst snd c_lv c_s c_e]. rewrite E, (Lv_bump dim lmin d t Hd).
      split; [exact (Cwl klv ch Hk Hch) | split].
      * destruct (Wout klv Hk) as [W1 W2]. apply (children_wf dim d (fst klv) ch W1 W2 Hd Hch).
      * intros d' Hd'. split; [|lia]. rewrite (Lv_nth dim lmin d (t + 1) d' Hd'). destruct (d' <? d)%nat; [exact Hlmin|]. destruct (d' =? d)%nat; lia.
  - rewrite map_app. apply NoDup_app_intro; [exact PN | |].
    + rewrite map_map. rewrite (map_ext (fun x => ckey (mkc x)) fst) by (intro x; apply ckey_mkc). rewrite map_fst_flat_chlv. exact ND.
    + intros k Hk1 Hk2. rewrite map_map, (map_ext (fun x => ckey (mkc x)) fst) in Hk2 by (intro x; apply ckey_mkc). rewrite map_fst_flat_chlv in Hk2.
      apply in_flat_map in Hk2. destruct Hk2 as [q [Hq Hch]]. apply in_map_iff in Hq. destruct Hq as [klv [<- Hklv]].
      apply in_map_iff in Hk1. destruct Hk1 as [c [Ec Hc]]. apply (Hnf klv k Hklv Hch c Hc Ec).
Qed.

Lemma pass_iter d : forall n t acc, (d < dim)%nat -> 0 <= t -> t + Z.of_nat n <= lmin -> PI d t acc ->
  PI d (t + Z.of_nat n) (iter n (split_all_cells d) acc).
Proof.
  induction n as [|n IH]; intros t acc Hd Ht Hle H; [simpl; rewrite Z.add_0_r; exact H|].
  cbn [iter]. replace (t + Z.of_nat (S n)) with ((t + 1) + Z.of_nat n) by lia.
  apply IH; [exact Hd | lia | lia|]. apply pass_step; [exact Hd | lia | exact H].
Qed.

Lemma PI_next d acc : PI d lmin acc -> PI (S d) 0 acc.
Proof.
  intros [PP PM PO PD PN]. constructor; try assumption.
  - intros klv Hk. destruct (PO klv Hk) as [E R]. split; [rewrite E; apply Lv_next | exact R].
  - intros c Hc. destruct (PD c Hc) as [W [B L]]. split; [exact W | split; [exact B|]]. rewrite <- Lv_next. exact L.
Qed.

Lemma dims_loop : forall n d0 acc, (d0 + n <= dim)%nat -> PI d0 0 acc ->
  PI (d0 + n) 0 (fold_left (fun acc d => iter (Z.to_nat lmin) (split_all_cells d) acc) (seq d0 n) acc).
Proof.
  induction n as [|n IH]; intros d0 acc Hle H; [simpl; rewrite Nat.add_0_r; exact H|].
  cbn [seq fold_left]. replace (d0 + S n)%nat with (S d0 + n)%nat by lia. apply IH; [lia|]. apply PI_next.
  pose proof (pass_iter d0 (Z.to_nat lmin) 0 acc ltac:(lia) ltac:(lia) ltac:(lia) H) as P. rewrite Z2Nat.id in P by exact Hlmin. exact P.
Qed.

Lemma PI_start : PI 0 0 ([mkCell a b (repeat 0 dim) true], [((a, b), repeat 0 dim)]).
Proof.
  pose proof (wfbox_length _ _ Hbox) as Lab.
  assert (W0 : cWL a b dim (a, b) (repeat 0 dim)).
  { split; [apply repeat_length | split; [exact Hdim | split; [cbn [snd]; lia|]]]. intros d Hd. rewrite nth_repeat_lt by exact Hd.
    split; [lia|]. unfold width, qc_pow2. cbn [fst snd]. change (qc_of_Z (2 ^ 0)) with 1%Qc. ring. }
  constructor; cbn [fst snd map].
  - apply parts_self. split; assumption.
  - apply ma_self.
  - intros klv [<-|[]]. cbn [fst snd]. split; [symmetry; apply Lv_zero | split; [exact W0 | left; reflexivity]].
  - intros c [<-|[]]. split; [exact W0 | split; [exact Hbox|]]. intros d' Hd'. cbn [c_lv]. rewrite nth_repeat_lt by exact Hd'.
    rewrite (Lv_nth dim lmin 0 0 d' Hd'). destruct (d' <? 0)%nat; [lia|]. destruct (d' =? 0)%nat; lia.
  - constructor; [intros [] | constructor].
Qed.

(* the initial state satisfies both invariants *)
Theorem cell_init_invariants : Forall (fun n => (n <= 1)%nat) ex -> CInv ex (cell_init dim lmin a b) /\ DInv (cell_init dim lmin a b).
Proof.
  intro Fx. unfold cell_init.
  pose proof (dims_loop dim 0%nat _ ltac:(lia) PI_start) as P. cbn [Nat.add] in P.
  destruct (fold_left _ (seq 0 dim) _) as [dict objs]. destruct P as [PP PM PO PD PN]. cbn [fst snd] in *.
  assert (Found : forall klv, In klv objs -> find_cell (fst klv) dict = Some (mkc klv)).
  { intros klv Hk. destruct (PO klv Hk) as [_ [_ Hin]]. apply (find_cell_nodup _ _ _ PN Hin). apply ckey_mkc. }
  split.
  - constructor; cbn [cs_dim cs_lmin cs_a cs_b cs_dict cs_objs].
    + intros c Hc. destruct (PD c Hc) as [[_ [L _]] [B _]]. split; [exact B | exact L].
    + intros k Hk. apply in_map_iff in Hk. destruct Hk as [klv [<- Hklv]]. exists (mkc klv). split; [apply Found; exact Hklv|].
      destruct (PO klv Hklv) as [E _]. unfold mkc. cbn [c_lv]. rewrite E, Lv_final. split; [|apply repeat_length].
      apply Forall_forall. intros l Hl. apply repeat_spec in Hl. lia.
    + unfold MA in PM. change (bmom a b ex) with (bm ex (a, b)). rewrite <- PM. rewrite !map_map. f_equal. apply map_ext_in. intros klv Hklv. unfold base_mom. rewrite (Found klv Hklv).
      destruct (PO klv Hklv) as [E _]. unfold mkc. cbn [c_lv]. rewrite E, Lv_final.
      assert (Hb : is_base lmin dim (repeat lmin dim) = true).
      { unfold is_base. apply forallb_forall. intros d Hd. apply in_seq in Hd. rewrite nth_repeat_lt by lia. apply Z.leb_refl. }
      rewrite Hb. reflexivity.
  - constructor; cbn [cs_dim cs_lmin cs_a cs_b cs_dict cs_objs].
    + exact Hab_of.
    + exact Hlmin.
    + intros c Hc. apply (PD c Hc).
    + intros c d p Hc Hd Hp. exfalso. destruct (PD c Hc) as [_ [_ L]]. destruct (L d Hd) as [_ Ub].
      rewrite (Lv_nth dim lmin dim 0 d Hd) in Ub. destruct (Nat.ltb_spec d dim); [|lia].
      unfold parent_key in Hp. destruct (Z.leb_spec (nth d (c_lv c) 0) lmin); [discriminate | lia].
Qed.
End Init.

(* ---------------------------------------------------------------- the unconditional theorem *)
Theorem cell_multilinear_exact_unconditional dim lmin a b rounds ex :
  wfbox a b -> length a = dim -> 0 <= lmin -> length ex = dim -> Forall (fun n => (n <= 1)%nat) ex ->
  cell_integral (cell_run (cell_init dim lmin a b) rounds) (monomial ex) = Some (bmom a b ex).
Proof.
  intros Hbox Hdim Hl Lx Fx. destruct (cell_init_invariants dim lmin a b ex Hbox Hdim Hl Lx Fx) as [C0 D0].
  destruct (cell_init_fields dim lmin a b) as [E1 [E2 E3]].
  destruct (cell_run_frame rounds (cell_init dim lmin a b)) as [F1 [F2 F3]].
  pose proof (cell_run_inv ex rounds _ C0) as HI. pose proof (cell_run_dinv rounds _ D0) as HD.
  destruct (cell_integral_defined _ (monomial ex) HD) as [v Hv].
  { intros k Hk. destruct (ci_objs ex _ HI k Hk) as [c [Hc _]]. exists c. exact Hc. }
  rewrite Hv. f_equal. pose proof (cinv_exact ex _ v HI ltac:(rewrite F1, E1; exact Lx) Fx Hv) as R. rewrite F2, F3, E2, E3 in R. exact R.
Qed.

(* the two verified checkers accept every initial configuration *)
Theorem cell_no_keyerror dim lmin a b rounds f :
  wfbox a b -> length a = dim -> 0 <= lmin -> exists v, cell_integral (cell_run (cell_init dim lmin a b) rounds) f = Some v.
Proof.
  intros Hbox Hdim Hl.
  destruct (cell_init_invariants dim lmin a b (repeat 0%nat dim) Hbox Hdim Hl (repeat_length _ _)) as [C0 D0].
  { apply Forall_forall. intros n Hn. apply repeat_spec in Hn. lia. }
  apply cell_integral_defined; [apply cell_run_dinv; exact D0|].
  intros k Hk. destruct (ci_objs _ _ (cell_run_inv _ rounds _ C0) k Hk) as [c [Hc _]]. exists c. exact Hc.
Qed.
