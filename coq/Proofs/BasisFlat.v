(* C10 — the code-shaped (flat, index-arithmetic) forms of interpolation and hierarchisation equal the tensor recursions
   of Model/Basis.v, for every number of dimensions and every shape.
   interp_flat: GlobalBasisGrid.interpolate / BasisGrid.interpolate
     (for i, index in enumerate(get_cross_product_range(numPoints)): result += surplus[:, i] * prod_d evaluations[d][:, index[d]]) *)
From Coq Require Import ZArith List QArith Qcanon Bool Arith Lia.
From SG Require Import Base.QcUtil Model.Basis Model.BasisPieces
  Proofs.BasisLagrange Proofs.BasisHier Proofs.BasisInterp Proofs.BasisCheck.
Import ListNotations.
Open Scope Qc_scope.

(* ------------------------------------------------------------------ sums over blocks of a flat index range *)
Lemma seq_shift_add off len : seq off len = map (fun j => (off + j)%nat) (seq 0 len).
Proof.
  revert off; induction len as [|len IH]; intro off; [reflexivity|].
  cbn [seq map]. f_equal; [lia|]. rewrite (IH (S off)), <- seq_shift, map_map.
  apply map_ext. intro j. lia.
Qed.

Lemma sum_blocks (G : nat -> Qc) n len :
  sumQ (map G (seq 0 (n * len))) = sumQ (map (fun i => sumQ (map (fun j => G (i * len + j)%nat) (seq 0 len))) (seq 0 n)).
Proof.
  induction n as [|n IH]; [reflexivity|].
  replace (S n * len)%nat with (n * len + len)%nat by lia.
  rewrite seq_app, map_app, sumQ_app, IH.
  replace (S n) with (n + 1)%nat by lia.
  rewrite (seq_app n 1 0), map_app, sumQ_app. cbn [seq map sumQ plus].
  rewrite (seq_shift_add (n * len) len), map_map. ring.
Qed.

(* ------------------------------------------------------------------ get_cross_product_range *)
Lemma cross_range_length np : length (cross_range np) = prodN np.
Proof.
  induction np as [|n r IH]; [reflexivity|]. cbn [cross_range prodN].
  rewrite (flat_map_length_uniform _ _ (prodN r)); [rewrite seq_length; reflexivity|].
  intro i. rewrite map_length. exact IH.
Qed.

Lemma cross_range_nth n r i j :
  (i < n)%nat -> (j < prodN r)%nat ->
  nth (i * prodN r + j) (cross_range (n :: r)) [] = i :: nth j (cross_range r) [].
Proof.
  intros Hi Hj. cbn [cross_range].
  rewrite (nth_flat_map_uniform _ (seq 0 n) (prodN r) O [] i j);
    [| intro x; rewrite map_length; apply cross_range_length | rewrite seq_length; exact Hi | exact Hj].
  rewrite seq_nth by exact Hi. cbn [plus].
  rewrite (nth_map_lt (cons i) (cross_range r) [] [] j) by (rewrite cross_range_length; exact Hj).
  reflexivity.
Qed.

(* ------------------------------------------------------------------ interp_flat = interp_nd *)
Definition evals_of (ss : list sys1) (xs : list Qc) : list (list Qc) :=
  map (fun sx => map (fun xb => beval (snd xb) (fst sx)) (s_basis (snd sx))) (combine xs ss).

Definition flat_term (evals : list (list Qc)) (idx : list nat) : Qc :=
  prodQ (map (fun de => nthQ (snd de) (fst de)) (combine idx evals)).

Lemma interp_flat_unfold ss xs sur :
  interp_flat ss xs sur =
  sumQ (map (fun k => nthQ sur k * flat_term (evals_of ss xs) (nth k (cross_range (map s_n ss)) []))
            (seq 0 (prodN (map s_n ss)))).
Proof.
  unfold interp_flat. fold (evals_of ss xs).
  rewrite (sum_combine_seq _ (seq 0 (prodN (map s_n ss))) (cross_range (map s_n ss)) O [] (prodN (map s_n ss)));
    [| apply seq_length | apply cross_range_length].
  apply sumQ_map_ext_in. intros k Hk. apply in_seq in Hk. cbn [fst snd].
  rewrite seq_nth by lia. reflexivity.
Qed.

Theorem interp_flat_eq_interp_nd ss : forall xs sur,
  length xs = length ss -> interp_flat ss xs sur = interp_nd ss xs sur.
Proof.
  induction ss as [|s rest IH]; intros xs sur Hx.
  - destruct xs; [|discriminate]. unfold interp_flat. cbn. ring.
  - destruct xs as [|x xs']; [discriminate|]. cbn [length] in Hx. injection Hx as Hx.
    rewrite interp_flat_unfold. cbn [map prodN interp_nd tl].
    set (len := prodN (map s_n rest)). set (n := s_n s).
    change (nthQ (x :: xs') 0) with x.
    rewrite (sum_blocks _ n len).
    rewrite (sum_combine_seq (fun bc => beval (snd (fst bc)) x * interp_nd rest xs' (snd bc))
                             (s_basis s) (chunks n len sur) dflt [] n) by (reflexivity || apply chunks_length).
    apply sumQ_map_ext_in. intros i Hi. apply in_seq in Hi. cbn [fst snd].
    rewrite <- (IH xs' (nth i (chunks n len sur) []) Hx), interp_flat_unfold. fold len.
    rewrite <- sumQ_map_scale. apply sumQ_map_ext_in. intros j Hj. apply in_seq in Hj.
    unfold len at 2. rewrite (cross_range_nth n (map s_n rest) i j) by (fold len; lia). fold len.
    rewrite (chunks_nth n len sur i j) by lia.
    unfold evals_of. cbn [combine map]. unfold flat_term. cbn [combine map prodQ fst snd].
    fold (evals_of rest xs'). fold (flat_term (evals_of rest xs') (nth j (cross_range (map s_n rest)) [])).
    rewrite (nthQ_map_lt (fun xb => beval (snd xb) x) (s_basis s) dflt i) by (fold (s_n s); fold n; lia).
    ring.
Qed.

(* ================================================================== hier_flat = hier_nd *)
(* ------------------------------------------------------------------ upd / scatter *)
Lemma upd_length g : forall i x, length (upd g i x) = length g.
Proof. induction g as [|a g IH]; intros [|i] x; cbn [upd length]; try reflexivity. rewrite IH. reflexivity. Qed.

Lemma upd_nth_same g : forall i x, (i < length g)%nat -> nthQ (upd g i x) i = x.
Proof.
  induction g as [|a g IH]; intros [|i] x H; cbn [length] in H; try lia; cbn [upd]; [reflexivity|].
  unfold nthQ. cbn [nth]. apply IH. lia.
Qed.

Lemma upd_nth_other g : forall i x k, k <> i -> nthQ (upd g i x) k = nthQ g k.
Proof.
  induction g as [|a g IH]; intros [|i] x [|k] H; cbn [upd]; try reflexivity; try lia.
  unfold nthQ. cbn [nth]. apply IH. lia.
Qed.

Lemma scatter_cons g c cs x h : scatter g (c :: cs) (x :: h) = scatter (upd g c x) cs h.
Proof. reflexivity. Qed.

Lemma scatter_length : forall cs g h, length (scatter g cs h) = length g.
Proof.
  induction cs as [|c cs IH]; intros g [|x h]; try reflexivity.
  rewrite scatter_cons, IH. apply upd_length.
Qed.

Lemma scatter_nth_notin : forall cs g h k, ~ In k cs -> nthQ (scatter g cs h) k = nthQ g k.
Proof.
  induction cs as [|c cs IH]; intros g [|x h] k H; try reflexivity.
  rewrite scatter_cons, IH by (intro Hk; apply H; right; exact Hk).
  apply upd_nth_other. intro E. apply H. left. symmetry. exact E.
Qed.

Lemma scatter_nth_in : forall cs g h t,
  NoDup cs -> length h = length cs -> (t < length cs)%nat -> (nth t cs O < length g)%nat ->
  nthQ (scatter g cs h) (nth t cs O) = nthQ h t.
Proof.
  induction cs as [|c cs IH]; intros g h t Hnd Hl Ht Hb; [simpl in Ht; lia|].
  destruct h as [|x h]; [discriminate|]. cbn [length] in Hl. injection Hl as Hl.
  inversion Hnd as [|? ? Hnin Hnd']; subst. rewrite scatter_cons.
  destruct t as [|t].
  - cbn [nth] in *. rewrite scatter_nth_notin by exact Hnin. apply upd_nth_same. exact Hb.
  - cbn [nth] in *. unfold nthQ at 2. cbn [nth]. apply IH; [exact Hnd' | exact Hl | cbn [length] in Ht; lia | rewrite upd_length; exact Hb].
Qed.

(* ------------------------------------------------------------------ a block in the middle of a flat array *)
Lemma nthQ_app_mid (pre blk post : list Qc) k :
  (k < length blk)%nat -> nthQ (pre ++ blk ++ post) (length pre + k) = nthQ blk k.
Proof.
  intro H. unfold nthQ. rewrite app_nth2 by lia. replace (length pre + k - length pre)%nat with k by lia.
  apply app_nth1. exact H.
Qed.

Lemma upd_app_l (blk post : list Qc) : forall k x, (k < length blk)%nat -> upd (blk ++ post) k x = upd blk k x ++ post.
Proof.
  induction blk as [|a blk IH]; intros k x H; cbn [length] in H; [lia|].
  destruct k as [|k]; cbn [app upd]; [reflexivity|]. rewrite IH by lia. reflexivity.
Qed.

Lemma upd_app_mid (pre blk post : list Qc) k x :
  (k < length blk)%nat -> upd (pre ++ blk ++ post) (length pre + k) x = pre ++ upd blk k x ++ post.
Proof.
  intro H. induction pre as [|a pre IH]; cbn [app length plus upd].
  - apply upd_app_l. exact H.
  - rewrite IH. reflexivity.
Qed.

Lemma scatter_app_mid (pre post : list Qc) : forall cs blk h,
  (forall c, In c cs -> (c < length blk)%nat) ->
  scatter (pre ++ blk ++ post) (map (fun c => (length pre + c)%nat) cs) h = pre ++ scatter blk cs h ++ post.
Proof.
  induction cs as [|c cs IH]; intros blk h Hb; [reflexivity|].
  destruct h as [|x h]; [reflexivity|]. cbn [map]. rewrite !scatter_cons.
  rewrite upd_app_mid by (apply Hb; left; reflexivity).
  apply IH. intros c' Hc'. rewrite upd_length. apply Hb. right. exact Hc'.
Qed.

(* ------------------------------------------------------------------ one pole, one sweep *)
Definition pole_step (s : sys1) (base : list nat) (acc : option (list Qc)) (off : nat) : option (list Qc) :=
  match acc with
  | None => None
  | Some g' =>
    let cs := map (fun b => (b + off)%nat) base in
    match solve1Q s (map (nthQ g') cs) with
    | None => None
    | Some h => Some (scatter g' cs h)
    end
  end.

Definition sweep_offs (s : sys1) (base offs : list nat) (g : list Qc) : option (list Qc) :=
  fold_left (pole_step s base) offs (Some g).

Definition base_of (np : list nat) (d : nat) : list nat :=
  map (fun i => (i * nth d (offsets np) O)%nat) (seq 0 (nth d np O)).
Definition offs_list (np : list nat) (d : nat) : list nat :=
  map (fun pidx => dotN pidx (offsets np)) (cross_range (set_nth d 1%nat np)).

Lemma fold_left_map {A B C} (f : A -> B -> A) (h : C -> B) l a :
  fold_left f (map h l) a = fold_left (fun a x => f a (h x)) l a.
Proof. revert a; induction l as [|x l IH]; intro a; [reflexivity|]. cbn [map fold_left]. apply IH. Qed.

Lemma sweep_dim_general s np d g :
  (forall x bf, s_basis s <> [(x, bf)]) ->
  sweep_dim s np d g = sweep_offs s (base_of np d) (offs_list np d) g.
Proof.
  intro H. unfold sweep_dim, sweep_offs, offs_list, base_of. rewrite fold_left_map.
  destruct (s_basis s) as [|[x bf] [|q t]] eqn:E; try reflexivity.
  exfalso. exact (H x bf eq_refl).
Qed.

Lemma pole_step_None s base offs : fold_left (pole_step s base) offs None = None.
Proof. induction offs as [|o offs IH]; [reflexivity | exact IH]. Qed.

Lemma solve1Q_length s v h : solve1Q s v = Some h -> True.
Proof. trivial. Qed.

Lemma pole_step_length s base g off g' : pole_step s base (Some g) off = Some g' -> length g' = length g.
Proof.
  unfold pole_step. destruct (solve1Q s _) as [h|]; [|discriminate]. intro E. injection E as E. subst g'. apply scatter_length.
Qed.

Lemma sweep_offs_length s base : forall offs g g', sweep_offs s base offs g = Some g' -> length g' = length g.
Proof.
  unfold sweep_offs. induction offs as [|o offs IH]; intros g g' H.
  - injection H as H. subst. reflexivity.
  - cbn [fold_left] in H. destruct (pole_step s base (Some g) o) as [g1|] eqn:E.
    + rewrite (IH g1 g' H). exact (pole_step_length _ _ _ _ _ E).
    + rewrite pole_step_None in H. discriminate.
Qed.

(* ------------------------------------------------------------------ arithmetic of block indices *)
Lemma block_mod i len c : (c < len)%nat -> ((i * len + c) mod len = c)%nat.
Proof. intro H. rewrite Nat.add_comm, Nat.mod_add by lia. apply Nat.mod_small. exact H. Qed.
Lemma block_div i len c : (c < len)%nat -> ((i * len + c) / len = i)%nat.
Proof. intro H. rewrite Nat.add_comm, Nat.div_add by lia. rewrite Nat.div_small by exact H. reflexivity. Qed.
Lemma block_inj i i' len c c' : (c < len)%nat -> (c' < len)%nat -> (i * len + c = i' * len + c')%nat -> i = i' /\ c = c'.
Proof.
  intros H H' E. split.
  - rewrite <- (block_div i len c H), <- (block_div i' len c' H'), E. reflexivity.
  - rewrite <- (block_mod i len c H), <- (block_mod i' len c' H'), E. reflexivity.
Qed.

(* ------------------------------------------------------------------ the solver acts column by column *)
Definition sys_single (s : sys1) : Prop := exists x bf, s_basis s = [(x, bf)].

Definition sys_colwise (s : sys1) : Prop :=
  forall cs len, length cs = s_n s -> (forall c, In c cs -> length c = len) ->
    exists r, solve1V s cs = Some r /\ length r = s_n s /\ (forall c, In c r -> length c = len)
              /\ forall k, (k < len)%nat -> solve1Q s (comp k cs) = Some (comp k r).

Lemma comp_chunks n len g m :
  (m < len)%nat -> comp m (chunks n len g) = map (fun i => nthQ g (i * len + m)) (seq 0 n).
Proof.
  intro Hm. unfold comp. apply (nth_ext _ _ 0 0).
  - rewrite !map_length, chunks_length, seq_length. reflexivity.
  - intros i Hi. rewrite map_length, chunks_length in Hi.
    fold (nthQ (map (fun c : list Qc => nthQ c m) (chunks n len g)) i).
    rewrite (nthQ_map_lt (fun c => nthQ c m) (chunks n len g) [] i) by (rewrite chunks_length; exact Hi).
    fold (nthQ (map (fun i0 : nat => nthQ g (i0 * len + m)) (seq 0 n)) i).
    rewrite (nthQ_map_lt (fun i0 => nthQ g (i0 * len + m)) (seq 0 n) O i) by (rewrite seq_length; exact Hi).
    rewrite seq_nth by exact Hi. apply chunks_nth; assumption.
Qed.

Lemma concat_nth_block (r : list (list Qc)) len i c :
  (forall x, In x r -> length x = len) -> (i < length r)%nat -> (c < len)%nat ->
  nthQ (concat r) (i * len + c) = nthQ (nth i r []) c.
Proof.
  intros Hr Hi Hc.
  rewrite <- (chunks_nth (length r) len (concat r) i c Hi Hc).
  rewrite (chunks_concat (length r) len r eq_refl Hr). reflexivity.
Qed.

(* Lemma A: the sweep over dimension 0 solves the chunk matrix column by column *)
Lemma sweep0_is_columnwise s n len g :
  sys_colwise s -> n = s_n s -> length g = (n * len)%nat ->
  exists r, solve1V s (chunks n len g) = Some r /\ length r = n /\ (forall c, In c r -> length c = len)
            /\ sweep_offs s (map (fun i => (i * len)%nat) (seq 0 n)) (seq 0 len) g = Some (concat r).
Proof.
  intros Hc En Hg. subst n. set (n := s_n s) in *.
  destruct (Hc (chunks n len g) len (chunks_length n len g) (chunks_each n len g Hg)) as [r [Hr [Lr [Sr Cr]]]].
  exists r. split; [exact Hr|]. split; [exact Lr|]. split; [exact Sr|].
  set (base := map (fun i => (i * len)%nat) (seq 0 n)).
  assert (Inv : forall m, (m <= len)%nat ->
     exists gm, fold_left (pole_step s base) (seq 0 m) (Some g) = Some gm /\ length gm = (n * len)%nat /\
       forall i c, (i < n)%nat -> (c < len)%nat ->
         nthQ gm (i * len + c) = if (c <? m)%nat then nthQ (nth i r []) c else nthQ g (i * len + c)).
  { induction m as [|m IHm]; intro Hm.
    - exists g. split; [reflexivity|]. split; [exact Hg|]. intros i c _ _. reflexivity.
    - destruct (IHm ltac:(lia)) as [gm [Fm [Lm Nm]]].
      replace (S m) with (m + 1)%nat by lia. rewrite seq_app, fold_left_app, Fm. cbn [seq plus fold_left].
      unfold pole_step.
      set (cs := map (fun b => (b + m)%nat) base).
      assert (Ecs : cs = map (fun i => (i * len + m)%nat) (seq 0 n)) by (unfold cs, base; rewrite map_map; reflexivity).
      assert (Eg : map (nthQ gm) cs = comp m (chunks n len g)).
      { rewrite comp_chunks by lia. rewrite Ecs, map_map. apply map_ext_in. intros i Hi. apply in_seq in Hi.
        rewrite (Nm i m) by lia. rewrite Nat.ltb_irrefl. reflexivity. }
      rewrite Eg, (Cr m) by lia.
      exists (scatter gm cs (comp m r)). split; [reflexivity|]. split; [rewrite scatter_length; exact Lm|].
      intros i c Hi Hcl.
      assert (Lcs : length cs = n) by (rewrite Ecs, map_length, seq_length; reflexivity).
      assert (Ncs : forall t, (t < n)%nat -> nth t cs O = (t * len + m)%nat).
      { intros t Ht. rewrite Ecs. rewrite (nth_map_lt (fun i0 => (i0 * len + m)%nat) (seq 0 n) O O t) by (rewrite seq_length; exact Ht).
        rewrite seq_nth by exact Ht. reflexivity. }
      destruct (Nat.eq_dec c m) as [Ecm|Ecm].
      + subst c. rewrite <- (Ncs i Hi).
        rewrite scatter_nth_in.
        * unfold comp. rewrite (nthQ_map_lt (fun c0 => nthQ c0 m) r [] i) by (rewrite Lr; exact Hi).
          destruct (Nat.ltb_spec m (m + 1)); [reflexivity | lia].
        * rewrite Ecs. apply FinFun.Injective_map_NoDup; [|apply seq_NoDup].
          intros a b E. assert (a * len = b * len)%nat by lia. nia.
        * unfold comp. rewrite map_length, Lr, Lcs. reflexivity.
        * rewrite Lcs. exact Hi.
        * rewrite (Ncs i Hi), Lm. nia.
      + rewrite scatter_nth_notin.
        * rewrite (Nm i c Hi Hcl).
          destruct (Nat.ltb_spec c m); destruct (Nat.ltb_spec c (m + 1)); try reflexivity; lia.
        * rewrite Ecs. intro Hin. apply in_map_iff in Hin. destruct Hin as [i' [E _]].
          destruct (block_inj i' i len m c ltac:(lia) Hcl E) as [_ E2]. lia. }
  destruct (Inv len (Nat.le_refl len)) as [gl [Fl [Ll Nl]]].
  unfold sweep_offs. rewrite Fl. f_equal.
  apply (nth_ext _ _ 0 0).
  - rewrite Ll, (length_concat_const len r Sr), Lr. reflexivity.
  - intros k Hk. rewrite Ll in Hk.
    assert (Hlen : (len <> 0)%nat) by (intro E; rewrite E in Hk; lia).
    pose proof (Nat.div_mod k len Hlen) as Ek.
    assert (Hi : (k / len < n)%nat) by (apply Nat.div_lt_upper_bound; [exact Hlen | lia]).
    assert (Hc' : (k mod len < len)%nat) by (apply Nat.mod_upper_bound; exact Hlen).
    replace k with ((k / len) * len + k mod len)%nat by lia.
    fold (nthQ gl (k / len * len + k mod len)). fold (nthQ (concat r) (k / len * len + k mod len)).
    rewrite (Nl _ _ Hi Hc'), (concat_nth_block r len _ _ Sr) by (rewrite ?Lr; assumption).
    destruct (Nat.ltb_spec (k mod len) len); [reflexivity | lia].
Qed.

(* ------------------------------------------------------------------ Lemma B: a sweep over a later dimension works chunk by chunk *)
Definition optconcat (l : list (option (list Qc))) : option (list Qc) :=
  match opt_list l with Some r => Some (concat r) | None => None end.

Lemma inner_block s base pre post len k : forall offs c,
  length pre = (k * len)%nat -> length c = len ->
  (forall b o, In b base -> In o offs -> (b + o < len)%nat) ->
  fold_left (pole_step s base) (map (fun o => (k * len + o)%nat) offs) (Some (pre ++ c ++ post))
  = match fold_left (pole_step s base) offs (Some c) with Some c' => Some (pre ++ c' ++ post) | None => None end.
Proof.
  induction offs as [|o offs IH]; intros c Hp Hc Hb; [reflexivity|].
  cbn [map fold_left].
  assert (Step : pole_step s base (Some (pre ++ c ++ post)) (k * len + o)
                 = match pole_step s base (Some c) o with Some c' => Some (pre ++ c' ++ post) | None => None end).
  { unfold pole_step.
    assert (Ecs : map (fun b => (b + (k * len + o))%nat) base = map (fun x => (length pre + x)%nat) (map (fun b => (b + o)%nat) base)).
    { rewrite map_map. apply map_ext. intro b. lia. }
    rewrite Ecs.
    assert (Eg : map (nthQ (pre ++ c ++ post)) (map (fun x => (length pre + x)%nat) (map (fun b => (b + o)%nat) base))
                 = map (nthQ c) (map (fun b => (b + o)%nat) base)).
    { rewrite !map_map. apply map_ext_in. intros b Hbin. apply nthQ_app_mid. rewrite Hc. apply Hb; [exact Hbin | left; reflexivity]. }
    rewrite Eg. destruct (solve1Q s (map (nthQ c) (map (fun b => (b + o)%nat) base))) as [h|]; [|reflexivity].
    rewrite scatter_app_mid; [reflexivity|].
    intros x Hx. apply in_map_iff in Hx. destruct Hx as [b [E Hbin]]. subst x. rewrite Hc. apply Hb; [exact Hbin | left; reflexivity]. }
  rewrite Step. destruct (pole_step s base (Some c) o) as [c1|] eqn:E1.
  - apply IH; [exact Hp | rewrite (pole_step_length _ _ _ _ _ E1); exact Hc |].
    intros b o' Hbin Ho'. apply Hb; [exact Hbin | right; exact Ho'].
  - rewrite !pole_step_None. reflexivity.
Qed.

Lemma blocks_sweep s base offs len :
  (forall b o, In b base -> In o offs -> (b + o < len)%nat) ->
  forall gs pre post k,
  length pre = (k * len)%nat -> (forall c, In c gs -> length c = len) ->
  fold_left (pole_step s base) (flat_map (fun i => map (fun o => (i * len + o)%nat) offs) (seq k (length gs)))
            (Some (pre ++ concat gs ++ post))
  = match opt_list (map (sweep_offs s base offs) gs) with
    | Some gs' => Some (pre ++ concat gs' ++ post)
    | None => None
    end.
Proof.
  intro Hb. induction gs as [|c gs IH]; intros pre post k Hp Hg; [reflexivity|].
  cbn [length seq flat_map concat map opt_list]. rewrite fold_left_app, <- app_assoc.
  rewrite (inner_block s base pre (concat gs ++ post) len k offs c Hp (Hg c (or_introl eq_refl)) Hb).
  fold (sweep_offs s base offs c).
  destruct (sweep_offs s base offs c) as [c'|] eqn:Ec.
  - replace (pre ++ c' ++ concat gs ++ post) with ((pre ++ c') ++ concat gs ++ post) by (rewrite <- app_assoc; reflexivity).
    rewrite (IH (pre ++ c') post (S k)).
    + destruct (opt_list (map (sweep_offs s base offs) gs)) as [gs'|]; [|reflexivity].
      cbn [concat]. rewrite <- !app_assoc. reflexivity.
    + rewrite app_length, Hp, (sweep_offs_length _ _ _ _ _ Ec), (Hg c (or_introl eq_refl)). simpl. lia.
    + intros c0 H0. apply Hg. right. exact H0.
  - rewrite pole_step_None. reflexivity.
Qed.

Lemma concat_chunks n len : forall g, length g = (n * len)%nat -> concat (chunks n len g) = g.
Proof.
  induction n as [|n IH]; intros g H.
  - destruct g; [reflexivity | simpl in H; lia].
  - cbn [chunks concat]. rewrite IH by (rewrite skipn_length; simpl in H; lia). apply firstn_skipn.
Qed.

Lemma sweep_blocks s base offs n len g :
  (forall b o, In b base -> In o offs -> (b + o < len)%nat) -> length g = (n * len)%nat ->
  sweep_offs s base (flat_map (fun i => map (fun o => (i * len + o)%nat) offs) (seq 0 n)) g
  = optconcat (map (sweep_offs s base offs) (chunks n len g)).
Proof.
  intros Hb Hg. unfold sweep_offs at 1, optconcat.
  pose proof (blocks_sweep s base offs len Hb (chunks n len g) [] [] O eq_refl (chunks_each n len g Hg)) as B.
  rewrite chunks_length in B. cbn [app] in B. rewrite app_nil_r, (concat_chunks n len g Hg) in B. rewrite B.
  destruct (opt_list (map (sweep_offs s base offs) (chunks n len g))) as [gs'|]; [|reflexivity].
  rewrite app_nil_r. reflexivity.
Qed.

(* ------------------------------------------------------------------ offsets, pole bases and pole offsets of a shape *)
Lemma offsets_cons n r : offsets (n :: r) = prodN r :: offsets r.
Proof.
  unfold offsets. cbn [length seq map skipn]. f_equal.
  rewrite <- seq_shift, map_map. reflexivity.
Qed.

Lemma base_of_0 n r : base_of (n :: r) 0 = map (fun i => (i * prodN r)%nat) (seq 0 n).
Proof. unfold base_of. rewrite offsets_cons. reflexivity. Qed.

Lemma base_of_S n r d : base_of (n :: r) (S d) = base_of r d.
Proof. unfold base_of. rewrite offsets_cons. reflexivity. Qed.

Lemma map_flat_map {A B C} (f : B -> C) (g : A -> list B) l : map f (flat_map g l) = flat_map (fun x => map f (g x)) l.
Proof. induction l as [|x l IH]; [reflexivity|]. cbn [flat_map]. rewrite map_app, IH. reflexivity. Qed.

Lemma flat_map_ext_in {A B} (f g : A -> list B) l : (forall x, In x l -> f x = g x) -> flat_map f l = flat_map g l.
Proof.
  induction l as [|x l IH]; intro H; [reflexivity|]. cbn [flat_map].
  rewrite (H x (or_introl eq_refl)), IH; [reflexivity|]. intros y Hy. apply H. right. exact Hy.
Qed.

Lemma seq_blocks L m : flat_map (fun i => map (fun o => (i * L + o)%nat) (seq 0 L)) (seq 0 m) = seq 0 (m * L).
Proof.
  induction m as [|m IH]; [reflexivity|].
  replace (S m) with (m + 1)%nat at 1 by lia. rewrite seq_app, flat_map_app, IH. cbn [plus seq flat_map]. rewrite app_nil_r.
  replace (S m * L)%nat with (m * L + L)%nat by lia. rewrite seq_app. cbn [plus]. f_equal.
  symmetry. apply seq_shift_add.
Qed.

Definition flatidx (r : list nat) : list nat := map (fun q => dotN q (offsets r)) (cross_range r).

Lemma flatidx_seq r : flatidx r = seq 0 (prodN r).
Proof.
  induction r as [|m r IH]; [reflexivity|].
  unfold flatidx. cbn [cross_range prodN]. rewrite offsets_cons, map_flat_map.
  rewrite <- (seq_blocks (prodN r) m). apply flat_map_ext_in. intros i _.
  rewrite map_map. cbn [dotN]. rewrite <- IH. unfold flatidx. rewrite map_map. reflexivity.
Qed.

Lemma offs_list_0 n r : offs_list (n :: r) 0 = seq 0 (prodN r).
Proof.
  unfold offs_list. cbn [set_nth cross_range seq flat_map]. rewrite app_nil_r, offsets_cons, map_map.
  rewrite <- flatidx_seq. unfold flatidx. apply map_ext. intro q. cbn [dotN]. lia.
Qed.

Lemma offs_list_S n r d :
  offs_list (n :: r) (S d) = flat_map (fun i => map (fun o => (i * prodN r + o)%nat) (offs_list r d)) (seq 0 n).
Proof.
  unfold offs_list. cbn [set_nth cross_range]. rewrite offsets_cons, map_flat_map.
  apply flat_map_ext_in. intros i _. rewrite !map_map. reflexivity.
Qed.

Lemma pole_bounds : forall r d b o,
  (d < length r)%nat -> In b (base_of r d) -> In o (offs_list r d) -> (b + o < prodN r)%nat.
Proof.
  induction r as [|m r IH]; intros d b o Hd Hb Ho; [simpl in Hd; lia|].
  destruct d as [|d].
  - rewrite base_of_0 in Hb. rewrite offs_list_0 in Ho.
    apply in_map_iff in Hb. destruct Hb as [i [Eb Hi]]. apply in_seq in Hi. apply in_seq in Ho. subst b.
    cbn [prodN]. nia.
  - rewrite base_of_S in Hb. rewrite offs_list_S in Ho.
    apply in_flat_map in Ho. destruct Ho as [i [Hi Ho]]. apply in_seq in Hi.
    apply in_map_iff in Ho. destruct Ho as [o' [Eo Ho']]. subst o.
    assert (b + o' < prodN r)%nat by (apply (IH d); [cbn [length] in Hd; lia | exact Hb | exact Ho']).
    cbn [prodN]. nia.
Qed.

(* ------------------------------------------------------------------ sweep_dim over a later dimension = chunk-wise sweep *)
Lemma opt_list_map_Some {A} (l : list A) : opt_list (map Some l) = Some l.
Proof. induction l as [|x l IH]; [reflexivity|]. cbn [map opt_list]. rewrite IH. reflexivity. Qed.

Lemma sweep_dim_later s n r d g :
  (d < length r)%nat -> (n <> 0)%nat -> length g = (n * prodN r)%nat ->
  sweep_dim s (n :: r) (S d) g = optconcat (map (sweep_dim s r d) (chunks n (prodN r) g)).
Proof.
  intros Hd Hn Hg.
  destruct (s_basis s) as [|[x bf] [|q t]] eqn:E.
  - (* no basis: general branch *)
    assert (G : forall x bf, s_basis s <> [(x, bf)]) by (intros x bf; rewrite E; discriminate).
    rewrite (sweep_dim_general s _ _ g G), base_of_S, offs_list_S.
    rewrite (sweep_blocks s (base_of r d) (offs_list r d) n (prodN r) g (fun b o Hb Ho => pole_bounds r d b o Hd Hb Ho) Hg).
    f_equal. apply map_ext. intro c. symmetry. apply sweep_dim_general. exact G.
  - (* a single point: the sweep is skipped *)
    unfold sweep_dim. rewrite E. unfold optconcat.
    destruct (Qc_eqb (beval bf x) 1).
    + rewrite (map_ext _ Some) by reflexivity. rewrite opt_list_map_Some, concat_chunks by exact Hg. reflexivity.
    + destruct n as [|n']; [lia|]. cbn [chunks map opt_list]. reflexivity.
  - assert (G : forall x0 bf0, s_basis s <> [(x0, bf0)]) by (intros x0 bf0; rewrite E; discriminate).
    rewrite (sweep_dim_general s _ _ g G), base_of_S, offs_list_S.
    rewrite (sweep_blocks s (base_of r d) (offs_list r d) n (prodN r) g (fun b o Hb Ho => pole_bounds r d b o Hd Hb Ho) Hg).
    f_equal. apply map_ext. intro c. symmetry. apply sweep_dim_general. exact G.
Qed.

Lemma sweep_dim_length s np d g g' : sweep_dim s np d g = Some g' -> length g' = length g.
Proof.
  destruct (s_basis s) as [|[x bf] [|q t]] eqn:E.
  - rewrite sweep_dim_general by (intros x bf; rewrite E; discriminate). apply sweep_offs_length.
  - unfold sweep_dim. rewrite E. destruct (Qc_eqb (beval bf x) 1); [|discriminate]. intro H. injection H as H. subst. reflexivity.
  - rewrite sweep_dim_general by (intros x0 bf0; rewrite E; discriminate). apply sweep_offs_length.
Qed.

(* ------------------------------------------------------------------ all dimensions *)
Definition run_dims (np : list nat) (l : list (nat * sys1)) (acc : option (list Qc)) : option (list Qc) :=
  fold_left (fun acc ds => match acc with None => None | Some g => sweep_dim (snd ds) np (fst ds) g end) l acc.

Lemma hier_flat_run_dims ss v : hier_flat ss v = run_dims (map s_n ss) (combine (seq 0 (length ss)) ss) (Some v).
Proof. reflexivity. Qed.

Lemma run_dims_None np l : run_dims np l None = None.
Proof. induction l as [|ds l IH]; [reflexivity | exact IH]. Qed.

Lemma run_dims_cons np ds l g : run_dims np (ds :: l) (Some g) = run_dims np l (sweep_dim (snd ds) np (fst ds) g).
Proof. reflexivity. Qed.

Lemma run_dims_length np : forall l g g', run_dims np l (Some g) = Some g' -> length g' = length g.
Proof.
  induction l as [|ds l IH]; intros g g' H.
  - injection H as H. subst. reflexivity.
  - rewrite run_dims_cons in H.
    destruct (sweep_dim (snd ds) np (fst ds) g) as [g1|] eqn:E.
    + rewrite (IH g1 g' H). exact (sweep_dim_length _ _ _ _ _ E).
    + rewrite run_dims_None in H. discriminate.
Qed.

Lemma opt_list_bind {A B C} (f : A -> option B) (h : B -> option C) : forall gs,
  match opt_list (map f gs) with Some gs' => opt_list (map h gs') | None => None end
  = opt_list (map (fun c => match f c with Some c' => h c' | None => None end) gs).
Proof.
  induction gs as [|c gs IH]; [reflexivity|].
  cbn [map opt_list]. destruct (f c) as [c'|].
  - destruct (opt_list (map f gs)) as [gs'|].
    + cbn [map opt_list]. destruct (h c') as [c''|].
      * rewrite <- IH. reflexivity.
      * reflexivity.
    + destruct (h c') as [c''|]; [|reflexivity]. rewrite <- IH. reflexivity.
  - reflexivity.
Qed.

Lemma opt_list_shape {A} (P : A -> Prop) (l : list (option A)) r :
  opt_list l = Some r -> (forall x, In (Some x) l -> P x) -> forall x, In x r -> P x.
Proof.
  revert r; induction l as [|[a|] l IH]; intros r H Hp x Hx; simpl in H; try discriminate.
  - injection H as H. subst. contradiction.
  - destruct (opt_list l) as [r'|]; [|discriminate]. injection H as H. subst r.
    destruct Hx as [Hx|Hx]; [subst; apply Hp; left; reflexivity|].
    apply (IH r' eq_refl); [|exact Hx]. intros y Hy. apply Hp. right. exact Hy.
Qed.

Lemma opt_list_length {A} (l : list (option A)) r : opt_list l = Some r -> length r = length l.
Proof.
  revert r; induction l as [|[a|] l IH]; intros r H; simpl in H; try discriminate.
  - injection H as H. subst. reflexivity.
  - destruct (opt_list l) as [r'|]; [|discriminate]. injection H as H. subst r. simpl. rewrite (IH r' eq_refl). reflexivity.
Qed.

(* the sweeps over the dimensions 1.. of the shape n :: r act on the n chunks like the sweeps 0.. of the shape r *)
Lemma later_dims_chunkwise n r : (n <> 0)%nat -> forall l gs,
  length gs = n -> (forall c, In c gs -> length c = prodN r) ->
  (forall ds, In ds l -> (fst ds < length r)%nat) ->
  run_dims (n :: r) (map (fun ds => (S (fst ds), snd ds)) l) (Some (concat gs))
  = optconcat (map (fun c => run_dims r l (Some c)) gs).
Proof.
  intro Hn. induction l as [|[d s] l IH]; intros gs Lg Sg Hd.
  - unfold run_dims, optconcat. cbn [map fold_left]. rewrite (map_ext _ Some) by reflexivity.
    rewrite opt_list_map_Some. reflexivity.
  - cbn [map]. rewrite run_dims_cons. cbn [fst snd].
    assert (Lc : length (concat gs) = (n * prodN r)%nat) by (rewrite (length_concat_const (prodN r) gs Sg), Lg; reflexivity).
    rewrite (sweep_dim_later s n r d (concat gs) (Hd (d, s) (or_introl eq_refl)) Hn Lc).
    rewrite (chunks_concat n (prodN r) gs Lg Sg).
    unfold optconcat at 1.
    assert (R : map (fun c => run_dims r ((d, s) :: l) (Some c)) gs
                = map (fun c => match sweep_dim s r d c with Some c' => run_dims r l (Some c') | None => None end) gs).
    { apply map_ext. intro c. rewrite run_dims_cons. cbn [fst snd].
      destruct (sweep_dim s r d c); [reflexivity | apply run_dims_None]. }
    rewrite R. unfold optconcat. rewrite <- (opt_list_bind (sweep_dim s r d) (fun c' => run_dims r l (Some c')) gs).
    destruct (opt_list (map (sweep_dim s r d) gs)) as [gs'|] eqn:E.
    + rewrite (IH gs').
      * reflexivity.
      * rewrite (opt_list_length _ _ E), map_length. exact Lg.
      * apply (opt_list_shape (fun x => length x = prodN r) _ _ E).
        intros x Hx. apply in_map_iff in Hx. destruct Hx as [c [Ec Hc]].
        rewrite (sweep_dim_length _ _ _ _ _ Ec). apply Sg. exact Hc.
      * intros ds Hds. apply Hd. right. exact Hds.
    + apply run_dims_None.
Qed.

Lemma combine_seq_shift {B} (l : list B) k :
  combine (seq (S k) (length l)) l = map (fun ds => (S (fst ds), snd ds)) (combine (seq k (length l)) l).
Proof.
  revert k; induction l as [|x l IH]; intro k; [reflexivity|].
  cbn [length seq combine map fst snd]. f_equal. apply IH.
Qed.

(* ------------------------------------------------------------------ the theorem *)
(* For every number of dimensions and every shape: the flat pole sweep with explicit index arithmetic
   (hierarchize_poles_for_dim, dimension after dimension) computes exactly the tensor recursion hier_nd.
   Hypothesis per dimension: at least one point, and - unless the dimension has a single point (sweep skipped) - the 1-D
   solver acts column by column (sys_colwise; proved below for every forward-substitution system). *)
Theorem hier_flat_eq_hier_nd : forall ss v,
  Forall (fun s => s_n s <> O /\ (sys_single s \/ sys_colwise s)) ss ->
  length v = prodN (map s_n ss) ->
  hier_flat ss v = hier_nd ss v.
Proof.
  induction ss as [|s rest IH]; intros v Hss Hv; [reflexivity|].
  inversion Hss as [|? ? [Hn Hs] Hrest]; subst.
  rewrite hier_flat_run_dims. cbn [map length seq combine]. rewrite combine_seq_shift.
  set (r := map s_n rest). set (n := s_n s). set (l := combine (seq 0 (length rest)) rest).
  cbn [map prodN] in Hv. fold r n in Hv.
  assert (Hdl : forall ds, In ds l -> (fst ds < length r)%nat).
  { intros [d s'] Hds. unfold l in Hds. apply in_combine_l in Hds. apply in_seq in Hds. unfold r. rewrite map_length. cbn [fst]. lia. }
  rewrite run_dims_cons. cbn [fst snd].
  cbn [hier_nd]. fold r n.
  assert (Tail : forall gs, length gs = n -> (forall c, In c gs -> length c = prodN r) ->
             run_dims (n :: r) (map (fun ds => (S (fst ds), snd ds)) l) (Some (concat gs))
             = match opt_list (map (hier_nd rest) gs) with Some x => Some (concat x) | None => None end).
  { intros gs Lg Sg. rewrite (later_dims_chunkwise n r Hn l gs Lg Sg Hdl). unfold optconcat.
    assert (EM : map (fun c => run_dims r l (Some c)) gs = map (hier_nd rest) gs).
    { apply map_ext_in. intros c Hc. unfold l, r. rewrite <- hier_flat_run_dims.
      apply IH; [exact Hrest | apply Sg; exact Hc]. }
    rewrite EM. reflexivity. }
  destruct (s_basis s) as [|[x bf] [|q t]] eqn:E.
  - exfalso. apply Hn. unfold s_n. rewrite E. reflexivity.
  - (* one point in this dimension: both skip the solve after the same check *)
    unfold sweep_dim, solve1V. rewrite E.
    destruct (Qc_eqb (beval bf x) 1); [|apply run_dims_None].
    rewrite <- (concat_chunks n (prodN r) v Hv) at 1.
    apply Tail; [apply chunks_length | apply chunks_each; exact Hv].
  - assert (G : forall x0 bf0, s_basis s <> [(x0, bf0)]) by (intros x0 bf0; rewrite E; discriminate).
    destruct Hs as [[x0 [bf0 E0]]|Hc]; [exfalso; exact (G x0 bf0 E0)|].
    rewrite (sweep_dim_general s (n :: r) O v G), base_of_0, offs_list_0.
    destruct (sweep0_is_columnwise s n (prodN r) v Hc eq_refl Hv) as [r0 [S0 [L0 [Sh0 F0]]]].
    rewrite F0, S0. apply Tail; assumption.
Qed.

(* ------------------------------------------------------------------ forward-substitution systems act column by column *)
Lemma fsub_length {V} (z : V) add sc M (v : list V) ord : length (fsub z add sc M v ord) = length v.
Proof. unfold fsub. rewrite map_length, seq_length. reflexivity. Qed.

Theorem fsub_system_colwise s o :
  s_ord s = Some o -> sys_sound s -> sys_single s \/ sys_colwise s.
Proof.
  intros Ho Hsound.
  destruct (s_basis s) as [|[x bf] [|q t]] eqn:E.
  - right. intros cs len Lc Sc.
    assert (Sv : solve1V s cs = Some (fsubV (colloc (s_basis s)) cs o)) by (unfold solve1V; rewrite E, Ho; reflexivity).
    exists (fsubV (colloc (s_basis s)) cs o). split; [exact Sv|].
    destruct (Hsound cs _ Lc Sv) as [L1 [L2 _]].
    split; [exact L1|]. split; [exact (L2 len Sc)|].
    intros k Hk. unfold solve1Q. rewrite Ho. f_equal.
    apply (nth_ext _ _ 0 0).
    + unfold fsubQ, comp. rewrite fsub_length, !map_length. unfold fsubV. rewrite fsub_length. reflexivity.
    + intros i Hi. unfold comp at 2.
      fold (nthQ (map (fun c : list Qc => nthQ c k) (fsubV (colloc (s_basis s)) cs o)) i).
      unfold fsubQ in Hi. rewrite fsub_length in Hi. unfold comp in Hi. rewrite map_length in Hi.
      rewrite (nthQ_map_lt (fun c => nthQ c k) (fsubV (colloc (s_basis s)) cs o) [] i)
        by (unfold fsubV; rewrite fsub_length; exact Hi).
      rewrite fsubV_component. reflexivity.
  - left. exists x, bf. exact E.
  - right. intros cs len Lc Sc.
    assert (Sv : solve1V s cs = Some (fsubV (colloc (s_basis s)) cs o)) by (unfold solve1V; rewrite E, Ho; reflexivity).
    exists (fsubV (colloc (s_basis s)) cs o). split; [exact Sv|].
    destruct (Hsound cs _ Lc Sv) as [L1 [L2 _]].
    split; [exact L1|]. split; [exact (L2 len Sc)|].
    intros k Hk. unfold solve1Q. rewrite Ho. f_equal.
    apply (nth_ext _ _ 0 0).
    + unfold fsubQ, comp. rewrite fsub_length, !map_length. unfold fsubV. rewrite fsub_length. reflexivity.
    + intros i Hi. unfold comp at 2.
      fold (nthQ (map (fun c : list Qc => nthQ c k) (fsubV (colloc (s_basis s)) cs o)) i).
      unfold fsubQ in Hi. rewrite fsub_length in Hi. unfold comp in Hi. rewrite map_length in Hi.
      rewrite (nthQ_map_lt (fun c => nthQ c k) (fsubV (colloc (s_basis s)) cs o) [] i)
        by (unfold fsubV; rewrite fsub_length; exact Hi).
      rewrite fsubV_component. reflexivity.
Qed.

(* the model pipeline on accepted hierarchical Lagrange systems (any tree, any p, any number of dimensions, any input):
   the code-shaped sweep and the tensor recursion agree *)
Corollary hier_flat_eq_hier_nd_lagrange ss v :
  Forall (fun s => s_n s <> O /\ s_ord s <> None /\ sys_sound s) ss ->
  length v = prodN (map s_n ss) ->
  hier_flat ss v = hier_nd ss v.
Proof.
  intros H Hv. apply hier_flat_eq_hier_nd; [|exact Hv].
  apply Forall_impl with (2 := H). intros s [Hn [Ho Hs]]. split; [exact Hn|].
  destruct (s_ord s) as [o|] eqn:E; [|exfalso; apply Ho; reflexivity].
  exact (fsub_system_colwise s o E Hs).
Qed.


(* ------------------------------------------------------------------ phase 4: the same theorem from a SUCCESSFUL tensor recursion *)
(* the solver need not be total: whenever the 1-D solve of the chunk matrix succeeds, every column solves to the column of the
   result (forward substitution: always; checked Gauss: the column-wise action of the elimination, still a hypothesis) *)
Definition sys_colwise_succ (s : sys1) : Prop :=
  forall cs len r, length cs = s_n s -> (forall c, In c cs -> length c = len) -> solve1V s cs = Some r ->
    length r = s_n s /\ (forall c, In c r -> length c = len)
    /\ forall k, (k < len)%nat -> solve1Q s (comp k cs) = Some (comp k r).

Lemma sys_colwise_is_succ s : sys_colwise s -> sys_colwise_succ s.
Proof.
  intros H cs len r Lc Sc Hr. destruct (H cs len Lc Sc) as [r' [Hr' [A [B C]]]]. rewrite Hr in Hr'. injection Hr' as E. subst r'.
  split; [exact A|]. split; [exact B | exact C].
Qed.

Lemma sweep0_given_solution s n len g r :
  n = s_n s -> length g = (n * len)%nat -> length r = n -> (forall c, In c r -> length c = len) ->
  (forall k, (k < len)%nat -> solve1Q s (comp k (chunks n len g)) = Some (comp k r)) ->
  sweep_offs s (map (fun i => (i * len)%nat) (seq 0 n)) (seq 0 len) g = Some (concat r).
Proof.
  intros En Hg Lr Sr Cr. subst n. set (n := s_n s) in *.
  set (base := map (fun i => (i * len)%nat) (seq 0 n)).
  assert (Inv : forall m, (m <= len)%nat ->
     exists gm, fold_left (pole_step s base) (seq 0 m) (Some g) = Some gm /\ length gm = (n * len)%nat /\
       forall i c, (i < n)%nat -> (c < len)%nat ->
         nthQ gm (i * len + c) = if (c <? m)%nat then nthQ (nth i r []) c else nthQ g (i * len + c)).
  { induction m as [|m IHm]; intro Hm.
    - exists g. split; [reflexivity|]. split; [exact Hg|]. intros i c _ _. reflexivity.
    - destruct (IHm ltac:(lia)) as [gm [Fm [Lm Nm]]].
      replace (S m) with (m + 1)%nat by lia. rewrite seq_app, fold_left_app, Fm. cbn [seq plus fold_left].
      unfold pole_step.
      set (cs := map (fun b => (b + m)%nat) base).
      assert (Ecs : cs = map (fun i => (i * len + m)%nat) (seq 0 n)) by (unfold cs, base; rewrite map_map; reflexivity).
      assert (Eg : map (nthQ gm) cs = comp m (chunks n len g)).
      { rewrite comp_chunks by lia. rewrite Ecs, map_map. apply map_ext_in. intros i Hi. apply in_seq in Hi.
        rewrite (Nm i m) by lia. rewrite Nat.ltb_irrefl. reflexivity. }
      rewrite Eg, (Cr m) by lia.
      exists (scatter gm cs (comp m r)). split; [reflexivity|]. split; [rewrite scatter_length; exact Lm|].
      intros i c Hi Hcl.
      assert (Lcs : length cs = n) by (rewrite Ecs, map_length, seq_length; reflexivity).
      assert (Ncs : forall t, (t < n)%nat -> nth t cs O = (t * len + m)%nat).
      { intros t Ht. rewrite Ecs. rewrite (nth_map_lt (fun i0 => (i0 * len + m)%nat) (seq 0 n) O O t) by (rewrite seq_length; exact Ht).
        rewrite seq_nth by exact Ht. reflexivity. }
      destruct (Nat.eq_dec c m) as [Ecm|Ecm].
      + subst c. rewrite <- (Ncs i Hi).
        rewrite scatter_nth_in.
        * unfold comp. rewrite (nthQ_map_lt (fun c0 => nthQ c0 m) r [] i) by (rewrite Lr; exact Hi).
          destruct (Nat.ltb_spec m (m + 1)); [reflexivity | lia].
        * rewrite Ecs. apply FinFun.Injective_map_NoDup; [|apply seq_NoDup].
          intros a b E. assert (a * len = b * len)%nat by lia. nia.
        * unfold comp. rewrite map_length, Lr, Lcs. reflexivity.
        * rewrite Lcs. exact Hi.
        * rewrite (Ncs i Hi), Lm. nia.
      + rewrite scatter_nth_notin.
        * rewrite (Nm i c Hi Hcl).
          destruct (Nat.ltb_spec c m); destruct (Nat.ltb_spec c (m + 1)); try reflexivity; lia.
        * rewrite Ecs. intro Hin. apply in_map_iff in Hin. destruct Hin as [i' [E _]].
          destruct (block_inj i' i len m c ltac:(lia) Hcl E) as [_ E2]. lia. }
  destruct (Inv len (Nat.le_refl len)) as [gl [Fl [Ll Nl]]].
  unfold sweep_offs. rewrite Fl. f_equal.
  apply (nth_ext _ _ 0 0).
  - rewrite Ll, (length_concat_const len r Sr), Lr. reflexivity.
  - intros k Hk. rewrite Ll in Hk.
    assert (Hlen : (len <> 0)%nat) by (intro E; rewrite E in Hk; lia).
    pose proof (Nat.div_mod k len Hlen) as Ek.
    assert (Hi : (k / len < n)%nat) by (apply Nat.div_lt_upper_bound; [exact Hlen | lia]).
    assert (Hc' : (k mod len < len)%nat) by (apply Nat.mod_upper_bound; exact Hlen).
    replace k with ((k / len) * len + k mod len)%nat by lia.
    fold (nthQ gl (k / len * len + k mod len)). fold (nthQ (concat r) (k / len * len + k mod len)).
    rewrite (Nl _ _ Hi Hc'), (concat_nth_block r len _ _ Sr) by (rewrite ?Lr; assumption).
    destruct (Nat.ltb_spec (k mod len) len); [reflexivity | lia].
Qed.

Lemma opt_list_all_some {A B} (f : A -> option B) : forall gs xs, opt_list (map f gs) = Some xs -> forall c, In c gs -> exists y, f c = Some y.
Proof.
  induction gs as [|g gs IH]; intros xs H c Hc; [contradiction|].
  cbn [map opt_list] in H. destruct (f g) as [y|] eqn:E; [|discriminate].
  destruct (opt_list (map f gs)) as [ys|] eqn:E2; [|discriminate].
  destruct Hc as [Hc|Hc]; [subst; exists y; exact E | exact (IH ys eq_refl c Hc)].
Qed.

Theorem hier_flat_follows_hier_nd : forall ss v sur,
  Forall (fun s => s_n s <> O /\ (sys_single s \/ sys_colwise_succ s)) ss ->
  length v = prodN (map s_n ss) ->
  hier_nd ss v = Some sur -> hier_flat ss v = Some sur.
Proof.
  induction ss as [|s rest IH]; intros v sur Hss Hv Hnd; [exact Hnd|].
  inversion Hss as [|? ? [Hn Hs] Hrest]; subst.
  rewrite hier_flat_run_dims. cbn [map length seq combine]. rewrite combine_seq_shift.
  set (r := map s_n rest). set (n := s_n s). set (l := combine (seq 0 (length rest)) rest).
  cbn [map prodN] in Hv. fold r n in Hv.
  assert (Hdl : forall ds, In ds l -> (fst ds < length r)%nat).
  { intros [d s'] Hds. unfold l in Hds. apply in_combine_l in Hds. apply in_seq in Hds. unfold r. rewrite map_length. cbn [fst]. lia. }
  rewrite run_dims_cons. cbn [fst snd].
  cbn [hier_nd] in Hnd. fold r n in Hnd.
  assert (Tail : forall gs xs, length gs = n -> (forall c, In c gs -> length c = prodN r) ->
             opt_list (map (hier_nd rest) gs) = Some xs ->
             run_dims (n :: r) (map (fun ds => (S (fst ds), snd ds)) l) (Some (concat gs)) = Some (concat xs)).
  { intros gs xs Lg Sg Hx. rewrite (later_dims_chunkwise n r Hn l gs Lg Sg Hdl). unfold optconcat.
    assert (EM : map (fun c => run_dims r l (Some c)) gs = map (hier_nd rest) gs).
    { apply map_ext_in. intros c Hc. unfold l, r. rewrite <- hier_flat_run_dims.
      destruct (opt_list_all_some (hier_nd rest) gs xs Hx c Hc) as [y Hy]. rewrite Hy.
      apply IH; [exact Hrest | apply Sg; exact Hc | exact Hy]. }
    rewrite EM, Hx. reflexivity. }
  destruct (solve1V s (chunks n (prodN r) v)) as [r0|] eqn:S0; [|discriminate Hnd].
  destruct (opt_list (map (hier_nd rest) r0)) as [xs|] eqn:Ex; [|discriminate Hnd]. injection Hnd as Hnd. subst sur.
  destruct (s_basis s) as [|[x bf] [|q t]] eqn:E.
  - exfalso. apply Hn. unfold s_n. rewrite E. reflexivity.
  - unfold sweep_dim. rewrite E. unfold solve1V in S0. rewrite E in S0.
    destruct (Qc_eqb (beval bf x) 1); [|discriminate S0]. injection S0 as S0. subst r0.
    rewrite <- (concat_chunks n (prodN r) v Hv) at 1.
    apply Tail; [apply chunks_length | apply chunks_each; exact Hv | exact Ex].
  - assert (G : forall x0 bf0, s_basis s <> [(x0, bf0)]) by (intros x0 bf0; rewrite E; discriminate).
    destruct Hs as [[x0 [bf0 E0]]|Hc]; [exfalso; exact (G x0 bf0 E0)|].
    rewrite (sweep_dim_general s (n :: r) O v G), base_of_0, offs_list_0.
    destruct (Hc (chunks n (prodN r) v) (prodN r) r0 (chunks_length _ _ _) (chunks_each n (prodN r) v Hv) S0) as [L0 [Sh0 C0]].
    rewrite (sweep0_given_solution s n (prodN r) v r0 eq_refl Hv L0 Sh0 C0).
    apply Tail; assumption.
Qed.
