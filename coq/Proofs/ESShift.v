(* C07: shift invariance of coarsen_grid versions 1,2 in the minimum level (repaired, lmin-aware diagonal arithmetic
   base = lmin).  Adding k to lmin, lmax, base and to every level of the scheme changes neither the decisions of the while
   loop nor the coarsened RELATIVE level vectors: local_combi depends on (d, version, lmax - lmin, coarsening) only.
   Consequence: the bounded validity theorem (d 2..5, span 0..6) holds for EVERY integer lmin, not only lmin 1..3. *)
From Coq Require Import ZArith List Bool QArith Qcanon Lia.
From SG Require Import Base.QcUtil Model.CombiScheme Model.ExtendSplit Proofs.SchemeBasics Proofs.SchemeClosedForm
     Proofs.ESCombi Proofs.ESV0 Proofs.ESDict.
Import ListNotations.
Open Scope Z_scope.
Local Arguments Z.add : simpl never.
Local Arguments Z.sub : simpl never.
Local Arguments Z.mul : simpl never.
Local Arguments Z.leb : simpl never.
Local Arguments Z.eqb : simpl never.
Local Arguments Z.max : simpl never.
Local Arguments Z.of_nat : simpl never.

Definition shift (k : Z) (t : lv) : lv := map (fun x => x + k) t.

Lemma fold_max_shift k h t : fold_right Z.max (h + k) (shift k t) = fold_right Z.max h t + k.
Proof. induction t as [|x t IH]; simpl; [reflexivity|]. rewrite IH. lia. Qed.

Lemma maxl_shift k t : t <> [] -> maxl (shift k t) = maxl t + k.
Proof. destruct t as [|x t]; [congruence|]. intros _. unfold maxl. cbn [shift map hd]. apply (fold_max_shift k x (x :: t)). Qed.

Lemma count_eq_shift k m t : count_eq (m + k) (shift k t) = count_eq m t.
Proof.
  unfold count_eq. f_equal. induction t as [|x t IH]; simpl; [reflexivity|].
  destruct (Z.eqb_spec (x + k) (m + k)), (Z.eqb_spec x m); try lia; simpl; rewrite IH; reflexivity.
Qed.

Lemma dec_all_shift k m t : dec_all (m + k) (shift k t) = shift k (dec_all m t).
Proof.
  unfold dec_all, shift. rewrite !map_map. apply map_ext. intro x.
  destruct (Z.eqb_spec (x + k) (m + k)), (Z.eqb_spec x m); lia.
Qed.

Lemma shift_length k t : length (shift k t) = length t.
Proof. apply map_length. Qed.

Lemma dec_all_nonempty m t : t <> [] -> dec_all m t <> [].
Proof. destruct t; [congruence | discriminate]. Qed.

Lemma sumZ_shift k t : sumZ (shift k t) = sumZ t + Z.of_nat (length t) * k.
Proof.
  induction t as [|x t IH]; [cbn; lia|]. cbn [shift map length]. rewrite !sumZ_cons. fold (shift k t). rewrite IH. lia.
Qed.

Lemma sub_lmin_shift k lmin t : sub_lmin (lmin + k) (shift k t) = sub_lmin lmin t.
Proof. unfold sub_lmin, shift. rewrite map_map. apply map_ext. intro x. lia. Qed.

Lemma v12_loop_shift k version dimz base lmin lmax csave td : forall fuel c t, t <> [] ->
  v12_loop fuel version dimz (base + k) (lmin + k) (lmax + k) csave td c (shift k t)
  = shift k (v12_loop fuel version dimz base lmin lmax csave td c t).
Proof.
  induction fuel as [|fuel IH]; intros c t Hne; [reflexivity|]. cbn [v12_loop].
  destruct (c >? 0); [|reflexivity]. rewrite (maxl_shift k t Hne).
  destruct (Z.eqb_spec (maxl t + k) (lmin + k)), (Z.eqb_spec (maxl t) lmin); try lia; [reflexivity|].
  rewrite count_eq_shift.
  replace (lmax + k + (dimz - 1) * (base + k) - (maxl t + k) - (dimz - 2) * (base + k) - (maxl t + k) + 1)
    with (lmax + (dimz - 1) * base - maxl t - (dimz - 2) * base - maxl t + 1) by ring.
  replace (lmax + k + (dimz - 1) * (base + k) - (maxl t + k) - (dimz - 2) * (base + k) - (maxl t + k) + 2)
    with (lmax + (dimz - 1) * base - maxl t - (dimz - 2) * base - maxl t + 2) by ring.
  match goal with |- (if ?b then _ else _) = _ => destruct b end; [|reflexivity].
  rewrite dec_all_shift. apply IH. apply dec_all_nonempty. exact Hne.
Qed.

(* one component grid, versions 1,2 *)
Lemma coarsen_grid_v12_shift k d v lmin lmax base c D D' l : v <> 0 -> length l = d -> l <> [] ->
  fst (coarsen_grid (mkCP d v (lmin + k) (lmax + k) (base + k)) c D' (shift k l)) = fst (coarsen_grid (mkCP d v lmin lmax base) c D l).
Proof.
  intros Hv L Hne. unfold coarsen_grid. cbn [cp_version cp_lmin cp_lmax cp_base cp_dim].
  destruct (Z.eqb_spec v 0) as [E | _]; [contradiction|]. cbn [fst].
  rewrite sumZ_shift, L.
  replace (lmax + k + (Z.of_nat d - 1) * (base + k) - (sumZ l + Z.of_nat d * k))
    with (lmax + (Z.of_nat d - 1) * base - sumZ l) by ring.
  rewrite (v12_loop_shift k v (Z.of_nat d) base lmin lmax c _ (Z.to_nat c) c l Hne), sub_lmin_shift. reflexivity.
Qed.

Definition shift_scheme (k : Z) (sch : list (lv * Z)) : list (lv * Z) := map (fun lc => (shift k (fst lc), snd lc)) sch.

Lemma map_flat_map {A B C} (g : B -> C) (f : A -> list B) l : map g (flat_map f l) = flat_map (fun x => map g (f x)) l.
Proof. induction l as [|x l IH]; simpl; [reflexivity|]. rewrite map_app, IH. reflexivity. Qed.

Lemma scheme_shift d lmin lmax k :
  combi_scheme_standard d (lmin + k) (lmax + k) = shift_scheme k (combi_scheme_standard d lmin lmax).
Proof.
  unfold combi_scheme_standard, shift_scheme.
  replace (lmax + k - (lmin + k) + 1) with (lmax - lmin + 1) by lia.
  rewrite map_flat_map. apply flat_map_ext. intro q.
  rewrite map_map. apply map_ext. intro g. cbn [fst snd]. f_equal. unfold shift. rewrite map_map. apply map_ext. intro x. lia.
Qed.

Lemma computed_grids_v12 cp c : cp_version cp <> 0 -> forall sch,
  computed_grids (fst (coarsen_all cp c [] sch)) = map (fun lc => (fst (fst (coarsen_grid cp c [] (fst lc))), snd lc)) sch.
Proof.
  intros Hv sch. induction sch as [|[l cf] r IH]; [reflexivity|]. cbn [coarsen_all].
  rewrite (coarsen_grid_v12 cp c [] l Hv).
  pose proof (coarsen_all_v12 cp c Hv r []) as E. rewrite E. cbn [fst snd map].
  unfold computed_grids in *. cbn [filter fst snd].
  assert (Fl : snd (fst (coarsen_grid cp c [] l)) = true).
  { unfold coarsen_grid. destruct (Z.eqb_spec (cp_version cp) 0) as [E0 | _]; [contradiction | reflexivity]. }
  rewrite Fl. cbn [map fst snd]. f_equal. exact IH.
Qed.

Theorem local_combi_v12_shift k d v lmin lmax base c : v <> 0 -> (0 < d)%nat ->
  local_combi (mkCP d v (lmin + k) (lmax + k) (base + k)) c = local_combi (mkCP d v lmin lmax base) c.
Proof.
  intros Hv Hd. unfold local_combi, the_scheme. cbn [cp_dim cp_lmin cp_lmax].
  rewrite !computed_grids_v12 by exact Hv. rewrite scheme_shift. unfold shift_scheme. rewrite map_map.
  apply map_ext_in. intros [l cf] Hin. cbn [fst snd]. f_equal.
  destruct d as [|n]; [lia|]. apply std_member in Hin. destruct Hin as [q [_ [L _]]].
  rewrite (coarsen_grid_v12_shift k (S n) v lmin lmax base c [] [] l Hv L); [reflexivity|]. intro E. subst l. discriminate.
Qed.

(* the bounded theorem for versions 1,2 freed from the bound on lmin: every integer lmin *)
Theorem local_combi_v12_valid_all_lmin d v span c lmin :
  In d [2%nat; 3%nat; 4%nat; 5%nat] -> In v [1; 2] -> In span (zrange 7) -> In c (zrange (span + 3)) ->
  valid_local_combi d (local_combi (mkCP d v lmin (lmin + span) lmin) c) = true.
Proof.
  intros Hd Hv Hs Hc.
  assert (Hv0 : v <> 0) by (destruct Hv as [E | [E | []]]; subst; discriminate).
  assert (Hd0 : (0 < d)%nat) by (destruct Hd as [E | [E | [E | [E | []]]]]; subst; lia).
  assert (E : mkCP d v lmin (lmin + span) lmin = mkCP d v (1 + (lmin - 1)) ((1 + span) + (lmin - 1)) (1 + (lmin - 1))) by (f_equal; lia).
  rewrite E.
  rewrite (local_combi_v12_shift (lmin - 1) d v 1 (1 + span) 1 c Hv0 Hd0).
  apply (local_combi_check_valid (mkCP d v 1 (1 + span) 1) c).
  apply (bounded_all_spec _ _ _ true bounded_fixed_true d v 1 span c Hd); [|left; reflexivity | exact Hs | exact Hc].
  destruct Hv as [E2 | [E2 | []]]; subst; [right; left; reflexivity | right; right; left; reflexivity].
Qed.
