(* C16: the elimination of Model/GramSolve.v (no pivoting) SUCCEEDS and returns the solution on every square system whose
   quadratic form is positive (no symmetry needed):  gauss_complete.  With Proofs/GramKron.v (the system matrices of the density
   estimation are positive definite for every grid, every lambda >= 0) the model pipeline data set -> surpluses is TOTAL:
   it never reports a failed solve, and what it returns is the unique solution (existence + uniqueness). *)
From Coq Require Import ZArith List QArith Qcanon Bool Lia Lqa.
From SG Require Import Base.QcUtil Model.Gram Model.GramSolve Proofs.GramHat Proofs.GramEntries Proofs.GramPD Proofs.GramNorm
  Proofs.KronSOS Proofs.StripeSOS Proofs.GramKron Proofs.GramSolveP.
Import ListNotations.
Open Scope Qc_scope.

Definition posdef (n : nat) (G : list (list Qc)) : Prop :=
  forall v, length v = n -> Exists (fun x => x <> 0) v -> 0 < quad G v.
Definition wfM (n : nat) (G : list (list Qc)) : Prop := Forall (fun row => length row = n) G /\ length G = n.

Definition hcol (G : list (list Qc)) : list Qc := map (hd 0) G.
Definition htl (G : list (list Qc)) : list (list Qc) := map (@tl Qc) G.

Lemma map2_sub0 (row r : list Qc) (f : Qc) : f = 0 -> length row = length r -> map2 (fun y rj => y - f * rj) row r = row.
Proof.
  intros Hf. subst f. revert r; induction row as [|y row IH]; intros [|rj r] H; simpl in *; try discriminate; [reflexivity|].
  rewrite IH by lia. f_equal. ring.
Qed.

Lemma row_elim_spec p r b0 c row bi : length row = length r ->
  row_elim p r b0 (c :: row) bi = (map2 (fun y rj => y - c / p * rj) row r, bi - c / p * b0).
Proof.
  intro H. unfold row_elim. destruct (Qc_eqb c 0) eqn:E; [|reflexivity].
  apply Qc_eqb_eq in E. subst c. rewrite map2_sub0; [|unfold Qcdiv; ring|exact H]. f_equal. unfold Qcdiv. ring.
Qed.

Lemma dotQ_map2_sub (row r x : list Qc) (f : Qc) : length row = length r ->
  dotQ (map2 (fun y rj => y - f * rj) row r) x = dotQ row x - f * dotQ r x.
Proof.
  revert r x; induction row as [|y row IH]; intros [|rj r] x H; simpl in *; try discriminate; [ring|].
  destruct x as [|xv x]; [ring|]. rewrite IH by lia. ring.
Qed.

(* the eliminated system, row by row *)
Definition reduced (p : Qc) (r : list Qc) (b0 : Qc) (rest : list (list Qc)) (brest : list Qc) :=
  map2 (row_elim p r b0) rest brest.

Lemma reduced_cons p r b0 row rest bi brest :
  reduced p r b0 (row :: rest) (bi :: brest) = row_elim p r b0 row bi :: reduced p r b0 rest brest.
Proof. reflexivity. Qed.

Lemma reduced_length p r b0 rest brest : length brest = length rest -> length (reduced p r b0 rest brest) = length rest.
Proof. intro H. unfold reduced. apply map2_length. exact H. Qed.

Lemma reduced_wf k p r b0 rest brest : length r = k -> Forall (fun row => length row = S k) rest -> length brest = length rest ->
  Forall (fun row => length row = k) (map fst (reduced p r b0 rest brest)).
Proof.
  intros Hr. revert brest; induction rest as [|row rest IH]; intros [|bi brest] Hf Hl; cbn [length] in Hl; try discriminate;
    [constructor|].
  inversion Hf as [|? ? Hrow Hrest]; subst. destruct row as [|c row]; [discriminate|]. cbn [length] in Hrow.
  rewrite reduced_cons, row_elim_spec by lia. cbn [map fst]. constructor.
  - rewrite map2_length; lia.
  - apply IH; [exact Hrest | lia].
Qed.

(* back substitution: a solution of the reduced system extends to a solution of the remaining rows *)
Lemma rest_rows_solved k p r b0 x' : p <> 0 -> length r = k ->
  forall rest brest, Forall (fun row => length row = S k) rest -> length brest = length rest ->
  matvec (map fst (reduced p r b0 rest brest)) x' = map snd (reduced p r b0 rest brest) ->
  matvec rest ((b0 - dotQ r x') / p :: x') = brest.
Proof.
  intros Hp Hr. induction rest as [|row rest IH]; intros [|bi brest] Hf Hl E; cbn [length] in Hl; try discriminate; [reflexivity|].
  inversion Hf as [|? ? Hrow Hrest]; subst. destruct row as [|c row]; [discriminate|]. cbn [length] in Hrow.
  rewrite reduced_cons, row_elim_spec in E by lia. unfold matvec in E. cbn [map fst snd] in E. injection E as E0 E1.
  unfold matvec. cbn [map dotQ]. f_equal.
  - rewrite dotQ_map2_sub in E0 by lia.
    assert (D : dotQ row x' = bi - c / p * b0 + c / p * dotQ r x') by (rewrite <- E0; ring).
    rewrite D. field. exact Hp.
  - apply IH; [exact Hrest | lia | exact E1].
Qed.

(* bilinear form of the remaining rows / of the reduced matrix *)
Lemma dot_matvec_rest k : forall rest wv a w, Forall (fun row => length row = S k) rest -> length wv = length rest ->
  dotQ wv (matvec rest (a :: w)) = a * dotQ wv (hcol rest) + dotQ wv (matvec (htl rest) w).
Proof.
  induction rest as [|row rest IH]; intros [|y wv] a w Hf Hl; cbn [length] in Hl; try discriminate; [cbn; ring|].
  inversion Hf as [|? ? Hrow Hrest]; subst. destruct row as [|c row]; [discriminate|].
  unfold matvec, hcol, htl in *. cbn [map dotQ hd tl]. rewrite (IH wv a w Hrest) by lia. ring.
Qed.

Lemma dot_matvec_reduced k p r b0 : length r = k ->
  forall rest brest wv w, Forall (fun row => length row = S k) rest -> length brest = length rest -> length wv = length rest ->
  dotQ wv (matvec (map fst (reduced p r b0 rest brest)) w)
  = dotQ wv (matvec (htl rest) w) - dotQ wv (hcol rest) * dotQ r w / p.
Proof.
  intro Hr. induction rest as [|row rest IH]; intros [|bi brest] [|y wv] w Hf Hb Hl; cbn [length] in Hb, Hl; try discriminate;
    [cbn; unfold Qcdiv; ring|].
  inversion Hf as [|? ? Hrow Hrest]; subst. destruct row as [|c row]; [discriminate|]. cbn [length] in Hrow.
  rewrite reduced_cons, row_elim_spec by lia. unfold matvec, hcol, htl in *. cbn [map fst dotQ hd tl].
  rewrite dotQ_map2_sub by lia. rewrite (IH brest wv w Hrest) by lia. unfold Qcdiv. ring.
Qed.

Lemma dotQ_repeat0_l k v : dotQ (repeat 0 k) v = 0.
Proof. revert v; induction k as [|k IH]; intros [|y v]; simpl; try reflexivity. rewrite IH. ring. Qed.
Lemma dotQ_repeat0_r k v : dotQ v (repeat 0 k) = 0.
Proof. rewrite dotQ_comm. apply dotQ_repeat0_l. Qed.
Lemma matvec_repeat0 G k : dotQ (repeat 0 k) (matvec G (repeat 0 k)) = 0.
Proof. apply dotQ_repeat0_l. Qed.

Lemma quad_border k p r rest a w : Forall (fun row => length row = S k) rest -> length rest = length w ->
  quad ((p :: r) :: rest) (a :: w)
  = p * (a * a) + a * dotQ r w + a * dotQ w (hcol rest) + quad (htl rest) w.
Proof.
  intros Hf Hl. unfold quad. unfold matvec at 1. cbn [map dotQ]. fold (matvec rest (a :: w)).
  rewrite (dot_matvec_rest k rest w a w Hf) by lia. ring.
Qed.

Lemma pivot_pos k p r rest : posdef (S k) ((p :: r) :: rest) -> Forall (fun row => length row = S k) rest -> length rest = k -> 0 < p.
Proof.
  intros PD Hf Hl.
  assert (E : quad ((p :: r) :: rest) (1 :: repeat 0 k) = p).
  { rewrite (quad_border k) by (try assumption; rewrite repeat_length; exact Hl).
    rewrite dotQ_repeat0_r, dotQ_repeat0_l. unfold quad. rewrite dotQ_repeat0_l. ring. }
  rewrite <- E. apply PD; [cbn [length]; rewrite repeat_length; reflexivity|].
  left. intro H. apply Qc_eq_Qeq in H. discriminate.
Qed.

Lemma reduced_posdef k p r b0 rest brest :
  posdef (S k) ((p :: r) :: rest) -> length r = k -> Forall (fun row => length row = S k) rest -> length rest = k ->
  length brest = k -> p <> 0 ->
  posdef k (map fst (reduced p r b0 rest brest)).
Proof.
  intros PD Hr Hf Hl Hb Hp w Hw Ex.
  set (a := - (dotQ w (hcol rest) / p)).
  assert (E : quad (map fst (reduced p r b0 rest brest)) w = quad ((p :: r) :: rest) (a :: w)).
  { rewrite (quad_border k) by (try assumption; lia).
    unfold quad at 1. rewrite (dot_matvec_reduced k p r b0 Hr rest brest w w Hf) by lia.
    unfold quad, a. field. exact Hp. }
  rewrite E. apply PD; [cbn [length]; lia | right; exact Ex].
Qed.

(* MAIN: elimination without pivoting succeeds on every system with a positive quadratic form, and returns a solution *)
Theorem gauss_complete : forall n G b, wfM n G -> length b = n -> posdef n G ->
  exists x, gauss n G b = Some x /\ length x = n /\ matvec G x = b.
Proof.
  induction n as [|k IH]; intros G b [Hf Hl] Hb PD.
  - destruct G; [|discriminate]. destruct b; [|discriminate]. exists []. repeat split; reflexivity.
  - destruct G as [|row0 rest]; [discriminate|]. destruct b as [|b0 brest]; [discriminate|].
    inversion Hf as [|? ? Hrow0 Hrest]; subst. destruct row0 as [|p r]; [discriminate|].
    simpl in Hrow0, Hl, Hb. assert (Hr : length r = k) by lia. assert (Hl' : length rest = k) by lia.
    assert (Hb' : length brest = k) by lia.
    pose proof (pivot_pos k p r rest PD Hrest Hl') as Ppos.
    assert (Hp : p <> 0) by (apply Qc_pos_nz; exact Ppos).
    cbn [gauss]. rewrite (proj2 (Qc_eqb_false p 0) Hp).
    fold (reduced p r b0 rest brest).
    assert (W : wfM k (map fst (reduced p r b0 rest brest))).
    { split; [apply reduced_wf; try assumption; lia | rewrite map_length, reduced_length; lia]. }
    assert (Lb : length (map snd (reduced p r b0 rest brest)) = k) by (rewrite map_length, reduced_length; lia).
    destruct (IH _ _ W Lb (reduced_posdef k p r b0 rest brest PD Hr Hrest Hl' Hb' Hp)) as [x' [G' [Lx Ex]]].
    rewrite G'. exists ((b0 - dotQ r x') / p :: x'). split; [reflexivity|]. split; [cbn [length]; lia|].
    unfold matvec. cbn [map dotQ]. fold (matvec rest ((b0 - dotQ r x') / p :: x')). f_equal.
    + field. exact Hp.
    + apply (rest_rows_solved k p r b0 x' Hp Hr rest brest Hrest); [lia | exact Ex].
Qed.

Lemma forallb2_Qc_eqb_refl l : forallb2 Qc_eqb l l = true.
Proof. induction l as [|x l IH]; [reflexivity|]. cbn [forallb2]. rewrite Qc_eqb_refl, IH. reflexivity. Qed.

Theorem solve_checked_complete n G b : wfM n G -> length b = n -> posdef n G ->
  exists x, solve_checked G b = Some x /\ length x = n /\ matvec G x = b.
Proof.
  intros W Hb PD. destruct (gauss_complete n G b W Hb PD) as [x [E [Lx Ex]]].
  exists x. split; [|split; assumption].
  unfold solve_checked. rewrite (proj2 W), E.
  assert (C : check_solution G x b = true).
  { unfold check_solution. apply andb_true_iff. split.
    - apply forallb_forall. intros row Hrow. apply Nat.eqb_eq.
      rewrite (proj1 (Forall_forall _ _) (proj1 W) row Hrow). symmetry. exact Lx.
    - rewrite Ex. apply forallb2_Qc_eqb_refl. }
  rewrite C. reflexivity.
Qed.

(* ------------------------------------------------------------------ the density-estimation pipeline is total *)
Lemma rhs_length pts data signs : length (rhs pts data signs) = length pts.
Proof. unfold rhs. apply map_length. Qed.
Lemma rhs_uniform_length lv data signs : length (rhs_uniform lv data signs) = length (index_list lv).
Proof. unfold rhs_uniform. apply map_length. Qed.

Theorem surpluses_nonuniform_total stripes lam data signs labelled :
  Forall unit_stripe stripes -> 0 <= lam ->
  exists raw fin integ, surpluses_nonuniform stripes lam false data signs labelled = Some (raw, fin, integ).
Proof.
  intros Hs Hlam. unfold surpluses_nonuniform.
  destruct (solve_checked_complete (length (grid_hats stripes)) (R_matrix_nonuniform (grid_hats stripes) lam)
              (rhs (grid_hats stripes) data signs)) as [x [E _]].
  - split; [apply sym_matrix_rows | apply sym_matrix_length].
  - apply rhs_length.
  - intros v Hl Ex. apply gram_grid_positive_definite; assumption.
  - rewrite E. cbn [finish_nonuniform]. eexists _, _, _. reflexivity.
Qed.

Theorem surpluses_uniform_total lv lam data signs labelled : 0 <= lam ->
  exists raw fin integ, surpluses_uniform lv lam false data signs labelled = Some (raw, fin, integ).
Proof.
  intros Hlam. unfold surpluses_uniform.
  destruct (solve_checked_complete (length (index_list lv)) (R_matrix_uniform lv lam) (rhs_uniform lv data signs)) as [x [E _]].
  - rewrite R_matrix_uniform_sym. split; [apply sym_matrix_rows | apply sym_matrix_length].
  - apply rhs_uniform_length.
  - intros v Hl Ex. apply gram_uniform_positive_definite; assumption.
  - rewrite E. cbn [finish_uniform]. eexists _, _, _. reflexivity.
Qed.

(* existence and uniqueness of the solution of the density-estimation system *)
Theorem gram_grid_system_has_unique_solution stripes lam b :
  Forall unit_stripe stripes -> 0 <= lam -> length b = length (grid_hats stripes) ->
  exists x, length x = length (grid_hats stripes) /\ matvec (R_matrix_nonuniform (grid_hats stripes) lam) x = b /\
            forall y, length y = length (grid_hats stripes) -> matvec (R_matrix_nonuniform (grid_hats stripes) lam) y = b -> y = x.
Proof.
  intros Hs Hlam Hb.
  destruct (gauss_complete (length (grid_hats stripes)) (R_matrix_nonuniform (grid_hats stripes) lam) b) as [x [_ [Lx Ex]]].
  - split; [apply sym_matrix_rows | apply sym_matrix_length].
  - exact Hb.
  - intros v Hl Ex. apply gram_grid_positive_definite; assumption.
  - exists x. split; [exact Lx|]. split; [exact Ex|].
    intros y Ly Ey. exact (gram_grid_solution_unique stripes lam y x b Hs Hlam Ly Lx Ey Ex).
Qed.

(* ------------------------------------------------------------------ the normalisation clause for the pipeline result *)
Lemma trap_interior_pos xs : strictly_inc xs -> Forall (fun w => 0 < w) (trap_interior xs).
Proof.
  induction xs as [|a xs IH]; intro Hs; [constructor|]. destruct xs as [|p [|c r]]; try constructor.
  - destruct Hs as [H1 [H2 _]]. qc_order.
  - apply IH. apply Hs.
Qed.

Lemma prodQ_pos l : Forall (fun w => 0 < w) l -> 0 < prodQ l.
Proof.
  induction 1 as [|x l Hx _ IH]; cbn [prodQ]; [qc_order|].
  replace 0 with (0 * prodQ l) by ring. apply Qcmult_lt_compat_r; assumption.
Qed.

Lemma cross_Forall {A} (P : A -> Prop) (ls : list (list A)) :
  Forall (Forall P) ls -> forall t, In t (cross ls) -> Forall P t.
Proof.
  induction 1 as [|l ls Hl _ IH]; intros t Ht; cbn [cross] in Ht.
  - destruct Ht as [Ht|[]]. subst. constructor.
  - apply in_cross_cons in Ht. destruct Ht as [a [t' [E [Ha Ht']]]]. subst t.
    constructor; [exact (proj1 (Forall_forall _ _) Hl a Ha) | apply IH; exact Ht'].
Qed.

Lemma tensor_weights_pos stripes : Forall strictly_inc stripes -> Forall (fun w => 0 < w) (tensor_weights stripes).
Proof.
  intro Hs. unfold tensor_weights. apply Forall_forall. intros w Hw. apply in_map_iff in Hw. destruct Hw as [t [E Ht]]. subst w.
  apply prodQ_pos. apply (cross_Forall _ (map trap_interior stripes)); [|exact Ht].
  apply Forall_forall. intros l Hl. apply in_map_iff in Hl. destruct Hl as [xs [E Hx]]. subst l.
  apply trap_interior_pos. exact (proj1 (Forall_forall _ _) Hs xs Hx).
Qed.

Lemma sumQ_pos l : l <> [] -> Forall (fun w => 0 < w) l -> 0 < sumQ l.
Proof.
  intros Hne H. destruct l as [|x l]; [contradiction|]. inversion H as [|? ? Hx Hl]; subst. cbn [sumQ].
  assert (N : 0 <= sumQ l).
  { apply sumQ_nonneg. eapply Forall_impl; [|exact Hl]. intros y Hy. apply Qclt_le_weak. exact Hy. }
  qc_order.
Qed.

(* the surpluses the pipeline returns are normalised: the quadrature-weighted mean of their positive parts is one whenever the
   normalising integral is not zero (dimension-wise path: trapezoidal weights of the grid; uniform path: plain mean) *)
Theorem pipeline_nonuniform_normalised stripes lam ml data signs labelled raw fin integ :
  Forall strictly_inc stripes ->
  surpluses_nonuniform stripes lam ml data signs labelled = Some (raw, fin, integ) -> integ <> 0 ->
  mean_pos (tensor_weights stripes) fin = 1.
Proof.
  intros Hs H Hi. unfold surpluses_nonuniform, finish_nonuniform in H.
  match type of H with match ?r with _ => _ end = _ => destruct r as [a|]; [|discriminate] end.
  injection H as H1 H2 H3. subst raw fin integ.
  pose proof (tensor_weights_pos stripes Hs) as P.
  destruct (tensor_weights stripes) as [|w0 ws] eqn:E.
  - exfalso. apply Hi. unfold normalise_weighted. cbn [snd sumQ]. unfold Qcdiv. rewrite dotQ_nil_r. ring.
  - rewrite <- E in *. apply normalise_mean_pos_is_one; [| |exact Hi].
    + eapply Forall_impl; [|exact P]. intros y Hy. apply Qclt_le_weak. exact Hy.
    + apply sumQ_pos; [rewrite E; discriminate | exact P].
Qed.

Theorem pipeline_uniform_normalised lv lam ml data signs labelled raw fin integ :
  surpluses_uniform lv lam ml data signs labelled = Some (raw, fin, integ) -> integ <> 0 ->
  mean_pos (map (fun _ => 1) raw) fin = 1.
Proof.
  intros H Hi. unfold surpluses_uniform, finish_uniform in H.
  match type of H with match ?r with _ => _ end = _ => destruct r as [a|]; [|discriminate] end.
  injection H as H1 H2 H3. subst raw fin integ.
  apply normalise_uniform_mean_pos_is_one; [|exact Hi].
  intro E. subst a. apply Hi. unfold normalise_uniform. destruct labelled; cbn; apply Qc_is_canon; reflexivity.
Qed.
