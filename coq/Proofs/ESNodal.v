(* C07: nodal exactness of the local combination of an extend-split area.
   The component grids of an area [s,e] are the uniform trapezoidal grids of the coarsened (relative) level vectors
   (Model/StdCombi.v: grid1_full s_d e_d l_d = np.linspace(s_d, e_d, 2^l_d + 1), boundary points included); the local
   interpolant is the combination  sum_g c_g * (multilinear interpolant on grid g)  over the COMPUTED grids.
   If the computed grids satisfy inclusion-exclusion on their downward closure (local_IE - what the verified checker
   valid_local_combi establishes and what Proofs/ESV0.v proves for version 0), the local interpolant of an ARBITRARY
   function f equals f at every point of every computed grid.  Instantiation of Proofs/NodalExact.v (minimum level 0,
   index set = downward closure of the computed grids). *)
From Coq Require Import ZArith List Bool QArith Qcanon Lia Sorted.
From SG Require Import Base.QcUtil Model.CombiScheme Model.StdCombi Model.ExtendSplit Proofs.SchemeBasics Proofs.SchemeIE
     Proofs.CombiAbstract Proofs.StdGrid Proofs.StdCombiSum Proofs.NodalExact Proofs.StdNodal Proofs.ESCombi Proofs.ESV0.
Import ListNotations.
Open Scope Z_scope.

(* the downward closure (above level 0) of the computed grids, as a list *)
Definition dcl (d : nat) (gs : list (lv * Z)) : list lv :=
  filter (dominated gs) (cross (map (fun m => zrange (m + 1)) (maxes d gs))).

Lemma cross_zrange_props : forall ms k, In k (cross (map (fun m => zrange (m + 1)) ms)) ->
  length k = length ms /\ Forall (fun x => 0 <= x) k.
Proof.
  induction ms as [|m ms IH]; intros k H; simpl in H.
  - destruct H as [E | []]. subst k. split; [reflexivity | constructor].
  - apply in_flat_map in H. destruct H as [x [Hx H]]. apply in_map_iff in H. destruct H as [k' [E Hk']]. subst k.
    destruct (IH k' Hk') as [L F]. apply zrange_In in Hx. split; [simpl; congruence | constructor; [lia | exact F]].
Qed.

Lemma dcl_In d gs k : grids_wf d gs ->
  (In k (dcl d gs) <-> length k = d /\ Forall (fun x => 0 <= x) k /\ exists g, In g gs /\ lv_geb (fst g) k = true).
Proof.
  intro W. assert (WL : Forall (fun g => length (fst g) = d) gs) by (apply Forall_forall; intros g Hg; apply (W g Hg)).
  unfold dcl. rewrite filter_In. split.
  - intros [Hc Hd]. destruct (cross_zrange_props _ _ Hc) as [L F]. rewrite (maxes_length d gs WL) in L.
    split; [exact L | split; [exact F|]]. unfold dominated in Hd. apply existsb_exists in Hd. exact Hd.
  - intros [L [F [g [Hg Dg]]]]. split.
    + apply in_cross. pose proof Dg as Dg'. apply lv_geb_spec in Dg'. pose proof (maxes_ge d gs g WL Hg) as Mx.
      pose proof (sandwich _ _ _ Dg' Mx F) as KM.
      clear -KM. induction KM as [|x m k ms Hx _ IH]; simpl; constructor; [apply zrange_In; lia | assumption].
    + unfold dominated. apply existsb_exists. exists g. split; assumption.
Qed.

Lemma lv_geb_of_Forall2 : forall k g, Forall2 (fun a b => 0 <= a <= b) k g -> lv_geb g k = true.
Proof.
  induction 1 as [|a b k g Hab _ IH]; [reflexivity|]. simpl. apply andb_true_iff. split; [apply Z.leb_le; lia | exact IH].
Qed.

Lemma lv_geb_trans_below : forall g k j, lv_geb g k = true -> Forall2 (fun a b => 0 <= a <= b) j k -> lv_geb g j = true.
Proof.
  induction g as [|x g IH]; intros [|y k] j H F; simpl in H; try discriminate.
  - inversion F; subst. reflexivity.
  - inversion F as [|a ? j' ? Hab F']; subst. apply andb_true_iff in H. destruct H as [H1 H2]. apply Z.leb_le in H1.
    simpl. apply andb_true_iff. split; [apply Z.leb_le; lia | apply (IH k j' H2 F')].
Qed.

Lemma sumZ_all_zero (l : list Z) : (forall v, In v l -> v = 0) -> sumZ l = 0.
Proof.
  induction l as [|a l IH]; intro H; [reflexivity|].
  change (sumZ (a :: l)) with (a + sumZ l). rewrite IH by (intros v Hv; apply H; right; assumption).
  rewrite (H a (or_introl eq_refl)). reflexivity.
Qed.

Lemma in_grid_length {X} (eqbX : X -> X -> bool) (P : nat -> Z -> list X) : forall x d l,
  CombiAbstract.in_grid X eqbX P d x l = true -> length x = length l.
Proof.
  induction x as [|x0 x IH]; intros d [|l0 l] H; simpl in H; try discriminate; [reflexivity|].
  apply andb_true_iff in H. destruct H as [_ H]. simpl. f_equal. apply (IH (S d) l H).
Qed.

(* the local interpolant of an area: combination of the multilinear interpolants on the computed grids *)
Definition local_interp (s e : list Qc) (gs : list (lv * Z)) (f : list Qc -> Qc) (x : list Qc) : Qc :=
  combi_interp true s e gs f x.

Theorem local_nodal_exact d gs s e f x g0 c0 :
  grids_wf d gs -> local_IE d gs -> box_ok s e -> length s = d -> length e = d ->
  In (g0, c0) gs -> in_comp true s e x g0 = true ->
  local_interp s e gs f x = f x.
Proof.
  intros W IE Hbox Ls Le Hin Hx. unfold local_interp.
  destruct (W (g0, c0) Hin) as [L0 F0]. cbn [fst] in L0, F0.
  assert (Lx : length x = d) by (rewrite <- L0; apply (in_grid_length _ _ _ _ _ Hx)).
  set (k := level_of Qc Qc_eqb (Pab true s e) 0 0 x g0).
  destruct (level_of_props Qc Qc_eqb (Pab true s e) 0 x 0%nat g0 Hx F0) as [Lk F2]. fold k in Lk, F2.
  pose proof (level_of_in_grid Qc Qc_eqb Qc_eqb_eq (Pab true s e) 0 x 0%nat g0 Hx F0) as Hxk. fold k in Hxk.
  assert (Fk : Forall (fun v => 0 <= v) k) by (apply (Forall2_lmin_left 0 k g0 F2)).
  assert (Hk : In k (dcl d gs)).
  { apply (dcl_In d gs k W). split; [congruence | split; [exact Fk|]]. exists (g0, c0). split; [exact Hin|].
    cbn [fst]. apply lv_geb_of_Forall2. exact F2. }
  set (M := Z.to_nat (max_level gs - 0)).
  assert (Hwf : forall l c, In (l, c) gs -> length l = d /\ Forall (fun v => 0 <= v <= 0 + Z.of_nat M) l).
  { intros l c Hl. destruct (W (l, c) Hl) as [Ll Fl]. cbn [fst] in Ll, Fl. split; [exact Ll|].
    apply Forall_forall. intros v Hv. rewrite Forall_forall in Fl. specialize (Fl v Hv).
    pose proof (max_level_bound gs l c v Hl Hv). unfold M. lia. }
  assert (EC : combi_interp true s e gs f x = combined Qc gs (Efam s e x) (masked true s e f)).
  { unfold combi_interp, combined. apply sumQ_map_ext. intros [l c] Hl. cbn [fst snd].
    destruct (Hwf l c Hl) as [Ll _]. rewrite comp_interp_appT by congruence. reflexivity. }
  rewrite EC.
  assert (LE : length (Efam s e x) = d).
  { unfold Efam. rewrite map_length, !combine_length. lia. }
  assert (H1 : forall l c, In (l, c) gs -> length l = length (Efam s e x) /\ Forall (fun v => 0 <= v <= 0 + Z.of_nat M) l).
  { intros l c Hl. rewrite LE. exact (Hwf l c Hl). }
  assert (H2 : forall l, length l = length (Efam s e x) -> Forall (fun v => 0 <= v) l ->
                 dominating_sum gs l = if mem l (dcl d gs) then 1 else 0).
  { intros l Ll Fl. rewrite LE in Ll. destruct (mem l (dcl d gs)) eqn:E.
    - apply mem_In in E. apply (dcl_In d gs l W) in E. destruct E as [_ [_ Hg]]. apply IE; assumption.
    - apply mem_false in E. unfold dominating_sum. apply sumZ_all_zero. intros v Hv. apply in_map_iff in Hv.
      destruct Hv as [g [Ev Hg]]. subst v. destruct (lv_geb (fst g) l) eqn:G; [|reflexivity].
      exfalso. apply E. apply (dcl_In d gs l W). split; [exact Ll | split; [exact Fl|]]. exists g. split; assumption. }
  assert (H3 : forall k' j, In k' (dcl d gs) -> length j = length k' -> Forall2 (fun p q => 0 <= p <= q) j k' -> In j (dcl d gs)).
  { intros k' j Hk' Lj Fj. apply (dcl_In d gs k' W) in Hk'. destruct Hk' as [Lk' [Fk' [g [Hg Dg]]]].
    apply (dcl_In d gs j W). split; [congruence | split; [apply (Forall2_lmin_left 0 j k' Fj)|]].
    exists g. split; [exact Hg | apply (lv_geb_trans_below _ k' j Dg Fj)]. }
  assert (H4 : krons Qc 0 (Efam s e x) k x).
  { apply (krons_of_in_grid true 0 (Z.le_refl 0) s e x k 0%nat Hbox ltac:(congruence) ltac:(simpl; congruence) Hxk Fk). }
  assert (H5 : Forall (fun v => 0 <= v <= 0 + Z.of_nat M) k).
  { apply Forall_forall. intros v Hv. rewrite Forall_forall in Fk. specialize (Fk v Hv). split; [exact Fk|].
    assert (exists w, In w g0 /\ v <= w) as [w [Hw Hvw]].
    { clear -F2 Hv. induction F2 as [|p q ks ls Hpq _ IH]; [destruct Hv|].
      destruct Hv as [->|Hv]; [exists q; split; [left; reflexivity | lia]|].
      destruct (IH Hv) as [w [Hw Hvw]]. exists w. split; [right; exact Hw | exact Hvw]. }
    pose proof (max_level_bound gs g0 c0 w Hin Hw). unfold M. lia. }
  rewrite (nodal_exact Qc 0 (dcl d gs) gs (Efam s e x) M H1 H2 H3 k x (masked true s e f) H4 Hk H5).
  reflexivity.
Qed.

(* through the verified checker *)
Corollary checked_local_nodal_exact d gs s e f x g0 c0 :
  valid_local_combi d gs = true -> box_ok s e -> length s = d -> length e = d ->
  In (g0, c0) gs -> in_comp true s e x g0 = true -> local_interp s e gs f x = f x.
Proof.
  intros Hv. destruct (valid_local_combi_sound d gs Hv) as [W IE]. apply local_nodal_exact; assumption.
Qed.

(* version 0, every dimension >= 2, all levels, every admissible coarsening value: the local interpolant of an area
   reproduces an arbitrary function at every point of every computed area grid *)
Theorem local_combi_v0_nodal_exact n lmin lmax c base s e f x g0 c0 :
  0 <= c <= lmax - lmin -> box_ok s e -> length s = S (S n) -> length e = S (S n) ->
  In (g0, c0) (local_combi (mkCP (S (S n)) 0 lmin lmax base) c) -> in_comp true s e x g0 = true ->
  local_interp s e (local_combi (mkCP (S (S n)) 0 lmin lmax base) c) f x = f x.
Proof.
  intros Hc. apply (local_nodal_exact (S (S n))); [apply local_combi_v0_wf | apply local_combi_v0_IE]; exact Hc.
Qed.

