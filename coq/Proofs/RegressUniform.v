(* C20: on uniform component grids the smoothing matrix of build_C_matrix (mass terms with the level of their own
   dimension, i.e. C_matrix_uniform false - the code after fix commit aa53b00) IS the gradient Gram matrix of the hat
   basis, entry by entry, for every dimension, every level vector (levels >= 1) and all indices:
        C_val false lv iv jv = C_val_dw_spec (uniform hats of iv) (uniform hats of jv).
   Also: the design matrix holds the basis values at the training points (row-wise, any number of rows, compatible with
   evaluating the points in blocks). *)
From Coq Require Import ZArith List QArith Qcanon Bool Lia Lqa.
From SG Require Import Base.QcUtil Base.PolyInt Model.Gram Model.Regress Proofs.GramHat Proofs.GramEntries Proofs.GramPD
  Proofs.GramNorm Proofs.RegressP.
Import ListNotations.
Open Scope Qc_scope.

Definition optval (o : option Qc) : Qc := match o with Some v => v | None => 0 end.
Definition uhats (lv iv : list Z) : list hatdom := map2 uniform_dom lv iv.

(* ------------------------------------------------------------------ nodes of the uniform grid *)
Lemma qc_of_Z_lt a b : (a < b)%Z -> qc_of_Z a < qc_of_Z b.
Proof. intro H. unfold qc_of_Z, Qclt. cbn [this Q2Qc]. rewrite !Qred_correct. rewrite <- Zlt_Qlt. exact H. Qed.

Lemma node_lt l a b : (a < b)%Z -> qc_of_Z a / pow2z l < qc_of_Z b / pow2z l.
Proof. intro H. apply div_lt_mono; [apply pow2z_pos | apply qc_of_Z_lt; exact H]. Qed.

Lemma node_neq l a b : a <> b -> Qc_eqb (qc_of_Z a / pow2z l) (qc_of_Z b / pow2z l) = false.
Proof.
  intro H. apply Qc_eqb_false. intro E.
  destruct (Z.lt_trichotomy a b) as [L|[L|L]]; [|contradiction|].
  - apply (Qc_lt_neq _ _ (node_lt l a b L)). symmetry. exact E.
  - apply (Qc_lt_neq _ _ (node_lt l b a L)). exact E.
Qed.

Lemma qc_of_Z_pm1 i : qc_of_Z (i + 1) = qc_of_Z i + 1 /\ qc_of_Z (i - 1) = qc_of_Z i - 1.
Proof.
  split; [rewrite qc_of_Z_add, qc_of_Z_1; reflexivity|].
  replace (i - 1)%Z with (i + (-1))%Z by lia. rewrite qc_of_Z_add.
  assert (E : qc_of_Z (-1) = - (1)) by (apply Qc_is_canon; reflexivity). rewrite E. ring.
Qed.

(* adjacency of two uniform hats <-> indices differ by one *)
Lemma adjacent1_uniform l i j : i <> j ->
  adjacent1 (uniform_dom l i) (uniform_dom l j) = (Z.abs (j - i) <=? 1)%Z.
Proof.
  intro Hne. unfold adjacent1, uniform_dom; cbn [h_lo h_p h_hi].
  destruct (qc_of_Z_pm1 i) as [Ep Em]. rewrite <- Ep, <- Em.
  destruct (Z.eq_dec j (i + 1)) as [E1|N1].
  - subst j. rewrite Qc_eqb_refl. cbn [orb]. symmetry. apply Z.leb_le. lia.
  - rewrite (node_neq l j (i + 1) N1). cbn [orb].
    destruct (Z.eq_dec j (i - 1)) as [E2|N2].
    + subst j. rewrite Qc_eqb_refl. symmetry. apply Z.leb_le. lia.
    + rewrite (node_neq l j (i - 1) N2). symmetry. apply Z.leb_gt. lia.
Qed.

Lemma pow2z_next l : (0 <= l)%Z -> pow2z (l + 1) = (1 + 1) * pow2z l.
Proof. intro H. replace l with (l + 1 - 1)%Z at 2 by lia. apply pow2z_succ. lia. Qed.

(* ------------------------------------------------------------------ the coded factors are the specification factors *)
Theorem grad_factor_uniform l i j : (0 <= l)%Z ->
  optval (grad_term l i j) = grad1_spec (uniform_dom l i) (uniform_dom l j).
Proof.
  intro Hl. pose proof (pow2z_pos l) as Hs. pose proof (Qc_pos_nz _ Hs) as Hnz.
  unfold grad_term. destruct (i =? j)%Z eqn:E.
  - apply Z.eqb_eq in E. subst j. destruct (grad_term_uniform l i Hl) as [G _].
    unfold grad_term in G. rewrite Z.eqb_refl in G. injection G as G. exact G.
  - apply Z.eqb_neq in E. unfold grad1_spec.
    assert (N : Qc_eqb (h_p (uniform_dom l i)) (h_p (uniform_dom l j)) = false) by (apply node_neq; exact E).
    rewrite N, (adjacent1_uniform l i j E).
    destruct (1 <? Z.abs (j - i))%Z eqn:A.
    + apply Z.ltb_lt in A. assert (B : (Z.abs (j - i) <=? 1)%Z = false) by (apply Z.leb_gt; lia). rewrite B. reflexivity.
    + apply Z.ltb_ge in A. assert (B : (Z.abs (j - i) <=? 1)%Z = true) by (apply Z.leb_le; lia). rewrite B.
      cbn [optval]. unfold uniform_dom; cbn [h_p].
      destruct (Z.eq_dec j (i + 1)) as [E1|N1].
      * subst j. destruct (qc_of_Z_pm1 i) as [Ep _]. rewrite Ep.
        rewrite Qc_abs_neg_eq.
        -- field. split; [exact Hnz|].
           assert (X : forall c one : Qc, one <> 0 -> - (c - (c + one)) <> 0).
           { intros c one Hone E'. apply Hone. rewrite <- E'. ring. }
           apply X. intro E'. apply Qc_eq_Qeq in E'. discriminate.
        -- assert (L := node_lt l i (i + 1) ltac:(lia)). rewrite Ep in L. qc_order.
      * assert (E2 : j = (i - 1)%Z) by lia. subst j. destruct (qc_of_Z_pm1 i) as [_ Em]. rewrite Em.
        rewrite Qc_abs_nonneg_eq.
        -- field. split; [exact Hnz|].
           assert (X : forall c one : Qc, one <> 0 -> c - (c - one) <> 0).
           { intros c one Hone E'. apply Hone. rewrite <- E'. ring. }
           apply X. intro E'. apply Qc_eq_Qeq in E'. discriminate.
        -- assert (L := node_lt l (i - 1) i ltac:(lia)). rewrite Em in L. qc_order.
Qed.

Theorem mass_factor_uniform l i j : (1 <= l)%Z ->
  optval (mass_term l i j) = mass1_spec (uniform_dom l i) (uniform_dom l j).
Proof.
  intro Hl. unfold mass_term, mass1_spec. destruct (i =? j)%Z eqn:E.
  - apply Z.eqb_eq in E. subst j. rewrite Qc_eqb_refl. cbn [orb optval]. apply diag1_is_R1. exact Hl.
  - apply Z.eqb_neq in E.
    assert (N : Qc_eqb (h_p (uniform_dom l i)) (h_p (uniform_dom l j)) = false) by (apply node_neq; exact E).
    rewrite N, (adjacent1_uniform l i j E). cbn [orb].
    destruct (1 <? Z.abs (j - i))%Z eqn:A.
    + apply Z.ltb_lt in A. assert (B : (Z.abs (j - i) <=? 1)%Z = false) by (apply Z.leb_gt; lia). rewrite B. reflexivity.
    + apply Z.ltb_ge in A. assert (B : (Z.abs (j - i) <=? 1)%Z = true) by (apply Z.leb_le; lia). rewrite B.
      cbn [optval].
      destruct (Z.eq_dec j (i + 1)) as [E1|N1].
      * subst j. apply off1_is_R1. exact Hl.
      * assert (E2 : i = (j + 1)%Z) by lia. subst i. rewrite (off1_is_R1 l j Hl).
        apply R1_sym_distinct. apply Qc_eqb_false. apply node_neq. lia.
Qed.

(* ------------------------------------------------------------------ the sum over k of the products *)
Lemma C_prod_cons lk k m l lv i iv j jv :
  optval (C_prod false lk k m (l :: lv) (i :: iv) (j :: jv))
  = optval (if (m =? k)%nat then grad_term l i j else mass_term l i j) * optval (C_prod false lk k (S m) lv iv jv).
Proof.
  cbn [C_prod]. destruct (if (m =? k)%nat then grad_term l i j else mass_term l i j) as [v|]; cbn [optval]; [|ring].
  destruct (C_prod false lk k (S m) lv iv jv) as [w|]; cbn [optval]; ring.
Qed.

(* positions m0, m0+1, ... with k < m0: only mass factors *)
Lemma C_prod_all_mass lk k : forall lv iv jv m0, (k < m0)%nat -> length iv = length lv -> length jv = length lv ->
  Forall (fun l => (1 <= l)%Z) lv ->
  optval (C_prod false lk k m0 lv iv jv) = prodQ (map2 mass1_spec (uhats lv iv) (uhats lv jv)).
Proof.
  induction lv as [|l lv IH]; intros iv jv m0 Hk Hi Hj Hl.
  - destruct iv, jv; try discriminate. reflexivity.
  - destruct iv as [|i iv]; [discriminate|]. destruct jv as [|j jv]; [discriminate|].
    rewrite C_prod_cons. assert (E : (m0 =? k)%nat = false) by (apply Nat.eqb_neq; lia). rewrite E.
    inversion Hl; subst. rewrite (mass_factor_uniform l i j) by assumption.
    rewrite IH by (try assumption; simpl in *; lia). reflexivity.
Qed.

Lemma C_sum_is_dw_terms lkf : forall lv iv jv m0 pre, length iv = length lv -> length jv = length lv ->
  Forall (fun l => (1 <= l)%Z) lv ->
  sumQ (map (fun k => pre * optval (C_prod false (lkf k) k m0 lv iv jv)) (seq m0 (length lv)))
  = dw_terms pre (uhats lv iv) (uhats lv jv).
Proof.
  induction lv as [|l lv IH]; intros iv jv m0 pre Hi Hj Hl.
  - destruct iv, jv; try discriminate. reflexivity.
  - destruct iv as [|i iv]; [discriminate|]. destruct jv as [|j jv]; [discriminate|].
    inversion Hl as [|l' lv' Hl1 Hl2]; subst.
    cbn [length seq map sumQ]. unfold uhats. cbn [map2 dw_terms]. fold (uhats lv iv). fold (uhats lv jv).
    (* k = m0: gradient factor here, mass factors behind *)
    rewrite C_prod_cons, Nat.eqb_refl.
    rewrite (C_prod_all_mass (lkf m0) m0 lv iv jv (S m0)) by (try assumption; simpl in *; lia).
    rewrite (grad_factor_uniform l i j) by lia.
    (* k > m0: mass factor here *)
    assert (R : map (fun k => pre * optval (C_prod false (lkf k) k m0 (l :: lv) (i :: iv) (j :: jv))) (seq (S m0) (length lv))
              = map (fun k => (pre * mass1_spec (uniform_dom l i) (uniform_dom l j)) * optval (C_prod false (lkf k) k (S m0) lv iv jv))
                    (seq (S m0) (length lv))).
    { apply map_ext_in. intros k Hk. apply in_seq in Hk. rewrite C_prod_cons.
      assert (E : (m0 =? k)%nat = false) by (apply Nat.eqb_neq; lia). rewrite E.
      rewrite (mass_factor_uniform l i j) by assumption. ring. }
    rewrite R. rewrite (IH iv jv (S m0)) by (try assumption; simpl in *; lia). ring.
Qed.

(* the entry of build_C_matrix (as repaired) is the gradient Gram entry of the two tensor-product hats *)
Theorem C_uniform_is_gradient_gram lv iv jv :
  length iv = length lv -> length jv = length lv -> Forall (fun l => (1 <= l)%Z) lv ->
  C_val false lv iv jv = C_val_dw_spec (uhats lv iv) (uhats lv jv).
Proof.
  intros Hi Hj Hl. unfold C_val, C_val_dw_spec.
  rewrite <- (C_sum_is_dw_terms (fun k => nth k lv 0%Z) lv iv jv 0 1 Hi Hj Hl).
  f_equal. apply map_ext. intro k. destruct (C_prod false (nth k lv 0%Z) k 0 lv iv jv); cbn [optval]; ring.
Qed.

(* all indices of the grid have the right length, so the whole matrix is the gradient Gram matrix *)
Lemma cross_lengths {T} (ls : list (list T)) : forall t, In t (cross ls) -> length t = length ls.
Proof.
  induction ls as [|l ls IH]; intros t H.
  - destruct H as [H|[]]. subst. reflexivity.
  - cbn [cross] in H. apply in_flat_map in H. destruct H as [a [_ H]]. apply in_map_iff in H. destruct H as [t' [E H]].
    subst t. cbn [length]. rewrite (IH t' H). reflexivity.
Qed.

Lemma sym_matrix_ext {T} (e1 e2 : T -> T -> Qc) lam pts :
  (forall a b, In a pts -> In b pts -> e1 a b = e2 a b) -> sym_matrix e1 lam pts = sym_matrix e2 lam pts.
Proof.
  induction pts as [|t ts IH]; intro H; [reflexivity|]. cbn [sym_matrix].
  rewrite (H t t) by (left; reflexivity).
  assert (M : map (e1 t) ts = map (e2 t) ts).
  { apply map_ext_in. intros b Hb. apply H; [left; reflexivity | right; exact Hb]. }
  rewrite M, IH; [reflexivity|]. intros a b Ha Hb. apply H; right; assumption.
Qed.

Theorem C_matrix_uniform_is_gradient_gram lv : Forall (fun l => (1 <= l)%Z) lv ->
  C_matrix_uniform false lv = sym_matrix (fun iv jv => C_val_dw_spec (uhats lv iv) (uhats lv jv)) 0 (index_list lv).
Proof.
  intro Hl. unfold C_matrix_uniform. apply sym_matrix_ext. intros a b Ha Hb.
  unfold index_list in Ha, Hb. apply cross_lengths in Ha. apply cross_lengths in Hb. rewrite map_length in Ha, Hb.
  apply C_uniform_is_gradient_gram; assumption.
Qed.

(* ------------------------------------------------------------------ design matrix = basis values at the training points *)
Lemma hat_u_nd_is_spec : forall lv iv x, length iv = length lv ->
  hat_u_nd hat_u lv iv x = hat_nd hat_scalar (uhats lv iv) x.
Proof.
  unfold hat_u_nd, hat_nd, uhats. induction lv as [|l lv IH]; intros iv x H.
  - destruct iv; [reflexivity | discriminate].
  - destruct iv as [|i iv]; [discriminate|]. destruct x as [|c x]; [reflexivity|].
    cbn [combine map2 prodQ fst snd]. rewrite hat_u_eq_scalar. rewrite IH by (simpl in H; lia). reflexivity.
Qed.

(* every row of the design matrix, for ANY number of sample rows: the row of sample k holds the values of all basis
   functions (hat_scalar = the piecewise linear hat of the specification) at sample k *)
Theorem design_uniform_rows lv data :
  length (design_uniform lv data) = length data /\
  (forall k x, nth_error data k = Some x ->
     nth_error (design_uniform lv data) k = Some (map (fun iv => hat_nd hat_scalar (uhats lv iv) x) (index_list lv))).
Proof.
  unfold design_uniform. split; [apply map_length|]. intros k x H.
  rewrite (map_nth_error _ _ _ H). f_equal. apply map_ext_in. intros iv Hiv.
  apply hat_u_nd_is_spec. unfold index_list in Hiv. apply cross_lengths in Hiv. rewrite map_length in Hiv. exact Hiv.
Qed.

(* evaluating the samples in blocks and stacking the blocks gives the same matrix: rows are independent *)
Theorem design_uniform_blocks lv d1 d2 : design_uniform lv (d1 ++ d2) = design_uniform lv d1 ++ design_uniform lv d2.
Proof. unfold design_uniform. apply map_app. Qed.
Theorem design_nonuniform_blocks st d1 d2 : design_nonuniform st (d1 ++ d2) = design_nonuniform st d1 ++ design_nonuniform st d2.
Proof. unfold design_nonuniform. apply map_app. Qed.

Theorem design_nonuniform_rows stripes data : Forall (Forall proper) (grid_hats stripes) ->
  length (design_nonuniform stripes data) = length data /\
  (forall k x, nth_error data k = Some x ->
     nth_error (design_nonuniform stripes data) k = Some (map (fun t => hat_nd hat_scalar t x) (grid_hats stripes))).
Proof.
  intro Hp. unfold design_nonuniform. split; [apply map_length|]. intros k x H.
  rewrite (map_nth_error _ _ _ H). f_equal. apply map_ext_in. intros t Ht.
  apply hat_nd_cv_scalar. rewrite Forall_forall in Hp. apply Hp. exact Ht.
Qed.
