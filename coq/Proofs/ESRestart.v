(* C07: histories with restarts (performSpatiallyAdaptiv(..., refinement_container=self.refinement) on the same object).
   A restart is an evaluation over ALL areas; it preserves every invariant of the step/observation histories, so the
   tiling, point-assignment, coarsening and local-combination theorems hold for histories of event2 as well. *)
From Coq Require Import ZArith List Bool QArith Qcanon Lia Permutation.
From SG Require Import Base.QcUtil Model.CombiScheme Model.StdCombi Model.ExtendSplit Model.ESInterp
     Proofs.StdCombiSum Proofs.StdNodal Proofs.ESGeom Proofs.ESInv Proofs.ESTree Proofs.ESCombi Proofs.ESV0 Proofs.ESNodal Proofs.ESDict.
Import ListNotations.
Open Scope Z_scope.

Definition AllGood (d : nat) (a b : list Qc) (lmin v base : Z) (st : state) : Prop :=
  TGood d a b lmin st /\ DI v base st.

Lemma mark_all_new_good d a b lmin st : Good d a b lmin st -> Good d a b lmin (mark_all_new st).
Proof.
  intros [[IP IC IL] [HA R]]. split; [constructor; assumption | split; [exact HA | exact R]].
Qed.

Lemma restart_good d a b lmin st bens : Good d a b lmin st -> Good d a b lmin (restart st bens).
Proof.
  intro G. pose proof (mark_all_new_good d a b lmin st G) as G1. destruct G1 as [HI [HA R]]. unfold restart.
  destruct (evaluate_inv _ bens HI HA) as [I2 [F2 A2]].
  apply (good_frame d a b lmin (mark_all_new st)); [exact F2 | exact I2 | exact A2 | split; [exact HI | split; [exact HA | exact R]]].
Qed.

Lemma restart_tgood d a b lmin st bens : TGood d a b lmin st -> TGood d a b lmin (restart st bens).
Proof.
  intros [G T]. split; [apply restart_good; exact G|]. intro Hs. unfold restart. apply evaluate_tree.
  assert (Hs0 : st_single st = false) by exact Hs.
  destruct (T Hs0) as [TC TL TN TP TR]. constructor; assumption.
Qed.

Lemma restart_DI v b st bens : DI v b st -> DI v b (restart st bens).
Proof. intros [Hv [Hb HF]]. unfold restart. apply evaluate_DI. split; [exact Hv | split; [exact Hb | exact HF]]. Qed.

Lemma apply_event2_good d a b lmin v base st ev : AllGood d a b lmin v base st -> AllGood d a b lmin v base (apply_event2 st ev).
Proof.
  intros [T D]. destruct ev as [[inp|]|bens]; cbn [apply_event2 apply_event].
  - split; [apply step_tgood; exact T | apply step_DI; exact D].
  - split; [apply observe_tgood; exact T | apply observe_DI; exact D].
  - split; [apply restart_tgood; exact T | apply restart_DI; exact D].
Qed.

Lemma run2_good d a b lmin v base hist : forall st, AllGood d a b lmin v base st -> AllGood d a b lmin v base (run_events2 st hist).
Proof.
  unfold run_events2. induction hist as [|ev hist IH]; intros st G; simpl; [exact G|]. apply IH. apply apply_event2_good. exact G.
Qed.

Section History2.
Variables (dim : nat) (version nrbe lmin lmax base : Z) (auto single : bool) (a b : list Qc) (bens0 : list (box * Z)).
Hypotheses (Hbox : wfbox a b) (Hdim : length a = dim) (Hlev : lmin <= lmax).
Let reach2 (hist : list event2) : state :=
  run_events2 (start_state dim version nrbe lmin lmax base auto single a b bens0) hist.

Lemma reach2_good hist : AllGood dim a b lmin version base (reach2 hist).
Proof.
  apply run2_good. split; [apply start_tgood; assumption | apply start_DI].
Qed.

Theorem leaves_tile_domain2 hist : Parts dim (a, b) (map abox (st_objs (reach2 hist))).
Proof.
  destruct (reach2_good hist) as [[[[IP _ _] [HA [E1 [E2 [E3 _]]]]] _] _].
  rewrite (lboxes_alive _ HA), E1, E2, E3 in IP. exact IP.
Qed.

Theorem coarsening_nonneg2 hist x : In x (st_objs (reach2 hist)) -> 0 <= a_coarse x <= st_lmax (reach2 hist) - lmin.
Proof.
  intro Hx. destruct (reach2_good hist) as [[[[_ IC _] [_ [_ [_ [_ E4]]]]] _] _].
  rewrite Forall_forall in IC. specialize (IC x Hx). unfold coarse_ok in IC. rewrite E4 in IC. exact IC.
Qed.

Theorem point_assignment_partition2 hist pts :
  (forall p, In p pts -> length p = dim /\ contains a b p = true) ->
  let st := reach2 hist in
  let res := assign_points (current_tree st) pts in
  (forall p, occ p (assigned res) = occ p pts) /\
  (forall bx ps, In (bx, ps) res -> In bx (map abox (st_objs st)) /\ forall p, In p ps -> inb bx p = true).
Proof.
  intros HP st res.
  destruct (reach2_good hist) as [[[[IP _ _] [HA [E1 [E2 [E3 _]]]]] T] _]. fold st in IP, HA, E1, E2, E3, T.
  rewrite (lboxes_alive _ HA), E1, E2, E3 in IP.
  assert (Key : covered dim (current_tree st) /\ t_box (current_tree st) = (a, b) /\
                (forall bx, In bx (tree_leaves (current_tree st)) -> In bx (map abox (st_objs st)))).
  { unfold current_tree. destruct (st_single st) eqn:Hs.
    - rewrite E2, E3. split; [apply covered_flat; [split; assumption | exact IP] | split; [reflexivity|]].
      assert (Nn : st_objs st <> []).
      { intro En. rewrite En in IP. destruct (pt_cover _ _ _ IP a (wfbox_inbox_start _ _ Hbox)) as [q [[] _]]. }
      rewrite (tree_leaves_flat a b _ Nn). intros bx H; exact H.
    - destruct (T eq_refl) as [TC _ _ TP TR]. rewrite E1 in TC. rewrite E2, E3 in TR. split; [exact TC | split; [exact TR|]].
      intros bx H. rewrite (lboxes_alive _ HA) in TP. eapply Permutation_in; eassumption. }
  destruct Key as [K1 [K2 K3]].
  destruct (assign_points_ok dim (current_tree st) K1 pts) as [A1 A2 A3].
  { intros p Hp. destruct (HP p Hp) as [Lp Cp]. split; [exact Lp | unfold inb; rewrite K2; exact Cp]. }
  split; [exact A1|]. intros bx ps Hin. split; [apply K3; eapply A2; exact Hin|].
  intros p Hp. apply (A3 bx ps p Hin Hp).
Qed.

Lemma reach2_cp hist : st_cp (reach2 hist) = mkCP dim version lmin (st_lmax (reach2 hist)) base.
Proof.
  destruct (reach2_good hist) as [[[_ [_ [E1 [_ [_ E4]]]]] _] [Hv [Hb _]]].
  unfold st_cp. rewrite Hv, Hb, E1, E4. reflexivity.
Qed.

Theorem area_grids_history2 hist x : In x (st_objs (reach2 hist)) ->
  area_grids (st_cp (reach2 hist)) x = local_combi (mkCP dim version lmin (st_lmax (reach2 hist)) base) (a_coarse x).
Proof.
  intro Hx. destruct (reach2_good hist) as [_ [_ [_ HF]]]. rewrite Forall_forall in HF.
  rewrite (area_grids_local_combi _ x (HF x Hx)), reach2_cp. reflexivity.
Qed.
End History2.

(* version 0, d >= 2, every history with restarts: valid local combination on every area *)
Theorem v0_every_area_valid2 n nrbe lmin lmax base auto single a b bens0 hist x :
  wfbox a b -> length a = S (S n) -> lmin <= lmax ->
  let st := run_events2 (start_state (S (S n)) 0 nrbe lmin lmax base auto single a b bens0) hist in
  In x (st_objs st) -> valid_local_combi (S (S n)) (area_grids (st_cp st) x) = true.
Proof.
  intros Hbox Hdim Hlev st Hx. unfold st in *.
  rewrite (area_grids_history2 (S (S n)) 0 nrbe lmin lmax base auto single a b bens0 Hbox Hdim Hlev hist x Hx).
  apply local_combi_v0_valid.
  exact (coarsening_nonneg2 (S (S n)) 0 nrbe lmin lmax base auto single a b bens0 Hbox Hdim Hlev hist x Hx).
Qed.
