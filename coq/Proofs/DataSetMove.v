(* C18 — sample-moving operations of the DataSet model: every one of them keeps the multiset of (sample, label) pairs
   (Permutation over pairs, so labels stay attached), carries the scaling attributes along; rejections leave the data
   untouched.  Also: concatenate never looks at the other set's scaling (refutation of the refusal clause). *)
From Coq Require Import ZArith List QArith Qcanon Bool Lia Arith Permutation Sorting.Sorted.
From SG Require Import Base.QcUtil Model.DataSet.
Import ListNotations.
Local Open Scope nat_scope.

(* the scaling attributes of a data set *)
Definition attrs (d : ds) : bool * rng * fac * option row * option row := (scaled d, srange d, sfactor d, omin d, omax d).

(* ------------------------------------------------------------------ generic list facts *)
Lemma memn_In x l : memn x l = true <-> In x l.
Proof.
  induction l as [|y l IH]; simpl; [split; [discriminate | contradiction]|].
  rewrite orb_true_iff, Nat.eqb_eq, IH. split; intros [H|H]; auto.
Qed.

Lemma map_nth_seq {A} (l : list A) d : map (fun i => nth i l d) (seq 0 (length l)) = l.
Proof.
  induction l as [|x l IH]; simpl; [reflexivity|]. f_equal.
  rewrite <- seq_shift, map_map. exact IH.
Qed.

Lemma NoDup_app_disjoint {A} (a b : list A) : NoDup a -> NoDup b -> (forall x, In x a -> ~ In x b) -> NoDup (a ++ b).
Proof.
  induction a as [|x a IH]; intros Ha Hb Hd; simpl; [exact Hb|].
  inversion Ha; subst. constructor.
  - rewrite in_app_iff. intros [H|H]; [contradiction | apply (Hd x); [left; reflexivity | exact H]].
  - apply IH; auto. intros y Hy. apply Hd. right. exact Hy.
Qed.

Lemma filter_disjoint_perm {A} (p q : A -> bool) l : (forall x, In x l -> p x = true -> q x = false) ->
  Permutation (filter p l ++ filter q l) (filter (fun x => p x || q x) l).
Proof.
  induction l as [|x l IH]; intro H; simpl; [constructor|].
  assert (IH' := IH (fun y Hy => H y (or_intror Hy))).
  destruct (p x) eqn:Px; simpl.
  - rewrite (H x (or_introl eq_refl) Px). constructor. exact IH'.
  - destruct (q x); simpl; [|exact IH'].
    apply Permutation_trans with (x :: filter p l ++ filter q l); [apply Permutation_sym, Permutation_middle | constructor; exact IH'].
Qed.

Lemma filter_true_id {A} (p : A -> bool) l : (forall x, In x l -> p x = true) -> filter p l = l.
Proof.
  induction l as [|x l IH]; intro H; simpl; [reflexivity|].
  rewrite (H x (or_introl eq_refl)). f_equal. apply IH. intros y Hy. apply H. right. exact Hy.
Qed.

Lemma filter_false {A} (l : list A) : filter (fun _ => false) l = [].
Proof. induction l; simpl; auto. Qed.

(* ------------------------------------------------------------------ shuffle *)
Lemma is_perm_permutation perm n : is_perm perm n = true -> Permutation perm (seq 0 n).
Proof.
  unfold is_perm. rewrite andb_true_iff, Nat.eqb_eq, forallb_forall. intros [Hl Hall].
  apply Permutation_sym. apply NoDup_Permutation_bis; [apply seq_NoDup | rewrite seq_length; lia|].
  intros i Hi. apply memn_In. apply Hall. exact Hi.
Qed.

Theorem shuffle_permutation perm d d' : shuffle_with perm d = (d', false) ->
  Permutation (rows d') (rows d) /\ attrs d' = attrs d /\ shuffled d' = true.
Proof.
  unfold shuffle_with. destruct (is_perm perm (length (rows d))) eqn:E; intro H; inversion H; subst; clear H.
  cbn [rows attrs scaled srange sfactor omin omax shuffled]. split; [|split; reflexivity].
  apply Permutation_trans with (map (fun i => nth i (rows d) dflt_sample) (seq 0 (length (rows d)))).
  - apply Permutation_map. apply is_perm_permutation. exact E.
  - rewrite map_nth_seq. apply Permutation_refl.
Qed.

Theorem shuffle_rejected_unmodified perm d d' : shuffle_with perm d = (d', true) -> d' = d.
Proof. unfold shuffle_with. destruct (is_perm perm (length (rows d))); intro H; inversion H; reflexivity. Qed.

(* ------------------------------------------------------------------ move_boundaries_to_front *)
Lemma upd_length {A} i (v : A) l : length (upd i v l) = length l.
Proof. revert i. induction l as [|h t IH]; intros [|i]; simpl; auto. Qed.

Lemma upd_perm {A} (d h : A) x t : x < length t -> Permutation (nth x t d :: upd x h t) (h :: t).
Proof.
  revert x. induction t as [|y t IH]; intros [|x] Hx; simpl in *; try lia.
  - apply perm_swap.
  - apply Permutation_trans with (y :: nth x t d :: upd x h t); [apply perm_swap|].
    apply Permutation_trans with (y :: h :: t); [constructor; apply IH; lia | apply perm_swap].
Qed.

Lemma swap_perm {A} (d : A) i x l : i < length l -> x < length l -> Permutation (swap d i x l) l.
Proof.
  unfold swap. revert i x. induction l as [|h t IH]; intros i x Hi Hx; simpl in *; [lia|].
  destruct i as [|i], x as [|x]; simpl.
  - apply Permutation_refl.
  - apply upd_perm. lia.
  - apply upd_perm. lia.
  - constructor. apply IH; lia.
Qed.

Lemma swap_length {A} (d : A) i x l : length (swap d i x l) = length l.
Proof. unfold swap. rewrite !upd_length. reflexivity. Qed.

Lemma swap_loop_perm {A} (d : A) idx : forall i l, i + length idx <= length l -> Forall (fun x => x < length l) idx ->
  Permutation (swap_loop d i idx l) l.
Proof.
  induction idx as [|x idx IH]; intros i l Hi Hall; simpl; [apply Permutation_refl|].
  inversion Hall; subst. simpl in Hi.
  apply Permutation_trans with (swap d i x l); [|apply swap_perm; lia].
  apply IH; rewrite swap_length; [lia|]. exact H2.
Qed.

Theorem mbf_permutation idx d d' : move_boundaries_to_front idx d = (d', false) ->
  Permutation (rows d') (rows d) /\ attrs d' = attrs d.
Proof.
  unfold move_boundaries_to_front. destruct (idx_valid idx (length (rows d))) eqn:E; intro H; inversion H; subst; clear H.
  split; [|reflexivity]. cbn [set_rows rows].
  unfold idx_valid in E. rewrite andb_true_iff, forallb_forall, Nat.leb_le in E. destruct E as [E1 E2].
  apply swap_loop_perm; [lia|]. rewrite Forall_forall. intros x Hx. apply Nat.ltb_lt. apply E1. exact Hx.
Qed.

(* ------------------------------------------------------------------ split_pieces *)
Theorem split_pieces_cover p d a b : split_pieces p d = (a, b) ->
  rows a ++ rows b = rows d /\ attrs a = attrs d /\ attrs b = attrs d.
Proof.
  unfold split_pieces. intro H. inversion H; subst; clear H. cbn [with_attrs rows attrs scaled srange sfactor omin omax].
  split; [apply firstn_skipn | split; reflexivity].
Qed.

(* ------------------------------------------------------------------ split_without_labels *)
Lemma relabel_filter j (l : list sample) : map (fun s => (fst s, j)) (with_label j l) = with_label j l.
Proof.
  unfold with_label. induction l as [|[r lb] l IH]; simpl; [reflexivity|].
  destruct (Z.eqb lb j) eqn:E; simpl; [|exact IH]. apply Z.eqb_eq in E. subst. f_equal. exact IH.
Qed.

Theorem split_without_labels_cover d a b : split_without_labels d = (a, b) ->
  Forall (fun s => (-1 <= snd s)%Z) (rows d) ->
  Permutation (rows a ++ rows b) (rows d) /\
  Forall (fun s => snd s = (-1)%Z) (rows a) /\ Forall (fun s => (0 <= snd s)%Z) (rows b) /\
  attrs a = attrs d /\ attrs b = attrs d.
Proof.
  unfold split_without_labels. intros H Hl. inversion H; subst; clear H.
  cbn [with_attrs rows attrs scaled srange sfactor omin omax]. rewrite relabel_filter. unfold with_label.
  split; [|split; [|split; [|split; reflexivity]]].
  - eapply Permutation_trans; [apply filter_disjoint_perm|].
    + intros s _ Hs. apply Z.eqb_eq in Hs. apply Z.leb_gt. lia.
    + rewrite filter_true_id; [apply Permutation_refl|]. intros s Hs. rewrite Forall_forall in Hl. specialize (Hl s Hs).
      destruct (Z.eqb (snd s) (-1)) eqn:E; [reflexivity|]. apply Z.eqb_neq in E. simpl. apply Z.leb_le. lia.
  - rewrite Forall_forall. intros s Hs. apply filter_In in Hs. apply Z.eqb_eq. apply Hs.
  - rewrite Forall_forall. intros s Hs. apply filter_In in Hs. apply Z.leb_le. apply Hs.
Qed.

(* ------------------------------------------------------------------ split_labels *)
Lemma insert_label_In x y l : In y (insert_label x l) <-> y = x \/ In y l.
Proof.
  induction l as [|z l IH]; simpl; [intuition|].
  destruct (Z.ltb x z) eqn:E1; simpl; [intuition|].
  destruct (Z.eqb x z) eqn:E2; simpl.
  - apply Z.eqb_eq in E2. subst. intuition.
  - rewrite IH. intuition.
Qed.

Lemma insert_label_sorted x l : StronglySorted Z.lt l -> StronglySorted Z.lt (insert_label x l).
Proof.
  induction 1 as [|z l Hs IH Hz]; simpl; [repeat constructor|].
  destruct (Z.ltb x z) eqn:E1.
  - apply Z.ltb_lt in E1. constructor; [constructor; assumption|]. constructor; [exact E1|].
    eapply Forall_impl; [|exact Hz]. intros w Hw. cbn beta in Hw. lia.
  - destruct (Z.eqb x z) eqn:E2; [constructor; assumption|].
    apply Z.ltb_ge in E1. apply Z.eqb_neq in E2. constructor; [exact IH|].
    rewrite Forall_forall. intros w Hw. apply insert_label_In in Hw. destruct Hw as [->|Hw]; [lia|].
    rewrite Forall_forall in Hz. apply Hz. exact Hw.
Qed.

Lemma distinct_labels_sorted r : StronglySorted Z.lt (distinct_labels r).
Proof. unfold distinct_labels. induction (map snd r) as [|x l IH]; simpl; [constructor | apply insert_label_sorted; exact IH]. Qed.

Lemma distinct_labels_In r j : In j (distinct_labels r) <-> In j (map snd r).
Proof.
  unfold distinct_labels. induction (map snd r) as [|x l IH]; simpl; [reflexivity|].
  rewrite insert_label_In, IH. intuition.
Qed.

Lemma sorted_NoDup l : StronglySorted Z.lt l -> NoDup l.
Proof.
  induction 1 as [|z l Hs IH Hz]; constructor; [|exact IH].
  intro Hin. rewrite Forall_forall in Hz. specialize (Hz z Hin). lia.
Qed.

Lemma group_by_label_perm (ls : list Z) (l : list sample) : NoDup ls ->
  Permutation (flat_map (fun j => with_label j l) ls) (filter (fun s => existsb (Z.eqb (snd s)) ls) l).
Proof.
  induction 1 as [|j ls Hj Hnd IH]; simpl.
  - rewrite filter_false. constructor.
  - eapply Permutation_trans; [apply Permutation_app_head; exact IH|].
    unfold with_label. eapply Permutation_trans; [apply filter_disjoint_perm|apply Permutation_refl].
    intros s _ Hs. apply Z.eqb_eq in Hs. destruct (existsb (Z.eqb (snd s)) ls) eqn:E; [|reflexivity].
    apply existsb_exists in E. destruct E as [k [Hk Ek]]. apply Z.eqb_eq in Ek. subst. contradiction.
Qed.

Lemma flat_map_map {A B C} (g : A -> B) (f : B -> list C) l : flat_map f (map g l) = flat_map (fun x => f (g x)) l.
Proof. induction l as [|x l IH]; simpl; [reflexivity | rewrite IH; reflexivity]. Qed.

Theorem split_labels_cover d :
  Permutation (flat_map rows (split_labels d)) (rows d) /\
  Forall (fun p => attrs p = attrs d) (split_labels d) /\
  Forall (fun p => exists j, Forall (fun s => snd s = j /\ In s (rows d)) (rows p)) (split_labels d).
Proof.
  unfold split_labels. split; [|split].
  - rewrite flat_map_map. cbn [with_attrs rows].
    rewrite (flat_map_ext _ (fun j => with_label j (rows d))) by (intro j; apply relabel_filter).
    eapply Permutation_trans; [apply group_by_label_perm; apply sorted_NoDup; apply distinct_labels_sorted|].
    rewrite filter_true_id; [apply Permutation_refl|]. intros s Hs. apply existsb_exists. exists (snd s).
    split; [apply distinct_labels_In; apply in_map; exact Hs | apply Z.eqb_refl].
  - rewrite Forall_map. rewrite Forall_forall. intros j _. reflexivity.
  - rewrite Forall_map. rewrite Forall_forall. intros j _. exists j. cbn [with_attrs rows]. rewrite relabel_filter.
    rewrite Forall_forall. intros s Hs. unfold with_label in Hs. apply filter_In in Hs. destruct Hs as [Hin He].
    apply Z.eqb_eq in He. auto.
Qed.

(* ------------------------------------------------------------------ remove_samples *)
Lemma existsb_false_forall {A} (f : A -> bool) l : existsb f l = false -> forall x, In x l -> f x = false.
Proof.
  intros H x Hx. destruct (f x) eqn:E; [|reflexivity].
  assert (existsb f l = true) by (apply existsb_exists; exists x; auto). congruence.
Qed.

Lemma idx_accepted_range idx n : idx_rejected idx n = false -> Forall (fun i => (0 <= i < Z.of_nat n)%Z) idx.
Proof.
  unfold idx_rejected. intro H. apply orb_false_iff in H. destruct H as [H1 H2].
  rewrite Forall_forall. intros i Hi.
  pose proof (existsb_false_forall _ _ H1 i Hi) as A1. pose proof (existsb_false_forall _ _ H2 i Hi) as A2.
  cbn beta in A1, A2. apply orb_false_iff in A1. destruct A1 as [A1 A3].
  apply Z.ltb_ge in A1. apply Z.ltb_ge in A3. apply Z.eqb_neq in A2. lia.
Qed.

Lemma NoDup_map_to_nat idx : Forall (fun i => (0 <= i)%Z) idx -> NoDup idx -> NoDup (map Z.to_nat idx).
Proof.
  induction 2 as [|x l Hx Hnd IH]; simpl; [constructor|].
  inversion H; subst. constructor; [|apply IH; assumption].
  intro Hin. apply in_map_iff in Hin. destruct Hin as [y [Ey Hy]].
  rewrite Forall_forall in H3. specialize (H3 y Hy). apply Z2Nat.inj in Ey; try lia. subst. contradiction.
Qed.

Lemma dedup_In x l : In x (dedup l) <-> In x l.
Proof.
  induction l as [|y l IH]; simpl; [reflexivity|].
  rewrite filter_In, IH. destruct (Nat.eq_dec y x) as [->|N].
  - intuition.
  - assert (negb (Nat.eqb x y) = true) by (apply negb_true_iff, Nat.eqb_neq; congruence). intuition.
Qed.

Lemma dedup_NoDup l : NoDup (dedup l).
Proof.
  induction l as [|y l IH]; simpl; constructor.
  - rewrite filter_In. intros [_ H]. rewrite Nat.eqb_refl in H. discriminate.
  - apply NoDup_filter. exact IH.
Qed.

Lemma remove_core {A} (dflt : A) (l : list A) (ni : list nat) : NoDup ni -> Forall (fun i => i < length l) ni ->
  Permutation (map (fun i => nth i l dflt) ni ++
               map (fun i => nth i l dflt) (filter (fun i => negb (memn i ni)) (seq 0 (length l)))) l.
Proof.
  intros Hnd Hlt. rewrite <- map_app.
  apply Permutation_trans with (map (fun i => nth i l dflt) (seq 0 (length l))); [|rewrite map_nth_seq; apply Permutation_refl].
  apply Permutation_map. apply NoDup_Permutation.
  - apply NoDup_app_disjoint; [exact Hnd | apply NoDup_filter, seq_NoDup|].
    intros x Hx Hk. apply filter_In in Hk. destruct Hk as [_ Hk]. apply memn_In in Hx. rewrite Hx in Hk. discriminate.
  - apply seq_NoDup.
  - intro x. rewrite in_app_iff, filter_In, in_seq. rewrite Forall_forall in Hlt. split.
    + intros [H|[H _]]; [specialize (Hlt x H); lia | lia].
    + intro H. destruct (memn x ni) eqn:E; [left; apply memn_In; exact E | right; split; [lia | reflexivity]].
Qed.

Theorem remove_samples_cover v idx d d' r : remove_samples v idx d = (d', Some r) ->
  v_dedup v = true \/ NoDup idx ->
  Permutation (rows r ++ rows d') (rows d) /\ attrs d' = attrs d /\ (idx <> [] -> attrs r = attrs d).
Proof.
  unfold remove_samples. destruct (idx_rejected idx (length (rows d))) eqn:Erej; [discriminate|].
  pose proof (idx_accepted_range _ _ Erej) as Hrange.
  set (ni := if v_dedup v then dedup (map Z.to_nat idx) else map Z.to_nat idx).
  intros H Hv.
  assert (Hlt0 : Forall (fun i => i < length (rows d)) (map Z.to_nat idx)).
  { rewrite Forall_map. eapply Forall_impl; [|exact Hrange]. intros i Hi. cbn beta in *. lia. }
  assert (Hnd : NoDup ni).
  { unfold ni. destruct (v_dedup v) eqn:Ev; [apply dedup_NoDup|]. destruct Hv as [Hv|Hv]; [discriminate|].
    apply NoDup_map_to_nat; [|exact Hv]. eapply Forall_impl; [|exact Hrange]. intros i Hi. cbn beta in *. lia. }
  assert (Hlt : Forall (fun i => i < length (rows d)) ni).
  { unfold ni. destruct (v_dedup v); [|exact Hlt0]. rewrite Forall_forall in *. intros x Hx. apply Hlt0. apply dedup_In. exact Hx. }
  assert (Hne : idx <> [] -> ni <> []).
  { intros Hi E. unfold ni in E. destruct idx as [|i idx]; [contradiction|]. destruct (v_dedup v); simpl in E; discriminate. }
  assert (Hr : rows r = map (fun i => nth i (rows d) dflt_sample) ni /\ (ni <> [] -> attrs r = attrs d)).
  { inversion H as [[H1 H2]]. destruct ni as [|i1 [|i2 ni']].
    - inversion H2. split; [reflexivity | intro C; contradiction].
    - inversion H2. split; [reflexivity | intros _; reflexivity].
    - destruct (self_scaling_ok v d); [|discriminate]. inversion H2. split; [reflexivity | intros _; reflexivity]. }
  destruct Hr as [Hr Hra]. inversion H as [[H1 H2]]. rewrite Hr. cbn [set_rows rows].
  split; [apply remove_core; assumption|]. split; [reflexivity|]. intro Hi. apply Hra. apply Hne. exact Hi.
Qed.

Theorem remove_out_of_range_rejected v idx d :
  (exists i, In i idx /\ (i < 0 \/ Z.of_nat (length (rows d)) <= i)%Z) -> remove_samples v idx d = (d, None).
Proof.
  intros [i [Hi Hb]]. unfold remove_samples.
  assert (idx_rejected idx (length (rows d)) = true) as ->; [|reflexivity].
  unfold idx_rejected. apply orb_true_iff.
  destruct (Z.eq_dec i (Z.of_nat (length (rows d)))) as [E|N].
  - right. apply existsb_exists. exists i. split; [exact Hi | apply Z.eqb_eq; exact E].
  - left. apply existsb_exists. exists i. split; [exact Hi|]. apply orb_true_iff.
    destruct Hb as [Hb|Hb]; [left; apply Z.ltb_lt; lia | right; apply Z.ltb_lt; lia].
Qed.

(* ------------------------------------------------------------------ concatenate *)
Theorem concatenate_cover v a b r : concatenate v a b = CNew r -> rows r = rows a ++ rows b /\ attrs r = attrs a.
Proof.
  unfold concatenate. destruct (Nat.eqb (dim a) (dim b)).
  - destruct (xorb (flat1 a) (flat1 b)); [discriminate|]. destruct (update_internal_raises a); [discriminate|].
    destruct (self_scaling_ok v a); [|discriminate].
    intro H. inversion H; subst. split; reflexivity.
  - destruct (is_empty b); [discriminate|]. destruct (is_empty a); discriminate.
Qed.

(* the outcome of concatenate does not depend on any scaling attribute of the other data set *)
Theorem concatenate_ignores_other_scaling v a b b' :
  rows b = rows b' -> ddim b = ddim b' -> flat b = flat b' -> concatenate v a b = concatenate v a b'.
Proof.
  intros Hr Hd Hf. unfold concatenate, dim, flat1, is_empty. rewrite Hr, Hd, Hf. reflexivity.
Qed.
