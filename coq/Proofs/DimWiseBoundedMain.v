(* C04: the bounded history invariant (from the vm_compute enumeration Proofs/DimWiseBounded12.v) *)
From Coq Require Import ZArith List Bool QArith Qcanon.
From SG Require Import Model.DimWise Model.DimWiseExact Model.DimWiseFast Proofs.DimWiseBounded Proofs.DimWiseBounded12.
Import ListNotations.

Theorem dw_norebalance_keeps_bounded : forall v bd lmin lmax n,
  In (v, bd, lmin, lmax, n) bounded_cases ->
  forall st0 path st, dw_init 2 lmin lmax unit_a unit_b = Some st0 -> (length path <= n)%nat ->
    run_path (b_opts v bd) path st0 = Some st ->
    forall j i, In (j, i) (initial_hats (st_dim st) lmin lmax bd) ->
      dw_combi_integral (b_opts v bd) false st unit_a unit_b (hat_list unit_a unit_b j i) = Some (hat_exact unit_a unit_b j i).
Proof.
  intros v bd lmin lmax n Hc. apply explore_from_sound.
  pose proof explore_bounded_cases as H. rewrite forallb_forall in H. specialize (H _ Hc). unfold case_ok in H.
  destruct (explore_from (b_opts v bd) lmin lmax n) as [[|]|]; [reflexivity | discriminate | discriminate].
Qed.
