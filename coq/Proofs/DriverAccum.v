(* C14 over the bookkeeping model of C05 (Model/Accum.v): evaluate_operation is idempotent BY CONSTRUCTION
   - extend-split / cell (area operations): evaluate_operation evaluates the objects marked new and - since repair 0b63da8 - clears
     the marker (evaluate_new true); a second evaluation finds no new object and adds nothing;
   - dimension-wise: every evaluation resets both accumulators and recomputes them from the component contributions of the current
     refinement (evaluate_dw);
   so the resume theorems of C14 hold WITHOUT hypothesis for every driver whose state is (refinement structure, accumulator state),
   whatever the refinement structure, its refine step, the component contributions and the observation are. *)
From Coq Require Import ZArith List Bool QArith Qcanon Lia.
From SG Require Import Base.QcUtil Model.Accum Model.Driver Proofs.DriverProofs Proofs.DriverSpec Proofs.DriverLegs Proofs.DriverCheckpoint.
Import ListNotations.
Open Scope Z_scope.

Section AccumIdem.
  Variable V : Type.
  Variable vzero : V.
  Variable vadd : V -> V -> V.
  Variable vopp : V -> V.

  Notation astate := (astate V).
  Notation evaluate_new := (evaluate_new V vzero vadd vopp).
  Notation evaluate_dw := (evaluate_dw V vzero vadd vopp).
  Notation apply_events := (apply_events V vzero vadd vopp).
  Notation refine_step := (refine_step V vzero vadd vopp).

  Lemma astate_eta (s : astate) : mkA (st_areas s) (st_new s) (st_total s) (st_cont s) = s.
  Proof. destruct s; reflexivity. Qed.

  (* evaluation of a state without new objects adds nothing *)
  Lemma evaluate_nothing_new parts (s : astate) : st_new s = [] -> evaluate_new true parts s = s.
  Proof.
    intro H. unfold Accum.evaluate_new. rewrite H. cbn [map flat_map Accum.apply_events fold_left].
    rewrite <- H. apply astate_eta.
  Qed.

  Lemma evaluate_new_clears parts (s : astate) : st_new (evaluate_new true parts s) = [].
  Proof. reflexivity. Qed.

  Theorem evaluate_new_idempotent parts (s : astate) :
    evaluate_new true parts (evaluate_new true parts s) = evaluate_new true parts s.
  Proof. apply evaluate_nothing_new. apply evaluate_new_clears. Qed.

  (* as it was before the repair (marker not cleared) a second evaluation adds the new areas again: see C14_resume_without_idempotence_refuted *)

  (* dimension-wise: the accumulators after an evaluation do not depend on the accumulators before *)
  Lemma apply_evaldw xs : forall a n t c,
    apply_events (map AEvalDW xs) (mkA a n t c) =
      mkA a n (fold_left vadd xs t) (fold_left vadd xs c).
  Proof.
    induction xs as [|x r IH]; intros a n t c; cbn [map Accum.apply_events fold_left]; [reflexivity|].
    cbn [Accum.apply_event st_areas st_new st_total st_cont]. apply IH.
  Qed.

  Lemma evaluate_dw_char xs (s : astate) :
    evaluate_dw xs s = mkA (st_areas s) (st_new s) (fold_left vadd xs vzero) (fold_left vadd xs vzero).
  Proof.
    unfold Accum.evaluate_dw. cbn [Accum.apply_events fold_left Accum.apply_event]. apply apply_evaldw.
  Qed.

  Theorem evaluate_dw_idempotent xs (s : astate) : evaluate_dw xs (evaluate_dw xs s) = evaluate_dw xs s.
  Proof. rewrite !evaluate_dw_char. reflexivity. Qed.

  (* ------------------------------------------------------------------ the drivers over (refinement structure, accumulators) *)
  Variable Rf : Type.                                   (* refinement structure (areas / trees, error indicators, scheme) *)
  Variable parts : Rf -> Z -> list V.                   (* contributions of the component grids per area, a function of the structure *)
  Variable contribs : Rf -> list V.                     (* dimension-wise: contributions of the component grids *)
  Variable next : Rf * astate -> Rf.                    (* what refine() makes of the structure *)
  Variable removed added : Rf * astate -> list Z.       (* objects replaced / created by refine() *)
  Variable observe : Rf * astate -> obs.                (* error and point count the stopping rule looks at *)

  Definition es_evaluate (x : Rf * astate) : Rf * astate := (fst x, evaluate_new true (parts (fst x)) (snd x)).
  Definition es_refine (x : Rf * astate) : Rf * astate := (next x, refine_step (removed x) (added x) (snd x)).
  Definition dw_evaluate (x : Rf * astate) : Rf * astate := (fst x, evaluate_dw (contribs (fst x)) (snd x)).
  Definition dw_refine (x : Rf * astate) : Rf * astate := (next x, snd x).

  Lemma es_evaluate_idempotent x : es_evaluate (es_evaluate x) = es_evaluate x.
  Proof. unfold es_evaluate. cbn [fst snd]. rewrite evaluate_new_idempotent. reflexivity. Qed.
  Lemma dw_evaluate_idempotent x : dw_evaluate (dw_evaluate x) = dw_evaluate x.
  Proof. unfold dw_evaluate. cbn [fst snd]. rewrite evaluate_dw_idempotent. reflexivity. Qed.

  (* UNCONDITIONAL resume theorems for the modelled bookkeeping *)
  Theorem es_resume_equals_uninterrupted l1 l2 n m s s1 s2 :
    limits_grow l1 l2 ->
    run _ es_evaluate es_refine observe l1 n s = Some s1 -> run _ es_evaluate es_refine observe l2 m s1 = Some s2 ->
    exists k, (k <= n + m)%nat /\ run _ es_evaluate es_refine observe l2 k s = Some s2.
  Proof. apply (resume_equals_uninterrupted _ es_evaluate es_refine observe es_evaluate_idempotent). Qed.

  Theorem dw_resume_equals_uninterrupted l1 l2 n m s s1 s2 :
    limits_grow l1 l2 ->
    run _ dw_evaluate dw_refine observe l1 n s = Some s1 -> run _ dw_evaluate dw_refine observe l2 m s1 = Some s2 ->
    exists k, (k <= n + m)%nat /\ run _ dw_evaluate dw_refine observe l2 k s = Some s2.
  Proof. apply (resume_equals_uninterrupted _ dw_evaluate dw_refine observe dw_evaluate_idempotent). Qed.

  Theorem es_legs_grow_end_where_single_run_ends legs lf s d s' d' :
    legs <> [] -> last (map fst legs) lf = lf -> all_growb (map fst legs) lf = true ->
    run_legs _ es_evaluate es_refine observe legs s d = Some (s', d') ->
    run _ es_evaluate es_refine observe lf (legs_fuel legs) s = Some s'.
  Proof. apply (legs_grow_end_where_single_run_ends _ es_evaluate es_refine observe es_evaluate_idempotent). Qed.

  Theorem dw_legs_grow_end_where_single_run_ends legs lf s d s' d' :
    legs <> [] -> last (map fst legs) lf = lf -> all_growb (map fst legs) lf = true ->
    run_legs _ dw_evaluate dw_refine observe legs s d = Some (s', d') ->
    run _ dw_evaluate dw_refine observe lf (legs_fuel legs) s = Some s'.
  Proof. apply (legs_grow_end_where_single_run_ends _ dw_evaluate dw_refine observe dw_evaluate_idempotent). Qed.

  Theorem es_legs_follow_trajectory legs s d s' d' N :
    legs <> [] -> run_legs _ es_evaluate es_refine observe legs s d = Some (s', d') -> (legs_fuel legs <= N)%nat ->
    exists p, legs_on_stream (map fst legs) (traj _ es_evaluate es_refine observe N s) d = Some (p, d') /\
              s' = state_at _ es_evaluate es_refine p s.
  Proof. apply (legs_follow_trajectory _ es_evaluate es_refine observe es_evaluate_idempotent). Qed.

  Theorem dw_legs_follow_trajectory legs s d s' d' N :
    legs <> [] -> run_legs _ dw_evaluate dw_refine observe legs s d = Some (s', d') -> (legs_fuel legs <= N)%nat ->
    exists p, legs_on_stream (map fst legs) (traj _ dw_evaluate dw_refine observe N s) d = Some (p, d') /\
              s' = state_at _ dw_evaluate dw_refine p s.
  Proof. apply (legs_follow_trajectory _ dw_evaluate dw_refine observe dw_evaluate_idempotent). Qed.
End AccumIdem.
