(* The structural invariant of a 1D refinement tree (Seg) and its preservation by splitting intervals in place. *)
From Coq Require Import ZArith List Bool QArith Qcanon Arith Lia Sorted Permutation.
From SG Require Import Base.QcUtil Model.RefTree.
Import ListNotations.
Open Scope Z_scope.
Local Arguments Z.add : simpl never.
Local Arguments Z.max : simpl never.

(* Seg x y u w T : the interval list T tiles [x,y] in ascending order between a left point of level u and a right
   point of level w, adjacent intervals agree on their shared point, and the levels form a binary refinement tree:
   either T is the single interval (x,y) or it splits at a point of level max(u,w)+1. *)
Inductive Seg : Qc -> Qc -> Z -> Z -> list ival -> Prop :=
| Seg_leaf (x y : Qc) (u w c : Z) : (x < y)%Qc -> Seg x y u w [mkIval x y u w c]
| Seg_node (x y z : Qc) (u w : Z) (T1 T2 : list ival) :
    Seg x z u (Z.max u w + 1) T1 -> Seg z y (Z.max u w + 1) w T2 -> Seg x y u w (T1 ++ T2).

Definition coarse_ok (lmax_d : Z) (iv : ival) : Prop :=
  i_coarse iv = lmax_d - ival_maxlev iv /\ 0 <= i_coarse iv.

Definition TreeInv (a b : Qc) (lmax_d : Z) (t : list ival) : Prop :=
  Seg a b 0 0 t /\ Forall (coarse_ok lmax_d) t.

(* in-place replacement of the selected intervals by their two children *)
Definition repl (sel : list bool) (t : list ival) : list ival :=
  flat_map (fun p : ival * bool => if snd p then children (fst p) else [fst p]) (combine t sel).

Lemma mid_between x y : (x < y)%Qc -> (x < mid_point x y)%Qc /\ (mid_point x y < y)%Qc.
Proof. intro H. unfold mid_point. split; qc_order. Qed.

Lemma Seg_nonempty x y u w T : Seg x y u w T -> T <> [].
Proof.
  induction 1 as [x y u w c H|x y z u w T1 T2 H1 IH1 H2 IH2]; [discriminate|].
  intro E. apply app_eq_nil in E. destruct E as [E _]. contradiction.
Qed.

Lemma Seg_lt x y u w T : Seg x y u w T -> (x < y)%Qc.
Proof.
  induction 1 as [x y u w c H|x y z u w T1 T2 H1 IH1 H2 IH2]; [assumption|].
  qc_order.
Qed.

Lemma repl_app sel1 sel2 t1 t2 : length sel1 = length t1 ->
  repl (sel1 ++ sel2) (t1 ++ t2) = repl sel1 t1 ++ repl sel2 t2.
Proof.
  intro L. unfold repl.
  assert (E : combine (t1 ++ t2) (sel1 ++ sel2) = combine t1 sel1 ++ combine t2 sel2).
  { revert sel1 L. induction t1 as [|a t1 IH]; intros [|s sel1] L; simpl in *; try discriminate; [reflexivity|].
    rewrite IH by lia. reflexivity. }
  rewrite E, flat_map_app. reflexivity.
Qed.

(* splitting any subset of the intervals in place preserves the structure *)
Lemma Seg_repl x y u w T : Seg x y u w T -> forall sel, length sel = length T -> Seg x y u w (repl sel T).
Proof.
  induction 1 as [x y u w c H|x y z u w T1 T2 H1 IH1 H2 IH2]; intros sel L.
  - destruct sel as [|s [|s' sel]]; simpl in L; try discriminate.
    destruct s; unfold repl; simpl.
    + unfold children, refine_obj; simpl. unfold ival_maxlev; simpl.
      destruct (mid_between x y H) as [Ha Hb].
      change [ {| i_start := x; i_end := mid_point x y; i_l0 := u; i_l1 := Z.max u w + 1; i_coarse := if c =? 0 then 0 else c - 1 |};
               {| i_start := mid_point x y; i_end := y; i_l0 := Z.max u w + 1; i_l1 := w; i_coarse := if c =? 0 then 0 else c - 1 |} ]
        with ([ {| i_start := x; i_end := mid_point x y; i_l0 := u; i_l1 := Z.max u w + 1; i_coarse := if c =? 0 then 0 else c - 1 |} ] ++
              [ {| i_start := mid_point x y; i_end := y; i_l0 := Z.max u w + 1; i_l1 := w; i_coarse := if c =? 0 then 0 else c - 1 |} ]).
      apply Seg_node with (z := mid_point x y); apply Seg_leaf; assumption.
    + apply Seg_leaf; assumption.
  - rewrite app_length in L.
    rewrite <- (firstn_skipn (length T1) sel).
    assert (L1 : length (firstn (length T1) sel) = length T1) by (rewrite firstn_length; lia).
    assert (L2 : length (skipn (length T1) sel) = length T2) by (rewrite skipn_length; lia).
    rewrite repl_app by assumption.
    apply Seg_node with (z := z); [apply IH1 | apply IH2]; assumption.
Qed.

(* ---------------------------------------------------------------------------------------------- *)
(* consequences of Seg: chain (tiling in ascending order + level agreement + end levels) *)
Fixpoint Chain (x : Qc) (u : Z) (t : list ival) (y : Qc) (w : Z) : Prop :=
  match t with
  | [] => x = y /\ u = w
  | iv :: r => i_start iv = x /\ i_l0 iv = u /\ (i_start iv < i_end iv)%Qc /\ Chain (i_end iv) (i_l1 iv) r y w
  end.

Lemma Chain_app x u t1 z m t2 y w : Chain x u t1 z m -> Chain z m t2 y w -> Chain x u (t1 ++ t2) y w.
Proof.
  revert x u. induction t1 as [|iv t1 IH]; intros x u H1 H2; simpl in *.
  - destruct H1 as [-> ->]. assumption.
  - destruct H1 as (A & B & C & D). repeat split; try assumption. apply IH; assumption.
Qed.

Lemma Seg_Chain x y u w T : Seg x y u w T -> Chain x u T y w.
Proof.
  induction 1 as [x y u w c H|x y z u w T1 T2 H1 IH1 H2 IH2]; simpl.
  - repeat split; assumption.
  - eapply Chain_app; eassumption.
Qed.

(* starts strictly increasing, everything inside [x,y] *)
Lemma Chain_bounds x u t y w : Chain x u t y w ->
  (x <= y)%Qc /\ Forall (fun iv => (x <= i_start iv)%Qc /\ (i_end iv <= y)%Qc) t.
Proof.
  revert x u. induction t as [|iv t IH]; intros x u H; simpl in *.
  - destruct H as [-> _]. split; [apply Qcle_refl | constructor].
  - destruct H as (A & B & C & D). destruct (IH _ _ D) as [E F]. split.
    + subst x. apply Qclt_le_weak in C. eapply Qcle_trans; eassumption.
    + constructor.
      * split; [subst x; apply Qcle_refl | assumption].
      * eapply Forall_impl; [|exact F]. intros iv' [G I]. split; [|assumption].
        subst x. apply Qclt_le_weak in C. eapply Qcle_trans; eassumption.
Qed.

Lemma Chain_sorted x u t y w : Chain x u t y w -> StronglySorted (fun p q => (i_start p < i_start q)%Qc) t.
Proof.
  revert x u. induction t as [|iv t IH]; intros x u H; simpl in *; [constructor|].
  destruct H as (A & B & C & D). constructor; [eapply IH; eassumption|].
  destruct (Chain_bounds _ _ _ _ _ D) as [_ F].
  eapply Forall_impl; [|exact F]. intros q [G _]. eapply Qclt_le_trans; eassumption.
Qed.

Lemma Seg_sorted x y u w T : Seg x y u w T -> StronglySorted (fun p q => (i_start p < i_start q)%Qc) T.
Proof. intro H. eapply Chain_sorted. apply Seg_Chain. eassumption. Qed.

(* ---------------------------------------------------------------------------------------------- *)
(* the initial tree *)
Lemma init_lengths n : forall lv a b, length (init_points n a b) = length (init_levels n lv).
Proof.
  induction n as [|n IH]; intros lv a b; simpl; [reflexivity|].
  rewrite !app_length. simpl. rewrite (IH (lv + 1) a (mid_point a b)), (IH (lv + 1) (mid_point a b) b). reflexivity.
Qed.

Lemma mk_intervals_app p0 l0 ps1 p l ps2 :
  mk_intervals p0 l0 (ps1 ++ (p, l) :: ps2) = mk_intervals p0 l0 (ps1 ++ [(p, l)]) ++ mk_intervals p l ps2.
Proof.
  revert p0 l0. induction ps1 as [|[q k] ps1 IH]; intros p0 l0; simpl; [reflexivity|].
  rewrite IH. reflexivity.
Qed.

Lemma combine_app_eq {A B} (a1 a2 : list A) (b1 b2 : list B) : length a1 = length b1 ->
  combine (a1 ++ a2) (b1 ++ b2) = combine a1 b1 ++ combine a2 b2.
Proof.
  revert b1. induction a1 as [|x a1 IH]; intros [|y b1] L; simpl in *; try discriminate; [reflexivity|].
  rewrite IH by lia. reflexivity.
Qed.

Lemma init_seg n : forall a b u w lv, (a < b)%Qc -> Z.max u w = lv ->
  Seg a b u w (mk_intervals a u (combine (init_points n a b ++ [b]) (init_levels n lv ++ [w]))).
Proof.
  induction n as [|n IH]; intros a b u w lv Hab Hm; simpl.
  - apply Seg_leaf. assumption.
  - destruct (mid_between a b Hab) as [Ha Hb].
    rewrite <- !app_assoc. simpl.
    rewrite combine_app_eq by apply init_lengths. simpl.
    rewrite mk_intervals_app.
    apply Seg_node with (z := mid_point a b).
    + change [(mid_point a b, lv + 1)] with (combine [mid_point a b] [lv + 1]).
      rewrite <- combine_app_eq by apply init_lengths. rewrite Hm.
      apply IH; [assumption | lia].
    + rewrite Hm. apply IH; [assumption | lia].
Qed.

Lemma init_tree_Seg n a b : (a < b)%Qc -> Seg a b 0 0 (init_tree n a b).
Proof. intro H. unfold init_tree. apply init_seg; [assumption | reflexivity]. Qed.

(* every initial interval has an end point of the deepest level and coarsening level 0 *)
Lemma init_maxlev n : forall a b u w lv, Z.max u w = lv ->
  Forall (fun iv => ival_maxlev iv = lv + Z.of_nat n /\ i_coarse iv = 0)
         (mk_intervals a u (combine (init_points n a b ++ [b]) (init_levels n lv ++ [w]))).
Proof.
  induction n as [|n IH]; intros a b u w lv Hm.
  - simpl. constructor; [|constructor]. unfold ival_maxlev. simpl. split; [lia | reflexivity].
  - cbn [init_points init_levels]. rewrite <- !app_assoc. cbn [app].
    rewrite combine_app_eq by apply init_lengths. cbn [combine].
    rewrite mk_intervals_app. apply Forall_app. split.
    + change [(mid_point a b, lv + 1)] with (combine [mid_point a b] [lv + 1]).
      rewrite <- combine_app_eq by apply init_lengths.
      eapply Forall_impl; [|apply (IH a (mid_point a b) u (lv + 1) (lv + 1)); lia].
      intros iv [A B]. split; [lia | assumption].
    + eapply Forall_impl; [|apply (IH (mid_point a b) b (lv + 1) w (lv + 1)); lia].
      intros iv [A B]. split; [lia | assumption].
Qed.

Lemma init_tree_TreeInv n a b : (a < b)%Qc -> TreeInv a b (Z.of_nat n) (init_tree n a b).
Proof.
  intro H. split; [apply init_tree_Seg; assumption|].
  eapply Forall_impl; [|apply (init_maxlev n a b 0 0 0); reflexivity].
  intros iv [A B]. unfold coarse_ok. split; lia.
Qed.
