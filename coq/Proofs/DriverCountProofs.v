(* C13: reported point count = number of distinct integrand evaluations, for every history of evaluations and restarts, over the
   cache machine of C12; composed with the driver's history arrays. *)
From Coq Require Import ZArith List Bool QArith Qcanon Lia.
From SG Require Import Base.QcUtil Model.FunCache Proofs.FunCacheProofs Model.Driver Model.DriverCount Proofs.DriverProofs.
Import ListNotations.

Lemma through_cache_no_deact calls : through_cache calls = true -> no_deact calls = true.
Proof.
  unfold through_cache, no_deact. intro H. rewrite forallb_forall in *. intros o Ho. specialize (H o Ho). destruct o; try discriminate; reflexivity.
Qed.

Lemma requested_touched calls : forall acc, through_cache calls = true -> requested acc calls = touched acc calls.
Proof.
  induction calls as [|o r IH]; intros acc H; [reflexivity|].
  cbn in H. apply andb_true_iff in H. destruct H as [H1 H2]. destruct o; try discriminate; cbn; apply IH; exact H2.
Qed.

Lemma add_point_length p s : (length s <= length (add_point p s))%nat.
Proof. unfold add_point. destruct (mem p s); [apply Nat.le_refl|rewrite app_length; cbn [length]; lia]. Qed.

Lemma add_points_length ps : forall s, (length s <= length (FunCache.add_points ps s))%nat.
Proof.
  unfold FunCache.add_points. induction ps as [|p r IH]; intro s; cbn [fold_left]; [apply Nat.le_refl|].
  eapply Nat.le_trans; [apply (add_point_length p s)|apply IH].
Qed.

Lemma touched_app calls : forall acc, exists more, touched acc calls = acc ++ more.
Proof.
  induction calls as [|o r IH]; intro acc; cbn [touched]; [exists []; rewrite app_nil_r; reflexivity|].
  destruct o as [p|ps|ps| | |]; try apply IH.
  - destruct (IH (acc ++ [p])) as [m Hm]. exists ([p] ++ m). rewrite Hm, app_assoc. reflexivity.
  - destruct (IH (acc ++ ps)) as [m Hm]. exists (ps ++ m). rewrite Hm, app_assoc. reflexivity.
  - destruct (IH (acc ++ ps)) as [m Hm]. exists (ps ++ m). rewrite Hm, app_assoc. reflexivity.
Qed.

Lemma distinct_length_mono acc more : (length (distinct acc) <= length (distinct (acc ++ more)))%nat.
Proof. rewrite <- distinct_app. apply add_points_length. Qed.

Section CountProofs.
  Variable eval : point -> value.
  Variable olen : nat.
  Hypothesis eval_len : forall p, length (eval p) = olen.

  Notation reported := (reported eval olen).

  Lemma R_reset vr st on cnt : R eval st on cnt -> R eval (fst (step eval olen vr st OReset)) on [].
  Proof. intro H. apply (proj2 (step_refines eval olen eval_len vr st on cnt OReset H)). Qed.

  (* MAIN: whatever the evaluations call and however often the computation is restarted, as long as every integrand evaluation goes
     through the cache and a restart leaves the cache alone, the count reported after every evaluation is the number of distinct
     points the integrand has been evaluated at since performSpatiallyAdaptiv (both variants of the cache code) *)
  Theorem reported_is_distinct_evaluations vr h : forall st acc,
    wf_history h = true -> R eval st true (distinct acc) ->
    reported vr st h = evaluated_counts acc h.
  Proof.
    induction h as [|e r IH]; intros st acc Hwf HR; [reflexivity|].
    destruct e as [|calls|b]; cbn [wf_history] in Hwf; cbn [DriverCount.reported evaluated_counts].
    - apply (IH _ []); [exact Hwf|]. change (distinct []) with (@nil point). apply (R_reset vr st true _ HR).
    - apply andb_true_iff in Hwf. destruct Hwf as [Hc Hr].
      pose proof (final_refines eval olen eval_len vr calls st true (distinct acc) HR) as HF.
      rewrite (spec_final_requested calls acc (through_cache_no_deact calls Hc)) in HF. cbn [fst snd] in HF.
      rewrite (requested_touched calls acc Hc) in HF.
      f_equal.
      + destruct HF as (_ & Hk & _). rewrite <- Hk. unfold keys. rewrite map_length. reflexivity.
      + apply IH; assumption.
    - apply andb_true_iff in Hwf. destruct Hwf as [Hb Hr]. destruct b; [discriminate|]. apply IH; assumption.
  Qed.

  Corollary reported_is_distinct_evaluations_from_perform vr st h :
    wf_history h = true -> cache st = true -> reported vr st (DvPerform :: h) = evaluated_counts [] (DvPerform :: h).
  Proof.
    intros Hwf Hc. cbn [DriverCount.reported evaluated_counts]. apply (reported_is_distinct_evaluations vr h _ []); [exact Hwf|].
    cbn [step fst]. unfold R. rewrite Hc. cbn. repeat split; intros q w [].
  Qed.
End CountProofs.

(* point counts never decrease between two performSpatiallyAdaptiv - across evaluations AND restarts *)
Inductive nondec : list nat -> Prop :=
| nondec_nil : nondec []
| nondec_one x : nondec [x]
| nondec_cons x y r : (x <= y)%nat -> nondec (y :: r) -> nondec (x :: y :: r).

Fixpoint no_perform (h : list dev) : bool :=
  match h with [] => true | DvPerform :: _ => false | _ :: r => no_perform r end.

Lemma evaluated_counts_lower h : forall acc x r, no_perform h = true ->
  evaluated_counts acc h = x :: r -> (length (distinct acc) <= x)%nat.
Proof.
  induction h as [|e h IH]; intros acc x r Hn H; [discriminate|].
  destruct e as [|calls|b]; cbn in Hn; [discriminate| |].
  - cbn in H. injection H as <- _. destruct (touched_app calls acc) as [m ->]. apply distinct_length_mono.
  - cbn in H. apply (IH acc x r Hn H).
Qed.

Theorem evaluated_counts_nondecreasing h : forall acc, no_perform h = true -> nondec (evaluated_counts acc h).
Proof.
  induction h as [|e h IH]; intros acc Hn; [constructor|].
  destruct e as [|calls|b]; cbn in Hn; [discriminate| |]; cbn [evaluated_counts]; [|apply IH; exact Hn].
  specialize (IH (touched acc calls) Hn).
  destruct (evaluated_counts (touched acc calls) h) as [|y r] eqn:E; [constructor|].
  constructor; [|exact IH]. apply (evaluated_counts_lower h _ y r Hn E).
Qed.

(* composed with the driver: if the point counts the stopping rule sees are the cache sizes of a well-formed evaluation history,
   the returned num_point_array holds, entry by entry, the numbers of distinct integrand evaluations *)
Theorem driver_point_array_is_distinct_evaluations eval olen (eval_len : forall p, length (eval p) = olen) vr lim os s' h :
  perform lim os = (s', true) -> wf_history h = true ->
  map o_pts os = map Z.of_nat (reported eval olen vr init (DvPerform :: h)) ->
  exists k, (k < length os)%nat /\ d_pts s' = map Z.of_nat (firstn (S k) (evaluated_counts [] (DvPerform :: h))).
Proof.
  intros Hp Hwf Hm. destruct (history_is_observation_prefix lim os s' Hp) as [k [Hk [_ [_ [Hpts _]]]]].
  exists k. split; [exact Hk|]. rewrite Hpts, <- firstn_map, Hm, firstn_map.
  rewrite (reported_is_distinct_evaluations_from_perform eval olen eval_len vr init h Hwf eq_refl). reflexivity.
Qed.
