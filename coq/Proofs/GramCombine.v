(* C16: the combined density.  StandardCombi.__call__ / SpatiallyAdaptivBase.__call__ start from zeros and add, grid by grid,
   interpolant * coefficient.  That accumulation IS the coefficient-weighted sum combine_uniform / combine_nonuniform of
   Model/GramSolve.v, for every scheme; for every scheme that satisfies the C01 invariant (coefficients of the adaptive
   inclusion-exclusion scheme of a state with Inv) the coefficients sum to one, so the combination is an AFFINE combination of the
   component interpolants: wherever all component densities agree, the combined density has that value.  Non-negativity is NOT
   claimed - the coefficients have both signs, and combined_density_can_be_negative exhibits a scheme with non-negative component
   densities and a negative combination. *)
From Coq Require Import ZArith List QArith Qcanon Bool Lia.
From SG Require Import Base.QcUtil Model.Gram Model.GramSolve Proofs.GramHat Proofs.GramEntries.
From SG Require Model.CombiScheme Proofs.SchemeInv.
Import ListNotations.
Open Scope Qc_scope.

(* the loop as coded: interpolation = 0; for g in scheme: interpolation += interpolate(g) * g.coefficient *)
Definition combine_loop_uniform (grids : list (list Z * Qc * list Qc)) (x : list Qc) : Qc :=
  fold_left (fun acc g => acc + interp_uniform (fst (fst g)) (snd g) x * snd (fst g)) grids 0.
Definition combine_loop_nonuniform (grids : list (list (list Qc) * Qc * list Qc)) (x : list Qc) : Qc :=
  fold_left (fun acc g => acc + interp (grid_hats (fst (fst g))) (snd g) x * snd (fst g)) grids 0.

Lemma fold_acc {G} (f : G -> Qc) (l : list G) (a : Qc) : fold_left (fun acc g => acc + f g) l a = a + sumQ (map f l).
Proof. revert a; induction l as [|g l IH]; intro a; cbn [fold_left map sumQ]; [ring|]. rewrite IH. ring. Qed.

Theorem combine_loop_uniform_is_weighted_sum grids x : combine_loop_uniform grids x = combine_uniform grids x.
Proof.
  unfold combine_loop_uniform, combine_uniform.
  rewrite (fold_acc (fun g => interp_uniform (fst (fst g)) (snd g) x * snd (fst g))).
  rewrite (map_ext _ (fun g => snd (fst g) * interp_uniform (fst (fst g)) (snd g) x)) by (intro g; ring). ring.
Qed.

Theorem combine_loop_nonuniform_is_weighted_sum grids x : combine_loop_nonuniform grids x = combine_nonuniform grids x.
Proof.
  unfold combine_loop_nonuniform, combine_nonuniform.
  rewrite (fold_acc (fun g => interp (grid_hats (fst (fst g))) (snd g) x * snd (fst g))).
  rewrite (map_ext _ (fun g => snd (fst g) * interp (grid_hats (fst (fst g))) (snd g) x)) by (intro g; ring). ring.
Qed.

(* ------------------------------------------------------------------ schemes with the C01 invariant *)
(* the component grids of a CombiScheme state with the surpluses the operation holds for each level vector *)
Definition scheme_grids (s : CombiScheme.scheme) (surpluses : list Z -> list Qc) : list (list Z * Qc * list Qc) :=
  map (fun kc => (fst kc, qc_of_Z (snd kc), surpluses (fst kc))) (CombiScheme.combi_scheme_adaptive s).

Lemma sumQ_qc_of_Z (l : list Z) : sumQ (map qc_of_Z l) = qc_of_Z (CombiScheme.sumZ l).
Proof.
  induction l as [|z l IH]; [reflexivity|]. cbn [map sumQ CombiScheme.sumZ fold_right]. rewrite IH.
  fold (CombiScheme.sumZ l). rewrite qc_of_Z_add. reflexivity.
Qed.

Theorem scheme_coefficients_sum_to_one s surpluses : SchemeInv.Inv s ->
  sumQ (map (fun g => snd (fst g)) (scheme_grids s surpluses)) = 1.
Proof.
  intro H. unfold scheme_grids. rewrite map_map. cbn [fst snd].
  change (fun x : list Z * Z => qc_of_Z (snd x)) with (fun x : CombiScheme.lv * Z => qc_of_Z (snd x)).
  rewrite <- (map_map snd qc_of_Z). rewrite sumQ_qc_of_Z.
  transitivity (qc_of_Z 1); [f_equal; exact (SchemeInv.scheme_total_one s H) | reflexivity].
Qed.

(* affine combination: where all component densities agree the combined density has that value *)
Theorem combined_density_affine s surpluses x v : SchemeInv.Inv s ->
  (forall g, In g (scheme_grids s surpluses) -> interp_uniform (fst (fst g)) (snd g) x = v) ->
  combine_uniform (scheme_grids s surpluses) x = v.
Proof.
  intros H Hv. unfold combine_uniform.
  rewrite (map_ext_in _ (fun g => snd (fst g) * v)) by (intros g Hg; rewrite (Hv g Hg); reflexivity).
  rewrite (map_ext _ (fun g => v * snd (fst g))) by (intro g; ring).
  rewrite sumQ_map_scale, (scheme_coefficients_sum_to_one s surpluses H). ring.
Qed.

(* ... and in general: combined - v = sum of coefficient * (component - v) *)
Theorem combined_density_deviation s surpluses x v : SchemeInv.Inv s ->
  combine_uniform (scheme_grids s surpluses) x - v
  = sumQ (map (fun g => snd (fst g) * (interp_uniform (fst (fst g)) (snd g) x - v)) (scheme_grids s surpluses)).
Proof.
  intro H. unfold combine_uniform.
  rewrite (map_ext (fun g => snd (fst g) * (interp_uniform (fst (fst g)) (snd g) x - v))
                   (fun g => snd (fst g) * interp_uniform (fst (fst g)) (snd g) x + (- v) * snd (fst g))) by (intro g; ring).
  rewrite sumQ_map_add, sumQ_map_scale, (scheme_coefficients_sum_to_one s surpluses H). ring.
Qed.

(* the interpolant is linear in the surpluses, hence so is the combined density *)
Lemma dotQ_scale_r a (c : Qc) v : dotQ a (map (fun y => c * y) v) = c * dotQ a v.
Proof. revert v; induction a as [|x a IH]; intros [|y v]; cbn [map dotQ]; try ring. rewrite IH. ring. Qed.

Theorem interp_uniform_scale lv (c : Qc) al x : interp_uniform lv (map (fun y => c * y) al) x = c * interp_uniform lv al x.
Proof. unfold interp_uniform. apply dotQ_scale_r. Qed.

(* NOT claimed: non-negativity.  Two dimensions, lmin = 1, lmax = 2: coefficients +1, +1, -1; every component density is >= 0
   at the centre, the combination is negative there *)
Definition q (n : Z) (d : positive) : Qc := Q2Qc (n # d).
Example combined_density_can_be_negative :
  let grids := [([1; 2]%Z, q 1 1, [q 0 1; q 1 1; q 0 1]); ([2; 1]%Z, q 1 1, [q 0 1; q 1 1; q 0 1]); ([1; 1]%Z, q (-1) 1, [q 3 1])] in
  let x := [q 1 2; q 1 2] in
  Forall (fun g => 0 <= interp_uniform (fst (fst g)) (snd g) x) grids /\ combine_uniform grids x = q (-1) 1
  /\ sumQ (map (fun g => snd (fst g)) grids) = 1.
Proof.
  cbv zeta. split; [|split].
  - repeat constructor; unfold Qcle; vm_compute; discriminate.
  - apply Qc_is_canon. vm_compute. reflexivity.
  - apply Qc_is_canon. vm_compute. reflexivity.
Qed.
