(* C19 (phase 3) — end-to-end: learning-time scaling + split + training + classification + bookkeeping over ALL histories of
   __call__ / test_data / evaluate / continue_dimension_wise_refinement, with the densities of the TRAINED classificators. *)
From Coq Require Import ZArith List QArith Qcanon Bool Lia Arith Permutation.
From SG Require Import Base.QcUtil Model.DataSet Model.Classify Model.ClassifyLearn
  Proofs.DataSetVec Proofs.DataSetScale Proofs.DataSetRevert Proofs.DataSetMove Proofs.ClassifyProofs Proofs.ClassifyLearnProofs Proofs.ClassifyRange.
Import ListNotations.
Open Scope Qc_scope.

Lemma classify_learned_app cv de lo learn p q :
  classify_learned cv de lo lo learn (p ++ q) = classify_learned cv de lo lo learn p ++ classify_learned cv de lo lo learn q.
Proof. unfold classify_learned, classificate, densities_at. rewrite !map_app. reflexivity. Qed.

Lemma trained_dens_length de lo learn pts : length (trained_dens de lo learn pts) = length pts.
Proof. unfold trained_dens, densities_at. apply map_length. Qed.

(* whatever the scaling state of the input: what _internal_scaling lets through is in range *)
Lemma internal_scaling_result_in_range v st d d1 : internal_scaling v st d = (d1, false) ->
  Forall (fun s => out_of_range (fst s) = false) (rows d1).
Proof.
  unfold internal_scaling. intro H.
  assert (G : forall x, match remove_samples v (out_indices (values x)) x with (d2, Some _) => (d2, false) | (d2, None) => (d2, true) end = (d1, false) ->
              Forall (fun s => out_of_range (fst s) = false) (rows d1)).
  { intros x Hx. destruct (remove_samples v (out_indices (values x)) x) as [d2 [r|]] eqn:E; inversion Hx; subst.
    destruct (filter_removes_exactly_out_of_range v x d1 r E) as [_ [F _]]. exact F. }
  destruct (scaled d).
  - destruct (same_scaling v (c_scaled_attrs st) d) as [[|]|]; try (inversion H; fail). apply (G d). exact H.
  - destruct (shift_value (AArr (vneg (c_min st))) false d) as [x1 e1]. destruct e1; [inversion H|].
    destruct (scale_factor (AArr (c_fac st)) false x1) as [x2 e2]. destruct e2; [inversion H|].
    destruct (shift_value (AScalar c_lo) false x2) as [x3 e3]. destruct e3; [inversion H|]. apply (G x3). exact H.
Qed.

Section EndToEnd.
  Variables (v : variant) (cv : cvariant) (lo : list Z) (learn : ds).
  Hypothesis Hstore : cv_store cv = true.

  (* the object invariant: every testing sample the object holds carries the class of the trained arg-max classificator under the CURRENT
     estimator, labels and samples are aligned, every testing sample is in range, the label table is the order the classificators were built in *)
  Definition SysInv (s : sys) : Prop :=
    c_performed (s_st s) = true /\ c_class_labels (s_st s) = lo /\
    c_test_labels (s_st s) = map snd (s_test s) /\
    c_calc (s_st s) = classify_learned cv (s_de s) lo lo learn (map fst (s_test s)) /\
    Forall (fun t => out_of_range (fst t) = false) (s_test s).

  (* test_data with trained densities: either nothing changes (the call raises), or the labelled in-range samples are appended with the
     classes of the trained classificators and the summary of exactly these samples is returned; unlabelled samples are set aside *)
  Lemma test_trained_spec de st d st' out : c_class_labels st = lo -> test_trained v cv de lo learn st d = (st', out) ->
    (st' = st /\ exists x, out = ORaise x) \/
    (exists d1 used, internal_scaling v st d = (d1, false) /\ used = snd (split_without_labels d1) /\ rows used <> [] /\
       rows used = filter (fun s => Z.leb 0 (snd s)) (rows d1) /\
       let cls := classify_learned cv de lo lo learn (values used) in
       out = OTest d1 cls (summary (map snd (rows used)) cls) /\
       learning_params st' = learning_params st /\ c_scaled_attrs st' = c_scaled_attrs st /\
       c_test_labels st' = c_test_labels st ++ map snd (rows used) /\ c_calc st' = c_calc st ++ cls).
  Proof.
    intros Hlo H. unfold test_trained, test_data in H.
    destruct (negb (c_performed st)); [left; inversion H; eauto|]. destruct (is_empty d); [left; inversion H; eauto|].
    destruct (internal_scaling v st d) as [d1 e] eqn:Ei. cbn [fst] in H. destruct e; [left; inversion H; eauto|].
    destruct (is_empty d1); [left; inversion H; eauto|].
    destruct (split_without_labels d1) as [om used] eqn:Es. cbn [snd] in H. destruct (is_empty used) eqn:Eu; [left; inversion H; eauto|].
    rewrite trained_dens_length in H. unfold values in H. rewrite map_length, Nat.eqb_refl in H. cbn [negb] in H.
    rewrite Hstore, Hlo in H. inversion H as [[H1 H2]]; clear H. right. exists d1, used. rewrite Es. cbn [snd].
    split; [reflexivity|]. split; [reflexivity|]. split; [unfold is_empty in Eu; destruct (rows used); [discriminate | discriminate]|].
    split; [unfold split_without_labels in Es; inversion Es; reflexivity|].
    cbv zeta. try rewrite <- H1. try rewrite <- H2. unfold classify_learned, trained_dens, values.
    split; [reflexivity|]. split; [unfold learning_params; cbn [c_min c_max c_fac c_class_labels c_performed]; rewrite Hlo; reflexivity|].
    cbn [c_scaled_attrs c_test_labels c_calc]. repeat split; reflexivity.
  Qed.

  Lemma call_trained_state de st d : fst (call_trained v cv de lo learn st d) = st.
  Proof. unfold call_trained. apply call_state_unchanged. Qed.

  Lemma sstep_inv s o : SysInv s -> SysInv (sstep v cv lo learn s o).
  Proof.
    intros [Hp [Hl [Ht [Hc Hr]]]]. destruct o as [d|d| |de']; cbn [sstep].
    - rewrite call_trained_state. repeat split; assumption.
    - destruct (test_trained v cv (s_de s) lo learn (s_st s) d) as [st' out] eqn:E.
      destruct (test_trained_spec _ _ _ _ _ Hl E) as [[-> [x ->]] | [d1 [used [Ei [Eu [Hne [Hf [Eo [Pp [_ [Tl Tc]]]]]]]]]]].
      + repeat split; assumption.
      + cbv zeta in Eo. rewrite Eo. rewrite <- Eu. unfold SysInv. cbn [s_st s_test s_de].
        unfold learning_params in Pp. inversion Pp as [[P1 P2 P3 P4 P5]].
        split; [congruence|]. split; [congruence|]. split; [rewrite Tl, Ht, map_app; reflexivity|].
        split; [rewrite Tc, Hc, map_app, classify_learned_app; reflexivity|].
        apply Forall_app. split; [exact Hr|]. pose proof (internal_scaling_result_in_range _ _ _ _ Ei) as F.
        rewrite Hf. rewrite Forall_forall in *. intros t Hin. apply filter_In in Hin. apply F. tauto.
    - repeat split; assumption.
    - destruct (continue_refinement cv (s_st s) (trained_dens de' lo learn (map fst (s_test s)))) as [st'|] eqn:E; [|repeat split; assumption].
      unfold SysInv. cbn [s_st s_test s_de]. destruct (c_test_labels (s_st s)) as [|t0 tl] eqn:Et.
      + unfold continue_refinement in E. rewrite Et in E. inversion E; subst st'.
        assert (Z0 : s_test s = []). { revert Ht. destruct (s_test s); [reflexivity | discriminate]. }
        repeat split; try assumption; [rewrite Et, Z0; reflexivity | rewrite Hc, Z0; reflexivity].
      + assert (Hne : c_test_labels (s_st s) <> []) by (rewrite Et; discriminate).
        destruct (continue_reclassifies cv _ _ _ E Hne) as [C1 [_ [C3 C4]]]. unfold learning_params in C4. inversion C4 as [[P1 P2 P3 P4 P5]].
        split; [congruence|]. split; [congruence|]. split; [congruence|]. split; [|exact Hr].
        rewrite C1, Hl. reflexivity.
  Qed.

  Theorem sys_invariant ops : forall s, SysInv s -> SysInv (fold_left (sstep v cv lo learn) ops s).
  Proof. induction ops as [|o ops IH]; intros s H; cbn [fold_left]; [exact H | apply IH, sstep_inv; exact H]. Qed.

  (* consequences of the invariant, for the state after ANY history *)
  Theorem sys_consequences s : SysInv s -> cv_labels cv = true -> lo <> [] ->
    (* (1) every testing sample held: its class is the label whose classificator - trained on exactly the learning samples of that label -
           is maximal at the sample's position (first maximum in the order lo) *)
    (forall i, (i < length (s_test s))%nat ->
       let x := nth i (map fst (s_test s)) [] in let c := nth i (c_calc (s_st s)) 0%Z in
       In c lo /\ rows (label_piece learn c) = filter (fun t => Z.eqb (snd t) c) (rows learn) /\
       out_of_range x = false /\
       forall l, In l lo -> s_de s (label_piece learn l) x <= s_de s (label_piece learn c) x) /\
    (* (2) the evaluation summary is the one of the held labels and classes; evaluate() raises exactly when there are no testing data *)
    (s_test s = [] -> evaluate (s_st s) = None) /\
    (s_test s <> [] -> evaluate (s_st s) = Some (summary (map snd (s_test s)) (c_calc (s_st s)))) /\
    length (c_calc (s_st s)) = length (s_test s).
  Proof.
    intros [Hp [Hl [Ht [Hc Hr]]]] Hcv Hne.
    assert (Hlen : length (c_calc (s_st s)) = length (s_test s)).
    { rewrite Hc. unfold classify_learned. rewrite classificate_length. unfold densities_at. rewrite !map_length. reflexivity. }
    assert (Hb : book_ok (s_st s)) by (split; [exact Hp | rewrite Ht, map_length; symmetry; exact Hlen]).
    destruct (evaluate_book _ Hb) as [E0 E1].
    split; [|split; [|split; [|exact Hlen]]].
    - intros i Hi x c.
      assert (Hi' : (i < length (map fst (s_test s)))%nat) by (rewrite map_length; exact Hi).
      destruct (class_is_trained_argmax cv (s_de s) lo learn (map fst (s_test s)) i Hcv Hne Hi') as [a [_ [_ [Hin [Hmax _]]]]].
      cbv zeta in Hin, Hmax. rewrite <- Hc in Hin, Hmax.
      fold x c in Hin, Hmax.
      split; [exact Hin|]. split; [apply classificator_training_data|]. split; [|exact Hmax].
      assert (Hx : In x (map fst (s_test s))) by (unfold x; apply nth_In; exact Hi').
      apply in_map_iff in Hx. destruct Hx as [t [Et Hint]]. rewrite <- Et. rewrite Forall_forall in Hr. apply Hr. exact Hint.
    - intro Z0. apply E0. rewrite Ht, Z0. reflexivity.
    - intro Z1. rewrite <- Ht. apply E1. rewrite Ht. destruct (s_test s); [contradiction | discriminate].
  Qed.

  (* one __call__ on a fresh (unscaled) data set of the right dimension, in any state: the returned samples are exactly the in-range ones at
     the learning map of their coordinates (the others removed and reported), each with the class of the trained arg-max classificator *)
  Theorem call_trained_spec de st d d1 cls : c_class_labels st = lo -> wf d -> scaled d = false ->
    length (c_min st) = ddim d -> length (c_fac st) = ddim d -> Forall (fun q => q <> 0) (c_fac st) ->
    call_trained v cv de lo learn st d = (st, OCall d1 cls) ->
    exists d3 r, rows d3 = map_rows (scale_point (c_min st) (c_fac st)) (rows d) /\
      Permutation (rows r ++ rows d1) (rows d3) /\
      Forall (fun s => out_of_range (fst s) = false) (rows d1) /\ Forall (fun s => out_of_range (fst s) = true) (rows r) /\
      cls = classify_learned cv de lo lo learn (values d1).
  Proof.
    intros Hlo Hwf Hsc Lm Lf Hnz H.
    destruct (internal_scaling_positions v st d Hwf Hsc Lm Lf Hnz) as [d3 [Er [_ Ei]]].
    unfold call_trained, call in H. destruct (negb (c_performed st)); [inversion H|]. destruct (is_empty d); [inversion H|].
    destruct (internal_scaling v st d) as [dd e] eqn:E. cbn [fst] in H. destruct e; [inversion H|]. destruct (is_empty dd); [inversion H|].
    rewrite trained_dens_length in H. unfold values in H. rewrite map_length, Nat.eqb_refl in H. cbn [negb] in H.
    injection H as H1 H2.
    destruct (remove_samples v (out_indices (values d3)) d3) as [d4 [r|]] eqn:Er2; cbv iota beta in Ei; [|discriminate Ei].
    injection Ei as E1. rewrite <- E1, H1 in Er2.
    destruct (filter_removes_exactly_out_of_range v d3 d1 r Er2) as [P [F1 F2]].
    exists d3, r. split; [exact Er|]. split; [exact P|]. split; [exact F1|]. split; [exact F2|].
    rewrite <- H2, Hlo, H1. reflexivity.
  Qed.

  Lemma sstep_params s o : SysInv s -> learning_params (s_st (sstep v cv lo learn s o)) = learning_params (s_st s).
  Proof.
    intros [Hp [Hl _]]. destruct o as [d|d| |de']; cbn [sstep].
    - cbn [s_st]. rewrite call_trained_state. reflexivity.
    - destruct (test_trained v cv (s_de s) lo learn (s_st s) d) as [st' out] eqn:E.
      destruct (test_trained_spec _ _ _ _ _ Hl E) as [[-> [x ->]] | [d1 [used [_ [_ [_ [_ [Eo [Pp _]]]]]]]]]; [reflexivity|].
      cbv zeta in Eo. rewrite Eo. exact Pp.
    - reflexivity.
    - destruct (continue_refinement cv (s_st s) (trained_dens de' lo learn (map fst (s_test s)))) as [st'|] eqn:E; [|reflexivity].
      destruct (continue_state cv _ _ _ E) as [P _]. exact P.
  Qed.

  Theorem sys_params ops : forall s, SysInv s -> learning_params (s_st (fold_left (sstep v cv lo learn) ops s)) = learning_params (s_st s).
  Proof.
    induction ops as [|o ops IH]; intros s H; cbn [fold_left]; [reflexivity|].
    rewrite IH by (apply sstep_inv; exact H). apply sstep_params. exact H.
  Qed.
End EndToEnd.

(* ------------------------------------------------------------------ the initial object of a default initialisation *)
Lemma initialize_default_spec v d ir : initialize v d None = Some ir ->
  let used := snd (split_without_labels d) in
  is_empty used = false /\ scale_range c_lo c_hi true used = (i_scaled ir, false) /\ omin (i_scaled ir) = Some (i_min ir) /\ sfactor (i_scaled ir) = FArr (i_fac ir).
Proof.
  unfold initialize. destruct (split_without_labels d) as [om used] eqn:Es. cbn [snd].
  destruct (is_empty used) eqn:Eu; [discriminate|].
  destruct (scale_range c_lo c_hi true used) as [sd e] eqn:Er. destruct e; [discriminate|].
  destruct (omin sd) as [mn|] eqn:E1; [|discriminate]. destruct (omax sd) as [mx|]; [|discriminate].
  destruct (sfactor sd) as [|q|fac] eqn:E3; try discriminate. intro H. inversion H; subst; clear H. cbn [i_scaled i_min i_fac].
  repeat split; auto.
Qed.

Lemma used_wf d k : Forall (fun s => length (fst s) = k) (rows d) -> is_empty (snd (split_without_labels d)) = false ->
  wf (snd (split_without_labels d)).
Proof.
  intros Hk He. unfold split_without_labels in *. cbn [snd] in *. unfold is_empty in He. cbn [with_attrs rows ddim] in *.
  set (u := filter (fun s => Z.leb 0 (snd s)) (rows d)) in *.
  assert (Hu : Forall (fun s => length (fst s) = k) u).
  { rewrite Forall_forall in *. intros s Hs. unfold u in Hs. apply filter_In in Hs. apply Hk. tauto. }
  split; cbn [with_attrs rows ddim]; fold u.
  - destruct u; [discriminate | discriminate].
  - destruct u as [|[x l] t]; [discriminate|]. cbn [dim_of]. inversion Hu as [|? ? Hx Ht]. cbn [fst] in Hx.
    rewrite Hx. exact Hu.
Qed.

(* END-TO-END: default initialisation of ANY rectangular labelled data set, ANY shuffle / set orders / split, ANY estimator, ANY label order
   of the learning data, and ANY history of __call__ / test_data / evaluate / continue_dimension_wise_refinement afterwards *)
Theorem end_to_end v cv (de : ds -> row -> Qc) lo d0 k perm idx los even p ir learn test ops :
  cv_store cv = true -> cv_labels cv = true -> lo <> [] ->
  Forall (fun s => length (fst s) = k) (rows d0) ->
  initialize v d0 None = Some ir ->
  init_split v (i_scaled ir) perm idx los even p = Some (learn, test) ->
  let s0 := mkSys (mkC (i_min ir) (i_max ir) (i_fac ir) (i_scaled ir) lo (map snd (rows test))
                       (classify_learned cv de lo lo learn (values test)) true) (rows test) de in
  let s := fold_left (sstep v cv lo learn) ops s0 in
  Permutation (rows learn ++ rows test) (rows (i_scaled ir)) /\
  Forall (fun t => out_of_range (fst t) = false) (rows learn ++ rows test) /\
  c_min (s_st s) = i_min ir /\ c_fac (s_st s) = i_fac ir /\ c_class_labels (s_st s) = lo /\
  SysInv cv lo learn s /\
  (forall i, (i < length (s_test s))%nat ->
     let x := nth i (map fst (s_test s)) [] in let c := nth i (c_calc (s_st s)) 0%Z in
     In c lo /\ rows (label_piece learn c) = filter (fun t => Z.eqb (snd t) c) (rows learn) /\
     out_of_range x = false /\
     forall l, In l lo -> s_de s (label_piece learn l) x <= s_de s (label_piece learn c) x) /\
  (s_test s = [] -> evaluate (s_st s) = None) /\
  (s_test s <> [] -> evaluate (s_st s) = Some (summary (map snd (s_test s)) (c_calc (s_st s)))) /\
  length (c_calc (s_st s)) = length (s_test s).
Proof.
  intros Hst Hlab Hne Hk Hi Hsp s0 s.
  destruct (initialize_default_spec v d0 ir Hi) as [He [Hr _]]. cbv zeta in He, Hr.
  pose proof (used_wf d0 k Hk He) as Hwf.
  pose proof (init_split_partitions _ _ _ _ _ _ _ _ _ Hsp) as P.
  pose proof (learning_and_testing_data_in_range _ _ _ _ _ _ _ _ _ _ Hwf Hr Hsp) as F.
  assert (I0 : SysInv cv lo learn s0).
  { unfold SysInv, s0. cbn [s_st s_test s_de c_performed c_class_labels c_test_labels c_calc].
    repeat split; try reflexivity. apply Forall_app in F. tauto. }
  pose proof (sys_invariant v cv lo learn Hst ops s0 I0) as I. fold s in I.
  pose proof (sys_params v cv lo learn Hst ops s0 I0) as Pp. fold s in Pp.
  assert (Q : learning_params (s_st s0) = (i_min ir, i_max ir, i_fac ir, lo, true)) by reflexivity. rewrite Q in Pp.
  unfold learning_params in Pp. injection Pp as P1 P2 P3 P4 P5.
  destruct (sys_consequences cv lo learn s I Hlab Hne) as [C1 [C2 [C3 C4]]].
  split; [exact P|]. split; [exact F|]. split; [exact P1|]. split; [exact P3|]. split; [exact P4|]. split; [exact I|].
  split; [exact C1|]. split; [exact C2|]. split; [exact C3 | exact C4].
Qed.
