(* C03: the per-dimension stripes of the dimension-wise strategy (get_point_coord_for_each_dim):
   sorted, contain the end points, depend only on (dimension, level), grow monotonically with the level. *)
From Coq Require Import ZArith List Bool QArith Qcanon Arith Lia Sorted.
From SG Require Import Base.QcUtil Model.CombiScheme Model.RefTree Model.DimWise Proofs.RefTreeInv.
Import ListNotations.
Open Scope Z_scope.
Local Arguments Z.add : simpl never.
Local Arguments Z.sub : simpl never.
Local Arguments Z.max : simpl never.
Local Arguments Z.min : simpl never.
Local Arguments Z.leb : simpl never.
Local Arguments Z.ltb : simpl never.

(* ---------------------------------------------------------------------------------------------- *)
(* monotonicity of the threshold max(l - sub, 1) in the component level l *)
Lemma modify_mono m l max_level lmax_d lmin :
  Z.max (l - modify_according_to_levelvec m l max_level lmax_d lmin) 1
  <= Z.max (l + 1 - modify_according_to_levelvec m (l + 1) max_level lmax_d lmin) 1.
Proof.
  unfold modify_according_to_levelvec.
  destruct (max_level <=? l - m) eqn:E1; destruct (l <? lmax_d) eqn:E2;
  destruct (max_level <=? l + 1 - m) eqn:E3; destruct (l + 1 <? lmax_d) eqn:E4; simpl;
  try apply Z.leb_le in E1; try apply Z.leb_gt in E1; try apply Z.ltb_lt in E2; try apply Z.ltb_ge in E2;
  try apply Z.leb_le in E3; try apply Z.leb_gt in E3; try apply Z.ltb_lt in E4; try apply Z.ltb_ge in E4; lia.
Qed.

(* threshold of object i at level l *)
Definition thr (sub : nat -> Z -> option Z) (i : nat) (l : Z) : option Z :=
  match sub i l with Some sv => Some (Z.max (l - sv) 1) | None => None end.

Definition sub_mono (sub : nat -> Z -> option Z) : Prop :=
  forall i l t, thr sub i l = Some t -> exists t', thr sub i (l + 1) = Some t' /\ t <= t'.

Lemma get_subtraction_value_mono o dim lmin lmax_d mcs objs d :
  sub_mono (fun i l => get_subtraction_value o dim lmin lmax_d mcs objs i d l).
Proof.
  intros i l t H. unfold thr, get_subtraction_value in *.
  set (ml := get_max_level objs i) in *. set (sv := lmax_d - ml) in *.
  destruct (o_version o =? 2).
  { injection H as <-. eexists. split; [reflexivity | lia]. }
  destruct (o_version o =? 3).
  { injection H as <-. eexists. split; [reflexivity | lia]. }
  destruct (o_version o =? 6).
  { destruct (v68_loop _ None mcs d sv 0 0) as [m|]; [|discriminate]. injection H as <-.
    eexists. split; [reflexivity | apply modify_mono]. }
  destruct (o_version o =? 7).
  { destruct (v7_loop _ mcs sv 0 0) as [m|]; [|discriminate]. injection H as <-.
    eexists. split; [reflexivity | apply modify_mono]. }
  destruct (o_version o =? 8).
  { destruct (v68_loop _ (Some (ml - 1)) mcs d sv 0 0) as [m|]; [|discriminate]. injection H as <-.
    eexists. split; [reflexivity | apply modify_mono]. }
  discriminate.
Qed.

(* ---------------------------------------------------------------------------------------------- *)
(* stripes for an abstract subtraction value *)
Section Stripes.
Variable sub : nat -> Z -> option Z.

Definition stripe (l : Z) (objs : list ival) : option (list (Qc * Z)) := stripe_with (fun i => sub i l) l objs.

Lemma stripe_sel_thr l : forall objs i s, stripe_sel (fun i => sub i l) l i objs = Some s ->
  forall j iv, nth_error objs j = Some iv -> exists t, thr sub (i + j) l = Some t.
Proof.
  induction objs as [|iv0 objs IH]; intros i s H j iv Hj; [destruct j; discriminate|].
  simpl in H. destruct (sub i l) as [sv|] eqn:E; [|discriminate].
  destruct (stripe_sel (fun i0 => sub i0 l) l (S i) objs) as [rest|] eqn:ER; [|discriminate].
  destruct j as [|j].
  - rewrite Nat.add_0_r. unfold thr. rewrite E. eauto.
  - simpl in Hj. replace (i + S j)%nat with (S i + j)%nat by lia. eapply IH; eassumption.
Qed.

Hypothesis Hmono : sub_mono sub.

Lemma stripe_sel_mono l : forall objs i s1, stripe_sel (fun i => sub i l) l i objs = Some s1 ->
  exists s2, stripe_sel (fun i => sub i (l + 1)) (l + 1) i objs = Some s2 /\ incl s1 s2.
Proof.
  induction objs as [|iv objs IH]; intros i s1 H; simpl in *.
  - injection H as <-. exists []. split; [reflexivity | apply incl_refl].
  - destruct (sub i l) as [sv|] eqn:E; [|discriminate].
    destruct (stripe_sel (fun i0 => sub i0 l) l (S i) objs) as [rest|] eqn:ER; [|discriminate].
    injection H as <-.
    destruct (IH _ _ ER) as (rest2 & ER2 & Hincl).
    destruct (Hmono i l (Z.max (l - sv) 1)) as (t' & Ht' & Hle); [unfold thr; rewrite E; reflexivity|].
    unfold thr in Ht'. destruct (sub i (l + 1)) as [sv'|]; [|discriminate]. injection Ht' as <-.
    rewrite ER2. eexists. split; [reflexivity|].
    destruct (i_l1 iv <=? Z.max (l - sv) 1) eqn:E1.
    + apply Z.leb_le in E1. assert (E2 : (i_l1 iv <=? Z.max (l + 1 - sv') 1) = true) by (apply Z.leb_le; lia).
      rewrite E2. intros p [<-|Hp]; [left; reflexivity | right; apply Hincl; assumption].
    + destruct (i_l1 iv <=? Z.max (l + 1 - sv') 1); [apply incl_tl|]; assumption.
Qed.

Lemma stripe_mono_step l objs s1 : stripe l objs = Some s1 ->
  exists s2, stripe (l + 1) objs = Some s2 /\ incl s1 s2.
Proof.
  unfold stripe, stripe_with. destruct objs as [|iv0 objs]; [discriminate|]. intro H.
  destruct (stripe_sel (fun i => sub i l) l 0 (iv0 :: objs)) as [rest|] eqn:E; [|discriminate]. injection H as <-.
  destruct (stripe_sel_mono _ _ _ _ E) as (rest2 & E2 & Hincl). rewrite E2.
  eexists. split; [reflexivity|]. intros p [<-|Hp]; [left; reflexivity | right; apply Hincl; assumption].
Qed.

Theorem stripe_mono objs : forall (k : nat) l s1, stripe l objs = Some s1 ->
  exists s2, stripe (l + Z.of_nat k) objs = Some s2 /\ incl s1 s2.
Proof.
  induction k as [|k IH]; intros l s1 H.
  - replace (l + Z.of_nat 0) with l by lia. exists s1. split; [assumption | apply incl_refl].
  - destruct (IH l s1 H) as (s2 & H2 & I2). destruct (stripe_mono_step _ _ _ H2) as (s3 & H3 & I3).
    replace (l + Z.of_nat (S k)) with (l + Z.of_nat k + 1) by lia.
    exists s3. split; [assumption|]. eapply incl_tran; eassumption.
Qed.

(* sortedness and end points, for trees satisfying the tiling chain *)
Lemma stripe_sel_sorted l : forall objs i x u y w s, Chain x u objs y w ->
  stripe_sel (fun i => sub i l) l i objs = Some s ->
  Forall (fun p => (x < fst p)%Qc /\ (fst p <= y)%Qc) s /\ StronglySorted Qclt (map fst s).
Proof.
  induction objs as [|iv objs IH]; intros i x u y w s HC H; simpl in *.
  - injection H as <-. split; constructor.
  - destruct HC as (Hs & Hl & Hlt & HC).
    destruct (sub i l) as [sv|]; [|discriminate].
    destruct (stripe_sel (fun i0 => sub i0 l) l (S i) objs) as [rest|] eqn:ER; [|discriminate].
    injection H as <-.
    destruct (IH _ _ _ _ _ _ HC ER) as [F S0].
    destruct (Chain_bounds _ _ _ _ _ HC) as [Hey _].
    assert (F' : Forall (fun p => (x < fst p)%Qc /\ (fst p <= y)%Qc) rest).
    { eapply Forall_impl; [|exact F]. intros p [A B]. split; [|assumption]. subst x. eapply Qclt_trans; eassumption. }
    destruct (i_l1 iv <=? Z.max (l - sv) 1).
    + split.
      * constructor; [|assumption]. simpl. subst x. split; assumption.
      * simpl. constructor; [assumption|]. rewrite Forall_map. eapply Forall_impl; [|exact F]. intros p [A _]. exact A.
    + split; assumption.
Qed.

Lemma stripe_sel_last l : forall objs i x u y s, objs <> [] -> Chain x u objs y 0 ->
  stripe_sel (fun i => sub i l) l i objs = Some s -> exists s', s = s' ++ [(y, 0)].
Proof.
  induction objs as [|iv objs IH]; intros i x u y s Hne HC H; [contradiction|]. simpl in *.
  destruct HC as (Hs & Hl & Hlt & HC).
  destruct (sub i l) as [sv|]; [|discriminate].
  destruct (stripe_sel (fun i0 => sub i0 l) l (S i) objs) as [rest|] eqn:ER; [|discriminate].
  injection H as <-.
  destruct objs as [|iv2 objs].
  - simpl in HC. destruct HC as [E1 E0]. simpl in ER. injection ER as <-.
    assert (E : (i_l1 iv <=? Z.max (l - sv) 1) = true) by (apply Z.leb_le; lia). rewrite E.
    exists []. rewrite E1, E0. reflexivity.
  - destruct (IH (S i) _ _ _ _ ltac:(discriminate) HC ER) as (s' & ->).
    destruct (i_l1 iv <=? Z.max (l - sv) 1).
    + exists ((i_end iv, i_l1 iv) :: s'). reflexivity.
    + exists s'. reflexivity.
Qed.

(* the stripe is strictly sorted, starts at a and ends at b, both with level 0 *)
Theorem stripe_sorted_with_endpoints l objs a b s : objs <> [] -> Chain a 0 objs b 0 -> stripe l objs = Some s ->
  StronglySorted Qclt (map fst s) /\ exists r, s = (a, 0) :: r ++ [(b, 0)].
Proof.
  intros Hne HC H. unfold stripe, stripe_with in H. destruct objs as [|iv0 objs]; [contradiction|].
  destruct (stripe_sel (fun i => sub i l) l 0 (iv0 :: objs)) as [rest|] eqn:E; [|discriminate]. injection H as <-.
  destruct (stripe_sel_sorted _ _ _ _ _ _ _ _ HC E) as [F S0].
  destruct (stripe_sel_last _ _ _ _ _ _ _ Hne HC E) as (s' & ->).
  simpl in HC. destruct HC as (Hs & Hl0 & _ & _).
  split.
  - simpl. constructor; [assumption|]. rewrite Forall_map. eapply Forall_impl; [|exact F]. intros p [A _]. rewrite Hs. exact A.
  - exists s'. rewrite Hs, Hl0. reflexivity.
Qed.

End Stripes.
