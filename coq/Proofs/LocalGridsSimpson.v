(* C08 — Simpson local grid: degree-3 exactness for every number M >= 1 of panel pairs (npwb = 2M+1), by induction
   over the panel pairs; boundary-off = boundary-on without the global boundary points (repaired slice). *)
From Coq Require Import ZArith List QArith Qcanon Bool Arith Lia Lqa.
From SG Require Import Base.QcUtil Model.Tensor Model.LocalGrids Proofs.TensorRule Proofs.LocalGridsBase Proofs.LocalGridsTrap.
Import ListNotations.
Open Scope Qc_scope.

Local Arguments Nat.sub : simpl never.
Local Arguments Nat.add : simpl never.
Local Arguments Nat.mul : simpl never.

(* one panel pair [x_2j, x_2j+2] *)
Definition panel (g : nat -> Qc) (h : Qc) (j : nat) : Qc :=
  h * / qn 3 * (g (2 * j)%nat + qn 4 * g (S (2 * j)) + g (S (S (2 * j)))).

Lemma even_2j j : Nat.even (2 * j) = true.
Proof. rewrite Nat.even_mul. reflexivity. Qed.
Lemma odd_2j j : Nat.odd (2 * j) = false.
Proof. unfold Nat.odd. rewrite even_2j. reflexivity. Qed.
Lemma odd_S2j j : Nat.odd (S (2 * j)) = true.
Proof. rewrite Nat.odd_succ. apply even_2j. Qed.
Lemma even_S2j j : Nat.even (S (2 * j)) = false.
Proof. rewrite Nat.even_succ. apply odd_2j. Qed.

Lemma simpson_w_old_new M h i : (i < 2 * S M)%nat ->
  simpson_w (S (2 * S (S M))) h i = simpson_w (S (2 * S M)) h i.
Proof.
  intro Hi. unfold simpson_w.
  replace (S (2 * S (S M)) - 1)%nat with (2 * S (S M))%nat by lia.
  replace (S (2 * S M) - 1)%nat with (2 * S M)%nat by lia.
  replace (i <? 2 * S (S M))%nat with true by (symmetry; apply Nat.ltb_lt; lia).
  replace (i <? 2 * S M)%nat with true by (symmetry; apply Nat.ltb_lt; lia).
  reflexivity.
Qed.

(* the index-wise Simpson weights sum up panel by panel *)
Lemma simpson_panels (g : nat -> Qc) h M :
  sumQ (map (fun i => g i * simpson_w (S (2 * S M)) h i) (seq 0 (S (2 * S M))))
  = sumQ (map (panel g h) (seq 0 (S M))).
Proof.
  induction M as [|M IH].
  - change (seq 0 (S (2 * 1))) with [0;1;2]%nat. change (seq 0 1) with [0%nat]. cbn [map sumQ].
    unfold simpson_w, panel. change (2 * 1)%nat with 2%nat. change (2 * 0)%nat with 0%nat. change (3 - 1)%nat with 2%nat.
    cbn [Nat.leb Nat.ltb Nat.odd Nat.even negb andb].
    rewrite ?qn_2, ?qn_3, ?qn_4. qfield.
  - rewrite (seq_snoc 0 (S M)), (map_app (panel g h)), sumQ_app. rewrite <- IH. clear IH.
    rewrite (seq_snoc 0 (2 * S M)), map_app, sumQ_app.
    assert (E : seq 0 (S (2 * S (S M))) = seq 0 (2 * S M) ++ [(2 * S M)%nat; S (2 * S M); S (S (2 * S M))]).
    { replace (S (2 * S (S M))) with (2 * S M + 3)%nat by lia. rewrite seq_app. f_equal. }
    rewrite E, map_app, sumQ_app. cbn [map sumQ].
    replace (0 + 2 * S M)%nat with (2 * S M)%nat by lia.
    rewrite (sumQ_map_ext (fun i => g i * simpson_w (S (2 * S (S M))) h i) (fun i => g i * simpson_w (S (2 * S M)) h i)).
    2: { intros i Hi. apply in_seq in Hi. rewrite simpson_w_old_new by lia. reflexivity. }
    replace (0 + S M)%nat with (S M) by lia.
    unfold panel, simpson_w.
    replace (S (2 * S (S M)) - 1)%nat with (S (S (2 * S M))) by lia.
    replace (S (2 * S M) - 1)%nat with (2 * S M)%nat by lia.
    rewrite !even_2j, !odd_2j, !odd_S2j, !even_S2j.
    replace (Nat.even (S (S (2 * S M)))) with true by (rewrite Nat.even_succ, Nat.odd_succ, even_2j; reflexivity).
    replace (Nat.odd (S (S (2 * S M)))) with false by (rewrite Nat.odd_succ, Nat.even_succ, odd_2j; reflexivity).
    rewrite !andb_false_r, !andb_true_r.
    rewrite Nat.ltb_irrefl. rewrite !andb_false_r.
    replace (2 * S M <? S (S (2 * S M)))%nat with true by (symmetry; apply Nat.ltb_lt; lia).
    replace (S (2 * S M) <? S (S (2 * S M)))%nat with true by (symmetry; apply Nat.ltb_lt; lia).
    replace (2 <=? 2 * S M)%nat with true by (symmetry; apply Nat.leb_le; lia).
    replace (1 <=? S (2 * S M))%nat with true by (symmetry; apply Nat.leb_le; lia).
    cbn [andb]. rewrite ?Nat.ltb_irrefl. rewrite ?qn_2, ?qn_3, ?qn_4. qfield.
Qed.

(* antiderivative of x^k *)
Definition prim (k : nat) (x : Qc) : Qc := x ^ (S k) / qn (S k).

Lemma mint_prim k s e : mint k s e = prim k e - prim k s.
Proof. unfold mint, prim. field. apply qn_S_neq0. Qed.

(* Simpson's 3-point rule is exact for cubics on one panel pair *)
Lemma panel_exact k s h j : (k <= 3)%nat ->
  panel (fun i => mono k (lin s h i)) h j = prim k (lin s h (S (S (2 * j)))) - prim k (lin s h (2 * j)).
Proof.
  intro Hk. unfold panel, prim, mono, lin. rewrite !qn_S. set (t := qn (2 * j)).
  destruct k as [|[|[|[|k]]]]; [| | | |lia]; cbn [Qcpower]; rewrite ?qn_S, ?qn_0; qfield.
Qed.

Lemma telescope (F : nat -> Qc) n : sumQ (map (fun j => F (S j) - F j) (seq 0 n)) = F n - F 0%nat.
Proof.
  induction n as [|n IH].
  - cbn [seq map sumQ]. ring.
  - rewrite seq_snoc, map_app, sumQ_app, IH. cbn [map sumQ]. replace (0 + n)%nat with n by lia. ring.
Qed.

Definition simpson_full_w (M : nat) (h : Qc) : list Qc := map (simpson_w (S (2 * S M)) h) (seq 0 (S (2 * S M))).

Theorem simpson_full_exact3 M s e :
  let npwb := S (2 * S M) in
  let h := spacing s e npwb in
  exact1 (map (lin s h) (seq 0 npwb)) (map (simpson_w npwb h) (seq 0 npwb)) s e 3.
Proof.
  intros npwb h k Hk. unfold apply1. rewrite map_map, dotQ_maps. unfold npwb.
  rewrite (simpson_panels (fun i => mono k (lin s h i)) h M).
  rewrite (sumQ_map_ext _ (fun j => (fun j => prim k (lin s h (2 * j))) (S j) - (fun j => prim k (lin s h (2 * j))) j)).
  - rewrite (telescope (fun j => prim k (lin s h (2 * j)))). rewrite mint_prim.
    change (2 * 0)%nat with 0%nat. rewrite lin_0.
    replace (lin s h (2 * S M)) with e; [reflexivity|].
    unfold h, npwb. replace (S (2 * S M)) with (S (S (2 * M + 1))) by lia.
    replace (2 * S M)%nat with (S (2 * M + 1)) by lia. rewrite lin_last. reflexivity.
  - intros j _. cbv beta. rewrite panel_exact by assumption. replace (2 * S j)%nat with (S (S (2 * j))) by lia. reflexivity.
Qed.

(* ---------- boundary off (repaired slice [lowerBorder:upperBorder]) = boundary on without the global boundary ---------- *)
Theorem simpson_off_restriction a b s e m :
  a <= s -> s < e -> e <= b -> (1 <= m)%nat ->
  let tl := touch_l a s in let tr := touch_r b e in
  let np := num_points_eq false tl tr (S (S m)) in
  let lo := fst (borders false np (S (S m)) tl tr) in
  let up := snd (borders false np (S (S m)) tl tr) in
  combine (trap_points false np (S (S m)) lo up s e) (simpson_weights true false np (S (S m)) lo up s e)
  = filter (keep_interior a b)
           (combine (trap_points true (S (S m)) (S (S m)) 0 (S (S m)) s e)
                    (simpson_weights true true (S (S m)) (S (S m)) 0 (S (S m)) s e)).
Proof.
  intros Has Hse Heb Hm tl tr np lo up.
  unfold simpson_weights. replace (S (S m) <? 3)%nat with false by (symmetry; apply Nat.ltb_ge; lia).
  rewrite trap_full_points. rewrite combine_maps.
  rewrite (filter_on_rule (simpson_w (S (S m)) (spacing s e (S (S m)))) a b s e m Has Hse Heb).
  fold tl tr. unfold lo, up, np. rewrite borders_spec by lia. cbn [fst snd]. fold np.
  assert (Hnp : np = (S (S m) - b2n tl - b2n tr)%nat) by (unfold np, num_points_eq; lia).
  rewrite <- Hnp.
  assert (Hsl : slice_idx (b2n tl) (S (S m) - b2n tr) (S (S m)) = seq (b2n tl) np).
  { unfold slice_idx. f_equal. rewrite Hnp. destruct tl, tr; cbn [b2n]; lia. }
  rewrite <- combine_maps. f_equal; [|rewrite Hsl; reflexivity].
  unfold trap_points. cbn [negb andb]. destruct (Nat.eqb_spec np 1) as [E1|E1]; [|rewrite Hsl; reflexivity].
  assert (Hc : m = 1%nat /\ tl = true /\ tr = true) by (destruct tl, tr; cbn [b2n] in *; repeat split; lia).
  destruct Hc as (-> & -> & ->). rewrite E1. cbn [b2n seq map]. unfold lin, spacing.
  change (3 - 1)%nat with 2%nat. rewrite qn_2, qn_1. f_equal. qfield.
Qed.
