(* C17: two list facts that justify the shape of Model/DEReuse.v.
   (1) old_point_list of calculate_B_dimension_wise - the cross product of the stored stripes (which contain the domain
       boundary) filtered by `0.0 not in x and 1.0 not in x` - is the list of grid points in the order of the stored
       right-hand side (cross product of the inner coordinates = points of grid_hats).
   (2) np.intersect1d of the index slices, iterated over the dimensions, is the ascending list of the sample indices that
       occur in every slice (the gather form used by find_data). *)
From Coq Require Import ZArith List QArith Qcanon Bool Arith Lia Sorting.Sorted.
From SG Require Import Base.QcUtil Model.Gram Model.DEReuse Proofs.GramHat Proofs.GramPD Proofs.DECacheP Proofs.DEPaths
  Proofs.DEReuseP Proofs.DEInterpP.
Import ListNotations.
Open Scope Qc_scope.

(* ------------------------------------------------------------------ (1) *)

Lemma no01_forallb x : negb (memQ 0 x) && negb (memQ 1 x) = forallb not01 x.
Proof.
  induction x as [|c x IH]; [reflexivity|]. cbn [memQ forallb]. rewrite <- IH. unfold not01.
  assert (E0 : Qc_eqb 0 c = Qc_eqb c 0).
  { destruct (Qc_eqb c 0) eqn:E; [apply Qc_eqb_eq in E; subst; apply Qc_eqb_refl|].
    apply Qc_eqb_false. apply Qc_eqb_false in E. intro Z. apply E. symmetry. exact Z. }
  assert (E1 : Qc_eqb 1 c = Qc_eqb c 1).
  { destruct (Qc_eqb c 1) eqn:E; [apply Qc_eqb_eq in E; subst; apply Qc_eqb_refl|].
    apply Qc_eqb_false. apply Qc_eqb_false in E. intro Z. apply E. symmetry. exact Z. }
  rewrite E0, E1. destruct (Qc_eqb c 0), (Qc_eqb c 1), (memQ 0 x), (memQ 1 x); reflexivity.
Qed.

Lemma flat_map_filter {A B} (Q : A -> bool) (f : A -> list B) l :
  flat_map f (filter Q l) = flat_map (fun a => if Q a then f a else []) l.
Proof. induction l as [|a l IH]; [reflexivity|]. cbn [filter flat_map]. destruct (Q a); cbn [flat_map]; rewrite IH; reflexivity. Qed.

Lemma filter_flat_map {A B} (P : B -> bool) (f : A -> list B) l : filter P (flat_map f l) = flat_map (fun a => filter P (f a)) l.
Proof. induction l as [|a l IH]; [reflexivity|]. cbn [flat_map]. rewrite filter_app, IH. reflexivity. Qed.

Lemma filter_cross (Q : Qc -> bool) : forall ls, filter (forallb Q) (cross ls) = cross (map (filter Q) ls).
Proof.
  induction ls as [|l r IH]; [reflexivity|]. cbn [cross map]. rewrite filter_flat_map, flat_map_filter.
  apply flat_map_ext. intro a. rewrite <- IH. clear IH. generalize (cross r). intro C.
  destruct (Q a) eqn:E.
  - induction C as [|t C IHC]; [reflexivity|]. cbn [map filter forallb]. rewrite E. cbn [andb].
    destruct (forallb Q t); cbn [map]; rewrite IHC; reflexivity.
  - induction C as [|t C IHC]; [reflexivity|]. cbn [map filter forallb]. rewrite E. cbn [andb]. exact IHC.
Qed.

(* the inner coordinates of a good stripe are what the 0/1 filter keeps, and they are the points of its hats *)
Lemma good_stripe_filter s : good_stripe s -> filter not01 s = map h_p (stripe_hats s).
Proof.
  intro Hg. pose proof Hg as [Hs [H0 H1]]. rewrite (stripe_hats_windows s H0 H1).
  pose proof (good_len_ge2 s Hg) as L2. pose proof (good_nth_first s Hg) as F. pose proof (good_nth_last s Hg) as La.
  (* by position: position j of s is kept iff 0 < j < length s - 1 *)
  assert (G : forall k (t : list Qc), (forall j, (j < length t)%nat -> not01 (nth j t 0) = negb (k + j =? 0)%nat && negb (k + j =? length s - 1)%nat) ->
                (k + length t = length s)%nat -> (forall j, (j < length t)%nat -> nth j t 0 = nth (k + j) s 0) ->
                filter not01 t = map h_p (windows (match k with O => t | _ => nth (k - 1) s 0 :: t end))).
  { intros k t. revert k. induction t as [|c t IH]; intros k Hn Hl He.
    - destruct k; reflexivity.
    - cbn [filter]. pose proof (Hn 0%nat ltac:(cbn; lia)) as H0c. cbn [nth] in H0c. rewrite Nat.add_0_r in H0c. rewrite H0c.
      assert (IHt : filter not01 t = map h_p (windows (c :: t))).
      { replace c with (nth (S k - 1) s 0) by (replace (S k - 1)%nat with (k + 0)%nat by lia; symmetry; apply (He 0%nat); cbn; lia).
        apply (IH (S k)).
        - intros j Hj. specialize (Hn (S j) ltac:(cbn; lia)). cbn [nth] in Hn. rewrite Hn. f_equal; f_equal; f_equal; lia.
        - cbn [length] in Hl. lia.
        - intros j Hj. specialize (He (S j) ltac:(cbn; lia)). cbn [nth] in He. rewrite He. f_equal. lia. }
      destruct k as [|k].
      + cbn [Nat.eqb negb andb]. exact IHt.
      + destruct (Nat.eqb_spec (S k) 0) as [Z|_]; [lia|]. cbn [negb andb].
        destruct t as [|c2 t2].
        * cbn [length] in Hl. destruct (Nat.eqb_spec (S k) (length s - 1)) as [_|Z]; [|lia]. reflexivity.
        * destruct (Nat.eqb_spec (S k) (length s - 1)) as [Z|_]; [cbn [length] in Hl; lia|]. cbn [negb].
          change (windows (nth (S k - 1) s 0 :: c :: c2 :: t2)) with (mkH (nth (S k - 1) s 0) c c2 :: windows (c :: c2 :: t2)).
          cbn [map h_p]. f_equal. exact IHt. }
  apply (G 0%nat s).
  - intros j Hj. cbn [Nat.add]. unfold not01. apply (P_nth s Hg). exact Hj.
  - reflexivity.
  - intros j Hj. reflexivity.
Qed.

Lemma map_cross {A B} (f : A -> B) : forall ls, cross (map (map f) ls) = map (map f) (cross ls).
Proof.
  induction ls as [|l r IH]; [reflexivity|]. cbn [map cross]. rewrite IH.
  induction l as [|a l IHl]; [reflexivity|]. cbn [map flat_map]. rewrite map_app, IHl. f_equal. rewrite !map_map. reflexivity.
Qed.

Theorem old_point_list_is_grid_points stripes : Forall good_stripe stripes ->
  old_point_list_py stripes = map (map h_p) (grid_hats stripes).
Proof.
  intro Hg. unfold old_point_list_py, grid_hats.
  rewrite (filter_ext _ (forallb not01) no01_forallb). rewrite filter_cross. rewrite <- map_cross, map_map. f_equal.
  apply map_ext_in. intros s Hs. rewrite Forall_forall in Hg. apply good_stripe_filter. apply Hg. exact Hs.
Qed.

(* ------------------------------------------------------------------ (2) np.intersect1d *)
Lemma ins_u_in k l x : In x (ins_u k l) <-> x = k \/ In x l.
Proof.
  induction l as [|j r IH]; cbn [ins_u].
  - cbn. split; intros [H|H]; auto; try contradiction.
  - destruct (Nat.ltb_spec k j).
    + cbn [In]. split; [intros [H1|H1]; [left; symmetry; exact H1 | right; exact H1] | intros [H1|H1]; [left; symmetry; exact H1 | right; exact H1]].
    + destruct (Nat.eqb_spec k j).
      * subst. cbn [In]. split; [intro H1; right; exact H1 | intros [H1|H1]; [left; symmetry; exact H1 | exact H1]].
      * cbn [In]. rewrite IH. split; [intros [H1|[H1|H1]]; auto | intros [H1|[H1|H1]]; auto].
Qed.

Lemma ins_u_sorted k l : StronglySorted lt l -> StronglySorted lt (ins_u k l).
Proof.
  induction l as [|j r IH]; intro H; cbn [ins_u]; [repeat constructor|].
  inversion H as [|? ? Hr Hj]; subst.
  destruct (Nat.ltb_spec k j).
  - constructor; [exact H|]. constructor; [exact H0|]. rewrite Forall_forall in *. intros x Hx. specialize (Hj x Hx). lia.
  - destruct (Nat.eqb_spec k j); [exact H|]. constructor; [apply IH; exact Hr|].
    rewrite Forall_forall in *. intros x Hx. apply ins_u_in in Hx. destruct Hx as [Hx|Hx]; [subst; lia | apply Hj; exact Hx].
Qed.

Lemma unique_sorted_spec l : StronglySorted lt (unique_sorted l) /\ forall x, In x (unique_sorted l) <-> In x l.
Proof.
  induction l as [|k l [IH1 IH2]]; [split; [constructor | tauto]|].
  cbn [unique_sorted fold_right]. split; [apply ins_u_sorted; exact IH1|].
  intro x. rewrite ins_u_in. fold (unique_sorted l). rewrite IH2. cbn. intuition congruence.
Qed.

Lemma filter_sorted (P : nat -> bool) l : StronglySorted lt l -> StronglySorted lt (filter P l).
Proof.
  induction l as [|j r IH]; intro H; [constructor|]. inversion H as [|? ? Hr Hj]; subst. cbn [filter].
  destruct (P j); [|apply IH; exact Hr]. constructor; [apply IH; exact Hr|].
  rewrite Forall_forall in *. intros x Hx. apply filter_In in Hx. apply Hj. apply Hx.
Qed.

Lemma seq_sorted n s : StronglySorted lt (seq s n).
Proof.
  revert s; induction n as [|n IH]; intro s; [constructor|]. cbn [seq]. constructor; [apply IH|].
  rewrite Forall_forall. intros x Hx. apply in_seq in Hx. lia.
Qed.

Lemma sorted_ext : forall l1 l2, StronglySorted lt l1 -> StronglySorted lt l2 -> (forall x, In x l1 <-> In x l2) -> l1 = l2.
Proof.
  induction l1 as [|a l1 IH]; intros l2 H1 H2 E.
  - destruct l2 as [|b l2]; [reflexivity|]. exfalso. apply (E b). left. reflexivity.
  - destruct l2 as [|b l2]; [exfalso; apply (E a); left; reflexivity|].
    inversion H1 as [|? ? S1 F1]; inversion H2 as [|? ? S2 F2]; subst. rewrite Forall_forall in F1, F2.
    assert (a = b).
    { destruct (proj1 (E a) (or_introl eq_refl)) as [Ha|Ha]; [symmetry; exact Ha|].
      destruct (proj2 (E b) (or_introl eq_refl)) as [Hb|Hb]; [exact Hb|].
      specialize (F1 b Hb). specialize (F2 a Ha). lia. }
    subst b. f_equal. apply IH; [exact S1 | exact S2|].
    intro x. split; intro Hx.
    + destruct (proj1 (E x) (or_intror Hx)) as [Z|Z]; [|exact Z]. subst x. specialize (F1 a Hx). lia.
    + destruct (proj2 (E x) (or_intror Hx)) as [Z|Z]; [|exact Z]. subst x. specialize (F2 a Hx). lia.
Qed.

Lemma intersect1d_spec a b : StronglySorted lt (intersect1d a b) /\ forall x, In x (intersect1d a b) <-> In x a /\ In x b.
Proof.
  destruct (unique_sorted_spec a) as [S M]. unfold intersect1d. split; [apply filter_sorted; exact S|].
  intro x. rewrite filter_In, M. split; intros [H1 H2]; (split; [exact H1|]); [apply mem_nat_true; exact H2 | apply mem_nat_in; exact H2].
Qed.

Lemma fold_intersect_spec : forall slices acc, slices <> [] ->
  StronglySorted lt (fold_left intersect1d slices acc) /\
  forall x, In x (fold_left intersect1d slices acc) <-> In x acc /\ forall sl, In sl slices -> In x sl.
Proof.
  induction slices as [|sl r IH]; intros acc Hne; [contradiction|]. cbn [fold_left].
  destruct (intersect1d_spec acc sl) as [S1 M1]. destruct r as [|sl2 r2].
  - cbn [fold_left]. split; [exact S1|]. intro x. rewrite M1. split.
    + intros [A B]. split; [exact A|]. intros s [E|[]]. subst. exact B.
    + intros [A B]. split; [exact A | apply B; left; reflexivity].
  - destruct (IH (intersect1d acc sl) ltac:(discriminate)) as [S2 M2]. split; [exact S2|].
    intro x. rewrite M2, M1. split.
    + intros [[A B] C]. split; [exact A|]. intros s [E|E]; [subst; exact B | apply C; exact E].
    + intros [A C]. split; [split; [exact A | apply C; left; reflexivity]|]. intros s E. apply C. right. exact E.
Qed.

(* the gather form of find_data is np.intersect1d iterated over the dimensions (index arrays with entries below M) *)
Theorem domain_data_py_is_gather M slices : slices <> [] ->
  (forall sl, In sl slices -> forall x, In x sl -> (x < M)%nat) ->
  domain_data_py slices = filter (fun k => forallb (mem_nat k) slices) (seq 0 M).
Proof.
  intros Hne Hlt. destruct slices as [|s0 r]; [contradiction|]. unfold domain_data_py.
  destruct (fold_intersect_spec (s0 :: r) s0 Hne) as [S Mem].
  apply sorted_ext; [exact S | apply filter_sorted; apply seq_sorted|].
  intro x. rewrite Mem, filter_In, in_seq, forallb_forall. split.
  - intros [A B]. split; [split; [lia | cbn; apply (Hlt s0 (or_introl eq_refl) x A)]|]. intros sl Hsl. apply mem_nat_in. apply B. exact Hsl.
  - intros [_ B]. split; [apply mem_nat_true; apply B; left; reflexivity|]. intros sl Hsl. apply mem_nat_true. apply B. exact Hsl.
Qed.
