(* The index-set invariant of the adaptive combination scheme: holds after init and after every update. *)
From Coq Require Import ZArith List Bool Lia.
From SG Require Import Model.CombiScheme Proofs.SchemeBasics Proofs.SchemeIE.
Import ListNotations.
Open Scope Z_scope.

Record Inv (s : scheme) : Prop := mkInv {
  inv_wf : forall k, In k (s_active s) \/ In k (s_old s) ->
             length k = s_dim s /\ Forall (fun x => s_lmin s <= x) k;
  inv_nd_a : NoDup (s_active s);
  inv_nd_o : NoDup (s_old s);
  inv_disj : forall k, In k (s_active s) -> ~ In k (s_old s);
  inv_back : forall k d, In k (s_active s) \/ In k (s_old s) -> (d < s_dim s)%nat ->
             s_lmin s <= nth d k 0 - 1 -> In (bump d (-1) k) (s_old s);
  inv_min : In (repeat (s_lmin s) (s_dim s)) (s_active s) \/ In (repeat (s_lmin s) (s_dim s)) (s_old s)
}.

(* ---------- consequences ---------- *)

Lemma inv_no_forward_neighbour s : Inv s ->
  forall k d, In k (s_active s) -> (d < s_dim s)%nat ->
  ~ (In (bump d 1 k) (s_active s) \/ In (bump d 1 k) (s_old s)).
Proof.
  intros I k d Hk Hd Hf.
  destruct (inv_wf s I k (or_introl Hk)) as [Lk Fk].
  pose proof (inv_back s I (bump d 1 k) d Hf Hd) as B.
  rewrite bump_nth_same in B by lia.
  assert (s_lmin s <= nth d k 0) as Hn by (apply (Forall_nth_Z (fun x => s_lmin s <= x)); [assumption|lia]).
  change (-1) with (- (1)) in B. rewrite bump_bump_inv in B.
  apply (inv_disj s I k Hk). apply B. lia.
Qed.

Lemma index_set_In s k : In k (index_set s) <-> In k (s_active s) \/ In k (s_old s).
Proof. unfold index_set. apply set_union_In. Qed.

Lemma inv_index_NoDup s : Inv s -> NoDup (index_set s).
Proof. intro I. unfold index_set. apply set_union_NoDup. apply (inv_nd_a s I). Qed.

Lemma inv_bclosed_index s : Inv s -> bclosed (s_lmin s) (index_set s).
Proof.
  intros I k d Hk Hd Hn. apply index_set_In in Hk. apply index_set_In. right.
  destruct (inv_wf s I k Hk) as [Lk _]. apply (inv_back s I); [assumption|lia|assumption].
Qed.

Lemma inv_bclosed_old s : Inv s -> bclosed (s_lmin s) (s_old s).
Proof.
  intros I k d Hk Hd Hn.
  destruct (inv_wf s I k (or_intror Hk)) as [Lk _]. apply (inv_back s I); [right; assumption|lia|assumption].
Qed.

(* ---------- refine_scheme ---------- *)

Lemma refine_scheme_inv d l s :
  Inv s -> (d < s_dim s)%nat -> length l = s_dim s -> Forall (fun x => s_lmin s <= x) l ->
  ~ In (bump d 1 l) (s_old s) ->
  let s' := snd (refine_scheme d l s) in
  Inv s' /\ s_old s' = s_old s /\ s_dim s' = s_dim s /\ s_lmin s' = s_lmin s /\
  (forall k, In k (s_active s) -> In k (s_active s')).
Proof.
  intros I Hd Hl HF Hno. unfold refine_scheme.
  match goal with |- context [if ?c then _ else _] => destruct c eqn:Eok end; simpl.
  2: { split; [assumption|]. split; [reflexivity|]. split; [reflexivity|]. split; [reflexivity|]. auto. }
  rewrite forallb_forall in Eok.
  split; [constructor; simpl | simpl; split; [reflexivity | split; [reflexivity | split; [reflexivity|]]]].
  - intros k [Hk|Hk].
    + apply set_add_In in Hk. destruct Hk as [->|Hk].
      * rewrite bump_length. split; [assumption|]. apply Forall_bump; [assumption|lia|].
        assert (s_lmin s <= nth d l 0) by (apply (Forall_nth_Z (fun x => s_lmin s <= x)); [assumption|lia]). lia.
      * apply (inv_wf s I). left; assumption.
    + apply (inv_wf s I). right; assumption.
  - apply set_add_NoDup. apply I.
  - apply I.
  - intros k Hk. apply set_add_In in Hk. destruct Hk as [->|Hk]; [assumption|]. apply (inv_disj s I); assumption.
  - intros k e [Hk|Hk] He Hn.
    + apply set_add_In in Hk. destruct Hk as [->|Hk].
      * assert (In e (seq 0 (s_dim s))) as Hin by (apply in_seq; lia).
        specialize (Eok e Hin). apply negb_true_iff in Eok. apply andb_false_iff in Eok.
        destruct Eok as [E|E].
        -- apply negb_false_iff in E. apply mem_In in E. assumption.
        -- apply negb_false_iff in E. apply Z.ltb_lt in E.
           rewrite bump_nth_same in E by (rewrite bump_length; lia). lia.
      * apply (inv_back s I); [left; assumption|assumption|assumption].
    + apply (inv_back s I); [right; assumption|assumption|assumption].
  - destruct (inv_min s I) as [H|H]; [left; apply set_add_In; right; assumption | right; assumption].
  - intros k Hk. apply set_add_In. right. assumption.
Qed.

(* the loop over the dimensions *)
Definition loop_body (levelvec : lv) (acc : list nat * scheme) (d : nat) : list nat * scheme :=
  let '(ds, st) := acc in
  let '(b, st') := refine_scheme d levelvec st in
  (if b then ds ++ [d] else ds, st').

Lemma loop_body_snd l acc d : snd (loop_body l acc d) = snd (refine_scheme d l (snd acc)).
Proof. destruct acc as [ds st]. unfold loop_body. simpl snd. destruct (refine_scheme d l st) as [b s'] eqn:E. reflexivity. Qed.

Lemma loop_inv l : forall ds acc,
  Inv (snd acc) -> length l = s_dim (snd acc) -> Forall (fun x => s_lmin (snd acc) <= x) l ->
  (forall d, In d ds -> (d < s_dim (snd acc))%nat /\ ~ In (bump d 1 l) (s_old (snd acc))) ->
  let r := fold_left (loop_body l) ds acc in
  Inv (snd r) /\ s_old (snd r) = s_old (snd acc) /\ s_dim (snd r) = s_dim (snd acc) /\
  s_lmin (snd r) = s_lmin (snd acc) /\ (forall k, In k (s_active (snd acc)) -> In k (s_active (snd r))).
Proof.
  induction ds as [|d ds IH]; intros acc I Hl HF Hds; simpl.
  - split; [assumption|]. split; [reflexivity|]. split; [reflexivity|]. split; [reflexivity|]. auto.
  - destruct (Hds d (or_introl eq_refl)) as [Hd Hno].
    destruct (refine_scheme_inv d l (snd acc) I Hd Hl HF Hno) as [I' [Eo [Ed [Em Ha]]]].
    rewrite <- loop_body_snd in I', Eo, Ed, Em, Ha.
    specialize (IH (loop_body l acc d) I').
    rewrite Ed, Em, Eo in IH. specialize (IH Hl HF).
    destruct IH as [I2 [Eo2 [Ed2 [Em2 Ha2]]]].
    { intros e He. apply Hds. right; assumption. }
    split; [assumption|]. split; [assumption|]. split; [assumption|]. split; [assumption|].
    intros k Hk. apply Ha2. apply Ha. assumption.
Qed.

Lemma update_scheme_snd s l :
  mem l (s_active s) = true ->
  snd (update_scheme s l) =
  snd (fold_left (loop_body l) (seq 0 (s_dim s))
         ([], mkScheme (s_dim s) (s_lmin s) (s_lmax s) (s_lmax_adaptive s)
                       (set_remove l (s_active s)) (set_add l (s_old s)))).
Proof.
  intro H. unfold update_scheme. rewrite H. fold (loop_body l).
  match goal with |- context [fold_left ?f ?a ?b] => destruct (fold_left f a b) as [dims s2] end.
  reflexivity.
Qed.

Theorem update_inv s l : Inv s -> Inv (update s l).
Proof.
  intro I. unfold update. destruct (mem l (s_active s)) eqn:E.
  2: { unfold update_scheme. rewrite E. assumption. }
  rewrite update_scheme_snd by assumption.
  apply mem_In in E.
  destruct (inv_wf s I l (or_introl E)) as [Ll Fl].
  set (s1 := mkScheme (s_dim s) (s_lmin s) (s_lmax s) (s_lmax_adaptive s)
                      (set_remove l (s_active s)) (set_add l (s_old s))).
  assert (Inv s1) as I1.
  { constructor; simpl.
    - intros k [Hk|Hk].
      + apply set_remove_In in Hk. apply (inv_wf s I). left; tauto.
      + apply set_add_In in Hk. destruct Hk as [->|Hk]; [auto|]. apply (inv_wf s I). right; assumption.
    - apply set_remove_NoDup, I.
    - apply set_add_NoDup, I.
    - intros k Hk Ho. apply set_remove_In in Hk. destruct Hk as [Hk Hne].
      apply set_add_In in Ho. destruct Ho as [->|Ho]; [congruence|]. apply (inv_disj s I k); assumption.
    - intros k d Hk Hd Hn. apply set_add_In. right. apply (inv_back s I); [|assumption|assumption].
      destruct Hk as [Hk|Hk].
      + apply set_remove_In in Hk. left; tauto.
      + apply set_add_In in Hk. destruct Hk as [->|Hk]; [left|right]; assumption.
    - destruct (inv_min s I) as [H|H].
      + destruct (lv_eqb (repeat (s_lmin s) (s_dim s)) l) eqn:E2.
        * apply lv_eqb_eq in E2. right. apply set_add_In. left; assumption.
        * apply lv_eqb_neq in E2. left. apply set_remove_In. split; assumption.
      + right. apply set_add_In. right; assumption. }
  apply (loop_inv l (seq 0 (s_dim s)) ([], s1)); simpl; try assumption.
  intros d Hd. apply in_seq in Hd. split; [lia|].
  intro Hin. apply set_add_In in Hin. destruct Hin as [Hin|Hin].
  - apply (bump_neq d 1 l); [lia|lia|assumption].
  - apply (inv_no_forward_neighbour s I l d E); [lia|]. right; assumption.
Qed.

Theorem reachable_inv_from s ops : Inv s -> Inv (fold_left update ops s).
Proof.
  revert s. induction ops as [|l ops IH]; intros s I; simpl; [assumption|].
  apply IH. apply update_inv. assumption.
Qed.

(* ---------- initialisation ---------- *)

Lemma sumZ_ge_length c g : Forall (fun x => c <= x) g -> Z.of_nat (length g) * c <= sumZ g.
Proof.
  induction g as [|x g IH]; intro H; simpl length.
  - unfold sumZ; simpl. lia.
  - inversion H; subst. specialize (IH H3). change (sumZ (x :: g)) with (x + sumZ g). lia.
Qed.

Lemma getGrids_spec : forall n v g, 1 <= v ->
  (In g (getGrids (S n) v) <-> length g = S n /\ Forall (fun x => 1 <= x) g /\ sumZ g = v + Z.of_nat n).
Proof.
  induction n as [|n IH]; intros v g Hv.
  - simpl. split.
    + intros [<-|[]]. split; [reflexivity|]. split; [constructor; [lia|constructor]|]. unfold sumZ; simpl; lia.
    + intros [L [F Sm]]. destruct g as [|x [|y g]]; simpl in L; try discriminate.
      unfold sumZ in Sm; simpl in Sm. left. f_equal. lia.
  - change (getGrids (S (S n)) v) with
      (flat_map (fun index => map (cons (index + 1)) (getGrids (S n) (v - index))) (zrange v)).
    rewrite in_flat_map. split.
    + intros [index [Hi Hg]]. apply zrange_In in Hi. apply in_map_iff in Hg. destruct Hg as [g' [<- Hg']].
      apply IH in Hg'; [|lia]. destruct Hg' as [L [F Sm]]. repeat split.
      * simpl. congruence.
      * constructor; [lia|assumption].
      * change (sumZ ((index + 1) :: g')) with (index + 1 + sumZ g'). lia.
    + intros [L [F Sm]]. destruct g as [|x g']; simpl in L; try discriminate.
      inversion F; subst. change (sumZ (x :: g')) with (x + sumZ g') in Sm.
      pose proof (sumZ_ge_length 1 g' H2) as Hs. injection L as L. rewrite L in Hs.
      exists (x - 1). split; [apply zrange_In; lia|].
      apply in_map_iff. exists g'. split; [f_equal; lia|].
      apply IH; [lia|]. repeat split; [assumption|assumption|lia].
Qed.

Lemma sumZ_map_shift c g : sumZ (map (fun l => l + c) g) = sumZ g + Z.of_nat (length g) * c.
Proof.
  induction g as [|x g IH]; [unfold sumZ; simpl; lia|].
  change (sumZ (map (fun l => l + c) (x :: g))) with (x + c + sumZ (map (fun l => l + c) g)).
  change (sumZ (x :: g)) with (x + sumZ g). rewrite IH. simpl length. lia.
Qed.

Lemma shifted_grids_spec n v c k : 1 <= v ->
  (In k (shift_all c (getGrids (S n) v)) <->
   length k = S n /\ Forall (fun x => c + 1 <= x) k /\ sumZ k = v + Z.of_nat n + Z.of_nat (S n) * c).
Proof.
  intro Hv. unfold shift_all. rewrite in_map_iff. split.
  - intros [g [<- Hg]]. apply getGrids_spec in Hg; [|assumption]. destruct Hg as [L [F Sm]].
    rewrite map_length. repeat split; [assumption| |].
    + apply Forall_map. eapply Forall_impl; [|exact F]. simpl. intros; lia.
    + rewrite sumZ_map_shift. rewrite L, Sm. reflexivity.
  - intros [L [F Sm]]. exists (map (fun x => x - c) k). split.
    + rewrite map_map. rewrite <- (map_id k) at 2. apply map_ext. intros; lia.
    + apply getGrids_spec; [assumption|]. rewrite map_length. repeat split; [assumption| |].
      * apply Forall_map. eapply Forall_impl; [|exact F]. simpl. intros; lia.
      * replace (fun x => x - c) with (fun x => x + - c) by reflexivity.
        rewrite sumZ_map_shift. rewrite L. rewrite Sm. lia.
Qed.

Lemma init_active_spec n lmax lmin k : lmin <= lmax ->
  (In k (init_active_index_set lmax lmin (S n)) <->
   length k = S n /\ Forall (fun x => lmin <= x) k /\ sumZ k = lmax - lmin + Z.of_nat (S n) * lmin).
Proof.
  intro H. unfold init_active_index_set. rewrite set_of_list_In. rewrite shifted_grids_spec by lia.
  replace (lmin - 1 + 1) with lmin by lia.
  split; intros [L [F Sm]]; repeat split; try assumption; lia.
Qed.

Lemma init_old_spec n lmax lmin k : lmin <= lmax ->
  (In k (init_old_index_set lmax lmin (S n)) <->
   length k = S n /\ Forall (fun x => lmin <= x) k /\ sumZ k < lmax - lmin + Z.of_nat (S n) * lmin).
Proof.
  intro H. unfold init_old_index_set. rewrite set_of_list_In. rewrite in_flat_map. split.
  - intros [q0 [Hq Hk]]. apply zrange_In in Hq. apply shifted_grids_spec in Hk; [|lia].
    replace (lmin - 1 + 1) with lmin in Hk by lia.
    destruct Hk as [L [F Sm]]. repeat split; try assumption. lia.
  - intros [L [F Sm]]. pose proof (sumZ_ge_length lmin k F) as Hs. rewrite L in Hs.
    exists (lmax - lmin - 1 - (sumZ k - Z.of_nat (S n) * lmin)). split; [apply zrange_In; lia|].
    apply shifted_grids_spec; [lia|]. replace (lmin - 1 + 1) with lmin by lia.
    repeat split; try assumption. lia.
Qed.

Lemma sumZ_bump d c k : (d < length k)%nat -> sumZ (bump d c k) = sumZ k + c.
Proof.
  revert d; induction k as [|x k IH]; intros [|d]; cbn [bump length]; intro H; try lia.
  - change (sumZ ((x + c) :: k)) with (x + c + sumZ k). change (sumZ (x :: k)) with (x + sumZ k). lia.
  - change (sumZ (x :: bump d c k)) with (x + sumZ (bump d c k)). change (sumZ (x :: k)) with (x + sumZ k).
    rewrite IH by lia. lia.
Qed.

Lemma sumZ_repeat c n : sumZ (repeat c n) = Z.of_nat n * c.
Proof.
  induction n as [|n IH]; [reflexivity|].
  change (sumZ (repeat c (S n))) with (c + sumZ (repeat c n)). rewrite IH. lia.
Qed.

Lemma Forall_repeat_ge c n : Forall (fun x => c <= x) (repeat c n).
Proof. induction n; simpl; constructor; [lia|assumption]. Qed.

Theorem init_inv n lmax lmin s : init_scheme (S n) lmax lmin = Some s -> Inv s.
Proof.
  unfold init_scheme. destruct ((lmax >=? lmin) && (lmax >=? 0) && (lmin >=? 0)) eqn:E; [|discriminate].
  intro H. injection H as <-.
  apply andb_true_iff in E. destruct E as [E E3]. apply andb_true_iff in E. destruct E as [E1 E2].
  assert (lmin <= lmax) as Hle by lia.
  constructor; simpl.
  - intros k [Hk|Hk].
    + apply init_active_spec in Hk; [|assumption]. tauto.
    + apply init_old_spec in Hk; [|assumption]. tauto.
  - apply set_of_list_NoDup.
  - apply set_of_list_NoDup.
  - intros k Ha Ho. apply init_active_spec in Ha; [|assumption]. apply init_old_spec in Ho; [|assumption]. lia.
  - intros k d Hk Hd Hn. apply init_old_spec; [assumption|].
    assert (length k = S n /\ Forall (fun x => lmin <= x) k /\ sumZ k <= lmax - lmin + Z.of_nat (S n) * lmin) as [L [F Sm]].
    { destruct Hk as [Hk|Hk]; [apply init_active_spec in Hk|apply init_old_spec in Hk]; try assumption;
        destruct Hk as [L [F Sm]]; repeat split; try assumption; lia. }
    rewrite bump_length. repeat split; [assumption| |].
    + apply Forall_bump; [assumption|lia|lia].
    + rewrite sumZ_bump by lia. lia.
  - change (lmin :: repeat lmin n) with (repeat lmin (S n)).
    destruct (Z.eq_dec lmax lmin) as [->|Hne].
    + left. apply init_active_spec; [lia|]. split; [apply repeat_length|]. split.
      * apply Forall_repeat_ge.
      * rewrite sumZ_repeat. lia.
    + right. apply init_old_spec; [lia|]. split; [apply repeat_length|]. split.
      * apply Forall_repeat_ge.
      * rewrite sumZ_repeat. lia.
Qed.

Lemma init_scheme_fields n lmax lmin s : init_scheme n lmax lmin = Some s -> s_dim s = n /\ s_lmin s = lmin.
Proof.
  unfold init_scheme. destruct ((lmax >=? lmin) && (lmax >=? 0) && (lmin >=? 0)); [|discriminate].
  intro H. injection H as <-. split; reflexivity.
Qed.

(* ---------- the scheme-level statements ---------- *)

Theorem scheme_inclusion_exclusion s l : Inv s ->
  length l = s_dim s -> Forall (fun x => s_lmin s <= x) l ->
  dominating_sum (combi_scheme_adaptive s) l = if mem l (index_set s) then 1 else 0.
Proof.
  intros I Ll Fl. unfold combi_scheme_adaptive. apply coeffs_inclusion_exclusion_gen.
  - apply inv_index_NoDup; assumption.
  - intros g Hg. apply index_set_In in Hg. destruct (inv_wf s I g Hg) as [L F]. split; [congruence|assumption].
  - assumption.
Qed.

Theorem scheme_support s k c : Inv s -> In (k, c) (combi_scheme_adaptive s) -> In k (index_set s) /\ c <> 0.
Proof.
  intros I H. split.
  - eapply coeffs_support_gen; [apply inv_bclosed_index; assumption | exact H].
  - eapply coefficients_nonzero; exact H.
Qed.

Theorem scheme_total_one s : Inv s -> sumZ (map snd (combi_scheme_adaptive s)) = 1.
Proof.
  intro I. unfold combi_scheme_adaptive. apply (coeffs_total_one_gen (s_lmin s) (index_set s) (s_dim s)).
  - apply inv_index_NoDup; assumption.
  - intros g Hg. apply index_set_In in Hg. apply (inv_wf s I g Hg).
  - apply index_set_In. apply (inv_min s I).
Qed.

(* box form of downward closure, derived from the neighbour form *)
Lemma bclosed_box lmin I : bclosed lmin I ->
  forall k, forall pre j, In (pre ++ k) I -> length j = length k ->
  Forall2 (fun a b => lmin <= a <= b) j k -> In (pre ++ j) I.
Proof.
  intro Hc. induction k as [|x k IH]; intros pre j HI L F.
  - destruct j; [assumption|discriminate].
  - destruct j as [|y j]; [discriminate|]. inversion F; subst. injection L as L.
    (* lower the head from x to y step by step *)
    assert (forall m : nat, lmin <= x - Z.of_nat m -> In (pre ++ (x - Z.of_nat m) :: k) I) as Hstep.
    { induction m as [|m IHm]; intro Hm.
      - replace (x - Z.of_nat 0) with x by lia. assumption.
      - replace (x - Z.of_nat (S m)) with (x - Z.of_nat m + -1) by lia.
        rewrite <- bump_app. apply Hc.
        + apply IHm. lia.
        + rewrite app_length. simpl. lia.
        + rewrite app_nth2 by lia. rewrite Nat.sub_diag. simpl. lia. }
    specialize (Hstep (Z.to_nat (x - y))). replace (x - Z.of_nat (Z.to_nat (x - y))) with y in Hstep by lia.
    specialize (Hstep ltac:(lia)).
    change (pre ++ y :: j) with (pre ++ [y] ++ j). rewrite app_assoc. apply IH; [|assumption|assumption].
    rewrite <- app_assoc. assumption.
Qed.

Theorem scheme_downward_closed s : Inv s ->
  forall k j, In k (index_set s) -> length j = length k -> Forall2 (fun a b => s_lmin s <= a <= b) j k ->
  In j (index_set s).
Proof.
  intros I k j Hk L F. apply (bclosed_box (s_lmin s) (index_set s) (inv_bclosed_index s I) k [] j); assumption.
Qed.

Theorem scheme_old_downward_closed s : Inv s ->
  forall k j, In k (s_old s) -> length j = length k -> Forall2 (fun a b => s_lmin s <= a <= b) j k ->
  In j (s_old s).
Proof.
  intros I k j Hk L F. apply (bclosed_box (s_lmin s) (s_old s) (inv_bclosed_old s I) k [] j); assumption.
Qed.
