(* C09 phase 3 — machine-checked witnesses of the open known findings that the model can express, and the "depends only on the point
   set" clause of the trapezoidal rule as the code has it (sorted lists only; permutations; duplicates). *)
From Coq Require Import ZArith List QArith Qcanon Bool Arith Lia Permutation.
From SG Require Import Base.QcUtil Model.Trap Model.Basis Model.LagrangeQuad Proofs.TrapBasics Proofs.Trap.
Import ListNotations.
Open Scope Qc_scope.

Definition qq (n : Z) (d : positive) : Qc := Q2Qc (n # d).

(* ------------------------------------------------------------------ finding C09-lagrange-modified-linear, on the model:
   GlobalLagrangeGrid(p = 2, boundary = False, modified_basis = True) on [0,1] with the points 0, 1/4, 1/2, 1 (levels 0,2,1,0):
   the effective nodal weights are 1/2, 1/2 - they sum to b - a, but the first moment is 3/8 instead of 1/2 *)
Theorem lagrange_modified_linear_refuted :
  exists w, lagrange_nodal_weights 2 false true 0 1 [0; qq 1 4; qq 1 2; 1] [0; 2; 1; 0]%nat = Some w /\
            sumQ w = 1 - 0 /\ dotQ w [qq 1 4; qq 1 2] <> (1 * 1 - 0 * 0) * Qchalf.
Proof.
  exists [qq 1 2; qq 1 2]. split; [vm_compute; reflexivity|]. split; [apply Qc_is_canon; vm_compute; reflexivity|].
  intro E. apply Qc_eq_Qeq in E. vm_compute in E. discriminate E.
Qed.

(* ------------------------------------------------------------------ finding C09-bspline-modified-linear, on the model:
   GlobalBSplineGrid(p = 1, boundary = False, modified_basis = True) on [-1,3] with the points -1, 0, 1, 3 (levels 0,2,1,0): the
   interpolant of f(x) = x has the surpluses -1 (at 0) and 1 (at 1) and the value 1 at x = 2 - right of the level-1 point, where no
   level-2 child exists, it is the constant continuation: linear functions are not reproduced (and therefore not integrated exactly;
   the model has no formal integral of the not-a-knot B-splines, the quadrature defect itself is certified per case) *)
Theorem bspline_modified_linear_not_reproduced :
  exists sy sur, bspline_system 1 false true (qq (-1) 1) (qq 3 1) [qq (-1) 1; 0; 1; qq 3 1] [0; 2; 1; 0]%nat = Some sy /\
    map fst sy = [0; 1] /\
    let s := {| s_basis := sy; s_ord := None |} in
    hier_nd [s] (map (fun x => x) (map fst sy)) = Some sur /\
    interp_nd [s] [0] sur = 0 /\ interp_nd [s] [1] sur = 1 /\ interp_nd [s] [qq (-1) 2] sur = qq (-1) 2 /\
    interp_nd [s] [qq 2 1] sur = 1 /\ interp_nd [s] [qq 2 1] sur <> qq 2 1.
Proof.
  eexists. eexists. split; [vm_compute; reflexivity|]. split; [reflexivity|]. cbv zeta.
  split; [vm_compute; reflexivity|].
  repeat split; try (apply Qc_is_canon; vm_compute; reflexivity).
  intro E. apply Qc_eq_Qeq in E. vm_compute in E. discriminate E.
Qed.

(* ------------------------------------------------------------------ "depends only on the point set" as the code has it *)
Lemma sorted_le_head_min (x0 : Qc) t : sorted_le (x0 :: t) = true -> forall y, In y t -> x0 <= y.
Proof.
  revert x0. induction t as [|x1 t IH]; intros x0 H y Hy; [destruct Hy|].
  cbn [sorted_le] in H. apply andb_true_iff in H. destruct H as [H1 H2]. apply Qc_leb_le in H1.
  destruct Hy as [<-|Hy]; [exact H1|]. apply Qcle_trans with x1; [exact H1 | exact (IH x1 H2 y Hy)].
Qed.

Lemma sorted_le_tail (x0 : Qc) t : sorted_le (x0 :: t) = true -> sorted_le t = true.
Proof. destruct t as [|x1 t]; [reflexivity|]. cbn [sorted_le]. intro H. apply andb_true_iff in H. exact (proj2 H). Qed.

(* two sorted lists with the same multiset of points are the same list *)
Lemma sorted_perm_eq : forall x y : list Qc, sorted_le x = true -> sorted_le y = true -> Permutation x y -> x = y.
Proof.
  induction x as [|x0 tx IH]; intros y Sx Sy P.
  - apply Permutation_nil in P. subst. reflexivity.
  - destruct y as [|y0 ty]; [apply Permutation_sym, Permutation_nil in P; discriminate|].
    assert (E : x0 = y0).
    { apply Qcle_antisym.
      - assert (I : In y0 (x0 :: tx)) by (apply (Permutation_in _ (Permutation_sym P)); left; reflexivity).
        destruct I as [I|I]; [subst; apply Qcle_refl | exact (sorted_le_head_min x0 tx Sx y0 I)].
      - assert (I : In x0 (y0 :: ty)) by (apply (Permutation_in _ P); left; reflexivity).
        destruct I as [I|I]; [subst; apply Qcle_refl | exact (sorted_le_head_min y0 ty Sy x0 I)]. }
    subst y0. f_equal. apply IH; [exact (sorted_le_tail _ _ Sx) | exact (sorted_le_tail _ _ Sy) | exact (Permutation_cons_inv P)].
Qed.

(* set_grid accepts sorted stripes only (non-strict: duplicates pass the assert), so among all orderings of a multiset of points
   exactly one is accepted, and the rule is a function of the multiset: *)
Theorem set_grid_rejects_unsorted bd mb a b x lv : sorted_le x = false -> set_grid_1d bd mb a b x lv = None.
Proof.
  intro H. unfold set_grid_1d. destruct (mb && bd); [reflexivity|].
  destruct (negb (length lv =? length x)%nat); [reflexivity|]. rewrite H. reflexivity.
Qed.

Theorem trap_depends_only_on_multiset bd mb a b x y lv gx gy :
  Permutation x y -> set_grid_1d bd mb a b x lv = Some gx -> set_grid_1d bd mb a b y lv = Some gy ->
  x = y /\ gx = gy /\ compute_weights x a b mb = compute_weights y a b mb.
Proof.
  intros P Hx Hy.
  assert (Sx : sorted_le x = true) by (destruct (sorted_le x) eqn:E; [reflexivity | rewrite (set_grid_rejects_unsorted bd mb a b x lv E) in Hx; discriminate]).
  assert (Sy : sorted_le y = true) by (destruct (sorted_le y) eqn:E; [reflexivity | rewrite (set_grid_rejects_unsorted bd mb a b y lv E) in Hy; discriminate]).
  pose proof (sorted_perm_eq x y Sx Sy P) as E. subst y. rewrite Hx in Hy. injection Hy as <-. repeat split.
Qed.

(* duplicates (accepted by the non-strict sortedness assert): the unmodified rule as a functional does not change when a point is
   listed twice - the two copies share the weight of the single point (a zero-width panel contributes nothing) *)
Fixpoint trap_functional (f : Qc -> Qc) (l : list Qc) : Qc :=
  match l with
  | x0 :: ((x1 :: _) as t) => Qchalf * (x1 - x0) * (f x0 + f x1) + trap_functional f t
  | _ => 0
  end.

Lemma pl_int_list f : forall x, pl_int (nq x) (nq (map f x)) 0 (length x - 1) = trap_functional f x.
Proof.
  induction x as [|x0 t IH]; [reflexivity|]. destruct t as [|x1 t]; [reflexivity|].
  replace (length (x0 :: x1 :: t) - 1)%nat with (S (length (x1 :: t) - 1)) by (cbn [length]; lia).
  unfold pl_int in *. rewrite sum_range_S_l, sum_range_shift.
  change (trap_functional f (x0 :: x1 :: t)) with (Qchalf * (x1 - x0) * (f x0 + f x1) + trap_functional f (x1 :: t)).
  rewrite <- IH. f_equal.
  unfold nq. cbn [map nth]. apply line_int_trap.
Qed.

Theorem trap_duplicate_point_invisible f a b l1 p l2 :
  dotQ (weights_raw false (l1 ++ p :: p :: l2) a b) (map f (l1 ++ p :: p :: l2))
  = dotQ (weights_raw false (l1 ++ p :: l2) a b) (map f (l1 ++ p :: l2)).
Proof.
  rewrite !trap_is_pl_integral by (rewrite map_length; reflexivity). rewrite !pl_int_list.
  induction l1 as [|y l1 IH].
  - cbn [app trap_functional]. destruct l2 as [|z l2]; ring.
  - destruct l1 as [|y1 l1]; cbn [app] in *; cbn [trap_functional]; cbn [trap_functional] in IH; rewrite IH; reflexivity.
Qed.
