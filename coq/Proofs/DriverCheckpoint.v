(* C14: save / restore.  A history with arbitrarily many restores of one checkpoint, interleaved in any order with continuations of
   the restored copies: every copy depends on the checkpoint and on the calls addressed to IT only, and - under the hypotheses of the
   resume theorem - ends in the state the single uninterrupted run with that copy's final limits reaches. *)
From Coq Require Import ZArith List Bool QArith Qcanon Lia.
From SG Require Import Base.QcUtil Model.Driver Proofs.DriverProofs Proofs.DriverSpec Proofs.DriverLegs.
Import ListNotations.
Open Scope Z_scope.

Lemma upd_length {A} (f : A -> A) l : forall i, length (upd i f l) = length l.
Proof. induction l as [|x r IH]; intros [|i]; cbn; try reflexivity. rewrite IH. reflexivity. Qed.

Lemma upd_nth_same {A} (f : A -> A) l : forall i, nth_error (upd i f l) i = option_map f (nth_error l i).
Proof. induction l as [|x r IH]; intros [|i]; cbn; try reflexivity. apply IH. Qed.

Lemma upd_nth_other {A} (f : A -> A) l : forall i j, i <> j -> nth_error (upd j f l) i = nth_error l i.
Proof.
  induction l as [|x r IH]; intros [|i] [|j] H; cbn; try reflexivity; [contradiction|]. apply IH. intro E. apply H. f_equal. exact E.
Qed.

Section CheckpointProof.
  Variable St : Type.
  Variable evaluate : St -> St.
  Variable refine : St -> St.
  Variable observe : St -> obs.

  Notation run := (run St evaluate refine observe).
  Notation run_legs := (run_legs St evaluate refine observe).
  Notation run_legs_opt := (run_legs_opt St evaluate refine observe).
  Notation ck_exec := (ck_exec St evaluate refine observe).

  Lemma run_legs_app a : forall b s d,
    run_legs (a ++ b) s d = run_legs_opt b (run_legs a s d).
  Proof.
    induction a as [|[l n] r IH]; intros b s d; cbn [app Driver.run_legs Driver.run_legs_opt]; [reflexivity|].
    destruct (run_rec St evaluate refine observe l n s d) as [[s' d']|]; [apply IH|reflexivity].
  Qed.

  Lemma run_legs_opt_cons l n r x : run_legs_opt ((l, n) :: r) x = run_legs_opt r (run_legs_opt [(l, n)] x).
  Proof.
    destruct x as [[s d]|]; cbn [Driver.run_legs_opt Driver.run_legs]; [|reflexivity].
    destruct (run_rec St evaluate refine observe l n s d) as [[s' d']|]; reflexivity.
  Qed.

  Lemma ck_exec_length c ops : forall store, (length store <= length (ck_exec c ops store))%nat.
  Proof.
    induction ops as [|[|i l n] r IH]; intro store; cbn [Driver.ck_exec]; [lia| |].
    - specialize (IH (store ++ [Some c])). rewrite app_length in IH. cbn in IH. lia.
    - specialize (IH (upd i (run_legs_opt [(l, n)]) store)). rewrite upd_length in IH. exact IH.
  Qed.

  Lemma ck_exec_app c a : forall b store, ck_exec c (a ++ b) store = ck_exec c b (ck_exec c a store).
  Proof. induction a as [|[|i l n] r IH]; intros b store; cbn [app Driver.ck_exec]; [reflexivity| |]; apply IH. Qed.

  (* INDEPENDENCE: whatever is restored or continued in between, a live copy ends in what the calls addressed to it make of it *)
  Theorem copy_depends_on_its_own_calls_only c ops : forall store i x,
    nth_error store i = Some x ->
    nth_error (ck_exec c ops store) i = Some (run_legs_opt (legs_of i ops) x).
  Proof.
    induction ops as [|[|j l n] r IH]; intros store i x H; cbn [Driver.ck_exec legs_of].
    - rewrite H. destruct x as [[s d]|]; reflexivity.
    - apply IH. rewrite nth_error_app1; [exact H|]. apply nth_error_Some. congruence.
    - destruct (Nat.eqb i j) eqn:E.
      + apply Nat.eqb_eq in E. subst j. rewrite run_legs_opt_cons. apply IH. rewrite upd_nth_same, H. reflexivity.
      + apply Nat.eqb_neq in E. apply IH. rewrite upd_nth_other by exact E. exact H.
  Qed.

  (* a copy created by a restore at ANY point of the history starts from the checkpoint as saved - not from what other copies (or
     earlier restores of the same file) have become *)
  Theorem restored_copy_starts_from_the_checkpoint c pre post store :
    let i := length (ck_exec c pre store) in
    nth_error (ck_exec c (pre ++ OpRestore :: post) store) i = Some (run_legs_opt (legs_of i post) (Some c)).
  Proof.
    intro i. rewrite ck_exec_app. cbn [Driver.ck_exec].
    apply copy_depends_on_its_own_calls_only. unfold i. rewrite nth_error_app2 by lia. rewrite Nat.sub_diag. reflexivity.
  Qed.

  Hypothesis evaluate_idempotent : forall s, evaluate (evaluate s) = evaluate s.

  (* ... and therefore every copy ends where the single uninterrupted run with ITS final limits ends: the checkpoint was reached by
     the calls `prefix` from the initial state, copy i received the calls legs_of i post; if all these limits grow to the last one *)
  Theorem checkpoint_copies_end_where_single_runs_end prefix s d c pre post store lf s_i d_i :
    run_legs prefix s d = Some c ->
    let i := length (ck_exec c pre store) in
    let mine := legs_of i post in
    nth_error (ck_exec c (pre ++ OpRestore :: post) store) i = Some (Some (s_i, d_i)) ->
    mine <> [] -> last (map fst (prefix ++ mine)) lf = lf -> all_growb (map fst (prefix ++ mine)) lf = true ->
    run lf (legs_fuel (prefix ++ mine)) s = Some s_i.
  Proof.
    intros Hc i mine H Hne Hlast Hg.
    pose proof (restored_copy_starts_from_the_checkpoint c pre post store) as R. cbv zeta in R. fold i in R. fold mine in R.
    rewrite R in H. injection H as H.
    assert (E : run_legs (prefix ++ mine) s d = Some (s_i, d_i)) by (rewrite run_legs_app, Hc; exact H).
    apply (legs_grow_end_where_single_run_ends St evaluate refine observe evaluate_idempotent (prefix ++ mine) lf s d s_i d_i); try assumption.
    destruct prefix; [cbn; exact Hne|discriminate].
  Qed.
End CheckpointProof.
