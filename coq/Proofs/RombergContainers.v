(* C11 — container OBJECTS (Model/RombergContainers.v): on every container that the pipeline creates the attributes
   left_point / right_point / max_level / minimal_step_width are those of its slices, for every grid, grouping and
   history of append_slice calls; the object-level pipeline (weight factory built from the ATTRIBUTES) computes exactly
   what the list-level model of Model/Romberg.v computes, so every theorem about extrapolation_grid_from holds for it.
   find_closest_power_below (the Python for loop) is the largest power of two <= n.  The variant of
   split_into_containers_with_power_two_sizes that keeps the original container object for the last block breaks the
   invariant (refutation with witness). *)
From Coq Require Import ZArith List QArith Qcanon Bool Arith Lia.
From SG Require Import Base.QcUtil Model.Romberg Model.RombergContainers Proofs.RombergBasics Proofs.RombergCoeff
  Proofs.RombergSliced Proofs.RombergExact Proofs.RombergGrouped.
Import ListNotations.
Open Scope Qc_scope.

(* ---------------------------------------------------------------------------------------------- *)
(* the invariant *)

Definition min_width (c : list slice) : option Qc :=
  match c with
  | [] => None
  | s :: r => Some (fold_left (fun w s' => Qc_min w (sl_r s' - sl_l s')) r (sl_r s - sl_l s))
  end.

Definition cont_ok (c : cont) : Prop :=
  c_slices c <> [] /\
  c_left c = Some (container_left (c_slices c)) /\
  c_right c = Some (container_right (c_slices c)) /\
  c_max_level c = Some (list_max (map sl_max_level (c_slices c))) /\
  c_min_step c = min_width (c_slices c).

Lemma container_right_snoc l s : container_right (l ++ [s]) = sl_r s.
Proof. unfold container_right. rewrite last_last. reflexivity. Qed.

Lemma container_left_snoc l s : l <> [] -> container_left (l ++ [s]) = container_left l.
Proof. destruct l; [congruence | reflexivity]. Qed.

Lemma cont_single_ok s : cont_ok (cont_single s).
Proof.
  unfold cont_ok, cont_single, cont_append, cont_new. cbn.
  split; [discriminate|]. split; [reflexivity|]. split; [reflexivity|]. split; [|reflexivity].
  rewrite Nat.max_0_r. reflexivity.
Qed.

Lemma cont_append_ok c s : cont_ok c -> cont_ok (cont_append c s).
Proof.
  intros (Hne & Hl & Hr & Hm & Hw). unfold cont_ok, cont_append. cbn [c_slices c_left c_right c_max_level c_min_step].
  split; [intro E; apply app_eq_nil in E; destruct E; discriminate|].
  split; [rewrite Hl, container_left_snoc by exact Hne; reflexivity|].
  split; [rewrite container_right_snoc; reflexivity|].
  split.
  - rewrite Hm, map_app, list_max_app. cbn. rewrite Nat.max_0_r. reflexivity.
  - rewrite Hw. destruct (c_slices c) as [|s0 r]; [congruence|]. cbn [min_width app].
    rewrite fold_left_app. reflexivity.
Qed.

Lemma fold_append_slices l : forall c, c_slices (fold_left cont_append l c) = c_slices c ++ l.
Proof.
  induction l as [|s l IH]; intro c; cbn [fold_left]; [rewrite app_nil_r; reflexivity|].
  rewrite IH. cbn [cont_append c_slices]. rewrite <- app_assoc. reflexivity.
Qed.

Lemma fold_append_ok l : forall c, cont_ok c -> cont_ok (fold_left cont_append l c).
Proof. induction l as [|s l IH]; intros c H; cbn [fold_left]; [exact H | apply IH, cont_append_ok, H]. Qed.

Lemma fold_append_new_ok l : l <> [] -> cont_ok (fold_left cont_append l cont_new).
Proof. destruct l as [|s l]; [congruence|]. intros _. cbn [fold_left]. apply fold_append_ok, cont_single_ok. Qed.

(* ---------------------------------------------------------------------------------------------- *)
(* __initialize_default_containers on objects = group_aux on lists *)

Lemma obj_group_spec unit : forall rest last pre cur curw,
  c_slices last = rev cur -> Forall cont_ok (last :: pre) ->
  map c_slices (obj_group unit (last :: pre) (Some curw) rest) = map c_slices (rev pre) ++ group_aux unit cur curw rest /\
  Forall cont_ok (obj_group unit (last :: pre) (Some curw) rest).
Proof.
  induction rest as [|s r IH]; intros last pre cur curw Hs Hok; cbn [obj_group group_aux].
  - split.
    + cbn [rev]. rewrite map_app. cbn [map]. rewrite Hs. reflexivity.
    + apply Forall_rev. exact Hok.
  - rewrite (orb_comm (negb (Qc_eqb (sl_width s) curw)) unit).
    destruct (unit || negb (Qc_eqb (sl_width s) curw)) eqn:E.
    + destruct (IH (cont_single s) (last :: pre) [s] (sl_width s) eq_refl) as [A B].
      { constructor; [apply cont_single_ok | exact Hok]. }
      split; [|exact B]. rewrite A. cbn [rev]. rewrite map_app, <- app_assoc. cbn [map app]. rewrite Hs. reflexivity.
    + apply orb_false_elim in E. destruct E as [_ E]. apply negb_false_iff in E. apply Qc_eqb_eq in E.
      apply Forall_cons_iff in Hok. destruct Hok as [Hl Hp].
      destruct (IH (cont_append last s) pre (s :: cur) curw) as [A B].
      { cbn [cont_append c_slices rev]. rewrite Hs. reflexivity. }
      { constructor; [apply cont_append_ok; exact Hl | exact Hp]. }
      rewrite E. split; assumption.
Qed.

Lemma obj_initial_containers_spec g slices :
  map c_slices (obj_initial_containers g slices) = initial_containers g slices /\
  Forall cont_ok (obj_initial_containers g slices).
Proof.
  destruct slices as [|s r]; [split; [reflexivity | constructor]|].
  unfold obj_initial_containers, initial_containers. cbn [obj_group]. cbn [orb].
  destruct (obj_group_spec (match g with G_Unit => true | _ => false end) r (cont_single s) [] [s] (sl_width s) eq_refl) as [A B].
  { constructor; [apply cont_single_ok | constructor]. }
  split; [exact A | exact B].
Qed.

(* ---------------------------------------------------------------------------------------------- *)
(* find_closest_power_below: the for loop of the Python finds the largest power of two <= n *)

Lemma pow2_ge1 k : (1 <= 2 ^ k)%nat.
Proof. apply Nat.neq_0_lt_0, Nat.pow_nonzero. lia. Qed.

Lemma fcpb_loop_spec n : forall k i, (2 ^ i < n)%nat -> (n <= 2 ^ (i + k))%nat ->
  is_power2 (fcpb_loop n (seq i k)) /\ (fcpb_loop n (seq i k) <= n < 2 * fcpb_loop n (seq i k))%nat.
Proof.
  induction k as [|k IH]; intros i Hlo Hhi.
  - rewrite Nat.add_0_r in Hhi. lia.
  - cbn [seq fcpb_loop]. rewrite Nat.pow_succ_r'.
    destruct (Nat.eqb_spec n (2 * 2 ^ i)) as [E|NE].
    + split; [exists (S i); rewrite Nat.pow_succ_r'; reflexivity | lia].
    + destruct (Nat.ltb_spec (2 ^ i) n) as [_|C]; [|lia].
      destruct (Nat.ltb_spec n (2 * 2 ^ i)) as [L|G]; cbn [andb].
      * split; [exists i; reflexivity | lia].
      * apply IH; [rewrite Nat.pow_succ_r'; lia|].
        replace (S i + k)%nat with (i + S k)%nat by lia. exact Hhi.
Qed.

Lemma fcpb_spec n : (1 <= n)%nat ->
  is_power2 (find_closest_power_below n) /\ (find_closest_power_below n <= n < 2 * find_closest_power_below n)%nat.
Proof.
  intro H. unfold find_closest_power_below.
  destruct (Nat.eq_dec n 1) as [->|N1].
  - cbn. split; [exists 0%nat; reflexivity | lia].
  - apply fcpb_loop_spec; [simpl; lia|]. cbn [plus]. apply Nat.lt_le_incl, Nat.pow_gt_lin_r. lia.
Qed.

Lemma pow2_below_fuel_upper fuel : forall n p, (1 <= p)%nat -> (n < p * 2 ^ fuel)%nat ->
  (n < 2 * pow2_below_fuel fuel n p)%nat.
Proof.
  induction fuel as [|f IH]; intros n p Hp Hn; cbn [pow2_below_fuel].
  - simpl in Hn. lia.
  - destruct (Nat.leb_spec (2 * p) n) as [L|G]; [|lia].
    apply IH; [lia|]. rewrite Nat.pow_succ_r' in Hn. lia.
Qed.

Lemma pow2_below_upper n : (n < 2 * pow2_below n)%nat.
Proof.
  unfold pow2_below. apply pow2_below_fuel_upper; [lia|]. rewrite Nat.mul_1_l. apply Nat.pow_gt_lin_r. lia.
Qed.

Lemma power2_window_unique n p q : is_power2 p -> is_power2 q ->
  (p <= n < 2 * p)%nat -> (q <= n < 2 * q)%nat -> p = q.
Proof.
  intros [a ->] [b ->] Hp Hq.
  destruct (Nat.lt_trichotomy a b) as [L|[E|L]]; [|congruence|].
  - assert (X : (2 ^ (S a) <= 2 ^ b)%nat) by (apply Nat.pow_le_mono_r; lia). rewrite Nat.pow_succ_r' in X. lia.
  - assert (X : (2 ^ (S b) <= 2 ^ a)%nat) by (apply Nat.pow_le_mono_r; lia). rewrite Nat.pow_succ_r' in X. lia.
Qed.

Theorem find_closest_power_below_is_pow2_below n : (1 <= n)%nat -> find_closest_power_below n = pow2_below n.
Proof.
  intro H. destruct (fcpb_spec n H) as [P1 R1]. destruct (pow2_below_spec n H) as [P2 R2].
  assert (U := pow2_below_upper n). apply (power2_window_unique n); try assumption. lia.
Qed.

(* ---------------------------------------------------------------------------------------------- *)
(* split_into_containers_with_power_two_sizes on objects = split_pow2 on lists *)

Lemma move_slices_spec : forall k nc rest, (k <= length rest)%nat ->
  move_slices k nc rest = (fold_left cont_append (firstn k rest) nc, skipn k rest).
Proof.
  induction k as [|k IH]; intros nc rest H; [reflexivity|].
  destruct rest as [|s r]; [simpl in H; lia|]. cbn [move_slices firstn skipn fold_left].
  apply IH. simpl in H. lia.
Qed.

Lemma obj_split_spec fuel : forall rest,
  map c_slices (obj_split fuel rest) = split_pow2 fuel rest /\ Forall cont_ok (obj_split fuel rest).
Proof.
  induction fuel as [|f IH]; intro rest; [split; [reflexivity | constructor]|].
  destruct rest as [|s r]; [split; [reflexivity | constructor]|].
  set (l := s :: r). cbn [obj_split split_pow2].
  change (match l with [] => [] | _ :: _ => ?x end) with x.
  assert (Hl : (1 <= length l)%nat) by (unfold l; simpl; lia).
  rewrite (find_closest_power_below_is_pow2_below _ Hl).
  destruct (pow2_below_spec _ Hl) as [_ R].
  change (match l with [] => [] | _ :: _ => ?x end) with x.
  rewrite move_slices_spec by lia.
  destruct (IH (skipn (pow2_below (length l)) l)) as [A B].
  split.
  - cbn [map]. rewrite fold_append_slices, A. reflexivity.
  - constructor; [|exact B]. apply fold_append_new_ok.
    unfold l in *. destruct (pow2_below (length (s :: r))) eqn:E; [lia | discriminate].
Qed.

Lemma map_single_spec l :
  map c_slices (map cont_single l) = map (fun s => [s]) l /\ Forall cont_ok (map cont_single l).
Proof.
  induction l as [|s l [A B]]; [split; [reflexivity | constructor]|].
  split; [cbn [map]; rewrite A; reflexivity | constructor; [apply cont_single_ok | exact B]].
Qed.

Lemma obj_adjust_spec g cs : Forall cont_ok cs ->
  map c_slices (obj_adjust g cs) = adjust_containers g (map c_slices cs) /\ Forall cont_ok (obj_adjust g cs).
Proof.
  induction cs as [|c cs IH]; intro H; [split; [reflexivity | constructor]|].
  apply Forall_cons_iff in H. destruct H as [Hc H]. destruct (IH H) as [A B].
  unfold obj_adjust, adjust_containers in *. cbn [flat_map map]. rewrite map_app, A.
  destruct (is_pow2 (length (c_slices c))).
  - split; [reflexivity | apply Forall_app; split; [constructor; [exact Hc | constructor] | exact B]].
  - destruct g.
    + destruct (map_single_spec (c_slices c)) as [X Y]. rewrite X. split; [reflexivity | apply Forall_app; split; assumption].
    + destruct (map_single_spec (c_slices c)) as [X Y]. rewrite X. split; [reflexivity | apply Forall_app; split; assumption].
    + destruct (obj_split_spec (length (c_slices c)) (c_slices c)) as [X Y]. rewrite X.
      split; [reflexivity | apply Forall_app; split; assumption].
Qed.

(* ---------------------------------------------------------------------------------------------- *)
(* get_final_weights of a container object whose attributes are right = the list-level container_final_from *)

Lemma container_final_ab_ends lo sv cv c :
  container_final_ab lo sv cv (container_left c) (container_right c) c = container_final_from lo sv cv c.
Proof. destruct c as [|s [|s2 c]]; reflexivity. Qed.

Lemma obj_container_final_ok lo sv cv c : cont_ok c ->
  obj_container_final_from lo sv cv c = container_final_from lo sv cv (c_slices c).
Proof.
  intros (Hne & Hl & Hr & _). unfold obj_container_final_from. rewrite Hl, Hr, container_final_ab_ends.
  destruct (c_slices c) as [|s [|s2 l]]; reflexivity.
Qed.

(* ---------------------------------------------------------------------------------------------- *)
(* MAIN: the pipeline on container objects *)

(* every container the pipeline creates carries the end points, the maximal level and the minimal step width of its slices *)
Theorem obj_containers_ok g slices : Forall cont_ok (obj_adjust g (obj_initial_containers g slices)).
Proof. apply obj_adjust_spec, obj_initial_containers_spec. Qed.

Theorem obj_containers_slices g slices :
  map c_slices (obj_adjust g (obj_initial_containers g slices)) = adjust_containers g (initial_containers g slices).
Proof.
  destruct (obj_initial_containers_spec g slices) as [A B].
  rewrite (proj1 (obj_adjust_spec g _ B)), A. reflexivity.
Qed.

Lemma map_ext_Forall {A B} (f g : A -> B) (P : A -> Prop) l :
  Forall P l -> (forall x, P x -> f x = g x) -> map f l = map g l.
Proof. induction 1 as [|x l Hx _ IH]; intro H; [reflexivity | cbn [map]; rewrite (H x Hx), IH by exact H; reflexivity]. Qed.

(* the object-level pipeline returns exactly the result of the list-level model *)
Theorem obj_pipeline_is_model lo g sv cv force grid levels :
  option_map fst (extrapolation_grid_obj_from lo g sv cv force grid levels) = extrapolation_grid_from lo g sv cv force grid levels.
Proof.
  unfold extrapolation_grid_obj_from, extrapolation_grid_from.
  destruct (Nat.eqb (length grid) (length levels) && (2 <=? length grid)%nat); [|reflexivity].
  destruct (if force then _ else _) as [[gr lv]|]; [|reflexivity].
  destruct (init_grid_slices gr lv) as [slices|]; [|reflexivity].
  assert (S := obj_containers_slices g slices). assert (K := obj_containers_ok g slices).
  set (cs := obj_adjust g (obj_initial_containers g slices)) in *.
  assert (E1 : map (obj_container_final_from lo sv cv) cs
               = map (container_final_from lo sv cv) (adjust_containers g (initial_containers g slices))).
  { rewrite <- S, map_map. apply (map_ext_Forall _ _ cont_ok cs K). intros c Hc. apply obj_container_final_ok, Hc. }
  assert (E2 : map (fun c => length (c_slices c)) cs = map (@length slice) (adjust_containers g (initial_containers g slices))).
  { rewrite <- S, map_map. reflexivity. }
  rewrite E1, E2. destruct (opt_concat _); reflexivity.
Qed.

(* ... and the containers it returns satisfy the invariant and are the containers of the list-level model *)
Theorem obj_pipeline_containers lo g sv cv force grid levels r cs :
  extrapolation_grid_obj_from lo g sv cv force grid levels = Some (r, cs) ->
  extrapolation_grid_from lo g sv cv force grid levels = Some r /\
  Forall cont_ok cs /\ map (fun c => length (c_slices c)) cs = er_container_sizes r /\
  concat (map c_slices cs) = match init_grid_slices (er_grid r) (er_levels r) with Some sl => sl | None => [] end.
Proof.
  intro H. assert (M := obj_pipeline_is_model lo g sv cv force grid levels). rewrite H in M. cbn in M.
  split; [symmetry; exact M|].
  revert H. unfold extrapolation_grid_obj_from.
  destruct (Nat.eqb (length grid) (length levels) && (2 <=? length grid)%nat); [|discriminate].
  destruct (if force then _ else _) as [[gr lv]|]; [|discriminate].
  destruct (init_grid_slices gr lv) as [slices|] eqn:Es; [|discriminate].
  destruct (opt_concat _); [|discriminate]. intro H. injection H as <- <-.
  cbn [er_container_sizes er_grid er_levels]. rewrite Es.
  split; [apply obj_containers_ok|]. split; [reflexivity|].
  rewrite obj_containers_slices.
  destruct (initial_containers_spec g slices) as [I1 I2].
  destruct (adjust_containers_spec g _ I2) as [A1 _]. rewrite A1, I1. reflexivity.
Qed.

(* consequence: total weight and first moment for the object-level pipeline (default containers, every grouping) *)
Theorem obj_sliced_weights_consistent lo g sv force grid levels r cs :
  extrapolation_grid_obj_from lo g sv CV_Default force grid levels = Some (r, cs) ->
  sumQ (er_weights r) = grid_b r - grid_a r /\ wmom (er_dict r) = half_sq (grid_a r) (grid_b r).
Proof.
  intro H. apply obj_pipeline_containers in H. destruct H as [H _].
  exact (sliced_weights_consistent lo g sv force grid levels r H).
Qed.

(* ---------------------------------------------------------------------------------------------- *)
(* the variant that keeps the original container object for the last block violates the invariant *)

Definition wslice (k : Z) : slice :=
  mkSlice (Q2Qc (k # 8)) (Q2Qc ((k + 1) # 8)) 3 3 [].

Definition six : cont := fold_left cont_append (map wslice [2; 3; 4; 5; 6; 7]%Z) cont_new.

Theorem split_reuse_refuted :
  cont_ok six /\
  exists c', In c' (obj_split_reuse (length (c_slices six)) six) /\
             c_left c' <> Some (container_left (c_slices c')).
Proof.
  split.
  - apply fold_append_new_ok. discriminate.
  - eexists. split.
    + cbn. right. left. reflexivity.
    + cbn. intro H. injection H as H. discriminate H.
Qed.

(* ... while the code as it is returns, for the same container, two containers with the right end points *)
Example split_six_endpoints :
  map (fun c => (option_map this (c_left c), option_map this (c_right c), length (c_slices c)))
      (obj_split 6 (c_slices six))
  = [(Some (1 # 4)%Q, Some (3 # 4)%Q, 4%nat); (Some (3 # 4)%Q, Some 1%Q, 2%nat)].
Proof. vm_compute. reflexivity. Qed.
