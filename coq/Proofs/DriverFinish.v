(* C14 up to an equivalence of refinement states (floating point rounding), with reevaluate_at_end.

   The real strategies are idempotent under re-evaluation only UP TO ROUNDING as soon as evaluate_final_combi is involved
   (the combination is recomputed from scratch in another summation order) and the stop-and-continue run then carries a
   result that differs from the uninterrupted one in the last bits.  The statement proved here: for every equivalence R on
   states that evaluate and refine respect, under which (i) re-evaluating an evaluated state, and (ii) evaluate_final_combi
   on an evaluated state, stay in the same class, and (iii) the stopping decisions with the limits used do not separate
   equivalent states (no decision sits within rounding distance of a tie), stop / [finish] / continue with grown limits ends
   in a state EQUIVALENT to the end of the single run - any number of times, whatever the reevaluate_at_end flags are.
   With R := eq and finish := id this is resume_equals_uninterrupted. *)
From Coq Require Import ZArith List Bool QArith Qcanon Lia.
From SG Require Import Base.QcUtil Model.Driver Proofs.DriverProofs Proofs.DriverSpec.
Import ListNotations.
Open Scope Z_scope.

Section FinishProof.
  Variable St : Type.
  Variable evaluate : St -> St.
  Variable refine : St -> St.
  Variable finish : St -> St.
  Variable observe : St -> obs.
  Variable R : St -> St -> Prop.
  Variable L : limits -> Prop.           (* the limits that occur in the history *)

  Notation run := (run St evaluate refine observe).
  Notation run_fin := (run_fin St evaluate refine finish observe).

  Hypothesis R_refl : forall s, R s s.
  Hypothesis R_sym : forall s t, R s t -> R t s.
  Hypothesis R_trans : forall s t u, R s t -> R t u -> R s u.
  Hypothesis evaluate_R : forall s t, R s t -> R (evaluate s) (evaluate t).
  Hypothesis refine_R : forall s t, R s t -> R (refine s) (refine t).
  Hypothesis decide_R : forall lim s t, L lim -> R s t -> stop_now lim (observe s) = stop_now lim (observe t).
  Hypothesis evaluate_idempotent_R : forall s, R (evaluate (evaluate s)) (evaluate s).
  Hypothesis finish_R : forall s, R (finish (evaluate s)) (evaluate s).

  Lemma run_R lim n : forall s t x, L lim -> R s t -> run lim n s = Some x -> exists y, run lim n t = Some y /\ R x y.
  Proof.
    induction n as [|n IH]; intros s t x Hl Hr H; cbn in H; [discriminate|]. cbn.
    pose proof (evaluate_R s t Hr) as He. rewrite <- (decide_R lim _ _ Hl He).
    destruct (stop_now lim (observe (evaluate s))).
    - injection H as <-. exists (evaluate t). split; [reflexivity|exact He].
    - apply (IH _ (refine (evaluate t)) x Hl (refine_R _ _ He) H).
  Qed.

  Lemma resume_R_plain l1 l2 n : forall m s x1 y2,
    limits_grow l1 l2 -> L l2 ->
    run l1 n s = Some x1 -> run l2 m x1 = Some y2 ->
    exists k z, (k <= n + m)%nat /\ run l2 k s = Some z /\ R y2 z.
  Proof.
    induction n as [|n IH]; intros m s x1 y2 G Hl H1 H2; cbn in H1; [discriminate|].
    destruct (stop_now l1 (observe (evaluate s))) eqn:E.
    - injection H1 as <-. destruct m as [|m]; [discriminate|]. cbn in H2.
      pose proof (evaluate_idempotent_R s) as Hi. rewrite (decide_R l2 _ _ Hl Hi) in H2.
      destruct (stop_now l2 (observe (evaluate s))) eqn:E2.
      + injection H2 as <-. exists (S m), (evaluate s). split; [lia|]. cbn. rewrite E2. split; [reflexivity|exact Hi].
      + destruct (run_R l2 m _ (refine (evaluate s)) y2 Hl (refine_R _ _ Hi) H2) as [y [Hy Ry]].
        exists (S m), y. split; [lia|]. cbn. rewrite E2. split; [exact Hy|exact Ry].
    - destruct (IH m (refine (evaluate s)) x1 y2 G Hl H1 H2) as [k [z [Hk [Hz Rz]]]].
      exists (S k), z. split; [lia|]. cbn.
      destruct (stop_now l2 (observe (evaluate s))) eqn:E2; [|split; [exact Hz|exact Rz]].
      apply (stop_mono l1 l2 _ G) in E2. congruence.
  Qed.

  Lemma run_fin_inv b lim n s x : run_fin b lim n s = Some x -> exists x0, run lim n s = Some x0 /\ R x x0 /\ exists s0, x0 = evaluate s0.
  Proof.
    unfold Driver.run_fin. destruct (run lim n s) as [x0|] eqn:E; [|discriminate]. intro H. injection H as <-.
    destruct (run_result St evaluate refine observe lim n s x0 E) as [[s0 ->] _].
    exists (evaluate s0). split; [reflexivity|]. split; [|exists s0; reflexivity].
    destruct b; [apply finish_R|apply R_refl].
  Qed.

  (* stop, [evaluate_final_combi], continue with grown limits, [evaluate_final_combi]  ~  single run [evaluate_final_combi] *)
  Theorem resume_equals_uninterrupted_upto b1 b2 b3 l1 l2 n m s s1 s2 :
    limits_grow l1 l2 -> L l2 ->
    run_fin b1 l1 n s = Some s1 -> run_fin b2 l2 m s1 = Some s2 ->
    exists k z, (k <= n + m)%nat /\ run_fin b3 l2 k s = Some z /\ R s2 z.
  Proof.
    intros G Hl H1 H2.
    destruct (run_fin_inv b1 l1 n s s1 H1) as [x1 [E1 [R1 _]]].
    destruct (run_fin_inv b2 l2 m s1 s2 H2) as [x2 [E2 [R2 _]]].
    destruct (run_R l2 m s1 x1 x2 Hl R1 E2) as [y2 [Ey Ry]].
    destruct (resume_R_plain l1 l2 n m s x1 y2 G Hl E1 Ey) as [k [z [Hk [Hz Rz]]]].
    destruct (run_result St evaluate refine observe l2 k s z Hz) as [[s0 ->] _].
    exists k, (if b3 then finish (evaluate s0) else evaluate s0). split; [exact Hk|].
    unfold Driver.run_fin. rewrite Hz. split; [reflexivity|].
    apply (R_trans _ x2); [exact R2|]. apply (R_trans _ y2); [exact Ry|]. apply (R_trans _ (evaluate s0)); [exact Rz|].
    destruct b3; [apply R_sym; apply finish_R|apply R_refl].
  Qed.

  (* any number of interruptions *)
  Fixpoint run_fin_chain (lims : list (bool * limits * nat)) (s : St) : option St :=
    match lims with
    | [] => Some s
    | (b, l, n) :: r => match run_fin b l n s with Some s' => run_fin_chain r s' | None => None end
    end.

  Fixpoint all_grow_to_f (lims : list (bool * limits * nat)) (lf : limits) : Prop :=
    match lims with [] => True | (_, l, _) :: r => limits_grow l lf /\ all_grow_to_f r lf end.

  Theorem resume_chain_equals_uninterrupted_upto lims : forall bf b3 lf nf s s1 s2,
    L lf -> all_grow_to_f lims lf -> run_fin_chain lims s = Some s1 -> run_fin bf lf nf s1 = Some s2 -> lims <> [] ->
    exists k z, run_fin b3 lf k s = Some z /\ R s2 z.
  Proof.
    induction lims as [|[[b l] n] r IH]; intros bf b3 lf nf s s1 s2 Hl G H1 H2 Hne; [contradiction|].
    cbn in H1, G. destruct G as [G Gr]. destruct (run_fin b l n s) as [s'|] eqn:E; [|discriminate].
    destruct r as [|q r'].
    - cbn in H1. injection H1 as <-.
      destruct (resume_equals_uninterrupted_upto b bf b3 l lf n nf s s' s2 G Hl E H2) as [k [z [_ [Hz Rz]]]].
      exists k, z. split; assumption.
    - destruct (IH bf bf lf nf s' s1 s2 Hl Gr H1 H2) as [k [z [Hz Rz]]]; [discriminate|].
      destruct (resume_equals_uninterrupted_upto b bf b3 l lf n k s s' z G Hl E Hz) as [k' [z' [_ [Hz' Rz']]]].
      exists k', z'. split; [exact Hz'|]. apply (R_trans _ z); assumption.
  Qed.
End FinishProof.
