(* Histories of public requests on ONE CombiScheme object (Model/CombiSchemeObj.v): a (re-)initialisation makes
   everything that follows independent of what happened before, and the C01 invariant / inclusion-exclusion
   statements hold after EVERY history of requests that contains no init_full_grid. *)
From Coq Require Import ZArith List Bool Lia.
From SG Require Import Model.CombiScheme Model.CombiSchemeObj Proofs.SchemeBasics Proofs.SchemeIE Proofs.SchemeInv.
Import ListNotations.
Open Scope Z_scope.

(* the state after a successful init_adaptive_combi_scheme is the freshly initialised scheme, whatever the object was *)
Lemma step_init_state o lmax lmin s : init_scheme (o_dim o) lmax lmin = Some s ->
  step o (OpInit lmax lmin) = (R_unit, mkObj (o_dim o) (Some s)).
Proof. intros H. cbn [step]. rewrite H. reflexivity. Qed.

(* ... hence all later results and states are those of a new object: nothing of the earlier history survives *)
Theorem reinit_is_fresh o lmax lmin ops : init_scheme (o_dim o) lmax lmin <> None ->
  run o (OpInit lmax lmin :: ops) = run (fresh_obj (o_dim o)) (OpInit lmax lmin :: ops).
Proof.
  intros H. cbn [run step fresh_obj o_dim]. destruct (init_scheme (o_dim o) lmax lmin); [reflexivity|contradiction].
Qed.

Theorem reinit_full_is_fresh o lmax lmin ops : init_full_scheme (o_dim o) lmax lmin <> None ->
  run o (OpFull lmax lmin :: ops) = run (fresh_obj (o_dim o)) (OpFull lmax lmin :: ops).
Proof.
  intros H. cbn [run step fresh_obj o_dim]. destruct (init_full_scheme (o_dim o) lmax lmin); [reflexivity|contradiction].
Qed.

(* a failing initialisation (parameter asserts) leaves the object as it was *)
Theorem failed_init_keeps_state o lmax lmin : init_scheme (o_dim o) lmax lmin = None ->
  step o (OpInit lmax lmin) = (R_exc, o).
Proof. intros H. cbn [step]. rewrite H. reflexivity. Qed.

(* the object is not initialised, or its state satisfies the invariant *)
Definition good (o : obj) : Prop := match o_st o with None => True | Some s => Inv s end.

Lemma step_dim o p : o_dim (snd (step o p)) = o_dim o.
Proof.
  destruct p; cbn [step].
  - destruct (init_scheme (o_dim o) lmax lmin); reflexivity.
  - destruct (init_full_scheme (o_dim o) lmax lmin); reflexivity.
  - destruct (o_st o) as [s|]; [|reflexivity]. destruct (update_scheme s l); reflexivity.
  - destruct (o_st o); reflexivity.
  - destruct (o_st o); reflexivity.
  - destruct (o_st o); reflexivity.
  - destruct (o_st o); reflexivity.
  - destruct (o_st o); [|reflexivity]. destruct (length l <? o_dim o)%nat; reflexivity.
  - destruct (o_st o); reflexivity.
  - destruct (o_st o); reflexivity.
  - destruct (o_st o); [|reflexivity]. destruct (length l <? o_dim o)%nat; [reflexivity|].
    destruct (extendable (o_dim o) l); reflexivity.
Qed.

Lemma step_good n o p : o_dim o = S n -> is_full p = false -> good o -> good (snd (step o p)).
Proof.
  intros Hd Hp G. unfold good in *. destruct p; cbn [is_full] in Hp; try discriminate; cbn [step].
  - destruct (init_scheme (o_dim o) lmax lmin) as [s|] eqn:E; cbn [snd o_st]; [|exact G].
    rewrite Hd in E. exact (init_inv n lmax lmin s E).
  - destruct (o_st o) as [s|] eqn:Es; cbn [snd o_st]; [|rewrite Es; exact I].
    pose proof (update_inv s l G) as U. unfold update in U.
    destruct (update_scheme s l) as [r s']. cbn [snd o_st] in *. exact U.
  - destruct (o_st o) as [s|] eqn:Es; cbn [snd]; rewrite Es; exact G.
  - destruct (o_st o) as [s|] eqn:Es; cbn [snd]; rewrite Es; exact G.
  - destruct (o_st o) as [s|] eqn:Es; cbn [snd]; rewrite Es; exact G.
  - destruct (o_st o) as [s|] eqn:Es; cbn [snd]; rewrite Es; exact G.
  - destruct (o_st o) as [s|] eqn:Es; [|cbn [snd]; rewrite Es; exact I].
    destruct (length l <? o_dim o)%nat; cbn [snd]; rewrite Es; exact G.
  - destruct (o_st o) as [s|] eqn:Es; cbn [snd]; rewrite Es; exact G.
  - destruct (o_st o) as [s|] eqn:Es; cbn [snd]; rewrite Es; exact G.
  - destruct (o_st o) as [s|] eqn:Es; [|cbn [snd]; rewrite Es; exact I].
    destruct (length l <? o_dim o)%nat; [cbn [snd]; rewrite Es; exact G|].
    destruct (extendable (o_dim o) l). cbn [snd]. rewrite Es. exact G.
Qed.

(* every history of requests (re-initialisations, updates on arbitrary vectors, scheme requests, queries; no
   init_full_grid) on one object of dimension >= 1 keeps the invariant *)
Theorem obj_history_inv n ops : forall o, o_dim o = S n -> good o -> forallb (fun p => negb (is_full p)) ops = true ->
  good (final o ops) /\ o_dim (final o ops) = S n.
Proof.
  induction ops as [|p ops IH]; intros o Hd G Hf; [split; assumption|].
  cbn [forallb] in Hf. apply andb_true_iff in Hf. destruct Hf as [Hp Hf]. apply negb_true_iff in Hp.
  unfold final. cbn [fold_left]. apply IH.
  - rewrite step_dim. exact Hd.
  - exact (step_good n o p Hd Hp G).
  - exact Hf.
Qed.

(* what a scheme request answers after any such history: on an initialised object the inclusion-exclusion
   coefficients of the CURRENT index set (the lmin/lmax arguments are ignored), on a never initialised one the closed form *)
Theorem obj_get_valid n ops a b : forallb (fun p => negb (is_full p)) ops = true ->
  let o := final (fresh_obj (S n)) ops in
  match o_st o with
  | Some s =>
      fst (step o (OpGet a b)) = R_coeffs (combi_scheme_adaptive s) /\ Inv s /\
      (forall l, length l = s_dim s -> Forall (fun x => s_lmin s <= x) l ->
         dominating_sum (combi_scheme_adaptive s) l = if mem l (index_set s) then 1 else 0) /\
      (forall k c, In (k, c) (combi_scheme_adaptive s) -> In k (index_set s) /\ c <> 0) /\
      sumZ (map snd (combi_scheme_adaptive s)) = 1
  | None => fst (step o (OpGet a b)) = R_coeffs (combi_scheme_standard (S n) a b)
  end.
Proof.
  intros Hf o. destruct (obj_history_inv n ops (fresh_obj (S n)) eq_refl I Hf) as [G Hd]. fold o in G, Hd.
  unfold good in G. cbn [step]. destruct (o_st o) as [s|].
  - split; [reflexivity|]. split; [exact G|]. split; [|split].
    + intros l Ll Fl. apply scheme_inclusion_exclusion; assumption.
    + intros k c H. exact (scheme_support s k c G H).
    + exact (scheme_total_one s G).
  - rewrite Hd. reflexivity.
Qed.
