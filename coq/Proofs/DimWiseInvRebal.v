(* C06: the full state invariant DwInv (per dimension Seg = tiling + level agreement + end levels 0 + binary refinement
   tree, coarsening = lmax_d - max(levels) >= 0, cursors reset, C01 scheme invariant) is preserved by EVERY refinement
   step for EVERY option setting - rebalancing on or off, any safety factor, any outcome of the binary64 decisions -
   hence holds after every history. *)
From Coq Require Import ZArith List Bool QArith Qcanon Arith Lia.
From SG Require Import Base.QcUtil Model.CombiScheme Model.RefTree Model.DimWise
     Proofs.SchemeBasics Proofs.SchemeInv Proofs.RefTreeInv Proofs.RefSelect Proofs.RefRemoveSort Proofs.DimWiseInv
     Proofs.DimWiseTile Proofs.RebalanceSeg.
Import ListNotations.
Open Scope Z_scope.

Theorem dw_step_preserves_inv_any a b o bens st st' :
  DwInv a b st -> dw_step o bens st = Some st' -> DwInv a b st'.
Proof.
  intros (HLm & HLc & Hcur & Hall & HI) E. unfold dw_step in E.
  destruct (meta_refine_step_spec (o_margin o) bens (st_meta st) Hcur) as (m1 & Hm1 & Hcur1 & Hlen1 & Hspec1).
  { intros c Hin. apply In_nth_error in Hin. destruct Hin as [d Hd]. destruct (Hall d c Hd) as [F [HS _]].
    split; [assumption|]. eauto. }
  rewrite Hm1 in E.
  destruct (if o_rebal o then opt_map (fun c => rebalance (o_dec o) (c_objs c)) (m_conts m1) else Some (map c_objs (m_conts m1)))
    as [trees2|] eqn:ER; [|discriminate].
  (* the trees after the optional rebalancing keep the structure *)
  assert (H2 : length trees2 = length (m_conts m1) /\
               forall j c1, nth_error (m_conts m1) j = Some c1 ->
                 exists t2, nth_error trees2 j = Some t2 /\ forall x y, Seg x y 0 0 (c_objs c1) -> Seg x y 0 0 t2).
  { destruct (o_rebal o).
    - destruct (opt_map_nth _ _ _ ER) as [L G]. split; [assumption|]. intros j c1 Hj.
      destruct (G j c1 Hj) as (t2 & A & B). exists t2. split; [assumption|].
      intros x y HS. eapply rebalance_Seg; eassumption.
    - injection ER as <-. split; [apply map_length|]. intros j c1 Hj. exists (c_objs c1). split; [|auto].
      rewrite nth_error_map, Hj. reflexivity. }
  destruct H2 as [L2 G2].
  destruct (coarsen_dims 0 trees2 (st_lmax st) (st_lmin st) (st_dim st) (st_scheme st))
    as [[[trees3 lmaxs] s]|] eqn:EC; [|discriminate].
  injection E as <-.
  destruct (coarsen_dims_spec _ _ _ _ _ _ _ _ _ EC) as (L1 & L3 & HI2 & _ & Hall3); [simpl; lia | assumption|].
  unfold DwInv. simpl. split; [lia|]. split; [rewrite map_length, combine_length; lia|].
  split; [assumption|]. split; [|assumption].
  intros d c Hd. rewrite nth_error_map in Hd.
  destruct (nth_error (combine (m_conts m1) trees3) d) as [[c1 t3]|] eqn:Ecomb; [|discriminate].
  simpl in Hd. injection Hd as <-.
  assert (Hd1 : nth_error (m_conts m1) d = Some c1 /\ nth_error trees3 d = Some t3).
  { clear - Ecomb. revert trees3 d Ecomb. generalize (m_conts m1) as l1.
    induction l1 as [|x l1 IH]; intros [|y l2] [|d] H; simpl in *; try discriminate.
    - injection H as <- <-. split; reflexivity.
    - apply IH. assumption. }
  destruct Hd1 as [Hc1 Ht3].
  assert (Hc0 : exists c0, nth_error (m_conts (st_meta st)) d = Some c0).
  { destruct (nth_error (m_conts (st_meta st)) d) eqn:E0; [eauto|].
    apply nth_error_None in E0. assert (nth_error (m_conts m1) d <> None) by congruence.
    apply nth_error_Some in H. lia. }
  destruct Hc0 as [c0 Hc0]. pose proof (Hspec1 d c0 Hc0) as Hc1'. rewrite Hc1 in Hc1'. injection Hc1' as ->.
  destruct (Hall d c0 Hc0) as [_ [HS _]].
  destruct (G2 d _ Hc1) as (t2 & Ht2 & HS2).
  destruct (Hall3 d t2 Ht2) as (t3' & Ht3' & Hco & Hseg).
  rewrite Ht3 in Ht3'. injection Ht3' as <-.
  simpl. split; [repeat split|]. split.
  - apply Hseg. apply HS2. simpl. apply Seg_repl; [assumption|]. unfold step_sel, sel_of. rewrite map_length, seq_length. reflexivity.
  - exact Hco.
Qed.

Theorem dw_run_preserves_inv_any a b o : forall steps st st',
  DwInv a b st -> dw_run o steps st = Some st' -> DwInv a b st'.
Proof.
  induction steps as [|bens steps IH]; intros st st' H E; simpl in E.
  - injection E as <-. assumption.
  - destruct (dw_step o bens st) as [st1|] eqn:E1; [|discriminate].
    eapply IH; [|eassumption]. eapply dw_step_preserves_inv_any; eassumption.
Qed.

(* every reachable state, with or without rebalancing, any safety factor / float decision outcome *)
Theorem dw_reachable_inv_any n lmin lmax a b o steps st0 st :
  Forall2 (fun x y => (x < y)%Qc) a b ->
  dw_init (S n) lmin lmax a b = Some st0 -> dw_run o steps st0 = Some st -> DwInv a b st.
Proof.
  intros Hab Hinit Hrun. eapply dw_run_preserves_inv_any; [|eassumption].
  eapply dw_init_inv; eassumption.
Qed.
