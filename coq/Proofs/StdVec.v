(* C02: the matrix accumulation of the code (Model/StdCombiVec.v) is, entry by entry, the scalar combined interpolant of the
   respective output component at the respective point: the combination acts COMPONENTWISE for every output length, and
   interpolate_grid is the point-wise interpolation at the cross product in itertools.product order (first coordinate slowest),
   for every dimension.  Consequently every scalar C02 theorem holds per output component and per tensor-grid entry. *)
From Coq Require Import ZArith List Bool QArith Qcanon Lia.
From SG Require Import Base.QcUtil Model.CombiScheme Model.StdCombi Model.StdCombiVec Proofs.SchemeBasics Proofs.SchemeIE Proofs.SchemeInv
  Proofs.StdGrid Proofs.StdCombiSum Proofs.NodalExact Proofs.StdNodal Proofs.SchemeClosedForm Proofs.StdGeneral.
Import ListNotations.
Local Open Scope Qc_scope.

Lemma vadd_map {T} (f g : T -> Qc) : forall l, vadd (map f l) (map g l) = map (fun k => f k + g k) l.
Proof. induction l as [|x l IH]; [reflexivity|]. unfold vadd in *. simpl. rewrite IH. reflexivity. Qed.

Lemma madd_map {S T} (f g : S -> T -> Qc) (ks : list T) : forall pts,
  madd (map (fun x => map (f x) ks) pts) (map (fun x => map (g x) ks) pts) = map (fun x => map (fun k => f x k + g x k) ks) pts.
Proof.
  induction pts as [|x pts IH]; [reflexivity|]. unfold madd in *. simpl. rewrite IH. rewrite vadd_map. reflexivity.
Qed.

Lemma mzero_map {S T} (pts : list S) (ks : list T) : mzero (length pts) (length ks) = map (fun _ => map (fun _ => 0) ks) pts.
Proof.
  unfold mzero. induction pts as [|x pts IH]; [reflexivity|]. simpl. rewrite IH. f_equal.
  clear. induction ks as [|k ks IH]; [reflexivity|]. simpl. rewrite IH. reflexivity.
Qed.

Lemma mscale_map {S T} c (h : S -> T -> Qc) (ks : list T) pts :
  mscale c (map (fun x => map (h x) ks) pts) = map (fun x => map (fun k => h x k * c) ks) pts.
Proof. unfold mscale. rewrite map_map. apply map_ext. intro x. rewrite map_map. reflexivity. Qed.

Lemma accumulate_step bd a b F nout pts l c (g0 : list Qc -> nat -> Qc) :
  madd (map (fun x => map (g0 x) (seq 0 nout)) pts) (mscale c (comp_interp_matrix bd a b l F nout pts))
  = map (fun x => map (fun k => g0 x k + comp_interp bd a b l (out_comp F k) x * c) (seq 0 nout)) pts.
Proof.
  unfold comp_interp_matrix.
  rewrite (mscale_map c (fun x k => comp_interp bd a b l (out_comp F k) x) (seq 0 nout) pts).
  rewrite (madd_map g0 (fun x k => comp_interp bd a b l (out_comp F k) x * c) (seq 0 nout) pts). reflexivity.
Qed.

(* the accumulation loop, started from any matrix of the right shape *)
Lemma accumulate bd a b F nout pts : forall cs (g0 : list Qc -> nat -> Qc),
  fold_left (fun acc kv => madd acc (mscale (qc_of_Z (snd kv)) (comp_interp_matrix bd a b (fst kv) F nout pts)))
            cs (map (fun x => map (g0 x) (seq 0 nout)) pts)
  = map (fun x => map (fun k => g0 x k + sumQ (map (fun kv => qc_of_Z (snd kv) * comp_interp bd a b (fst kv) (out_comp F k) x) cs))
                      (seq 0 nout)) pts.
Proof.
  induction cs as [|kv cs IH]; intro g0.
  - simpl. apply map_ext. intro x. apply map_ext. intro k. ring.
  - cbn [fold_left]. rewrite accumulate_step. rewrite IH. apply map_ext. intro x. apply map_ext. intro k. cbn [map sumQ]. ring.
Qed.

(* (3) COMPONENTWISE: entry (i, k) of the matrix StandardCombi.__call__ returns = the scalar combined interpolant of output
   component k at point i; every scheme, every output length, every list of points *)
Theorem combi_interp_matrix_componentwise bd a b cs F nout pts :
  combi_interp_matrix bd a b cs F nout pts
  = map (fun x => map (fun k => combi_interp bd a b cs (out_comp F k) x) (seq 0 nout)) pts.
Proof.
  unfold combi_interp_matrix. rewrite <- (seq_length nout 0) at 1. rewrite mzero_map.
  rewrite (accumulate bd a b F nout pts cs (fun _ _ => 0)). apply map_ext. intro x. apply map_ext. intro k.
  unfold combi_interp. ring.
Qed.

(* (2) interpolate_grid = point-wise interpolation at the cross product, in crossQ order *)
Theorem combi_interp_grid_pointwise bd a b cs F nout coords :
  combi_interp_grid bd a b cs F nout coords
  = map (fun x => map (fun k => combi_interp bd a b cs (out_comp F k) x) (seq 0 nout)) (crossQ coords).
Proof. apply combi_interp_matrix_componentwise. Qed.

Corollary combi_interp_grid_is_call bd a b cs F nout coords :
  combi_interp_grid bd a b cs F nout coords = combi_interp_matrix bd a b cs F nout (crossQ coords).
Proof. reflexivity. Qed.

(* ---------- the order of the cross product: row-major, first coordinate array slowest (itertools.product) ---------- *)
Fixpoint flat_index (idx lens : list nat) : nat :=
  match idx, lens with
  | i :: idx', _ :: lens' => i * fold_right Nat.mul 1%nat lens' + flat_index idx' lens'
  | _, _ => 0%nat
  end.

Fixpoint pick (idx : list nat) (coords : list (list Qc)) : list Qc :=
  match idx, coords with
  | i :: idx', c :: coords' => nth i c 0 :: pick idx' coords'
  | _, _ => []
  end.

Lemma crossQ_len : forall gs, length (crossQ gs) = fold_right Nat.mul 1%nat (map (@length Qc) gs).
Proof.
  induction gs as [|g gs IH]; [reflexivity|]. simpl. rewrite <- IH. clear IH.
  induction g as [|x g IHg]; [reflexivity|]. simpl. rewrite app_length, map_length, IHg. reflexivity.
Qed.

Lemma nth_flat_map_blocks {A B} (f : A -> list B) (m : nat) (d0 : A) (d : B) : forall l i j,
  (forall x, length (f x) = m) -> (i < length l)%nat -> (j < m)%nat ->
  nth (i * m + j) (flat_map f l) d = nth j (f (nth i l d0)) d.
Proof.
  induction l as [|x l IH]; intros i j Hf Hi Hj; [simpl in Hi; lia|].
  cbn [flat_map]. destruct i as [|i].
  - simpl. rewrite app_nth1 by (rewrite Hf; exact Hj). reflexivity.
  - rewrite app_nth2 by (rewrite Hf; simpl; lia). rewrite Hf.
    replace (S i * m + j - m)%nat with (i * m + j)%nat by (simpl; lia).
    cbn [nth]. apply IH; [exact Hf|simpl in Hi; lia|exact Hj].
Qed.

Lemma flat_index_bound : forall idx coords, Forall2 (fun i c => (i < length c)%nat) idx coords ->
  (flat_index idx (map (@length Qc) coords) < fold_right Nat.mul 1%nat (map (@length Qc) coords))%nat.
Proof.
  induction 1 as [|i c idx coords Hi _ IH]; [simpl; lia|]. cbn [map flat_index fold_right].
  set (P := fold_right Nat.mul 1%nat (map (@length Qc) coords)) in *. nia.
Qed.

Lemma nth_map_any {A B} (g : A -> B) : forall l k d d0, (k < length l)%nat -> nth k (map g l) d = g (nth k l d0).
Proof. induction l as [|y l IH]; intros k d d0 Hk; [simpl in Hk; lia|]. destruct k; [reflexivity|]. simpl. apply IH. simpl in Hk. lia. Qed.

Lemma nth_map_cons (v : Qc) : forall (l : list (list Qc)) n, (n < length l)%nat -> nth n (map (cons v) l) [] = v :: nth n l [].
Proof. induction l as [|y l IH]; intros n Hn; [simpl in Hn; lia|]. destruct n; [reflexivity|]. simpl. apply IH. simpl in Hn. lia. Qed.

(* the point with index vector idx sits at the row-major position: last coordinate fastest, for every dimension *)
Theorem crossQ_nth : forall idx coords, Forall2 (fun i c => (i < length c)%nat) idx coords ->
  nth (flat_index idx (map (@length Qc) coords)) (crossQ coords) [] = pick idx coords.
Proof.
  induction 1 as [|i c idx coords Hi HF IH]; [reflexivity|]. cbn [map flat_index crossQ pick].
  rewrite <- crossQ_len.
  rewrite (nth_flat_map_blocks (fun x => map (cons x) (crossQ coords)) (length (crossQ coords)) 0 []).
  - rewrite nth_map_cons by (rewrite crossQ_len; apply flat_index_bound; exact HF). rewrite IH. reflexivity.
  - intro x. apply map_length.
  - exact Hi.
  - rewrite crossQ_len. apply flat_index_bound. exact HF.
Qed.

(* the tensor-grid answer at the row-major position of idx = the point-wise combined interpolant at the picked coordinates *)
Theorem combi_interp_grid_entry bd a b cs F nout coords idx : Forall2 (fun i c => (i < length c)%nat) idx coords ->
  nth (flat_index idx (map (@length Qc) coords)) (combi_interp_grid bd a b cs F nout coords) []
  = map (fun k => combi_interp bd a b cs (out_comp F k) (pick idx coords)) (seq 0 nout).
Proof.
  intro H. rewrite combi_interp_grid_pointwise.
  set (g := fun x => map (fun k => combi_interp bd a b cs (out_comp F k) x) (seq 0 nout)).
  rewrite (nth_map_any g (crossQ coords) _ [] []) by (rewrite crossQ_len; apply flat_index_bound; exact H).
  rewrite (crossQ_nth idx coords H). reflexivity.
Qed.

(* ---------- consequences for vector-valued functions ---------- *)
Lemma map_nth_seq (v : list Qc) : map (fun k => nth k v 0) (seq 0 (length v)) = v.
Proof.
  induction v as [|x v IH]; [reflexivity|]. cbn [length seq map nth]. f_equal.
  rewrite <- seq_shift, map_map. exact IH.
Qed.

(* NODAL EXACTNESS for vector-valued functions: at every point of the combined grid the row the code returns is the function
   value, closed-form scheme, every dimension, every output length *)
Theorem std_nodal_exact_vector bd a b n lmin lmax (F : list Qc -> list Qc) nout x l0 c0 :
  (0 <= lmin <= lmax)%Z -> box_ok a b -> length a = S n -> length b = S n -> length x = S n ->
  In (l0, c0) (combi_scheme_standard (S n) lmin lmax) -> in_comp bd a b x l0 = true -> length (F x) = nout ->
  combi_interp_matrix bd a b (combi_scheme_standard (S n) lmin lmax) F nout [x] = [F x].
Proof.
  intros H Hbox La Lb Lx Hin Hx LF. rewrite combi_interp_matrix_componentwise. cbn [map]. f_equal.
  rewrite (map_ext _ (fun k => nth k (F x) 0)).
  - rewrite <- LF. apply map_nth_seq.
  - intro k. apply (std_nodal_exact_general bd a b n lmin lmax (out_comp F k) x l0 c0 H Hbox La Lb Lx Hin Hx).
Qed.

(* a vector-valued function given by its components: column k of the matrix is the scalar interpolant of component k *)
Lemma out_comp_vec_fun fs k p : (k < length fs)%nat -> out_comp (vec_fun fs) k p = nth k fs (fun _ => 0) p.
Proof.
  intro Hk. unfold out_comp, vec_fun. apply (nth_map_any (fun f => f p) fs k 0 (fun _ => 0) Hk).
Qed.
