(* C11 — UNIT grouping (the library default) with sliced-Romberg slices on the complete dyadic grid: exactness degree
   2m+1 for EVERY m.  The support sequence of slice i is the chain of dyadic cells containing it (closed form [path] of the
   recursion supp_rec on complete level vectors); the level-j contributions of all slices add up - the sliced trapezoid
   formula is additive over adjacent slices - to the composite trapezoidal sum T_j; the extrapolated sums are exact
   (Proofs/RombergDegree.v). *)
From Coq Require Import ZArith List QArith Qcanon Bool Arith Lia.
From SG Require Import Base.QcUtil Model.Romberg Proofs.RombergBasics Proofs.RombergCoeff Proofs.RombergTree
  Proofs.RombergSliced Proofs.RombergExact Proofs.RombergGrouped Proofs.RombergFuel Proofs.RombergAnnihilate Proofs.RombergEM
  Proofs.RombergDegree Proofs.RombergComplete Proofs.RombergForced.
Import ListNotations.
Open Scope Qc_scope.

Local Notation hf := (/ (1 + 1)).

(* ---------------------------------------------------------------------------------------------- *)
(* closed form of the support recursion on complete level vectors: the chain of cells containing slice fs *)

Fixpoint path (d start fs : nat) : list (nat * nat) :=
  match d with
  | O => []
  | S d' => if (start + 2 ^ d' <=? fs)%nat then ((start + 2 ^ d')%nat, (start + 2 ^ S d')%nat) :: path d' (start + 2 ^ d') fs
            else (start, (start + 2 ^ d')%nat) :: path d' start fs
  end.

Lemma supp_rec_path d : forall lev pre x y post fuel fs,
  (2 ^ d <= fuel)%nat -> (length pre <= fs < length pre + 2 ^ d)%nat ->
  supp_rec fuel (pre ++ [x] ++ full_levels d lev ++ [y] ++ post) (length pre) (length pre + 2 ^ d) fs = path d (length pre) fs.
Proof.
  induction d as [|d IH]; intros lev pre x y post fuel fs Hf Hfs.
  - destruct fuel as [|f]; [simpl in Hf; lia|]. cbn [supp_rec full_levels app path].
    destruct (Nat.leb_spec (length pre + 2 ^ 0) (length pre)) as [C|_]; [simpl in C; lia|].
    unfold slice_list. replace (length pre + 2 ^ 0 - S (length pre))%nat with 0%nat by (simpl; lia). reflexivity.
  - assert (P : (1 <= 2 ^ d)%nat) by (apply Nat.neq_0_lt_0, Nat.pow_nonzero; lia).
    cbn [path]. rewrite Nat.pow_succ_r' in *.
    destruct fuel as [|f]; [lia|].
    change (full_levels (S d) lev) with (full_levels d (S lev) ++ [lev] ++ full_levels d (S lev)).
    set (L := full_levels d (S lev)).
    assert (LL : length L = (2 ^ d - 1)%nat) by (unfold L; apply full_levels_length).
    set (levels := pre ++ [x] ++ (L ++ [lev] ++ L) ++ [y] ++ post).
    assert (SL : slice_list levels (S (length pre)) (length pre + 2 * 2 ^ d) = L ++ [lev] ++ L).
    { unfold slice_list, levels.
      replace (pre ++ [x] ++ (L ++ [lev] ++ L) ++ [y] ++ post) with ((pre ++ [x]) ++ (L ++ [lev] ++ L) ++ [y] ++ post)
        by (rewrite <- app_assoc; reflexivity).
      replace (S (length pre)) with (length (pre ++ [x])) by (rewrite app_length; simpl; lia).
      rewrite skipn_app_exact.
      replace (length pre + 2 * 2 ^ d - length (pre ++ [x]))%nat with (length (L ++ [lev] ++ L)).
      - apply firstn_app_exact.
      - rewrite !app_length, LL. simpl. lia. }
    assert (AM : argmin (L ++ [lev] ++ L) = (2 ^ d - 1)%nat).
    { change ([lev] ++ L) with (lev :: L). rewrite argmin_middle; [exact LL | |]; intros z I; apply full_levels_range in I; lia. }
    assert (NE : L ++ [lev] ++ L <> []) by (intro E; apply app_eq_nil in E; destruct E as [_ E]; discriminate E).
    cbn [supp_rec].
    destruct (Nat.leb_spec (length pre + 2 * 2 ^ d) (length pre)) as [C|_]; [lia|].
    rewrite SL, (match_nonnil _ _ _ NE), AM.
    replace (S (length pre) + (2 ^ d - 1))%nat with (length pre + 2 ^ d)%nat by lia.
    destruct (Nat.leb_spec (length pre + 2 ^ d) fs) as [Le|Gt]; cbn [fst snd]; f_equal.
    + unfold levels.
      replace (pre ++ [x] ++ (L ++ [lev] ++ L) ++ [y] ++ post) with ((pre ++ [x] ++ L) ++ [lev] ++ L ++ [y] ++ post)
        by (rewrite <- !app_assoc; reflexivity).
      assert (LP : length (pre ++ [x] ++ L) = (length pre + 2 ^ d)%nat).
      { rewrite !app_length, LL. simpl. lia. }
      rewrite <- LP. replace (length pre + 2 * 2 ^ d)%nat with (length (pre ++ [x] ++ L) + 2 ^ d)%nat by lia.
      apply IH; lia.
    + unfold levels.
      replace (pre ++ [x] ++ (L ++ [lev] ++ L) ++ [y] ++ post) with (pre ++ [x] ++ L ++ [lev] ++ (L ++ [y] ++ post))
        by (rewrite <- !app_assoc; reflexivity).
      apply IH; lia.
Qed.

Lemma complete_support_idx m i : (i < 2 ^ m)%nat ->
  support_sequence_idx (complete_levels m) i = (0%nat, (2 ^ m)%nat) :: path m 0 i.
Proof.
  intro Hi. unfold support_sequence_idx. rewrite complete_levels_length.
  replace (S (2 ^ m) - 1)%nat with (2 ^ m)%nat by lia. f_equal.
  unfold complete_levels.
  change ([0%nat] ++ full_levels m 1 ++ [0%nat]) with ([] ++ [0%nat] ++ full_levels m 1 ++ [0%nat] ++ []).
  change (2 ^ m)%nat with (length (@nil nat) + 2 ^ m)%nat at 2.
  change 0%nat with (length (@nil nat)) at 3 5.
  apply supp_rec_path; simpl; lia.
Qed.

Lemma path_bounds d : forall start fs p, In p (path d start fs) -> (start <= fst p /\ fst p < snd p /\ snd p <= start + 2 ^ d)%nat.
Proof.
  induction d as [|d IH]; intros start fs p H; [destruct H|].
  cbn [path] in H. rewrite Nat.pow_succ_r' in *.
  assert (P : (1 <= 2 ^ d)%nat) by (apply Nat.neq_0_lt_0, Nat.pow_nonzero; lia).
  destruct (start + 2 ^ d <=? fs)%nat; destruct H as [<-|H]; cbn [fst snd]; try lia; apply IH in H; lia.
Qed.

Lemma path_length d : forall start fs, length (path d start fs) = d.
Proof. induction d as [|d IH]; intros start fs; [reflexivity|]. cbn [path]. destruct (_ <=? _)%nat; cbn [length]; rewrite IH; reflexivity. Qed.

(* ---------------------------------------------------------------------------------------------- *)
(* the sliced trapezoid of a slice [l, r] with support pair (L, R), applied to x^k; additive over adjacent slices *)

Definition phi (k : nat) (l r L R : Qc) : Qc :=
  (r - l) * (1 - L / (L - R) + Qchalf * ((r + l) / (L - R))) * L ^ k
  + (r - l) * (L / (L - R) - Qchalf * ((r + l) / (L - R))) * R ^ k.

Lemma phi_add k l mid r L R : phi k l mid L R + phi k mid r L R = phi k l r L R.
Proof. unfold phi, Qcdiv. ring. Qed.

Lemma phi_self k l r : l <> r -> phi k l r l r = (r - l) * ((l ^ k + r ^ k) * hf).
Proof. intro H. unfold phi. rewrite Qchalf_eq. field. split; [exact two_neq0 | apply sub_neq0; exact H]. Qed.

Lemma phi_sum k (P : nat -> Qc) L R n : forall start,
  sumQ (map (fun i => phi k (P i) (P (S i)) L R) (seq start n)) = phi k (P start) (P (start + n)%nat) L R.
Proof.
  induction n as [|n IH]; intro start.
  - rewrite Nat.add_0_r. unfold phi, Qcdiv. simpl. ring.
  - cbn [seq map sumQ]. rewrite IH, phi_add. replace (S start + n)%nat with (start + S n)%nat by lia. reflexivity.
Qed.

(* ---------------------------------------------------------------------------------------------- *)
(* level t of all slices of a cell: the composite trapezoidal sum with 2^t panels on the cell *)

Section Levels.
Variables (a h : Qc) (k : nat).
Hypothesis h_nz : h <> 0.

Definition pt (i : nat) : Qc := a + qn i * h.
Definition psi (i : nat) (p : nat * nat) : Qc := phi k (pt i) (pt (S i)) (pt (fst p)) (pt (snd p)).

Lemma qn_pow2_half d : qn (2 ^ S d) * h * hf = qn (2 ^ d) * h.
Proof.
  rewrite Nat.pow_succ_r'. replace (2 * 2 ^ d)%nat with (2 ^ d + 2 ^ d)%nat by lia. rewrite qn_add. field. exact two_neq0.
Qed.

Lemma pt_add i n : pt (i + n) = pt i + qn n * h.
Proof. unfold pt. rewrite qn_add. ring. Qed.

Lemma qn_pos_neq0 n : (1 <= n)%nat -> qn n <> 0.
Proof. intro H. destruct n as [|n]; [lia | apply qn_S_neq0]. Qed.

Lemma level_sum d : forall t start, (t <= d)%nat ->
  sumQ (map (fun i => psi i (nth t ((start, (start + 2 ^ d)%nat) :: path d start i) (0%nat, 0%nat))) (seq start (2 ^ d)))
  = trapD (pw k) (pt start) (qn (2 ^ d) * h) t.
Proof.
  induction d as [|d IH]; intros t start Ht.
  - assert (t = 0%nat) by lia. subst t. cbn [nth Nat.pow seq map sumQ trapD fst snd]. unfold psi. cbn [fst snd].
    replace (start + 1)%nat with (S start) by lia. rewrite phi_self.
    + unfold pw. replace (pt start + qn 1 * h) with (pt (S start)) by (unfold pt; rewrite !qn_S, qn_0; ring).
      replace (qn 1 * h) with (pt (S start) - pt start) by (unfold pt; rewrite !qn_S, qn_0; ring). ring.
    + unfold pt. rewrite qn_S. intro E. apply h_nz.
      transitivity ((a + (qn start + 1) * h) - (a + qn start * h)); [ring | rewrite <- E; ring].
  - assert (P : (1 <= 2 ^ d)%nat) by (apply Nat.neq_0_lt_0, Nat.pow_nonzero; lia).
    destruct t as [|t].
    + (* level of the cell itself: additivity *)
      cbn [nth]. unfold psi. cbn [fst snd].
      rewrite (phi_sum k pt (pt start) (pt (start + 2 ^ S d)) (2 ^ S d) start). cbn [trapD].
      rewrite phi_self.
      * unfold pw. rewrite pt_add. ring.
      * rewrite pt_add. intro E. assert (Z : qn (2 ^ S d) * h = 0) by (transitivity (pt start + qn (2 ^ S d) * h - pt start); [ring | rewrite <- E; ring]).
        apply Qcmult_integral in Z. destruct Z as [Z|Z]; [|exact (h_nz Z)].
        revert Z. apply qn_pos_neq0. apply Nat.neq_0_lt_0, Nat.pow_nonzero. lia.
    + cbn [nth]. rewrite trapD_S, qn_pow2_half.
      replace (2 ^ S d)%nat with (2 ^ d + 2 ^ d)%nat by (rewrite Nat.pow_succ_r'; lia).
      rewrite seq_app, map_app, sumQ_app.
      rewrite <- (IH t start) by lia. rewrite <- pt_add, <- (IH t (start + 2 ^ d)%nat) by lia.
      f_equal; apply sumQ_map_ext_in; intros i Hi; apply in_seq in Hi; cbn [path].
      * destruct (Nat.leb_spec (start + 2 ^ d) i) as [C|_]; [lia|]. reflexivity.
      * destruct (Nat.leb_spec (start + 2 ^ d) i) as [_|C]; [|lia].
        replace (start + 2 ^ S d)%nat with (start + 2 ^ d + 2 ^ d)%nat by (rewrite Nat.pow_succ_r'; lia). reflexivity.
Qed.

End Levels.

(* ---------------------------------------------------------------------------------------------- *)
(* one slice of the complete grid: its contributions are sum_j c_j * psi *)

Lemma romberg_slice_pair_phi k s L R wl wr : romberg_slice_pair s L R = Some (wl, wr) ->
  wl * L ^ k + wr * R ^ k = phi k (sl_l s) (sl_r s) L R.
Proof.
  unfold romberg_slice_pair. destruct (_ && _ && _); [|discriminate]. intro H. injection H as <- <-.
  unfold phi, sl_width. ring.
Qed.

Lemma complete_slice_wpow a b m i k cs : a < b -> (1 <= m)%nat -> (i < 2 ^ m)%nat ->
  romberg_slice_final (cslice a b m i) = Some cs ->
  wpow k cs = sumQ (map (fun j => romberg_coefficient a b 2 m j
                                  * psi a (step_width a b m) k i (nth j ((0%nat, (2 ^ m)%nat) :: path m 0 i) (0%nat, 0%nat)))
                        (seq 0 (S m))).
Proof.
  intros Hab Hm Hi. unfold romberg_slice_final.
  assert (SS : sl_supp (cslice a b m i)
               = map (fun se => (nthQ (complete_grid a b m) (fst se), nthQ (complete_grid a b m) (snd se)))
                     ((0%nat, (2 ^ m)%nat) :: path m 0 i)).
  { unfold cslice. cbn [sl_supp]. unfold support_sequence. rewrite complete_support_idx by exact Hi. reflexivity. }
  rewrite SS. cbn [map fst snd].
  assert (ML : sl_max_level (cslice a b m i) = m).
  { unfold sl_max_level, cslice. cbn [sl_ll sl_rl]. apply complete_levels_adjacent; assumption. }
  rewrite ML.
  assert (G0 : nthQ (complete_grid a b m) 0 = a) by apply complete_grid_first.
  assert (G1 : nthQ (complete_grid a b m) (2 ^ m) = b).
  { assert (X := complete_grid_last a b m). rewrite complete_grid_length in X.
    replace (S (2 ^ m) - 1)%nat with (2 ^ m)%nat in X by lia. exact X. }
  rewrite G0, G1. intro H.
  apply (opt_concat_additive (wpow k) _ _ (seq 0 (S m)) eq_refl (wpow_app k)) with (cs := cs) (2 := H).
  intros j y Hj Hy. apply in_seq in Hj.
  set (idx := (0%nat, (2 ^ m)%nat) :: path m 0 i) in *.
  assert (Lidx : length idx = S m) by (unfold idx; cbn [length]; rewrite path_length; reflexivity).
  set (F := fun se : nat * nat => (nthQ (complete_grid a b m) (fst se), nthQ (complete_grid a b m) (snd se))) in *.
  change ((a, b) :: map F (path m 0 i)) with ((a, b) :: map F (tl idx)) in Hy.
  assert (E : nth j ((a, b) :: map F (tl idx)) (0, 0) = F (nth j idx (0%nat, 0%nat))).
  { assert (E0 : (a, b) :: map F (tl idx) = map F idx) by (unfold idx; cbn [map tl]; unfold F at 2; cbn [fst snd]; rewrite G0, G1; reflexivity).
    rewrite E0. rewrite (nth_indep _ (0, 0) (F (0%nat, 0%nat))) by (rewrite map_length; lia). apply map_nth. }
  rewrite E in Hy. set (p := nth j idx (0%nat, 0%nat)) in *.
  assert (Hp : In p idx) by (apply nth_In; lia).
  assert (Bp : (fst p <= 2 ^ m /\ snd p <= 2 ^ m)%nat).
  { unfold idx in Hp. destruct Hp as [<-|Hp]; [cbn; lia|]. apply path_bounds in Hp. lia. }
  unfold F in Hy. cbn [fst snd] in Hy.
  destruct (romberg_slice_pair (cslice a b m i) (nthQ (complete_grid a b m) (fst p)) (nthQ (complete_grid a b m) (snd p))) as [[wl wr]|] eqn:RP; [|discriminate].
  injection Hy as <-. cbn [wpow fst snd].
  assert (X := romberg_slice_pair_phi k _ _ _ _ _ RP).
  unfold psi, pt. unfold cslice in X. cbn [sl_l sl_r] in X.
  rewrite !complete_grid_nth in X by lia.
  transitivity (romberg_coefficient a b 2 m j * (wl * (a + qn (fst p) * step_width a b m) ^ k + wr * (a + qn (snd p) * step_width a b m) ^ k)).
  - rewrite !complete_grid_nth by lia. ring.
  - rewrite X. reflexivity.
Qed.

(* ---------------------------------------------------------------------------------------------- *)
(* MAIN: UNIT grouping, sliced Romberg, complete grid of EVERY depth, with or without forced balancing, any container version *)

Lemma sumQ_exchange {A B} (F : A -> B -> Qc) (l1 : list A) (l2 : list B) :
  sumQ (map (fun x => sumQ (map (fun y => F x y) l2)) l1) = sumQ (map (fun y => sumQ (map (fun x => F x y) l1)) l2).
Proof.
  induction l1 as [|x l1 IH]; cbn [map sumQ].
  - induction l2 as [|y l2 IH2]; [reflexivity | cbn [map sumQ]; rewrite <- IH2; ring].
  - rewrite IH, <- sumQ_map_add. reflexivity.
Qed.

Theorem unit_complete_exact lo cv force a b m r k : a < b -> (1 <= m)%nat ->
  extrapolation_grid_from lo G_Unit SV_Romberg cv force (complete_grid a b m) (complete_levels m) = Some r ->
  (k <= 2 * m + 1)%nat ->
  er_grid r = complete_grid a b m /\ wpow k (er_dict r) = Ik k a b.
Proof.
  intros Hab Hm H Hk.
  assert (H' : extrapolation_grid_from lo G_Unit SV_Romberg cv false (complete_grid a b m) (complete_levels m) = Some r).
  { destruct force; [rewrite complete_forced_same in H by exact Hm|]; exact H. }
  clear H. revert H'. unfold extrapolation_grid_from.
  rewrite complete_grid_length, complete_levels_length, Nat.eqb_refl.
  assert (P : (1 <= 2 ^ m)%nat) by (apply Nat.neq_0_lt_0, Nat.pow_nonzero; lia).
  destruct (Nat.leb_spec 2 (S (2 ^ m))) as [_|C]; [|lia]. cbn [andb].
  rewrite (complete_init_grid_slices a b m Hab Hm), unit_containers, !map_map.
  destruct (opt_concat _) as [cs|] eqn:Ec; [|discriminate].
  intro H. injection H as <-. cbn [er_grid er_dict]. split; [reflexivity|].
  rewrite dict_of_wpow.
  assert (Hne : a <> b) by (apply Qclt_not_eq; exact Hab).
  set (h := step_width a b m).
  assert (Hh : h <> 0). { intro E. assert (Z := step_width_pos a b m Hab). fold h in Z. rewrite E in Z. discriminate Z. }
  rewrite (opt_concat_additive (wpow k) _
             (fun i => sumQ (map (fun j => romberg_coefficient a b 2 m j
                                          * psi a h k i (nth j ((0%nat, (2 ^ m)%nat) :: path m 0 i) (0%nat, 0%nat))) (seq 0 (S m))))
             (seq 0 (2 ^ m)) eq_refl (wpow_app k)) with (cs := cs) (2 := Ec).
  2:{ intros i y Hi Hy. apply in_seq in Hi. apply (complete_slice_wpow a b m i k y Hab Hm ltac:(lia)). exact Hy. }
  rewrite (sumQ_exchange (fun i j => romberg_coefficient a b 2 m j * psi a h k i (nth j ((0%nat, (2 ^ m)%nat) :: path m 0 i) (0%nat, 0%nat)))).
  rewrite (sumQ_map_ext_in _ (fun j => romberg_coefficient a b 2 m j * trapD (pw k) a (b - a) j)).
  - apply romberg_extrapolated_trap_exact; assumption.
  - intros j Hj. apply in_seq in Hj. rewrite sumQ_map_scale. f_equal.
    assert (LS := level_sum a h k Hh m j 0%nat ltac:(lia)). cbn [plus] in LS. rewrite LS.
    assert (E0 : pt a h 0 = a) by (unfold pt; rewrite qn_0; ring).
    assert (E1 : qn (2 ^ m) * h = b - a).
    { unfold h. rewrite <- step_width_hf. transitivity ((b - a) * (qn (2 ^ m) * (/ (1 + 1)) ^ m)); [ring|]. rewrite qn_pow2. ring. }
    rewrite E0, E1. reflexivity.
Qed.
