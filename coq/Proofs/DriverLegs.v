(* Round 2 proofs for C13 / C14:
   - the arguments of a call decide its limits (explicit values are used as they are, defaults only when not given,
     nothing survives from an earlier call);
   - every call of a history stops at the first evaluation of its own stream that satisfies its own limits;
   - the history-recording loop over an abstract refinement state IS the observation-stream machine `drive` run on the
     trajectory of that state (ties the C13 model to the C14 model);
   - a history of legs with ARBITRARY limits, under the idempotence hypothesis, follows the trajectory of the uninterrupted
     run: leg i stops at the first position >= the previous stop position that satisfies the limits of leg i, the recorded
     arrays are the corresponding stream segments (stop positions repeated: the re-evaluation);
   - if every leg's limits grow to those of the last leg, the last stop position is the stop position of the single run. *)
From Coq Require Import ZArith List Bool QArith Qcanon Lia.
From SG Require Import Base.QcUtil Model.Driver Proofs.DriverProofs Proofs.DriverSpec.
Import ListNotations.
Open Scope Z_scope.
Local Arguments Z.add : simpl never.
Local Arguments Z.of_nat : simpl never.

(* ------------------------------------------------------------------ arguments -> limits *)
Lemma resolve_explicit dt t m x : resolve dt (mkArgs (Some t) (Some m) x) = mkLimits t m x.
Proof. reflexivity. Qed.

Lemma resolve_tol_explicit dt t am ax : l_tol (resolve dt (mkArgs (Some t) am ax)) = t.
Proof. reflexivity. Qed.

(* tol = 0 given explicitly IS the tolerance 0 - whatever the default or an earlier call said *)
Lemma resolve_tol_zero dt am ax : l_tol (resolve dt (mkArgs (Some 0%Qc) am ax)) = 0%Qc.
Proof. reflexivity. Qed.

Lemma resolve_defaults_perform : resolve_perform (mkArgs None None None) = mkLimits default_tol_perform 1 None.
Proof. reflexivity. Qed.
Lemma resolve_defaults_continue : resolve_continue (mkArgs None None None) = mkLimits default_tol_continue 1 None.
Proof. reflexivity. Qed.

(* the two defaults differ: 10**-3 < 10**-2 (a continuation with the tolerance left implicit has a SMALLER tolerance
   than a first call with the tolerance left implicit) *)
Lemma default_tols : (default_tol_continue < default_tol_perform)%Qc /\ (0 < default_tol_continue)%Qc.
Proof. split; reflexivity. Qed.

(* with the error at most tolerance t > 0 and enough points, a tolerance-0 leg does NOT stop by its tolerance
   (unless the error is exactly 0): what continuing "with tol=0 and a larger budget" relies on *)
Lemma tol_zero_goes_on dt am ax o :
  (0 < o_err o)%Qc -> stop_tol (resolve dt (mkArgs (Some 0%Qc) am ax)) o = false.
Proof.
  intro H. unfold stop_tol. rewrite resolve_tol_zero.
  destruct (Qc_leb (o_err o) 0%Qc) eqn:E; [|reflexivity].
  apply Qc_leb_le in E. exfalso. apply (Qclt_not_le _ _ H). exact E.
Qed.

(* ------------------------------------------------------------------ limits_growb reflects limits_grow *)
Lemma limits_growb_spec l1 l2 : limits_growb l1 l2 = true <-> limits_grow l1 l2.
Proof.
  unfold limits_growb, limits_grow. rewrite !andb_true_iff, Qc_leb_le, Z.leb_le.
  destruct (l_max l1) as [m1|], (l_max l2) as [m2|]; rewrite ?Z.leb_le; intuition (try discriminate).
Qed.

Lemma limits_grow_refl l : limits_grow l l.
Proof.
  unfold limits_grow. split; [apply Qcle_refl|]. split; [lia|]. destruct (l_max l); [lia|exact I].
Qed.

Lemma limits_grow_trans l1 l2 l3 : limits_grow l1 l2 -> limits_grow l2 l3 -> limits_grow l1 l3.
Proof.
  unfold limits_grow. intros [A1 [A2 A3]] [B1 [B2 B3]]. split; [eapply Qcle_trans; eassumption|]. split; [lia|].
  destruct (l_max l1), (l_max l2), (l_max l3); try exact I; try contradiction; lia.
Qed.

(* ------------------------------------------------------------------ every call honours ITS OWN limits *)
Lemma after_stop_m_eq s os k : after_stop_m s os k = after_stop s os k.
Proof. reflexivity. Qed.

(* state before call i of a history (performSpatiallyAdaptiv resets the arrays) *)
Fixpoint api_states (first : bool) (calls : list (call_args * list obs)) (s : dstate) : list dstate :=
  match calls with
  | [] => []
  | (a, os) :: r =>
      let s0 := if first then d_init else s in
      s0 :: api_states false r (fst (drive (if first then resolve_perform a else resolve_continue a) os s0))
  end.

Definition call_limits (i : nat) (a : call_args) : limits :=
  match i with O => resolve_perform a | S _ => resolve_continue a end.

Lemma api_run_nth_aux calls : forall first s i a os,
  nth_error calls i = Some (a, os) ->
  exists s0, nth_error (api_states first calls s) i = Some s0 /\
             nth_error (api_run first calls s) i =
               Some (drive (match i with O => if first then resolve_perform a else resolve_continue a | S _ => resolve_continue a end) os s0).
Proof.
  induction calls as [|[a0 os0] r IH]; intros first s i a os H; [destruct i; discriminate|].
  destruct i as [|i].
  - cbn in H. injection H as -> ->. cbn [api_states api_run nth_error]. eexists. split; reflexivity.
  - cbn [nth_error] in H. cbn [api_states api_run nth_error].
    destruct (IH false (fst (drive (if first then resolve_perform a0 else resolve_continue a0) os0 (if first then d_init else s))) i a os H)
      as [s0 [H1 H2]].
    exists s0. split; [exact H1|]. rewrite H2. destruct i; reflexivity.
Qed.

(* call i of a history stops iff some evaluation of its own stream satisfies the limits resolved from ITS OWN arguments,
   then exactly at the first such evaluation, with the history arrays extended by exactly the evaluations it performed *)
Theorem each_call_honours_its_own_limits calls i a os s' :
  nth_error calls i = Some (a, os) ->
  exists s0, nth_error (api_states true calls d_init) i = Some s0 /\
    (nth_error (api_run true calls d_init) i = Some (s', true) <->
     exists k, s' = after_stop s0 os k /\
       (exists o, nth_error os k = Some o /\ stop_now (call_limits i a) o = true) /\
       (forall j o, (j < k)%nat -> nth_error os j = Some o -> stop_now (call_limits i a) o = false)).
Proof.
  intro H. destruct (api_run_nth_aux calls true d_init i a os H) as [s0 [H1 H2]].
  exists s0. split; [exact H1|]. rewrite H2.
  assert (E : (match i with O => resolve_perform a | S _ => resolve_continue a end) = call_limits i a) by (destruct i; reflexivity).
  rewrite E. split.
  - intro X. injection X as X. apply stops_at_first_satisfying_index. exact X.
  - intro X. f_equal. apply stops_at_first_satisfying_index. exact X.
Qed.

(* the history arrays after any history of calls have one entry per evaluation since the last performSpatiallyAdaptiv *)
Theorem api_histories_ok calls : forall first s, hist_ok s ->
  forall s' b, In (s', b) (api_run first calls s) -> hist_ok s'.
Proof.
  induction calls as [|[a os] r IH]; intros first s Hs s' b Hin; [destruct Hin|].
  cbn [api_run] in Hin. set (lim := if first then resolve_perform a else resolve_continue a) in *.
  set (s0 := if first then d_init else s) in *.
  assert (H0 : hist_ok s0) by (unfold s0; destruct first; [exact hist_ok_init|exact Hs]).
  destruct (drive lim os s0) as [s1 b1] eqn:E. cbn [fst] in Hin.
  assert (H1 : hist_ok s1) by (apply (histories_one_entry_per_evaluation lim os s0 s1 b1 H0 E)).
  destruct Hin as [Hin|Hin]; [injection Hin as <- <-; exact H1|].
  apply (IH false s1 H1 s' b Hin).
Qed.

(* ------------------------------------------------------------------ first_stop on prefixes / suffixes *)
Lemma first_stop_app_some lim a b k : first_stop lim a = Some k -> first_stop lim (a ++ b) = Some k.
Proof.
  revert k. induction a as [|o r IH]; intros k H; cbn in *; [discriminate|].
  destruct (stop_now lim o); [exact H|].
  destruct (first_stop lim r) as [k'|]; [|discriminate]. rewrite (IH k' eq_refl). exact H.
Qed.

Lemma firstn_app_lt {A} (a b : list A) k : (k <= length a)%nat -> firstn k (a ++ b) = firstn k a.
Proof. intro H. rewrite firstn_app. replace (k - length a)%nat with O by lia. cbn. apply app_nil_r. Qed.

Lemma after_stop_app s a b k : (k < length a)%nat -> after_stop s (a ++ b) k = after_stop s a k.
Proof. intro H. unfold after_stop. rewrite firstn_app_lt by lia. reflexivity. Qed.

(* a leg whose limits grow to lf does not stop later than lf would: lf has not fired before the leg's stop position *)
Lemma first_stop_grow_split l lf os k :
  limits_grow l lf -> first_stop l os = Some k ->
  first_stop lf os = option_map (fun p => (k + p)%nat) (first_stop lf (skipn k os)).
Proof.
  intro G. revert k. induction os as [|o r IH]; intros k H; cbn [first_stop] in H; [discriminate|].
  destruct (stop_now l o) eqn:E.
  - injection H as <-. cbn [skipn]. destruct (first_stop lf (o :: r)); reflexivity.
  - destruct (first_stop l r) as [k'|] eqn:F; [|discriminate]. cbn in H. injection H as <-.
    cbn [skipn first_stop].
    destruct (stop_now lf o) eqn:E2; [apply (stop_mono l lf o G) in E2; congruence|].
    rewrite (IH k' eq_refl). destruct (first_stop lf (skipn k' r)); reflexivity.
Qed.

(* STREAM LEVEL RESUME THEOREM: if every leg's limits grow to those of the LAST leg (they need not grow from leg to leg),
   the last leg stops exactly where the single run with the last limits stops *)
Theorem legs_grow_end_at_single_stop legs : forall lf os d p d',
  legs <> [] -> last legs lf = lf -> all_growb legs lf = true ->
  legs_on_stream legs os d = Some (p, d') -> first_stop lf os = Some p.
Proof.
  induction legs as [|l r IH]; intros lf os d p d' Hne Hlast Hg H; [contradiction|].
  cbn [all_growb] in Hg. apply andb_true_iff in Hg. destruct Hg as [G Gr]. apply limits_growb_spec in G.
  cbn [legs_on_stream] in H. destruct (first_stop l os) as [k|] eqn:F; [|discriminate].
  destruct (legs_on_stream r (skipn k os) (after_stop_m d os k)) as [[p' d'']|] eqn:L; [|discriminate].
  injection H as <- <-.
  destruct r as [|l2 r'].
  - cbn in L. injection L as <- <-. cbn in Hlast. subst l. rewrite F. f_equal. lia.
  - assert (Hlast' : last (l2 :: r') lf = lf) by exact Hlast.
    assert (X : first_stop lf (skipn k os) = Some p') by (apply (IH lf (skipn k os) _ p' d'' ltac:(discriminate) Hlast' Gr L)).
    rewrite (first_stop_grow_split l lf os k G F), X. reflexivity.
Qed.

(* ... and every leg honours its own limits, whatever they are: position of each leg = first satisfying index of the
   stream from the previous stop position on *)
Theorem legs_on_stream_step l r os d p d' :
  legs_on_stream (l :: r) os d = Some (p, d') <->
  exists k p', first_stop l os = Some k /\ legs_on_stream r (skipn k os) (fst (drive l os d)) = Some (p', d') /\ p = (k + p')%nat.
Proof.
  cbn [legs_on_stream]. rewrite drive_char.
  destruct (first_stop l os) as [k|] eqn:F.
  - cbn [fst]. rewrite after_stop_m_eq. split.
    + destruct (legs_on_stream r (skipn k os) (after_stop d os k)) as [[p' d'']|] eqn:L; [|discriminate].
      intro H. injection H as <- <-. exists k, p'. split; [reflexivity|]. split; [exact L|reflexivity].
    + intros [k0 [p' [F0 [L ->]]]]. injection F0 as <-. rewrite L. reflexivity.
  - split; [discriminate|]. intros [k [p' [F0 _]]]. discriminate.
Qed.

(* ------------------------------------------------------------------ abstract state machine = drive on its trajectory *)
Section LegsProof.
  Variable St : Type.
  Variable evaluate : St -> St.
  Variable refine : St -> St.
  Variable observe : St -> obs.

  Notation run := (run St evaluate refine observe).
  Notation traj := (traj St evaluate refine observe).
  Notation state_at := (state_at St evaluate refine).
  Notation run_rec := (run_rec St evaluate refine observe).
  Notation run_legs := (run_legs St evaluate refine observe).

  Lemma traj_length n : forall s, length (traj n s) = n.
  Proof. induction n as [|n IH]; intro s; cbn; [reflexivity|rewrite IH; reflexivity]. Qed.

  (* the C14 loop returns the state at the first trajectory position that satisfies the rule *)
  Theorem run_is_first_stop_on_trajectory lim n : forall s,
    run lim n s = option_map (fun k => state_at k s) (first_stop lim (traj n s)).
  Proof.
    induction n as [|n IH]; intro s; cbn [Driver.run Driver.traj first_stop]; [reflexivity|].
    destruct (stop_now lim (observe (evaluate s))); [reflexivity|].
    rewrite IH. destruct (first_stop lim (traj n (refine (evaluate s)))); reflexivity.
  Qed.

  (* the recording loop IS the observation-stream machine of C13 on the trajectory *)
  Theorem run_rec_is_drive_on_trajectory lim n : forall s d,
    run_rec lim n s d =
      match first_stop lim (traj n s) with
      | Some k => Some (state_at k s, fst (drive lim (traj n s) d))
      | None => None
      end.
  Proof.
    induction n as [|n IH]; intros s d; cbn [Driver.run_rec Driver.traj first_stop drive]; [reflexivity|].
    destruct (stop_now lim (observe (evaluate s))); [reflexivity|].
    rewrite IH. destruct (first_stop lim (traj n (refine (evaluate s)))); reflexivity.
  Qed.

  Corollary run_rec_state lim n s d s' d' : run_rec lim n s d = Some (s', d') -> run lim n s = Some s'.
  Proof.
    rewrite run_rec_is_drive_on_trajectory, run_is_first_stop_on_trajectory.
    destruct (first_stop lim (traj n s)); [|discriminate]. intro H. injection H as <- _. reflexivity.
  Qed.

  (* prefix stability of trajectories *)
  Fixpoint advance (n : nat) (s : St) : St :=
    match n with O => s | S n' => advance n' (refine (evaluate s)) end.

  Lemma traj_app n : forall m s, traj (n + m) s = traj n s ++ traj m (advance n s).
  Proof. induction n as [|n IH]; intros m s; cbn; [reflexivity|]. rewrite IH. reflexivity. Qed.

  Hypothesis evaluate_idempotent : forall s, evaluate (evaluate s) = evaluate s.

  Lemma state_at_evaluated k : forall s, evaluate (state_at k s) = state_at k s.
  Proof. induction k as [|k IH]; intro s; cbn; [apply evaluate_idempotent|apply IH]. Qed.

  Lemma traj_evaluate n s : traj n (evaluate s) = traj n s.
  Proof. destruct n; cbn; [reflexivity|]. rewrite evaluate_idempotent. reflexivity. Qed.

  Lemma state_at_evaluate j s : state_at j (evaluate s) = state_at j s.
  Proof. destruct j; cbn; rewrite evaluate_idempotent; reflexivity. Qed.

  (* continuing from the state at position k sees the trajectory from position k on (the first entry is the re-evaluation) *)
  Lemma traj_from_state_at k : forall n s, traj n (state_at k s) = skipn k (traj (k + n) s).
  Proof.
    induction k as [|k IH]; intros n s; cbn [Driver.state_at Nat.add skipn].
    - apply traj_evaluate.
    - cbn [Driver.traj skipn]. apply IH.
  Qed.

  Lemma state_at_add k : forall j s, state_at j (state_at k s) = state_at (k + j) s.
  Proof.
    induction k as [|k IH]; intros j s; cbn [Driver.state_at Nat.add].
    - apply state_at_evaluate.
    - apply IH.
  Qed.

  (* MAIN: a history of legs with arbitrary limits follows the trajectory of the uninterrupted run.
     N = any trajectory length that covers the fuel of all legs. *)
  Theorem legs_follow_trajectory legs : forall s d s' d' N,
    legs <> [] -> run_legs legs s d = Some (s', d') -> (legs_fuel legs <= N)%nat ->
    exists p, legs_on_stream (map fst legs) (traj N s) d = Some (p, d') /\ s' = state_at p s.
  Proof.
    induction legs as [|[l n] r IH]; intros s d s' d' N Hne H HN; [contradiction|].
    cbn [Driver.run_legs] in H. cbn [legs_fuel] in HN.
    destruct (run_rec l n s d) as [[s1 d1]|] eqn:E; [|discriminate].
    rewrite run_rec_is_drive_on_trajectory in E.
    destruct (first_stop l (traj n s)) as [k|] eqn:F; [|discriminate]. injection E as <- <-.
    pose proof (first_stop_lt _ _ _ F) as Hk. rewrite traj_length in Hk.
    (* the same on the long trajectory *)
    assert (EN : traj N s = traj n s ++ traj (N - n) (advance n s)).
    { replace N with (n + (N - n))%nat at 1 by lia. apply traj_app. }
    assert (FN : first_stop l (traj N s) = Some k) by (rewrite EN; apply first_stop_app_some; exact F).
    assert (DN : after_stop_m d (traj N s) k = fst (drive l (traj n s) d)).
    { rewrite drive_char, F. cbn [fst]. rewrite after_stop_m_eq, EN. apply after_stop_app. rewrite traj_length. exact Hk. }
    cbn [map fst legs_on_stream]. rewrite FN, DN.
    destruct r as [|q r'].
    - cbn in H. injection H as <- <-. exists k. cbn [map legs_on_stream]. split; [f_equal; f_equal; lia|reflexivity].
    - destruct (IH (state_at k s) (fst (drive l (traj n s) d)) s' d' (N - k)%nat ltac:(discriminate) H ltac:(lia)) as [p [L ->]].
      rewrite traj_from_state_at in L. replace (k + (N - k))%nat with N in L by lia.
      exists (k + p)%nat. rewrite L. split; [reflexivity|apply state_at_add].
  Qed.

  (* C14 from it: legs whose limits all grow to the last leg's end in the state (and with the stop position) of the
     single uninterrupted run with the last limits *)
  Corollary legs_grow_end_where_single_run_ends legs lf s d s' d' :
    legs <> [] -> last (map fst legs) lf = lf -> all_growb (map fst legs) lf = true ->
    run_legs legs s d = Some (s', d') ->
    run lf (legs_fuel legs) s = Some s'.
  Proof.
    intros Hne Hlast Hg H.
    destruct (legs_follow_trajectory legs s d s' d' (legs_fuel legs) Hne H (le_n _)) as [p [L ->]].
    assert (Hne' : map fst legs <> []) by (destruct legs; [contradiction|discriminate]).
    rewrite run_is_first_stop_on_trajectory, (legs_grow_end_at_single_stop (map fst legs) lf _ d p d' Hne' Hlast Hg L).
    reflexivity.
  Qed.
End LegsProof.

(* ------------------------------------------------------------------ the resume theorem in terms of API arguments *)
Theorem resume_equals_uninterrupted_args :
  forall (St : Type) (evaluate refine : St -> St) (observe : St -> obs),
  (forall s, evaluate (evaluate s) = evaluate s) ->
  forall a1 a2 a3 n m s s1 s2,
    limits_growb (resolve_perform a1) (resolve_continue a2) = true ->
    resolve_perform a3 = resolve_continue a2 ->
    run St evaluate refine observe (resolve_perform a1) n s = Some s1 ->
    run St evaluate refine observe (resolve_continue a2) m s1 = Some s2 ->
    exists k, (k <= n + m)%nat /\ run St evaluate refine observe (resolve_perform a3) k s = Some s2.
Proof.
  intros St ev rf ob H a1 a2 a3 n m s s1 s2 G E H1 H2. rewrite E. apply limits_growb_spec in G.
  exact (resume_equals_uninterrupted St ev rf ob H _ _ n m s s1 s2 G H1 H2).
Qed.

Theorem tolerance_zero_grows t am ax M :
  (0 <= t)%Qc -> match ax with Some x => x <= M | None => False end ->
  limits_growb (resolve_perform (mkArgs (Some t) am ax)) (resolve_continue (mkArgs (Some 0%Qc) am (Some M))) = true.
Proof.
  intros Ht Hx. apply limits_growb_spec. unfold limits_grow, resolve_continue, resolve_perform, resolve.
  cbn [l_tol l_min l_max a_tol a_min a_max]. split; [exact Ht|]. split; [lia|]. destruct ax as [x|]; [exact Hx|contradiction].
Qed.

Lemma limits_eqb_eq l1 l2 : limits_eqb l1 l2 = true -> l1 = l2.
Proof.
  destruct l1 as [t1 m1 x1], l2 as [t2 m2 x2]. unfold limits_eqb. cbn [l_tol l_min l_max].
  rewrite !andb_true_iff. intros [[Ht Hm] Hx]. apply Qc_eqb_eq in Ht. apply Z.eqb_eq in Hm. subst.
  destruct x1 as [a|], x2 as [b|]; try discriminate; [apply Z.eqb_eq in Hx; subst|]; reflexivity.
Qed.
