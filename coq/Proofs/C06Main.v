(* C06: final statements assembled from RefTreeInv / RefSelect / RefRemoveSort / DimWiseInv / RefTreeCheck / Rebalance *)
From Coq Require Import ZArith List Bool QArith Qcanon Arith Lia.
From SG Require Import Base.QcUtil Model.CombiScheme Model.RefTree Model.DimWise
     Proofs.SchemeInv Proofs.RefTreeInv Proofs.RefSelect Proofs.RefRemoveSort Proofs.DimWiseInv Proofs.RefTreeCheck
     Proofs.Rebalance.
Import ListNotations.
Open Scope Z_scope.

(* every tree of a state satisfying the invariant is well formed in the words of the property *)
Theorem DwInv_WF a b st : DwInv a b st ->
  forall d c, nth_error (m_conts (st_meta st)) d = Some c ->
    WF (nth d a 0%Qc) (nth d b 0%Qc) (nth d (st_lmax st) 0) (c_objs c) /\
    c_pop c = [] /\ c_startNew c = 0%nat /\ c_search c = 0%nat.
Proof.
  intros (_ & _ & _ & Hall & _) d c Hd. destruct (Hall d c Hd) as [F T].
  split; [apply TreeInv_WF; assumption | exact F].
Qed.

(* a step splits exactly the positions whose benefit reaches margin * (largest benefit), in place *)
Theorem step_splits_margin_filter a b o bens st :
  DwInv a b st ->
  exists m', meta_refine_step (o_margin o) bens (st_meta st) = Some m' /\ m_cur m' = 0%nat /\
    length (m_conts m') = length (m_conts (st_meta st)) /\
    forall d c, nth_error (m_conts (st_meta st)) d = Some c ->
      exists sel, length sel = length (c_objs c) /\
        (forall i, (i < length (c_objs c))%nat ->
           (nth i sel false = true <-> (meta_max_benefit bens * o_margin o <= nth i (nth d bens []) 0)%Qc)) /\
        nth_error (m_conts m') d = Some (cont_of_tree (repl sel (c_objs c))).
Proof.
  intros (_ & _ & Hcur & Hall & _).
  destruct (meta_refine_step_spec (o_margin o) bens (st_meta st) Hcur) as (m' & A & B & C & D).
  - intros c Hin. apply In_nth_error in Hin. destruct Hin as [d Hd]. destruct (Hall d c Hd) as [F [HS _]].
    split; [assumption | eauto].
  - exists m'. split; [assumption|]. split; [assumption|]. split; [assumption|].
    intros d c Hd. exists (step_sel (o_margin o) bens d (length (c_objs c))).
    split; [apply step_sel_length|]. split; [intros i Hi; apply step_sel_nth; assumption | apply D; assumption].
Qed.
