(* The selection loop of SpatiallyAdaptivBase.refine over the MetaRefinementContainer:
   it terminates and splits exactly the positions whose benefit reaches the tolerance (each once, in order);
   the children are appended and the positions recorded in popArray. *)
From Coq Require Import ZArith List Bool QArith Qcanon Arith Lia.
From SG Require Import Base.QcUtil Model.RefTree.
Import ListNotations.
Open Scope nat_scope.

(* ---------------------------------------------------------------------------------------------- *)
(* generic list facts *)
Lemma find_filter {A} (P : A -> bool) l : find P l = match filter P l with [] => None | x :: _ => Some x end.
Proof. induction l as [|a l IH]; simpl; [reflexivity|]. destruct (P a); [reflexivity | assumption]. Qed.

Lemma filter_seq_tail (P : nat -> bool) n : forall s i rest,
  filter P (seq s n) = i :: rest -> s <= i < s + n /\ rest = filter P (seq (S i) (s + n - S i)).
Proof.
  induction n as [|n IH]; intros s i rest H; simpl in H; [discriminate|].
  destruct (P s) eqn:E.
  - injection H as <- <-. split; [lia|]. replace (s + S n - S s) with n by lia. reflexivity.
  - apply IH in H. destruct H as [H1 H2]. split; [lia|]. rewrite H2. f_equal. f_equal. lia.
Qed.

Lemma replace_nth_length {A} n (x : A) l : length (replace_nth n x l) = length l.
Proof. revert n. induction l as [|y l IH]; intros [|n]; simpl; try reflexivity. rewrite IH. reflexivity. Qed.

Lemma nth_error_replace_nth {A} n (x : A) l j :
  nth_error (replace_nth n x l) j = if Nat.eqb j n then (if Nat.ltb n (length l) then Some x else None) else nth_error l j.
Proof.
  revert n j. induction l as [|y l IH]; intros n j.
  - destruct n, j; simpl; try reflexivity. destruct (Nat.eqb j n); reflexivity.
  - destruct n as [|n], j as [|j]; simpl; try reflexivity.
    rewrite IH. destruct (Nat.eqb j n); [|reflexivity].
    change (S n <? S (length l)) with (n <? length l). reflexivity.
Qed.

(* ---------------------------------------------------------------------------------------------- *)
Section Loop.
Variable bens : list (list Qc).
Variable tol : Qc.

Definition hitP (ben : list Qc) (i : nat) : bool := Qc_leb tol (nth i ben 0%Qc).
Definition c_end (c : cont) : nat := if Nat.eqb (c_startNew c) 0 then length (c_objs c) else c_startNew c.
(* the remaining hits of a container: positions from searchPosition up to the end marker that reach the tolerance *)
Definition chits (ben : list Qc) (c : cont) : list nat := filter (hitP ben) (seq (c_search c) (c_end c - c_search c)).

Definition dflt : ival := mkIval 0%Qc 0%Qc 0%Z 0%Z 0%Z.
Definition kids (objs : list ival) (ps : list nat) : list ival := flat_map (fun i => children (nth i objs dflt)) ps.

(* container invariant during the loop: the marker of new objects is set and lies inside the list *)
Definition cJ (c : cont) : Prop := c_startNew c <> 0 /\ c_startNew c <= length (c_objs c).

Lemma cont_get_next_spec ben c :
  cont_get_next ben tol c =
  match chits ben c with
  | [] => (None, c)
  | i :: _ => (Some i, mkCont (c_objs c) (c_pop c) (c_startNew c) (S i))
  end.
Proof.
  unfold cont_get_next, chits, c_end, hitP. rewrite find_filter.
  destruct (filter _ _); reflexivity.
Qed.

Lemma chits_after_hit ben c i rest : chits ben c = i :: rest ->
  i < c_end c /\ chits ben (mkCont (c_objs c) (c_pop c) (c_startNew c) (S i)) = rest.
Proof.
  unfold chits. intro H. apply filter_seq_tail in H. destruct H as [H1 H2].
  split; [lia|]. unfold c_end in *. simpl. rewrite H2. f_equal. f_equal. lia.
Qed.

Lemma chits_in_range ben c i : In i (chits ben c) -> i < c_end c.
Proof. unfold chits. intro H. apply filter_In in H. destruct H as [H _]. apply in_seq in H. lia. Qed.

(* meta_scan finds the first container (index >= k) with a hit *)
Lemma meta_scan_none cs : forall k, meta_scan bens tol cs k = None ->
  forall j c, nth_error cs j = Some c -> chits (nth (k + j) bens []) c = [].
Proof.
  induction cs as [|c0 cs IH]; intros k H j c Hj; [destruct j; discriminate|].
  simpl in H. rewrite cont_get_next_spec in H.
  destruct (chits (nth k bens []) c0) eqn:E; [|discriminate].
  destruct j as [|j]; simpl in Hj.
  - injection Hj as <-. rewrite Nat.add_0_r. assumption.
  - replace (k + S j) with (S k + j) by lia. eapply IH; eassumption.
Qed.

Lemma meta_scan_some cs : forall k k' i c', meta_scan bens tol cs k = Some (k', i, c') ->
  exists j c rest, k' = k + j /\ nth_error cs j = Some c /\ chits (nth k' bens []) c = i :: rest /\
    c' = mkCont (c_objs c) (c_pop c) (c_startNew c) (S i) /\
    forall j0 c0, j0 < j -> nth_error cs j0 = Some c0 -> chits (nth (k + j0) bens []) c0 = [].
Proof.
  induction cs as [|c0 cs IH]; intros k k' i c' H; [discriminate|].
  simpl in H. rewrite cont_get_next_spec in H.
  destruct (chits (nth k bens []) c0) as [|i0 rest] eqn:E.
  - apply IH in H. destruct H as (j & c & rest & A & B & C & D & F).
    exists (S j), c, rest. repeat split; try assumption; [lia|].
    intros j0 c1 Hlt Hn. destruct j0 as [|j0]; simpl in Hn.
    + injection Hn as <-. rewrite Nat.add_0_r. assumption.
    + replace (k + S j0) with (S k + j0) by lia. eapply F; [|eassumption]. lia.
  - injection H as <- <- <-. exists 0, c0, rest. rewrite Nat.add_0_r.
    repeat split; try assumption; try reflexivity. intros j0 c1 Hlt. lia.
Qed.

Lemma nth_error_skipn {A} (l : list A) n j : nth_error (skipn n l) j = nth_error l (n + j).
Proof. revert l. induction n as [|n IH]; intros [|x l]; simpl; try reflexivity; [destruct j; reflexivity | apply IH]. Qed.

(* result of the loop, container by container *)
Definition finished (cur : nat) (cs cs2 : list cont) : Prop :=
  length cs2 = length cs /\
  forall j c, nth_error cs j = Some c ->
    exists c2, nth_error cs2 j = Some c2 /\
      if Nat.ltb j cur then c_objs c2 = c_objs c /\ c_pop c2 = c_pop c
      else c_objs c2 = c_objs c ++ kids (c_objs c) (chits (nth j bens []) c)
           /\ c_pop c2 = c_pop c ++ chits (nth j bens []) c.

Lemma kids_app_objs objs extra ps : (forall i, In i ps -> i < length objs) -> kids (objs ++ extra) ps = kids objs ps.
Proof.
  induction ps as [|p ps IH]; intro H; simpl; [reflexivity|].
  rewrite IH by (intros i Hi; apply H; right; assumption).
  rewrite app_nth1 by (apply H; left; reflexivity). reflexivity.
Qed.

(* termination measure: candidate positions still ahead of the cursors *)
Definition msum (cs : list cont) : nat := fold_right (fun c n => (c_end c - c_search c) + n) 0 cs.

Lemma msum_app a b : msum (a ++ b) = msum a + msum b.
Proof. induction a as [|c a IH]; simpl; [reflexivity | rewrite IH; lia]. Qed.

Lemma skipn_nth_error_cons {A} (l : list A) k c : nth_error l k = Some c -> skipn k l = c :: skipn (S k) l.
Proof.
  revert k. induction l as [|x l IH]; intros [|k] H; simpl in *; try discriminate.
  - injection H as ->. reflexivity.
  - apply IH. assumption.
Qed.

Lemma skipn_skipn' {A} (l : list A) a b : skipn a (skipn b l) = skipn (b + a) l.
Proof. revert l. induction b as [|b IH]; intros l; simpl; [reflexivity|]. destruct l; [destruct a; reflexivity | apply IH]. Qed.

Lemma msum_skipn_split cs cur j c : nth_error cs (cur + j) = Some c ->
  (c_end c - c_search c) + msum (skipn (S (cur + j)) cs) <= msum (skipn cur cs).
Proof.
  intro H.
  rewrite <- (firstn_skipn j (skipn cur cs)). rewrite msum_app.
  rewrite skipn_skipn'.
  rewrite (skipn_nth_error_cons _ _ _ H). simpl. lia.
Qed.

Lemma replace_nth_twice {A} k (x y : A) l : replace_nth k x (replace_nth k y l) = replace_nth k x l.
Proof. revert k. induction l as [|z l IH]; intros [|k]; simpl; try reflexivity. rewrite IH. reflexivity. Qed.

Lemma skipn_replace_nth {A} k (x : A) l : k < length l -> skipn k (replace_nth k x l) = x :: skipn (S k) l.
Proof.
  revert k. induction l as [|z l IH]; intros [|k] H; simpl in *; try lia; [reflexivity|].
  apply IH. lia.
Qed.

Lemma nth_error_nth' {A} (l : list A) i x d : nth_error l i = Some x -> nth i l d = x.
Proof. revert i. induction l as [|y l IH]; intros [|i] H; simpl in *; try discriminate; [congruence | auto]. Qed.

Theorem refine_loop_spec : forall fuel m,
  (forall c, In c (m_conts m) -> cJ c) ->
  msum (skipn (m_cur m) (m_conts m)) < fuel ->
  exists m2, refine_loop fuel bens tol m = Some m2 /\ finished (m_cur m) (m_conts m) (m_conts m2).
Proof.
  induction fuel as [|f IH]; intros m HJ Hm; [lia|].
  destruct m as [cs cur]. simpl in *. unfold meta_get_next. simpl.
  destruct (meta_scan bens tol (skipn cur cs) cur) as [[[k' i] c']|] eqn:E.
  - destruct (meta_scan_some _ _ _ _ _ E) as (j & c & rest & Hk & Hn & Hc & Hc' & Hbefore).
    rewrite nth_error_skipn in Hn. rewrite <- Hk in Hn.
    assert (Hlen : k' < length cs) by (apply nth_error_Some; congruence).
    assert (HJc : cJ c) by (apply HJ; eapply nth_error_In; eassumption).
    destruct (chits_after_hit _ _ _ _ Hc) as [Hi Hrest].
    destruct HJc as [Hsn Hsl].
    assert (He : c_end c = c_startNew c).
    { unfold c_end. destruct (Nat.eqb (c_startNew c) 0) eqn:Z; [apply Nat.eqb_eq in Z; contradiction | reflexivity]. }
    assert (Hil : i < length (c_objs c)) by lia.
    destruct (nth_error (c_objs c) i) as [iv|] eqn:Eiv; [|apply nth_error_None in Eiv; lia].
    unfold meta_refine. simpl.
    rewrite nth_error_replace_nth, Nat.eqb_refl. apply Nat.ltb_lt in Hlen. rewrite Hlen. apply Nat.ltb_lt in Hlen.
    rewrite replace_nth_twice. subst c'. unfold cont_refine. simpl. rewrite Eiv.
    assert (Z : Nat.eqb (c_startNew c) 0 = false) by (apply Nat.eqb_neq; assumption). rewrite Z.
    set (c'' := {| c_objs := c_objs c ++ children iv; c_pop := c_pop c ++ [i]; c_startNew := c_startNew c; c_search := S i |}).
    assert (Hi0 : c_search c <= i).
    { unfold chits in Hc. apply filter_seq_tail in Hc. lia. }
    destruct (IH (mkMeta (replace_nth k' c'' cs) k')) as (m2 & Hrun & Hfin).
    + simpl. intros c0 Hin. apply In_nth_error in Hin. destruct Hin as [j0 Hj0].
      rewrite nth_error_replace_nth in Hj0. destruct (Nat.eqb j0 k').
      * destruct (k' <? length cs); [|discriminate]. injection Hj0 as <-. unfold cJ, c''. simpl.
        rewrite app_length. split; [assumption | lia].
      * apply HJ. eapply nth_error_In; eassumption.
    + cbn [m_cur m_conts]. rewrite skipn_replace_nth by assumption.
      change (msum (c'' :: skipn (S k') cs)) with ((c_end c'' - c_search c'') + msum (skipn (S k') cs)).
      pose proof (msum_skipn_split cs cur j c) as Hs. rewrite <- Hk in Hs. specialize (Hs Hn).
      assert (He2 : c_end c'' = c_startNew c) by (unfold c_end, c''; simpl; rewrite Z; reflexivity).
      assert (Hs2 : c_search c'' = S i) by reflexivity. lia.
    + exists m2. split; [exact Hrun|]. simpl in Hfin. destruct Hfin as [Hl Hall]. split.
      * rewrite Hl, replace_nth_length. reflexivity.
      * intros j0 c0 Hj0.
        destruct (Nat.eq_dec j0 k') as [->|Hne].
        -- rewrite Hn in Hj0. injection Hj0 as <-.
           destruct (Hall k' c'') as (c2 & Hc2 & Hspec).
           { rewrite nth_error_replace_nth, Nat.eqb_refl. apply Nat.ltb_lt in Hlen. rewrite Hlen. reflexivity. }
           exists c2. split; [assumption|].
           rewrite Nat.ltb_irrefl in Hspec. destruct Hspec as [Ho Hp].
           assert (Hlt : (k' <? cur) = false) by (apply Nat.ltb_ge; lia). rewrite Hlt.
           assert (Hch : chits (nth k' bens []) c'' = rest).
           { rewrite <- Hrest. unfold chits, c_end, c''. simpl. rewrite Z. reflexivity. }
           rewrite Hch in Ho, Hp. rewrite Hc. split.
           ++ rewrite Ho. unfold c''. simpl. rewrite kids_app_objs.
              ** rewrite (nth_error_nth' _ _ _ dflt Eiv). rewrite <- app_assoc. reflexivity.
              ** intros i0 Hi0'. assert (In i0 (chits (nth k' bens []) c)) by (rewrite Hc; right; assumption).
                 apply chits_in_range in H. lia.
           ++ rewrite Hp. unfold c''. simpl. rewrite <- app_assoc. reflexivity.
        -- destruct (Hall j0 c0) as (c2 & Hc2 & Hspec).
           { rewrite nth_error_replace_nth. apply Nat.eqb_neq in Hne. rewrite Hne. assumption. }
           exists c2. split; [assumption|].
           destruct (j0 <? cur) eqn:Ecur.
           ++ apply Nat.ltb_lt in Ecur. assert (Hlt : (j0 <? k') = true) by (apply Nat.ltb_lt; lia).
              rewrite Hlt in Hspec. assumption.
           ++ apply Nat.ltb_ge in Ecur. destruct (j0 <? k') eqn:Ek.
              ** apply Nat.ltb_lt in Ek.
                 assert (Hnil : chits (nth j0 bens []) c0 = []).
                 { replace j0 with (cur + (j0 - cur)) by lia. apply Hbefore; [lia|].
                   rewrite nth_error_skipn. replace (cur + (j0 - cur)) with j0 by lia. assumption. }
                 rewrite Hnil. simpl. rewrite !app_nil_r. assumption.
              ** assumption.
  - exists (mkMeta cs (length cs)). split; [reflexivity|]. simpl. split; [reflexivity|].
    intros j c Hj. exists c. split; [assumption|].
    destruct (j <? cur) eqn:Ecur; [split; reflexivity|].
    apply Nat.ltb_ge in Ecur.
    assert (Hnil : chits (nth j bens []) c = []).
    { replace j with (cur + (j - cur)) by lia. eapply meta_scan_none; [exact E|].
      rewrite nth_error_skipn. replace (cur + (j - cur)) with j by lia. assumption. }
    rewrite Hnil. simpl. rewrite !app_nil_r. split; reflexivity.
Qed.

End Loop.
