(* C04 / cell strategy, part B: invariant of the cell container under every sequence of refinements and the exactness theorem for
   multilinear monomials. *)
From Coq Require Import ZArith List Bool QArith Qcanon Lia.
From SG Require Import Base.QcUtil Model.CombiScheme Model.Tensor Model.ExtendSplit Model.ESExact Model.CellScheme
     Proofs.ESGeom Proofs.ESExact Proofs.ESMoments Proofs.NodalExact.
From SG Require Import Proofs.CellExactA.
Import ListNotations.
Open Scope Z_scope.

(* ---------------------------------------------------------------- keys *)
Lemma lq_eqb_eq : forall p q, lq_eqb p q = true -> p = q.
Proof.
  induction p as [|x p IH]; intros [|y q] H; simpl in H; try discriminate; [reflexivity|].
  apply andb_true_iff in H. destruct H as [H1 H2]. apply Qc_eqb_eq in H1. subst y. f_equal. apply IH. exact H2.
Qed.
Lemma lq_eqb_refl : forall p, lq_eqb p p = true.
Proof. induction p as [|x p IH]; simpl; [reflexivity|]. rewrite IH, andb_true_r. apply Qc_eqb_eq. reflexivity. Qed.
Lemma box_eqb_eq k k' : box_eqb k k' = true -> k = k'.
Proof.
  unfold box_eqb. intro H. apply andb_true_iff in H. destruct H as [H1 H2].
  apply lq_eqb_eq in H1. apply lq_eqb_eq in H2. destruct k, k'; simpl in *; subst; reflexivity.
Qed.
Lemma box_eqb_refl k : box_eqb k k = true.
Proof. unfold box_eqb. rewrite !lq_eqb_refl. reflexivity. Qed.

Lemma find_cell_some k dict c : find_cell k dict = Some c -> In c dict /\ ckey c = k.
Proof. unfold find_cell. intro H. apply find_some in H. destruct H as [H1 H2]. split; [exact H1 | apply box_eqb_eq; exact H2]. Qed.

Lemma find_cell_app k dict n :
  find_cell k (dict ++ [n]) = match find_cell k dict with Some c => Some c | None => if box_eqb (ckey n) k then Some n else None end.
Proof.
  unfold find_cell. induction dict as [|c dict IH]; simpl; [reflexivity|]. destruct (box_eqb (ckey c) k); [reflexivity | exact IH].
Qed.

Definition deactivate (k : box) (c : cell) : cell := if box_eqb (ckey c) k then mkCell (c_s c) (c_e c) (c_lv c) false else c.
Lemma deactivate_key k c : ckey (deactivate k c) = ckey c.
Proof. unfold deactivate. destruct (box_eqb (ckey c) k); reflexivity. Qed.
Lemma deactivate_lv k c : c_lv (deactivate k c) = c_lv c.
Proof. unfold deactivate. destruct (box_eqb (ckey c) k); reflexivity. Qed.

Lemma find_cell_set_inactive k k' dict : find_cell k' (set_inactive k dict) = option_map (deactivate k) (find_cell k' dict).
Proof.
  unfold find_cell, set_inactive. induction dict as [|c dict IH]; simpl; [reflexivity|].
  change (if box_eqb (ckey c) k then mkCell (c_s c) (c_e c) (c_lv c) false else c) with (deactivate k c).
  rewrite deactivate_key. destruct (box_eqb (ckey c) k'); [reflexivity | exact IH].
Qed.

(* ---------------------------------------------------------------- the invariant *)
Definition cwf (dim : nat) (c : cell) : Prop := wfbox (c_s c) (c_e c) /\ length (c_s c) = dim.
Definition lv_ok (lmin : Z) (dim : nat) (lv : list Z) : Prop := Forall (fun l => lmin <= l) lv /\ length lv = dim.


Record CInv (ex : list nat) (st : cstate) : Prop := mkCInv {
  ci_wf : forall c, In c (cs_dict st) -> cwf (cs_dim st) c;
  ci_objs : forall k, In k (cs_objs st) -> exists c, find_cell k (cs_dict st) = Some c /\ lv_ok (cs_lmin st) (cs_dim st) (c_lv c);
  ci_mom : sumQ (map (base_mom (cs_lmin st) (cs_dim st) ex (cs_dict st)) (cs_objs st)) = bmom (cs_a st) (cs_b st) ex
}.

(* ---------------------------------------------------------------- level vectors *)
Lemma bump_lv_length : forall lv d delta, length (bump_lv d delta lv) = length lv.
Proof. induction lv as [|x lv IH]; intros [|d] delta; simpl; try reflexivity. rewrite IH. reflexivity. Qed.

Lemma nth_bump_same : forall lv d delta, (d < length lv)%nat -> nth d (bump_lv d delta lv) 0 = nth d lv 0 + delta.
Proof. induction lv as [|x lv IH]; intros [|d] delta H; simpl in *; try lia. apply IH. lia. Qed.

Lemma bump_lv_ok lmin dim lv d : lv_ok lmin dim lv -> lv_ok lmin dim (bump_lv d 1 lv).
Proof.
  intros [F L]. split; [|rewrite bump_lv_length; exact L]. clear L. revert d.
  induction lv as [|x lv IH]; intros [|d]; simpl; try constructor; inversion F; subst; try assumption; try lia. apply IH. assumption.
Qed.

Lemma bump_not_base lmin dim lv d : lv_ok lmin dim lv -> (d < dim)%nat -> is_base lmin dim (bump_lv d 1 lv) = false.
Proof.
  intros [F L] Hd. unfold is_base. apply not_true_is_false. intro H. rewrite forallb_forall in H.
  specialize (H d ltac:(apply in_seq; lia)). apply Z.leb_le in H. rewrite nth_bump_same in H by lia.
  rewrite Forall_forall in F. assert (lmin <= nth d lv 0) by (apply F; apply nth_In; lia). lia.
Qed.

(* ---------------------------------------------------------------- children are well formed *)
Lemma children_wf dim d k ch : wfbox (fst k) (snd k) -> length (fst k) = dim -> (d < dim)%nat -> In ch (children_keys d k) ->
  wfbox (fst ch) (snd ch) /\ length (fst ch) = dim.
Proof.
  intros W L Hd Hin. pose proof (wfbox_nth _ _ d W ltac:(lia)) as Lt.
  set (s0 := nth d (fst k) 0%Qc) in *. set (e0 := nth d (snd k) 0%Qc) in *.
  assert (M1 : (s0 < s0 + Qchalf * (e0 - s0))%Qc) by (unfold Qchalf; qc_order).
  assert (M2 : (s0 + Qchalf * (e0 - s0) < e0)%Qc) by (unfold Qchalf; qc_order).
  assert (M3 : (s0 < e0 - Qchalf * (e0 - s0))%Qc) by (unfold Qchalf; qc_order).
  unfold children_keys in Hin. cbv zeta in Hin. fold s0 e0 in Hin.
  destruct Hin as [<-|[<-|[]]]; cbn [fst snd].
  - split; [apply wfbox_set_lower; [exact W | exact M2] | rewrite set_nth_length; exact L].
  - split; [apply wfbox_set_upper; [exact W | exact M3] | exact L].
Qed.

(* ---------------------------------------------------------------- one refinement *)
Section Refine.
Variables (a b : list Qc) (lmin : Z) (dim : nat) (dict0 : list cell).

(* what the creation loop maintains *)
Definition LI (acc : list cell * list box) : Prop :=
  (forall c, In c (fst acc) -> cwf dim c) /\
  (forall k c, find_cell k dict0 = Some c -> find_cell k (fst acc) = Some c) /\
  (forall k, In k (snd acc) -> exists c, find_cell k (fst acc) = Some c /\ lv_ok lmin dim (c_lv c) /\ is_base lmin dim (c_lv c) = false).

Lemma try_create_LI lvc acc cand : lv_ok lmin dim lvc -> is_base lmin dim lvc = false ->
  wfbox (fst cand) (snd cand) -> length (fst cand) = dim -> LI acc -> LI (try_create a b lmin dim lvc acc cand).
Proof.
  intros Hlv Hnb Wc Lc [H1 [H2 H3]]. destruct acc as [dict news]. unfold try_create. cbn [fst snd] in *.
  destruct (find_cell cand dict) eqn:Ef; [split; [exact H1 | split; [exact H2 | exact H3]]|].
  destruct (forallb _ _); [|split; [exact H1 | split; [exact H2 | exact H3]]].
  split; [|split]; cbn [fst snd].
  - intros c Hc. apply in_app_or in Hc. destruct Hc as [Hc|[<-|[]]]; [apply H1; exact Hc|]. split; assumption.
  - intros k c Hk. rewrite find_cell_app, (H2 k c Hk). reflexivity.
  - intros k Hk. apply in_app_or in Hk. destruct Hk as [Hk|[<-|[]]].
    + destruct (H3 k Hk) as [c [Hc R]]. exists c. split; [rewrite find_cell_app, Hc; reflexivity | exact R].
    + exists (mkCell (fst cand) (snd cand) lvc true). split; [|split; assumption].
      rewrite find_cell_app, Ef. unfold ckey. cbn [c_s c_e]. destruct cand. cbn [fst snd]. rewrite box_eqb_refl. reflexivity.
Qed.

Lemma fold_try_create_LI lvc cands : lv_ok lmin dim lvc -> is_base lmin dim lvc = false ->
  (forall ch, In ch cands -> wfbox (fst ch) (snd ch) /\ length (fst ch) = dim) ->
  forall acc, LI acc -> LI (fold_left (try_create a b lmin dim lvc) cands acc).
Proof.
  intros Hlv Hnb. induction cands as [|ch cands IH]; intros Hc acc HL; [exact HL|]. simpl. apply IH.
  - intros ch' H. apply Hc. right. exact H.
  - destruct (Hc ch (or_introl eq_refl)) as [W L]. apply try_create_LI; assumption.
Qed.
End Refine.

Lemma refine_cell_frame st k : cs_dim (refine_cell st k) = cs_dim st /\ cs_lmin (refine_cell st k) = cs_lmin st /\
  cs_a (refine_cell st k) = cs_a st /\ cs_b (refine_cell st k) = cs_b st.
Proof.
  unfold refine_cell. destruct (find_cell k (cs_dict st)) as [c|]; [|repeat split].
  destruct (c_active c); [|repeat split].
  destruct (fold_left _ _ _) as [d1 n1]. repeat split.
Qed.

Lemma refine_cell_inv ex st k : CInv ex st -> In k (cs_objs st) -> CInv ex (refine_cell st k).
Proof.
  intros [Hwf Hobj Hmom] Hk. unfold refine_cell.
  destruct (Hobj k Hk) as [c [Hc Hlv]]. rewrite Hc. destruct (c_active c); [|constructor; assumption].
  destruct (find_cell_some _ _ _ Hc) as [Hin Ekey]. destruct (Hwf c Hin) as [Wc Lc].
  set (dict0 := set_inactive k (cs_dict st)).
  assert (L0 : LI (cs_lmin st) (cs_dim st) dict0 (dict0, [])).
  { split; [|split]; cbn [fst snd].
    - intros c' Hc'. unfold dict0, set_inactive in Hc'. apply in_map_iff in Hc'. destruct Hc' as [c0 [E H0]]. subst c'.
      destruct (Hwf c0 H0) as [W0 L0']. destruct (box_eqb (ckey c0) k); split; assumption.
    - intros k' c' H. exact H.
    - intros k' []. }
  assert (LD : forall n d0 acc, (d0 + n = cs_dim st)%nat -> LI (cs_lmin st) (cs_dim st) dict0 acc ->
               LI (cs_lmin st) (cs_dim st) dict0
                  (fold_left (fun acc d => fold_left (try_create (cs_a st) (cs_b st) (cs_lmin st) (cs_dim st) (bump_lv d 1 (c_lv c)))
                                                     (children_keys d k) acc) (seq d0 n) acc)).
  { induction n as [|n IH]; intros d0 acc E HL; [exact HL|]. cbn [seq fold_left]. apply IH; [lia|].
    apply fold_try_create_LI; [apply bump_lv_ok; exact Hlv | apply bump_not_base; [exact Hlv | lia] | | exact HL].
    intros ch Hch. apply (children_wf (cs_dim st) d0 k ch); [rewrite <- Ekey; exact Wc | rewrite <- Ekey; exact Lc | lia | exact Hch]. }
  specialize (LD (cs_dim st) 0%nat (dict0, []) eq_refl L0).
  destruct (fold_left _ (seq 0 (cs_dim st)) (dict0, [])) as [dict1 news]. destruct LD as [D1 [D2 D3]]. cbn [fst snd] in *.
  assert (Keep : forall k' c', find_cell k' (cs_dict st) = Some c' -> find_cell k' dict1 = Some (deactivate k c')).
  { intros k' c' H. apply D2. unfold dict0. rewrite find_cell_set_inactive, H. reflexivity. }
  constructor; cbn [cs_dim cs_lmin cs_a cs_b cs_dict cs_objs].
  - exact D1.
  - intros k' Hk'. apply in_app_or in Hk'. destruct Hk' as [Hk'|Hk'].
    + destruct (Hobj k' Hk') as [c' [Hc' Hlv']]. exists (deactivate k c'). split; [apply Keep; exact Hc' | rewrite deactivate_lv; exact Hlv'].
    + destruct (D3 k' Hk') as [c' [Hc' [Hlv' _]]]. exists c'. split; assumption.
  - rewrite map_app, sumQ_app. rewrite <- Hmom.
    assert (E1 : map (base_mom (cs_lmin st) (cs_dim st) ex dict1) (cs_objs st) = map (base_mom (cs_lmin st) (cs_dim st) ex (cs_dict st)) (cs_objs st)).
    { apply map_ext_in. intros k' Hk'. destruct (Hobj k' Hk') as [c' [Hc' _]]. unfold base_mom. rewrite (Keep k' c' Hc'), Hc', deactivate_lv. reflexivity. }
    assert (E2 : sumQ (map (base_mom (cs_lmin st) (cs_dim st) ex dict1) news) = 0%Qc).
    { assert (Z0 : forall k', In k' news -> base_mom (cs_lmin st) (cs_dim st) ex dict1 k' = 0%Qc).
      { intros k' Hk'. destruct (D3 k' Hk') as [c' [Hc' [_ Hb]]]. unfold base_mom. rewrite Hc', Hb. reflexivity. }
      clear -Z0. induction news as [|x r IH]; [reflexivity|]. simpl. rewrite (Z0 x (or_introl eq_refl)), IH; [ring|].
      intros k' H. apply Z0. right. exact H. }
    rewrite E1, E2. ring.
Qed.

(* ---------------------------------------------------------------- rounds and histories *)
Lemma refine_round_inv ex positions : forall st, CInv ex st -> CInv ex (CellScheme.refine_round st positions).
Proof.
  unfold CellScheme.refine_round. induction positions as [|i ps IH]; intros st H; [exact H|]. simpl. apply IH.
  destruct (nth_error (cs_objs st) i) as [k|] eqn:E; [|exact H]. apply refine_cell_inv; [exact H | eapply nth_error_In; exact E].
Qed.

Lemma cell_run_inv ex rounds : forall st, CInv ex st -> CInv ex (cell_run st rounds).
Proof. unfold cell_run. induction rounds as [|r rs IH]; intros st H; [exact H|]. simpl. apply IH. apply refine_round_inv. exact H. Qed.

Lemma refine_round_frame positions : forall st, cs_dim (CellScheme.refine_round st positions) = cs_dim st /\
  cs_a (CellScheme.refine_round st positions) = cs_a st /\ cs_b (CellScheme.refine_round st positions) = cs_b st.
Proof.
  unfold CellScheme.refine_round. induction positions as [|i ps IH]; intros st; [repeat split|]. simpl.
  destruct (IH (match nth_error (cs_objs st) i with Some k => refine_cell st k | None => st end)) as [A [B C]].
  rewrite A, B, C. destruct (nth_error (cs_objs st) i) as [k|]; [|repeat split].
  destruct (refine_cell_frame st k) as [F1 [_ [F3 F4]]]. repeat split; assumption.
Qed.

Lemma cell_run_frame rounds : forall st, cs_dim (cell_run st rounds) = cs_dim st /\ cs_a (cell_run st rounds) = cs_a st /\ cs_b (cell_run st rounds) = cs_b st.
Proof.
  unfold cell_run. induction rounds as [|r rs IH]; intros st; [repeat split|]. simpl.
  destruct (IH (CellScheme.refine_round st r)) as [A [B C]]. destruct (refine_round_frame r st) as [A' [B' C']].
  rewrite A, B, C. repeat split; assumption.
Qed.

(* ---------------------------------------------------------------- exactness from the invariant *)
Lemma sum_optQ_coeff (B : Qc) (g : box * list Z * Z -> option Qc) : forall l v,
  (forall e x, In e l -> g e = Some x -> x = (qc_of_Z (snd e) * B)%Qc) ->
  sum_optQ (map g l) = Some v -> v = (qc_of_Z (coeff_sum l) * B)%Qc.
Proof.
  induction l as [|e l IH]; intros v Hg H; simpl in H.
  - injection H as <-. unfold coeff_sum. simpl. change (qc_of_Z 0) with 0%Qc. ring.
  - destruct (g e) as [x|] eqn:Ex; [|discriminate]. destruct (sum_optQ (map g l)) as [y|] eqn:Ey; [|discriminate].
    injection H as <-. rewrite (Hg e x (or_introl eq_refl) Ex), (IH y (fun e' x' H' => Hg e' x' (or_intror H')) eq_refl).
    rewrite coeff_sum_cons. rewrite qc_of_Z_add. ring.
Qed.

Lemma contribution_value ex st k v : CInv ex st -> length ex = cs_dim st -> Forall (fun n => (n <= 1)%nat) ex ->
  In k (cs_objs st) -> cell_contribution st (monomial ex) k = Some v ->
  v = base_mom (cs_lmin st) (cs_dim st) ex (cs_dict st) k.
Proof.
  intros [Hwf Hobj _] Lx Fx Hk H. unfold cell_contribution in H. destruct (Hobj k Hk) as [c [Hc [_ Llv]]]. rewrite Hc in H.
  destruct (find_cell_some _ _ _ Hc) as [Hin Ekey]. destruct (Hwf c Hin) as [Wc Lc].
  assert (Lk1 : length (fst k) = cs_dim st) by (rewrite <- Ekey; exact Lc).
  assert (Lk2 : length (snd k) = cs_dim st) by (rewrite <- Ekey; cbn [ckey snd]; rewrite <- (wfbox_length _ _ Wc); exact Lc).
  set (g := fun e : box * list Z * Z =>
              match find_cell (fst (fst e)) (cs_dict st) with
              | Some p => Some (qc_of_Z (snd e) * subcell_integral (cs_dim st) (ckey p) k (monomial ex))%Qc
              | None => None
              end) in H.
  assert (Hg : forall e x, In e (relevant_parents (cs_a st) (cs_b st) (cs_lmin st) (cs_dim st) k (c_lv c)) -> g e = Some x ->
               x = (qc_of_Z (snd e) * bmom (fst k) (snd k) ex)%Qc).
  { intros e x _ Hx. unfold g in Hx. destruct (find_cell (fst (fst e)) (cs_dict st)) as [p|] eqn:Ep; [|discriminate]. injection Hx as <-.
    destruct (find_cell_some _ _ _ Ep) as [Hpin _]. destruct (Hwf p Hpin) as [Wp Lp].
    rewrite (subcell_integral_multilinear (cs_dim st) (ckey p) k ex); [reflexivity | exact Wp | exact Lp | exact Lk1 | exact Lk2 | exact Lx | exact Fx]. }
  rewrite (sum_optQ_coeff (bmom (fst k) (snd k) ex) g _ v Hg H).
  rewrite relevant_parents_coeff_sum. unfold base_mom. rewrite Hc. destruct (is_base _ _ _).
  - change (qc_of_Z 1) with 1%Qc. ring.
  - change (qc_of_Z 0) with 0%Qc. ring.
Qed.

Lemma sum_optQ_values (h : box -> Qc) (g : box -> option Qc) : forall l v,
  (forall k x, In k l -> g k = Some x -> x = h k) -> sum_optQ (map g l) = Some v -> v = sumQ (map h l).
Proof.
  induction l as [|k l IH]; intros v Hg H; simpl in H; [injection H as <-; reflexivity|].
  destruct (g k) as [x|] eqn:Ex; [|discriminate]. destruct (sum_optQ (map g l)) as [y|] eqn:Ey; [|discriminate].
  injection H as <-. simpl. rewrite (Hg k x (or_introl eq_refl) Ex), (IH y (fun k' x' H' => Hg k' x' (or_intror H')) eq_refl). reflexivity.
Qed.

Theorem cinv_exact ex st v : CInv ex st -> length ex = cs_dim st -> Forall (fun n => (n <= 1)%nat) ex ->
  cell_integral st (monomial ex) = Some v -> v = bmom (cs_a st) (cs_b st) ex.
Proof.
  intros HI Lx Fx H. unfold cell_integral in H. rewrite <- (ci_mom ex st HI).
  apply (sum_optQ_values _ (cell_contribution st (monomial ex))); [|exact H].
  intros k x Hk Hx. apply (contribution_value ex st k x HI Lx Fx Hk Hx).
Qed.

(* ---------------------------------------------------------------- the initial state: verified checker *)
Lemma wfboxb_sound : forall s e, wfboxb s e = true -> wfbox s e.
Proof.
  induction s as [|x s IH]; intros [|y e] H; simpl in *; try discriminate; [exact I|].
  apply andb_true_iff in H. destruct H as [H1 H2]. split; [apply Qc_ltb_lt; exact H1 | apply IH; exact H2].
Qed.

Lemma cstate_okb_sound st ex : cstate_okb st = true -> length ex = cs_dim st -> Forall (fun n => (n <= 1)%nat) ex -> CInv ex st.
Proof.
  unfold cstate_okb. intros H Lx Fx. apply andb_true_iff in H. destruct H as [H H3]. apply andb_true_iff in H. destruct H as [H1 H2].
  rewrite forallb_forall in H1, H2, H3. constructor.
  - intros c Hc. specialize (H1 c Hc). apply andb_true_iff in H1. destruct H1 as [A B]. split; [apply wfboxb_sound; exact A | apply Nat.eqb_eq; exact B].
  - intros k Hk. specialize (H2 k Hk). destruct (find_cell k (cs_dict st)) as [c|]; [|discriminate]. exists c. split; [reflexivity|].
    apply andb_true_iff in H2. destruct H2 as [A B]. split; [|apply Nat.eqb_eq; exact B].
    apply Forall_forall. intros l Hl. rewrite forallb_forall in A. apply Z.leb_le. apply A. exact Hl.
  - apply Qc_eqb_eq. apply H3. apply multilinear_exps_spec; assumption.
Qed.


Lemma cell_init_fields dim lmin a b : cs_dim (cell_init dim lmin a b) = dim /\ cs_a (cell_init dim lmin a b) = a /\ cs_b (cell_init dim lmin a b) = b.
Proof. unfold cell_init. destruct (fold_left _ _ _) as [d o]. repeat split. Qed.

(* every history of refinements of the cell strategy: every multilinear monomial is integrated exactly (whenever the evaluation does not
   raise KeyError, i.e. returns a value at all) *)
Theorem cell_multilinear_exact dim lmin a b rounds ex v :
  cell_init_okb dim lmin a b = true -> length ex = dim -> Forall (fun n => (n <= 1)%nat) ex ->
  cell_integral (cell_run (cell_init dim lmin a b) rounds) (monomial ex) = Some v -> v = bmom a b ex.
Proof.
  intros Hok Lx Fx H. destruct (cell_init_fields dim lmin a b) as [E1 [E2 E3]].
  destruct (cell_run_frame rounds (cell_init dim lmin a b)) as [F1 [F2 F3]].
  assert (HI : CInv ex (cell_run (cell_init dim lmin a b) rounds)).
  { apply cell_run_inv. apply cstate_okb_sound; [exact Hok | rewrite E1; exact Lx | exact Fx]. }
  pose proof (cinv_exact ex _ v HI ltac:(rewrite F1, E1; exact Lx) Fx H) as R. rewrite F2, F3, E2, E3 in R. exact R.
Qed.
