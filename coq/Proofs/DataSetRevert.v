(* C18 — revert_scaling restores the samples: after a first (or overriding) scaling operation and ANY sequence of
   non-overriding scale_range / scale_factor / shift_value operations (valid range, fitting arguments, non-zero factors),
   revert_scaling gives back exactly the samples the data set held before the first of them, and clears the attributes.
   Proof by an invariant: rows = (original rows) * fv + cv per dimension, _scaling_factor represents fv, fv has no zero entry,
   _original_min is the column minimum of the original rows. *)
From Coq Require Import ZArith List QArith Qcanon Bool Lia Arith.
From SG Require Import Base.QcUtil Model.DataSet Proofs.DataSetVec Proofs.DataSetScale.
Import ListNotations.
Open Scope Qc_scope.

(* ------------------------------------------------------------------ pointwise access *)
Lemma nth_vmul n a b j : length a = n -> length b = n -> (j < n)%nat -> nth j (vmul a b) 0 = nth j a 0 * nth j b 0.
Proof. intros. unfold vmul. apply nth_map2; lia. Qed.
Lemma nth_vadd n a b j : length a = n -> length b = n -> (j < n)%nat -> nth j (vadd a b) 0 = nth j a 0 + nth j b 0.
Proof. intros. unfold vadd. apply nth_map2; lia. Qed.
Lemma nth_vsub n a b j : length a = n -> length b = n -> (j < n)%nat -> nth j (vsub a b) 0 = nth j a 0 - nth j b 0.
Proof. intros. unfold vsub. apply nth_map2; lia. Qed.
Lemma nth_vneg n a j : length a = n -> (j < n)%nat -> nth j (vneg a) 0 = - nth j a 0.
Proof. intros. unfold vneg. apply (nth_map_lt Qcopp a j 0 0). lia. Qed.
Lemma vmul_length n a b : length a = n -> length b = n -> length (vmul a b) = n.
Proof. intros. unfold vmul. apply map2_length_eq; assumption. Qed.
Lemma vadd_length n a b : length a = n -> length b = n -> length (vadd a b) = n.
Proof. intros. unfold vadd. apply map2_length_eq; assumption. Qed.
Lemma vsub_length n a b : length a = n -> length b = n -> length (vsub a b) = n.
Proof. intros. unfold vsub. apply map2_length_eq; assumption. Qed.
Lemma vneg_length n a : length a = n -> length (vneg a) = n.
Proof. intros. unfold vneg. rewrite map_length. assumption. Qed.

Definition aff (fv cv o : row) : row := vadd (vmul o fv) cv.

Lemma aff_length n fv cv o : length fv = n -> length cv = n -> length o = n -> length (aff fv cv o) = n.
Proof. intros. unfold aff. apply vadd_length; [apply vmul_length|]; assumption. Qed.
Lemma nth_aff n fv cv o j : length fv = n -> length cv = n -> length o = n -> (j < n)%nat ->
  nth j (aff fv cv o) 0 = nth j o 0 * nth j fv 0 + nth j cv 0.
Proof. intros. unfold aff. rewrite (nth_vadd n), (nth_vmul n); auto. apply vmul_length; assumption. Qed.

Lemma map_rows_compose f g l : map_rows f (map_rows g l) = map_rows (fun r => f (g r)) l.
Proof. unfold map_rows. rewrite map_map. reflexivity. Qed.
Lemma map_rows_ext_in f g l : (forall s, In s l -> f (fst s) = g (fst s)) -> map_rows f l = map_rows g l.
Proof. intro H. unfold map_rows. apply map_ext_in. intros s Hs. rewrite (H s Hs). reflexivity. Qed.
Lemma map_rows_id f l : (forall s, In s l -> f (fst s) = fst s) -> map_rows f l = l.
Proof.
  unfold map_rows. induction l as [|[r lb] l IH]; intro H; simpl; [reflexivity|].
  pose proof (H (r, lb) (or_introl eq_refl)) as E. cbn [fst] in E. rewrite E. f_equal. apply IH. intros s Hs. apply H. right. exact Hs.
Qed.

(* ------------------------------------------------------------------ arguments and factors *)
Definition arg_nonzero (a : arg) : Prop := match a with AScalar q => q <> 0 | AArr l => Forall (fun q => q <> 0) l end.

Lemma expand_length n a : arg_fits n a = true -> length (expand n a) = n.
Proof. destruct a as [q|l]; simpl; [intros _; apply repeat_length | intro H; apply Nat.eqb_eq; exact H]. Qed.

Lemma nth_nonzero l j : Forall (fun q : Qc => q <> 0) l -> (j < length l)%nat -> nth j l 0 <> 0.
Proof. intros H Hj. rewrite Forall_forall in H. apply H. apply nth_In. exact Hj. Qed.

Lemma expand_nonzero n a : arg_nonzero a -> Forall (fun q => q <> 0) (expand n a).
Proof.
  destruct a as [q|l]; simpl; intro H; [|exact H].
  rewrite Forall_forall. intros x Hx. apply repeat_spec in Hx. subst. exact H.
Qed.

Lemma forall_nth_nonzero n (l : row) : length l = n -> (forall j, (j < n)%nat -> nth j l 0 <> 0) -> Forall (fun q => q <> 0) l.
Proof.
  intros Hl H. rewrite Forall_forall. intros x Hx. destruct (In_nth _ _ 0 Hx) as [j [Hj E]]. subst x. apply H. lia.
Qed.

Lemma vmul_nonzero n a b : length a = n -> length b = n ->
  Forall (fun q => q <> 0) a -> Forall (fun q => q <> 0) b -> Forall (fun q => q <> 0) (vmul a b).
Proof.
  intros La Lb Ha Hb. apply (forall_nth_nonzero n); [apply vmul_length; assumption|].
  intros j Hj. rewrite (nth_vmul n) by assumption.
  intro Z0. apply Qcmult_integral in Z0. destruct Z0 as [Z0|Z0]; revert Z0; apply nth_nonzero; auto; lia.
Qed.

Lemma map2_mult_nonzero (a b : row) :
  Forall (fun q => q <> 0) a -> Forall (fun q => q <> 0) b -> Forall (fun q => q <> 0) (vmul a b).
Proof.
  unfold vmul. revert b. induction a as [|x a IH]; intros [|y b] Ha Hb; simpl; try constructor.
  - inversion Ha; inversion Hb; subst. intro Z0. apply Qcmult_integral in Z0. destruct Z0; contradiction.
  - inversion Ha; inversion Hb; subst. apply IH; assumption.
Qed.

Definition fac_vec (n : nat) (f : fac) : option row :=
  match f with
  | FNone => None
  | FScalar q => Some (repeat q n)
  | FArr l => if Nat.eqb (length l) n then Some l else None
  end.

Lemma Qc_eqb_false a b : a <> b -> Qc_eqb a b = false.
Proof. intro H. destruct (Qc_eqb a b) eqn:E; [apply Qc_eqb_eq in E; contradiction | reflexivity]. Qed.
Lemma Qc_eqb_false_inv a b : Qc_eqb a b = false -> a <> b.
Proof. intros H E. apply Qc_eqb_eq in E. congruence. Qed.

Lemma existsb_zero_false l : Forall (fun q : Qc => q <> 0) l <-> existsb (fun q => Qc_eqb q 0) l = false.
Proof.
  induction l as [|x l IH]; simpl; [split; [reflexivity | constructor]|].
  split.
  - intro H. inversion H; subst. rewrite Qc_eqb_false by assumption. apply IH. assumption.
  - intro H. apply orb_false_iff in H. destruct H as [H1 H2]. constructor; [apply Qc_eqb_false_inv; exact H1 | apply IH; exact H2].
Qed.

(* fac_mul against the vector view *)
Lemma fac_mul_vec n f a fv : fac_vec n f = Some fv -> arg_fits n a = true ->
  fac_vec n (fac_mul f a) = Some (vmul fv (expand n a)).
Proof.
  intros Hf Ha. destruct f as [|q|l]; simpl in Hf; [discriminate| |].
  - inversion Hf; subst fv. destruct a as [x|l']; simpl in *.
    + f_equal. apply (row_ext _ _ n); [apply repeat_length | apply vmul_length; apply repeat_length|].
      intros j Hj. rewrite (nth_vmul n), !nth_repeat_lt by (try apply repeat_length; lia). reflexivity.
    + apply Nat.eqb_eq in Ha. rewrite map_length, Ha, Nat.eqb_refl. f_equal.
      apply (row_ext _ _ n); [rewrite map_length; exact Ha | apply vmul_length; [apply repeat_length | exact Ha]|].
      intros j Hj. rewrite (nth_vmul n), nth_repeat_lt by (try apply repeat_length; lia).
      rewrite (nth_map_lt _ l' j 0 0) by lia. reflexivity.
  - destruct (Nat.eqb (length l) n) eqn:El; [|discriminate]. inversion Hf; subst fv. apply Nat.eqb_eq in El.
    destruct a as [x|l']; simpl in *.
    + rewrite map_length, El, Nat.eqb_refl. f_equal.
      apply (row_ext _ _ n); [rewrite map_length; exact El | apply vmul_length; [exact El | apply repeat_length]|].
      intros j Hj. rewrite (nth_vmul n), nth_repeat_lt by (try apply repeat_length; lia).
      rewrite (nth_map_lt _ l j 0 0) by lia. reflexivity.
    + apply Nat.eqb_eq in Ha. rewrite (vmul_length n) by assumption. rewrite Nat.eqb_refl. reflexivity.
Qed.

Lemma fac_mul_nozero f a : fac_has_zero f = false -> arg_nonzero a -> f <> FNone -> fac_has_zero (fac_mul f a) = false.
Proof.
  intros Hf Ha Hn. destruct f as [|q|l]; [contradiction| |]; simpl in Hf.
  - apply Qc_eqb_false_inv in Hf. destruct a as [x|l']; simpl in *.
    + apply Qc_eqb_false. intro Z0. apply Qcmult_integral in Z0. destruct Z0; contradiction.
    + apply existsb_zero_false. rewrite Forall_map. eapply Forall_impl; [|exact Ha]. intros y Hy Z0.
      apply Qcmult_integral in Z0. destruct Z0; contradiction.
  - apply existsb_zero_false in Hf. destruct a as [x|l']; simpl in *.
    + apply existsb_zero_false. rewrite Forall_map. eapply Forall_impl; [|exact Hf]. intros y Hy Z0.
      apply Qcmult_integral in Z0. destruct Z0; contradiction.
    + apply existsb_zero_false. apply map2_mult_nonzero; assumption.
Qed.

(* ------------------------------------------------------------------ the invariant *)
Record Inv (n : nat) (d : ds) (R : list sample) (fv cv : row) : Prop := mkInv {
  inv_dim : ddim d = n;
  inv_rows : rows d = map_rows (aff fv cv) R;
  inv_ne : R <> [];
  inv_len : Forall (fun s => length (fst s) = n) R;
  inv_fv : length fv = n;
  inv_cv : length cv = n;
  inv_nz : Forall (fun q => q <> 0) fv;
  inv_scaled : scaled d = true;
  inv_omin : omin d = data_min (map fst R);
  inv_fac : fac_vec n (sfactor d) = Some fv;
  inv_fz : fac_has_zero (sfactor d) = false }.

Lemma inv_not_empty n d R fv cv : Inv n d R fv cv -> is_empty d = false.
Proof.
  intro I. unfold is_empty. rewrite (inv_rows _ _ _ _ _ I). destruct R; [exfalso; apply (inv_ne _ _ _ _ _ I); reflexivity | reflexivity].
Qed.

Lemma inv_fac_not_none n d R fv cv : Inv n d R fv cv -> sfactor d <> FNone.
Proof. intros I E. pose proof (inv_fac _ _ _ _ _ I) as F. rewrite E in F. discriminate. Qed.

Lemma rows_in_len n R s : Forall (fun s : sample => length (fst s) = n) R -> In s R -> length (fst s) = n.
Proof. intros H Hs. rewrite Forall_forall in H. apply H. exact Hs. Qed.

(* non-overriding scale_factor *)
Lemma step_factor n d R fv cv a : Inv n d R fv cv -> arg_fits n a = true -> arg_nonzero a ->
  exists d', scale_factor a false d = (d', false) /\ Inv n d' R (vmul fv (expand n a)) (vmul cv (expand n a)).
Proof.
  intros I Ha Hz. pose proof (expand_length n a Ha) as Le.
  unfold scale_factor. rewrite (inv_scaled _ _ _ _ _ I). cbn [negb orb].
  unfold dim. rewrite (inv_dim _ _ _ _ _ I), Ha. cbn [negb]. rewrite (inv_not_empty _ _ _ _ _ I).
  eexists. split; [reflexivity|].
  destruct I as [Id Ir Ine Il If Ic Inz Is Io Ifac Ifz].
  constructor; cbn [ddim rows scaled omin sfactor]; auto.
  - rewrite Ir, map_rows_compose. apply map_rows_ext_in. intros s Hs.
    pose proof (rows_in_len n R s Il Hs) as Ls.
    apply (row_ext _ _ n).
    + apply vmul_length; [apply aff_length|]; assumption.
    + apply aff_length; try apply vmul_length; assumption.
    + intros j Hj. rewrite (nth_vmul n), !(nth_aff n), !(nth_vmul n); auto; try (apply vmul_length; assumption).
      ring. apply aff_length; assumption.
  - apply vmul_length; assumption.
  - apply vmul_length; assumption.
  - apply (vmul_nonzero n); auto. apply expand_nonzero. exact Hz.
  - apply fac_mul_vec; assumption.
  - apply fac_mul_nozero; auto. intro E. rewrite E in Ifac. discriminate.
Qed.

(* non-overriding shift_value *)
Lemma step_shift n d R fv cv a : Inv n d R fv cv -> arg_fits n a = true ->
  exists d', shift_value a false d = (d', false) /\ Inv n d' R fv (vadd cv (expand n a)).
Proof.
  intros I Ha. pose proof (expand_length n a Ha) as Le.
  unfold shift_value. rewrite (inv_scaled _ _ _ _ _ I). cbn [negb orb].
  unfold dim. rewrite (inv_dim _ _ _ _ _ I), Ha. cbn [negb]. rewrite (inv_not_empty _ _ _ _ _ I).
  eexists. split; [reflexivity|].
  destruct I as [Id Ir Ine Il If Ic Inz Is Io Ifac Ifz].
  constructor; cbn [ddim rows scaled omin sfactor]; auto.
  - rewrite Ir, map_rows_compose. apply map_rows_ext_in. intros s Hs.
    pose proof (rows_in_len n R s Il Hs) as Ls.
    apply (row_ext _ _ n).
    + apply vadd_length; [apply aff_length|]; assumption.
    + apply aff_length; try apply vadd_length; assumption.
    + intros j Hj. rewrite (nth_vadd n), !(nth_aff n), (nth_vadd n); auto; try (apply vadd_length; assumption).
      ring. apply aff_length; assumption.
  - apply vadd_length; assumption.
Qed.

Lemma handle_zero_nonzero r : handle_zero r <> 0.
Proof.
  unfold handle_zero. destruct (Qc_ltb r eps10) eqn:E; [discriminate|].
  assert (~ r < eps10) by (intro L; apply Qc_ltb_lt in L; congruence).
  apply Qcnot_lt_le in H. intro Z0. rewrite Z0 in H. apply (Qcle_not_lt _ _ H). reflexivity.
Qed.

Lemma mm_scale_nonzero lo hi mn mx : lo < hi -> Forall (fun q => q <> 0) (mm_scale lo hi mn mx).
Proof.
  intro H. unfold mm_scale. rewrite Forall_map. rewrite Forall_forall. intros r _.
  unfold Qcdiv. intro Z0. apply Qcmult_integral in Z0. destruct Z0 as [Z0|Z0].
  - apply sub_pos in H. rewrite Z0 in H. apply (Qclt_not_eq _ _ H). reflexivity.
  - pose proof (handle_zero_nonzero r) as Hz. apply Hz.
    rewrite <- (Qcmult_1_l (handle_zero r)), <- (Qcmult_inv_l _ Hz) at 1. rewrite Z0. ring.
Qed.

Lemma inv_values_len n d R fv cv : Inv n d R fv cv -> rows_len n (values d).
Proof.
  intro I. unfold rows_len, values. rewrite (inv_rows _ _ _ _ _ I), values_map_rows, !Forall_map.
  eapply Forall_impl; [|exact (inv_len _ _ _ _ _ I)]. intros s Hs. cbn beta in *.
  apply aff_length; [exact (inv_fv _ _ _ _ _ I) | exact (inv_cv _ _ _ _ _ I) | exact Hs].
Qed.

(* the min-max scaler applied to a non-empty well-formed list of rows *)
Lemma scaler_lengths n lo hi (vs : list row) : vs <> [] -> rows_len n vs ->
  exists mn mx, data_min vs = Some mn /\ data_max vs = Some mx /\
    length (mm_scale lo hi mn mx) = n /\ length (mm_min lo mn (mm_scale lo hi mn mx)) = n /\ length mn = n.
Proof.
  intros Hne Hl. destruct vs as [|r0 rs]; [contradiction|]. inversion Hl; subst.
  exists (colmin r0 rs), (colmax r0 rs). split; [reflexivity|]. split; [reflexivity|].
  assert (L1 : length (colmin r0 rs) = length r0) by (apply colmin_length; auto).
  assert (L2 : length (colmax r0 rs) = length r0) by (apply colmax_length; auto).
  assert (L3 : length (mm_scale lo hi (colmin r0 rs) (colmax r0 rs)) = length r0).
  { unfold mm_scale. rewrite map_length. apply vsub_length; assumption. }
  split; [exact L3|]. split; [|exact L1]. unfold mm_min. apply map2_length_eq; assumption.
Qed.

(* non-overriding scale_range *)
Lemma step_range n d R fv cv lo hi : Inv n d R fv cv -> lo < hi ->
  exists d' sc mi, scale_range lo hi false d = (d', false) /\ Inv n d' R (vmul fv sc) (vadd (vmul cv sc) mi).
Proof.
  intros I Hlh.
  assert (Hne : values d <> []).
  { unfold values. rewrite (inv_rows _ _ _ _ _ I). destruct R; [exfalso; apply (inv_ne _ _ _ _ _ I); reflexivity | discriminate]. }
  destruct (scaler_lengths n lo hi (values d) Hne (inv_values_len _ _ _ _ _ I)) as [mn [mx [Emn [Emx [Lsc [Lmi Lmn]]]]]].
  set (sc := mm_scale lo hi mn mx) in *. set (mi := mm_min lo mn sc) in *.
  unfold scale_range. pose proof Hlh as Hb. apply Qc_ltb_lt in Hb. rewrite Hb. cbn [negb]. rewrite Emn, Emx.
  rewrite (inv_scaled _ _ _ _ _ I). cbn [negb orb]. fold sc. fold mi.
  eexists. exists sc, mi. split; [reflexivity|].
  destruct I as [Id Ir Ine Il If Ic Inz Is Io Ifac Ifz].
  constructor; cbn [ddim rows scaled omin sfactor]; auto.
  - rewrite Ir, map_rows_compose. apply map_rows_ext_in. intros s Hs.
    pose proof (rows_in_len n R s Il Hs) as Ls.
    apply (row_ext _ _ n).
    + apply transform_length; try assumption. apply aff_length; assumption.
    + apply aff_length; [apply vmul_length | apply vadd_length; [apply vmul_length|] | ]; assumption.
    + intros j Hj. rewrite (nth_transform n); auto; [|apply aff_length; assumption].
      rewrite !(nth_aff n), (nth_vadd n), !(nth_vmul n); auto;
        try (apply vmul_length; assumption); try (apply vadd_length; [apply vmul_length|]; assumption).
      ring.
  - apply vmul_length; assumption.
  - apply vadd_length; [apply vmul_length|]; assumption.
  - apply (vmul_nonzero n); auto. apply mm_scale_nonzero. exact Hlh.
  - change (fac_vec n (fac_mul (sfactor d) (AArr sc)) = Some (vmul fv (expand n (AArr sc)))).
    apply fac_mul_vec; [exact Ifac | simpl; apply Nat.eqb_eq; exact Lsc].
  - apply fac_mul_nozero; auto; [simpl; apply mm_scale_nonzero; exact Hlh | intro E; rewrite E in Ifac; discriminate].
Qed.

(* ------------------------------------------------------------------ establishing the invariant: first or overriding scaling *)
Lemma wf_len d : wf d -> Forall (fun s => length (fst s) = ddim d) (rows d).
Proof. intros [_ H]. exact H. Qed.

Lemma first_range d lo hi ov : wf d -> negb (scaled d) || ov = true -> lo < hi ->
  exists d' sc mi, scale_range lo hi ov d = (d', false) /\ Inv (ddim d) d' (rows d) sc mi.
Proof.
  intros Hwf Hov Hlh. set (n := ddim d).
  assert (Hne : values d <> []) by (destruct Hwf as [H _]; unfold values; destruct (rows d); [contradiction | discriminate]).
  destruct (scaler_lengths n lo hi (values d) Hne (wf_values_len d Hwf)) as [mn [mx [Emn [Emx [Lsc [Lmi Lmn]]]]]].
  set (sc := mm_scale lo hi mn mx) in *. set (mi := mm_min lo mn sc) in *.
  unfold scale_range. pose proof Hlh as Hb. apply Qc_ltb_lt in Hb. rewrite Hb. cbn [negb]. rewrite Emn, Emx, Hov.
  fold sc. fold mi. eexists. exists sc, mi. split; [reflexivity|].
  destruct Hwf as [Hn Hl].
  constructor; cbn [ddim rows scaled omin sfactor]; auto.
  - apply mm_scale_nonzero. exact Hlh.
  - simpl. fold n in Lsc. rewrite Lsc, Nat.eqb_refl. reflexivity.
  - simpl. apply existsb_zero_false. apply mm_scale_nonzero. exact Hlh.
Qed.

Lemma first_factor d a ov : wf d -> negb (scaled d) || ov = true -> arg_fits (ddim d) a = true -> arg_nonzero a ->
  exists d', scale_factor a ov d = (d', false) /\ Inv (ddim d) d' (rows d) (expand (ddim d) a) (repeat 0 (ddim d)).
Proof.
  intros Hwf Hov Ha Hz. set (n := ddim d) in *. pose proof (expand_length n a Ha) as Le.
  unfold scale_factor. rewrite Hov, (wf_not_empty d Hwf). unfold dim. fold n. rewrite Ha. cbn [negb].
  eexists. split; [reflexivity|]. destruct Hwf as [Hn Hl].
  constructor; cbn [ddim rows scaled omin sfactor]; auto.
  - apply map_rows_ext_in. intros s Hs. pose proof (rows_in_len n _ s Hl Hs) as Ls.
    apply (row_ext _ _ n); [apply vmul_length; assumption | apply aff_length; auto; apply repeat_length|].
    intros j Hj. rewrite (nth_vmul n) by assumption. rewrite (nth_aff n) by (try assumption; apply repeat_length).
    rewrite nth_repeat_lt by assumption. ring.
  - apply repeat_length.
  - apply expand_nonzero. exact Hz.
  - destruct a as [q|l]; simpl in *; [reflexivity | rewrite Ha; reflexivity].
  - destruct a as [q|l]; simpl in *; [apply Qc_eqb_false; exact Hz | apply existsb_zero_false; exact Hz].
Qed.

Lemma first_shift d a ov : wf d -> negb (scaled d) || ov = true -> arg_fits (ddim d) a = true ->
  exists d', shift_value a ov d = (d', false) /\ Inv (ddim d) d' (rows d) (repeat 1 (ddim d)) (expand (ddim d) a).
Proof.
  intros Hwf Hov Ha. set (n := ddim d) in *. pose proof (expand_length n a Ha) as Le.
  unfold shift_value. rewrite Hov, (wf_not_empty d Hwf). unfold dim. fold n. rewrite Ha. cbn [negb].
  eexists. split; [reflexivity|]. destruct Hwf as [Hn Hl].
  constructor; cbn [ddim rows scaled omin sfactor]; auto.
  - apply map_rows_ext_in. intros s Hs. pose proof (rows_in_len n _ s Hl Hs) as Ls.
    apply (row_ext _ _ n); [apply vadd_length; assumption | apply aff_length; auto; apply repeat_length|].
    intros j Hj. rewrite (nth_vadd n) by assumption. rewrite (nth_aff n) by (try assumption; apply repeat_length).
    rewrite nth_repeat_lt by assumption. ring.
  - apply repeat_length.
  - rewrite Forall_forall. intros x Hx. apply repeat_spec in Hx. subst. discriminate.
Qed.

(* ------------------------------------------------------------------ revert_scaling under the invariant *)
Definition cleared (d : ds) : Prop :=
  scaled d = false /\ srange d = RNone /\ sfactor d = FNone /\ omin d = None /\ omax d = None.

Lemma fac_inv_fits n f fv : fac_vec n f = Some fv -> arg_fits n (fac_inv f) = true.
Proof.
  destruct f as [|q|l]; simpl; [discriminate | reflexivity|].
  destruct (Nat.eqb (length l) n) eqn:E; [|discriminate]. intros _. rewrite map_length. exact E.
Qed.

Lemma Qcinv_nonzero q : q <> 0 -> / q <> 0.
Proof. intros H Z0. apply H. rewrite <- (Qcmult_1_l q), <- (Qcmult_inv_l q H) at 1. rewrite Z0. ring. Qed.

Lemma fac_inv_nonzero f : fac_has_zero f = false -> f <> FNone -> arg_nonzero (fac_inv f).
Proof.
  destruct f as [|q|l]; simpl; intros H Hn; [contradiction| |].
  - apply Qcinv_nonzero. apply Qc_eqb_false_inv. exact H.
  - apply existsb_zero_false in H. rewrite Forall_map. eapply Forall_impl; [|exact H]. intros x Hx. apply Qcinv_nonzero. exact Hx.
Qed.

Lemma fac_inv_pointwise n f fv j : fac_vec n f = Some fv -> fac_has_zero f = false -> (j < n)%nat ->
  nth j fv 0 * nth j (expand n (fac_inv f)) 0 = 1.
Proof.
  destruct f as [|q|l]; simpl; intros Hf Hz Hj; [discriminate| |].
  - inversion Hf; subst. rewrite !nth_repeat_lt by lia. apply Qcmult_inv_r. apply Qc_eqb_false_inv. exact Hz.
  - destruct (Nat.eqb (length l) n) eqn:E; [|discriminate]. inversion Hf; subst fv. apply Nat.eqb_eq in E.
    rewrite (nth_map_lt Qcinv l j 0 0) by lia. apply Qcmult_inv_r.
    apply existsb_zero_false in Hz. apply nth_nonzero; [exact Hz | lia].
Qed.

Lemma revert_under_inv n d R fv cv : Inv n d R fv cv ->
  exists d3, revert_scaling d = (d3, false) /\ rows d3 = R /\ cleared d3.
Proof.
  intro I.
  pose proof (inv_fac _ _ _ _ _ I) as Ifac. pose proof (inv_fz _ _ _ _ _ I) as Ifz.
  pose proof (inv_fac_not_none _ _ _ _ _ I) as Hnn.
  destruct (step_factor n d R fv cv (fac_inv (sfactor d)) I (fac_inv_fits n _ _ Ifac) (fac_inv_nonzero _ Ifz Hnn))
    as [d1 [E1 I1]].
  set (e := expand n (fac_inv (sfactor d))) in *.
  assert (Le : length e = n) by (apply expand_length; apply (fac_inv_fits n _ _ Ifac)).
  assert (Hone : forall j, (j < n)%nat -> nth j (vmul fv e) 0 = 1).
  { intros j Hj. rewrite (nth_vmul n); auto; [|exact (inv_fv _ _ _ _ _ I)]. apply (fac_inv_pointwise n _ _ j Ifac Ifz Hj). }
  (* the data minimum after the division *)
  destruct R as [|[r0 l0] rest]; [exfalso; apply (inv_ne _ _ _ _ _ I); reflexivity|].
  set (fv1 := vmul fv e) in *. set (cv1 := vmul cv e) in *.
  assert (Lf1 : length fv1 = n) by exact (inv_fv _ _ _ _ _ I1).
  assert (Lc1 : length cv1 = n) by exact (inv_cv _ _ _ _ _ I1).
  pose proof (inv_len _ _ _ _ _ I1) as Il.
  pose proof (Forall_inv Il) as Lr0. pose proof (Forall_inv_tail Il) as Lrest. cbn [fst] in Lr0.
  set (rs := map fst rest).
  assert (Lrs : rows_len n rs) by (unfold rows_len, rs; rewrite Forall_map; exact Lrest).
  assert (Ev1 : values d1 = aff fv1 cv1 r0 :: map (aff fv1 cv1) rs).
  { unfold values. rewrite (inv_rows _ _ _ _ _ I1), values_map_rows. reflexivity. }
  set (mn := colmin (aff fv1 cv1 r0) (map (aff fv1 cv1) rs)).
  set (om := colmin r0 rs).
  assert (Emn : data_min (values d1) = Some mn) by (rewrite Ev1; reflexivity).
  assert (Eom : omin d1 = Some om) by (rewrite (inv_omin _ _ _ _ _ I1); reflexivity).
  assert (Lmn : length mn = n).
  { apply colmin_length; [apply aff_length; auto|]. unfold rows_len. rewrite Forall_map.
    eapply Forall_impl; [|exact Lrs]. intros r Hr. apply aff_length; auto. }
  assert (Lom : length om = n) by (apply colmin_length; auto).
  assert (Hmn : forall j, (j < n)%nat -> nth j mn 0 = nth j om 0 + nth j cv1 0).
  { intros j Hj. unfold mn, om. rewrite (nth_colmin n), (nth_colmin n); auto.
    - rewrite (nth_aff n); auto.
      rewrite (col_map j (aff fv1 cv1) (fun y => y * nth j fv1 0 + nth j cv1 0)).
      + rewrite lmin_affine; [rewrite (Hone j Hj); ring | rewrite (Hone j Hj); discriminate].
      + intros r Hr. apply (nth_aff n); auto. unfold rows_len in Lrs. rewrite Forall_forall in Lrs. apply Lrs. exact Hr.
    - apply aff_length; auto.
    - unfold rows_len. rewrite Forall_map. eapply Forall_impl; [|exact Lrs]. intros r Hr. apply aff_length; auto. }
  set (sh := vneg (vsub mn om)).
  assert (Lsh : length sh = n) by (apply vneg_length; apply vsub_length; assumption).
  destruct (step_shift n d1 _ fv1 cv1 (AArr sh) I1) as [d2 [E2 I2]]; [simpl; apply Nat.eqb_eq; exact Lsh|].
  exists (clear_scaling d2). split.
  - unfold revert_scaling. destruct (sfactor d) as [|q|l] eqn:F; [contradiction| |];
      rewrite Ifz; fold e; rewrite E1, Emn, Eom; fold sh; rewrite E2; reflexivity.
  - split; [|unfold cleared, clear_scaling; cbn; repeat split; reflexivity].
    cbn [clear_scaling rows]. rewrite (inv_rows _ _ _ _ _ I2). apply map_rows_id.
    intros s Hs. pose proof (rows_in_len n _ s Il Hs) as Ls. cbn [expand].
    apply (row_ext _ _ n); [apply aff_length; auto; apply vadd_length; assumption | exact Ls|].
    intros j Hj. rewrite (nth_aff n), (nth_vadd n); auto; [|apply vadd_length; assumption].
    unfold sh. rewrite (nth_vneg n), (nth_vsub n), (Hmn j Hj), (Hone j Hj); auto; [ring | apply vsub_length; assumption].
Qed.

(* ------------------------------------------------------------------ the history theorem *)
Inductive aff_op := OpRange (lo hi : Qc) | OpFactor (a : arg) | OpShift (a : arg).

Definition apply_op (ov : bool) (o : aff_op) (d : ds) : result :=
  match o with
  | OpRange lo hi => scale_range lo hi ov d
  | OpFactor a => scale_factor a ov d
  | OpShift a => shift_value a ov d
  end.

(* admissible operation on n-dimensional samples: valid range / fitting argument / no zero factor *)
Definition op_ok (n : nat) (o : aff_op) : Prop :=
  match o with
  | OpRange lo hi => lo < hi
  | OpFactor a => arg_fits n a = true /\ arg_nonzero a
  | OpShift a => arg_fits n a = true
  end.

(* a sequence of NON-overriding operations; stops at the first one that raises *)
Fixpoint apply_ops (ops : list aff_op) (d : ds) : result :=
  match ops with
  | [] => (d, false)
  | o :: r => let '(d', e) := apply_op false o d in if e then (d', true) else apply_ops r d'
  end.

Lemma ops_preserve_inv n ops : Forall (op_ok n) ops -> forall d R fv cv, Inv n d R fv cv ->
  exists d' fv' cv', apply_ops ops d = (d', false) /\ Inv n d' R fv' cv'.
Proof.
  induction 1 as [|o ops Ho Hops IH]; intros d R fv cv I.
  - exists d, fv, cv. split; [reflexivity | exact I].
  - assert (S1 : exists d1 fv1 cv1, apply_op false o d = (d1, false) /\ Inv n d1 R fv1 cv1).
    { destruct o as [lo hi|a|a]; simpl in Ho |- *.
      - destruct (step_range n d R fv cv lo hi I Ho) as [d1 [sc [mi [E I1]]]]. eauto.
      - destruct Ho as [Ha Hz]. destruct (step_factor n d R fv cv a I Ha Hz) as [d1 [E I1]]. eauto.
      - destruct (step_shift n d R fv cv a I Ho) as [d1 [E I1]]. eauto. }
    destruct S1 as [d1 [fv1 [cv1 [E1 I1]]]]. destruct (IH d1 R fv1 cv1 I1) as [d' [fv' [cv' [E' I']]]].
    exists d', fv', cv'. split; [|exact I']. cbn [apply_ops]. rewrite E1. exact E'.
Qed.

Theorem revert_restores : forall d0 ov o1 ops,
  wf d0 -> scaled d0 = false \/ ov = true ->
  op_ok (ddim d0) o1 -> Forall (op_ok (ddim d0)) ops ->
  exists d1 d2 d3,
    apply_op ov o1 d0 = (d1, false) /\ apply_ops ops d1 = (d2, false) /\ revert_scaling d2 = (d3, false) /\
    rows d3 = rows d0 /\ cleared d3.
Proof.
  intros d0 ov o1 ops Hwf Hov Ho Hops.
  assert (Hov' : negb (scaled d0) || ov = true) by (destruct Hov as [-> | ->]; [reflexivity | apply orb_true_r]).
  assert (S1 : exists d1 fv cv, apply_op ov o1 d0 = (d1, false) /\ Inv (ddim d0) d1 (rows d0) fv cv).
  { destruct o1 as [lo hi|a|a]; simpl in Ho |- *.
    - destruct (first_range d0 lo hi ov Hwf Hov' Ho) as [d1 [sc [mi [E I]]]]. eauto.
    - destruct Ho as [Ha Hz]. destruct (first_factor d0 a ov Hwf Hov' Ha Hz) as [d1 [E I]]. eauto.
    - destruct (first_shift d0 a ov Hwf Hov' Ho) as [d1 [E I]]. eauto. }
  destruct S1 as [d1 [fv [cv [E1 I1]]]].
  destruct (ops_preserve_inv _ ops Hops d1 _ fv cv I1) as [d2 [fv2 [cv2 [E2 I2]]]].
  destruct (revert_under_inv _ d2 _ fv2 cv2 I2) as [d3 [E3 [R3 C3]]].
  exists d1, d2, d3. auto.
Qed.
