(* C10 — BOUNDED: for every refinement tree with at most 5 midpoint insertions on [0,1] (873 trees), every order
   p in 1..6 and both boundary flags, the knot selection of GlobalLagrangeGrid yields a system accepted by the
   structural checker (unit lower triangular in level order).  Finite enumeration by vm_compute. *)
From Coq Require Import ZArith List QArith Qcanon Bool Arith Lia.
From SG Require Import Base.QcUtil Model.Basis.
Import ListNotations.
Open Scope Qc_scope.

(* midpoint insertion into interval number i: level = max(levels of the interval ends) + 1 *)
Fixpoint insert_mid (i : nat) (pts : list Qc) (levs : list nat) : list Qc * list nat :=
  match i, pts, levs with
  | O, x :: ((y :: _) as pr), lx :: ((ly :: _) as lr) => (x :: qc_half (x + y) :: pr, lx :: S (Nat.max lx ly) :: lr)
  | S i', x :: pr, lx :: lr => let pl := insert_mid i' pr lr in (x :: fst pl, lx :: snd pl)
  | _, _, _ => (pts, levs)
  end.

Definition tree_from (a b : Qc) (ins : list nat) : list Qc * list nat :=
  fold_left (fun pl i => insert_mid i (fst pl) (snd pl)) ins ([a; qc_half (a + b); b], [0; 1; 0]%nat).

(* all insertion sequences of length n when the tree currently has `width` intervals *)
Fixpoint all_ins (n width : nat) : list (list nat) :=
  match n with
  | O => [[]]
  | S n' => flat_map (fun i => map (cons i) (all_ins n' (S width))) (seq 0 width)
  end.

Definition trees_upto (n : nat) : list (list nat) := flat_map (fun k => all_ins k 2) (seq 0 (S n)).

Definition tree_ok (a b : Qc) (p : nat) (boundary : bool) (ins : list nat) : bool :=
  let pl := tree_from a b ins in
  match lagrange_system p boundary false a b (fst pl) (snd pl) with
  | Some sy => hier_okb sy (level_order (interior boundary (snd pl)))
  | None => false
  end.

Definition all_tree_ok (a b : Qc) (pmax n : nat) : bool :=
  forallb (fun p => forallb (fun bnd => forallb (tree_ok a b p bnd) (trees_upto n)) [true; false]) (seq 1 pmax).

Lemma all_tree_ok_unit : all_tree_ok 0 1 6 5 = true.
Proof. vm_compute. reflexivity. Qed.

Theorem tree_grids_hier_ok_bounded p boundary ins :
  In p (seq 1 6) -> In ins (trees_upto 5) -> tree_ok 0 1 p boundary ins = true.
Proof.
  intros Hp Hi. pose proof all_tree_ok_unit as H. unfold all_tree_ok in H.
  rewrite forallb_forall in H. specialize (H p Hp). rewrite forallb_forall in H.
  assert (Hb : In boundary [true; false]) by (destruct boundary; simpl; auto).
  specialize (H boundary Hb). rewrite forallb_forall in H. exact (H ins Hi).
Qed.

Example trees_upto_5_count : length (trees_upto 5) = 873%nat.
Proof. vm_compute. reflexivity. Qed.
