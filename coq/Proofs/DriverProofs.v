(* Proofs about the driver state machine of Model/Driver.v (C13) and the resume theorem (C14). *)
From Coq Require Import ZArith List Bool QArith Qcanon Lia Lqa.
From SG Require Import Base.QcUtil Model.Driver.
Import ListNotations.
Open Scope Z_scope.
Local Arguments Z.add : simpl never.
Local Arguments Z.of_nat : simpl never.

(* ------------------------------------------------------------------ first_stop *)
Lemma first_stop_some lim os k :
  first_stop lim os = Some k <->
  (exists o, nth_error os k = Some o /\ stop_now lim o = true) /\
  (forall j o, (j < k)%nat -> nth_error os j = Some o -> stop_now lim o = false).
Proof.
  revert k. induction os as [|o r IH]; intro k; cbn [first_stop].
  - split; [discriminate|]. intros [[o [H _]] _]. destruct k; discriminate.
  - destruct (stop_now lim o) eqn:E.
    + split.
      * intro H. injection H as <-. split; [exists o; split; [reflexivity|exact E]|]. intros j o' Hj. lia.
      * intros [[o' [Hn Hs]] Hb]. destruct k as [|k]; [reflexivity|].
        specialize (Hb O o (Nat.lt_0_succ k) eq_refl). congruence.
    + destruct k as [|k].
      * split.
        -- destruct (first_stop lim r); discriminate.
        -- intros [[o' [Hn Hs]] _]. cbn in Hn. injection Hn as <-. congruence.
      * split.
        -- intro H. destruct (first_stop lim r) as [k'|] eqn:F; [|discriminate]. cbn in H. injection H as <-.
           destruct (proj1 (IH k') eq_refl) as [Hex Hb]. split; [exact Hex|].
           intros j o' Hj Hn. destruct j as [|j]; [cbn in Hn; injection Hn as <-; exact E|].
           apply (Hb j o'); [lia|exact Hn].
        -- intros [Hex Hb].
           assert (F : first_stop lim r = Some k).
           { apply IH. split; [exact Hex|]. intros j o' Hj Hn. apply (Hb (S j) o'); [lia|exact Hn]. }
           rewrite F. reflexivity.
Qed.

Lemma first_stop_none lim os :
  first_stop lim os = None <-> forall o, In o os -> stop_now lim o = false.
Proof.
  induction os as [|o r IH]; cbn [first_stop].
  - split; [intros _ o []|reflexivity].
  - destruct (stop_now lim o) eqn:E.
    + split; [discriminate|]. intro H. specialize (H o (or_introl eq_refl)). congruence.
    + split.
      * intro H. destruct (first_stop lim r); [discriminate|]. intros o' [<-|Hin]; [exact E|].
        apply (proj1 IH eq_refl o' Hin).
      * intro H. assert (F : first_stop lim r = None) by (apply IH; intros o' Hin; apply H; right; exact Hin).
        rewrite F. reflexivity.
Qed.

Lemma first_stop_lt lim os k : first_stop lim os = Some k -> (k < length os)%nat.
Proof.
  intro H. apply first_stop_some in H. destruct H as [[o [Hn _]] _].
  apply nth_error_Some. congruence.
Qed.

(* ------------------------------------------------------------------ drive, fully characterised *)
Definition after_stop (s : dstate) (os : list obs) (k : nat) : dstate :=
  mkD (d_errs s ++ map o_err (firstn (S k) os)) (d_surs s ++ map o_sur (firstn (S k) os))
      (d_pts s ++ map o_pts (firstn (S k) os)) (d_trace s ++ eval_refine_rounds k ++ [EvEval])
      (d_refines s + Z.of_nat k).

Definition after_all (s : dstate) (os : list obs) : dstate :=
  mkD (d_errs s ++ map o_err os) (d_surs s ++ map o_sur os) (d_pts s ++ map o_pts os)
      (d_trace s ++ eval_refine_rounds (length os)) (d_refines s + Z.of_nat (length os)).

Lemma drive_char lim os : forall s,
  drive lim os s = match first_stop lim os with
                   | Some k => (after_stop s os k, true)
                   | None => (after_all s os, false)
                   end.
Proof.
  induction os as [|o r IH]; intro s; cbn [drive first_stop].
  - unfold after_all. cbn. rewrite !app_nil_r. replace (d_refines s + Z.of_nat 0) with (d_refines s) by lia.
    destruct s; reflexivity.
  - destruct (stop_now lim o) eqn:E.
    + unfold after_stop, record_obs. cbn. replace (d_refines s + Z.of_nat 0) with (d_refines s) by lia. reflexivity.
    + rewrite IH. destruct (first_stop lim r) as [k|]; cbn [option_map].
      * unfold after_stop, do_refine, record_obs. cbn [d_errs d_surs d_pts d_trace d_refines].
        cbn [firstn map eval_refine_rounds]. rewrite <- !app_assoc. cbn [app].
        replace (d_refines s + 1 + Z.of_nat k) with (d_refines s + Z.of_nat (S k)) by lia. reflexivity.
      * unfold after_all, do_refine, record_obs. cbn [d_errs d_surs d_pts d_trace d_refines].
        cbn [length map eval_refine_rounds]. rewrite <- !app_assoc. cbn [app].
        replace (d_refines s + 1 + Z.of_nat (length r)) with (d_refines s + Z.of_nat (S (length r))) by lia. reflexivity.
Qed.

(* C13: the run stops at the FIRST evaluation at which the rule is satisfied *)
Theorem stops_at_first_satisfying_index lim os s s' :
  drive lim os s = (s', true) <->
  exists k, s' = after_stop s os k /\
    (exists o, nth_error os k = Some o /\ stop_now lim o = true) /\
    (forall j o, (j < k)%nat -> nth_error os j = Some o -> stop_now lim o = false).
Proof.
  rewrite drive_char. split.
  - destruct (first_stop lim os) as [k|] eqn:F; [|intro H; discriminate].
    intro H. injection H as <-. exists k. split; [reflexivity|]. apply first_stop_some. exact F.
  - intros [k [-> H]]. apply first_stop_some in H. rewrite H. reflexivity.
Qed.

(* the driver goes on (refines after every evaluation of the stream) iff no observation satisfies the rule *)
Theorem keeps_refining_iff_never_satisfied lim os s s' :
  drive lim os s = (s', false) <-> s' = after_all s os /\ forall o, In o os -> stop_now lim o = false.
Proof.
  rewrite drive_char. split.
  - destruct (first_stop lim os) as [k|] eqn:F; [intro H; discriminate|].
    intro H. injection H as <-. split; [reflexivity|]. apply first_stop_none. exact F.
  - intros [-> H]. apply first_stop_none in H. rewrite H. reflexivity.
Qed.

Lemma count_ev_app e a b : count_ev e (a ++ b) = (count_ev e a + count_ev e b)%nat.
Proof. induction a as [|x a IH]; cbn; [reflexivity|rewrite IH; lia]. Qed.

Lemma count_rounds_eval k : count_ev EvEval (eval_refine_rounds k) = k.
Proof. induction k as [|k IH]; cbn; [reflexivity|rewrite IH; reflexivity]. Qed.
Lemma count_rounds_refine k : count_ev EvRefine (eval_refine_rounds k) = k.
Proof. induction k as [|k IH]; cbn; [reflexivity|rewrite IH; reflexivity]. Qed.

(* C13: after the stop nothing happens any more: the event trace of a stopped call ends with the evaluation that
   satisfied the rule, every refinement is preceded by its own evaluation, #refinements = #evaluations - 1,
   and whatever the stream would still offer is ignored. *)
Theorem never_refines_after_stop lim os s s' :
  drive lim os s = (s', true) ->
  exists k, d_trace s' = d_trace s ++ eval_refine_rounds k ++ [EvEval] /\
            d_refines s' = d_refines s + Z.of_nat k /\
            count_ev EvRefine (eval_refine_rounds k ++ [EvEval]) = k /\
            count_ev EvEval (eval_refine_rounds k ++ [EvEval]) = S k /\
            forall extra, drive lim (os ++ extra) s = (s', true).
Proof.
  intro H. pose proof H as H0. apply stops_at_first_satisfying_index in H. destruct H as [k [-> Hk]].
  exists k. split; [reflexivity|]. split; [reflexivity|].
  split; [rewrite count_ev_app, count_rounds_refine; cbn; lia|].
  split; [rewrite count_ev_app, count_rounds_eval; cbn; lia|].
  intro extra. apply stops_at_first_satisfying_index. exists k.
  destruct Hk as [[o [Hn Hs]] Hb].
  assert (Hlt : (k < length os)%nat) by (apply nth_error_Some; congruence).
  split.
  - unfold after_stop. rewrite firstn_app. replace (S k - length os)%nat with O by lia. cbn [firstn]. rewrite app_nil_r. reflexivity.
  - split.
    + exists o. split; [|exact Hs]. rewrite nth_error_app1; assumption.
    + intros j o' Hj Hn'. apply (Hb j o' Hj). rewrite nth_error_app1 in Hn'; [exact Hn'|lia].
Qed.

(* C13: one history entry per evaluation, in all three arrays, stopped or not *)
Definition hist_ok (s : dstate) : Prop :=
  length (d_errs s) = count_ev EvEval (d_trace s) /\ length (d_surs s) = count_ev EvEval (d_trace s) /\
  length (d_pts s) = count_ev EvEval (d_trace s).

Lemma hist_ok_init : hist_ok d_init.
Proof. repeat split. Qed.

Theorem histories_one_entry_per_evaluation lim os s s' b :
  hist_ok s -> drive lim os s = (s', b) -> hist_ok s'.
Proof.
  intros [H1 [H2 H3]] H. rewrite drive_char in H.
  destruct (first_stop lim os) as [k|] eqn:F; injection H as <- <-.
  - pose proof (first_stop_lt _ _ _ F) as Hlt.
    unfold hist_ok, after_stop. cbn [d_errs d_surs d_pts d_trace].
    rewrite !app_length, !map_length, firstn_length, !count_ev_app, count_rounds_eval. cbn [count_ev event_eqb].
    rewrite Nat.min_l by lia. lia.
  - unfold hist_ok, after_all. cbn [d_errs d_surs d_pts d_trace].
    rewrite !app_length, !map_length, !count_ev_app, count_rounds_eval. lia.
Qed.

(* several calls in a row (perform, then continue_adaptive_refinement with other limits, ...) keep the invariant *)
Fixpoint drive_calls (calls : list (limits * list obs)) (s : dstate) : dstate :=
  match calls with
  | [] => s
  | (lim, os) :: r => drive_calls r (fst (drive lim os s))
  end.

Theorem histories_one_entry_per_evaluation_calls calls : forall s, hist_ok s -> hist_ok (drive_calls calls s).
Proof.
  induction calls as [|[lim os] r IH]; intros s H; cbn [drive_calls]; [exact H|].
  apply IH. destruct (drive lim os s) as [s' b] eqn:E. cbn [fst].
  apply (histories_one_entry_per_evaluation lim os s s' b H E).
Qed.

(* the recorded arrays are exactly the observations that were made (truthful history) *)
Theorem history_is_observation_prefix lim os s' :
  perform lim os = (s', true) ->
  exists k, (k < length os)%nat /\ d_errs s' = map o_err (firstn (S k) os) /\
            d_surs s' = map o_sur (firstn (S k) os) /\ d_pts s' = map o_pts (firstn (S k) os) /\
            d_refines s' = Z.of_nat k.
Proof.
  unfold perform. intro H. apply stops_at_first_satisfying_index in H. destruct H as [k [-> [[o [Hn _]] _]]].
  exists k. split; [apply nth_error_Some; congruence|]. unfold after_stop, d_init. cbn [d_errs d_surs d_pts d_refines app].
  split; [reflexivity|]. split; [reflexivity|]. split; [reflexivity|]. lia.
Qed.

(* limits already met at the first evaluation: exactly one evaluation, no refinement *)
Theorem limits_met_at_first_evaluation lim o r :
  stop_now lim o = true ->
  perform lim (o :: r) = (mkD [o_err o] [o_sur o] [o_pts o] [EvEval] 0, true).
Proof. intro H. unfold perform. cbn [drive]. rewrite H. reflexivity. Qed.

(* ------------------------------------------------------------------ DimAdaptiveCombi: the same shape, other rule *)
Fixpoint dim_first_stop (lim : limits) (os : list obs) : option nat :=
  match os with
  | [] => None
  | o :: r => if dim_stop_now lim o then Some O else option_map S (dim_first_stop lim r)
  end.

Lemma dim_drive_char lim os : forall s,
  dim_drive lim os s = match dim_first_stop lim os with
    | Some k => (mkD (d_errs s ++ map o_err (firstn k os)) (d_surs s) (d_pts s ++ map o_pts (firstn k os))
                     (d_trace s ++ eval_refine_rounds k ++ [EvEval]) (d_refines s + Z.of_nat k), true)
    | None => (mkD (d_errs s ++ map o_err os) (d_surs s) (d_pts s ++ map o_pts os)
                   (d_trace s ++ eval_refine_rounds (length os)) (d_refines s + Z.of_nat (length os)), false)
    end.
Proof.
  induction os as [|o r IH]; intro s; cbn [dim_drive dim_first_stop].
  - cbn. rewrite !app_nil_r. replace (d_refines s + Z.of_nat 0) with (d_refines s) by lia. destruct s; reflexivity.
  - destruct (dim_stop_now lim o) eqn:E.
    + cbn. rewrite !app_nil_r. replace (d_refines s + Z.of_nat 0) with (d_refines s) by lia. reflexivity.
    + rewrite IH. destruct (dim_first_stop lim r) as [k|]; cbn [option_map];
        unfold do_refine; cbn [d_errs d_surs d_pts d_trace d_refines firstn map length eval_refine_rounds];
        rewrite <- !app_assoc; cbn [app].
      * replace (d_refines s + 1 + Z.of_nat k) with (d_refines s + Z.of_nat (S k)) by lia. reflexivity.
      * replace (d_refines s + 1 + Z.of_nat (length r)) with (d_refines s + Z.of_nat (S (length r))) by lia. reflexivity.
Qed.

(* what DimAdaptiveCombi returns when it stops: k+1 evaluations but only k history entries *)
Theorem dim_history_misses_final_evaluation lim os s' :
  dim_drive lim os d_init = (s', true) ->
  count_ev EvEval (d_trace s') = S (length (d_errs s')) /\ length (d_pts s') = length (d_errs s').
Proof.
  rewrite dim_drive_char. destruct (dim_first_stop lim os) as [k|] eqn:F; [|discriminate].
  intro H. injection H as <-. cbn [d_trace d_errs d_pts d_init app].
  assert (Hlt : (k < length os)%nat).
  { clear - F. revert k F. induction os as [|o r IH]; intros k F; cbn in F; [discriminate|].
    destruct (dim_stop_now lim o); [injection F as <-; cbn; lia|].
    destruct (dim_first_stop lim r) as [k'|]; [|discriminate]. cbn in F. injection F as <-.
    specialize (IH k' eq_refl). cbn. lia. }
  rewrite count_ev_app, count_rounds_eval, !map_length, firstn_length. cbn [count_ev event_eqb].
  rewrite Nat.min_l by lia. lia.
Qed.

(* ------------------------------------------------------------------ distinct point counting *)
Lemma lz_eqb_eq a : forall b, lz_eqb a b = true <-> a = b.
Proof.
  induction a as [|x a IH]; intros [|y b]; cbn; try (split; [discriminate|discriminate]); [split; reflexivity|].
  rewrite andb_true_iff, Z.eqb_eq, IH. split; [intros [-> ->]; reflexivity|intro H; injection H as -> ->; split; reflexivity].
Qed.

Lemma pt_mem_In p c : pt_mem p c = true <-> In p c.
Proof.
  induction c as [|q r IH]; cbn; [split; [discriminate|intros []]|].
  rewrite orb_true_iff, lz_eqb_eq, IH. split; intros [H|H]; auto.
Qed.

Lemma add_points_spec batch : forall cache,
  (NoDup cache -> NoDup (add_points cache batch)) /\
  (forall p, In p (add_points cache batch) <-> In p cache \/ In p batch) /\
  (length cache <= length (add_points cache batch))%nat.
Proof.
  induction batch as [|q r IH]; intro cache; cbn [add_points].
  - split; [auto|]. split; [intro p; split; [auto|intros [H|[]]; exact H]|lia].
  - destruct (pt_mem q cache) eqn:E.
    + destruct (IH cache) as [H1 [H2 H3]]. split; [exact H1|]. split; [|exact H3].
      intro p. rewrite H2. apply pt_mem_In in E. cbn. split; [intros [H|H]; auto|intros [H|[<-|H]]; auto].
    + destruct (IH (q :: cache)) as [H1 [H2 H3]]. split.
      * intro Hn. apply H1. constructor; [|exact Hn]. intro Hin. apply pt_mem_In in Hin. congruence.
      * split; [|cbn in H3; lia]. intro p. rewrite H2. cbn. split; [intros [[<-|H]|H]; auto|intros [H|[<-|H]]; auto].
Qed.

(* the reported counts never decrease *)
Inductive nondecreasing : list Z -> Prop :=
| nd_nil : nondecreasing []
| nd_one x : nondecreasing [x]
| nd_cons x y r : x <= y -> nondecreasing (y :: r) -> nondecreasing (x :: y :: r).

Lemma point_counts_lower batches : forall cache x r,
  point_counts cache batches = x :: r -> Z.of_nat (length cache) <= x.
Proof.
  destruct batches as [|b bs]; intros cache x r H; cbn in H; [discriminate|]. injection H as <- _.
  destruct (add_points_spec b cache) as [_ [_ H3]]. lia.
Qed.

Theorem points_monotone batches : forall cache, nondecreasing (point_counts cache batches).
Proof.
  induction batches as [|b bs IH]; intro cache; cbn [point_counts]; [constructor|].
  specialize (IH (add_points cache b)).
  destruct (point_counts (add_points cache b) bs) as [|y r] eqn:E; [constructor|].
  constructor; [|exact IH]. apply (point_counts_lower bs _ y r E).
Qed.

(* ... and each of them is the number of DISTINCT points evaluated so far *)
Fixpoint all_points (batches : list (list (list Z))) : list (list Z) :=
  match batches with [] => [] | b :: r => b ++ all_points r end.

Theorem point_counts_are_distinct_counts batches : forall cache k x,
  NoDup cache -> nth_error (point_counts cache batches) k = Some x ->
  exists u, NoDup u /\ x = Z.of_nat (length u) /\
            forall p, In p u <-> In p cache \/ In p (all_points (firstn (S k) batches)).
Proof.
  induction batches as [|b bs IH]; intros cache k x Hnd Hn; cbn [point_counts] in Hn.
  - destruct k; discriminate.
  - destruct (add_points_spec b cache) as [H1 [H2 _]]. destruct k as [|k].
    + cbn in Hn. injection Hn as <-. exists (add_points cache b). split; [auto|]. split; [reflexivity|].
      intro p. rewrite H2. cbn. rewrite app_nil_r. reflexivity.
    + cbn [nth_error] in Hn. destruct (IH (add_points cache b) k x (H1 Hnd) Hn) as [u [Hu [Hx Hin]]].
      exists u. split; [exact Hu|]. split; [exact Hx|]. intro p. rewrite Hin, H2.
      change (firstn (S (S k)) (b :: bs)) with (b :: firstn (S k) bs). cbn [all_points]. rewrite in_app_iff. tauto.
Qed.

(* ------------------------------------------------------------------ error estimate: non-negativity *)
Open Scope Qc_scope.

Lemma Qc_abs_nonneg x : 0 <= Qc_abs x.
Proof.
  unfold Qc_abs. destruct (Qc_leb 0 x) eqn:E.
  - apply Qc_leb_le. exact E.
  - assert (H : ~ 0 <= x) by (intro H; apply Qc_leb_le in H; congruence).
    apply Qcnot_le_lt in H. qc_order.
Qed.

Lemma Qc_max_ge_r a b : b <= Qc_max a b.
Proof.
  unfold Qc_max. destruct (Qc_leb a b) eqn:E; [apply Qcle_refl|].
  assert (H : ~ a <= b) by (intro H; apply Qc_leb_le in H; congruence).
  apply Qcnot_le_lt in H. apply Qclt_le_weak. exact H.
Qed.
Lemma Qc_max_ge_l a b : a <= Qc_max a b.
Proof. unfold Qc_max. destruct (Qc_leb a b) eqn:E; [apply Qc_leb_le; exact E|apply Qcle_refl]. Qed.

Lemma maxQ_nonneg l : 0 <= maxQ l.
Proof. induction l as [|x r IH]; cbn; [apply Qcle_refl|]. eapply Qcle_trans; [exact IH|apply Qc_max_ge_r]. Qed.

Lemma maxQ_ge l x : In x l -> x <= maxQ l.
Proof.
  induction l as [|y r IH]; cbn; [intros []|]. intros [->|H]; [apply Qc_max_ge_l|].
  eapply Qcle_trans; [apply IH; exact H|apply Qc_max_ge_r].
Qed.

Lemma maxQ_attained l : maxQ l = 0 \/ In (maxQ l) l.
Proof.
  induction l as [|y r IH]; cbn; [left; reflexivity|].
  unfold Qc_max. destruct (Qc_leb y (maxQ r)); [destruct IH as [H|H]; [left; exact H|right; right; exact H]|right; left; reflexivity].
Qed.

Lemma sumQ_nonneg l : (forall x, In x l -> 0 <= x) -> 0 <= sumQ l.
Proof.
  induction l as [|x r IH]; intro H; cbn; [apply Qcle_refl|].
  assert (H1 : 0 <= x) by (apply H; left; reflexivity).
  assert (H2 : 0 <= sumQ r) by (apply IH; intros y Hy; apply H; right; exact Hy).
  qc_order.
Qed.

Lemma Qc_div_nonneg x n : 0 <= x -> 0 <= n -> 0 <= x / n.
Proof.
  intros Hx Hn. unfold Qcdiv. unfold Qcle in *. cbn [this Qcmult Qcinv Q2Qc] in *.
  rewrite !Qred_correct. apply Qmult_le_0_compat; [exact Hx|]. apply Qinv_le_0_compat. exact Hn.
Qed.

Lemma Q_sq_nonneg (q : Q) : (0 <= q * q)%Q.
Proof.
  destruct (Qlt_le_dec q 0) as [H|H].
  - assert (E : (q * q == (- q) * (- q))%Q) by ring. rewrite E. apply Qmult_le_0_compat; lra.
  - apply Qmult_le_0_compat; exact H.
Qed.

Lemma Qc_sq_nonneg x : 0 <= x * x.
Proof.
  unfold Qcle. cbn [this Qcmult Q2Qc]. rewrite !Qred_correct. apply Q_sq_nonneg.
Qed.

Lemma qc_of_Z_nonneg z : (0 <= z)%Z -> 0 <= qc_of_Z z.
Proof.
  intro H. unfold qc_of_Z, Qcle. cbn [this Q2Qc]. rewrite !Qred_correct. change 0%Q with (inject_Z 0). rewrite <- Zle_Qle. exact H.
Qed.

Lemma vec_norm_nonneg nm v : 0 <= vec_norm nm v.
Proof.
  destruct nm; cbn [vec_norm].
  - apply maxQ_nonneg.
  - apply Qc_div_nonneg; [|apply qc_of_Z_nonneg; lia].
    apply sumQ_nonneg. intros x Hx. apply in_map_iff in Hx. destruct Hx as [y [<- _]]. apply Qc_abs_nonneg.
  - apply Qc_div_nonneg; [|apply qc_of_Z_nonneg; lia].
    apply sumQ_nonneg. intros x Hx. apply in_map_iff in Hx. destruct Hx as [y [<- _]]. apply Qc_sq_nonneg.
Qed.

(* C13: the global error estimate is never negative, for every norm, reference and result *)
Theorem errors_nonneg nm ref integral e : global_error nm ref integral = GVal e -> 0 <= e.
Proof.
  unfold global_error. destruct ref as [r|]; [|discriminate].
  destruct (negb (Nat.eqb (length r) (length integral))); [discriminate|].
  destruct (all_zero r); [intro H; injection H as <-; apply vec_norm_nonneg|].
  destruct (some_zero r); [discriminate|]. intro H; injection H as <-. apply vec_norm_nonneg.
Qed.

(* benefits: error / evaluations (or the error itself for 0 evaluations) is non-negative for non-negative inputs *)
Theorem benefit_nonneg err ev : 0 <= err -> (0 <= ev)%Z -> 0 <= benefit err ev.
Proof.
  intros He Hv. unfold benefit. destruct (ev =? 0)%Z; [exact He|].
  apply Qc_div_nonneg; [exact He|apply qc_of_Z_nonneg; exact Hv].
Qed.

Theorem max_benefit_nonneg bs : 0 <= max_benefit bs.
Proof. apply maxQ_nonneg. Qed.

Theorem total_error_nonneg es : (forall e, In e es -> 0 <= e) -> 0 <= total_error es.
Proof. apply sumQ_nonneg. Qed.
