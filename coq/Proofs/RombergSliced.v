(* C11 — the sliced Romberg pipeline (ExtrapolationGrid.set_grid + get_weights): total weight and first moment.
   Part 1: slices, unit containers (every slice version, every container version, with or without forced balancing),
   for EVERY grid / level assignment the implementation accepts (model result Some). *)
From Coq Require Import ZArith List QArith Qcanon Bool Arith Lia.
From SG Require Import Base.QcUtil Model.Romberg Proofs.RombergBasics Proofs.RombergCoeff.
Import ListNotations.
Open Scope Qc_scope.

Definition half_sq (l r : Qc) : Qc := Qchalf * (r * r - l * l).

(* ---------------------------------------------------------------------------------------------- *)
(* generic: additive functionals through opt_concat / opt_list *)

Lemma opt_concat_some {A B} (f : A -> option (list B)) l cs x :
  opt_concat (map f l) = Some cs -> In x l -> exists y, f x = Some y.
Proof.
  revert cs. induction l as [|z l IH]; intros cs H I; [destruct I|].
  simpl in H. destruct (f z) as [y|] eqn:E; [|discriminate].
  destruct (opt_concat (map f l)) as [ys|] eqn:E2; [|discriminate].
  destruct I as [<-|I]; [exists y; exact E | exact (IH ys eq_refl I)].
Qed.

Lemma opt_concat_additive {A} (F : list contrib -> Qc) (f : A -> option (list contrib)) (g : A -> Qc) l :
  F [] = 0 -> (forall a b, F (a ++ b) = F a + F b) ->
  (forall x y, In x l -> f x = Some y -> F y = g x) ->
  forall cs, opt_concat (map f l) = Some cs -> F cs = sumQ (map g l).
Proof.
  intros F0 Fapp. induction l as [|z l IH]; intros Hf cs H; simpl in H.
  - injection H as <-. exact F0.
  - destruct (f z) as [y|] eqn:E; [|discriminate].
    destruct (opt_concat (map f l)) as [ys|] eqn:E2; [|discriminate].
    injection H as <-. rewrite Fapp. simpl. rewrite (Hf z y (or_introl eq_refl) E).
    rewrite (IH (fun x y I => Hf x y (or_intror I)) ys eq_refl). reflexivity.
Qed.

Lemma opt_list_additive {A B} (F : B -> Qc) (f : A -> option B) (g : A -> Qc) l :
  (forall x y, In x l -> f x = Some y -> F y = g x) ->
  forall ys, opt_list (map f l) = Some ys -> sumQ (map F ys) = sumQ (map g l).
Proof.
  induction l as [|z l IH]; intros Hf ys H; simpl in H.
  - injection H as <-. reflexivity.
  - destruct (f z) as [y|] eqn:E; [|discriminate].
    destruct (opt_list (map f l)) as [ys'|] eqn:E2; [|discriminate].
    injection H as <-. simpl. rewrite (Hf z y (or_introl eq_refl) E).
    rewrite (IH (fun x y I => Hf x y (or_intror I)) ys' eq_refl). reflexivity.
Qed.

Lemma sumQ_const_mul {A} (f : A -> Qc) (c : Qc) l : sumQ (map (fun x => f x * c) l) = sumQ (map f l) * c.
Proof. induction l as [|x l IH]; simpl; [ring | rewrite IH; ring]. Qed.

(* ---------------------------------------------------------------------------------------------- *)
(* one Romberg slice: the extrapolated contributions sum to the slice width and reproduce int_l^r x dx *)

Lemma romberg_slice_pair_neq s L R p : romberg_slice_pair s L R = Some p -> L <> R.
Proof.
  unfold romberg_slice_pair. destruct (Qc_leb L (sl_l s) && Qc_leb (sl_r s) R && negb (Qc_eqb L R)) eqn:E; [|discriminate].
  intros _ H. apply andb_prop in E. destruct E as [_ E]. apply negb_true_iff in E.
  apply Qc_eqb_eq in H. congruence.
Qed.

Theorem romberg_slice_final_sums s cs :
  romberg_slice_final s = Some cs ->
  wsum cs = sl_width s /\ wmom cs = half_sq (sl_l s) (sl_r s).
Proof.
  unfold romberg_slice_final. destruct (sl_supp s) as [|[a b] rest] eqn:Es; [discriminate|].
  set (m := sl_max_level s).
  set (f := fun level : nat =>
        let '(L, R) := nth level ((a, b) :: rest) (0, 0) in
        match romberg_slice_pair s L R with
        | Some (wl, wr) => Some [(L, romberg_coefficient a b 2 m level * wl); (R, romberg_coefficient a b 2 m level * wr)]
        | None => None
        end).
  intro H.
  (* a <> b from level 0 *)
  assert (Hab : a <> b).
  { destruct (opt_concat_some f (seq 0 (S m)) cs 0%nat H) as [y Hy]; [apply in_seq; lia|].
    unfold f in Hy. cbn [nth] in Hy. destruct (romberg_slice_pair s a b) as [p|] eqn:E; [|discriminate].
    exact (romberg_slice_pair_neq s a b p E). }
  assert (Hc := romberg_coeff_sum_one a b 2 m Hab ltac:(lia)).
  split.
  - assert (X := opt_concat_additive wsum f (fun level => romberg_coefficient a b 2 m level * sl_width s) (seq 0 (S m))
                   eq_refl wsum_app).
    rewrite (X) with (cs := cs); [rewrite sumQ_const_mul, Hc; ring | | exact H].
    intros level y _ Hy. unfold f in Hy. destruct (nth level ((a, b) :: rest) (0, 0)) as [L R].
    destruct (romberg_slice_pair s L R) as [[wl wr]|] eqn:E; [|discriminate].
    injection Hy as <-. simpl. rewrite <- (romberg_slice_pair_sum s L R wl wr E). ring.
  - assert (X := opt_concat_additive wmom f (fun level => romberg_coefficient a b 2 m level * half_sq (sl_l s) (sl_r s)) (seq 0 (S m))
                   eq_refl wmom_app).
    rewrite (X) with (cs := cs); [rewrite sumQ_const_mul, Hc; ring | | exact H].
    intros level y _ Hy. unfold f in Hy. destruct (nth level ((a, b) :: rest) (0, 0)) as [L R].
    destruct (romberg_slice_pair s L R) as [[wl wr]|] eqn:E; [|discriminate].
    injection Hy as <-. simpl. unfold half_sq. rewrite <- (romberg_slice_pair_moment s L R wl wr E). ring.
Qed.

Theorem slice_final_sums sv s cs :
  slice_final sv s = Some cs -> wsum cs = sl_width s /\ wmom cs = half_sq (sl_l s) (sl_r s).
Proof.
  destruct sv; simpl; intro H.
  - exact (romberg_slice_final_sums s cs H).
  - split; [exact (trapezoid_slice_sum s cs H) | exact (trapezoid_slice_moment s cs H)].
Qed.

(* ---------------------------------------------------------------------------------------------- *)
(* the slices tile [a, b] *)

Lemma telescope (g : nat -> Qc) k : sumQ (map (fun i => g (S i) - g i) (seq 0 k)) = g k - g 0%nat.
Proof.
  induction k as [|k IH]; [simpl; ring|].
  rewrite seq_S, map_app, sumQ_app, IH. simpl. ring.
Qed.

Lemma make_slice_ends grid levels a b i s : make_slice grid levels a b i = Some s ->
  sl_l s = nthQ grid i /\ sl_r s = nthQ grid (S i).
Proof.
  unfold make_slice. destruct (Qc_eqb _ _); [|discriminate].
  destruct (slice_ok _); [|discriminate]. intro H. injection H as <-. split; reflexivity.
Qed.

Lemma slices_tile grid levels slices :
  init_grid_slices grid levels = Some slices ->
  sumQ (map sl_width slices) = nthQ grid (length grid - 1) - nthQ grid 0 /\
  sumQ (map (fun s => half_sq (sl_l s) (sl_r s)) slices) = half_sq (nthQ grid 0) (nthQ grid (length grid - 1)).
Proof.
  unfold init_grid_slices. intro H. split.
  - rewrite (opt_list_additive sl_width _ (fun i => nthQ grid (S i) - nthQ grid i) _) with (ys := slices) (2 := H).
    + apply telescope.
    + intros i s _ Hs. destruct (make_slice_ends _ _ _ _ _ _ Hs) as [E1 E2]. unfold sl_width. rewrite E1, E2. reflexivity.
  - rewrite (opt_list_additive (fun s => half_sq (sl_l s) (sl_r s)) _
               (fun i => Qchalf * (nthQ grid (S i) * nthQ grid (S i)) - Qchalf * (nthQ grid i * nthQ grid i)) _) with (ys := slices) (2 := H).
    + rewrite (telescope (fun i => Qchalf * (nthQ grid i * nthQ grid i))). unfold half_sq. ring.
    + intros i s _ Hs. destruct (make_slice_ends _ _ _ _ _ _ Hs) as [E1 E2]. unfold half_sq. rewrite E1, E2. ring.
Qed.

(* ---------------------------------------------------------------------------------------------- *)
(* UNIT grouping: every container holds one slice *)

Lemma group_aux_unit cur curw rest : group_aux true cur curw rest = rev cur :: map (fun s => [s]) rest.
Proof.
  revert cur curw. induction rest as [|s r IH]; intros cur curw; simpl; [reflexivity|].
  rewrite IH. reflexivity.
Qed.

Lemma unit_containers slices : adjust_containers G_Unit (initial_containers G_Unit slices) = map (fun s => [s]) slices.
Proof.
  assert (A : forall l : list slice, adjust_containers G_Unit (map (fun s => [s]) l) = map (fun s => [s]) l).
  { induction l as [|s l IH]; [reflexivity|]. unfold adjust_containers in *. simpl. rewrite IH. reflexivity. }
  destruct slices as [|s r]; [reflexivity|]. unfold initial_containers. rewrite group_aux_unit.
  change (rev [s] :: map (fun s0 => [s0]) r) with (map (fun s0 : slice => [s0]) (s :: r)). apply A.
Qed.

Lemma singleton_containers_sums lo sv cv slices cs :
  opt_concat (map (container_final_from lo sv cv) (map (fun s => [s]) slices)) = Some cs ->
  wsum cs = sumQ (map sl_width slices) /\ wmom cs = sumQ (map (fun s => half_sq (sl_l s) (sl_r s)) slices).
Proof.
  rewrite map_map. intro H. split.
  - apply (opt_concat_additive wsum _ sl_width slices eq_refl wsum_app) with (cs := cs) (2 := H).
    intros s y _ Hy. exact (proj1 (slice_final_sums sv s y Hy)).
  - apply (opt_concat_additive wmom _ (fun s => half_sq (sl_l s) (sl_r s)) slices eq_refl wmom_app) with (cs := cs) (2 := H).
    intros s y _ Hy. exact (proj2 (slice_final_sums sv s y Hy)).
Qed.

Definition grid_a (r : ext_result) : Qc := nthQ (er_grid r) 0.
Definition grid_b (r : ext_result) : Qc := nthQ (er_grid r) (length (er_grid r) - 1).

(* MAIN (unit slices): whatever the grid, the level assignment, the slice version, the container version and the
   balancing flag are: if the implementation accepts the input, the weights sum to b - a and integrate x exactly. *)
Theorem sliced_unit_weights_consistent lo sv cv force grid levels r :
  extrapolation_grid_from lo G_Unit sv cv force grid levels = Some r ->
  sumQ (er_weights r) = grid_b r - grid_a r /\ wmom (er_dict r) = half_sq (grid_a r) (grid_b r).
Proof.
  unfold extrapolation_grid_from.
  destruct (Nat.eqb (length grid) (length levels) && (2 <=? length grid)%nat); [|discriminate].
  destruct (if force then _ else _) as [[g l]|]; [|discriminate].
  destruct (init_grid_slices g l) as [slices|] eqn:Es; [|discriminate].
  rewrite unit_containers.
  destruct (opt_concat _) as [cs|] eqn:Ec; [|discriminate].
  intro H. injection H as <-. unfold er_weights, grid_a, grid_b. cbn [er_dict er_grid].
  destruct (singleton_containers_sums lo sv cv slices cs Ec) as [S1 S2].
  destruct (slices_tile g l slices Es) as [T1 T2].
  rewrite <- wsum_sumQ, dict_of_wsum, dict_of_wmom, S1, S2, T1, T2. split; reflexivity.
Qed.
