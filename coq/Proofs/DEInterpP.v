(* C17: the large-grid interpolation path of MachineLearning.interpolate_points_component_grid (N >= 200: per evaluation
   point only the hats at the two closest stripe coordinates per dimension, supports looked up in / stored into the per-call
   dictionary hat_support_cache, surplus found through offsets) computes the interpolant of the small-grid path
   (all hats, completely vectorised) - for every grid, every surplus vector, every batch of points of the unit cube. *)
From Coq Require Import ZArith List QArith Qcanon Bool Arith Lia.
From SG Require Import Base.QcUtil Model.Gram Model.DEReuse Proofs.GramHat Proofs.GramPD Proofs.GramNorm Proofs.DECacheP
  Proofs.DEPaths Proofs.DEReuseP.
Import ListNotations.
Open Scope Qc_scope.

(* ------------------------------------------------------------------ lists *)
Lemma skipn_skipn' {A} : forall a b (l : list A), skipn a (skipn b l) = skipn (b + a) l.
Proof.
  intros a b. revert a. induction b as [|b IH]; intros a l; [reflexivity|].
  destruct l as [|x l]; [rewrite !skipn_nil; reflexivity|]. cbn [skipn Nat.add]. apply IH.
Qed.

Lemma nth_skipn' {A} : forall n (l : list A) j d, nth j (skipn n l) d = nth (n + j) l d.
Proof.
  induction n as [|n IH]; intros l j d; [reflexivity|].
  destruct l as [|x l]; [destruct j; reflexivity|]. cbn [skipn Nat.add nth]. apply IH.
Qed.

Lemma dotQ_app a b al : dotQ (a ++ b) al = dotQ a al + dotQ b (skipn (length a) al).
Proof.
  revert al. induction a as [|x a IH]; intro al; cbn [app length skipn].
  - cbn [dotQ]. ring.
  - destruct al as [|y al]; cbn [dotQ skipn]; [destruct b; cbn [dotQ]; ring|]. rewrite IH. ring.
Qed.

Lemma dotQ_map_scale {A} (f : A -> Qc) (k : Qc) l al : dotQ (map (fun t => k * f t) l) al = k * dotQ (map f l) al.
Proof.
  revert al. induction l as [|t l IH]; intro al; cbn [map dotQ]; [ring|].
  destruct al as [|y al]; [ring|]. rewrite IH. ring.
Qed.

(* indexed sums  sum_j w_j * c (k + j) *)
Fixpoint sumi (w : list Qc) (c : nat -> Qc) (k : nat) : Qc :=
  match w with [] => 0 | a :: w' => a * c k + sumi w' c (S k) end.

Lemma sumi_as_seq : forall w c k, sumi w c k = sumQ (map (fun j => nth j w 0 * c (k + j)%nat) (seq 0 (length w))).
Proof.
  induction w as [|a w IH]; intros c k; [reflexivity|].
  cbn [length sumi]. rewrite <- cons_seq, <- seq_shift. cbn [map sumQ nth]. rewrite Nat.add_0_r. f_equal.
  rewrite map_map, IH. f_equal. apply map_ext. intro j. cbn [nth]. f_equal. f_equal. lia.
Qed.

(* ------------------------------------------------------------------ one dimension of the dense (small-grid) interpolant *)
Lemma dense_step (H : list hatdom) (HS : list (list hatdom)) (xd : Qc) (xr : list Qc) : forall k al,
  dotQ (map (fun t => hat_nd hat_cv t (xd :: xr)) (flat_map (fun a => map (cons a) (cross HS)) H)) (skipn (k * length (cross HS)) al)
  = sumi (map (fun u => hat_cv u xd) H)
         (fun i => dotQ (map (fun t => hat_nd hat_cv t xr) (cross HS)) (skipn (i * length (cross HS)) al)) k.
Proof.
  induction H as [|u H IH]; intros k al; [reflexivity|].
  cbn [flat_map map sumi]. rewrite map_app, dotQ_app. rewrite !map_map, !map_length.
  rewrite skipn_skipn'. replace (k * length (cross HS) + length (cross HS))%nat with (S k * length (cross HS))%nat by lia.
  rewrite IH. f_equal.
  assert (E : map (fun t => hat_nd hat_cv (u :: t) (xd :: xr)) (cross HS)
              = map (fun t => hat_cv u xd * hat_nd hat_cv t xr) (cross HS)) by (apply map_ext; intro t; reflexivity).
  rewrite E. apply dotQ_map_scale.
Qed.

(* ------------------------------------------------------------------ strictly increasing lists by index *)
Lemma strictly_inc_tail a r : strictly_inc (a :: r) -> strictly_inc r.
Proof. destruct r as [|b r]; [intros _; exact I | intros [_ H]; exact H]. Qed.

Lemma strictly_inc_head_lt : forall r a j, strictly_inc (a :: r) -> (j < length r)%nat -> a < nth j r 0.
Proof.
  induction r as [|b r IH]; intros a j Hs Hj; [cbn in Hj; lia|].
  destruct Hs as [Hab Hs]. destruct j as [|j]; [exact Hab|].
  cbn [nth]. apply Qclt_trans with b; [exact Hab|]. apply IH; [exact Hs | cbn in Hj; lia].
Qed.

Lemma strictly_inc_nth : forall s i j, strictly_inc s -> (i < j)%nat -> (j < length s)%nat -> nth i s 0 < nth j s 0.
Proof.
  induction s as [|a s IH]; intros i j Hs Hij Hj; [cbn in Hj; lia|].
  destruct j as [|j]; [lia|]. cbn [nth]. destruct i as [|i].
  - apply strictly_inc_head_lt; [exact Hs | cbn in Hj; lia].
  - apply IH; [apply (strictly_inc_tail a s Hs) | lia | cbn in Hj; lia].
Qed.

Lemma strictly_inc_nth_inj s i j : strictly_inc s -> (i < length s)%nat -> (j < length s)%nat -> nth i s 0 = nth j s 0 -> i = j.
Proof.
  intros Hs Hi Hj E. destruct (Nat.lt_trichotomy i j) as [H|[H|H]]; [|exact H|]; exfalso.
  - pose proof (strictly_inc_nth s i j Hs H Hj) as L. rewrite E in L. apply (Qc_lt_neq _ _ L). reflexivity.
  - pose proof (strictly_inc_nth s j i Hs H Hi) as L. rewrite E in L. apply (Qc_lt_neq _ _ L). reflexivity.
Qed.

Lemma bisect_spec : forall s x, strictly_inc s ->
  (bisect_left s x <= length s)%nat /\
  (forall j, (j < bisect_left s x)%nat -> nth j s 0 < x) /\
  (forall j, (bisect_left s x <= j)%nat -> (j < length s)%nat -> x <= nth j s 0).
Proof.
  induction s as [|a s IH]; intros x Hs.
  - cbn. split; [lia|]. split; intros j H; [lia | intro H2; lia].
  - cbn [bisect_left length]. destruct (Qc_ltb a x) eqn:E.
    + apply Qc_ltb_lt in E. destruct (IH x (strictly_inc_tail a s Hs)) as [I1 [I2 I3]].
      split; [lia|]. split.
      * intros j Hj. destruct j as [|j]; [exact E | cbn [nth]; apply I2; lia].
      * intros j Hj Hl. destruct j as [|j]; [lia|]. cbn [nth]. apply I3; lia.
    + apply Qc_ltb_false in E. split; [lia|]. split; [intros j Hj; lia|].
      intros j _ Hl. destruct j as [|j]; [exact E|]. cbn [nth].
      apply Qcle_trans with a; [exact E|]. apply Qclt_le_weak. apply strictly_inc_head_lt; [exact Hs | lia].
Qed.

Lemma bisect_nth s p : strictly_inc s -> (p < length s)%nat -> bisect_left s (nth p s 0) = p.
Proof.
  intros Hs Hp. destruct (bisect_spec s (nth p s 0) Hs) as [B1 [B2 B3]].
  destruct (Nat.lt_trichotomy (bisect_left s (nth p s 0)) p) as [H|[H|H]]; [|exact H|]; exfalso.
  - pose proof (B3 _ (Nat.le_refl _) ltac:(lia)) as L.
    pose proof (strictly_inc_nth s _ p Hs H Hp) as L2. apply (Qclt_not_le _ _ L2 L).
  - pose proof (B2 p H) as L. apply (Qc_lt_neq _ _ L). reflexivity.
Qed.

Lemma windows_nth : forall s j, (j + 2 < length s)%nat ->
  nth j (windows s) (mkH 0 0 0) = mkH (nth j s 0) (nth (S j) s 0) (nth (S (S j)) s 0).
Proof.
  induction s as [|a s IH]; intros j Hj; [cbn in Hj; lia|].
  destruct s as [|b [|c r]]; try (cbn in Hj; lia).
  change (windows (a :: b :: c :: r)) with (mkH a b c :: windows (b :: c :: r)).
  destruct j as [|j]; [reflexivity|]. cbn [nth]. apply (IH j). cbn [length] in *. lia.
Qed.

Lemma last_nth : forall (s : list Qc), s <> [] -> last s 0 = nth (length s - 1) s 0.
Proof.
  induction s as [|a s IH]; intro H; [contradiction|].
  destruct s as [|b r]; [reflexivity|]. change (last (a :: b :: r) 0) with (last (b :: r) 0).
  rewrite IH by discriminate. cbn [length]. replace (S (S (length r)) - 1)%nat with (S (length r)) by lia.
  cbn [nth]. replace (S (length r) - 1)%nat with (length r) by lia. reflexivity.
Qed.

(* ------------------------------------------------------------------ sums with small support *)
Lemma sum_split_at (F : nat -> Qc) a : forall n s0, (s0 <= a)%nat -> (a < s0 + n)%nat ->
  sumQ (map F (seq s0 n)) = F a + sumQ (map (fun j => if (j =? a)%nat then 0 else F j) (seq s0 n)).
Proof.
  induction n as [|n IH]; intros s0 H1 H2; [lia|].
  cbn [seq map sumQ]. destruct (Nat.eqb_spec s0 a) as [E|E].
  - subst s0. assert (Z : sumQ (map (fun j => if (j =? a)%nat then 0 else F j) (seq (S a) n)) = sumQ (map F (seq (S a) n))).
    { f_equal. apply map_ext_in. intros j Hj. apply in_seq in Hj. destruct (Nat.eqb_spec j a); [lia | reflexivity]. }
    rewrite Z. ring.
  - rewrite (IH (S s0)) by lia. ring.
Qed.

Lemma sum_support (F : nat -> Qc) n : forall J, NoDup J -> (forall j, In j J -> (j < n)%nat) ->
  (forall j, (j < n)%nat -> ~ In j J -> F j = 0) -> sumQ (map F (seq 0 n)) = sumQ (map F J).
Proof.
  intro J. revert F. induction J as [|a J IH]; intros F Hnd Hlt Hz.
  - cbn [map sumQ]. assert (E : map F (seq 0 n) = map (fun _ => 0) (seq 0 n)).
    { apply map_ext_in. intros j Hj. apply in_seq in Hj. apply Hz; [lia | intros []]. }
    rewrite E. clear. induction (seq 0 n) as [|x l IHl]; cbn [map sumQ]; [reflexivity | rewrite IHl; ring].
  - inversion Hnd as [|? ? Hna Hnd']; subst.
    rewrite (sum_split_at F a n 0) by (try lia; apply Hlt; left; reflexivity).
    cbn [map sumQ]. f_equal.
    rewrite (IH (fun j => if (j =? a)%nat then 0 else F j) Hnd').
    + f_equal. apply map_ext_in. intros j Hj. destruct (Nat.eqb_spec j a); [subst; contradiction | reflexivity].
    + intros j Hj. apply Hlt. right. exact Hj.
    + intros j Hj Hn. destruct (Nat.eqb_spec j a) as [E|E]; [reflexivity|]. apply Hz; [exact Hj|].
      intros [H|H]; [apply E; symmetry; exact H | apply Hn; exact H].
Qed.

(* ------------------------------------------------------------------ ONE DIMENSION: the hats at the two closest stripe
   coordinates carry the whole sum *)
Definition nbs_general (s : list Qc) (x : Qc) : list (nat * Qc) :=
  filter (fun ih => negb (Qc_eqb (snd ih) 0) && negb (Qc_eqb (snd ih) 1)) (closest_idx s x).
Definition hv (s : list Qc) (xd : Qc) (a : nat * Qc) : Qc :=
  hat_vec (mkH (fst (support_1d s (snd a))) (snd a) (snd (support_1d s (snd a)))) xd.

Lemma strictly_inc_nth_le s i j : strictly_inc s -> (i <= j)%nat -> (j < length s)%nat -> nth i s 0 <= nth j s 0.
Proof.
  intros Hs Hij Hj. destruct (Nat.eq_dec i j) as [E|E]; [subst; apply Qcle_refl|].
  apply Qclt_le_weak. apply strictly_inc_nth; [exact Hs | lia | exact Hj].
Qed.

Lemma good_len_ge2 s : good_stripe s -> (2 <= length s)%nat.
Proof.
  intros [_ [H0 H1]]. destruct s as [|a [|b r]]; cbn [length]; try lia.
  - cbn in H1. exfalso. apply (Qc_lt_neq 0 1); [unfold Qclt; vm_compute; reflexivity | symmetry; exact H1].
  - cbn in H0, H1. subst a. exfalso. apply (Qc_lt_neq 0 1); [unfold Qclt; vm_compute; reflexivity | symmetry; exact H1].
Qed.
Lemma good_nth_first s : good_stripe s -> nth 0 s 0 = 0.
Proof. intros [_ [H0 _]]. destruct s; [reflexivity | exact H0]. Qed.
Lemma good_nth_last s : good_stripe s -> nth (length s - 1) s 0 = 1.
Proof.
  intro Hg. pose proof (good_len_ge2 s Hg) as L. destruct Hg as [_ [_ H1]]. rewrite <- last_nth; [exact H1|].
  destruct s; [cbn in L; lia | discriminate].
Qed.

Section OneDim.
Variables (s : list Qc) (x : Qc).
Hypothesis Hg : good_stripe s.
Hypothesis Hx0 : 0 <= x.
Hypothesis Hx1 : x <= 1.

Let Hs : strictly_inc s := proj1 Hg.
Let len_ge2 : (2 <= length s)%nat := good_len_ge2 s Hg.
Let nth_first : nth 0 s 0 = 0 := good_nth_first s Hg.
Let nth_last : nth (length s - 1) s 0 = 1 := good_nth_last s Hg.

Definition pos_of : nat := if (bisect_left s x =? 0)%nat then 1%nat else bisect_left s x.

Lemma pos_facts : (1 <= pos_of)%nat /\ (pos_of <= length s - 1)%nat /\ nth (pos_of - 1) s 0 <= x /\ x <= nth pos_of s 0.
Proof.
  pose proof len_ge2 as L2. destruct (bisect_spec s x Hs) as [B1 [B2 B3]]. unfold pos_of.
  assert (K : (bisect_left s x <= length s - 1)%nat).
  { destruct (Nat.le_gt_cases (bisect_left s x) (length s - 1)) as [H|H]; [exact H|]. exfalso.
    pose proof (B2 (length s - 1)%nat H) as L. rewrite nth_last in L. apply (Qclt_not_le _ _ L Hx1). }
  destruct (Nat.eqb_spec (bisect_left s x) 0) as [E|E].
  - split; [lia|]. split; [lia|]. split.
    + cbn [Nat.sub]. rewrite nth_first. exact Hx0.
    + apply B3; lia.
  - split; [lia|]. split; [exact K|]. split.
    + apply Qclt_le_weak. apply B2. lia.
    + apply B3; lia.
Qed.

Lemma P_nth j : (j < length s)%nat ->
  negb (Qc_eqb (nth j s 0) 0) && negb (Qc_eqb (nth j s 0) 1) = negb (j =? 0)%nat && negb (j =? length s - 1)%nat.
Proof.
  intro Hj. pose proof len_ge2 as L2. f_equal; f_equal.
  - destruct (Nat.eqb_spec j 0) as [E|E].
    + subst j. rewrite nth_first. apply Qc_eqb_refl.
    + apply Qc_eqb_false. intro Z. apply E. apply (strictly_inc_nth_inj s j 0 Hs Hj); [lia|]. rewrite nth_first. exact Z.
  - destruct (Nat.eqb_spec j (length s - 1)) as [E|E].
    + subst j. rewrite nth_last. apply Qc_eqb_refl.
    + apply Qc_eqb_false. intro Z. apply E. apply (strictly_inc_nth_inj s j (length s - 1) Hs Hj); [lia|]. rewrite nth_last. exact Z.
Qed.

Lemma support_at p : (1 <= p)%nat -> (p + 1 < length s)%nat -> support_1d s (nth p s 0) = (nth (p - 1) s 0, nth (p + 1) s 0).
Proof.
  intros H1 H2. unfold support_1d. rewrite (bisect_nth s p Hs) by lia.
  destruct (Nat.eqb_spec p 0) as [E|_]; [lia|].
  assert (A : Qc_eqb (nth (p - 1) s 0) (nth p s 0) = false).
  { apply Qc_eqb_false. intro Z. apply (strictly_inc_nth_inj s (p - 1) p Hs) in Z; lia. }
  rewrite A. cbn [andb]. rewrite Qc_eqb_refl.
  destruct (Nat.eqb_spec p (length s - 1)) as [E|_]; [lia|]. reflexivity.
Qed.

Lemma window_at j : (j + 2 < length s)%nat ->
  nth j (stripe_hats s) (mkH 0 0 0) = mkH (nth j s 0) (nth (S j) s 0) (nth (S (S j)) s 0).
Proof.
  intro H. pose proof Hg as [_ [H0 H1]]. rewrite (stripe_hats_windows s H0 H1). apply windows_nth. exact H.
Qed.

Lemma stripe_hats_length : length (stripe_hats s) = (length s - 2)%nat.
Proof. pose proof Hg as [_ [H0 H1]]. rewrite (stripe_hats_windows s H0 H1). apply windows_length. Qed.

(* the hat of window j vanishes at x unless its centre is one of the two closest coordinates *)
Lemma far_window_vanishes j : (j + 2 < length s)%nat -> S j <> (pos_of - 1)%nat -> S j <> pos_of ->
  hat_cv (nth j (stripe_hats s) (mkH 0 0 0)) x = 0.
Proof.
  intros Hj N1 N2. destruct pos_facts as [P1 [P2 [P3 P4]]]. rewrite (window_at j Hj).
  assert (Pr : proper (mkH (nth j s 0) (nth (S j) s 0) (nth (S (S j)) s 0))).
  { split; cbn [h_lo h_p h_hi]; apply strictly_inc_nth; try exact Hs; lia. }
  rewrite (hat_cv_eq_scalar _ x Pr). apply hat_scalar_outside; [exact Pr|]. cbn [h_lo h_hi].
  destruct (Nat.lt_ge_cases (S j) (pos_of - 1)) as [H|H].
  - right. apply Qcle_trans with (nth (pos_of - 1) s 0); [|exact P3]. apply strictly_inc_nth_le; [exact Hs | lia | lia].
  - left. apply Qcle_trans with (nth pos_of s 0); [exact P4|]. apply strictly_inc_nth_le; [exact Hs | lia | lia].
Qed.

(* the vectorised hat with the looked-up support is the hat of the window, at the two closest coordinates *)
Lemma near_window_value p : (1 <= p)%nat -> (p + 1 < length s)%nat -> (p = pos_of - 1 \/ p = pos_of)%nat ->
  hv s x (p, nth p s 0) = hat_cv (nth (p - 1) (stripe_hats s) (mkH 0 0 0)) x.
Proof.
  intros H1 H2 Hp. destruct pos_facts as [P1 [P2 [P3 P4]]]. unfold hv. cbn [fst snd].
  rewrite (support_at p H1 H2). cbn [fst snd]. rewrite (window_at (p - 1)) by lia.
  replace (S (p - 1)) with p by lia. replace (S p) with (p + 1)%nat by lia.
  assert (Pr : proper (mkH (nth (p - 1) s 0) (nth p s 0) (nth (p + 1) s 0))).
  { split; cbn [h_lo h_p h_hi]; apply strictly_inc_nth; try exact Hs; lia. }
  rewrite (hat_cv_eq_scalar _ x Pr). apply hat_vec_eq_scalar_in_support; [exact Pr | |]; cbn [h_lo h_hi].
  - apply Qcle_trans with (nth (pos_of - 1) s 0); [|exact P3]. apply strictly_inc_nth_le; [exact Hs | lia | lia].
  - apply Qcle_trans with (nth pos_of s 0); [exact P4|]. apply strictly_inc_nth_le; [exact Hs | lia | lia].
Qed.

Theorem densify_general (c : nat -> Qc) :
  sumi (map (fun u => hat_cv u x) (stripe_hats s)) c 0
  = sumQ (map (fun a => hv s x a * c (fst a - 1)%nat) (nbs_general s x)).
Proof.
  pose proof len_ge2 as L2. destruct pos_facts as [P1 [P2 [P3 P4]]].
  rewrite sumi_as_seq, map_length, stripe_hats_length.
  set (F := fun j => hat_cv (nth j (stripe_hats s) (mkH 0 0 0)) x * c j).
  assert (EF : map (fun j => nth j (map (fun u => hat_cv u x) (stripe_hats s)) 0 * c (0 + j)%nat) (seq 0 (length s - 2))
               = map F (seq 0 (length s - 2))).
  { apply map_ext_in. intros j Hj. apply in_seq in Hj. unfold F. cbn [Nat.add]. f_equal.
    rewrite (nth_indep _ 0 (hat_cv (mkH 0 0 0) x)) by (rewrite map_length, stripe_hats_length; lia).
    apply (map_nth (fun u => hat_cv u x)). }
  rewrite EF. clear EF.
  (* the neighbour list, explicitly *)
  unfold nbs_general, closest_idx. fold pos_of. cbn [filter snd].
  rewrite (P_nth (pos_of - 1)) by lia. rewrite (P_nth pos_of) by lia.
  destruct (Nat.eqb_spec (pos_of - 1) (length s - 1)) as [E|_]; [lia|].
  destruct (Nat.eqb_spec pos_of 0) as [E|_]; [lia|]. cbn [negb andb]. rewrite andb_true_r.
  assert (V : forall j, (j < length s - 2)%nat -> S j <> (pos_of - 1)%nat -> S j <> pos_of -> F j = 0).
  { intros j Hj N1 N2. unfold F. rewrite (far_window_vanishes j) by (try lia; assumption). ring. }
  assert (W : forall p, (1 <= p)%nat -> (p + 1 < length s)%nat -> (p = pos_of - 1 \/ p = pos_of)%nat ->
              (fun a : nat * Qc => hv s x a * c (fst a - 1)%nat) (p, nth p s 0) = F (p - 1)%nat).
  { intros p H1 H2 H3. unfold F. cbn beta. cbn [fst]. rewrite (near_window_value p H1 H2 H3). reflexivity. }
  destruct (Nat.eqb_spec (pos_of - 1) 0) as [E1|E1]; destruct (Nat.eqb_spec pos_of (length s - 1)) as [E2|E2];
    cbn [negb map sumQ].
  - (* no inner neighbour: the stripe has two points *)
    rewrite (sum_support F (length s - 2) []); [reflexivity | constructor | intros j [] |].
    intros j Hj _. apply V; lia.
  - rewrite (W pos_of) by lia.
    rewrite (sum_support F (length s - 2) [(pos_of - 1)%nat]); [cbn [map sumQ]; reflexivity | | |].
    + constructor; [intros [] | constructor].
    + intros j [Hj|[]]. lia.
    + intros j Hj Hn. apply V; [exact Hj | lia |]. intro Z. apply Hn. left. lia.
  - rewrite (W (pos_of - 1)%nat) by lia.
    rewrite (sum_support F (length s - 2) [(pos_of - 1 - 1)%nat]); [cbn [map sumQ]; reflexivity | | |].
    + constructor; [intros [] | constructor].
    + intros j [Hj|[]]. lia.
    + intros j Hj Hn. apply V; [exact Hj | | lia]. intro Z. apply Hn. left. lia.
  - rewrite (W (pos_of - 1)%nat) by lia. rewrite (W pos_of) by lia.
    rewrite (sum_support F (length s - 2) [(pos_of - 1 - 1)%nat; (pos_of - 1)%nat]); [cbn [map sumQ]; reflexivity | | |].
    + constructor; [intros [H|[]]; lia | constructor; [intros [] | constructor]].
    + intros j [Hj|[Hj|[]]]; lia.
    + intros j Hj Hn. apply V; [exact Hj | |]; intro Z; apply Hn; [left | right; left]; lia.
Qed.
End OneDim.

(* the special case of the code for stripes with a single inner point returns the same neighbour list *)
Lemma neighbours_is_general s x : good_stripe s -> 0 <= x -> x <= 1 -> neighbours_1d s x = nbs_general s x.
Proof.
  intros Hg Hx0 Hx1. destruct s as [|a [|p [|b [|c r]]]]; try reflexivity.
  pose proof Hg as [[Hap Hpb] [H0 H1]]. cbn in H0, H1. subst a b. destruct Hpb as [Hpb _].
  assert (Np0 : Qc_eqb p 0 = false) by (apply Qc_eqb_false; apply (Qc_lt_neq _ _ Hap)).
  assert (Np1 : Qc_eqb p 1 = false) by (apply Qc_eqb_false; intro Z; apply (Qc_lt_neq _ _ Hpb); symmetry; exact Z).
  assert (N10 : Qc_eqb 1 0 = false) by (apply Qc_eqb_false; apply (Qc_lt_neq 0 1); unfold Qclt; vm_compute; reflexivity).
  assert (L1 : Qc_ltb 1 x = false) by (apply Qc_ltb_false; exact Hx1).
  unfold neighbours_1d, nbs_general, closest_idx. cbn [bisect_left]. rewrite L1.
  destruct (Qc_ltb 0 x); [destruct (Qc_ltb p x)|]; cbn [Nat.eqb Nat.sub nth filter snd];
    rewrite ?Qc_eqb_refl, ?Np0, ?Np1, ?N10; cbn [negb andb]; reflexivity.
Qed.

Corollary densify_1d s x (c : nat -> Qc) : good_stripe s -> 0 <= x -> x <= 1 ->
  sumi (map (fun u => hat_cv u x) (stripe_hats s)) c 0 = sumQ (map (fun a => hv s x a * c (fst a - 1)%nat) (neighbours_1d s x)).
Proof. intros Hg H0 H1. rewrite (neighbours_is_general s x Hg H0 H1). apply densify_general; assumption. Qed.

(* ------------------------------------------------------------------ the per-call support cache *)
Lemma qlist_eqb_eq a b : qlist_eqb a b = true -> a = b.
Proof.
  revert b; induction a as [|x a IH]; intros [|y b] H; cbn [qlist_eqb] in H; try discriminate; [reflexivity|].
  apply andb_true_iff in H. destruct H as [H1 H2]. apply Qc_eqb_eq in H1. subst. f_equal. apply IH. exact H2.
Qed.

Definition cache_ok (stripes : list (list Qc)) (c : scache) : Prop := forall h sp, In (h, sp) c -> sp = support_nd stripes h.

Lemma support_cached_ok stripes c h : cache_ok stripes c -> support_cached stripes c h = support_nd stripes h.
Proof.
  intro Hc. unfold support_cached. destruct (dict_get qlist_eqb h c) as [sp|] eqn:E; [|reflexivity].
  apply dict_get_in in E. destruct E as [h' [E1 E2]]. apply qlist_eqb_eq in E1. subst h'. apply (Hc h sp E2).
Qed.

Lemma store_supports_ok stripes : forall hs c, cache_ok stripes c ->
  cache_ok stripes (store_supports c hs (map (support_nd stripes) hs)).
Proof.
  induction hs as [|h hs IH]; intros c Hc; [exact Hc|]. cbn [map store_supports]. apply IH.
  intros h' sp H. apply dict_set_in in H. destruct H as [H|H]; [injection H as H1 H2; subst; reflexivity | apply (Hc h' sp H)].
Qed.

(* ------------------------------------------------------------------ one evaluation point without the cache *)
Definition point_term (stripes : list (list Qc)) (alphas : list Qc) (x : list Qc) (offs : list nat) (nbt : list (nat * Qc)) : Qc :=
  nth (hat_index (map fst nbt) offs) alphas 0 * hat_vec_nd (map snd nbt) (support_nd stripes (map snd nbt)) x.
Definition large_point (stripes : list (list Qc)) (alphas : list Qc) (x : list Qc) : Qc :=
  sumQ (map (point_term stripes alphas x (offsets (map (fun s => (length s - 2)%nat) stripes)))
            (cross (map2 neighbours_1d stripes x))).

Lemma map2_map_same {A B C D} (f : B -> C -> D) (g : A -> B) (h : A -> C) l :
  map2 f (map g l) (map h l) = map (fun e => f (g e) (h e)) l.
Proof. induction l as [|a l IH]; [reflexivity | cbn [map map2]; rewrite IH; reflexivity]. Qed.

Lemma interp_large_point_ok stripes alphas c x : cache_ok stripes c ->
  fst (interp_large_point stripes alphas c x) = large_point stripes alphas x /\
  cache_ok stripes (snd (interp_large_point stripes alphas c x)).
Proof.
  intro Hc. unfold interp_large_point. cbn [fst snd].
  set (nb := cross (map2 neighbours_1d stripes x)).
  assert (E : map (support_cached stripes c) (map (map snd) nb) = map (support_nd stripes) (map (map snd) nb)).
  { apply map_ext. intro h. apply support_cached_ok. exact Hc. }
  rewrite E. split; [|apply store_supports_ok; exact Hc].
  unfold large_point. fold nb. f_equal.
  rewrite (map_map (map snd) (support_nd stripes)).
  rewrite (map2_map_same (fun h s => hat_vec_nd h s x) (map snd) (fun e => support_nd stripes (map snd e))).
  rewrite (map2_map_same (fun p v => nth (hat_index p (offsets (map (fun s => (length s - 2)%nat) stripes))) alphas 0 * v)
                         (map fst) (fun e => hat_vec_nd (map snd e) (support_nd stripes (map snd e)) x)).
  reflexivity.
Qed.

Lemma interp_large_from_ok stripes alphas : forall pts c, cache_ok stripes c ->
  fst (interp_large_from stripes alphas c pts) = map (large_point stripes alphas) pts.
Proof.
  induction pts as [|x r IH]; intros c Hc; [reflexivity|]. cbn [interp_large_from].
  destruct (interp_large_point_ok stripes alphas c x Hc) as [P1 P2].
  destruct (interp_large_point stripes alphas c x) as [v c1]. cbn [fst snd] in P1, P2.
  specialize (IH c1 P2). destruct (interp_large_from stripes alphas c1 r) as [vs c2]. cbn [fst snd] in *.
  rewrite P1, IH. reflexivity.
Qed.

(* ------------------------------------------------------------------ one dimension of the sparse (large-grid) sum *)
Lemma sumQ_flat_map {A B} (g : B -> Qc) (f : A -> list B) l : sumQ (map g (flat_map f l)) = sumQ (map (fun a => sumQ (map g (f a))) l).
Proof. induction l as [|a l IH]; [reflexivity|]. cbn [flat_map map sumQ]. rewrite map_app, sumQ_app, IH. reflexivity. Qed.

Lemma sparse_step s rest alphas xd xr :
  large_point (s :: rest) alphas (xd :: xr)
  = sumQ (map (fun a => hv s xd a *
                        large_point rest (skipn ((fst a - 1) * fold_right Nat.mul 1%nat (map (fun s => (length s - 2)%nat) rest)) alphas) xr)
              (neighbours_1d s xd)).
Proof.
  unfold large_point at 1. cbn [map2 cross map offsets]. rewrite sumQ_flat_map. f_equal. apply map_ext. intro a.
  rewrite map_map. unfold large_point. rewrite <- sumQ_map_scale. f_equal. apply map_ext. intro nbt.
  unfold point_term. cbn [map fst snd support_nd map2 hat_index fold_right]. rewrite nth_skipn'.
  unfold hat_vec_nd. cbn [combine map2 prodQ fst snd]. unfold hv, hat_index, support_nd. ring.
Qed.

(* ------------------------------------------------------------------ all dimensions *)
Lemma flat_map_length_const {A B} (f : A -> list B) m l : (forall a, length (f a) = m) -> length (flat_map f l) = (length l * m)%nat.
Proof. intro H. induction l as [|a l IH]; [reflexivity|]. cbn [flat_map length]. rewrite app_length, H, IH. lia. Qed.

Lemma cross_length {A} (ls : list (list A)) : length (cross ls) = fold_right Nat.mul 1%nat (map (@length A) ls).
Proof.
  induction ls as [|l r IH]; [reflexivity|]. cbn [cross map fold_right].
  rewrite (flat_map_length_const _ (length (cross r))) by (intro a; apply map_length). rewrite IH. reflexivity.
Qed.

Lemma grid_chunk_length rest : Forall good_stripe rest ->
  length (cross (map stripe_hats rest)) = fold_right Nat.mul 1%nat (map (fun s => (length s - 2)%nat) rest).
Proof.
  intro H. rewrite cross_length, map_map. f_equal. apply map_ext_in. intros s Hs.
  rewrite Forall_forall in H. apply stripe_hats_length. apply H. exact Hs.
Qed.

Theorem large_point_is_interp : forall stripes x alphas,
  Forall good_stripe stripes -> length x = length stripes -> in_unit_cube x = true ->
  large_point stripes alphas x = interp (grid_hats stripes) alphas x.
Proof.
  induction stripes as [|s rest IH]; intros x alphas Hg Hl Hc.
  - destruct x; [|discriminate]. unfold large_point, interp, grid_hats, point_term, hat_index, hat_vec_nd, hat_nd.
    cbn. destruct alphas; cbn; ring.
  - destruct x as [|xd xr]; [discriminate|]. inversion Hg as [|? ? Hgs Hgr]; subst.
    unfold in_unit_cube in Hc. cbn [forallb] in Hc. apply andb_true_iff in Hc. destruct Hc as [Hc1 Hc2].
    apply andb_true_iff in Hc1. destruct Hc1 as [H0 H1]. apply Qc_leb_le in H0. apply Qc_leb_le in H1.
    rewrite sparse_step.
    unfold interp, grid_hats. cbn [map cross].
    pose proof (dense_step (stripe_hats s) (map stripe_hats rest) xd xr 0 alphas) as D.
    cbn [Nat.mul skipn] in D. rewrite D. clear D.
    rewrite (densify_1d s xd _ Hgs H0 H1).
    f_equal. apply map_ext. intro a. f_equal.
    rewrite (IH xr _ Hgr); [| cbn in Hl; lia | exact Hc2].
    unfold interp, grid_hats. rewrite (grid_chunk_length rest Hgr). reflexivity.
Qed.

(* MAIN: one call of the large-grid interpolation path (any number of evaluation points, the support cache filled on
   the way) returns the interpolant the small-grid path computes *)
Theorem interp_large_eq_interp stripes alphas pts :
  Forall good_stripe stripes -> Forall (fun x => length x = length stripes /\ in_unit_cube x = true) pts ->
  interp_large stripes alphas pts = map (interp (grid_hats stripes) alphas) pts.
Proof.
  intros Hg Hp. unfold interp_large. rewrite interp_large_from_ok by (intros h sp []).
  apply map_ext_in. intros x Hx. rewrite Forall_forall in Hp. destruct (Hp x Hx) as [H1 H2].
  apply large_point_is_interp; assumption.
Qed.

(* the same from any support cache that is consistent with the CURRENT grid (and it stays consistent): what a cache that
   outlives a call would have to guarantee - a cache filled on another grid does not *)
Theorem interp_large_from_consistent_cache stripes alphas pts c :
  cache_ok stripes c -> Forall good_stripe stripes -> Forall (fun x => length x = length stripes /\ in_unit_cube x = true) pts ->
  fst (interp_large_from stripes alphas c pts) = map (interp (grid_hats stripes) alphas) pts.
Proof.
  intros Hc Hg Hp. rewrite interp_large_from_ok by exact Hc.
  apply map_ext_in. intros x Hx. rewrite Forall_forall in Hp. destruct (Hp x Hx) as [H1 H2].
  apply large_point_is_interp; assumption.
Qed.
