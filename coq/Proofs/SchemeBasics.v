(* Basic facts about the list-as-set operations and level-vector helpers of Model/CombiScheme.v *)
From Coq Require Import ZArith List Bool Lia.
From SG Require Import Model.CombiScheme.
Import ListNotations.
Open Scope Z_scope.

Lemma lv_eqb_eq a b : lv_eqb a b = true <-> a = b.
Proof.
  revert b; induction a as [|x a IH]; intros [|y b]; simpl; split; intro H; try congruence; try discriminate.
  - apply andb_true_iff in H as [H1 H2]. apply Z.eqb_eq in H1. apply IH in H2. congruence.
  - inversion H; subst. apply andb_true_iff; split; [apply Z.eqb_refl | apply IH; reflexivity].
Qed.

Lemma lv_eqb_refl a : lv_eqb a a = true.
Proof. apply lv_eqb_eq; reflexivity. Qed.

Lemma lv_eqb_neq a b : lv_eqb a b = false <-> a <> b.
Proof.
  split; intro H.
  - intro E. apply lv_eqb_eq in E. congruence.
  - destruct (lv_eqb a b) eqn:E; [|reflexivity]. apply lv_eqb_eq in E. contradiction.
Qed.

Lemma mem_In l s : mem l s = true <-> In l s.
Proof.
  unfold mem. rewrite existsb_exists. split.
  - intros [x [Hx E]]. apply lv_eqb_eq in E. subst; assumption.
  - intro H. exists l. split; [assumption | apply lv_eqb_refl].
Qed.

Lemma mem_false l s : mem l s = false <-> ~ In l s.
Proof.
  split; intro H.
  - intro HI. apply mem_In in HI. congruence.
  - destruct (mem l s) eqn:E; [|reflexivity]. apply mem_In in E. contradiction.
Qed.

Lemma set_add_In x l s : In x (set_add l s) <-> x = l \/ In x s.
Proof.
  unfold set_add. destruct (mem l s) eqn:E.
  - apply mem_In in E. split; [auto|]. intros [->|H]; assumption.
  - rewrite in_app_iff. simpl. split; intros [H|H]; auto.
    + destruct H as [H|[]]; auto.
Qed.

Lemma set_add_NoDup l s : NoDup s -> NoDup (set_add l s).
Proof.
  intro H. unfold set_add. destruct (mem l s) eqn:E; [assumption|].
  apply mem_false in E.
  induction s as [|a s IH]; simpl.
  - constructor; [intros []|constructor].
  - inversion H; subst. constructor.
    + rewrite in_app_iff. intros [H1|[H1|[]]]; [contradiction|]. subst. apply E. left; reflexivity.
    + apply IH; [assumption|]. intro. apply E. right; assumption.
Qed.

Lemma set_remove_In x l s : In x (set_remove l s) <-> In x s /\ x <> l.
Proof.
  unfold set_remove. rewrite filter_In. split; intros [H1 H2]; split; try assumption.
  - apply negb_true_iff in H2. apply lv_eqb_neq in H2. congruence.
  - apply negb_true_iff. apply lv_eqb_neq. congruence.
Qed.

Lemma set_remove_NoDup l s : NoDup s -> NoDup (set_remove l s).
Proof. intro H. unfold set_remove. apply NoDup_filter. assumption. Qed.

Lemma set_union_In x s t : In x (set_union s t) <-> In x s \/ In x t.
Proof.
  unfold set_union. revert s. induction t as [|a t IH]; intro s; simpl.
  - split; [auto | intros [H|[]]; exact H].
  - rewrite IH. rewrite set_add_In. split; [intros [[->|H]|H] | intros [H|[->|H]]]; auto.
Qed.

Lemma set_union_NoDup s t : NoDup s -> NoDup (set_union s t).
Proof.
  unfold set_union. revert s. induction t as [|a t IH]; intro s; simpl; intro H; [assumption|].
  apply IH. apply set_add_NoDup. assumption.
Qed.

Lemma set_of_list_In x s : In x (set_of_list s) <-> In x s.
Proof. unfold set_of_list. rewrite set_union_In. simpl. tauto. Qed.

Lemma set_of_list_NoDup s : NoDup (set_of_list s).
Proof. apply set_union_NoDup. constructor. Qed.

(* bump *)
Lemma bump_length d c l : length (bump d c l) = length l.
Proof. revert d; induction l as [|x l IH]; intros [|d]; simpl; auto. Qed.

Lemma bump_nth_same d c l : (d < length l)%nat -> nth d (bump d c l) 0 = nth d l 0 + c.
Proof.
  revert d; induction l as [|x l IH]; intros [|d]; simpl; intro H; try lia.
  apply IH. lia.
Qed.

Lemma bump_nth_other d e c l : d <> e -> nth e (bump d c l) 0 = nth e l 0.
Proof.
  revert d e; induction l as [|x l IH]; intros [|d] [|e]; simpl; intro H; try reflexivity; try congruence.
  apply IH. congruence.
Qed.

Lemma bump_bump_inv d c l : bump d (-c) (bump d c l) = l.
Proof.
  revert d; induction l as [|x l IH]; intros [|d]; simpl; try reflexivity.
  - f_equal. lia.
  - f_equal. apply IH.
Qed.

Lemma bump_comm d e c1 c2 l : bump d c1 (bump e c2 l) = bump e c2 (bump d c1 l).
Proof.
  revert d e; induction l as [|x l IH]; intros [|d] [|e]; simpl; try reflexivity.
  - f_equal. lia.
  - f_equal. apply IH.
Qed.

Lemma bump_neq d c l : (d < length l)%nat -> c <> 0 -> bump d c l <> l.
Proof.
  intros Hd Hc E. pose proof (bump_nth_same d c l Hd) as H. rewrite E in H. lia.
Qed.

Lemma bump_app pre x r c : bump (length pre) c (pre ++ x :: r) = pre ++ (x + c) :: r.
Proof. induction pre as [|p pre IH]; simpl; [reflexivity|]. f_equal. assumption. Qed.

Lemma Forall_bump (P : Z -> Prop) d c l :
  Forall P l -> (d < length l)%nat -> P (nth d l 0 + c) -> Forall P (bump d c l).
Proof.
  revert d; induction l as [|x l IH]; intros [|d]; simpl; intros HF Hd HP; try lia.
  - inversion HF; subst. constructor; assumption.
  - inversion HF; subst. constructor; [assumption|]. apply IH; [assumption|lia|assumption].
Qed.

Lemma Forall_nth_Z (P : Z -> Prop) l d : Forall P l -> (d < length l)%nat -> P (nth d l 0).
Proof.
  revert d; induction l as [|x l IH]; intros [|d]; simpl; intros HF Hd; try lia; inversion HF; subst; auto.
  apply IH; [assumption|lia].
Qed.

Lemma zrange_In n x : In x (zrange n) <-> 0 <= x < n.
Proof.
  unfold zrange. rewrite in_map_iff. split.
  - intros [k [E H]]. apply in_seq in H. lia.
  - intro H. exists (Z.to_nat x). split; [lia|]. apply in_seq. lia.
Qed.

Lemma sumZ_app a b : sumZ (a ++ b) = sumZ a + sumZ b.
Proof. unfold sumZ. induction a as [|x a IH]; simpl; [reflexivity|]. rewrite IH. lia. Qed.
