(* C18 (phase 3) - the wire machine of Entry/C18.v (what the extracted driver executes in the correspondence) IS the machine of the
   history theorems: on every wire operation that decodes to a store operation, the store evolves by sstep (definitional), which is
   tstep without the ghost lists (tstep_is_sstep); the remaining wire operations (same_scaling, getters) leave the store unchanged,
   and the harness-directed re-synchronisation (13) replaces exactly the addressed data set. *)
From Coq Require Import ZArith List QArith Qcanon Bool Lia.
From SG Require Import Base.Sx Base.QcUtil Model.DataSet Model.DataSetOff Model.DataSetStore Proofs.DataSetHistory Entry.C18.
Import ListNotations.

Theorem step2_is_sstep v st op o : dec_op op = Some o -> fst (step2 v st op) = sstep v st o.
Proof. intro H. unfold step2, sstep. rewrite H. destruct (sstep_res v st o) as [st' r]. reflexivity. Qed.

Theorem step2_is_tstep v st op o (gst : list tds) : v_offset v = true -> dec_op op = Some o -> map fst gst = st ->
  fst (step2 v st op) = map fst (tstep v gst o).
Proof. intros Hvo H Hg. rewrite (step2_is_sstep v st op o H), (tstep_is_sstep v gst o Hvo), Hg. reflexivity. Qed.

(* a run of wire operations that all decode: the stores are the stores of trun *)
Fixpoint stores2 (v : variant2) (st : store2) (ops : list sx) : store2 :=
  match ops with [] => st | op :: r => stores2 v (fst (step2 v st op)) r end.

Theorem run2_is_trun v ops sops : v_offset v = true -> map dec_op ops = map Some sops ->
  forall (gst : list tds), stores2 v (map fst gst) ops = map fst (trun v gst sops).
Proof.
  intro Hvo. revert sops. induction ops as [|op ops IH]; intros [|o sops] H gst; cbn in H; try discriminate; [reflexivity|].
  injection H as H1 H2. cbn [stores2 trun]. rewrite (step2_is_tstep v (map fst gst) op o gst Hvo H1 eq_refl). apply IH. exact H2.
Qed.

(* the non-store wire operations never write, except the re-synchronisation which replaces the addressed data set only *)
Theorem step_other_frame v st op : dec_op op = None ->
  (forall h snap, op <> Lv [Zv 13; Zv h; snap]) -> fst (step2 v st op) = st.
Proof.
  intros H Hn. unfold step2. rewrite H. unfold step_other.
  destruct op as [z|l]; [reflexivity|]. destruct l as [|[code|] l]; try reflexivity. destruct l as [|[h|] args]; try reflexivity.
  destruct (sget2 st h); [|reflexivity].
  destruct code as [|p|p]; try reflexivity.
  repeat (destruct p as [p|p|]; try reflexivity); destruct args as [|a1 [|a2 args]]; try reflexivity;
    try (destruct a1 as [h2|]; try reflexivity; destruct (sget2 st h2); reflexivity).
  exfalso. apply (Hn h a1). reflexivity.
Qed.
