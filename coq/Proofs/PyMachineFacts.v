(* Facts about Base/PyMachine.v: a `while True` loop whose body is a step function with a stop flag. *)
From Coq Require Import List Lia.
From SG Require Import Base.PyLib Base.PyMachine.
Import ListNotations.

Section Loop.
  Context {V R X : Type}.
  Variable body : V -> lflow V R.
  Variable inj : X -> V.
  (* one iteration on the model side: next state, and whether the loop is left by `break` *)
  Variable stepf : X -> X * bool.

  Fixpoint loop_model (fuel : nat) (x : X) : option X :=
    match fuel with
    | O => None
    | S f => let '(x', stop) := stepf x in if stop then Some x' else loop_model f x'
    end.

  Hypothesis body_step : forall x,
    body (inj x) = (let '(x', stop) := stepf x in if stop then LBrk (inj x') else LNxt (inj x')).

  Lemma py_loop_model fuel : forall x,
    py_loop fuel body (inj x) = match loop_model fuel x with Some x' => Nxt (inj x') | None => @Fail V R end.
  Proof.
    induction fuel as [|f IH]; intros x; [reflexivity|].
    cbn [py_loop loop_model]. rewrite body_step. destruct (stepf x) as [x' stop]. destruct stop; [reflexivity|apply IH].
  Qed.
End Loop.

(* more fuel never changes the result of a loop that has ended *)
Lemma py_loop_more_fuel {V R} (body : V -> lflow V R) : forall f1 f2 v r, (f1 <= f2)%nat ->
  py_loop f1 body v = r -> r <> Fail -> py_loop f2 body v = r.
Proof.
  induction f1 as [|f1 IH]; intros f2 v r Hle H Hr; [cbn in H; congruence|].
  destruct f2 as [|f2]; [lia|]. cbn [py_loop] in *. destruct (body v); try exact H.
  apply IH; [lia|exact H|exact Hr].
Qed.
