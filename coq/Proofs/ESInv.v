(* History invariant of the extend-split container: the live areas partition the domain, coarsening values stay
   within 0 .. lmax - lmin.  Proved for every refine round / evaluation / observation and hence for every history. *)
From Coq Require Import ZArith List Bool QArith Qcanon Lia.
From SG Require Import Base.QcUtil Model.CombiScheme Model.ExtendSplit Proofs.ESGeom.
Import ListNotations.
Open Scope Z_scope.
Local Arguments Z.add : simpl never.
Local Arguments Z.sub : simpl never.
Local Arguments Z.leb : simpl never.
Local Arguments Z.eqb : simpl never.

Definition alive (x : area) : bool := negb (a_dead x).
Definition lboxes (objs : list area) : list box := map abox (filter alive objs).

Lemma live_boxes_eq st : live_boxes st = lboxes (st_objs st).
Proof. reflexivity. Qed.

Definition coarse_ok (lmin lmax : Z) (x : area) : Prop := 0 <= a_coarse x <= lmax - lmin.

Record Inv (st : state) : Prop := mkInv {
  inv_parts : Parts (st_dim st) (st_a st, st_b st) (lboxes (st_objs st));
  inv_coarse : Forall (coarse_ok (st_lmin st) (st_lmax st)) (st_objs st);
  inv_levels : st_lmin st <= st_lmax st
}.

(* ---------------------------------------------------------------- list helpers *)

Lemma lboxes_app l1 l2 : lboxes (l1 ++ l2) = lboxes l1 ++ lboxes l2.
Proof. unfold lboxes. rewrite filter_app, map_app. reflexivity. Qed.

Lemma lboxes_alive l : Forall (fun y => a_dead y = false) l -> lboxes l = map abox l.
Proof.
  unfold lboxes. induction l as [|y l IH]; intro H; [reflexivity|].
  inversion H as [|? ? Hy Hl]; subst. assert (Ha : alive y = true) by (unfold alive; rewrite Hy; reflexivity).
  simpl. rewrite Ha. simpl. f_equal. apply IH. exact Hl.
Qed.

Lemma lboxes_map (f : area -> area) l :
  (forall y, abox (f y) = abox y /\ a_dead (f y) = a_dead y) -> lboxes (map f l) = lboxes l.
Proof.
  intro H. unfold lboxes. induction l as [|y l IH]; [reflexivity|].
  destruct (H y) as [H1 H2]. assert (Ha : alive (f y) = alive y) by (unfold alive; rewrite H2; reflexivity).
  simpl. rewrite Ha. destruct (alive y); simpl.
  - rewrite H1. f_equal. exact IH.
  - exact IH.
Qed.

Lemma mapi_map_abox x i l : map abox (mapi (child_of x) i l) = l.
Proof.
  revert i. induction l as [|b l IH]; intro i; [reflexivity|]. simpl. rewrite IH. destruct b; reflexivity.
Qed.

Lemma mapi_Forall {A B} (P : B -> Prop) (f : nat -> A -> B) i l : (forall j a, P (f j a)) -> Forall P (mapi f i l).
Proof. intro H. revert i. induction l as [|a l IH]; intro i; simpl; constructor; [apply H | apply IH]. Qed.

Lemma kill_nth_split l1 x l2 : kill_nth (length l1) (l1 ++ x :: l2) = l1 ++ kill x :: l2.
Proof. induction l1 as [|y l1 IH]; simpl; [reflexivity | rewrite IH; reflexivity]. Qed.

Lemma kill_nth_other i l j : j <> i -> nth_error (kill_nth i l) j = nth_error l j.
Proof.
  revert i j. induction l as [|y l IH]; intros [|i] [|j] H; simpl; try reflexivity; try congruence.
  apply IH. congruence.
Qed.

Lemma kill_nth_length i l : length (kill_nth i l) = length l.
Proof. revert i. induction l as [|y l IH]; intros [|i]; simpl; try reflexivity. rewrite IH. reflexivity. Qed.

(* ---------------------------------------------------------------- refine_area produces a partition of the area *)

Lemma split_single_boxes k l :
  map abox (flat_map (split_area_single_dim k) l) = flat_map (halves k) (map abox l).
Proof.
  induction l as [|y l IH]; [reflexivity|]. cbn [flat_map map]. rewrite map_app, IH. f_equal.
Qed.

Lemma split_dims_parts d dims b l :
  Forall (fun k => (k < d)%nat) dims -> Parts d b (map abox l) ->
  Parts d b (map abox (fold_left (fun objs k => flat_map (split_area_single_dim k) objs) dims l)).
Proof.
  revert l. induction dims as [|k dims IH]; intros l Hd HP; simpl; [assumption|].
  inversion Hd; subst. apply IH; [assumption|]. rewrite split_single_boxes.
  apply parts_flat_map; [assumption|]. intros q Hq. apply parts_halves; [|assumption].
  pose proof (pt_wf _ _ _ HP) as W. rewrite Forall_forall in W. apply W. assumption.
Qed.

Definition child_like (x y : area) : Prop := a_dead y = false /\ a_coarse y = a_coarse x.

Lemma split_single_child_like k x l :
  Forall (child_like x) l -> Forall (child_like x) (flat_map (split_area_single_dim k) l).
Proof.
  intro H. apply Forall_forall. intros y Hy. apply in_flat_map in Hy. destruct Hy as [z [Hz Hy]].
  rewrite Forall_forall in H. destruct (H z Hz) as [_ Hc].
  unfold split_area_single_dim in Hy.
  assert (F : Forall (child_like x) (mapi (child_of z) 0 (halves k (abox z)))).
  { apply mapi_Forall. intros j a. split; [reflexivity | simpl; assumption]. }
  rewrite Forall_forall in F. apply F. assumption.
Qed.

Lemma split_dims_child_like dims x l :
  Forall (child_like x) l ->
  Forall (child_like x) (fold_left (fun objs k => flat_map (split_area_single_dim k) objs) dims l).
Proof.
  revert l. induction dims as [|k dims IH]; intros l H; simpl; [assumption|].
  apply IH. apply split_single_child_like. assumption.
Qed.

Lemma filter_lt_Forall d (l : list nat) : Forall (fun k => (k < d)%nat) (filter (fun k => (k <? d)%nat) l).
Proof. apply Forall_forall. intros k Hk. apply filter_In in Hk. destruct Hk as [_ Hk]. apply Nat.ltb_lt. assumption. Qed.

Lemma refine_area_spec st x dec news ch inc :
  refine_area st x dec = (news, ch, inc) -> Wf (st_dim st) (abox x) -> 0 <= a_coarse x -> a_dead x = false ->
  Parts (st_dim st) (abox x) (map abox news) /\
  Forall (fun y => a_dead y = false) news /\
  Forall (fun y => if inc then a_coarse y = 0 else 0 <= a_coarse y <= a_coarse x) news.
Proof.
  unfold refine_area. intros E W C A.
  destruct (decide (st_auto st) (fst dec) x).
  - injection E as E1 E2 E3. subst news ch inc. split; [|split].
    + simpl. apply parts_self. assumption.
    + constructor; [reflexivity | constructor].
    + constructor; [|constructor]. simpl. destruct (a_coarse x =? 0) eqn:Z0; [reflexivity|].
      apply Z.eqb_neq in Z0. lia.
  - assert (G : forall l, Forall (child_like x) l ->
                Forall (fun y => a_dead y = false) l /\ Forall (fun y => 0 <= a_coarse y <= a_coarse x) l).
    { intros l H. split; apply Forall_forall; intros y Hy; rewrite Forall_forall in H; destruct (H y Hy) as [H1 H2];
        [assumption | lia]. }
    destruct (st_single st).
    + injection E as E1 E2 E3. subst news ch inc.
      set (dims := filter (fun d => (d <? st_dim st)%nat) (snd dec)).
      split.
      * unfold split_dims. apply split_dims_parts; [apply filter_lt_Forall|]. simpl. apply parts_self. assumption.
      * apply G. unfold split_dims. apply split_dims_child_like. constructor; [|constructor]. split; [assumption | reflexivity].
    + injection E as E1 E2 E3. subst news ch inc. split.
      * unfold split_area_arbitrary_dim. rewrite mapi_map_abox. destruct W as [W1 W2]. rewrite <- W2.
        destruct x; simpl in *. apply parts_split_all. assumption.
      * apply G. unfold split_area_arbitrary_dim. apply mapi_Forall. intros j a. split; reflexivity.
Qed.

(* ---------------------------------------------------------------- one refinement inside a round *)

Lemma register_props cp y :
  abox (register cp y) = abox y /\ a_dead (register cp y) = a_dead y /\ a_coarse (register cp y) = a_coarse y.
Proof. split; [|split]; reflexivity. Qed.

Lemma Forall_kill_nth (P : area -> Prop) i l : (forall y, P y -> P (kill y)) -> Forall P l -> Forall P (kill_nth i l).
Proof.
  intros Hk. revert i. induction l as [|y l IH]; intros [|i] H; simpl; try assumption.
  - inversion H as [|? ? Hy Hl]; subst. constructor; [apply Hk; exact Hy | exact Hl].
  - inversion H as [|? ? Hy Hl]; subst. constructor; [exact Hy | apply IH; exact Hl].
Qed.

Lemma lboxes_cons_alive x l : a_dead x = false -> lboxes (x :: l) = abox x :: lboxes l.
Proof. intro H. unfold lboxes. simpl. unfold alive at 1. rewrite H. reflexivity. Qed.

Lemma lboxes_cons_dead x l : a_dead x = true -> lboxes (x :: l) = lboxes l.
Proof. intro H. unfold lboxes. simpl. unfold alive at 1. rewrite H. reflexivity. Qed.

Definition same_frame (st st' : state) : Prop :=
  st_dim st' = st_dim st /\ st_a st' = st_a st /\ st_b st' = st_b st /\ st_lmin st' = st_lmin st /\
  st_single st' = st_single st /\ st_auto st' = st_auto st /\ st_lmax st <= st_lmax st'.

Lemma same_frame_refl st : same_frame st st.
Proof. unfold same_frame. repeat split; try reflexivity; lia. Qed.

Lemma same_frame_trans a b c : same_frame a b -> same_frame b c -> same_frame a c.
Proof. unfold same_frame. intros [A1 [A2 [A3 [A4 [A5 [A6 A7]]]]]] [B1 [B2 [B3 [B4 [B5 [B6 B7]]]]]].
  repeat split; try congruence; lia. Qed.

Lemma do_refinement_inv st i decs x :
  Inv st -> nth_error (st_objs st) i = Some x -> a_dead x = false ->
  let st' := fst (do_refinement st i decs) in
  Inv st' /\ same_frame st st' /\
  (length (st_objs st) <= length (st_objs st'))%nat /\
  (forall j y, j <> i -> (j < length (st_objs st))%nat -> nth_error (st_objs st') j = Some y ->
               exists y0, nth_error (st_objs st) j = Some y0 /\ a_dead y = a_dead y0).
Proof.
  intros [IP IC IL] Hn Hx. unfold do_refinement. rewrite Hn.
  destruct (refine_area st x (lookup (abox x) decs (false, []))) as [[news ch] inc] eqn:E.
  destruct (nth_error_split _ _ Hn) as [l1 [l2 [El Li]]].
  rewrite El in IP, IC. rewrite lboxes_app, (lboxes_cons_alive _ _ Hx) in IP.
  assert (Wx : Wf (st_dim st) (abox x)).
  { pose proof (pt_wf _ _ _ IP) as W. rewrite Forall_app in W. destruct W as [_ W]. inversion W; assumption. }
  assert (Cx : coarse_ok (st_lmin st) (st_lmax st) x).
  { rewrite Forall_app in IC. destruct IC as [_ IC]. inversion IC; assumption. }
  destruct (refine_area_spec _ _ _ _ _ _ E Wx (proj1 Cx) Hx) as [RP [RA RC]].
  set (g := if inc then update_area else (fun y : area => y)).
  assert (Eg : (if inc then map update_area (st_objs st) else st_objs st) = map g (st_objs st)).
  { unfold g. destruct inc; [reflexivity | symmetry; apply map_id]. }
  assert (Gp : forall y, abox (g y) = abox y /\ a_dead (g y) = a_dead y).
  { intro y. unfold g. destruct inc; split; reflexivity. }
  set (news1 := if st_single st && (2 <? length news)%nat then map (register (st_cp st)) news else news).
  assert (N1 : map abox news1 = map abox news /\ Forall (fun y => a_dead y = false) news1 /\
               Forall (fun y => if inc then a_coarse y = 0 else 0 <= a_coarse y <= a_coarse x) news1).
  { unfold news1. destruct (st_single st && (2 <? length news)%nat); [|split; [reflexivity | split; assumption]].
    split; [|split].
    - rewrite map_map. apply map_ext. intro y. reflexivity.
    - apply Forall_forall. intros y Hy. apply in_map_iff in Hy. destruct Hy as [z [Ez Hz]]. subst y.
      rewrite Forall_forall in RA. apply (RA z Hz).
    - apply Forall_forall. intros y Hy. apply in_map_iff in Hy. destruct Hy as [z [Ez Hz]]. subst y.
      rewrite Forall_forall in RC. apply (RC z Hz). }
  destruct N1 as [N1 [N2 N3]].
  cbn [fst]. rewrite Eg. fold news1.
  assert (Ek : kill_nth i (map g (st_objs st)) = map g l1 ++ kill (g x) :: map g l2).
  { rewrite El, map_app. cbn [map]. rewrite <- Li, <- (map_length g l1). apply kill_nth_split. }
  split; [|split; [|split]].
  - constructor; cbn [st_dim st_a st_b st_objs st_lmin st_lmax].
    + rewrite Ek, !lboxes_app, lboxes_cons_dead by reflexivity.
      rewrite !(lboxes_map g) by exact Gp. rewrite (lboxes_alive news1 N2), N1, <- app_assoc.
      apply parts_replace with (x := abox x); assumption.
    + apply Forall_app. split.
      * apply Forall_kill_nth; [intros y Hy; exact Hy|]. rewrite <- El in IC.
        apply Forall_forall. intros y Hy. apply in_map_iff in Hy. destruct Hy as [z [Ez Hz]]. subst y.
        rewrite Forall_forall in IC. specialize (IC z Hz). unfold coarse_ok in *. unfold g.
        destruct inc; simpl; lia.
      * apply Forall_forall. intros y Hy. rewrite Forall_forall in N3. specialize (N3 y Hy).
        unfold coarse_ok in *. destruct inc; lia.
    + destruct inc; lia.
  - unfold same_frame. cbn [st_dim st_a st_b st_lmin st_single st_auto st_lmax]. repeat split; try reflexivity.
    destruct inc; lia.
  - cbn [st_objs]. rewrite app_length, kill_nth_length, map_length. lia.
  - intros j y Hj Lj Hy. cbn [st_objs] in Hy.
    rewrite nth_error_app1 in Hy by (rewrite kill_nth_length, map_length; exact Lj).
    rewrite kill_nth_other in Hy by exact Hj. rewrite nth_error_map in Hy.
    destruct (nth_error (st_objs st) j) as [y0|]; [|discriminate]. injection Hy as Hy. subst y.
    exists y0. split; [reflexivity | apply Gp].
Qed.

(* ---------------------------------------------------------------- a whole refine round *)

Definition all_alive (l : list area) : Prop := Forall (fun y => a_dead y = false) l.

Definition round_body (tol : Qc) (decs : list decision)
           (acc : state * list (box * (bool * list nat))) (i : nat) : state * list (box * (bool * list nat)) :=
  let '(s, lg) := acc in
  match nth_error (st_objs s) i with
  | Some x => if Qc_leb tol (a_benefit x) then let '(s', l') := do_refinement s i decs in (s', lg ++ l') else (s, lg)
  | None => (s, lg)
  end.

(* loop invariant: the objects at the not yet visited positions i..n-1 are alive *)
Definition J (st0 : state) (n i : nat) (s : state) : Prop :=
  Inv s /\ same_frame st0 s /\ (n <= length (st_objs s))%nat /\
  (forall j y, (i <= j)%nat -> (j < n)%nat -> nth_error (st_objs s) j = Some y -> a_dead y = false).

Lemma round_body_J st0 n tol decs acc i : (i < n)%nat -> J st0 n i (fst acc) -> J st0 n (S i) (fst (round_body tol decs acc i)).
Proof.
  intros Li [HI [HF [HL HA]]]. destruct acc as [s lg]. cbn [fst] in *. unfold round_body.
  assert (Keep : J st0 n (S i) s).
  { split; [assumption | split; [assumption | split; [assumption|]]]. intros j y Hj. apply HA. lia. }
  destruct (nth_error (st_objs s) i) as [x|] eqn:Hn; [|exact Keep].
  destruct (Qc_leb tol (a_benefit x)); [|exact Keep].
  pose proof (do_refinement_inv s i decs x HI Hn (HA i x (le_n _) Li Hn)) as R.
  destruct (do_refinement s i decs) as [s' l']. cbn [fst] in *.
  destruct R as [RI [RF [RL RA]]].
  split; [assumption | split; [eapply same_frame_trans; eassumption | split; [lia|]]].
  intros j y Hj Hjn Hy. destruct (RA j y ltac:(lia) ltac:(lia) Hy) as [y0 [Hy0 Ed]]. rewrite Ed.
  apply (HA j y0); [lia | assumption | assumption].
Qed.

Lemma round_loop_J st0 n tol decs k : forall i acc, (i + k = n)%nat -> J st0 n i (fst acc) ->
  J st0 n n (fst (fold_left (round_body tol decs) (seq i k) acc)).
Proof.
  induction k as [|k IH]; intros i acc E H; simpl.
  - assert (Ei : i = n) by lia. subst i. exact H.
  - apply IH; [lia|]. apply round_body_J; [lia | exact H].
Qed.

Lemma filter_alive_idem l : filter alive (filter alive l) = filter alive l.
Proof.
  induction l as [|y l IH]; [reflexivity|]. simpl. destruct (alive y) eqn:A; simpl; [rewrite A, IH; reflexivity | exact IH].
Qed.

Lemma filter_alive_all l : all_alive (filter alive l).
Proof.
  apply Forall_forall. intros y Hy. apply filter_In in Hy. destruct Hy as [_ Hy]. unfold alive in Hy.
  destruct (a_dead y); [discriminate | reflexivity].
Qed.

Lemma refine_round_inv st decs : Inv st -> all_alive (st_objs st) ->
  let st' := fst (refine_round st decs) in
  Inv st' /\ same_frame st st' /\ all_alive (st_objs st').
Proof.
  intros HI HA. unfold refine_round.
  change (fun (acc : state * list (box * (bool * list nat))) (i : nat) =>
            let '(s, lg) := acc in
            match nth_error (st_objs s) i with
            | Some x => if Qc_leb (st_bmax st * margin)%Qc (a_benefit x)
                        then let '(s', l') := do_refinement s i decs in (s', lg ++ l') else (s, lg)
            | None => (s, lg)
            end) with (round_body (st_bmax st * margin)%Qc decs).
  pose proof (round_loop_J st (length (st_objs st)) (st_bmax st * margin)%Qc decs (length (st_objs st)) 0%nat (st, [])
                           eq_refl) as L.
  destruct (fold_left (round_body (st_bmax st * margin)%Qc decs) (seq 0 (length (st_objs st))) (st, [])) as [st1 log].
  cbn [fst] in *.
  destruct L as [[IP IC IL] [HF _]].
  { split; [assumption | split; [apply same_frame_refl | split; [lia|]]].
    intros j y _ _ Hy. unfold all_alive in HA. rewrite Forall_forall in HA. apply HA. eapply nth_error_In. eassumption. }
  split; [|split].
  - constructor; cbn [st_dim st_a st_b st_objs st_lmin st_lmax].
    + change (fun x : area => negb (a_dead x)) with alive. unfold lboxes. rewrite filter_alive_idem. exact IP.
    + apply Forall_forall. intros y Hy. apply filter_In in Hy. destruct Hy as [Hy _].
      rewrite Forall_forall in IC. apply IC. exact Hy.
    + exact IL.
  - unfold same_frame in *. cbn [st_dim st_a st_b st_lmin st_single st_auto st_lmax]. exact HF.
  - cbn [st_objs]. apply filter_alive_all.
Qed.

(* ---------------------------------------------------------------- evaluate, observe, init *)

Lemma lboxes_firstn_skipn k (h : area -> area) l :
  (forall y, abox (h y) = abox y /\ a_dead (h y) = a_dead y) ->
  lboxes (firstn k l ++ map h (skipn k l)) = lboxes l.
Proof.
  intro H. rewrite lboxes_app, (lboxes_map h) by exact H. rewrite <- lboxes_app, firstn_skipn. reflexivity.
Qed.

Lemma evaluate_inv st bens : Inv st -> all_alive (st_objs st) ->
  let st' := fst (evaluate st bens) in
  Inv st' /\ same_frame st st' /\ all_alive (st_objs st').
Proof.
  intros [IP IC IL] HA. unfold evaluate. cbn [fst].
  set (h := fun x : area => with_benefit (register (st_cp st) x) (benefit_of (lookup (abox x) bens 0))).
  assert (Hh : forall y, abox (h y) = abox y /\ a_dead (h y) = a_dead y) by (intro y; split; reflexivity).
  split; [|split].
  - constructor; cbn [st_dim st_a st_b st_objs st_lmin st_lmax].
    + rewrite (lboxes_firstn_skipn _ h) by exact Hh. exact IP.
    + rewrite <- (firstn_skipn (st_start_new st) (st_objs st)) in IC. rewrite Forall_app in IC. destruct IC as [C1 C2].
      apply Forall_app. split; [exact C1|]. apply Forall_forall. intros y Hy. apply in_map_iff in Hy.
      destruct Hy as [z [Ez Hz]]. subst y. rewrite Forall_forall in C2. apply (C2 z Hz).
    + exact IL.
  - unfold same_frame. cbn [st_dim st_a st_b st_lmin st_single st_auto st_lmax]. repeat split; try reflexivity; lia.
  - cbn [st_objs]. unfold all_alive in *. rewrite <- (firstn_skipn (st_start_new st) (st_objs st)) in HA.
    rewrite Forall_app in HA. destruct HA as [A1 A2]. apply Forall_app. split; [exact A1|].
    apply Forall_forall. intros y Hy. apply in_map_iff in Hy. destruct Hy as [z [Ez Hz]]. subst y.
    rewrite Forall_forall in A2. apply (A2 z Hz).
Qed.

Lemma observe_inv st : Inv st -> all_alive (st_objs st) ->
  let st' := fst (observe_coarsen st) in
  Inv st' /\ same_frame st st' /\ all_alive (st_objs st').
Proof.
  intros [IP IC IL] HA. unfold observe_coarsen, set_objs. cbn [fst].
  split; [|split].
  - constructor; cbn [st_dim st_a st_b st_objs st_lmin st_lmax].
    + rewrite lboxes_map; [exact IP | intro y; split; reflexivity].
    + apply Forall_forall. intros y Hy. apply in_map_iff in Hy. destruct Hy as [z [Ez Hz]]. subst y.
      rewrite Forall_forall in IC. apply (IC z Hz).
    + exact IL.
  - unfold same_frame. cbn [st_dim st_a st_b st_lmin st_single st_auto st_lmax]. repeat split; try reflexivity; lia.
  - cbn [st_objs]. apply Forall_forall. intros y Hy. apply in_map_iff in Hy. destruct Hy as [z [Ez Hz]]. subst y.
    unfold all_alive in HA. rewrite Forall_forall in HA. apply (HA z Hz).
Qed.

Lemma seq_lt_Forall d : Forall (fun k => (k < d)%nat) (seq 0 d).
Proof. apply Forall_forall. intros k Hk. apply in_seq in Hk. lia. Qed.

Lemma mapi_with_path_map (f : area -> area) i l :
  map f (mapi (fun j x => with_path x [j]) i l) = map f (mapi (fun j x => with_path x [j]) i l).
Proof. reflexivity. Qed.

Lemma mapi_with_path_boxes i l : map abox (mapi (fun j x => with_path x [j]) i l) = map abox l.
Proof. revert i. induction l as [|y l IH]; intro i; [reflexivity|]. simpl. rewrite IH. reflexivity. Qed.

Lemma init_inv dim version nrbe lmin lmax base auto single a b :
  wfbox a b -> length a = dim -> lmin <= lmax ->
  let st := init_state dim version nrbe lmin lmax base auto single a b in
  Inv st /\ all_alive (st_objs st) /\ st_dim st = dim /\ st_a st = a /\ st_b st = b /\ st_lmin st = lmin.
Proof.
  intros W L Hl. unfold init_state. destruct single.
  - set (root := mkArea a b 0 0 (nrbe + Z.of_nat dim) 0%Qc [] [] false).
    set (objs0 := split_dims (seq 0 dim) root).
    assert (P0 : Parts dim (a, b) (map abox objs0)).
    { unfold objs0, split_dims. apply split_dims_parts; [apply seq_lt_Forall|]. simpl. apply parts_self. split; assumption. }
    assert (C0 : Forall (child_like root) objs0).
    { unfold objs0, split_dims. apply split_dims_child_like. constructor; [|constructor]. split; reflexivity. }
    set (objs := map (register (mkCP dim version lmin lmax base)) (mapi (fun i x => with_path x [i]) 0 objs0)).
    assert (Eb : map abox objs = map abox objs0).
    { unfold objs. rewrite map_map. rewrite <- (mapi_with_path_boxes 0 objs0). apply map_ext. intro y. reflexivity. }
    assert (Fa : forall y, In y objs -> a_dead y = false /\ a_coarse y = 0).
    { intros y Hy. unfold objs in Hy. apply in_map_iff in Hy. destruct Hy as [z [Ez Hz]]. subst y.
      assert (Q : Forall (child_like root) (mapi (fun i x => with_path x [i]) 0 objs0)).
      { clear -C0. generalize 0%nat. induction objs0 as [|y l IH]; intro i; simpl; constructor.
        - inversion C0; subst. destruct H1. split; assumption.
        - apply IH. inversion C0; assumption. }
      rewrite Forall_forall in Q. destruct (Q z Hz) as [Q1 Q2]. split; [exact Q1 | exact Q2]. }
    assert (AA : all_alive objs) by (apply Forall_forall; intros y Hy; apply (Fa y Hy)).
    split; [|split; [exact AA | repeat split; reflexivity]].
    constructor; cbn [st_dim st_a st_b st_objs st_lmin st_lmax].
    + rewrite (lboxes_alive _ AA), Eb. exact P0.
    + apply Forall_forall. intros y Hy. destruct (Fa y Hy) as [_ Hc]. unfold coarse_ok. rewrite Hc. lia.
    + exact Hl.
  - set (root := mkArea a b 0 0 (nrbe + 1) 0%Qc [] [] false).
    assert (AA : all_alive (split_area_arbitrary_dim root)).
    { unfold split_area_arbitrary_dim. apply mapi_Forall. intros j q. reflexivity. }
    split; [|split; [exact AA | repeat split; reflexivity]].
    constructor; cbn [st_dim st_a st_b st_objs st_lmin st_lmax].
    + rewrite (lboxes_alive _ AA). unfold split_area_arbitrary_dim. rewrite mapi_map_abox. simpl.
      rewrite <- L. apply parts_split_all. exact W.
    + unfold split_area_arbitrary_dim. apply mapi_Forall. intros j q. unfold coarse_ok. simpl. lia.
    + exact Hl.
Qed.

(* ---------------------------------------------------------------- every history *)

Definition Good (d : nat) (a b : list Qc) (lmin : Z) (st : state) : Prop :=
  Inv st /\ all_alive (st_objs st) /\ st_dim st = d /\ st_a st = a /\ st_b st = b /\ st_lmin st = lmin.

Lemma good_frame d a b lmin st st' : same_frame st st' -> Inv st' -> all_alive (st_objs st') ->
  Good d a b lmin st -> Good d a b lmin st'.
Proof.
  intros [F1 [F2 [F3 [F4 _]]]] HI HA [_ [_ [G1 [G2 [G3 G4]]]]]. unfold Good.
  split; [exact HI | split; [exact HA | split; [congruence | split; [congruence | split; congruence]]]].
Qed.

Lemma step_good d a b lmin st inp : Good d a b lmin st -> Good d a b lmin (step st inp).
Proof.
  intros G. destruct G as [HI [HA R]]. unfold step.
  destruct (refine_round_inv st (si_decs inp) HI HA) as [I1 [F1 A1]].
  destruct (evaluate_inv _ (si_bens inp) I1 A1) as [I2 [F2 A2]].
  apply (good_frame d a b lmin st); [eapply same_frame_trans; [exact F1 | exact F2] | exact I2 | exact A2 | split; [exact HI | split; [exact HA | exact R]]].
Qed.

Lemma observe_good d a b lmin st : Good d a b lmin st -> Good d a b lmin (fst (observe_coarsen st)).
Proof.
  intros G. destruct G as [HI [HA R]]. destruct (observe_inv st HI HA) as [I1 [F1 A1]].
  apply (good_frame d a b lmin st); [exact F1 | exact I1 | exact A1 | split; [exact HI | split; [exact HA | exact R]]].
Qed.

Lemma run_good d a b lmin hist : forall st, Good d a b lmin st -> Good d a b lmin (run_events st hist).
Proof.
  unfold run_events. induction hist as [|ev hist IH]; intros st G; simpl; [exact G|]. apply IH.
  destruct ev; [apply step_good | apply observe_good]; exact G.
Qed.

(* the state the driver starts from: initialisation followed by the first evaluation *)
Definition start_state dim version nrbe lmin lmax base auto single a b bens0 : state :=
  fst (evaluate (init_state dim version nrbe lmin lmax base auto single a b) bens0).

Lemma start_good dim version nrbe lmin lmax base auto single a b bens0 :
  wfbox a b -> length a = dim -> lmin <= lmax ->
  Good dim a b lmin (start_state dim version nrbe lmin lmax base auto single a b bens0).
Proof.
  intros W L Hl. destruct (init_inv dim version nrbe lmin lmax base auto single a b W L Hl) as [I0 [A0 R]].
  destruct (evaluate_inv _ bens0 I0 A0) as [I1 [F1 A1]]. unfold start_state.
  apply (good_frame dim a b lmin (init_state dim version nrbe lmin lmax base auto single a b));
    [exact F1 | exact I1 | exact A1 | split; [exact I0 | split; [exact A0 | exact R]]].
Qed.

(* leaves_tile_domain: after every history the areas in the container partition the domain *)
Theorem leaves_tile_domain dim version nrbe lmin lmax base auto single a b bens0 hist :
  wfbox a b -> length a = dim -> lmin <= lmax ->
  Parts dim (a, b) (map abox (st_objs (run_events (start_state dim version nrbe lmin lmax base auto single a b bens0) hist))).
Proof.
  intros W L Hl.
  destruct (run_good dim a b lmin hist _ (start_good dim version nrbe lmin lmax base auto single a b bens0 W L Hl))
    as [[IP _ _] [HA [E1 [E2 [E3 _]]]]].
  rewrite (lboxes_alive _ HA), E1, E2, E3 in IP. exact IP.
Qed.

(* coarsening_nonneg (with the upper bound that makes the bounded enumeration of coarsen_grid exhaustive) *)
Theorem coarsening_nonneg dim version nrbe lmin lmax base auto single a b bens0 hist :
  wfbox a b -> length a = dim -> lmin <= lmax ->
  let st := run_events (start_state dim version nrbe lmin lmax base auto single a b bens0) hist in
  forall x, In x (st_objs st) -> 0 <= a_coarse x <= st_lmax st - lmin.
Proof.
  intros W L Hl st x Hx.
  destruct (run_good dim a b lmin hist _ (start_good dim version nrbe lmin lmax base auto single a b bens0 W L Hl))
    as [[_ IC _] [_ [_ [_ [_ E4]]]]].
  fold st in IC, E4. rewrite Forall_forall in IC. specialize (IC x Hx). unfold coarse_ok in IC. rewrite E4 in IC. exact IC.
Qed.

(* readable consequences of Parts for the container *)
Lemma parts_cover_objs d dom (objs : list area) : Parts d dom (map abox objs) ->
  forall p, In_box p dom -> exists x, In x objs /\ In_box p (abox x).
Proof.
  intros P p H. destruct (pt_cover _ _ _ P p H) as [q [Hq Hp]]. apply in_map_iff in Hq. destruct Hq as [x [E Hx]].
  subst q. exists x. split; assumption.
Qed.

Lemma parts_disjoint_objs d dom (objs : list area) : Parts d dom (map abox objs) ->
  forall l1 x l2 y l3, objs = l1 ++ x :: l2 ++ y :: l3 -> disj (abox x) (abox y).
Proof.
  intros P l1 x l2 y l3 E. eapply (pairwise_In disj _ disj_sym (pt_disj _ _ _ P) (map abox l1) (abox x) (map abox l2) (abox y) (map abox l3)).
  rewrite E, map_app. cbn [map]. rewrite map_app. reflexivity.
Qed.

Lemma parts_inside_objs d dom (objs : list area) : Parts d dom (map abox objs) ->
  forall x p, In x objs -> In_box p (abox x) -> In_box p dom.
Proof. intros P x p Hx Hp. eapply pt_sub; [exact P | apply in_map; exact Hx | exact Hp]. Qed.
