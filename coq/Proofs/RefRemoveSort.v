(* apply_remove(sort=True) after a selection round = in-place replacement of the selected intervals
   ("postprocess_is_inplace_replacement": deferred removal + append + sort-by-start; two strictly sorted
   permutations of each other are equal). *)
From Coq Require Import ZArith List Bool QArith Qcanon Arith Lia Sorted Permutation.
From SG Require Import Base.QcUtil Model.RefTree Proofs.RefTreeInv Proofs.RefSelect.
Import ListNotations.
Open Scope nat_scope.

(* ---------------------------------------------------------------------------------------------- *)
(* sorted(popArray) is the identity on increasing lists *)
Lemma insert_nat_head x l : Forall (fun y => x <= y) l -> insert_nat x l = x :: l.
Proof.
  destruct l as [|y l]; intro H; simpl; [reflexivity|].
  inversion H as [|? ? Hy _]; subst. apply Nat.leb_le in Hy. rewrite Hy. reflexivity.
Qed.

Lemma sort_nat_sorted l : StronglySorted le l -> sort_nat l = l.
Proof.
  induction 1 as [|x l Hs IH Hx]; [reflexivity|].
  change (sort_nat (x :: l)) with (insert_nat x (sort_nat l)). rewrite IH. apply insert_nat_head. assumption.
Qed.

Lemma filter_seq_sorted (P : nat -> bool) n : forall s, StronglySorted le (filter P (seq s n)).
Proof.
  induction n as [|n IH]; intro s; simpl; [constructor|].
  destruct (P s); [|apply IH]. constructor; [apply IH|].
  apply Forall_forall. intros y Hy. apply filter_In in Hy. destruct Hy as [Hy _]. apply in_seq in Hy. lia.
Qed.

(* ---------------------------------------------------------------------------------------------- *)
Definition keep (sel : list bool) (t : list ival) : list ival :=
  flat_map (fun p : ival * bool => if snd p then [] else [fst p]) (combine t sel).
Definition chosen (sel : list bool) (t : list ival) : list ival :=
  flat_map (fun p : ival * bool => if snd p then [fst p] else []) (combine t sel).

Definition sel_of (P : nat -> bool) (n : nat) : list bool := map P (seq 0 n).

Lemma sel_of_S P n : sel_of P (S n) = P 0 :: sel_of (fun i => P (S i)) n.
Proof. unfold sel_of. simpl. f_equal. rewrite <- seq_shift, map_map. reflexivity. Qed.

Lemma filter_seq_S P n : filter P (seq 0 (S n)) = (if P 0 then [0] else []) ++ map S (filter (fun i => P (S i)) (seq 0 n)).
Proof.
  simpl. rewrite <- seq_shift.
  assert (E : forall l, filter P (map S l) = map S (filter (fun i => P (S i)) l)).
  { induction l as [|a l IH]; simpl; [reflexivity|]. destruct (P (S a)); simpl; rewrite IH; reflexivity. }
  rewrite E. destruct (P 0); reflexivity.
Qed.

Lemma fold_remove_S (x : ival) ps : forall l,
  fold_left (fun acc p => remove_at p acc) (map S ps) (x :: l) = x :: fold_left (fun acc p => remove_at p acc) ps l.
Proof.
  induction ps as [|p ps IH]; intro l; simpl; [reflexivity|].
  unfold remove_at at 2. simpl. fold (remove_at p l). apply IH.
Qed.

Lemma remove_descending t : forall P extra,
  fold_left (fun acc p => remove_at p acc) (rev (filter P (seq 0 (length t)))) (t ++ extra)
  = keep (sel_of P (length t)) t ++ extra.
Proof.
  induction t as [|x t IH]; intros P extra; [reflexivity|].
  cbn [length]. rewrite filter_seq_S, sel_of_S. rewrite rev_app_distr, fold_left_app.
  rewrite <- map_rev. cbn [app]. rewrite fold_remove_S. rewrite IH.
  unfold keep. cbn [combine flat_map snd fst].
  destruct (P 0); reflexivity.
Qed.

Lemma kids_S x t ps : kids (x :: t) (map S ps) = kids t ps.
Proof. induction ps as [|p ps IH]; simpl; [reflexivity|]. rewrite IH. reflexivity. Qed.

Lemma kids_chosen t : forall P,
  kids t (filter P (seq 0 (length t))) = flat_map children (chosen (sel_of P (length t)) t).
Proof.
  induction t as [|x t IH]; intro P; [reflexivity|].
  cbn [length]. rewrite filter_seq_S, sel_of_S. unfold kids at 1. rewrite flat_map_app.
  change (flat_map (fun i : nat => children (nth i (x :: t) dflt)) (map S (filter (fun i : nat => P (S i)) (seq 0 (length t)))))
    with (kids (x :: t) (map S (filter (fun i : nat => P (S i)) (seq 0 (length t))))).
  rewrite kids_S, IH. unfold chosen. cbn [combine flat_map snd fst].
  rewrite flat_map_app. destruct (P 0); simpl; try rewrite app_nil_r; reflexivity.
Qed.

Lemma keep_kids_perm sel : forall t,
  Permutation (keep sel t ++ flat_map children (chosen sel t)) (repl sel t).
Proof.
  induction sel as [|s sel IH]; intros [|x t]; try (simpl; constructor).
  unfold keep, chosen, repl. cbn [combine flat_map snd fst].
  fold (keep sel t). fold (chosen sel t). fold (repl sel t).
  destruct s.
  - cbn [app flat_map].
    eapply Permutation_trans; [|apply Permutation_app_head; apply IH].
    rewrite !app_assoc. apply Permutation_app_tail. apply Permutation_app_comm.
  - simpl. constructor. apply IH.
Qed.

(* ---------------------------------------------------------------------------------------------- *)
(* insertion sort by start *)
Definition le_start (p q : ival) : Prop := (i_start p <= i_start q)%Qc.
Definition lt_start (p q : ival) : Prop := (i_start p < i_start q)%Qc.

Lemma insert_perm x l : Permutation (x :: l) (insert_by_start x l).
Proof.
  induction l as [|y l IH]; simpl; [constructor; constructor|].
  destruct (Qc_leb (i_start x) (i_start y)); [apply Permutation_refl|].
  eapply Permutation_trans; [apply perm_swap|]. constructor. assumption.
Qed.

Lemma sort_perm l : Permutation l (sort_by_start l).
Proof.
  induction l as [|x l IH]; simpl; [constructor|].
  eapply Permutation_trans; [|apply insert_perm]. constructor. assumption.
Qed.

Lemma insert_sorted x l : StronglySorted le_start l -> StronglySorted le_start (insert_by_start x l).
Proof.
  induction 1 as [|y l Hs IH Hy]; simpl; [constructor; constructor|].
  destruct (Qc_leb (i_start x) (i_start y)) eqn:E.
  - apply Qc_leb_le in E. constructor; [constructor; assumption|].
    constructor; [exact E|]. eapply Forall_impl; [|exact Hy]. intros z Hz. unfold le_start in *. eapply Qcle_trans; eassumption.
  - constructor; [assumption|].
    assert (Hyx : le_start y x).
    { unfold le_start. apply Qclt_le_weak. apply Qcnot_le_lt. intro L. apply Qc_leb_le in L. congruence. }
    eapply Permutation_Forall; [apply insert_perm|]. constructor; assumption.
Qed.

Lemma sort_sorted l : StronglySorted le_start (sort_by_start l).
Proof. induction l as [|x l IH]; simpl; [constructor | apply insert_sorted; assumption]. Qed.

(* a strictly sorted list and a sorted list that are permutations of each other are equal *)
Lemma sorted_perm_eq l1 : forall l2,
  StronglySorted lt_start l1 -> StronglySorted le_start l2 -> Permutation l1 l2 -> l1 = l2.
Proof.
  induction l1 as [|x l1 IH]; intros l2 H1 H2 HP.
  - apply Permutation_nil in HP. subst. reflexivity.
  - destruct l2 as [|y l2]; [apply Permutation_sym, Permutation_nil in HP; discriminate|].
    inversion H1 as [|? ? Hs1 Hx]; subst. inversion H2 as [|? ? Hs2 Hy]; subst.
    assert (Exy : x = y).
    { assert (Hyin : In y (x :: l1)) by (eapply Permutation_in; [apply Permutation_sym; exact HP | left; reflexivity]).
      assert (Hxin : In x (y :: l2)) by (eapply Permutation_in; [exact HP | left; reflexivity]).
      destruct Hyin as [->|Hyin]; [reflexivity|].
      destruct Hxin as [->|Hxin]; [reflexivity|].
      rewrite Forall_forall in Hx, Hy. specialize (Hx _ Hyin). specialize (Hy _ Hxin).
      unfold lt_start, le_start in *. exfalso. eapply Qclt_not_le; eassumption. }
    subst y. f_equal. apply IH; try assumption. eapply Permutation_cons_inv. eassumption.
Qed.

Theorem sort_keep_kids_is_repl x y u w t sel : Seg x y u w t -> length sel = length t ->
  sort_by_start (keep sel t ++ flat_map children (chosen sel t)) = repl sel t.
Proof.
  intros HS HL. symmetry. apply sorted_perm_eq.
  - eapply Seg_sorted. apply Seg_repl; eassumption.
  - apply sort_sorted.
  - eapply Permutation_trans; [apply Permutation_sym, keep_kids_perm | apply sort_perm].
Qed.

(* ---------------------------------------------------------------------------------------------- *)
(* cont_apply_remove on the result of a selection round *)
Lemma apply_remove_fst ps : forall objs sn,
  fst (fold_left (fun (acc : list ival * nat) p =>
                    (remove_at p (fst acc), if Nat.eqb (snd acc) 0 then 0 else Nat.pred (snd acc))) ps (objs, sn))
  = fold_left (fun acc p => remove_at p acc) ps objs.
Proof. induction ps as [|p ps IH]; intros objs sn; simpl; [reflexivity | apply IH]. Qed.

Theorem apply_remove_is_repl x y u w t P sn se :
  Seg x y u w t ->
  c_objs (cont_apply_remove (mkCont (t ++ kids t (filter P (seq 0 (length t)))) (filter P (seq 0 (length t))) sn se))
  = repl (sel_of P (length t)) t
  /\ c_pop (cont_apply_remove (mkCont (t ++ kids t (filter P (seq 0 (length t)))) (filter P (seq 0 (length t))) sn se)) = [].
Proof.
  intro HS. unfold cont_apply_remove. cbn [c_objs c_pop c_startNew c_search].
  rewrite (sort_nat_sorted _ (filter_seq_sorted P (length t) 0)).
  match goal with |- context [fold_left ?f ?ps ?i] => pose proof (apply_remove_fst ps (t ++ kids t (filter P (seq 0 (length t)))) sn) as E;
    destruct (fold_left f ps i) as [objs sn'] end.
  cbn [fst] in E. cbn [c_objs c_pop]. split; [|reflexivity].
  rewrite E, remove_descending, kids_chosen.
  eapply sort_keep_kids_is_repl; [eassumption|]. unfold sel_of. rewrite map_length, seq_length. reflexivity.
Qed.
