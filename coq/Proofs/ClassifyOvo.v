(* C19 (phase 3) — one_vs_others inside the trained-arg-max theorem.  The assigned class is the label whose classificator - trained on
   ALL learning samples with signed labels (+1 own class, the weight max(-1, -n_j/others) for the rest) - has the largest (signed) density.
   The code indexes the class counts by the label VALUE: this is the class's own count only when get_labels() is 0, 1, ..., k-1 in this
   order (the restriction the code requires); for another admissible order the weights belong to other classes (witness). *)
From Coq Require Import ZArith List QArith Qcanon Bool Lia Arith Permutation.
From SG Require Import Base.QcUtil Model.DataSet Model.Classify Model.ClassifyLearn
  Proofs.DataSetVec Proofs.DataSetScale Proofs.DataSetMove Proofs.ClassifyProofs Proofs.ClassifyLearnProofs.
Import ListNotations.
Open Scope Qc_scope.

(* the arg-max argument for ANY family of classificators indexed by the labels in their order *)
Theorem class_is_family_argmax cv (f : Z -> row -> Qc) lo pts i :
  cv_labels cv = true -> lo <> [] -> (i < length pts)%nat ->
  let x := nth i pts [] in
  let c := nth i (classificate cv lo (densities_at (map f lo) pts)) 0%Z in
  exists a, (a < length lo)%nat /\ c = nth a lo 0%Z /\ In c lo /\
    (forall l, In l lo -> f l x <= f c x) /\
    (forall b, (b < a)%nat -> f (nth b lo 0%Z) x < f c x).
Proof.
  intros Hcv Hne Hi x c.
  set (dl := map (fun j => f j x) lo).
  assert (Hdl : length dl = length lo) by (unfold dl; apply map_length).
  assert (Hdne : dl <> []) by (destruct lo; [contradiction | discriminate]).
  destruct (argmax_is_max dl Hdne) as [Ha [Hmax Hfirst]]. rewrite Hdl in Ha.
  assert (Hc : c = nth (argmax dl) lo 0%Z).
  { unfold c. rewrite (classificate_spec cv lo _ i) by (unfold densities_at; rewrite map_length; exact Hi).
    unfold densities_at. rewrite (nth_map_lt _ pts i [] []) by exact Hi. fold x. rewrite map_map. fold dl.
    rewrite class_is_label_when_repaired by exact Hcv. apply nth_indep. exact Ha. }
  assert (Hnth : forall j, (j < length lo)%nat -> nth j dl 0 = f (nth j lo 0%Z) x).
  { intros j Hj. unfold dl. rewrite (nth_map_lt _ lo j 0%Z 0) by exact Hj. reflexivity. }
  exists (argmax dl). split; [exact Ha|]. split; [exact Hc|]. split; [rewrite Hc; apply nth_In; exact Ha|]. split.
  - intros l Hl. destruct (In_nth lo l 0%Z Hl) as [j [Hj Ej]]. rewrite <- Ej, Hc. rewrite <- !Hnth by assumption.
    apply Hmax. rewrite Hdl. exact Hj.
  - intros b Hb. rewrite Hc. rewrite <- !Hnth by lia. apply Hfirst. exact Hb.
Qed.

Definition labels_upto (k : nat) : list Z := map Z.of_nat (seq 0 k).

Lemma labels_upto_In k j : In j (labels_upto k) <-> exists i, (i < k)%nat /\ j = Z.of_nat i.
Proof.
  unfold labels_upto. rewrite in_map_iff. split.
  - intros [i [E Hi]]. apply in_seq in Hi. exists i. split; [lia | auto].
  - intros [i [Hi E]]. exists i. split; [auto | apply in_seq; lia].
Qed.

(* with get_labels() = 0..k-1: class_numbers[j] IS the number of learning samples of class j *)
Lemma class_numbers_index k r j : In j (labels_upto k) -> nth (Z.to_nat j) (class_numbers (labels_upto k) r) 0%Z = count_label j r.
Proof.
  intro H. apply labels_upto_In in H. destruct H as [i [Hi ->]]. rewrite Nat2Z.id. unfold class_numbers, labels_upto.
  rewrite map_map. rewrite (nth_map_lt _ (seq 0 k) i 0%nat 0%Z) by (rewrite seq_length; exact Hi). rewrite seq_nth by exact Hi. reflexivity.
Qed.

(* the signed training set of classificator j: every learning sample, +1 for class j, the weight -min(1, n_j / (N - n_j)) for the others *)
Theorem ovo_training_data k r j : In j (labels_upto k) ->
  ovo_piece (labels_upto k) r j =
  map (fun s => (fst s, if Z.eqb (snd s) j then 1
                        else Qc_max (- (1)) (- (Q2Qc (inject_Z (count_label j r)) /
                                               Q2Qc (inject_Z (sum_Z (class_numbers (labels_upto k) r) - count_label j r)))))) r.
Proof. intro H. unfold ovo_piece, ovo_weight. rewrite (class_numbers_index k r j H). reflexivity. Qed.

(* one_vs_others: the assigned class is the label c in 0..k-1 whose signed-trained classificator is maximal at the sample (first maximum) *)
Theorem class_is_trained_argmax_ovo cv (deo : list (row * Qc) -> row -> Qc) k r pts i :
  cv_labels cv = true -> (0 < k)%nat -> (i < length pts)%nat ->
  let lo := labels_upto k in
  let x := nth i pts [] in
  let c := nth i (classify_ovo cv deo lo r pts) 0%Z in
  exists a, (a < k)%nat /\ c = Z.of_nat a /\
    (forall l, In l lo -> deo (ovo_piece lo r l) x <= deo (ovo_piece lo r c) x) /\
    (forall b, (b < a)%nat -> deo (ovo_piece lo r (Z.of_nat b)) x < deo (ovo_piece lo r c) x).
Proof.
  intros Hcv Hk Hi lo x c.
  assert (Hne : lo <> []) by (unfold lo, labels_upto; destruct k; [lia | discriminate]).
  assert (Hlen : length lo = k) by (unfold lo, labels_upto; rewrite map_length, seq_length; reflexivity).
  assert (Hnth : forall b, (b < k)%nat -> nth b lo 0%Z = Z.of_nat b).
  { intros b Hb. unfold lo, labels_upto. rewrite (nth_map_lt _ (seq 0 k) b 0%nat 0%Z) by (rewrite seq_length; exact Hb). rewrite seq_nth by exact Hb. reflexivity. }
  destruct (class_is_family_argmax cv (fun j => deo (ovo_piece lo r j)) lo pts i Hcv Hne Hi) as [a [Ha [Hc [_ [Hmax Hfirst]]]]].
  rewrite Hlen in Ha. fold x in Hmax, Hfirst. change (nth i (classificate cv lo (densities_at (map (fun j => deo (ovo_piece lo r j)) lo) pts)) 0%Z) with c in *.
  exists a. split; [exact Ha|]. split; [rewrite Hc; apply Hnth; exact Ha|]. split; [exact Hmax|].
  intros b Hb. rewrite <- (Hnth b) by lia. apply Hfirst. exact Hb.
Qed.

(* the Python does not raise for labels 0..k-1 with at least two non-empty classes *)
Theorem ovo_does_not_raise k r : (forall j, In j (labels_upto k) -> (count_label j r < sum_Z (class_numbers (labels_upto k) r))%Z) ->
  split_one_vs_others (labels_upto k) r = Some (map (ovo_piece (labels_upto k) r) (labels_upto k)).
Proof.
  intro H. unfold split_one_vs_others. assert (ovo_raises (labels_upto k) r = false) as ->; [|reflexivity].
  unfold ovo_raises. apply not_true_is_false. intro E. apply existsb_exists in E. destruct E as [j [Hj E]].
  pose proof (class_numbers_index k r j Hj) as Ec. specialize (H j Hj). pose proof Hj as Hj'. apply labels_upto_In in Hj'. destruct Hj' as [i [Hi ->]].
  rewrite Ec in E. assert (Lk : length (labels_upto k) = k) by (unfold labels_upto; rewrite map_length, seq_length; reflexivity).
  rewrite Lk, Nat2Z.id in E.
  apply orb_true_iff in E. destruct E as [E|E]; [apply orb_true_iff in E; destruct E as [E|E]|].
  - apply Z.ltb_lt in E. lia.
  - apply Nat.leb_le in E. lia.
  - apply Z.eqb_eq in E. lia.
Qed.
