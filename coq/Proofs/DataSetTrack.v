(* C18 (deepening round) — tracking a scaled data set through ANY history, including changes of its membership.
   InvB n d R fv cv: the rows of d are the affine image (per dimension: * fv + cv) of a reference list R of (sample, label) pairs and
   _scaling_factor represents fv (no zero entry).  Unlike Inv of DataSetRevert.v nothing is said about _original_min and R may be any
   list (a split piece, what is left after remove_samples, a concatenation ...).
   Part A: the non-overriding scaling operations keep InvB (R unchanged).
   Part B: revert_scaling of the code as found under InvB: the result is R shifted by (_original_min - column minimum of R) - exact
           characterisation of the known finding C18-revert-on-subset; it restores R iff the two minima agree.
   Part C: every sample-moving operation keeps InvB with the SAME operation applied to the reference list (naturality). *)
From Coq Require Import ZArith List QArith Qcanon Bool Lia Arith Permutation.
From SG Require Import Base.QcUtil Model.DataSet Proofs.DataSetVec Proofs.DataSetScale Proofs.DataSetRevert Proofs.DataSetMove.
Import ListNotations.
Open Scope Qc_scope.

Record InvB (n : nat) (d : ds) (R : list sample) (fv cv : row) : Prop := mkInvB {
  b_dim : ddim d = n;
  b_rows : rows d = map_rows (aff fv cv) R;
  b_len : Forall (fun s => length (fst s) = n) R;
  b_fv : length fv = n;
  b_cv : length cv = n;
  b_nz : Forall (fun q => q <> 0) fv;
  b_scaled : scaled d = true;
  b_fac : fac_vec n (sfactor d) = Some fv;
  b_fz : fac_has_zero (sfactor d) = false }.

Lemma inv_invb n d R fv cv : Inv n d R fv cv -> InvB n d R fv cv.
Proof. intros [Id Ir Ine Il If Ic Inz Is Io Ifac Ifz]. constructor; assumption. Qed.

Lemma invb_inv n d R fv cv : InvB n d R fv cv -> R <> [] -> omin d = data_min (map fst R) -> Inv n d R fv cv.
Proof. intros [Id Ir Il If Ic Inz Is Ifac Ifz] Hne Ho. constructor; assumption. Qed.

Lemma invb_not_empty n d R fv cv : InvB n d R fv cv -> R <> [] -> is_empty d = false.
Proof. intros I Hne. unfold is_empty. rewrite (b_rows _ _ _ _ _ I). destruct R; [contradiction | reflexivity]. Qed.

Lemma invb_rows_length n d R fv cv : InvB n d R fv cv -> length (rows d) = length R.
Proof. intro I. rewrite (b_rows _ _ _ _ _ I). unfold map_rows. apply map_length. Qed.

Lemma invb_values_len n d R fv cv : InvB n d R fv cv -> rows_len n (values d).
Proof.
  intro I. unfold rows_len, values. rewrite (b_rows _ _ _ _ _ I), values_map_rows, !Forall_map.
  eapply Forall_impl; [|exact (b_len _ _ _ _ _ I)]. intros s Hs. cbn beta in *.
  apply aff_length; [exact (b_fv _ _ _ _ _ I) | exact (b_cv _ _ _ _ _ I) | exact Hs].
Qed.

(* ------------------------------------------------------------------ Part A: non-overriding scaling operations *)
Lemma bstep_factor n d R fv cv a : InvB n d R fv cv -> R <> [] -> arg_fits n a = true -> arg_nonzero a ->
  exists d', scale_factor a false d = (d', false) /\ InvB n d' R (vmul fv (expand n a)) (vmul cv (expand n a)) /\
             omin d' = omin d /\ omax d' = omax d.
Proof.
  intros I Hne Ha Hz. pose proof (expand_length n a Ha) as Le.
  unfold scale_factor. rewrite (b_scaled _ _ _ _ _ I). cbn [negb orb].
  unfold dim. rewrite (b_dim _ _ _ _ _ I), Ha. cbn [negb]. rewrite (invb_not_empty _ _ _ _ _ I Hne).
  eexists. split; [reflexivity|]. split; [|split; reflexivity].
  destruct I as [Id Ir Il If Ic Inz Is Ifac Ifz].
  constructor; cbn [ddim rows scaled omin sfactor]; auto.
  - rewrite Ir, map_rows_compose. apply map_rows_ext_in. intros s Hs.
    pose proof (rows_in_len n R s Il Hs) as Ls.
    apply (row_ext _ _ n).
    + apply vmul_length; [apply aff_length|]; assumption.
    + apply aff_length; try apply vmul_length; assumption.
    + intros j Hj. rewrite (nth_vmul n), !(nth_aff n), !(nth_vmul n); auto; try (apply vmul_length; assumption).
      ring. apply aff_length; assumption.
  - apply vmul_length; assumption.
  - apply vmul_length; assumption.
  - apply (vmul_nonzero n); auto. apply expand_nonzero. exact Hz.
  - apply fac_mul_vec; assumption.
  - apply fac_mul_nozero; auto. intro E. rewrite E in Ifac. discriminate.
Qed.

Lemma bstep_shift n d R fv cv a : InvB n d R fv cv -> R <> [] -> arg_fits n a = true ->
  exists d', shift_value a false d = (d', false) /\ InvB n d' R fv (vadd cv (expand n a)) /\
             omin d' = omin d /\ omax d' = omax d.
Proof.
  intros I Hne Ha. pose proof (expand_length n a Ha) as Le.
  unfold shift_value. rewrite (b_scaled _ _ _ _ _ I). cbn [negb orb].
  unfold dim. rewrite (b_dim _ _ _ _ _ I), Ha. cbn [negb]. rewrite (invb_not_empty _ _ _ _ _ I Hne).
  eexists. split; [reflexivity|]. split; [|split; reflexivity].
  destruct I as [Id Ir Il If Ic Inz Is Ifac Ifz].
  constructor; cbn [ddim rows scaled omin sfactor]; auto.
  - rewrite Ir, map_rows_compose. apply map_rows_ext_in. intros s Hs.
    pose proof (rows_in_len n R s Il Hs) as Ls.
    apply (row_ext _ _ n).
    + apply vadd_length; [apply aff_length|]; assumption.
    + apply aff_length; try apply vadd_length; assumption.
    + intros j Hj. rewrite (nth_vadd n), !(nth_aff n), (nth_vadd n); auto; try (apply vadd_length; assumption).
      ring. apply aff_length; assumption.
  - apply vadd_length; assumption.
Qed.

Lemma bstep_range n d R fv cv lo hi : InvB n d R fv cv -> R <> [] -> lo < hi ->
  exists d' sc mi mn mx, scale_range lo hi false d = (d', false) /\ InvB n d' R (vmul fv sc) (vadd (vmul cv sc) mi) /\
    data_min (values d) = Some mn /\ data_max (values d) = Some mx /\ sc = mm_scale lo hi mn mx /\ mi = mm_min lo mn sc /\
    length sc = n /\ length mi = n /\ omin d' = omin d /\ omax d' = omax d.
Proof.
  intros I Hne0 Hlh.
  assert (Hne : values d <> []).
  { unfold values. rewrite (b_rows _ _ _ _ _ I). destruct R; [contradiction | discriminate]. }
  destruct (scaler_lengths n lo hi (values d) Hne (invb_values_len _ _ _ _ _ I)) as [mn [mx [Emn [Emx [Lsc [Lmi Lmn]]]]]].
  set (sc := mm_scale lo hi mn mx) in *. set (mi := mm_min lo mn sc) in *.
  unfold scale_range. pose proof Hlh as Hb. apply Qc_ltb_lt in Hb. rewrite Hb. cbn [negb]. rewrite Emn, Emx.
  rewrite (b_scaled _ _ _ _ _ I). cbn [negb orb]. fold sc. fold mi.
  eexists. exists sc, mi, mn, mx. split; [reflexivity|].
  split; [|repeat (split; [reflexivity || assumption|]); reflexivity].
  destruct I as [Id Ir Il If Ic Inz Is Ifac Ifz].
  constructor; cbn [ddim rows scaled omin sfactor]; auto.
  - rewrite Ir, map_rows_compose. apply map_rows_ext_in. intros s Hs.
    pose proof (rows_in_len n R s Il Hs) as Ls.
    apply (row_ext _ _ n).
    + apply transform_length; try assumption. apply aff_length; assumption.
    + apply aff_length; [apply vmul_length | apply vadd_length; [apply vmul_length|] | ]; assumption.
    + intros j Hj. rewrite (nth_transform n); auto; [|apply aff_length; assumption].
      rewrite !(nth_aff n), (nth_vadd n), !(nth_vmul n); auto;
        try (apply vmul_length; assumption); try (apply vadd_length; [apply vmul_length|]; assumption).
      ring.
  - apply vmul_length; assumption.
  - apply vadd_length; [apply vmul_length|]; assumption.
  - apply (vmul_nonzero n); auto. apply mm_scale_nonzero. exact Hlh.
  - change (fac_vec n (fac_mul (sfactor d) (AArr sc)) = Some (vmul fv (expand n (AArr sc)))).
    apply fac_mul_vec; [exact Ifac | simpl; apply Nat.eqb_eq; exact Lsc].
  - apply fac_mul_nozero; auto; [simpl; apply mm_scale_nonzero; exact Hlh | intro E; rewrite E in Ifac; discriminate].
Qed.

(* ------------------------------------------------------------------ Part B: revert_scaling (code as found) on a tracked set *)
Lemma data_min_len n (vs : list row) m : vs <> [] -> rows_len n vs -> data_min vs = Some m -> length m = n.
Proof.
  intros Hne Hl E. destruct vs as [|r0 rs]; [contradiction|]. inversion Hl; subst. simpl in E. inversion E; subst.
  apply colmin_length; auto.
Qed.

Theorem revert_under_invb n d R fv cv om mR : InvB n d R fv cv -> R <> [] ->
  omin d = Some om -> length om = n -> data_min (map fst R) = Some mR ->
  exists d3, revert_scaling d = (d3, false) /\ rows d3 = map_rows (fun r => vadd r (vsub om mR)) R /\ cleared d3.
Proof.
  intros I Hne Hom Lom EmR.
  pose proof (b_fac _ _ _ _ _ I) as Ifac. pose proof (b_fz _ _ _ _ _ I) as Ifz.
  assert (Hnn : sfactor d <> FNone) by (intro E; rewrite E in Ifac; discriminate).
  destruct (bstep_factor n d R fv cv (fac_inv (sfactor d)) I Hne (fac_inv_fits n _ _ Ifac) (fac_inv_nonzero _ Ifz Hnn))
    as [d1 [E1 [I1 [Om1 _]]]].
  set (e := expand n (fac_inv (sfactor d))) in *.
  assert (Le : length e = n) by (apply expand_length; apply (fac_inv_fits n _ _ Ifac)).
  assert (Hone : forall j, (j < n)%nat -> nth j (vmul fv e) 0 = 1).
  { intros j Hj. rewrite (nth_vmul n); auto; [|exact (b_fv _ _ _ _ _ I)]. apply (fac_inv_pointwise n _ _ j Ifac Ifz Hj). }
  destruct R as [|[r0 l0] rest]; [contradiction|].
  set (fv1 := vmul fv e) in *. set (cv1 := vmul cv e) in *.
  assert (Lf1 : length fv1 = n) by exact (b_fv _ _ _ _ _ I1).
  assert (Lc1 : length cv1 = n) by exact (b_cv _ _ _ _ _ I1).
  pose proof (b_len _ _ _ _ _ I1) as Il.
  pose proof (Forall_inv Il) as Lr0. pose proof (Forall_inv_tail Il) as Lrest. cbn [fst] in Lr0.
  set (rs := map fst rest).
  assert (Lrs : rows_len n rs) by (unfold rows_len, rs; rewrite Forall_map; exact Lrest).
  assert (Ev1 : values d1 = aff fv1 cv1 r0 :: map (aff fv1 cv1) rs).
  { unfold values. rewrite (b_rows _ _ _ _ _ I1), values_map_rows. reflexivity. }
  set (mn := colmin (aff fv1 cv1 r0) (map (aff fv1 cv1) rs)).
  assert (EmR' : mR = colmin r0 rs) by (cbn [map fst data_min] in EmR; fold rs in EmR; inversion EmR; reflexivity).
  assert (Emn : data_min (values d1) = Some mn) by (rewrite Ev1; reflexivity).
  assert (Eom : omin d1 = Some om) by (rewrite Om1; exact Hom).
  assert (Lmn : length mn = n).
  { apply colmin_length; [apply aff_length; auto|]. unfold rows_len. rewrite Forall_map.
    eapply Forall_impl; [|exact Lrs]. intros r Hr. apply aff_length; auto. }
  assert (LmR : length mR = n) by (rewrite EmR'; apply colmin_length; auto).
  assert (Hmn : forall j, (j < n)%nat -> nth j mn 0 = nth j mR 0 + nth j cv1 0).
  { intros j Hj. unfold mn. rewrite EmR'. rewrite (nth_colmin n), (nth_colmin n); auto.
    - rewrite (nth_aff n); auto.
      rewrite (col_map j (aff fv1 cv1) (fun y => y * nth j fv1 0 + nth j cv1 0)).
      + rewrite lmin_affine; [rewrite (Hone j Hj); ring | rewrite (Hone j Hj); discriminate].
      + intros r Hr. apply (nth_aff n); auto. unfold rows_len in Lrs. rewrite Forall_forall in Lrs. apply Lrs. exact Hr.
    - apply aff_length; auto.
    - unfold rows_len. rewrite Forall_map. eapply Forall_impl; [|exact Lrs]. intros r Hr. apply aff_length; auto. }
  set (sh := vneg (vsub mn om)).
  assert (Lsh : length sh = n) by (apply vneg_length; apply vsub_length; assumption).
  destruct (bstep_shift n d1 _ fv1 cv1 (AArr sh) I1 Hne) as [d2 [E2 [I2 _]]]; [simpl; apply Nat.eqb_eq; exact Lsh|].
  exists (clear_scaling d2). split.
  - unfold revert_scaling. destruct (sfactor d) as [|q|l] eqn:F; [contradiction| |];
      rewrite Ifz; fold e; rewrite E1, Emn, Eom; fold sh; rewrite E2; reflexivity.
  - split; [|unfold cleared, clear_scaling; cbn; repeat split; reflexivity].
    cbn [clear_scaling rows]. rewrite (b_rows _ _ _ _ _ I2). apply map_rows_ext_in.
    intros s Hs. pose proof (rows_in_len n _ s Il Hs) as Ls. cbn [expand].
    apply (row_ext _ _ n); [apply aff_length; auto; apply vadd_length; assumption | apply vadd_length; [exact Ls | apply vsub_length; assumption]|].
    intros j Hj. rewrite (nth_aff n), !(nth_vadd n), (nth_vsub n); auto; try (apply vadd_length; assumption); try (apply vsub_length; assumption).
    unfold sh. rewrite (nth_vneg n), (nth_vsub n), (Hmn j Hj), (Hone j Hj); auto; [ring | apply vsub_length; assumption].
Qed.

(* ... it restores the reference list exactly iff the stored _original_min is the column minimum of the reference list *)
Corollary revert_invb_restores_iff n d R fv cv om mR : InvB n d R fv cv -> R <> [] ->
  omin d = Some om -> length om = n -> data_min (map fst R) = Some mR ->
  exists d3, revert_scaling d = (d3, false) /\ cleared d3 /\ (rows d3 = R <-> om = mR).
Proof.
  intros I Hne Hom Lom EmR.
  destruct (revert_under_invb n d R fv cv om mR I Hne Hom Lom EmR) as [d3 [E3 [R3 C3]]].
  exists d3. split; [exact E3|]. split; [exact C3|].
  pose proof (b_len _ _ _ _ _ I) as Il.
  assert (LmR : length mR = n).
  { apply (data_min_len n (map fst R)); [destruct R; [contradiction | discriminate] | | exact EmR].
    unfold rows_len. rewrite Forall_map. exact Il. }
  rewrite R3. split.
  - intro E. destruct R as [|[r0 l0] rest]; [contradiction|]. cbn [map_rows map fst snd] in E. injection E as E0 Erest.
    pose proof (Forall_inv Il) as Lr0. cbn [fst] in Lr0.
    apply (row_ext _ _ n); [exact Lom | exact LmR|]. intros j Hj.
    assert (Ej : nth j (vadd r0 (vsub om mR)) 0 = nth j r0 0) by (rewrite E0; reflexivity).
    rewrite (nth_vadd n), (nth_vsub n) in Ej; auto; [|apply vsub_length; assumption].
    assert (X : nth j om 0 - nth j mR 0 = 0).
    { transitivity ((nth j r0 0 + (nth j om 0 - nth j mR 0)) - nth j r0 0); [ring | rewrite Ej; ring]. }
    transitivity (nth j mR 0 + (nth j om 0 - nth j mR 0)); [ring | rewrite X; ring].
  - intro E. subst mR. apply map_rows_id. intros s Hs. pose proof (rows_in_len n _ s Il Hs) as Ls.
    apply (row_ext _ _ n); [apply vadd_length; [exact Ls | apply vsub_length; assumption] | exact Ls|].
    intros j Hj. rewrite (nth_vadd n), (nth_vsub n); auto; [ring | apply vsub_length; assumption].
Qed.

(* ------------------------------------------------------------------ Part C: sample-moving operations are natural *)
(* g acts on lists of m (sample, label) pairs by positions and labels only: it commutes with every map on the samples, and it only
   hands out samples that were there *)
Definition natural_on (m : nat) (g : list sample -> list sample) : Prop :=
  (forall f l, length l = m -> g (map_rows f l) = map_rows f (g l)) /\
  (forall l, length l = m -> incl (map fst (g l)) (map fst l)).

Lemma map_rows_length f l : length (map_rows f l) = length l.
Proof. unfold map_rows. apply map_length. Qed.

Lemma invb_move n d d' R fv cv g : InvB n d R fv cv -> natural_on (length R) g ->
  ddim d' = n -> rows d' = g (rows d) -> scaled d' = scaled d -> sfactor d' = sfactor d -> InvB n d' (g R) fv cv.
Proof.
  intros I [N1 N2] Hd Hr Hs Hf. destruct I as [Id Ir Il If Ic Inz Is Ifac Ifz].
  constructor; auto; try congruence.
  - rewrite Hr, Ir. apply N1. reflexivity.
  - rewrite Forall_forall. intros s Hs'. assert (Hin : In (fst s) (map fst R)) by (apply (N2 R eq_refl); apply in_map; exact Hs').
    apply in_map_iff in Hin. destruct Hin as [s0 [E0 H0]]. rewrite <- E0. rewrite Forall_forall in Il. apply Il. exact H0.
Qed.

(* a derived data set made by _update_internal(DataSet(g(rows))) *)
Lemma invb_with_attrs n d R fv cv g : InvB n d R fv cv -> natural_on (length R) g -> g R <> [] ->
  InvB n (with_attrs d (g (rows d))) (g R) fv cv.
Proof.
  intros I N Hne. apply (invb_move n d _ R fv cv g I N); try reflexivity.
  cbn [with_attrs ddim]. destruct N as [N1 N2]. rewrite (b_rows _ _ _ _ _ I), (N1 _ R eq_refl).
  destruct (g R) as [|[r0 l0] rest] eqn:E; [contradiction|]. cbn [map_rows map dim_of fst].
  apply aff_length; [exact (b_fv _ _ _ _ _ I) | exact (b_cv _ _ _ _ _ I)|].
  assert (Hin : In r0 (map fst R)) by (apply (N2 R eq_refl); rewrite E; left; reflexivity).
  apply in_map_iff in Hin. destruct Hin as [s0 [E0 H0]]. rewrite <- E0.
  pose proof (b_len _ _ _ _ _ I) as Il. rewrite Forall_forall in Il. apply Il. exact H0.
Qed.

Lemma invb_set_rows n d R fv cv g : InvB n d R fv cv -> natural_on (length R) g -> InvB n (set_rows d (g (rows d))) (g R) fv cv.
Proof. intros I N. apply (invb_move n d _ R fv cv g I N); try reflexivity. exact (b_dim _ _ _ _ _ I). Qed.

(* --- the natural operations *)
Lemma incl_map_fst_sub (a l : list sample) : incl a l -> incl (map fst a) (map fst l).
Proof. intros H x Hx. apply in_map_iff in Hx. destruct Hx as [s [E Hs]]. subst. apply in_map. apply H. exact Hs. Qed.

Lemma firstn_incl' {A} k (l : list A) : incl (firstn k l) l.
Proof. intros x Hx. rewrite <- (firstn_skipn k l). apply in_or_app. left. exact Hx. Qed.
Lemma skipn_incl' {A} k (l : list A) : incl (skipn k l) l.
Proof. intros x Hx. rewrite <- (firstn_skipn k l). apply in_or_app. right. exact Hx. Qed.

Lemma natural_firstn m k : natural_on m (firstn k).
Proof. split; [intros f l _; unfold map_rows; apply firstn_map | intros l _; apply incl_map_fst_sub, firstn_incl']. Qed.
Lemma natural_skipn m k : natural_on m (skipn k).
Proof. split; [intros f l _; unfold map_rows; apply skipn_map | intros l _; apply incl_map_fst_sub, skipn_incl']. Qed.

Lemma filter_map_rows (p : Z -> bool) f l :
  filter (fun s => p (snd s)) (map_rows f l) = map_rows f (filter (fun s => p (snd s)) l).
Proof.
  induction l as [|[r lb] l IH]; [reflexivity|]. cbn [map_rows map filter fst snd].
  destruct (p lb); [cbn [map]; f_equal; exact IH | exact IH].
Qed.
Lemma natural_filter_label m (p : Z -> bool) : natural_on m (filter (fun s => p (snd s))).
Proof. split; [intros f l _; apply filter_map_rows | intros l _; apply incl_map_fst_sub; intros x Hx; apply filter_In in Hx; tauto]. Qed.

(* picking samples by valid positions: shuffle, remove_samples (both parts) *)
Definition pick (ix : list nat) (l : list sample) : list sample := map (fun i => nth i l dflt_sample) ix.
Lemma natural_pick m ix : Forall (fun i => (i < m)%nat) ix -> natural_on m (pick ix).
Proof.
  intro Hix. split.
  - intros f l Hl. unfold pick, map_rows. rewrite map_map. apply map_ext_in. intros i Hi.
    rewrite Forall_forall in Hix. pose proof (Hix i Hi) as Hlt.
    rewrite (nth_indep (map (fun s : sample => (f (fst s), snd s)) l) dflt_sample ((fun s : sample => (f (fst s), snd s)) dflt_sample)).
    + exact (map_nth (fun s : sample => (f (fst s), snd s)) l dflt_sample i).
    + rewrite map_length. rewrite Hl. exact Hlt.
  - intros l Hl x Hx. apply in_map_iff in Hx. destruct Hx as [s [E Hs]]. rewrite <- E. apply in_map.
    unfold pick in Hs. apply in_map_iff in Hs. destruct Hs as [i [E2 Hi]]. rewrite <- E2. apply nth_In.
    rewrite Forall_forall in Hix. rewrite Hl. apply Hix. exact Hi.
Qed.

(* the swap loop of move_boundaries_to_front *)
Lemma upd_map {A B} (F : A -> B) i v l : upd i (F v) (map F l) = map F (upd i v l).
Proof. revert i. induction l as [|h t IH]; intros [|i]; cbn [upd map]; try reflexivity. f_equal. apply IH. Qed.
Lemma swap_map {A B} (F : A -> B) (da : A) (db : B) i x l : (i < length l)%nat -> (x < length l)%nat ->
  swap db i x (map F l) = map F (swap da i x l).
Proof.
  intros Hi Hx. unfold swap.
  rewrite (nth_indep (map F l) db (F da)) by (rewrite map_length; exact Hx). rewrite map_nth.
  rewrite (nth_indep (map F l) db (F da)) by (rewrite map_length; exact Hi). rewrite map_nth.
  rewrite !upd_map. reflexivity.
Qed.
Lemma swap_loop_map {A B} (F : A -> B) (da : A) (db : B) idx : forall i l,
  (i + length idx <= length l)%nat -> Forall (fun x => (x < length l)%nat) idx ->
  swap_loop db i idx (map F l) = map F (swap_loop da i idx l).
Proof.
  induction idx as [|x r IH]; intros i l Hi Hf; [reflexivity|]. cbn [swap_loop]. cbn [length] in Hi. inversion Hf; subst.
  rewrite (swap_map F da db) by lia. apply IH.
  - rewrite swap_length. lia.
  - rewrite swap_length. assumption.
Qed.
Lemma natural_swap_loop m idx : idx_valid idx m = true -> natural_on m (swap_loop dflt_sample 0 idx).
Proof.
  intro Hv. unfold idx_valid in Hv. apply andb_true_iff in Hv. destruct Hv as [H1 H2].
  apply Nat.leb_le in H2. rewrite forallb_forall in H1.
  assert (Hf : Forall (fun x => (x < m)%nat) idx) by (rewrite Forall_forall; intros x Hx; apply Nat.ltb_lt; apply H1; exact Hx).
  split.
  - intros f l Hl. unfold map_rows. apply (swap_loop_map _ dflt_sample dflt_sample); rewrite Hl; [lia | exact Hf].
  - intros l Hl. apply incl_map_fst_sub. intros x Hx.
    eapply Permutation_in; [apply (swap_loop_perm dflt_sample idx 0 l); rewrite Hl; [lia | exact Hf] | exact Hx].
Qed.

(* --- the operations of the model in this form *)
Lemma split_pieces_form p d : split_pieces p d =
  (with_attrs d (firstn (split_index p (length (rows d))) (rows d)), with_attrs d (skipn (split_index p (length (rows d))) (rows d))).
Proof. reflexivity. Qed.

Definition label_part (j : Z) (l : list sample) : list sample := filter (fun s => Z.eqb (snd s) j) l.
Lemma split_labels_form d : split_labels d = map (fun j => with_attrs d (label_part j (rows d))) (distinct_labels (rows d)).
Proof. unfold split_labels. apply map_ext. intro j. f_equal. apply relabel_filter. Qed.
Lemma split_without_labels_form d : split_without_labels d =
  (with_attrs d (label_part (-1)%Z (rows d)), with_attrs d (filter (fun s => Z.leb 0 (snd s)) (rows d))).
Proof. unfold split_without_labels. f_equal. f_equal. apply relabel_filter. Qed.
Lemma distinct_labels_map_rows f l : distinct_labels (map_rows f l) = distinct_labels l.
Proof. unfold distinct_labels. rewrite labels_map_rows. reflexivity. Qed.

Lemma shuffle_form perm d d' : shuffle_with perm d = (d', false) ->
  rows d' = pick perm (rows d) /\ Forall (fun i => (i < length (rows d))%nat) perm /\
  ddim d' = ddim d /\ scaled d' = scaled d /\ sfactor d' = sfactor d /\ omin d' = omin d.
Proof.
  unfold shuffle_with. destruct (is_perm perm (length (rows d))) eqn:E; [|intro H; inversion H].
  intro H. inversion H; subst; clear H. cbn. split; [reflexivity|]. split; [|repeat split; reflexivity].
  apply is_perm_permutation in E. rewrite Forall_forall. intros i Hi.
  assert (Hin : In i (seq 0 (length (rows d)))) by (eapply Permutation_in; [exact E | exact Hi]).
  apply in_seq in Hin. lia.
Qed.

Lemma mbf_form idx d d' : move_boundaries_to_front idx d = (d', false) ->
  d' = set_rows d (swap_loop dflt_sample 0 idx (rows d)) /\ idx_valid idx (length (rows d)) = true.
Proof.
  unfold move_boundaries_to_front. destruct (idx_valid idx (length (rows d))) eqn:E; [|intro H; inversion H].
  intro H. inversion H; subst. split; reflexivity.
Qed.

(* remove_samples: both parts are picks at valid positions *)
Lemma remove_samples_form v idx d d' r : remove_samples v idx d = (d', Some r) ->
  exists ni keep, Forall (fun i => (i < length (rows d))%nat) ni /\ Forall (fun i => (i < length (rows d))%nat) keep /\
    d' = set_rows d (pick keep (rows d)) /\ (idx <> [] -> r = with_attrs d (pick ni (rows d))).
Proof.
  unfold remove_samples. destruct (idx_rejected idx (length (rows d))) eqn:Er; [intro H; inversion H|].
  pose proof (idx_accepted_range _ _ Er) as Hrange.
  set (ni := if v_dedup v then dedup (map Z.to_nat idx) else map Z.to_nat idx).
  set (keep := filter (fun i => negb (memn i ni)) (seq 0 (length (rows d)))).
  intro H. exists ni, keep.
  assert (Hni : Forall (fun i => (i < length (rows d))%nat) ni).
  { assert (H0 : Forall (fun i => (i < length (rows d))%nat) (map Z.to_nat idx)).
    { rewrite Forall_map. eapply Forall_impl; [|exact Hrange]. intros z Hz. cbn beta in *. lia. }
    unfold ni. destruct (v_dedup v); [|exact H0]. rewrite Forall_forall in *. intros i Hi. apply H0. apply dedup_In. exact Hi. }
  assert (Hkeep : Forall (fun i => (i < length (rows d))%nat) keep).
  { unfold keep. rewrite Forall_forall. intros i Hi. apply filter_In in Hi. destruct Hi as [Hi _]. apply in_seq in Hi. lia. }
  split; [exact Hni|]. split; [exact Hkeep|].
  inversion H as [[Hd Hr]]. split; [reflexivity|]. intro Hne.
  destruct ni as [|i0 [|i1 nr]] eqn:En.
  - exfalso. destruct idx as [|z zs]; [contradiction|]. unfold ni in En. destruct (v_dedup v); discriminate.
  - inversion Hr. reflexivity.
  - destruct (self_scaling_ok v d); inversion Hr. reflexivity.
Qed.
