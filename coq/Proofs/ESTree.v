(* Point assignment get_points_in_areas_recursive: on a tree whose inner nodes are covered by their children every
   point of the root box is assigned exactly once, to a leaf of the tree that contains it. *)
From Coq Require Import ZArith List Bool QArith Qcanon Lia.
From SG Require Import Base.QcUtil Model.CombiScheme Model.ExtendSplit Proofs.ESGeom.
Import ListNotations.

Definition point_eq_dec : forall p q : point, {p = q} + {p <> q} := list_eq_dec Qc_eq_dec.
Definition occ (p : point) (l : list point) : nat := count_occ point_eq_dec l p.
Definition assigned (res : list (box * list point)) : list point := flat_map snd res.
Definition inb (b : box) (p : point) : bool := contains (fst b) (snd b) p.

(* induction principle for the nested tree type *)
Fixpoint tree_induction (P : tree -> Prop) (H : forall s e cs, Forall P cs -> P (Node s e cs)) (t : tree) : P t :=
  match t with
  | Node s e cs =>
    H s e cs ((fix go (cs : list tree) : Forall P cs :=
                match cs with
                | [] => Forall_nil P
                | c :: r => Forall_cons c (tree_induction P H c) (go r)
                end) cs)
  end.

(* every inner node is covered by its children (points of dimension d) *)
Fixpoint covered (d : nat) (t : tree) : Prop :=
  match t with
  | Node s e cs =>
    (cs = [] \/ forall p, length p = d -> contains s e p = true -> exists c, In c cs /\ inb (t_box c) p = true) /\
    (fix all (cs : list tree) : Prop := match cs with [] => True | c :: r => covered d c /\ all r end) cs
  end.

Lemma covered_children d s e cs : covered d (Node s e cs) -> Forall (covered d) cs.
Proof.
  simpl. intros [_ H]. induction cs as [|c r IH]; constructor; [apply H | apply IH; apply H].
Qed.

Lemma covered_cover d s e cs : covered d (Node s e cs) -> cs <> [] ->
  forall p, length p = d -> contains s e p = true -> exists c, In c cs /\ inb (t_box c) p = true.
Proof. simpl. intros [[E | H] _] N; [contradiction | exact H]. Qed.

(* the inner loop of get_points_in_areas_recursive as a top-level function *)
Fixpoint assign_children (cs : list tree) (pts : list point) : list (box * list point) :=
  match cs with
  | [] => []
  | c :: r =>
    let cont := filter (inb (t_box c)) pts in
    let rest := filter (fun p => negb (inb (t_box c) p)) pts in
    assign_points c cont ++ (match rest with [] => [] | _ => assign_children r rest end)
  end.

Lemma assign_points_unfold s e cs pts :
  assign_points (Node s e cs) pts = match cs with [] => [((s, e), pts)] | _ => assign_children cs pts end.
Proof.
  destruct cs as [|c r]; [reflexivity|].
  change (assign_points (Node s e (c :: r)) pts) with
    ((fix go (cs : list tree) (pts : list point) {struct cs} : list (box * list point) :=
       match cs with
       | [] => []
       | c :: r =>
         let cont := filter (contains (fst (t_box c)) (snd (t_box c))) pts in
         let rest := filter (fun p => negb (contains (fst (t_box c)) (snd (t_box c)) p)) pts in
         assign_points c cont ++ (match rest with [] => [] | _ => go r rest end)
       end) (c :: r) pts).
  generalize (c :: r). intro l. revert pts. induction l as [|c' r' IH]; intro pts; [reflexivity|].
  cbn [assign_children]. unfold inb. f_equal.
Qed.

Lemma occ_app p a b : occ p (a ++ b) = (occ p a + occ p b)%nat.
Proof. apply count_occ_app. Qed.

Lemma occ_filter_split (f : point -> bool) p l :
  (occ p (filter f l) + occ p (filter (fun q => negb (f q)) l) = occ p l)%nat.
Proof.
  unfold occ. induction l as [|q l IH]; [reflexivity|]. simpl. destruct (f q); simpl; destruct (point_eq_dec q p); lia.
Qed.

Record assign_ok (t : tree) (pts : list point) (res : list (box * list point)) : Prop := mkAOK {
  ao_count : forall p, occ p (assigned res) = occ p pts;
  ao_leaf : forall b ps, In (b, ps) res -> In b (tree_leaves t);
  ao_in : forall b ps p, In (b, ps) res -> In p ps -> inb b p = true /\ In p pts
}.

Lemma tree_leaves_unfold s e cs :
  tree_leaves (Node s e cs) = match cs with [] => [(s, e)] | _ => flat_map tree_leaves cs end.
Proof. destruct cs; reflexivity. Qed.

Theorem assign_points_ok d t : covered d t ->
  forall pts, (forall p, In p pts -> length p = d /\ inb (t_box t) p = true) -> assign_ok t pts (assign_points t pts).
Proof.
  induction t as [s e cs IH] using tree_induction. intros C pts HP.
  rewrite assign_points_unfold. destruct cs as [|c0 r0].
  - constructor.
    + intro p. unfold assigned. simpl. rewrite app_nil_r. reflexivity.
    + intros b ps [E | []]. injection E as E1 E2. subst. left. reflexivity.
    + intros b ps p [E | []] Hp. injection E as E1 E2. subst. split; [apply HP; assumption | assumption].
  - pose proof (covered_children _ _ _ _ C) as CC.
    pose proof (covered_cover _ _ _ _ C ltac:(discriminate)) as CV.
    assert (G : forall cs, Forall (fun t => covered d t -> forall pts,
                     (forall p, In p pts -> length p = d /\ inb (t_box t) p = true) -> assign_ok t pts (assign_points t pts)) cs ->
                Forall (covered d) cs -> forall pts,
                (forall p, In p pts -> length p = d /\ exists c, In c cs /\ inb (t_box c) p = true) ->
                (forall p, occ p (assigned (assign_children cs pts)) = occ p pts) /\
                (forall b ps, In (b, ps) (assign_children cs pts) -> In b (flat_map tree_leaves cs)) /\
                (forall b ps p, In (b, ps) (assign_children cs pts) -> In p ps -> inb b p = true /\ In p pts)).
    { clear. induction cs as [|c r IHr]; intros HI HC pts HP.
      - split; [|split].
        + intro p. simpl. destruct pts as [|q pts]; [reflexivity|]. destruct (HP q (or_introl eq_refl)) as [_ [c [[] _]]].
        + intros b ps [].
        + intros b ps p [].
      - inversion HI as [|? ? HIc HIr]; subst. inversion HC as [|? ? HCc HCr]; subst.
        cbn [assign_children].
        set (cont := filter (inb (t_box c)) pts). set (rest := filter (fun p => negb (inb (t_box c) p)) pts).
        assert (Pc : forall p, In p cont -> length p = d /\ inb (t_box c) p = true).
        { intros p Hp. apply filter_In in Hp. destruct Hp as [Hp1 Hp2]. split; [apply HP; assumption | assumption]. }
        destruct (HIc HCc cont Pc) as [A1 A2 A3].
        assert (Pr : forall p, In p rest -> length p = d /\ exists c', In c' r /\ inb (t_box c') p = true).
        { intros p Hp. apply filter_In in Hp. destruct Hp as [Hp1 Hp2]. destruct (HP p Hp1) as [L [c' [[E | Hc'] Hin]]].
          - subst c'. rewrite Hin in Hp2. discriminate.
          - split; [assumption | exists c'; split; assumption]. }
        destruct (IHr HIr HCr rest Pr) as [B1 [B2 B3]].
        assert (Erest : forall p, occ p (assigned (match rest with [] => [] | _ => assign_children r rest end)) = occ p rest).
        { intro p. destruct rest as [|q rest'] eqn:Er; [reflexivity | apply B1]. }
        split; [|split].
        + intro p. unfold assigned. rewrite flat_map_app. fold (assigned (assign_points c cont)).
          rewrite occ_app, A1. fold (assigned (match rest with [] => [] | _ => assign_children r rest end)).
          rewrite Erest. apply occ_filter_split.
        + intros b ps Hin. apply in_app_or in Hin. cbn [flat_map]. apply in_or_app. destruct Hin as [Hin | Hin].
          * left. eapply A2. eassumption.
          * right. destruct rest; [destruct Hin | eapply B2; eassumption].
        + intros b ps p Hin Hp. apply in_app_or in Hin. destruct Hin as [Hin | Hin].
          * destruct (A3 b ps p Hin Hp) as [X Y]. split; [assumption|]. apply filter_In in Y. apply Y.
          * destruct rest eqn:Er; [destruct Hin|]. destruct (B3 b ps p Hin Hp) as [X Y]. split; [assumption|].
            rewrite <- Er in Y. apply filter_In in Y. apply Y. }
    destruct (G (c0 :: r0) IH CC pts) as [G1 [G2 G3]].
    { intros p Hp. destruct (HP p Hp) as [L Hin]. split; [assumption | apply CV; assumption]. }
    constructor; [exact G1 | intros b ps Hin; rewrite tree_leaves_unfold; eapply G2; eassumption | exact G3].
Qed.

(* ---------------------------------------------------------------- closed boxes: boolean and propositional *)

Lemma contains_inbox s e p : length p = length s -> length s = length e -> contains s e p = true -> inbox p s e.
Proof.
  revert e p. induction s as [|a s IH]; intros [|b e] [|x p] L1 L2 H; simpl in *; try discriminate; try exact I.
  apply andb_true_iff in H. destruct H as [H H3]. apply andb_true_iff in H. destruct H as [H1 H2].
  split; [split; apply Qc_leb_le; assumption | apply IH; [lia | lia | assumption]].
Qed.

Lemma inbox_contains s e p : inbox p s e -> contains s e p = true.
Proof.
  revert e p. induction s as [|a s IH]; intros [|b e] [|x p] H; simpl in *; try contradiction; try reflexivity.
  destruct H as [[H1 H2] H]. apply andb_true_iff. split; [apply andb_true_iff; split; apply Qc_leb_le; assumption | apply IH; assumption].
Qed.

Lemma Wf_lengths d b : Wf d b -> length (fst b) = d /\ length (snd b) = d.
Proof. intros [W L]. split; [assumption | rewrite <- (wfbox_length _ _ W); assumption]. Qed.

Lemma covered_intro d s e cs :
  (cs = [] \/ forall p, length p = d -> contains s e p = true -> exists c, In c cs /\ inb (t_box c) p = true) ->
  Forall (covered d) cs -> covered d (Node s e cs).
Proof.
  intros H F. simpl. split; [exact H|]. clear H. induction F as [|c r Hc _ IH]; [exact I | split; assumption].
Qed.

Lemma covered_leaf d s e : covered d (Node s e []).
Proof. apply covered_intro; [left; reflexivity | constructor]. Qed.

(* a flat tree over a partition of the root box is covered (split_single_dim: root_cell.children is the container) *)
Lemma covered_flat d a b (objs : list area) : Wf d (a, b) -> Parts d (a, b) (map abox objs) ->
  covered d (Node a b (map leaf_of objs)).
Proof.
  intros W P. apply covered_intro.
  - right. intros p Lp Hc. destruct (Wf_lengths _ _ W) as [La Lb]. cbn [fst snd] in La, Lb.
    assert (Hin : In_box p (a, b)) by (unfold In_box; cbn [fst snd]; apply contains_inbox; [congruence | congruence | assumption]).
    destruct (pt_cover _ _ _ P p Hin) as [q [Hq Hpq]]. apply in_map_iff in Hq. destruct Hq as [x [Ex Hx]]. subst q.
    exists (leaf_of x). split; [apply in_map; assumption | apply inbox_contains; exact Hpq].
  - apply Forall_forall. intros c Hc. apply in_map_iff in Hc. destruct Hc as [x [Ex _]]. subst c. apply covered_leaf.
Qed.

(* ---------------------------------------------------------------- tree_add at a leaf *)

Fixpoint upd_nth (i : nat) (f : tree -> tree) (cs : list tree) : list tree :=
  match cs with
  | [] => []
  | c :: cs' => match i with O => f c :: cs' | S i' => c :: upd_nth i' f cs' end
  end.

Lemma tree_add_cons i r ch s e cs : tree_add (i :: r) ch (Node s e cs) = Node s e (upd_nth i (tree_add r ch) cs).
Proof.
  cbn [tree_add]. f_equal. revert i. induction cs as [|c cs IH]; intros [|i]; simpl; try reflexivity. f_equal. apply IH.
Qed.

Lemma tree_add_nil ch s e cs : tree_add [] ch (Node s e cs) = Node s e (cs ++ ch).
Proof. reflexivity. Qed.

Lemma upd_nth_split c1 c c2 f : upd_nth (length c1) f (c1 ++ c :: c2) = c1 ++ f c :: c2.
Proof. induction c1 as [|y c1 IH]; simpl; [reflexivity | rewrite IH; reflexivity]. Qed.

Lemma nth_mid {A} (c1 : list A) x c2 : nth_error (c1 ++ x :: c2) (length c1) = Some x.
Proof. rewrite nth_error_app2 by lia. rewrite Nat.sub_diag. reflexivity. Qed.

Lemma nth_other {A} (c1 : list A) x y c2 j : j <> length c1 -> nth_error (c1 ++ x :: c2) j = nth_error (c1 ++ y :: c2) j.
Proof.
  intro N. destruct (Nat.lt_ge_cases j (length c1)) as [Lt | Ge].
  - rewrite !nth_error_app1 by assumption. reflexivity.
  - rewrite !nth_error_app2 by lia. destruct (j - length c1)%nat eqn:Ed; [lia | reflexivity].
Qed.

Lemma tree_add_box p ch t : t_box (tree_add p ch t) = t_box t.
Proof. destruct t as [s e cs]. destruct p as [|i r]; [reflexivity | rewrite tree_add_cons; reflexivity]. Qed.

Lemma subtree_at_app p q t :
  subtree_at (p ++ q) t = match subtree_at p t with Some t' => subtree_at q t' | None => None end.
Proof.
  revert t. induction p as [|i r IH]; intro t; [reflexivity|]. simpl.
  destruct (nth_error (t_children t) i) as [c|]; [apply IH | reflexivity].
Qed.

Lemma tree_add_at_leaf p ch : forall t s e, subtree_at p t = Some (Node s e []) ->
  forall q, subtree_at (p ++ q) (tree_add p ch t) = subtree_at q (Node s e ch).
Proof.
  induction p as [|i r IH]; intros t s e H q.
  - simpl in H. injection H as H. subst t. reflexivity.
  - destruct t as [s0 e0 cs]. simpl in H. destruct (nth_error cs i) as [c|] eqn:Hn; [|discriminate].
    destruct (nth_error_split _ _ Hn) as [c1 [c2 [Ec Li]]]. subst cs. rewrite tree_add_cons. rewrite <- Li, upd_nth_split.
    cbn [app subtree_at t_children]. rewrite nth_mid. apply IH. assumption.
Qed.

Lemma tree_add_other p ch : forall t s e, subtree_at p t = Some (Node s e []) ->
  forall q l, q <> p -> subtree_at q t = Some (Node (fst (t_box l)) (snd (t_box l)) []) ->
  subtree_at q (tree_add p ch t) = subtree_at q t.
Proof.
  induction p as [|i r IH]; intros t s e H q l Nq Hq.
  - simpl in H. injection H as H. subst t. destruct q as [|j q]; [contradiction|]. simpl in Hq. destruct j; discriminate.
  - destruct t as [s0 e0 cs]. simpl in H. destruct (nth_error cs i) as [c|] eqn:Hn; [|discriminate].
    destruct (nth_error_split _ _ Hn) as [c1 [c2 [Ec Li]]]. subst cs. rewrite tree_add_cons. rewrite <- Li, upd_nth_split.
    destruct q as [|j q].
    + simpl in Hq. injection Hq as E1 E2 E3. destruct c1; discriminate.
    + cbn [subtree_at t_children] in *. destruct (Nat.eq_dec j (length c1)) as [Ej | Nj].
      * subst j. rewrite !nth_mid. rewrite nth_mid in Hq. apply (IH c s e H q l); [congruence | assumption].
      * rewrite (nth_other c1 (tree_add r ch c) c c2 j Nj). reflexivity.
Qed.

Lemma tree_add_covered d p ch : forall t s e, subtree_at p t = Some (Node s e []) ->
  covered d t -> Forall (covered d) ch ->
  (forall pt, length pt = d -> contains s e pt = true -> exists c, In c ch /\ inb (t_box c) pt = true) ->
  covered d (tree_add p ch t).
Proof.
  induction p as [|i r IH]; intros t s e H C Cch Cov.
  - simpl in H. injection H as H. subst t. rewrite tree_add_nil. simpl app. apply covered_intro; [right; exact Cov | exact Cch].
  - destruct t as [s0 e0 cs]. simpl in H. destruct (nth_error cs i) as [c|] eqn:Hn; [|discriminate].
    destruct (nth_error_split _ _ Hn) as [c1 [c2 [Ec Li]]]. subst cs. rewrite tree_add_cons. rewrite <- Li, upd_nth_split.
    pose proof (covered_children _ _ _ _ C) as CC. rewrite Forall_app in CC. destruct CC as [CC1 CC2].
    inversion CC2 as [|? ? Cc CC3]; subst.
    apply covered_intro.
    + right. intros pt Lp Hc. destruct (covered_cover _ _ _ _ C ltac:(destruct c1; discriminate) pt Lp Hc) as [c' [Hc' Hin]].
      apply in_app_or in Hc'. destruct Hc' as [Hc' | [Hc' | Hc']].
      * exists c'. split; [apply in_or_app; left; assumption | assumption].
      * subst c'. exists (tree_add r ch c). split; [apply in_or_app; right; left; reflexivity|].
        rewrite tree_add_box. assumption.
      * exists c'. split; [apply in_or_app; right; right; assumption | assumption].
    + apply Forall_app. split; [assumption|]. constructor; [|assumption]. eapply IH; eassumption.
Qed.

Lemma flat_map_leaves_app (a b : list tree) : flat_map tree_leaves (a ++ b) = flat_map tree_leaves a ++ flat_map tree_leaves b.
Proof. apply flat_map_app. Qed.

Lemma tree_add_leaves p ch : ch <> [] -> forall t s e, subtree_at p t = Some (Node s e []) ->
  exists l1 l2, tree_leaves t = l1 ++ (s, e) :: l2 /\ tree_leaves (tree_add p ch t) = l1 ++ flat_map tree_leaves ch ++ l2.
Proof.
  intro Nch. induction p as [|i r IH]; intros t s e H.
  - simpl in H. injection H as H. subst t. exists [], []. split; [reflexivity|]. rewrite tree_add_nil. simpl app.
    rewrite tree_leaves_unfold, app_nil_r. destruct ch; [contradiction | reflexivity].
  - destruct t as [s0 e0 cs]. simpl in H. destruct (nth_error cs i) as [c|] eqn:Hn; [|discriminate].
    destruct (nth_error_split _ _ Hn) as [c1 [c2 [Ec Li]]]. subst cs. rewrite tree_add_cons. rewrite <- Li, upd_nth_split.
    destruct (IH c s e H) as [l1 [l2 [E1 E2]]].
    exists (flat_map tree_leaves c1 ++ l1), (l2 ++ flat_map tree_leaves c2).
    rewrite !tree_leaves_unfold. split.
    + destruct (c1 ++ c :: c2) eqn:Ed; [destruct c1; discriminate|]. rewrite <- Ed.
      rewrite flat_map_leaves_app. cbn [flat_map]. rewrite E1, <- !app_assoc. reflexivity.
    + destruct (c1 ++ tree_add r ch c :: c2) eqn:Ed; [destruct c1; discriminate|]. rewrite <- Ed.
      rewrite flat_map_leaves_app. cbn [flat_map]. rewrite E2, <- !app_assoc. reflexivity.
Qed.

(* ---------------------------------------------------------------- the tree along a history (split_single_dim off) *)
From Coq Require Import Permutation.
From SG Require Import Proofs.ESInv.

Definition lmap {B} (f : area -> B) (objs : list area) : list B := map f (filter alive objs).
Definition apaths := lmap a_path.

Lemma lboxes_lmap objs : lboxes objs = lmap abox objs.
Proof. reflexivity. Qed.

Lemma lmap_app {B} (f : area -> B) l1 l2 : lmap f (l1 ++ l2) = lmap f l1 ++ lmap f l2.
Proof. unfold lmap. rewrite filter_app, map_app. reflexivity. Qed.

Lemma lmap_cons_alive {B} (f : area -> B) x l : a_dead x = false -> lmap f (x :: l) = f x :: lmap f l.
Proof. intro H. unfold lmap. simpl. unfold alive at 1. rewrite H. reflexivity. Qed.

Lemma lmap_cons_dead {B} (f : area -> B) x l : a_dead x = true -> lmap f (x :: l) = lmap f l.
Proof. intro H. unfold lmap. simpl. unfold alive at 1. rewrite H. reflexivity. Qed.

Lemma lmap_map {B} (f : area -> B) (g : area -> area) l :
  (forall y, f (g y) = f y /\ a_dead (g y) = a_dead y) -> lmap f (map g l) = lmap f l.
Proof.
  intro H. unfold lmap. induction l as [|y l IH]; [reflexivity|].
  destruct (H y) as [H1 H2]. assert (Ha : alive (g y) = alive y) by (unfold alive; rewrite H2; reflexivity).
  simpl. rewrite Ha. destruct (alive y); simpl; [rewrite H1; f_equal; exact IH | exact IH].
Qed.

Lemma lmap_alive {B} (f : area -> B) l : all_alive l -> lmap f l = map f l.
Proof.
  unfold lmap. induction l as [|y l IH]; intro H; [reflexivity|].
  inversion H as [|? ? Hy Hl]; subst. assert (Ha : alive y = true) by (unfold alive; rewrite Hy; reflexivity).
  simpl. rewrite Ha. simpl. f_equal. apply IH. exact Hl.
Qed.

Lemma lmap_In {B} (f : area -> B) l y : In y l -> a_dead y = false -> In (f y) (lmap f l).
Proof.
  intros H A. unfold lmap. apply in_map. apply filter_In. split; [assumption | unfold alive; rewrite A; reflexivity].
Qed.

Record TInv (st : state) : Prop := mkTInv {
  ti_cov : covered (st_dim st) (st_tree st);
  ti_leaf : forall x, In x (st_objs st) -> a_dead x = false -> subtree_at (a_path x) (st_tree st) = Some (leaf_of x);
  ti_nodup : NoDup (apaths (st_objs st));
  ti_perm : Permutation (tree_leaves (st_tree st)) (lboxes (st_objs st));
  ti_root : t_box (st_tree st) = (st_a st, st_b st)
}.

Lemma NoDup_app_intro {A} (a b : list A) : NoDup a -> NoDup b -> (forall x, In x a -> In x b -> False) -> NoDup (a ++ b).
Proof.
  intros Ha Hb D. induction Ha as [|x a Hx Ha IH]; [exact Hb|]. simpl. constructor.
  - intro H. apply in_app_or in H. destruct H as [H | H]; [contradiction | apply (D x); [left; reflexivity | assumption]].
  - apply IH. intros y Hy1 Hy2. apply (D y); [right; assumption | assumption].
Qed.

Lemma nth_error_mapi {A B} (f : nat -> A -> B) k l i y :
  nth_error (mapi f k l) i = Some y -> exists a, nth_error l i = Some a /\ y = f (k + i)%nat a.
Proof.
  revert k i. induction l as [|a l IH]; intros k [|i] H; simpl in H; try discriminate.
  - injection H as H. exists a. split; [reflexivity | rewrite Nat.add_0_r; symmetry; assumption].
  - destruct (IH (S k) i H) as [a' [Ha Ey]]. exists a'. split; [assumption|]. rewrite Ey. f_equal. lia.
Qed.

Lemma split_all_nonempty s e : split_all s e <> [].
Proof.
  revert e. induction s as [|a s IH]; intros [|b e]; simpl; try discriminate.
  specialize (IH e). destruct (split_all s e); [contradiction | discriminate].
Qed.

Lemma mapi_nonempty {A B} (f : nat -> A -> B) k l : l <> [] -> mapi f k l <> [].
Proof. destruct l; [contradiction | discriminate]. Qed.

Lemma refine_area_nonsingle st x dec news ch inc :
  st_single st = false -> refine_area st x dec = (news, ch, inc) ->
  ch = map leaf_of news /\ news <> [] /\ (forall i y, nth_error news i = Some y -> a_path y = a_path x ++ [i]).
Proof.
  intros Hs E. unfold refine_area in E. rewrite Hs in E. destruct (decide (st_auto st) (fst dec) x).
  - injection E as E1 E2 E3. subst. split; [reflexivity | split; [discriminate|]].
    intros [|[|i]] y H; simpl in H; try discriminate. injection H as H. subst y. reflexivity.
  - injection E as E1 E2 E3. subst. split; [reflexivity | split].
    + apply mapi_nonempty. apply split_all_nonempty.
    + intros i y H. unfold split_area_arbitrary_dim in H. apply nth_error_mapi in H. destruct H as [b [_ Ey]]. subst y. reflexivity.
Qed.

Lemma NoDup_paths p (news : list area) :
  (forall i y, nth_error news i = Some y -> a_path y = p ++ [i]) -> NoDup (map a_path news).
Proof.
  intro H. apply NoDup_nth_error. intros i j Li E. rewrite map_length in Li.
  rewrite !nth_error_map in E.
  destruct (nth_error news i) as [y|] eqn:Ei; [|apply nth_error_None in Ei; lia].
  destruct (nth_error news j) as [z|] eqn:Ej; [|discriminate]. simpl in E. injection E as E.
  rewrite (H i y Ei), (H j z Ej) in E. apply app_inv_head in E. congruence.
Qed.

Lemma do_refinement_tree st i decs x :
  Inv st -> TInv st -> st_single st = false -> nth_error (st_objs st) i = Some x -> a_dead x = false ->
  TInv (fst (do_refinement st i decs)).
Proof.
  intros [IP IC IL] [TC TL TN TP TR] Hs Hn Hx. unfold do_refinement. rewrite Hn.
  destruct (refine_area st x (lookup (abox x) decs (false, []))) as [[news ch] inc] eqn:E.
  destruct (nth_error_split _ _ Hn) as [l1 [l2 [El Li]]].
  assert (Lx : subtree_at (a_path x) (st_tree st) = Some (leaf_of x)) by (apply TL; [eapply nth_error_In; eassumption | assumption]).
  rewrite El in IP, IC, TN, TP. unfold apaths in TN. rewrite lboxes_app, (lboxes_cons_alive _ _ Hx) in IP, TP.
  rewrite lmap_app, (lmap_cons_alive _ _ _ Hx) in TN.
  assert (Wx : Wf (st_dim st) (abox x)).
  { pose proof (pt_wf _ _ _ IP) as W. rewrite Forall_app in W. destruct W as [_ W]. inversion W; assumption. }
  assert (Cx : coarse_ok (st_lmin st) (st_lmax st) x).
  { rewrite Forall_app in IC. destruct IC as [_ IC]. inversion IC; assumption. }
  destruct (refine_area_spec _ _ _ _ _ _ E Wx (proj1 Cx) Hx) as [RP [RA _]].
  destruct (refine_area_nonsingle _ _ _ _ _ _ Hs E) as [Ech [Nn Pn]].
  set (g := if inc then update_area else (fun y : area => y)).
  assert (Eg : (if inc then map update_area (st_objs st) else st_objs st) = map g (st_objs st)).
  { unfold g. destruct inc; [reflexivity | symmetry; apply map_id]. }
  assert (Gp : forall y, abox (g y) = abox y /\ a_dead (g y) = a_dead y) by (intro y; unfold g; destruct inc; split; reflexivity).
  assert (Gq : forall y, a_path (g y) = a_path y /\ a_dead (g y) = a_dead y) by (intro y; unfold g; destruct inc; split; reflexivity).
  rewrite Hs. cbn [andb fst]. rewrite Eg.
  assert (Ek : kill_nth i (map g (st_objs st)) = map g l1 ++ kill (g x) :: map g l2).
  { rewrite El, map_app. cbn [map]. rewrite <- Li, <- (map_length g l1). apply kill_nth_split. }
  rewrite Ek.
  assert (Nch : ch <> []) by (rewrite Ech; destruct news; [contradiction | discriminate]).
  assert (Lch : flat_map tree_leaves ch = map abox news).
  { rewrite Ech. clear. induction news as [|y l IH]; [reflexivity|]. simpl. rewrite IH. reflexivity. }
  constructor; cbn [st_dim st_tree st_objs st_a st_b]; [| | | |rewrite tree_add_box; exact TR].
  - (* covered *)
    eapply tree_add_covered; [exact Lx | exact TC | |].
    + rewrite Ech. apply Forall_forall. intros c Hc. apply in_map_iff in Hc. destruct Hc as [y [Ey _]]. subst c. apply covered_leaf.
    + intros pt Lp Hc. destruct (Wf_lengths _ _ Wx) as [La Lb]. cbn [abox fst snd] in La, Lb.
      assert (Hin : In_box pt (abox x)) by (unfold In_box; cbn [abox fst snd]; apply contains_inbox; [congruence | congruence | assumption]).
      destruct (pt_cover _ _ _ RP pt Hin) as [q [Hq Hpq]]. apply in_map_iff in Hq. destruct Hq as [y [Ey Hy]]. subst q.
      exists (leaf_of y). split; [rewrite Ech; apply in_map; assumption | apply inbox_contains; exact Hpq].
  - (* leaves of the live objects *)
    intros y Hy Ay.
    assert (Old : forall y0, (In y0 l1 \/ In y0 l2) -> a_dead y0 = false ->
                  subtree_at (a_path (g y0)) (tree_add (a_path x) ch (st_tree st)) = Some (leaf_of (g y0))).
    { intros y0 Hin A0.
      assert (In0 : In y0 (st_objs st)) by (rewrite El; apply in_or_app; destruct Hin; [left | right; right]; assumption).
      assert (Np : a_path y0 <> a_path x).
      { intro Eq. apply NoDup_remove_2 in TN. apply TN. apply in_or_app. rewrite <- Eq.
        destruct Hin as [Hin | Hin]; [left | right]; apply (lmap_In a_path); assumption. }
      destruct (Gq y0) as [Gq1 _]. destruct (Gp y0) as [Gp1 _]. rewrite Gq1.
      replace (leaf_of (g y0)) with (leaf_of y0) by (unfold leaf_of; unfold abox in Gp1; injection Gp1 as B1 B2; rewrite B1, B2; reflexivity).
      rewrite (tree_add_other (a_path x) ch (st_tree st) _ _ Lx (a_path y0) (leaf_of y0) Np (TL y0 In0 A0)).
      apply TL; assumption. }
    apply in_app_or in Hy. destruct Hy as [Hy | Hy].
    + apply in_app_or in Hy. destruct Hy as [Hy | [Hy | Hy]].
      * apply in_map_iff in Hy. destruct Hy as [y0 [Ey H0]]. subst y. apply Old; [left; assumption | rewrite <- (proj2 (Gp y0)); assumption].
      * subst y. simpl in Ay. discriminate.
      * apply in_map_iff in Hy. destruct Hy as [y0 [Ey H0]]. subst y. apply Old; [right; assumption | rewrite <- (proj2 (Gp y0)); assumption].
    + destruct (In_nth_error _ _ Hy) as [k Hk]. rewrite (Pn k y Hk).
      rewrite (tree_add_at_leaf (a_path x) ch (st_tree st) _ _ Lx [k]). cbn [subtree_at t_children].
      rewrite Ech, (map_nth_error leaf_of k news Hk). reflexivity.
  - (* distinct paths *)
    unfold apaths. rewrite !lmap_app, (lmap_cons_dead a_path (kill (g x)) _ eq_refl), !(lmap_map a_path g) by exact Gq.
    rewrite (lmap_alive a_path news RA). apply NoDup_app_intro.
    + eapply NoDup_remove_1. exact TN.
    + apply (NoDup_paths (a_path x)). exact Pn.
    + intros q Hq1 Hq2. apply in_map_iff in Hq2. destruct Hq2 as [y [Ey Hy]]. destruct (In_nth_error _ _ Hy) as [k Hk].
      rewrite (Pn k y Hk) in Ey. subst q.
      assert (exists y0, In y0 (st_objs st) /\ a_dead y0 = false /\ a_path y0 = a_path x ++ [k]) as [y0 [I0 [A0 P0]]].
      { assert (Aux : forall l, In (a_path x ++ [k]) (lmap a_path l) ->
                        exists y0, In y0 l /\ a_dead y0 = false /\ a_path y0 = a_path x ++ [k]).
        { intros l Hl. unfold lmap in Hl. apply in_map_iff in Hl. destruct Hl as [y0 [P0 F0]].
          apply filter_In in F0. destruct F0 as [I0 A0]. exists y0. split; [assumption | split; [|assumption]].
          unfold alive in A0. destruct (a_dead y0); [discriminate | reflexivity]. }
        apply in_app_or in Hq1. destruct Hq1 as [Hq1 | Hq1]; destruct (Aux _ Hq1) as [y0 [I0 [A0 P0]]]; exists y0;
          (split; [rewrite El; apply in_or_app | split; assumption]).
        - left. assumption.
        - right. right. assumption. }
      pose proof (TL y0 I0 A0) as T0. rewrite P0, subtree_at_app, Lx in T0. simpl in T0. destruct k; discriminate.
  - (* leaves of the tree = live boxes *)
    destruct (tree_add_leaves (a_path x) ch Nch (st_tree st) _ _ Lx) as [t1 [t2 [E1 E2]]].
    rewrite E2, Lch. rewrite E1 in TP.
    rewrite !lboxes_app, (lboxes_cons_dead (kill (g x)) _ eq_refl), !(lboxes_map g) by exact Gp. rewrite (lboxes_alive news RA).
    change (a_start x, a_end x) with (abox x) in TP. apply Permutation_app_inv in TP.
    eapply Permutation_trans; [apply Permutation_app_swap_app|].
    eapply Permutation_trans; [|apply Permutation_app_comm]. apply Permutation_app_head. exact TP.
Qed.

(* ---------------------------------------------------------------- rounds, evaluation, initial state *)

Lemma round_body_T st0 n tol decs acc i : (i < n)%nat -> st_single st0 = false ->
  J st0 n i (fst acc) -> TInv (fst acc) -> TInv (fst (round_body tol decs acc i)).
Proof.
  intros Li Hs [HI [HF [HL HA]]] HT. destruct acc as [s lg]. cbn [fst] in *. unfold round_body.
  destruct (nth_error (st_objs s) i) as [x|] eqn:Hn; [|exact HT].
  destruct (Qc_leb tol (a_benefit x)); [|exact HT].
  assert (Hs' : st_single s = false) by (destruct HF as [_ [_ [_ [_ [F5 _]]]]]; congruence).
  pose proof (do_refinement_tree s i decs x HI HT Hs' Hn (HA i x (le_n _) Li Hn)) as R.
  destruct (do_refinement s i decs) as [s' l']. exact R.
Qed.

Lemma round_loop_JT st0 n tol decs k : st_single st0 = false -> forall i acc, (i + k = n)%nat ->
  J st0 n i (fst acc) -> TInv (fst acc) ->
  J st0 n n (fst (fold_left (round_body tol decs) (seq i k) acc)) /\
  TInv (fst (fold_left (round_body tol decs) (seq i k) acc)).
Proof.
  intro Hs. induction k as [|k IH]; intros i acc E HJ HT; simpl.
  - assert (Ei : i = n) by lia. subst i. split; assumption.
  - apply IH; [lia | apply round_body_J; [lia | exact HJ] | apply (round_body_T st0 n); [lia | exact Hs | exact HJ | exact HT]].
Qed.

Lemma In_firstn_aux {A} k (l : list A) x : In x (firstn k l) -> In x l.
Proof. intro H. rewrite <- (firstn_skipn k l). apply in_or_app. left. exact H. Qed.
Lemma In_skipn_aux {A} k (l : list A) x : In x (skipn k l) -> In x l.
Proof. intro H. rewrite <- (firstn_skipn k l). apply in_or_app. right. exact H. Qed.

Lemma lmap_filter_alive {B} (f : area -> B) l : lmap f (filter alive l) = lmap f l.
Proof. unfold lmap. rewrite filter_alive_idem. reflexivity. Qed.

Lemma refine_round_tree st decs : Inv st -> all_alive (st_objs st) -> st_single st = false -> TInv st ->
  TInv (fst (refine_round st decs)).
Proof.
  intros HI HA Hs HT. unfold refine_round.
  change (fun (acc : state * list (box * (bool * list nat))) (i : nat) =>
            let '(s, lg) := acc in
            match nth_error (st_objs s) i with
            | Some x => if Qc_leb (st_bmax st * margin)%Qc (a_benefit x)
                        then let '(s', l') := do_refinement s i decs in (s', lg ++ l') else (s, lg)
            | None => (s, lg)
            end) with (round_body (st_bmax st * margin)%Qc decs).
  pose proof (round_loop_JT st (length (st_objs st)) (st_bmax st * margin)%Qc decs (length (st_objs st)) Hs 0%nat (st, [])
                            eq_refl) as L.
  destruct (fold_left (round_body (st_bmax st * margin)%Qc decs) (seq 0 (length (st_objs st))) (st, [])) as [st1 log].
  cbn [fst] in *.
  destruct L as [[_ [HF _]] [TC TL TN TP TR]].
  { split; [assumption | split; [apply same_frame_refl | split; [lia|]]].
    intros j y _ _ Hy. unfold all_alive in HA. rewrite Forall_forall in HA. apply HA. eapply nth_error_In. eassumption. }
  { exact HT. }
  change (fun x : area => negb (a_dead x)) with alive.
  constructor; cbn [st_dim st_tree st_objs st_a st_b].
  - exact TC.
  - intros x Hx Ax. apply filter_In in Hx. apply TL; [apply Hx | exact Ax].
  - unfold apaths. rewrite lmap_filter_alive. exact TN.
  - rewrite lboxes_lmap, lmap_filter_alive. exact TP.
  - exact TR.
Qed.

Lemma evaluate_tree st bens : TInv st -> TInv (fst (evaluate st bens)).
Proof.
  intros [TC TL TN TP TR]. unfold evaluate. cbn [fst].
  set (h := fun x : area => with_benefit (register (st_cp st) x) (benefit_of (lookup (abox x) bens 0))).
  assert (E : forall B (f : area -> B), (forall y, f (h y) = f y) ->
              lmap f (firstn (st_start_new st) (st_objs st) ++ map h (skipn (st_start_new st) (st_objs st))) = lmap f (st_objs st)).
  { intros B f Hf. rewrite lmap_app, (lmap_map f h) by (intro y; split; [apply Hf | reflexivity]).
    rewrite <- lmap_app, firstn_skipn. reflexivity. }
  constructor; cbn [st_dim st_tree st_objs st_a st_b].
  - exact TC.
  - intros x Hx Ax. apply in_app_or in Hx. destruct Hx as [Hx | Hx].
    + apply TL; [eapply (In_firstn_aux _ _ _ Hx) | exact Ax].
    + apply in_map_iff in Hx. destruct Hx as [z [Ez Hz]]. subst x.
      change (a_path (h z)) with (a_path z). change (leaf_of (h z)) with (leaf_of z).
      apply TL; [eapply (In_skipn_aux _ _ _ Hz) | exact Ax].
  - unfold apaths. rewrite (E _ a_path) by (intro y; reflexivity). exact TN.
  - rewrite lboxes_lmap, (E _ abox) by (intro y; reflexivity). exact TP.
  - exact TR.
Qed.

Lemma flat_leaves (l : list area) : flat_map tree_leaves (map leaf_of l) = map abox l.
Proof. induction l as [|y l IH]; [reflexivity|]. simpl. rewrite IH. reflexivity. Qed.

Lemma tree_leaves_flat a b (objs : list area) : objs <> [] -> tree_leaves (Node a b (map leaf_of objs)) = map abox objs.
Proof.
  intro N. rewrite tree_leaves_unfold. destruct (map leaf_of objs) eqn:E.
  - destruct objs; [contradiction | discriminate].
  - rewrite <- E. apply flat_leaves.
Qed.

Lemma init_tree dim version nrbe lmin lmax base auto a b :
  wfbox a b -> length a = dim -> lmin <= lmax ->
  TInv (init_state dim version nrbe lmin lmax base auto false a b).
Proof.
  intros W L Hl. destruct (init_inv dim version nrbe lmin lmax base auto false a b W L Hl) as [[IP _ _] [AA _]].
  unfold init_state in *. cbn [st_dim st_a st_b st_objs] in *.
  set (root := mkArea a b 0 0 (nrbe + 1) 0%Qc [] [] false) in *.
  set (objs := split_area_arbitrary_dim root) in *.
  rewrite (lboxes_alive _ AA) in IP.
  assert (Pn : forall i y, nth_error objs i = Some y -> a_path y = [] ++ [i]).
  { intros i y H. unfold objs, split_area_arbitrary_dim in H. apply nth_error_mapi in H. destruct H as [q [_ Ey]]. subst y. reflexivity. }
  assert (Nn : objs <> []) by (apply mapi_nonempty; apply split_all_nonempty).
  constructor; cbn [st_dim st_tree st_objs st_a st_b].
  - apply covered_flat; [split; assumption | exact IP].
  - intros x Hx _. destruct (In_nth_error _ _ Hx) as [k Hk]. rewrite (Pn k x Hk). cbn [app subtree_at t_children].
    rewrite (map_nth_error leaf_of k objs Hk). reflexivity.
  - unfold apaths. rewrite (lmap_alive a_path objs AA). apply (NoDup_paths []). exact Pn.
  - rewrite (lboxes_alive _ AA), (tree_leaves_flat a b objs Nn). apply Permutation_refl.
  - reflexivity.
Qed.

Definition TGood (d : nat) (a b : list Qc) (lmin : Z) (st : state) : Prop :=
  Good d a b lmin st /\ (st_single st = false -> TInv st).

Lemma step_tgood d a b lmin st inp : TGood d a b lmin st -> TGood d a b lmin (step st inp).
Proof.
  intros [G T]. split; [apply step_good; exact G|]. destruct G as [HI [HA R]]. unfold step. intro Hs.
  destruct (refine_round_inv st (si_decs inp) HI HA) as [I1 [F1 A1]].
  assert (Hs0 : st_single st = false).
  { destruct (evaluate_inv _ (si_bens inp) I1 A1) as [_ [F2 _]].
    destruct F1 as [_ [_ [_ [_ [F15 _]]]]]. destruct F2 as [_ [_ [_ [_ [F25 _]]]]]. congruence. }
  apply evaluate_tree. apply refine_round_tree; [exact HI | exact HA | exact Hs0 | exact (T Hs0)].
Qed.

Lemma observe_tree st : TInv st -> TInv (fst (observe_coarsen st)).
Proof.
  intros [TC TL TN TP TR]. unfold observe_coarsen, set_objs. cbn [fst].
  constructor; cbn [st_dim st_tree st_objs st_a st_b].
  - exact TC.
  - intros x Hx Ax. apply in_map_iff in Hx. destruct Hx as [z [Ez Hz]]. subst x.
    change (a_path (register (st_cp st) z)) with (a_path z). change (leaf_of (register (st_cp st) z)) with (leaf_of z).
    apply TL; [exact Hz | exact Ax].
  - unfold apaths. rewrite (lmap_map a_path) by (intro y; split; reflexivity). exact TN.
  - rewrite lboxes_lmap, (lmap_map abox) by (intro y; split; reflexivity). exact TP.
  - exact TR.
Qed.

Lemma observe_tgood d a b lmin st : TGood d a b lmin st -> TGood d a b lmin (fst (observe_coarsen st)).
Proof. intros [G T]. split; [apply observe_good; exact G|]. intro Hs. apply observe_tree. apply T. exact Hs. Qed.

Lemma run_tgood d a b lmin hist : forall st, TGood d a b lmin st -> TGood d a b lmin (run_events st hist).
Proof.
  unfold run_events. induction hist as [|ev hist IH]; intros st G; simpl; [exact G|]. apply IH.
  destruct ev; [apply step_tgood | apply observe_tgood]; exact G.
Qed.

Lemma start_tgood dim version nrbe lmin lmax base auto single a b bens0 :
  wfbox a b -> length a = dim -> lmin <= lmax ->
  TGood dim a b lmin (start_state dim version nrbe lmin lmax base auto single a b bens0).
Proof.
  intros W L Hl. split; [apply start_good; assumption|]. unfold start_state. intro Hs.
  assert (E : single = false) by (destruct single; [discriminate Hs | reflexivity]). subst single.
  apply evaluate_tree. apply init_tree; assumption.
Qed.

Lemma wfbox_inbox_start s e : wfbox s e -> inbox s s e.
Proof.
  revert e. induction s as [|a s IH]; intros [|b e] W; simpl in *; try contradiction; [exact I|].
  destruct W as [Lt W]. split; [split; [apply Qcle_refl | apply Qclt_le_weak; exact Lt] | apply IH; exact W].
Qed.

(* point_assignment_partition: after every history, every evaluation point of the domain is assigned exactly once
   (as often as it occurs in the input), to an area of the container, which contains it *)
Theorem point_assignment_partition dim version nrbe lmin lmax base auto single a b bens0 hist pts :
  wfbox a b -> length a = dim -> lmin <= lmax ->
  let st := run_events (start_state dim version nrbe lmin lmax base auto single a b bens0) hist in
  (forall p, In p pts -> length p = dim /\ contains a b p = true) ->
  let res := assign_points (current_tree st) pts in
  (forall p, occ p (assigned res) = occ p pts) /\
  (forall bx ps, In (bx, ps) res -> In bx (map abox (st_objs st)) /\ forall p, In p ps -> inb bx p = true).
Proof.
  intros W L Hl st HP res.
  destruct (run_tgood dim a b lmin hist _ (start_tgood dim version nrbe lmin lmax base auto single a b bens0 W L Hl))
    as [[[IP _ _] [HA [E1 [E2 [E3 _]]]]] T]. fold st in IP, HA, E1, E2, E3, T.
  rewrite (lboxes_alive _ HA), E1, E2, E3 in IP.
  assert (Key : covered dim (current_tree st) /\ t_box (current_tree st) = (a, b) /\
                (forall bx, In bx (tree_leaves (current_tree st)) -> In bx (map abox (st_objs st)))).
  { unfold current_tree. destruct (st_single st) eqn:Hs.
    - rewrite E2, E3. split; [apply covered_flat; [split; assumption | exact IP] | split; [reflexivity|]].
      assert (Nn : st_objs st <> []).
      { intro En. rewrite En in IP. destruct (pt_cover _ _ _ IP a (wfbox_inbox_start _ _ W)) as [q [[] _]]. }
      rewrite (tree_leaves_flat a b _ Nn). intros bx H; exact H.
    - destruct (T eq_refl) as [TC _ _ TP TR]. rewrite E1 in TC. rewrite E2, E3 in TR. split; [exact TC | split; [exact TR|]].
      intros bx H. rewrite (lboxes_alive _ HA) in TP. eapply Permutation_in; eassumption. }
  destruct Key as [K1 [K2 K3]].
  destruct (assign_points_ok dim (current_tree st) K1 pts) as [A1 A2 A3].
  { intros p Hp. destruct (HP p Hp) as [Lp Cp]. split; [exact Lp | unfold inb; rewrite K2; exact Cp]. }
  split; [exact A1|]. intros bx ps Hin. split; [apply K3; eapply A2; exact Hin|].
  intros p Hp. apply (A3 bx ps p Hin Hp).
Qed.
