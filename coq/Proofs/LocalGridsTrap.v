(* C08 — trapezoidal local grid (plain and modified basis): count, inside, weight sum, degree-1 exactness.
   All statements hold for every number of intervals n = m+1 >= 1 (npwb = m+2), hence for every level. *)
From Coq Require Import ZArith List QArith Qcanon Bool Arith Lia Lqa.
From SG Require Import Base.QcUtil Model.Tensor Model.LocalGrids Proofs.TensorRule Proofs.LocalGridsBase.
Import ListNotations.
Open Scope Qc_scope.

Local Arguments Nat.sub : simpl never.
Local Arguments Nat.add : simpl never.

Lemma sumQ_lin' (c d : Qc) a n :
  sumQ (map (fun i => c + qn i * d) (seq a n)) = qn n * c + d * (qn n * (Qc2 * qn a + qn n - 1)) * Qchalf.
Proof.
  pose proof (sumQ_lin c d a n) as H.
  assert (E : forall x y : Qc, Qc2 * x = y -> x = y * Qchalf).
  { intros x y <-. qfield. }
  rewrite (E _ _ H). qfield.
Qed.

(* ---------- all points present (boundary on, or sub-box not touching): lo = 0, up = np = npwb ---------- *)
Definition full_w (m : nat) (h : Qc) (i : nat) : Qc :=
  h * (if ((i =? 0) || (i =? S m))%nat then Qchalf else 1).

Lemma trap_full_weights m bnd modb up s e : (modb = false \/ up = S (S m)) ->
  trap_weights modb bnd (S (S m)) (S (S m)) 0 up s e
  = map (full_w m (spacing s e (S (S m)))) (seq 0 (S (S m))).
Proof.
  intro Hm. unfold trap_weights. apply map_ext_in. intros i Hi. apply in_seq in Hi.
  assert (E : trap_weight modb bnd (S (S m)) (S (S m)) 0 up s e i
              = wct bnd (S (S m)) (S (S m)) 0 (spacing s e (S (S m))) i).
  { unfold trap_weight. destruct modb; [|reflexivity].
    destruct Hm as [Hm|Hm]; [discriminate|]. subst up.
    assert (Hup : (S (S m) =? S (S m) - 1)%nat = false) by (apply Nat.eqb_neq; lia).
    rewrite Hup. change (0 =? 1)%nat with false. rewrite !andb_false_r.
    change (S (S m) =? 1)%nat with false. cbv iota.
    destruct (S (S m) =? 2)%nat; reflexivity. }
  rewrite E. unfold wct, full_w.
  replace (negb bnd && (S (S m) =? 1)%nat) with false by (destruct bnd; reflexivity).
  replace (S (S m) - 1)%nat with (S m) by lia. rewrite Nat.add_0_r. reflexivity.
Qed.

Lemma trap_full_points m bnd s e :
  trap_points bnd (S (S m)) (S (S m)) 0 (S (S m)) s e = map (lin s (spacing s e (S (S m)))) (seq 0 (S (S m))).
Proof.
  unfold trap_points, slice_idx.
  replace (negb bnd && (S (S m) =? 1)%nat) with false by (destruct bnd; reflexivity).
  rewrite Nat.min_id, Nat.sub_0_r. reflexivity.
Qed.

Lemma seq_ends m : seq 0 (S (S m)) = 0%nat :: seq 1 m ++ [S m].
Proof. rewrite seq_snoc. cbn [seq app]. f_equal. Qed.

Lemma full_w_sum (g : nat -> Qc) m h :
  sumQ (map (fun i => g i * full_w m h i) (seq 0 (S (S m))))
  = g 0%nat * h * Qchalf + h * sumQ (map g (seq 1 m)) + g (S m) * h * Qchalf.
Proof.
  rewrite seq_ends. cbn [map sumQ]. rewrite map_app, sumQ_app. cbn [map sumQ].
  rewrite (sumQ_map_ext _ (fun i => h * g i)).
  - rewrite sumQ_map_scale. unfold full_w. cbn [Nat.eqb orb]. rewrite Nat.eqb_refl, ?orb_true_r. ring.
  - intros i Hi. apply in_seq in Hi. unfold full_w.
    replace ((i =? 0) || (i =? S m))%nat with false; [ring|].
    symmetry. apply orb_false_iff. split; apply Nat.eqb_neq; lia.
Qed.

Theorem trap_full_exact1 m s e :
  exact1 (map (lin s (spacing s e (S (S m)))) (seq 0 (S (S m))))
         (map (full_w m (spacing s e (S (S m)))) (seq 0 (S (S m)))) s e 1.
Proof.
  intros k Hk. unfold apply1. rewrite map_map, dotQ_maps, full_w_sum.
  pose proof (spacing_total s e m) as Ht. rewrite qn_S in Ht.
  set (h := spacing s e (S (S m))) in *.
  assert (He : e = s + (qn m + 1) * h) by (rewrite Ht; ring).
  destruct k as [|[|k]]; [| |lia]; unfold mono, mint, lin; cbn [Qcpower].
  - rewrite sumQ_const. rewrite qn_1. rewrite He. clearbody h. clear Ht He. qfield.
  - rewrite (sumQ_map_ext _ (fun i => s + qn i * h)) by (intros; ring).
    rewrite sumQ_lin'. rewrite ?qn_2, ?qn_1, ?qn_S, ?qn_0. rewrite He. clearbody h. clear Ht He. qfield.
Qed.

(* ---------- modified basis (boundary off, sub-box touching the global boundary) ---------- *)
Ltac bd :=
  repeat (match goal with
          | |- context [if ?c then _ else _] =>
            match c with
            | context [Nat.eqb ?a ?b] => destruct (Nat.eqb_spec a b); try lia
            | context [Nat.ltb ?a ?b] => destruct (Nat.ltb_spec a b); try lia
            | context [Nat.leb ?a ?b] => destruct (Nat.leb_spec a b); try lia
            end
          end; cbn [andb orb negb]).

Lemma trapmod_weight_mid np npwb lo up s e i :
  (2 <= i)%nat -> (i + 3 <= np)%nat -> (lo <= 1)%nat -> (np + lo <= npwb)%nat ->
  trap_weight true false np npwb lo up s e i = spacing s e npwb.
Proof.
  intros. unfold trap_weight, wct. cbn [negb andb]. bd. ring.
Qed.

(* exactness on affine functions, the form in which the modified-basis cases are computed *)
Definition lin_exact (pts wts : list Qc) (s e : Qc) : Prop :=
  forall al be : Qc, dotQ (map (fun x => al + be * x) pts) wts = al * (e - s) + be * ((e * e - s * s) * Qchalf).

Lemma lin_exact_exact1 pts wts s e : lin_exact pts wts s e -> exact1 pts wts s e 1.
Proof.
  intros H k Hk. unfold apply1. destruct k as [|[|k]]; [| |lia].
  - rewrite (map_ext _ (fun x => 1 + 0 * x)) by (intro; unfold mono; cbn [Qcpower]; ring).
    rewrite H. unfold mint. cbn [Qcpower]. rewrite qn_1. field. discriminate.
  - rewrite (map_ext _ (fun x => 0 + 1 * x)) by (intro; unfold mono; cbn [Qcpower]; ring).
    rewrite H. unfold mint. cbn [Qcpower]. rewrite qn_2. qfield.
Qed.

Lemma sum_split4 (F : nat -> Qc) k :
  sumQ (map F (seq 0 (S (S (S (S k)))))) = F 0%nat + F 1%nat + sumQ (map F (seq 2 k)) + F (S (S k)) + F (S (S (S k))).
Proof.
  rewrite seq_snoc, map_app, sumQ_app. rewrite seq_snoc, map_app, sumQ_app.
  cbn [seq map sumQ]. replace (0 + S (S (S k)))%nat with (S (S (S k))) by lia.
  replace (0 + S (S k))%nat with (S (S k)) by lia. ring.
Qed.

(* small instances: everything but s, e is concrete *)
Ltac small_case idx :=
  let al := fresh "al" in let be := fresh "be" in
  intros al be; unfold trap_points, trap_weights;
  match goal with |- context [slice_idx ?a ?b ?c] => change (slice_idx a b c) with idx end;
  cbn [negb andb Nat.eqb seq map];
  unfold trap_weight, wct, lin, spacing; cbn [negb andb]; bd;
  cbn [dotQ];
  repeat match goal with |- context [qn (?a - ?b)] => let v := eval vm_compute in (a - b)%nat in change (a - b)%nat with v end;
  rewrite ?qn_2, ?qn_1, ?qn_0; qfield.

(* general instance: np = k+4 points, the four outer weights are special, the inner ones equal h *)
Lemma trapmod_general k lo up npwb s e (al be : Qc) :
  (lo <= 1)%nat -> (S (S (S (S k))) + lo <= npwb)%nat -> (up <= npwb)%nat -> (up - lo = S (S (S (S k))))%nat ->
  let np := S (S (S (S k))) in
  let h := spacing s e npwb in
  let W := trap_weight true false np npwb lo up s e in
  let X := fun i => al + be * lin s h (i + lo) in
  dotQ (map (fun x => al + be * x) (trap_points false np npwb lo up s e)) (trap_weights true false np npwb lo up s e)
  = X 0%nat * W 0%nat + X 1%nat * W 1%nat
    + h * (qn k * (al + be * s + be * qn lo * h) + be * h * (qn k * (Qc2 * qn 2 + qn k - 1)) * Qchalf)
    + X (S (S k)) * W (S (S k)) + X (S (S (S k))) * W (S (S (S k))).
Proof.
  intros Hlo Hn Hup Hd np h W X.
  unfold trap_points, trap_weights. cbn [negb andb]. change (np =? 1)%nat with false. cbv iota.
  unfold slice_idx. rewrite (Nat.min_l up npwb Hup), Hd. fold np.
  rewrite (map_seq_shift (lin s (spacing s e npwb)) lo np), map_map. fold h.
  rewrite (dotQ_maps (fun i => al + be * lin s h (i + lo)) W). unfold np at 1. rewrite sum_split4.
  fold (X 0%nat) (X 1%nat) (X (S (S k))) (X (S (S (S k)))).
  rewrite (sumQ_map_ext _ (fun i => h * ((al + be * s + be * qn lo * h) + qn i * (be * h)))).
  - rewrite sumQ_map_scale, sumQ_lin'. ring.
  - intros i Hi. apply in_seq in Hi. unfold W. rewrite trapmod_weight_mid by (unfold np; lia).
    unfold lin. rewrite qn_add. fold h. ring.
Qed.

Theorem trapmod_lin_exact tl tr m s e :
  tl || tr = true ->
  let npwb := S (S m) in
  let np := (npwb - (b2n tl + b2n tr))%nat in
  let lo := b2n tl in
  let up := if tr then (npwb - 1)%nat else npwb in
  (1 <= np)%nat -> ~ (np = 2%nat /\ tl = true /\ tr = true) ->
  lin_exact (trap_points false np npwb lo up s e) (trap_weights true false np npwb lo up s e) s e.
Proof.
  intros Ht npwb np lo up Hnp Hbad.
  destruct tl, tr; try discriminate; cbn [b2n] in *; subst npwb np lo up; cbn [Nat.add] in *.
  - (* both sides touch: np = m *)
    replace (S (S m) - (1 + 1))%nat with m in * by lia.
    destruct m as [|[|[|[|k]]]]; [lia | | exfalso; apply Hbad; repeat split | | ].
    + small_case [1%nat].
    + small_case [1;2;3]%nat.
    + intros al be. rewrite trapmod_general by lia.
      unfold trap_weight, wct, lin. cbn [negb andb]. bd.
      replace (S (S (S (S (S (S k))))) - 1)%nat with (S (S (S (S (S k))))) by lia.
      set (h := spacing s e _).
      assert (He : e = s + qn (S (S (S (S (S k))))) * h) by (unfold h; rewrite spacing_total; ring).
      rewrite He. clearbody h. clear He.
      repeat rewrite ?qn_add, ?qn_S, ?qn_0. qfield.
  - (* lower side touches: np = m + 1 *)
    replace (S (S m) - (1 + 0))%nat with (S m) in * by lia.
    destruct m as [|[|[|k]]].
    + small_case [1%nat].
    + small_case [1;2]%nat.
    + small_case [1;2;3]%nat.
    + intros al be. rewrite trapmod_general by lia.
      unfold trap_weight, wct, lin. cbn [negb andb]. bd.
      set (h := spacing s e _).
      assert (He : e = s + qn (S (S (S (S k)))) * h) by (unfold h; rewrite spacing_total; ring).
      rewrite He. clearbody h. clear He.
      repeat rewrite ?qn_add, ?qn_S, ?qn_0. qfield.
  - (* upper side touches: np = m + 1 *)
    replace (S (S m) - (0 + 1))%nat with (S m) in * by lia.
    destruct m as [|[|[|k]]].
    + small_case [0%nat].
    + small_case [0;1]%nat.
    + small_case [0;1;2]%nat.
    + intros al be. rewrite trapmod_general by lia.
      unfold trap_weight, wct, lin. cbn [negb andb]. bd.
      set (h := spacing s e _).
      assert (He : e = s + qn (S (S (S (S k)))) * h) by (unfold h; rewrite spacing_total; ring).
      rewrite He. clearbody h. clear He.
      repeat rewrite ?qn_add, ?qn_S, ?qn_0. qfield.
Qed.

(* ---------- count and inside ---------- *)
Lemma borders_spec bnd tl tr npwb :
  let np := num_points_eq bnd tl tr npwb in
  (2 <= npwb)%nat ->
  borders bnd np npwb tl tr
  = if bnd then (0%nat, npwb) else (b2n tl, (npwb - b2n tr)%nat).
Proof.
  intros np H. unfold borders, np, num_points_eq.
  destruct bnd; cbn [negb andb].
  - rewrite Nat.sub_0_r. reflexivity.
  - destruct tl, tr; cbn [b2n Nat.add]; bd; try reflexivity; f_equal; lia.
Qed.

Lemma trap_points_length bnd tl tr m s e :
  let npwb := S (S m) in
  let np := num_points_eq bnd tl tr npwb in
  length (trap_points bnd np npwb (fst (borders bnd np npwb tl tr)) (snd (borders bnd np npwb tl tr)) s e) = np.
Proof.
  intros npwb np. unfold np. rewrite borders_spec by (unfold npwb; lia). fold np.
  unfold trap_points. destruct (negb bnd && (np =? 1)%nat) eqn:E.
  - apply andb_true_iff in E. destruct E as [_ E]. apply Nat.eqb_eq in E. rewrite E. reflexivity.
  - rewrite map_length. unfold slice_idx. rewrite seq_length.
    unfold np, num_points_eq, npwb. destruct bnd; cbn [fst snd]; [rewrite Nat.min_id; lia|].
    destruct tl, tr; cbn [b2n Nat.add]; lia.
Qed.

Lemma trap_weights_length modb bnd np npwb lo up s e : length (trap_weights modb bnd np npwb lo up s e) = np.
Proof. unfold trap_weights. rewrite map_length, seq_length. reflexivity. Qed.

Lemma mid_inside s e : s <= e -> s <= (e + s) / Qc2 /\ (e + s) / Qc2 <= e.
Proof. intro H. split; qc_order. Qed.

Lemma trap_points_inside bnd np m lo up s e : s <= e ->
  Forall (fun p => s <= p /\ p <= e) (trap_points bnd np (S (S m)) lo up s e).
Proof.
  intro H. unfold trap_points. destruct (negb bnd && (np =? 1)%nat).
  - constructor; [apply mid_inside; assumption | constructor].
  - apply Forall_forall. intros p Hp. apply in_map_iff in Hp. destruct Hp as (i & <- & Hi).
    unfold slice_idx in Hi. apply in_seq in Hi. apply lin_inside; [assumption | lia].
Qed.

(* ---------- switching boundary points off drops exactly the points on the global boundary ---------- *)
Definition keep_interior (a b : Qc) (pw : Qc * Qc) : bool := negb (Qc_eqb (fst pw) a) && negb (Qc_eqb (fst pw) b).

Lemma Qc_eqb_false x y : x <> y -> Qc_eqb x y = false.
Proof. intro H. destruct (Qc_eqb x y) eqn:E; [apply Qc_eqb_eq in E; contradiction | reflexivity]. Qed.

Lemma Qc_eqb_refl x : Qc_eqb x x = true.
Proof. apply Qc_eqb_eq. reflexivity. Qed.

Lemma Qclt_neq x y : x < y -> x <> y.
Proof. intros H E. subst. apply (Qclt_not_eq _ _ H). reflexivity. Qed.

Lemma Qclt_neq' x y : x < y -> y <> x.
Proof. intros H E. subst. apply (Qclt_not_eq _ _ H). reflexivity. Qed.

Lemma filter_all {A} (f : A -> bool) l : (forall x, In x l -> f x = true) -> filter f l = l.
Proof.
  induction l as [|x l IH]; intro H; cbn [filter]; [reflexivity|].
  rewrite (H x (or_introl eq_refl)). f_equal. apply IH. intros y Hy. apply H. right. assumption.
Qed.

(* the boundary-on rule, written over the global index 0..m+1, restricted to the points off the global boundary *)
Lemma filter_on_rule (W : nat -> Qc) a b s e m :
  a <= s -> s < e -> e <= b ->
  let h := spacing s e (S (S m)) in
  let R := fun i => (lin s h i, W i) in
  filter (keep_interior a b) (map R (seq 0 (S (S m))))
  = map R (seq (b2n (touch_l a s)) (S (S m) - b2n (touch_l a s) - b2n (touch_r b e))).
Proof.
  intros Has Hse Heb h R. rewrite seq_ends. cbn [map]. rewrite map_app. cbn [map filter]. rewrite filter_app. cbn [filter].
  assert (Hmid : filter (keep_interior a b) (map R (seq 1 m)) = map R (seq 1 m)).
  { apply filter_all. intros pw Hpw. apply in_map_iff in Hpw.
    destruct Hpw as (i & <- & Hi). apply in_seq in Hi. unfold keep_interior, R. cbn [fst].
    destruct (lin_strict s e m i Hse) as [L U]; [lia | lia |]. fold h in L, U.
    rewrite !Qc_eqb_false; [reflexivity | |]; [apply Qclt_neq | apply Qclt_neq']; qc_order. }
  rewrite Hmid.
  assert (Hsb : Qc_eqb s b = false) by (apply Qc_eqb_false, Qclt_neq; qc_order).
  assert (Hea : Qc_eqb e a = false) by (apply Qc_eqb_false, Qclt_neq'; qc_order).
  assert (K0 : keep_interior a b (R 0%nat) = negb (touch_l a s)).
  { unfold keep_interior, R, h. cbn [fst]. rewrite lin_0, Hsb. cbn [negb]. rewrite andb_true_r. reflexivity. }
  assert (K1 : keep_interior a b (R (S m)) = negb (touch_r b e)).
  { unfold keep_interior, R, h. cbn [fst]. rewrite lin_last, Hea. reflexivity. }
  rewrite K0, K1.
  destruct (touch_l a s), (touch_r b e); cbn [negb b2n app].
  - replace (S (S m) - 1 - 1)%nat with m by lia. rewrite app_nil_r. reflexivity.
  - replace (S (S m) - 1 - 0)%nat with (S m) by lia. rewrite seq_snoc, map_app. reflexivity.
  - replace (S (S m) - 0 - 1)%nat with (S m) by lia. cbn [seq map]. rewrite app_nil_r. reflexivity.
  - replace (S (S m) - 0 - 0)%nat with (S (S m)) by lia. rewrite seq_ends. cbn [map]. rewrite map_app. reflexivity.
Qed.

Lemma combine_maps {A B C} (f : A -> B) (g : A -> C) l : combine (map f l) (map g l) = map (fun i => (f i, g i)) l.
Proof. induction l as [|x l IH]; cbn [map combine]; [reflexivity | rewrite IH; reflexivity]. Qed.

Theorem trap_off_restriction a b s e m :
  a <= s -> s < e -> e <= b ->
  let tl := touch_l a s in let tr := touch_r b e in
  let npwb := S (S m) in
  ~ (m = 0%nat /\ xorb tl tr = true) ->
  let np := num_points_eq false tl tr npwb in
  let lo := fst (borders false np npwb tl tr) in
  let up := snd (borders false np npwb tl tr) in
  combine (trap_points false np npwb lo up s e) (trap_weights false false np npwb lo up s e)
  = filter (keep_interior a b)
           (combine (trap_points true npwb npwb 0 npwb s e) (trap_weights false true npwb npwb 0 npwb s e)).
Proof.
  intros Has Hse Heb tl tr npwb Hex np lo up.
  unfold npwb at 3 4 5 6 7 8. rewrite trap_full_points, trap_full_weights by (left; reflexivity).
  rewrite combine_maps. rewrite (filter_on_rule (full_w m (spacing s e (S (S m)))) a b s e m Has Hse Heb).
  fold tl tr. unfold lo, up, np. rewrite borders_spec by (unfold npwb; lia). cbn [fst snd]. fold np.
  assert (Hnp : np = (S (S m) - b2n tl - b2n tr)%nat) by (unfold np, num_points_eq, npwb; lia).
  unfold trap_points, trap_weights. cbn [negb andb].
  destruct (Nat.eqb_spec np 1) as [E1|E1].
  - (* a single point: level 1 touching both sides (level 0 touching one side is excluded) *)
    rewrite <- Hnp, E1. cbn [seq map combine].
    assert (Hm : m = 1%nat /\ tl = true /\ tr = true).
    { destruct tl, tr; cbn [b2n xorb] in *.
      - repeat split; lia.
      - exfalso. apply Hex. split; [lia | reflexivity].
      - exfalso. apply Hex. split; [lia | reflexivity].
      - lia. }
    destruct Hm as (-> & -> & ->). cbn [b2n]. unfold trap_weight, wct, full_w, lin, spacing, npwb.
    cbn [negb andb Nat.eqb orb]. change (3 - 1)%nat with 2%nat. rewrite qn_2, qn_1.
    f_equal. f_equal; qfield.
  - rewrite <- Hnp. unfold slice_idx, npwb.
    replace (Nat.min (S (S m) - b2n tr) (S (S m)) - b2n tl)%nat with np by (rewrite Hnp; destruct tl, tr; cbn [b2n]; lia).
    rewrite <- combine_maps. f_equal.
    rewrite (map_seq_shift (full_w m (spacing s e (S (S m)))) (b2n tl) np). apply map_ext_in. intros i Hi.
    unfold trap_weight, wct, full_w. cbn [negb andb].
    destruct (Nat.eqb_spec np 1); [contradiction|].
    replace (S (S m) - 1)%nat with (S m) by lia. reflexivity.
Qed.
