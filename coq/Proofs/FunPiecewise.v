(* C12 — the two rational, piecewise classes without an integral theorem so far:
     FunctionDiagonalDiscont (indicator of the simplex sum x < 1; analytic integral over the unit cube 1/dim!)
     FunctionG               (Sobol g-function prod (|4 x_d - 2| + a_d)/(1 + a_d), a_d = d/2; analytic integral over the unit cube 1)
   Their eval is modelled EXACTLY over Qc (Model/FunGenzSym.v: dd_eval, g_eval); here: the analytic integral as coded is the
   iterated Riemann integral of the real function that eval computes, in every dimension. *)
From Coq Require Import Reals QArith Qcanon Qreals List Lia Lra.
From Coquelicot Require Import Coquelicot.
From SG Require Import Base.QcUtil Model.FunPoly Model.FunGenz Model.FunGenzSym Proofs.FunPolyProofs Proofs.FunPolyReal
                       Proofs.FunPolyIter Proofs.FunGenzProofs Proofs.FunGenzReal Proofs.FunGenzSep Proofs.FunGenzSymProofs.
Import ListNotations.
Open Scope R_scope.

Fixpoint sumR (xs : list R) : R := match xs with [] => 0 | x :: r => x + sumR r end.

(* ================================================================== FunctionDiagonalDiscont *)
Definition dd_real (s : R) (xs : list R) : R := if Rlt_dec (s + sumR xs) 1 then 1 else 0.
Definition dd_value (n : nat) (s : R) : R := if Rlt_dec s 1 then (1 - s) ^ n / INR (fact_nat n) else 0.

Lemma fact_nat_pos n : (1 <= fact_nat n)%nat.
Proof. induction n as [|n IH]; cbn [fact_nat]; nia. Qed.
Lemma INR_fact_neq0 n : INR (fact_nat n) <> 0.
Proof. apply not_0_INR. pose proof (fact_nat_pos n). lia. Qed.

Lemma RInt_simplex_slice n s t : is_RInt (fun x => (1 - s - x) ^ n / INR (fact_nat n)) 0 t
  ((1 - s) ^ S n / INR (fact_nat (S n)) - (1 - s - t) ^ S n / INR (fact_nat (S n))).
Proof.
  assert (Hf := INR_fact_neq0 n). assert (Hs := INR_S_neq0 n).
  assert (E : INR (fact_nat (S n)) = INR (S n) * INR (fact_nat n)) by (cbn [fact_nat]; rewrite mult_INR; reflexivity).
  pose (F := fun x => - (1 - s - x) ^ S n / (INR (S n) * INR (fact_nat n))).
  replace ((1 - s) ^ S n / INR (fact_nat (S n)) - (1 - s - t) ^ S n / INR (fact_nat (S n))) with (F t - F 0).
  2:{ unfold F. rewrite E. replace (1 - s - 0) with (1 - s) by ring. unfold Rdiv. ring. }
  apply (is_RInt_derive F (fun x => (1 - s - x) ^ n / INR (fact_nat n))).
  - intros x _. unfold F. auto_derive; [trivial|].
    change (match n with 0%nat => 1 | S _ => INR n + 1 end) with (INR (S n)). cbn [Nat.pred]. unfold Rminus. field. split; assumption.
  - intros x _. apply (ex_derive_continuous (fun x0 => (1 - s - x0) ^ n / INR (fact_nat n))). auto_derive. trivial.
Qed.

(* for every dimension n and every offset s >= 0: the iterated integral over [0,1]^n of the indicator of s + sum x < 1 *)
Theorem dd_iter : forall n s, 0 <= s -> is_iter_int (dd_real s) (repeat 0 n) (repeat 1 n) (dd_value n s).
Proof.
  induction n as [|n IH]; intros s Hs.
  - cbn [repeat]. apply (iter_value_eq _ [] [] _ _ (iter_nil (dd_real s))).
    unfold dd_real, dd_value. cbn [sumR fact_nat pow INR]. rewrite Rplus_0_r.
    destruct (Rlt_dec s 1); [field | reflexivity].
  - cbn [repeat]. apply (iter_cons (dd_real s) 0 1 (repeat 0 n) (repeat 1 n) (fun x => dd_value n (s + x))).
    + intros x Hx. rewrite Rmin_left, Rmax_right in Hx by lra.
      apply (iter_ext (dd_real (s + x))); [|apply IH; lra].
      intro xs. unfold dd_real. cbn [sumR]. rewrite Rplus_assoc. reflexivity.
    + unfold dd_value at 2. destruct (Rlt_dec s 1) as [Hlt|Hge].
      * (* the slice function is (1-s-x)^n/n! on (0, 1-s) and 0 on (1-s, 1) *)
        pose (t := 1 - s). assert (Ht : 0 < t <= 1) by (unfold t; lra).
        replace ((1 - s) ^ S n / INR (fact_nat (S n))) with
            (plus ((1 - s) ^ S n / INR (fact_nat (S n)) - (1 - s - t) ^ S n / INR (fact_nat (S n))) 0).
        2:{ assert (Et : (1 - s - t) ^ S n = 0) by (unfold t; replace (1 - s - (1 - s)) with 0 by ring; apply pow_i; lia).
            rewrite Et. unfold plus; simpl. unfold Rdiv. ring. }
        apply (is_RInt_Chasles (fun x => dd_value n (s + x)) 0 t 1).
        -- apply (is_RInt_ext (fun x => (1 - s - x) ^ n / INR (fact_nat n))); [|apply RInt_simplex_slice].
           intros x Hx. rewrite Rmin_left, Rmax_right in Hx by lra. unfold dd_value.
           destruct (Rlt_dec (s + x) 1); [|unfold t in Hx; lra]. replace (1 - (s + x)) with (1 - s - x) by ring. reflexivity.
        -- apply is_RInt_zero_on. intros x Hx. rewrite Rmin_left, Rmax_right in Hx by lra. unfold dd_value.
           destruct (Rlt_dec (s + x) 1); [unfold t in Hx; lra | reflexivity].
      * apply is_RInt_zero_on. intros x Hx. rewrite Rmin_left, Rmax_right in Hx by lra. unfold dd_value.
        destruct (Rlt_dec (s + x) 1); [lra | reflexivity].
Qed.

Lemma sumQ_real xs : QcR (sumQ xs) = sumR (map QcR xs).
Proof. induction xs as [|x xs IH]; cbn [sumQ sumR map]; [apply QcR_0 | rewrite QcR_plus, IH; reflexivity]. Qed.

Theorem dd_eval_real xs : QcR (dd_eval xs) = dd_real 0 (map QcR xs).
Proof.
  unfold dd_eval, dd_real. rewrite Rplus_0_l, <- sumQ_real. destruct (Qc_ltb (sumQ xs) 1) eqn:E.
  - apply Qc_ltb_R in E. rewrite QcR_1 in E. destruct (Rlt_dec (QcR (sumQ xs)) 1); [apply QcR_1 | contradiction].
  - assert (~ QcR (sumQ xs) < QcR 1%Qc) by (intro H; apply Qc_ltb_R in H; congruence). rewrite QcR_1 in H.
    destruct (Rlt_dec (QcR (sumQ xs)) 1); [contradiction | apply QcR_0].
Qed.

Lemma all_eqb_repeat v l : all_eqb v l = true -> l = repeat v (length l).
Proof.
  induction l as [|x l IH]; cbn [all_eqb repeat length]; [reflexivity|]. intro H. apply Bool.andb_true_iff in H.
  destruct H as [H1 H2]. apply Qc_eqb_eq in H1. subst. rewrite <- (IH H2). reflexivity.
Qed.

Lemma map_QcR_repeat v n : map QcR (repeat v n) = repeat (QcR v) n.
Proof. induction n; cbn [repeat map]; [reflexivity | rewrite IHn; reflexivity]. Qed.

(* whenever getAnalyticSolutionIntegral returns (its asserts start == 0, end == 1 hold), the value is the iterated Riemann
   integral over the box of the real function computed by eval *)
Theorem dd_integral_is_iterated_riemann a b v : dd_int a b = IVal v ->
  is_iterated_riemann_integral (dd_real 0) (map QcR a) (map QcR b) (QcR v).
Proof.
  unfold dd_int. destruct (all_eqb 0 a) eqn:Ea; [|discriminate]. destruct (all_eqb 1 b) eqn:Eb; [|discriminate].
  destruct (Nat.eqb (length a) (length b)) eqn:El; [|discriminate]. cbn [andb]. intro H. injection H as <-.
  apply Nat.eqb_eq in El. rewrite (all_eqb_repeat _ _ Ea), (all_eqb_repeat _ _ Eb), <- El, !map_QcR_repeat, QcR_0, QcR_1.
  rewrite repeat_length.
  refine (iter_value_eq _ _ _ _ _ (dd_iter (length a) 0 (Rle_refl 0)) _).
  unfold dd_value. destruct (Rlt_dec 0 1); [|lra].
  rewrite QcR_div, QcR_1, QcR_qn by (intro E; apply (INR_fact_neq0 (length a)); rewrite <- QcR_qn, E; apply QcR_0).
  rewrite Rminus_0_r, pow1. reflexivity.
Qed.

(* ================================================================== FunctionG *)
Definition g_f (d : nat) (x : R) : R := (Rabs (4 * x - 2) + / 2 * INR d) / (1 + / 2 * INR d).
Fixpoint g_fs (n d : nat) : list (R -> R) := match n with O => [] | S k => g_f d :: g_fs k (S d) end.
Definition g_real (n : nat) (xs : list R) : R := prod_fun (g_fs n 0) xs.

Lemma g_1d d : is_RInt (g_f d) 0 1 1.
Proof.
  set (a := / 2 * INR d). assert (Ha : 0 <= a) by (unfold a; pose proof (pos_INR d); lra).
  replace 1 with (plus (/ 2) (/ 2)) at 2 by (unfold plus; simpl; lra).
  apply (is_RInt_Chasles (g_f d) 0 (/ 2) 1).
  - apply (is_RInt_ext (fun x => (2 - 4 * x + a) / (1 + a))).
    + intros x Hx. rewrite Rmin_left, Rmax_right in Hx by lra. unfold g_f. fold a. rewrite Rabs_left by lra. f_equal. ring.
    + replace (/ 2) with ((2 * / 2 - 2 * (/ 2 * / 2) + a * / 2) / (1 + a) - (2 * 0 - 2 * (0 * 0) + a * 0) / (1 + a)) at 2 by (field; lra).
      apply (is_RInt_derive (fun x => (2 * x - 2 * (x * x) + a * x) / (1 + a)) (fun x => (2 - 4 * x + a) / (1 + a))).
      * intros x _. auto_derive; [trivial|]. field. lra.
      * intros x _. apply (ex_derive_continuous (fun x0 => (2 - 4 * x0 + a) / (1 + a))). auto_derive. trivial.
  - apply (is_RInt_ext (fun x => (4 * x - 2 + a) / (1 + a))).
    + intros x Hx. rewrite Rmin_left, Rmax_right in Hx by lra. unfold g_f. fold a. rewrite Rabs_right by lra. reflexivity.
    + replace (/ 2) with ((2 * (1 * 1) - 2 * 1 + a * 1) / (1 + a) - (2 * (/ 2 * / 2) - 2 * / 2 + a * / 2) / (1 + a)) at 2 by (field; lra).
      apply (is_RInt_derive (fun x => (2 * (x * x) - 2 * x + a * x) / (1 + a)) (fun x => (4 * x - 2 + a) / (1 + a))).
      * intros x _. auto_derive; [trivial|]. field. lra.
      * intros x _. apply (ex_derive_continuous (fun x0 => (4 * x0 - 2 + a) / (1 + a))). auto_derive. trivial.
Qed.

Lemma g_sep : forall n d, sep_ok (g_fs n d) (repeat 0 n) (repeat 1 n) (repeat 1 n).
Proof. induction n as [|n IH]; intro d; cbn [g_fs repeat]; constructor; [apply g_1d | apply IH]. Qed.

Lemma prodR_ones n : prodR (repeat 1 n) = 1.
Proof. induction n; cbn [repeat prodR]; [reflexivity | rewrite IHn; ring]. Qed.

Theorem g_iter n : is_iter_int (g_real n) (repeat 0 n) (repeat 1 n) 1.
Proof. apply (iter_value_eq _ _ _ (prodR (repeat 1 n))); [apply sep_iter; apply g_sep | apply prodR_ones]. Qed.

Lemma g_eval_loop_real : forall xs d, QcR (g_eval_loop xs d) = prod_fun (g_fs (length xs) d) (map QcR xs).
Proof.
  induction xs as [|x xs IH]; intro d; cbn [g_eval_loop length g_fs prod_fun map]; [apply QcR_1|].
  assert (Hd : (1 + Qchalf * qn d)%Qc <> 0%Qc).
  { intro E. assert (H : QcR (1 + Qchalf * qn d)%Qc = 0) by (rewrite E; apply QcR_0).
    rewrite QcR_plus, QcR_1, QcR_mult, QcR_qn in H. assert (QcR Qchalf = / 2) by (unfold QcR, Qchalf; cbn; unfold Q2R; simpl; lra).
    pose proof (pos_INR d). rewrite H0 in H. lra. }
  rewrite QcR_mult, IH, QcR_div by exact Hd. f_equal. unfold g_f.
  assert (Hh : QcR Qchalf = / 2) by (unfold QcR, Qchalf; cbn; unfold Q2R; simpl; lra).
  assert (H4 : QcR (Q2Qc (4 # 1)) = 4) by (unfold QcR; cbn; unfold Q2R; simpl; lra).
  assert (H2 : QcR Qc2 = 2) by (unfold QcR, Qc2; cbn; unfold Q2R; simpl; lra).
  rewrite !QcR_plus, QcR_abs, QcR_minus, !QcR_mult, QcR_qn, QcR_1, Hh, H4, H2. reflexivity.
Qed.

Theorem g_eval_real xs : QcR (g_eval xs) = g_real (length xs) (map QcR xs).
Proof. apply g_eval_loop_real. Qed.

Theorem g_integral_is_iterated_riemann a b v : g_int a b = IVal v ->
  is_iterated_riemann_integral (g_real (length a)) (map QcR a) (map QcR b) (QcR v).
Proof.
  unfold g_int. destruct (all_eqb 0 a) eqn:Ea; [|discriminate]. destruct (all_eqb 1 b) eqn:Eb; [|discriminate].
  destruct (Nat.eqb (length a) (length b)) eqn:El; [|discriminate]. cbn [andb]. intro H. injection H as <-.
  apply Nat.eqb_eq in El.
  rewrite (all_eqb_repeat _ _ Ea) at 2. rewrite (all_eqb_repeat _ _ Eb), <- El, !map_QcR_repeat, QcR_0, QcR_1.
  apply g_iter.
Qed.
