(* Reusable facts about the PyLib combinators: loops as folds, indexing inside the bounds, and the agreement of the
   PyLib set / dict / sequence operations with the ones the hand-written model Model/CombiScheme.v uses. *)
From Coq Require Import ZArith List Bool Lia QArith Qcanon Permutation.
From SG Require Import Base.PyLib Model.CombiScheme Proofs.SchemeBasics.
Import ListNotations.
Open Scope Z_scope.
Local Arguments Z.add : simpl never.
Local Arguments Z.mul : simpl never.
Local Arguments Z.sub : simpl never.
Local Arguments Z.of_nat : simpl never.

(* ------------------------------------------------------------------ loops *)
Lemma py_for_ext {A V R} (l : list A) (b1 b2 : A -> V -> flow V R) v :
  (forall x w, In x l -> b1 x w = b2 x w) -> py_for l b1 v = py_for l b2 v.
Proof.
  revert v. induction l as [|x l IH]; intros v H; [reflexivity|].
  cbn [py_for]. rewrite (H x v (or_introl eq_refl)).
  destruct (b2 x v); try reflexivity. apply IH. intros y w Hy. apply H. right. exact Hy.
Qed.

(* a loop whose body neither returns nor raises is a left fold *)
Lemma py_for_fold {A V R} (f : V -> A -> V) (l : list A) (body : A -> V -> flow V R) v :
  (forall x w, In x l -> body x w = Nxt (f w x)) -> py_for l body v = Nxt (fold_left f l v).
Proof.
  revert v. induction l as [|x l IH]; intros v H; [reflexivity|].
  cbn [py_for fold_left]. rewrite (H x v (or_introl eq_refl)). apply IH. intros y w Hy. apply H. right. exact Hy.
Qed.

(* a loop that appends g x per element *)
Lemma py_for_append {A B R} (g : A -> list B) (l : list A) (body : A -> list B -> flow (list B) R) acc :
  (forall x w, In x l -> body x w = Nxt (w ++ g x)) -> py_for l body acc = Nxt (acc ++ flat_map g l).
Proof.
  revert acc. induction l as [|x l IH]; intros acc H.
  - cbn. rewrite app_nil_r. reflexivity.
  - cbn [py_for flat_map]. rewrite (H x acc (or_introl eq_refl)). rewrite IH.
    + rewrite app_assoc. reflexivity.
    + intros y w Hy. apply H. right. exact Hy.
Qed.

(* a loop without live variables whose body always falls through does nothing *)
Lemma py_for_skip {A R} (l : list A) (body : A -> unit -> flow unit R) :
  (forall x, In x l -> body x tt = Nxt tt) -> py_for l body tt = Nxt tt.
Proof.
  induction l as [|x l IH]; intros H; [reflexivity|].
  cbn [py_for]. rewrite (H x (or_introl eq_refl)). apply IH. intros y Hy. apply H. right. exact Hy.
Qed.

(* a search loop: falls through while the test is false, returns r at the first element where it is true *)
Lemma py_for_search {A R} (test : A -> bool) (r : R) (l : list A) (body : A -> unit -> flow unit R) :
  (forall x, In x l -> body x tt = if test x then Ret r else Nxt tt) ->
  py_for l body tt = if existsb test l then Ret r else Nxt tt.
Proof.
  induction l as [|x l IH]; intros H; [reflexivity|].
  cbn [py_for existsb]. rewrite (H x (or_introl eq_refl)). destruct (test x); [reflexivity|].
  cbn [orb]. apply IH. intros y Hy. apply H. right. exact Hy.
Qed.

Lemma py_mapM_total {A B} (f : A -> option B) (g : A -> B) l :
  (forall x, In x l -> f x = Some (g x)) -> py_mapM f l = Some (map g l).
Proof.
  induction l as [|x l IH]; intros H; [reflexivity|].
  cbn [py_mapM map]. rewrite (H x (or_introl eq_refl)). rewrite IH; [reflexivity|].
  intros y Hy. apply H. right. exact Hy.
Qed.

(* ------------------------------------------------------------------ ranges, sums *)
Lemma py_range_zrange n : py_range n = zrange n.
Proof. reflexivity. Qed.

Lemma py_range_seq n : py_range (Z.of_nat n) = map Z.of_nat (seq 0 n).
Proof. unfold py_range. rewrite Nat2Z.id. reflexivity. Qed.

Lemma py_range_In n x : In x (py_range n) <-> 0 <= x < n.
Proof. apply zrange_In. Qed.

Lemma py_range2_1 n : py_range2 1 (n + 1) = map (fun q0 => q0 + 1) (zrange n).
Proof.
  unfold py_range2. replace (n + 1 - 1) with n by lia. rewrite py_range_zrange.
  apply map_ext. intros a. lia.
Qed.

Lemma fold_left_add_acc l a : fold_left Z.add l a = a + sumZ l.
Proof.
  revert a. induction l as [|x l IH]; intros a; cbn [fold_left].
  - unfold sumZ. cbn. lia.
  - rewrite IH. change (sumZ (x :: l)) with (x + sumZ l). lia.
Qed.

Lemma py_sum_sumZ l : py_sum l = sumZ l.
Proof. unfold py_sum. rewrite fold_left_add_acc. lia. Qed.

Lemma fact_nat_fact n : fact_nat n = fact n.
Proof. induction n as [|n IH]; [reflexivity|]. cbn [fact_nat fact]. rewrite IH. reflexivity. Qed.

Lemma py_factorial_nat n : py_factorial (Z.of_nat n) = Some (fact n).
Proof.
  unfold py_factorial. destruct (Z.of_nat n <? 0) eqn:E; [apply Z.ltb_lt in E; lia|].
  rewrite Nat2Z.id, fact_nat_fact. reflexivity.
Qed.

(* ------------------------------------------------------------------ indexing inside the bounds *)
Lemma py_index_in {A} (l : list A) (d : nat) : (d < length l)%nat -> py_index l (Z.of_nat d) = Some d.
Proof.
  intros H. unfold py_index, py_len.
  destruct (0 <=? Z.of_nat d) eqn:E1; [|apply Z.leb_gt in E1; lia].
  destruct (Z.of_nat d <? Z.of_nat (length l)) eqn:E2; [|apply Z.ltb_ge in E2; lia].
  cbn [andb]. rewrite Nat2Z.id. reflexivity.
Qed.

Lemma py_getitem_in (l : list Z) (d : nat) : (d < length l)%nat -> py_getitem l (Z.of_nat d) = Some (nth d l 0).
Proof.
  intros H. unfold py_getitem. rewrite py_index_in by exact H.
  apply nth_error_nth'. exact H.
Qed.

Lemma list_set_bump (l : list Z) d c : list_set l d (nth d l 0 + c) = bump d c l.
Proof.
  revert d. induction l as [|x l IH]; intros d; [destruct d; reflexivity|].
  destruct d as [|d]; cbn [list_set bump nth]; [reflexivity|]. rewrite IH. reflexivity.
Qed.

Lemma py_setitem_bump (l : list Z) (d : nat) c :
  (d < length l)%nat -> py_setitem l (Z.of_nat d) (nth d l 0 + c) = Some (bump d c l).
Proof. intros H. unfold py_setitem. rewrite py_index_in by exact H. rewrite list_set_bump. reflexivity. Qed.

(* l[d] += c  (read, then write) *)
Lemma py_incr_item (l : list Z) (d : nat) c {V R} (k : list Z -> flow V R) :
  (d < length l)%nat ->
  bindE (py_getitem l (Z.of_nat d)) (fun t => bindE (py_setitem l (Z.of_nat d) (t + c)) k) = k (bump d c l).
Proof. intros H. rewrite py_getitem_in by exact H. cbn [bindE]. rewrite py_setitem_bump by exact H. reflexivity. Qed.

(* ------------------------------------------------------------------ sets and dicts = the model's *)
Lemma tup_eqb_lv_eqb a b : tup_eqb a b = lv_eqb a b.
Proof. reflexivity. Qed.   (* the two fixpoints have the same body *)

Lemma py_set_mem_mem x s : py_set_mem x s = mem x s.
Proof.
  unfold py_set_mem, mem. induction s as [|y s IH]; [reflexivity|]. cbn [existsb]. rewrite IH, tup_eqb_lv_eqb. reflexivity.
Qed.

Lemma py_set_add_eq x s : py_set_add x s = set_add x s.
Proof. unfold py_set_add, set_add. rewrite py_set_mem_mem. reflexivity. Qed.

Lemma py_set_remove_eq x s : mem x s = true -> py_set_remove x s = Some (set_remove x s).
Proof.
  intros H. unfold py_set_remove, set_remove. rewrite py_set_mem_mem, H. reflexivity.
Qed.

Lemma py_set_remove_absent x s : mem x s = false -> py_set_remove x s = None.
Proof. intros H. unfold py_set_remove. rewrite py_set_mem_mem, H. reflexivity. Qed.

Lemma py_set_union_eq s t : py_set_union s t = set_union s t.
Proof.
  unfold py_set_union, set_union. revert s. induction t as [|x t IH]; intros s; [reflexivity|].
  cbn [fold_left]. rewrite py_set_add_eq. apply IH.
Qed.

Lemma py_set_of_list_eq l : py_set_of_list l = set_of_list l.
Proof. apply py_set_union_eq. Qed.

Lemma py_product_cross ls : py_product ls = cross ls.
Proof. induction ls as [|a r IH]; [reflexivity|]. cbn [py_product cross]. rewrite IH. reflexivity. Qed.

Lemma py_map2_add_lv_add a b : py_map2 (fun x y => x + y) a b = lv_add a b.
Proof. revert b. induction a as [|x a IH]; intros [|y b]; cbn [py_map2 lv_add]; try reflexivity. rewrite IH. reflexivity. Qed.

Lemma py_dict_mem_get {V} k (d : list (tup * V)) : py_dict_mem k d = false -> py_dict_get d k = None.
Proof.
  induction d as [|[k' v] d IH]; [reflexivity|]. unfold py_dict_mem. cbn [existsb fst py_dict_get].
  destruct (tup_eqb k k'); [discriminate|]. cbn [orb]. exact IH.
Qed.

(* the insert-or-accumulate idiom  `if k in d: d[k] += v  else: d[k] = v`  is the model's dict_add *)
Lemma py_dict_accumulate k v (d : list (tup * Z)) :
  (if py_dict_mem k d
   then match py_dict_get d k with Some t => Some (py_dict_set d k (t + v)) | None => None end
   else Some (py_dict_set d k v)) = Some (dict_add k v d).
Proof.
  induction d as [|[k' v'] d IH].
  - reflexivity.
  - unfold py_dict_mem in *. cbn [existsb fst py_dict_get py_dict_set dict_add].
    change (lv_eqb k k') with (tup_eqb k k'). destruct (tup_eqb k k') eqn:E; cbn [orb]; [reflexivity|].
    destruct (existsb (fun kv => tup_eqb k (fst kv)) d).
    + destruct (py_dict_get d k); [|discriminate]. injection IH as IH. rewrite IH. reflexivity.
    + injection IH as IH. rewrite IH. reflexivity.
Qed.

(* ------------------------------------------------------------------ rationals *)
Lemma py_Z2Qc_mul a b : (py_Z2Qc (a * b) = py_Z2Qc a * py_Z2Qc b)%Qc.
Proof.
  unfold py_Z2Qc. apply Qc_is_canon. cbn [this Qcmult Q2Qc]. rewrite !Qred_correct.
  unfold inject_Z, Qeq, Qmult. cbn. lia.
Qed.

Lemma py_Z2Qc_nonzero b : b <> 0 -> py_Z2Qc b <> Q2Qc 0.
Proof.
  intros H E. unfold py_Z2Qc in E. apply (f_equal this) in E. cbn [this Q2Qc] in E.
  assert (Qred (inject_Z b) == Qred 0)%Q as E' by (rewrite E; reflexivity).
  rewrite !Qred_correct in E'. unfold inject_Z, Qeq in E'. cbn in E'. lia.
Qed.

(* exact division: int / int of a multiple *)
Lemma py_truediv_exact c b : b <> 0 -> py_truediv (c * b) b = Some (py_Z2Qc c).
Proof.
  intros H. unfold py_truediv. destruct (b =? 0) eqn:E; [apply Z.eqb_eq in E; contradiction|].
  f_equal. rewrite py_Z2Qc_mul. field. apply py_Z2Qc_nonzero. exact H.
Qed.

(* ------------------------------------------------------------------ further loop / index lemmas *)
Lemma py_for_map {A B V R} (f : A -> B) (l : list A) (body : B -> V -> flow V R) v :
  py_for (map f l) body v = py_for l (fun x => body (f x)) v.
Proof.
  revert v. induction l as [|x l IH]; intros v; [reflexivity|].
  cbn [map py_for]. destruct (body (f x) v); try reflexivity. apply IH.
Qed.

Lemma py_setitem_in (l : list Z) (d : nat) v :
  (d < length l)%nat -> py_setitem l (Z.of_nat d) v = Some (bump d (v - nth d l 0) l).
Proof.
  intros H. rewrite <- py_setitem_bump by exact H. f_equal. lia.
Qed.

Lemma existsb_negb_forallb {A} (f : A -> bool) l : existsb f l = negb (forallb (fun x => negb (f x)) l).
Proof.
  induction l as [|x l IH]; [reflexivity|]. cbn [existsb forallb]. rewrite IH.
  destruct (f x); reflexivity.
Qed.

Lemma forallb_ext_in {A} (f g : A -> bool) l : (forall x, In x l -> f x = g x) -> forallb f l = forallb g l.
Proof.
  induction l as [|x l IH]; intros H; [reflexivity|]. cbn [forallb].
  rewrite (H x (or_introl eq_refl)), IH; [reflexivity|]. intros y Hy. apply H. right. exact Hy.
Qed.

(* simulation of a loop without return/raise by a fold over related states *)
Lemma py_for_sim {A B V W R} (rel : V -> W -> Prop) (f : W -> B -> W) (g : B -> A) (l : list B)
      (body : A -> V -> flow V R) v w :
  rel v w ->
  (forall x v w, In x l -> rel v w -> exists v', body (g x) v = Nxt v' /\ rel v' (f w x)) ->
  exists v', py_for (map g l) body v = Nxt v' /\ rel v' (fold_left f l w).
Proof.
  revert v w. induction l as [|x l IH]; intros v w Hr H.
  - exists v. split; [reflexivity|exact Hr].
  - cbn [map py_for fold_left]. destruct (H x v w (or_introl eq_refl) Hr) as [v1 [E1 R1]]. rewrite E1.
    apply IH; [exact R1|]. intros y v2 w2 Hy. apply H. right. exact Hy.
Qed.

(* the insert-or-accumulate idiom as a statement block *)
Lemma py_dict_accumulate_flow {R} k v (d : list (tup * Z)) :
  (if py_dict_mem k d
   then bindE (py_dict_get d k) (fun t => @Nxt (list (tup * Z)) R (py_dict_set d k (t + v)))
   else Nxt (py_dict_set d k v)) = Nxt (dict_add k v d) :> flow (list (tup * Z)) R.
Proof.
  pose proof (py_dict_accumulate k v d) as H.
  destruct (py_dict_mem k d).
  - destruct (py_dict_get d k); [|discriminate]. cbn [bindE]. injection H as H. rewrite H. reflexivity.
  - injection H as H. rewrite H. reflexivity.
Qed.

Lemma fold_left_flat_map {A B C} (f : A -> C -> A) (h : B -> list C) l a :
  fold_left f (flat_map h l) a = fold_left (fun a x => fold_left f (h x) a) l a.
Proof.
  revert a. induction l as [|x l IH]; intros a; [reflexivity|].
  cbn [flat_map fold_left]. rewrite fold_left_app. apply IH.
Qed.

Lemma fold_left_map {A B C} (f : A -> C -> A) (h : B -> C) l a :
  fold_left f (map h l) a = fold_left (fun a x => f a (h x)) l a.
Proof. revert a. induction l as [|x l IH]; intros a; [reflexivity|]. cbn [map fold_left]. apply IH. Qed.

Lemma fold_left_ext_in {A B} (f g : A -> B -> A) l a :
  (forall a x, In x l -> f a x = g a x) -> fold_left f l a = fold_left g l a.
Proof.
  revert a. induction l as [|x l IH]; intros a H; [reflexivity|]. cbn [fold_left].
  rewrite (H a x (or_introl eq_refl)). apply IH. intros b y Hy. apply H. right. exact Hy.
Qed.

Lemma flat_map_ext_in' {A B} (f g : A -> list B) l : (forall x, In x l -> f x = g x) -> flat_map f l = flat_map g l.
Proof.
  induction l as [|x l IH]; intros H; [reflexivity|]. cbn [flat_map].
  rewrite (H x (or_introl eq_refl)), IH; [reflexivity|]. intros y Hy. apply H. right. exact Hy.
Qed.

(* one value per position of a list *)
Lemma flat_map_seq_nth (f : Z -> list Z) (g : list Z) :
  flat_map (fun d => [f (nth d g 0)]) (seq 0 (length g)) = map f g.
Proof.
  induction g as [|x g IH] using rev_ind; [reflexivity|].
  rewrite app_length. cbn [length]. rewrite Nat.add_1_r, seq_S, flat_map_app, map_app. cbn [flat_map map app Nat.add].
  rewrite app_nth2, Nat.sub_diag by lia. cbn [nth]. f_equal.
  rewrite <- IH. apply flat_map_ext_in'. intros a Ha. apply in_seq in Ha. rewrite app_nth1 by lia. reflexivity.
Qed.

Lemma flat_map_filter_map {A B} (p : A -> bool) (h : A -> B) l :
  flat_map (fun x => if p x then [h x] else []) l = map h (filter p l).
Proof.
  induction l as [|x l IH]; [reflexivity|]. cbn [flat_map filter]. destruct (p x); cbn [map app]; rewrite IH; reflexivity.
Qed.

Lemma map_flat_map' {A B C} (h : B -> C) (f : A -> list B) l :
  map h (flat_map f l) = flat_map (fun x => map h (f x)) l.
Proof. induction l as [|x l IH]; [reflexivity|]. cbn [flat_map]. rewrite map_app, IH. reflexivity. Qed.

(* (-1) ** q *)
Lemma py_pow_m1 q : py_pow (-1) (Z.of_nat q) = if Nat.even q then 1 else -1.
Proof.
  unfold py_pow. induction q as [|q IH]; [reflexivity|].
  rewrite Nat2Z.inj_succ, Z.pow_succ_r by lia. rewrite IH.
  rewrite Nat.even_succ, <- Nat.negb_even. destruct (Nat.even q); reflexivity.
Qed.

(* np.array(g) + np.ones(m) * c  for a vector g of m entries *)
Lemma np_shift (g : list Z) m c : length g = m ->
  np_add g (np_scale (repeat 1 m) c) = Some (map (fun l => l + c) g).
Proof.
  intros H. unfold np_add, np_scale. rewrite map_length, repeat_length.
  replace (length g =? m)%nat with true by (symmetry; apply Nat.eqb_eq; exact H). f_equal.
  subst m. induction g as [|x g IH]; [reflexivity|]. cbn [length repeat map py_map2]. rewrite IH. f_equal. lia.
Qed.

Lemma np_ones_nat m : np_ones (Z.of_nat m) = Some (repeat 1 m).
Proof.
  unfold np_ones. destruct (Z.of_nat m <? 0) eqn:E; [apply Z.ltb_lt in E; lia|]. rewrite Nat2Z.id. reflexivity.
Qed.

(* `acc = []; for x in l: acc.append(f x)`  is the list comprehension [f x for x in l] *)
Lemma py_for_map_append {A B R} (f : A -> B) (l : list A) (a : list B) :
  py_for l (fun x acc => @Nxt (list B) R (acc ++ [f x])) a = Nxt (a ++ map f l).
Proof.
  rewrite (py_for_append (fun x => [f x])); [|intros x w _; reflexivity].
  replace (flat_map (fun x => [f x]) l) with (map f l); [reflexivity|].
  induction l as [|x l IH]; [reflexivity|]. cbn [flat_map map app]. rewrite <- IH. reflexivity.
Qed.

Lemma py_range2_0 n : py_range2 0 n = py_range n.
Proof. unfold py_range2. rewrite Z.sub_0_r. rewrite <- (map_id (py_range n)) at 2. apply map_ext. intros a. lia. Qed.
