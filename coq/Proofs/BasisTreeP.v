(* C10 — acceptance of EVERY refinement tree: for every tree (arbitrary depth and shape, arbitrary strictly increasing
   coordinates), every order p >= 1 and both boundary flags, the hierarchical Lagrange system built by the tree recursion
   (Model/BasisTree.v) is accepted by the structural checker hier_okb along the level order; hence its collocation matrix is
   unit lower triangular, forward substitution solves it and the solution is unique. *)
From Coq Require Import ZArith List QArith Qcanon Bool Arith Lia Permutation.
From SG Require Import Base.QcUtil Model.Basis Model.BasisTree Proofs.BasisLagrange Proofs.BasisHier Proofs.BasisInterp Proofs.BasisCheck.
Import ListNotations.
Open Scope Qc_scope.

(* ------------------------------------------------------------------ index_of *)
Lemma index_of_spec x : forall K i, index_of x K = Some i -> (i < length K)%nat /\ nthQ K i = x.
Proof.
  induction K as [|y K IH]; intros i H; [discriminate|].
  cbn [index_of] in H. destruct (Qc_eqb x y) eqn:E.
  - injection H as H. subst i. apply Qc_eqb_eq in E. split; [simpl; lia | symmetry; exact E].
  - destruct (index_of x K) as [j|]; [|discriminate]. injection H as H. subst i.
    destruct (IH j eq_refl) as [H1 H2]. split; [simpl; lia | exact H2].
Qed.

Lemma Qc_eqb_refl x : Qc_eqb x x = true.
Proof. apply Qc_eqb_eq. reflexivity. Qed.

Lemma Qc_eqb_neq x y : x <> y -> Qc_eqb x y = false.
Proof. intro H. destruct (Qc_eqb x y) eqn:E; [|reflexivity]. apply Qc_eqb_eq in E. contradiction. Qed.

Lemma index_of_app_fresh x kl kr : ~ In x kl -> index_of x (kl ++ x :: kr) = Some (length kl).
Proof.
  induction kl as [|y kl IH]; intro H; cbn [app index_of length].
  - rewrite Qc_eqb_refl. reflexivity.
  - rewrite Qc_eqb_neq by (intro E; apply H; left; symmetry; exact E).
    rewrite IH by (intro Hin; apply H; right; exact Hin). reflexivity.
Qed.

Lemma index_of_nth K : NoDup K -> forall i, (i < length K)%nat -> index_of (nthQ K i) K = Some i.
Proof.
  induction K as [|y K IH]; intros Hnd i Hi; [simpl in Hi; lia|].
  inversion Hnd as [|? ? Hnin Hnd']; subst. destruct i as [|i].
  - unfold nthQ. cbn [nth index_of]. rewrite Qc_eqb_refl. reflexivity.
  - unfold nthQ. cbn [nth index_of]. fold (nthQ K i).
    rewrite Qc_eqb_neq.
    + rewrite IH by (assumption || (simpl in Hi; lia)). reflexivity.
    + intro E. apply Hnin. rewrite <- E. apply nth_In. simpl in Hi. lia.
Qed.

Lemma In_memQ x K : In x K -> memQ x K = true.
Proof.
  unfold memQ. induction K as [|y K IH]; intro H; [contradiction|].
  cbn [index_of]. destruct (Qc_eqb x y) eqn:E; [reflexivity|].
  destruct H as [H|H]; [subst; rewrite Qc_eqb_refl in E; discriminate|].
  specialize (IH H). destruct (index_of x K); [reflexivity | discriminate].
Qed.

(* ------------------------------------------------------------------ strictly increasing lists *)
Lemma si_tail x r : strictly_increasing (x :: r) = true -> strictly_increasing r = true.
Proof. destruct r as [|y r']; [reflexivity|]. cbn [strictly_increasing]. intro H. apply andb_true_iff in H. exact (proj2 H). Qed.

Lemma si_cons x r : strictly_increasing r = true -> (forall y, In y r -> x < y) -> strictly_increasing (x :: r) = true.
Proof.
  destruct r as [|y r']; [reflexivity|]. intros H1 H2. cbn [strictly_increasing]. apply andb_true_iff. split; [|exact H1].
  apply Qc_ltb_lt. apply H2. left. reflexivity.
Qed.

Lemma si_app l1 l2 :
  strictly_increasing l1 = true -> strictly_increasing l2 = true -> (forall x y, In x l1 -> In y l2 -> x < y) ->
  strictly_increasing (l1 ++ l2) = true.
Proof.
  induction l1 as [|a l1 IH]; intros H1 H2 H; [exact H2|].
  cbn [app]. apply si_cons.
  - apply IH; [exact (si_tail _ _ H1) | exact H2 | intros x y Hx Hy; apply H; [right; exact Hx | exact Hy]].
  - intros y Hy. apply in_app_iff in Hy. destruct Hy as [Hy|Hy].
    + exact (strictly_increasing_lt_tail a l1 H1 y Hy).
    + apply H; [left; reflexivity | exact Hy].
Qed.

Lemma si_skipn : forall s K, strictly_increasing K = true -> strictly_increasing (skipn s K) = true.
Proof.
  induction s as [|s IH]; intros K H; [exact H|]. destruct K as [|x K]; [reflexivity|]. cbn [skipn]. apply IH. exact (si_tail _ _ H).
Qed.

Lemma In_firstn {A} : forall m (K : list A) y, In y (firstn m K) -> In y K.
Proof.
  induction m as [|m IH]; intros K y H; [contradiction|]. destruct K as [|x K]; [contradiction|].
  cbn [firstn] in H. destruct H as [H|H]; [left; exact H | right; exact (IH K y H)].
Qed.

Lemma si_firstn : forall m K, strictly_increasing K = true -> strictly_increasing (firstn m K) = true.
Proof.
  induction m as [|m IH]; intros K H; [reflexivity|]. destruct K as [|x K]; [reflexivity|]. cbn [firstn].
  apply si_cons; [apply IH; exact (si_tail _ _ H)|].
  intros y Hy. apply (strictly_increasing_lt_tail x K H). exact (In_firstn _ _ _ Hy).
Qed.

(* ------------------------------------------------------------------ the window is a segment of the knot list around x *)
Lemma half_sum p : (p / 2 + (p + 1) / 2 = p)%nat.
Proof.
  assert (H : forall n, (n / 2 + (n + 1) / 2 = n)%nat /\ ((n + 1) / 2 + (n + 2) / 2 = n + 1)%nat).
  { induction n as [|n [IH1 IH2]].
    - split; reflexivity.
    - split.
      + replace (S n + 1)%nat with (n + 2)%nat by lia. replace (S n) with (n + 1)%nat by lia. rewrite Nat.add_comm. rewrite Nat.add_comm in IH2. lia.
      + replace (S n + 1)%nat with (n + 2)%nat by lia. replace (S n + 2)%nat with (n + 1 + 1 * 2)%nat by lia.
        rewrite Nat.div_add by lia. lia. }
  exact (proj1 (H p)).
Qed.

Lemma window_segment p K x i :
  (1 <= p)%nat -> index_of x K = Some i ->
  exists s m, window p K x = Some (firstn m (skipn s K)) /\ (s <= i)%nat /\ (i < s + m)%nat /\ (s + m <= length K)%nat.
Proof.
  intros Hp Hi. destruct (index_of_spec x K i Hi) as [Hlt _]. unfold window. rewrite Hi.
  pose proof (half_sum p) as HS.
  assert (Hh : (1 <= (p + 1) / 2)%nat) by (apply Nat.div_le_lower_bound; lia).
  destruct (Nat.ltb_spec (p + 1) (length K)) as [Hw|Hw].
  - destruct (Nat.ltb_spec i ((p + 1) / 2)) as [H1|H1].
    + exists O, (p + 1)%nat. cbn [skipn]. split; [reflexivity|]. lia.
    + destruct (Nat.ltb_spec (length K - i - 1) (p / 2)) as [H2|H2].
      * exists (length K - (p + 1))%nat, (p + 1)%nat. split.
        { rewrite firstn_all2; [reflexivity|]. rewrite skipn_length. lia. }
        lia.
      * exists (i - (p + 1) / 2)%nat, (p + 1)%nat. split; [reflexivity|]. lia.
  - exists O, (length K). cbn [skipn]. rewrite firstn_all. split; [reflexivity|]. lia.
Qed.

(* ------------------------------------------------------------------ the basis built from a knot list *)
Definition outside_neighbours (K : list Qc) (i : nat) (x y : Qc) : Prop :=
  (y < x /\ (i = O \/ y <= nthQ K (i - 1))) \/ (x < y /\ ((i + 1 = length K)%nat \/ nthQ K (i + 1) <= y)).

Lemma Qcle_lt_eq_dec (a b : Qc) : a <= b -> {a < b} + {a = b}.
Proof.
  intro H. destruct (Qc_eq_dec a b) as [E|E]; [right; exact E | left].
  destruct (Qclt_le_dec a b) as [L|L]; [exact L|]. exfalso. apply E. apply Qcle_antisym; assumption.
Qed.

Lemma knot_basis_ok p K x i :
  (1 <= p)%nat -> strictly_increasing K = true -> index_of x K = Some i ->
  exists kw ix, knot_basis p K x = Some (BRLag kw ix) /\ rl_ok x (BRLag kw ix) = true
    /\ forall y, outside_neighbours K i x y -> rl_vanish_witness kw ix y = true.
Proof.
  intros Hp Hs Hi. destruct (index_of_spec x K i Hi) as [Hlt Hx].
  destruct (window_segment p K x i Hp Hi) as [s [m [Hw [H1 [H2 H3]]]]].
  set (kw := firstn m (skipn s K)) in *.
  assert (Lkw : length kw = m) by (unfold kw; rewrite firstn_length_le; [reflexivity | rewrite skipn_length; lia]).
  assert (Nkw : forall j, (j < m)%nat -> nthQ kw j = nthQ K (s + j)).
  { intros j Hj. unfold kw. rewrite nthQ_firstn by exact Hj. apply nthQ_skipn. }
  assert (Skw : strictly_increasing kw = true) by (unfold kw; apply si_firstn; apply si_skipn; exact Hs).
  assert (Xkw : nthQ kw (i - s) = x) by (rewrite Nkw by lia; replace (s + (i - s))%nat with i by lia; exact Hx).
  assert (Ikw : index_of x kw = Some (i - s)%nat).
  { rewrite <- Xkw. apply index_of_nth; [apply strictly_increasing_NoDup; exact Skw | lia]. }
  exists kw, (i - s)%nat. unfold knot_basis. rewrite Hw, Ikw. split; [reflexivity|]. split.
  - cbn [rl_ok]. rewrite Skw, Xkw, Qc_eqb_refl. destruct (Nat.ltb_spec (i - s) (length kw)); [reflexivity | lia].
  - intros y Hy. unfold rl_vanish_witness, rl_lo, rl_hi. rewrite Lkw, Xkw.
    destruct Hy as [[Hyx Hn]|[Hxy Hn]].
    + (* y left of x *)
      destruct (Nat.eq_dec (i - s) 0) as [E0|E0].
      * rewrite E0. cbn [Nat.sub]. rewrite <- E0, Xkw.
        assert (T : Qc_ltb y x = true) by (apply Qc_ltb_lt; exact Hyx). rewrite T. rewrite orb_true_r. reflexivity.
      * assert (Elo : nthQ kw (i - s - 1) = nthQ K (i - 1)) by (rewrite Nkw by lia; f_equal; lia).
        rewrite Elo. destruct Hn as [Hn|Hn]; [lia|].
        destruct (Qcle_lt_eq_dec _ _ Hn) as [L|Eq].
        -- assert (T : Qc_ltb y (nthQ K (i - 1)) = true) by (apply Qc_ltb_lt; exact L). rewrite T. rewrite orb_true_r. reflexivity.
        -- assert (M : memQ y kw = true).
           { apply In_memQ. rewrite Eq, <- Elo. apply nth_In. lia. }
           assert (Ne : Qc_eqb y x = false) by (apply Qc_eqb_neq; intro E; rewrite E in Hyx; exact (Qclt_not_le _ _ Hyx (Qcle_refl _))).
           rewrite M, Ne. reflexivity.
    + (* y right of x *)
      destruct (Nat.ltb_spec (i - s + 1) m) as [Hin|Hin].
      * replace (Nat.min (i - s + 1) (m - 1)) with (i - s + 1)%nat by lia.
        assert (Ehi : nthQ kw (i - s + 1) = nthQ K (i + 1)) by (rewrite Nkw by lia; f_equal; lia).
        rewrite Ehi. destruct Hn as [Hn|Hn]; [lia|].
        destruct (Qcle_lt_eq_dec _ _ Hn) as [L|Eq].
        -- assert (T : Qc_ltb (nthQ K (i + 1)) y = true) by (apply Qc_ltb_lt; exact L). rewrite T. rewrite orb_true_r. reflexivity.
        -- assert (M : memQ y kw = true).
           { apply In_memQ. rewrite <- Eq, <- Ehi. apply nth_In. lia. }
           assert (Ne : Qc_eqb y x = false) by (apply Qc_eqb_neq; intro E; rewrite E in Hxy; exact (Qclt_not_le _ _ Hxy (Qcle_refl _))).
           rewrite M, Ne. reflexivity.
      * replace (Nat.min (i - s + 1) (m - 1)) with (i - s)%nat by lia. rewrite Xkw.
        assert (T : Qc_ltb x y = true) by (apply Qc_ltb_lt; exact Hxy). rewrite T. rewrite orb_true_r. reflexivity.
Qed.

(* ------------------------------------------------------------------ the tree *)
Fixpoint in_range (u v : Qc) (t : rtree) : Prop :=
  match t with
  | RLeaf => True
  | RNode l x r => u < x /\ x < v /\ in_range u x l /\ in_range x v r
  end.

(* the knot lists handed down the tree: kl the knots left of the interval (ending in u when there are any), kr those right of it *)
Definition ctx (kl kr : list Qc) (u v : Qc) : Prop :=
  strictly_increasing kl = true /\ strictly_increasing kr = true
  /\ (forall y, In y kl -> y <= u) /\ (forall y, In y kr -> v <= y)
  /\ (kl = [] \/ last kl 0 = u) /\ (kr = [] \/ hd 0 kr = v).

Definition elem : Type := (Qc * basis * nat)%type.
Definition ept (e : elem) : Qc := fst (fst e).
Definition elev (e : elem) : nat := snd e.
Definition wit (e : elem) (y : Qc) : Prop :=
  match snd (fst e) with BRLag kw ix => rl_vanish_witness kw ix y = true | _ => False end.
Definition eok (e : elem) : Prop := rl_ok (ept e) (snd (fst e)) = true.

Definition good_out (u v : Qc) (e : elem) : Prop :=
  eok e /\ u < ept e /\ ept e < v /\ forall y, (y <= u \/ v <= y) -> wit e y.

Definition pairwise (es : list elem) : Prop :=
  forall e e', In e es -> In e' es -> ept e <> ept e' -> (elev e' <= elev e)%nat -> wit e (ept e').

Lemma nth_last_app (kl r : list Qc) : kl <> [] -> nthQ (kl ++ r) (length kl - 1) = last kl 0.
Proof.
  induction kl as [|a kl IH]; intro H; [contradiction|].
  destruct kl as [|b kl]; [reflexivity|].
  replace (length (a :: b :: kl) - 1)%nat with (S (length (b :: kl) - 1)) by (simpl; lia).
  change (nthQ ((a :: b :: kl) ++ r) (S (length (b :: kl) - 1))) with (nthQ ((b :: kl) ++ r) (length (b :: kl) - 1)).
  rewrite IH by discriminate. reflexivity.
Qed.

Lemma nth_after_app (kl : list Qc) x kr : nthQ (kl ++ x :: kr) (length kl + 1) = hd 0 kr.
Proof.
  unfold nthQ. rewrite app_nth2 by lia. replace (length kl + 1 - length kl)%nat with 1%nat by lia.
  destruct kr; reflexivity.
Qed.

Lemma combine_app_eq {A B} (a1 a2 : list A) (b1 b2 : list B) :
  length a1 = length b1 -> combine (a1 ++ a2) (b1 ++ b2) = combine a1 b1 ++ combine a2 b2.
Proof.
  revert b1; induction a1 as [|x a1 IH]; intros [|y b1] H; try discriminate; [reflexivity|].
  cbn [app combine]. rewrite IH by (simpl in H; lia). reflexivity.
Qed.

Lemma rt_main p : (1 <= p)%nat -> forall t kl kr u v lu lv,
  in_range u v t -> ctx kl kr u v ->
  exists sy, rt_system p kl kr t = Some sy /\ map fst sy = rt_points t /\ length sy = length (rt_levels lu lv t)
    /\ (forall e, In e (combine sy (rt_levels lu lv t)) -> good_out u v e /\ (Nat.max lu lv < elev e)%nat)
    /\ pairwise (combine sy (rt_levels lu lv t)).
Proof.
  intro Hp. induction t as [|l IHl x r IHr]; intros kl kr u v lu lv Hr Hc.
  - exists []. cbn. split; [reflexivity|]. split; [reflexivity|]. split; [reflexivity|]. split; [intros e []|]. intros e e' [].
  - destruct Hr as [Hux [Hxv [Hrl Hrr]]]. destruct Hc as [Skl [Skr [Bl [Br [Ll Lr]]]]].
    set (lx := S (Nat.max lu lv)).
    assert (Cl : ctx kl (x :: kr) u x).
    { split; [exact Skl|]. split.
      - apply si_cons; [exact Skr|]. intros y Hy. apply Qclt_le_trans with v; [exact Hxv | exact (Br y Hy)].
      - split; [exact Bl|]. split.
        + intros y [Hy|Hy]; [subst; apply Qcle_refl|]. apply Qclt_le_weak. apply Qclt_le_trans with v; [exact Hxv | exact (Br y Hy)].
        + split; [exact Ll | right; reflexivity]. }
    assert (Cr : ctx (kl ++ [x]) kr x v).
    { split.
      - apply si_app; [exact Skl | reflexivity |]. intros a b Ha [Hb|[]]. subst b. apply Qcle_lt_trans with u; [exact (Bl a Ha) | exact Hux].
      - split; [exact Skr|]. split.
        + intros y Hy. apply in_app_iff in Hy. destruct Hy as [Hy|[Hy|[]]]; [|subst; apply Qcle_refl].
          apply Qclt_le_weak. apply Qcle_lt_trans with u; [exact (Bl y Hy) | exact Hux].
        + split; [exact Br|]. split; [right; apply last_last | exact Lr]. }
    destruct (IHl kl (x :: kr) u x lu lx Hrl Cl) as [sl [El [Pl [Ln [Gl Wl]]]]].
    destruct (IHr (kl ++ [x]) kr x v lx lv Hrr Cr) as [sr [Er [Pr [Rn [Gr Wr]]]]].
    assert (SK : strictly_increasing (kl ++ x :: kr) = true).
    { apply si_app; [exact Skl | | ].
      - apply si_cons; [exact Skr|]. intros y Hy. apply Qclt_le_trans with v; [exact Hxv | exact (Br y Hy)].
      - intros a b Ha [Hb|Hb].
        + subst b. apply Qcle_lt_trans with u; [exact (Bl a Ha) | exact Hux].
        + apply Qcle_lt_trans with u; [exact (Bl a Ha)|]. apply Qclt_le_trans with v; [|exact (Br b Hb)].
          apply Qclt_trans with x; assumption. }
    assert (NI : ~ In x kl).
    { intro Hin. exact (Qclt_not_le _ _ Hux (Bl x Hin)). }
    destruct (knot_basis_ok p (kl ++ x :: kr) x (length kl) Hp SK (index_of_app_fresh x kl kr NI)) as [kw [ix [Ek [Ok Wk]]]].
    exists (sl ++ (x, BRLag kw ix) :: sr).
    cbn [rt_system rt_points rt_levels]. fold lx. rewrite El, Ek, Er.
    split; [reflexivity|]. split; [rewrite map_app; cbn [map fst]; rewrite Pl, Pr; reflexivity|].
    split; [rewrite !app_length; cbn [length]; rewrite Ln, Rn; reflexivity|].
    rewrite (combine_app_eq sl ((x, BRLag kw ix) :: sr) (rt_levels lu lx l) (lx :: rt_levels lx lv r) Ln).
    cbn [combine].
    set (esl := combine sl (rt_levels lu lx l)) in *. set (esr := combine sr (rt_levels lx lv r)) in *.
    set (em := ((x, BRLag kw ix), lx) : elem).
    assert (Gm : good_out u v em).
    { split; [exact Ok|]. split; [exact Hux|]. split; [exact Hxv|].
      intros y Hy. unfold wit, em. cbn [fst snd]. apply Wk. destruct Hy as [Hy|Hy].
      - left. split; [apply Qcle_lt_trans with u; assumption|].
        destruct (list_eq_dec Qc_eq_dec kl []) as [Ek0|Ek0]; [left; subst kl; reflexivity | right].
        destruct Ll as [Ll|Ll]; [contradiction|].
        rewrite (nth_last_app kl (x :: kr) Ek0), Ll. exact Hy.
      - right. split; [apply Qclt_le_trans with v; assumption|].
        destruct (list_eq_dec Qc_eq_dec kr []) as [Ek0|Ek0]; [left; subst kr; rewrite app_length; simpl; lia | right].
        destruct Lr as [Lr|Lr]; [contradiction|].
        rewrite nth_after_app, Lr. exact Hy. }
    assert (GL : forall e, In e esl -> good_out u v e /\ (Nat.max lu lv < elev e)%nat /\ ept e < x /\ (lx < elev e)%nat
                                     /\ (forall y, x <= y -> wit e y)).
    { intros e He. destruct (Gl e He) as [[A1 [A2 [A3 A4]]] A5].
      split; [|split; [lia|split; [exact A3|split; [lia|intros y Hy; apply A4; right; exact Hy]]]].
      split; [exact A1|]. split; [exact A2|]. split; [apply Qclt_trans with x; assumption|].
      intros y [Hy|Hy]; apply A4; [left; exact Hy | right; apply Qclt_le_weak; apply Qclt_le_trans with v; assumption]. }
    assert (GR : forall e, In e esr -> good_out u v e /\ (Nat.max lu lv < elev e)%nat /\ x < ept e /\ (lx < elev e)%nat
                                     /\ (forall y, y <= x -> wit e y)).
    { intros e He. destruct (Gr e He) as [[A1 [A2 [A3 A4]]] A5].
      split; [|split; [lia|split; [exact A2|split; [lia|intros y Hy; apply A4; left; exact Hy]]]].
      split; [exact A1|]. split; [apply Qclt_trans with x; assumption|]. split; [exact A3|].
      intros y [Hy|Hy]; apply A4; [left; apply Qclt_le_weak; apply Qcle_lt_trans with u; assumption | right; exact Hy]. }
    split.
    + intros e He. apply in_app_iff in He. destruct He as [He|[He|He]].
      * destruct (GL e He) as [A [B _]]. split; assumption.
      * subst e. split; [exact Gm | unfold elev, em; cbn [snd]; unfold lx; lia].
      * destruct (GR e He) as [A [B _]]. split; assumption.
    + intros e e' He He' Hne Hlev.
      apply in_app_iff in He. apply in_app_iff in He'.
      destruct He as [He|[He|He]]; destruct He' as [He'|[He'|He']].
      * exact (Wl e e' He He' Hne Hlev).
      * subst e'. destruct (GL e He) as [_ [_ [_ [_ A]]]]. apply A. apply Qcle_refl.
      * destruct (GL e He) as [_ [_ [_ [_ A]]]]. destruct (GR e' He') as [_ [_ [B _]]]. apply A. apply Qclt_le_weak. exact B.
      * subst e. destruct (GL e' He') as [_ [_ [_ [B _]]]]. unfold elev, em in Hlev. cbn [snd] in Hlev. unfold elev in B. lia.
      * subst e e'. exfalso. apply Hne. reflexivity.
      * subst e. destruct (GR e' He') as [_ [_ [_ [B _]]]]. unfold elev, em in Hlev. cbn [snd] in Hlev. unfold elev in B. lia.
      * destruct (GR e He) as [_ [_ [_ [_ A]]]]. destruct (GL e' He') as [_ [_ [B _]]]. apply A. apply Qclt_le_weak. exact B.
      * subst e'. destruct (GR e He) as [_ [_ [_ [_ A]]]]. apply A. apply Qcle_refl.
      * exact (Wr e e' He He' Hne Hlev).
Qed.

(* ------------------------------------------------------------------ the level order: a permutation, sorted by level *)
From Coq Require Import Sorting.Sorted.

Lemma ins_perm levs i : forall l, Permutation (insert_by_level levs i l) (i :: l).
Proof.
  induction l as [|j r IH]; [reflexivity|]. cbn [insert_by_level].
  destruct (nth i levs O <=? nth j levs O)%nat; [reflexivity|].
  apply perm_trans with (j :: i :: r); [apply perm_skip; exact IH | apply perm_swap].
Qed.

Lemma level_order_perm levs : Permutation (level_order levs) (seq 0 (length levs)).
Proof.
  unfold level_order. induction (seq 0 (length levs)) as [|i l IH]; [reflexivity|].
  cbn [fold_right]. apply perm_trans with (i :: fold_right (insert_by_level levs) [] l); [apply ins_perm | apply perm_skip; exact IH].
Qed.

Definition lle (levs : list nat) (i j : nat) : Prop := (nth i levs O <= nth j levs O)%nat.

Lemma ins_sorted levs i : forall l, StronglySorted (lle levs) l -> StronglySorted (lle levs) (insert_by_level levs i l).
Proof.
  induction l as [|j r IH]; intro H; [repeat constructor|]. cbn [insert_by_level].
  inversion H as [|? ? Hs Hf]; subst.
  destruct (Nat.leb_spec (nth i levs O) (nth j levs O)) as [L|L].
  - constructor; [exact H|]. constructor; [exact L|].
    apply Forall_impl with (2 := Hf). intros k Hk. unfold lle in *. lia.
  - constructor; [exact (IH Hs)|].
    apply (Permutation_Forall (Permutation_sym (ins_perm levs i r))).
    constructor; [unfold lle; lia | exact Hf].
Qed.

Lemma level_order_sorted levs : StronglySorted (lle levs) (level_order levs).
Proof.
  unfold level_order. induction (seq 0 (length levs)) as [|i l IH]; [constructor|]. cbn [fold_right]. apply ins_sorted. exact IH.
Qed.

Lemma sorted_split R (pre : list nat) o post : StronglySorted R (pre ++ o :: post) -> forall o', In o' pre -> R o' o.
Proof.
  induction pre as [|a pre IH]; intros H o' Ho'; [contradiction|].
  cbn [app] in H. inversion H as [|? ? Hs Hf]; subst. destruct Ho' as [E|Ho'].
  - subst o'. rewrite Forall_forall in Hf. apply Hf. apply in_app_iff. right. left. reflexivity.
  - exact (IH Hs o' Ho').
Qed.

Lemma perm_is_perm_seq ord n : Permutation ord (seq 0 n) -> is_perm_seq ord n = true.
Proof.
  intro H. unfold is_perm_seq. apply andb_true_iff. split.
  - apply Nat.eqb_eq. rewrite (Permutation_length H). apply seq_length.
  - apply forallb_forall. intros i Hi. apply existsb_exists. exists i. split; [|apply Nat.eqb_refl].
    exact (Permutation_in i (Permutation_sym H) Hi).
Qed.

(* ------------------------------------------------------------------ assembling the checker's verdict *)
Lemma hier_ok_ord_intro sys : forall ord earlier,
  (forall pre o post, ord = pre ++ o :: post ->
     exists x kw ix, nth_error sys o = Some (x, BRLag kw ix) /\ rl_ok x (BRLag kw ix) = true
       /\ forall y, (In y earlier \/ exists o', In o' pre /\ pt sys o' = y) -> rl_vanish_witness kw ix y = true) ->
  hier_ok_ord sys earlier ord = true.
Proof.
  induction ord as [|a r IH]; intros earlier H; [reflexivity|].
  destruct (H [] a r eq_refl) as [x [kw [ix [En [Ok Wv]]]]].
  cbn [hier_ok_ord]. rewrite En, Ok. cbn [andb].
  apply andb_true_iff. split.
  - apply forallb_forall. intros y Hy. apply Wv. left. exact Hy.
  - apply IH. intros pre o post E.
    destruct (H (a :: pre) o post) as [x' [kw' [ix' [En' [Ok' Wv']]]]]; [rewrite E; reflexivity|].
    exists x', kw', ix'. split; [exact En'|]. split; [exact Ok'|].
    intros y [[Hy|Hy]|[o' [Ho' Ey]]].
    + apply Wv'. right. exists a. split; [left; reflexivity|]. subst y. unfold pt. rewrite (nth_error_nth sys a dflt En). reflexivity.
    + apply Wv'. left. exact Hy.
    + apply Wv'. right. exists o'. split; [right; exact Ho' | exact Ey].
Qed.

Definition edflt : elem := (0, BLag [] 0, O).

Theorem elems_accepted (es : list elem) :
  NoDup (map ept es) -> (forall e, In e es -> eok e) -> pairwise es ->
  hier_okb (map fst es) (level_order (map snd es)) = true.
Proof.
  intros Hnd Hok Hpw. unfold hier_okb. rewrite map_length.
  pose proof (level_order_perm (map snd es)) as Hperm. rewrite map_length in Hperm.
  rewrite (perm_is_perm_seq _ _ Hperm). cbn [andb].
  apply hier_ok_ord_intro. intros pre o post E.
  assert (Ho : In o (seq 0 (length es))) by (apply (Permutation_in o Hperm); rewrite E; apply in_app_iff; right; left; reflexivity).
  apply in_seq in Ho.
  assert (Hol : (o < length es)%nat) by lia.
  assert (Ieo : In (nth o es edflt) es) by (apply nth_In; exact Hol).
  pose proof (Hok _ Ieo) as Oko. unfold eok in Oko.
  destruct (nth o es edflt) as [[x bf] lv] eqn:Eeo. cbn [ept fst snd] in Oko.
  destruct bf as [| kw ix | | | |]; try discriminate Oko.
  exists x, kw, ix. split.
  - assert (En : nth_error (map fst es) o = Some (nth o (map fst es) (fst edflt))) by (apply nth_error_nth'; rewrite map_length; exact Hol).
    rewrite En, map_nth. exact (f_equal (fun e : elem => Some (fst e)) Eeo).
  - split; [exact Oko|]. intros y [[]|[o' [Ho' Ey]]].
    assert (Ho'r : In o' (seq 0 (length es))) by (apply (Permutation_in o' Hperm); rewrite E; apply in_app_iff; left; exact Ho').
    apply in_seq in Ho'r.
    assert (Hne : o' <> o).
    { intro Eq. subst o'. assert (ND : NoDup (pre ++ o :: post)) by (rewrite <- E; apply (Permutation_NoDup (Permutation_sym Hperm)); apply seq_NoDup).
      apply NoDup_remove_2 in ND. apply ND. apply in_app_iff. left. exact Ho'. }
    set (eo' := nth o' es edflt).
    assert (Ey' : y = ept eo').
    { rewrite <- Ey. unfold pt. replace dflt with (fst edflt) by reflexivity. rewrite map_nth. reflexivity. }
    assert (Ho'l : (o' < length es)%nat) by lia.
    assert (Hlev : (elev eo' <= elev (nth o es edflt))%nat).
    { pose proof (level_order_sorted (map snd es)) as Hs. rewrite E in Hs.
      pose proof (sorted_split _ pre o post Hs o' Ho') as L. unfold lle in L.
      replace O with (snd edflt) in L by reflexivity. rewrite !map_nth in L. exact L. }
    assert (Hpt : ept (nth o es edflt) <> ept eo').
    { intro Eq. apply Hne.
      apply (proj1 (NoDup_nth (map ept es) (ept edflt)) Hnd); [rewrite map_length; exact Ho'l | rewrite map_length; exact Hol |].
      rewrite !map_nth. symmetry. exact Eq. }
    pose proof (Hpw (nth o es edflt) eo' (nth_In es edflt Hol) (nth_In es edflt Ho'l) Hpt Hlev) as W.
    rewrite Ey'. unfold wit in W.
    assert (Eb : snd (fst (nth o es edflt)) = BRLag kw ix) by exact (f_equal (fun e : elem => snd (fst e)) Eeo).
    rewrite Eb in W. exact W.
Qed.

(* ------------------------------------------------------------------ the whole 1-D grid *)
Lemma rt_points_sorted : forall t u v, in_range u v t ->
  (forall x, In x (rt_points t) -> u < x /\ x < v) /\ strictly_increasing (rt_points t) = true.
Proof.
  induction t as [|l IHl x r IHr]; intros u v H; [split; [intros y [] | reflexivity]|].
  destruct H as [Hux [Hxv [Hl Hr]]]. destruct (IHl u x Hl) as [Bl Sl]. destruct (IHr x v Hr) as [Br Sr].
  cbn [rt_points]. split.
  - intros y Hy. apply in_app_iff in Hy. destruct Hy as [Hy|[Hy|Hy]].
    + destruct (Bl y Hy). split; [assumption | apply Qclt_trans with x; assumption].
    + subst y. split; assumption.
    + destruct (Br y Hy). split; [apply Qclt_trans with x; assumption | assumption].
  - apply si_app; [exact Sl | apply si_cons; [exact Sr | intros y Hy; exact (proj1 (Br y Hy))] |].
    intros y z Hy [Hz|Hz]; [subst z; exact (proj2 (Bl y Hy))|].
    apply Qclt_trans with x; [exact (proj2 (Bl y Hy)) | exact (proj1 (Br z Hz))].
Qed.

Lemma map_fst_combine {A B} : forall (a : list A) (b : list B), length a = length b -> map fst (combine a b) = a.
Proof. induction a as [|x a IH]; intros [|y b] H; try discriminate; [reflexivity|]. cbn [combine map fst]. rewrite IH by (simpl in H; lia). reflexivity. Qed.
Lemma map_snd_combine {A B} : forall (a : list A) (b : list B), length a = length b -> map snd (combine a b) = b.
Proof. induction a as [|x a IH]; intros [|y b] H; try discriminate; [reflexivity|]. cbn [combine map snd]. rewrite IH by (simpl in H; lia). reflexivity. Qed.

Lemma knot_basis_ends p a b : (1 <= p)%nat -> a < b ->
  knot_basis p [a; b] a = Some (BRLag [a; b] 0) /\ knot_basis p [a; b] b = Some (BRLag [a; b] 1).
Proof.
  intros Hp Hab. unfold knot_basis, window. cbn [length].
  destruct (Nat.ltb_spec (p + 1) 2) as [L|L]; [lia|].
  assert (Nba : Qc_eqb b a = false) by (apply Qc_eqb_neq; intro E; rewrite E in Hab; exact (Qclt_not_le _ _ Hab (Qcle_refl _))).
  cbn [index_of]. rewrite !Qc_eqb_refl, Nba. split; reflexivity.
Qed.

(* MAIN: every refinement tree, every order p >= 1, both boundary flags *)
Theorem tree_system_accepted p boundary a b t :
  (1 <= p)%nat -> a < b -> in_range a b t ->
  exists sy, tree_system p boundary a b t = Some sy
    /\ map fst sy = interior boundary (tree_points a b t)
    /\ hier_okb sy (level_order (interior boundary (tree_levels t))) = true.
Proof.
  intros Hp Hab Hr. destruct (rt_points_sorted t a b Hr) as [Bp Sp].
  destruct boundary.
  - (* boundary points carry the two linear functions *)
    assert (C : ctx [a] [b] a b).
    { split; [reflexivity|]. split; [reflexivity|]. split; [intros y [E|[]]; subst; apply Qcle_refl|].
      split; [intros y [E|[]]; subst; apply Qcle_refl|]. split; right; reflexivity. }
    destruct (rt_main p Hp t [a] [b] a b O O Hr C) as [sy [Es [Ps [Ls [G W]]]]].
    destruct (knot_basis_ends p a b Hp Hab) as [Ka Kb].
    unfold tree_system. rewrite Ka, Es, Kb.
    exists ((a, BRLag [a; b] 0) :: sy ++ [(b, BRLag [a; b] 1)]). split; [reflexivity|].
    cbn [interior]. split; [unfold tree_points; cbn [map fst]; rewrite map_app, Ps; reflexivity|].
    set (es := combine sy (rt_levels 0 0 t)) in *.
    set (ea := ((a, BRLag [a; b] 0), O) : elem). set (eb := ((b, BRLag [a; b] 1), O) : elem).
    assert (Nba : Qc_eqb b a = false) by (apply Qc_eqb_neq; intro E; rewrite E in Hab; exact (Qclt_not_le _ _ Hab (Qcle_refl _))).
    assert (Nab : Qc_eqb a b = false) by (apply Qc_eqb_neq; intro E; rewrite E in Hab; exact (Qclt_not_le _ _ Hab (Qcle_refl _))).
    assert (Sab : strictly_increasing [a; b] = true).
    { cbn [strictly_increasing]. apply andb_true_iff. split; [apply Qc_ltb_lt; exact Hab | reflexivity]. }
    assert (EQ1 : (a, BRLag [a; b] 0) :: sy ++ [(b, BRLag [a; b] 1)] = map fst (ea :: es ++ [eb])).
    { cbn [map fst]. rewrite map_app. unfold es. rewrite (map_fst_combine sy _ Ls). reflexivity. }
    assert (EQ2 : tree_levels t = map snd (ea :: es ++ [eb])).
    { cbn [map snd]. rewrite map_app. unfold es. rewrite (map_snd_combine sy _ Ls). reflexivity. }
    rewrite EQ1, EQ2. apply elems_accepted.
    + (* points pairwise distinct *)
      assert (EP : map ept (ea :: es ++ [eb]) = a :: rt_points t ++ [b]).
      { cbn [map]. rewrite map_app. unfold ept at 1. cbn [fst map]. f_equal. f_equal.
        rewrite <- Ps. unfold es. rewrite <- (map_fst_combine sy (rt_levels 0 0 t) Ls) at 2. rewrite map_map. reflexivity. }
      rewrite EP. apply strictly_increasing_NoDup. apply si_cons.
      * apply si_app; [exact Sp | reflexivity |]. intros y z Hy [Hz|[]]. subst z. exact (proj2 (Bp y Hy)).
      * intros y Hy. apply in_app_iff in Hy. destruct Hy as [Hy|[Hy|[]]]; [exact (proj1 (Bp y Hy)) | subst y; exact Hab].
    + intros e [He|He]; [|apply in_app_iff in He; destruct He as [He|[He|[]]]].
      * subst e. unfold eok, ea, ept. cbn [fst snd rl_ok length]. rewrite Sab. unfold nthQ. cbn [nth]. rewrite Qc_eqb_refl. reflexivity.
      * exact (proj1 (proj1 (G e He))).
      * subst e. unfold eok, eb, ept. cbn [fst snd rl_ok length]. rewrite Sab. unfold nthQ. cbn [nth]. rewrite Qc_eqb_refl. reflexivity.
    + (* the vanishing pattern *)
      assert (Wab : wit ea b).
      { unfold wit, ea. cbn [fst snd]. unfold rl_vanish_witness.
        rewrite (In_memQ b [a; b]) by (right; left; reflexivity). unfold nthQ. cbn [nth]. rewrite Nba. reflexivity. }
      assert (Wba : wit eb a).
      { unfold wit, eb. cbn [fst snd]. unfold rl_vanish_witness.
        rewrite (In_memQ a [a; b]) by (left; reflexivity). unfold nthQ. cbn [nth]. rewrite Nab. reflexivity. }
      intros e e' He He' Hne Hlev.
      destruct He as [He|He]; [|apply in_app_iff in He; destruct He as [He|[He|[]]]];
        (destruct He' as [He'|He']; [|apply in_app_iff in He'; destruct He' as [He'|[He'|[]]]]).
      * subst e e'. exfalso. apply Hne. reflexivity.
      * subst e. exfalso. pose proof (proj2 (G e' He')) as L. unfold elev, ea in *. cbn [snd] in Hlev. lia.
      * subst e e'. exact Wab.
      * subst e'. apply (proj1 (G e He)). left. apply Qcle_refl.
      * exact (W e e' He He' Hne Hlev).
      * subst e'. apply (proj1 (G e He)). right. apply Qcle_refl.
      * subst e e'. exact Wba.
      * subst e. exfalso. pose proof (proj2 (G e' He')) as L. unfold elev, eb in *. cbn [snd] in Hlev. lia.
      * subst e e'. exfalso. apply Hne. reflexivity.
  - (* no boundary points: the level-1 knot list is the level-1 point alone *)
    assert (C : ctx [] [] a b).
    { split; [reflexivity|]. split; [reflexivity|]. split; [intros y []|]. split; [intros y []|]. split; left; reflexivity. }
    destruct (rt_main p Hp t [] [] a b O O Hr C) as [sy [Es [Ps [Ls [G W]]]]].
    unfold tree_system. rewrite Es. exists sy. split; [reflexivity|].
    assert (I1 : interior false (tree_points a b t) = rt_points t).
    { unfold interior, tree_points. cbn [tl]. apply removelast_last. }
    assert (I2 : interior false (tree_levels t) = rt_levels 0 0 t).
    { unfold interior, tree_levels. cbn [tl]. apply removelast_last. }
    rewrite I1, I2. split; [exact Ps|].
    pose (es := combine sy (rt_levels 0 0 t)).
    assert (E1 : map fst es = sy) by (apply map_fst_combine; exact Ls).
    assert (E2 : map snd es = rt_levels 0 0 t) by (apply map_snd_combine; exact Ls).
    replace (hier_okb sy (level_order (rt_levels 0 0 t))) with (hier_okb (map fst es) (level_order (map snd es)))
      by (rewrite E1, E2; reflexivity).
    apply elems_accepted.
    + assert (EP : map ept es = rt_points t).
      { rewrite <- Ps, <- E1, map_map. reflexivity. }
      rewrite EP. apply strictly_increasing_NoDup. exact Sp.
    + intros e He. exact (proj1 (proj1 (G e He))).
    + exact W.
Qed.

(* ------------------------------------------------------------------ consequences: uniquely solvable, for every tree *)
Corollary tree_system_triangular p boundary a b t :
  (1 <= p)%nat -> a < b -> in_range a b t ->
  exists sy, tree_system p boundary a b t = Some sy /\
    let ord := level_order (interior boundary (tree_levels t)) in
    Permutation ord (seq 0 (length sy)) /\ tri (colloc sy) ord /\ (forall i, (i < length sy)%nat -> mget (colloc sy) i i = 1)
    /\ sys_sound {| s_basis := sy; s_ord := Some ord |} /\ sys_inj {| s_basis := sy; s_ord := Some ord |}.
Proof.
  intros Hp Hab Hr. destruct (tree_system_accepted p boundary a b t Hp Hab Hr) as [sy [Es [_ Hok]]].
  exists sy. split; [exact Es|]. cbv zeta.
  destruct (hier_okb_sound sy _ Hok) as [P [T D]].
  split; [exact P|]. split; [exact T|]. split; [exact D|]. split.
  - apply sys_wf_sound. unfold sys_wf. cbn [s_ord s_basis]. split; [exact P | exact T].
  - apply hier_okb_inj. exact Hok.
Qed.

(* the model pipeline takes forward substitution for every tree system (the structural checker never falls back to Gauss) *)
Corollary tree_system_forward_substitution p boundary a b t sy :
  (1 <= p)%nat -> a < b -> in_range a b t -> tree_system p boundary a b t = Some sy ->
  choose_solver (sy, interior boundary (tree_levels t), true)
  = ({| s_basis := sy; s_ord := Some (level_order (interior boundary (tree_levels t))) |}, true).
Proof.
  intros Hp Hab Hr Es. destruct (tree_system_accepted p boundary a b t Hp Hab Hr) as [sy' [Es' [_ Hok]]].
  rewrite Es in Es'. injection Es' as E. subst sy'. unfold choose_solver. rewrite Hok. reflexivity.
Qed.

(* ------------------------------------------------------------------ tie to the code-shaped list model, bounded part *)
(* for the 873 midpoint-insertion trees with <= 5 insertions, p in 1..6, both boundary flags: the lists parse to a tree, the
   tree recursion builds EXACTLY the system of the level loop with get_parent (Model/Basis.lagrange_system), and it is accepted.
   (Beyond the bound the same comparison runs through the entry point on every explored grid.) *)
From SG Require Import Proofs.BasisTrees.

Definition tree_check_all (pmax n : nat) : bool :=
  forallb (fun p => forallb (fun bnd => forallb (fun ins =>
      let pl := tree_from 0 1 ins in
      match tree_check p bnd 0 1 (fst pl) (snd pl) with (true, true, true) => true | _ => false end)
    (trees_upto n)) [true; false]) (seq 1 pmax).

Lemma tree_check_all_unit : tree_check_all 6 5 = true.
Proof. vm_compute. reflexivity. Qed.

Theorem tree_model_equals_list_model_bounded p boundary ins :
  In p (seq 1 6) -> In ins (trees_upto 5) ->
  tree_check p boundary 0 1 (fst (tree_from 0 1 ins)) (snd (tree_from 0 1 ins)) = (true, true, true).
Proof.
  intros Hp Hi. pose proof tree_check_all_unit as H. unfold tree_check_all in H.
  rewrite forallb_forall in H. specialize (H p Hp). rewrite forallb_forall in H.
  assert (Hb : In boundary [true; false]) by (destruct boundary; simpl; auto).
  specialize (H boundary Hb). rewrite forallb_forall in H. specialize (H ins Hi). cbv zeta in H.
  destruct (tree_check p boundary 0 1 (fst (tree_from 0 1 ins)) (snd (tree_from 0 1 ins))) as [[[|] [|]] [|]]; try discriminate H.
  reflexivity.
Qed.
