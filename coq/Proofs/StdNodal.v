(* C02: the combined interpolant of the standard combination reproduces an ARBITRARY function at every point of the
   combined grid (nodal exactness). Instantiation of Proofs/NodalExact.v with the piecewise-linear interpolation of
   Model/StdCombi.v on the uniform dyadic grids. *)
From Coq Require Import ZArith List Bool QArith Qcanon Lia Sorted.
From SG Require Import Base.QcUtil Model.CombiScheme Model.StdCombi Proofs.SchemeBasics Proofs.SchemeIE Proofs.SchemeInv
  Proofs.CombiAbstract Proofs.StdGrid Proofs.StdCombiSum Proofs.NodalExact.
Import ListNotations.
Local Open Scope Qc_scope.

(* ---------- the interpolation functional ---------- *)
Fixpoint interp1_fnl (xs : list Qc) (x : Qc) : list (Qc * Qc) :=
  match xs with
  | [] => []
  | x0 :: r =>
    match r with
    | [] => [(x0, 1)]
    | x1 :: _ => if Qc_leb x x1 then [(x0, 1 - (x - x0) / (x1 - x0)); (x1, (x - x0) / (x1 - x0))] else interp1_fnl r x
    end
  end.

Lemma interp1_app1 xs g x : interp1 xs g x = app1 Qc (interp1_fnl xs x) g.
Proof.
  induction xs as [|x0 r IH]; [reflexivity|].
  destruct r as [|x1 r'].
  - unfold app1. simpl. ring.
  - change (interp1 (x0 :: x1 :: r') g x) with
      (if Qc_leb x x1 then g x0 + (x - x0) / (x1 - x0) * (g x1 - g x0) else interp1 (x1 :: r') g x).
    change (interp1_fnl (x0 :: x1 :: r') x) with
      (if Qc_leb x x1 then [(x0, 1 - (x - x0) / (x1 - x0)); (x1, (x - x0) / (x1 - x0))] else interp1_fnl (x1 :: r') x).
    destruct (Qc_leb x x1); [|exact IH]. unfold app1. simpl. ring.
Qed.

Fixpoint zipF (grids : list (list Qc)) (x : list Qc) : list (list (Qc * Qc)) :=
  match grids, x with
  | g :: gs, x0 :: xs => interp1_fnl g x0 :: zipF gs xs
  | _, _ => []
  end.

Lemma interpN_appT : forall grids f x, interpN grids f x = appT Qc (zipF grids x) f.
Proof.
  induction grids as [|g gs IH]; intros f x; [reflexivity|].
  destruct x as [|x0 xs]; [reflexivity|]. simpl. rewrite interp1_app1.
  apply app1_ext. intro p. apply IH.
Qed.

(* Kronecker property on strictly sorted grids *)
Lemma interp1_at_node g : forall xs x, StronglySorted Qclt xs -> In x xs -> app1 Qc (interp1_fnl xs x) g = g x.
Proof.
  induction xs as [|x0 r IH]; intros x HS Hin; [destruct Hin|].
  destruct r as [|x1 r'].
  - destruct Hin as [<-|[]]. unfold app1. simpl. ring.
  - change (interp1_fnl (x0 :: x1 :: r') x) with
      (if Qc_leb x x1 then [(x0, 1 - (x - x0) / (x1 - x0)); (x1, (x - x0) / (x1 - x0))] else interp1_fnl (x1 :: r') x).
    inversion HS as [|? ? HS' HF]; subst. inversion HF as [|? ? H01 HF0]; subst.
    inversion HS' as [|? ? HS'' HF1]; subst.
    assert (x1 - x0 <> 0) as Hne.
    { intro E. apply (Qclt_not_eq x0 x1 H01). apply Qc_eq_Qeq. apply Qc_eq_Qeq in E. qc_unfold_ops.
      apply Qeq_sym. apply Qplus_inj_r with (z := (- x0)%Q). rewrite Qplus_opp_r. exact E. }
    destruct (Qc_leb x x1) eqn:E.
    + apply Qc_leb_le in E.
      destruct Hin as [<-|[<-|Hin]].
      * unfold app1. simpl. field. exact Hne.
      * unfold app1. simpl. field. exact Hne.
      * exfalso. rewrite Forall_forall in HF1. specialize (HF1 x Hin). apply (Qcle_not_lt x x1 E HF1).
    + apply IH; [exact HS'|].
      destruct Hin as [<-|Hin]; [|exact Hin]. exfalso.
      assert (Qc_leb x0 x1 = true) as Habs; [|congruence].
      apply Qc_leb_le. apply Qclt_le_weak. exact H01.
Qed.

(* ---------- sortedness of the dyadic grids ---------- *)
Lemma qc_of_Z_lt i j : (i < j)%Z -> qc_of_Z i < qc_of_Z j.
Proof. intro H. unfold qc_of_Z, Qclt, Q2Qc; cbn [this]. rewrite !Qred_correct. rewrite <- Zlt_Qlt. exact H. Qed.

Lemma Qc_div_pos x y : 0 < x -> 0 < y -> 0 < x / y.
Proof.
  unfold Qclt, Qcdiv, Qcmult, Qcinv, Q2Qc; cbn [this]. rewrite !Qred_correct. intros Hx Hy.
  apply Qmult_lt_0_compat; [exact Hx | apply Qinv_lt_0_compat; exact Hy].
Qed.

Lemma step_pos a b l : a < b -> (0 <= l)%Z -> 0 < (b - a) / qc_of_Z (2 ^ l).
Proof.
  intros Hab Hl. apply Qc_div_pos.
  - apply Qclt_minus_iff in Hab. exact Hab.
  - change 0 with (qc_of_Z 0). apply qc_of_Z_lt. apply pow2_pos. exact Hl.
Qed.

Lemma gpoint_lt a b l i j : a < b -> (0 <= l)%Z -> (i < j)%Z -> gpoint a b l i < gpoint a b l j.
Proof.
  intros Hab Hl Hij. unfold gpoint.
  pose proof (Qcmult_lt_compat_r (qc_of_Z i) (qc_of_Z j) _ (step_pos a b l Hab Hl) (qc_of_Z_lt i j Hij)) as H.
  remember (qc_of_Z i * ((b - a) / qc_of_Z (2 ^ l))) as U eqn:EU. remember (qc_of_Z j * ((b - a) / qc_of_Z (2 ^ l))) as W eqn:EW.
  clear EU EW. qc_order.
Qed.

Lemma map_increasing_sorted (f : Z -> Qc) : (forall i j, (0 <= i < j)%Z -> f i < f j) ->
  forall n s, StronglySorted Qclt (map f (map Z.of_nat (seq s n))).
Proof.
  intros Hf. induction n as [|n IH]; intro s; simpl; [constructor|].
  constructor; [apply IH|]. apply Forall_forall. intros y Hy. apply in_map_iff in Hy. destruct Hy as [z [<- Hz]].
  apply in_map_iff in Hz. destruct Hz as [k [<- Hk]]. apply in_seq in Hk. apply Hf. lia.
Qed.

Lemma grid1_full_sorted a b l : a < b -> (0 <= l)%Z -> StronglySorted Qclt (grid1_full a b l).
Proof.
  intros Hab Hl. unfold grid1_full, zrange. apply (map_increasing_sorted (fun i => gpoint a b l i)).
  intros i j Hij. apply gpoint_lt; [exact Hab|exact Hl|lia].
Qed.

Lemma grid1_sub_full bd a b l : (0 <= l)%Z -> incl (grid1 bd a b l) (grid1_full a b l).
Proof.
  intros Hl x Hx. apply grid1_In in Hx; [|exact Hl]. destruct Hx as [i [Hi ->]]. apply grid1_full_In.
  exists i. split; [|reflexivity]. destruct bd; lia.
Qed.

(* ---------- assembling the hypotheses of nodal_exact ---------- *)
Definition Efam (a b : list Qc) (x : list Qc) : list (Z -> list (Qc * Qc)) :=
  map (fun t => let '(a0, b0, x0) := t in fun l => interp1_fnl (grid1_full a0 b0 l) x0)
      (combine (combine a b) x).

Lemma zipF_zipE : forall a b x l, length a = length l -> length b = length l -> length x = length l ->
  zipF (map (fun t => let '(x0, y0, z) := t in grid1_full x0 y0 z) (zip3 a b l)) x = zipE Qc (Efam a b x) l.
Proof.
  induction a as [|a0 a IH]; intros b x l La Lb Lx.
  - destruct l; [|discriminate]. reflexivity.
  - destruct l as [|l0 l]; [discriminate|]. destruct b as [|b0 b]; [discriminate|]. destruct x as [|x0 x]; [discriminate|].
    simpl in La, Lb, Lx. injection La as La. injection Lb as Lb. injection Lx as Lx.
    unfold Efam. cbn [zip3 map zipF combine zipE]. apply f_equal. exact (IH b x l La Lb Lx).
Qed.

Lemma comp_interp_appT bd a b l f x : length a = length l -> length b = length l -> length x = length l ->
  comp_interp bd a b l f x = appT Qc (zipE Qc (Efam a b x) l) (masked bd a b f).
Proof.
  intros La Lb Lx. unfold comp_interp. rewrite interpN_appT. rewrite zipF_zipE by assumption. reflexivity.
Qed.

Definition box_ok (a b : list Qc) : Prop := Forall2 Qclt a b.

(* krons for a point lying in the tensor grid of level vector k *)
Lemma krons_of_in_grid bd lmin : (0 <= lmin)%Z ->
  forall a b x k d0, box_ok (skipn d0 a) (skipn d0 b) -> length b = length a ->
  (d0 + length k = length a)%nat ->
  in_grid Qc Qc_eqb (Pab bd a b) d0 x k = true -> Forall (fun v => (lmin <= v)%Z) k ->
  krons Qc lmin (Efam (skipn d0 a) (skipn d0 b) x) k x.
Proof.
  intros Hlmin a b x. induction x as [|x0 x IH]; intros k d0 Hbox Hlen Hk Hin HF.
  - destruct k; [|discriminate]. unfold Efam. rewrite combine_nil. constructor.
  - destruct k as [|k0 k]; [discriminate|]. simpl in Hk.
    destruct (zip3_skip a b d0 (Q2Qc 0) (Q2Qc 0)) as [Ea Eb]; [lia|lia|].
    rewrite Ea, Eb in *. inversion Hbox as [|? ? ? ? Hab Hbox']; subst.
    simpl in Hin. apply andb_true_iff in Hin. destruct Hin as [Hm Hin].
    inversion HF as [|? ? Hk0 HF']; subst.
    unfold Efam. simpl. constructor.
    + intros l g Hl. apply interp1_at_node.
      * apply grid1_full_sorted; [exact Hab|lia].
      * apply (grid1_sub_full bd); [lia|]. apply (memX_In Qc Qc_eqb Qc_eqb_eq) in Hm.
        unfold Pab in Hm. apply (grid1_nested bd _ _ k0 l); [lia|exact Hl|exact Hm].
    + exact Hk0.
    + apply (IH k (S d0)); [exact Hbox'|exact Hlen|lia|exact Hin|exact HF'].
Qed.

(* points of boundary-free grids do not lie on the boundary *)
Lemma gpoint_interior a b l i : a < b -> (0 <= l)%Z -> (1 <= i <= 2 ^ l - 1)%Z ->
  gpoint a b l i <> a /\ gpoint a b l i <> b.
Proof.
  intros Hab Hl Hi.
  assert (gpoint a b l 0 = a) as E0.
  { unfold gpoint. change (qc_of_Z 0) with (Q2Qc 0). ring. }
  assert (gpoint a b l (2 ^ l) = b) as E1.
  { unfold gpoint. field. apply qc_of_Z_nonzero. pose proof (pow2_pos l Hl). lia. }
  split.
  - apply not_eq_sym. apply Qclt_not_eq. rewrite <- E0 at 1. apply gpoint_lt; [exact Hab|exact Hl|lia].
  - apply Qclt_not_eq. rewrite <- E1 at 2. apply gpoint_lt; [exact Hab|exact Hl|lia].
Qed.

Lemma not_on_boundary lmin : (0 <= lmin)%Z -> forall a b x k d0, box_ok (skipn d0 a) (skipn d0 b) -> length b = length a ->
  (d0 + length k = length a)%nat ->
  in_grid Qc Qc_eqb (Pab false a b) d0 x k = true -> Forall (fun v => (lmin <= v)%Z) k ->
  on_boundary (skipn d0 a) (skipn d0 b) x = false.
Proof.
  intros Hlmin a b x. induction x as [|x0 x IH]; intros k d0 Hbox Hlen Hk Hin HF.
  - destruct (skipn d0 a); [reflexivity|]. destruct (skipn d0 b); reflexivity.
  - destruct k as [|k0 k]; [discriminate|]. simpl in Hk.
    destruct (zip3_skip a b d0 (Q2Qc 0) (Q2Qc 0)) as [Ea Eb]; [lia|lia|].
    rewrite Ea, Eb in *. inversion Hbox as [|? ? ? ? Hab Hbox']; subst.
    simpl in Hin. apply andb_true_iff in Hin. destruct Hin as [Hm Hin].
    inversion HF as [|? ? Hk0 HF']; subst.
    apply (memX_In Qc Qc_eqb Qc_eqb_eq) in Hm. unfold Pab in Hm.
    apply (grid1_In false (nth d0 a (Q2Qc 0)) (nth d0 b (Q2Qc 0)) k0 x0) in Hm; [|lia].
    destruct Hm as [i [Hi ->]].
    destruct (gpoint_interior _ _ k0 i Hab ltac:(lia) ltac:(lia)) as [N1 N2].
    cbn [on_boundary]. rewrite (IH k (S d0) Hbox' Hlen ltac:(lia) Hin HF').
    destruct (Qc_eqb (gpoint (nth d0 a (Q2Qc 0)) (nth d0 b (Q2Qc 0)) k0 i) (nth d0 a (Q2Qc 0))) eqn:E1.
    { apply Qc_eqb_eq in E1. contradiction. }
    destruct (Qc_eqb (gpoint (nth d0 a (Q2Qc 0)) (nth d0 b (Q2Qc 0)) k0 i) (nth d0 b (Q2Qc 0))) eqn:E2.
    { apply Qc_eqb_eq in E2. contradiction. }
    reflexivity.
Qed.

(* upper bound of all levels of a scheme, for the expansion box *)
Definition max_level (cs : list (lv * Z)) : Z := fold_right Z.max 0%Z (flat_map fst cs).

Lemma max_level_bound cs l c v : In (l, c) cs -> In v l -> (v <= max_level cs)%Z.
Proof.
  intros Hin Hv. unfold max_level.
  assert (In v (flat_map fst cs)) as H by (apply in_flat_map; exists (l, c); split; assumption).
  induction (flat_map fst cs) as [|y r IH]; [destruct H|]. simpl. destruct H as [->|H]; [lia|]. specialize (IH H). lia.
Qed.

Theorem adaptive_nodal_exact bd a b s f x l0 c0 :
  Inv s -> (0 <= s_lmin s)%Z -> box_ok a b -> length a = s_dim s -> length b = s_dim s -> length x = s_dim s ->
  In (l0, c0) (combi_scheme_adaptive s) -> in_comp bd a b x l0 = true ->
  combi_interp bd a b (combi_scheme_adaptive s) f x = f x.
Proof.
  intros HI Hlmin Hbox La Lb Lx Hin Hx.
  set (cs := combi_scheme_adaptive s). set (lmin := s_lmin s).
  destruct (scheme_support s l0 c0 HI Hin) as [Hl0 _]. apply index_set_In in Hl0.
  destruct (inv_wf s HI l0 Hl0) as [Ll0 Fl0].
  (* level vector of x *)
  set (k := level_of Qc Qc_eqb (Pab bd a b) lmin 0 x l0).
  destruct (level_of_props Qc Qc_eqb (Pab bd a b) lmin x 0%nat l0 Hx Fl0) as [Lk F2]. fold k in Lk, F2.
  pose proof (level_of_in_grid Qc Qc_eqb Qc_eqb_eq (Pab bd a b) lmin x 0%nat l0 Hx Fl0) as Hxk. fold k in Hxk.
  assert (In k (index_set s)) as Hk.
  { apply (scheme_downward_closed s HI l0 k); [apply index_set_In; exact Hl0|exact Lk|exact F2]. }
  assert (Forall (fun v => (lmin <= v)%Z) k) as Fk by (apply (Forall2_lmin_left lmin k l0 F2)).
  set (M := Z.to_nat (max_level cs - lmin)).
  assert (forall l c, In (l, c) cs -> length l = s_dim s /\ Forall (fun v => (lmin <= v <= lmin + Z.of_nat M)%Z) l) as Hwf.
  { intros l c Hl. destruct (scheme_support s l c HI Hl) as [Hli _]. apply index_set_In in Hli.
    destruct (inv_wf s HI l Hli) as [Ll Fl]. split; [exact Ll|].
    apply Forall_forall. intros v Hv. rewrite Forall_forall in Fl. specialize (Fl v Hv).
    pose proof (max_level_bound cs l c v Hl Hv). unfold M. lia. }
  (* combi_interp as `combined` *)
  assert (combi_interp bd a b cs f x = combined Qc cs (Efam a b x) (masked bd a b f)) as ->.
  { unfold combi_interp, combined. apply sumQ_map_ext. intros [l c] Hl. simpl.
    destruct (Hwf l c Hl) as [Ll _]. rewrite comp_interp_appT by congruence. reflexivity. }
  assert (length (Efam a b x) = s_dim s) as LE.
  { unfold Efam. rewrite map_length, !combine_length. lia. }
  assert (forall l c, In (l, c) cs -> length l = length (Efam a b x) /\ Forall (fun v => (lmin <= v <= lmin + Z.of_nat M)%Z) l) as H1.
  { intros l c Hl. rewrite LE. exact (Hwf l c Hl). }
  assert (forall l, length l = length (Efam a b x) -> Forall (fun v => (lmin <= v)%Z) l ->
                    dominating_sum cs l = if mem l (index_set s) then 1%Z else 0%Z) as H2.
  { intros l Ll Fl. rewrite LE in Ll. apply scheme_inclusion_exclusion; assumption. }
  assert (forall k' j, In k' (index_set s) -> length j = length k' -> Forall2 (fun p q => (lmin <= p <= q)%Z) j k' -> In j (index_set s)) as H3.
  { intros k' j Hk' Lj Fj. apply (scheme_downward_closed s HI k' j); assumption. }
  assert (krons Qc lmin (Efam a b x) k x) as H4.
  { apply (krons_of_in_grid bd lmin Hlmin a b x k 0%nat Hbox ltac:(congruence) ltac:(simpl; congruence) Hxk Fk). }
  assert (Forall (fun v => (lmin <= v <= lmin + Z.of_nat M)%Z) k) as H5.
  { apply Forall_forall. intros v Hv. rewrite Forall_forall in Fk. specialize (Fk v Hv). split; [exact Fk|].
    assert (exists w, In w l0 /\ (v <= w)%Z) as [w [Hw Hvw]].
    { clear -F2 Hv. induction F2 as [|p q ks ls Hpq _ IH]; [destruct Hv|].
      destruct Hv as [->|Hv]; [exists q; split; [left; reflexivity|lia]|].
      destruct (IH Hv) as [w [Hw Hvw]]. exists w. split; [right; exact Hw|exact Hvw]. }
    pose proof (max_level_bound cs l0 c0 w Hin Hw). unfold M. lia. }
  rewrite (nodal_exact Qc lmin (index_set s) cs (Efam a b x) M H1 H2 H3 k x (masked bd a b f) H4 Hk H5).
  unfold masked. destruct bd; [reflexivity|].
  pose proof (not_on_boundary lmin Hlmin a b x k 0%nat Hbox ltac:(congruence) ltac:(simpl; congruence) Hxk Fk) as Hnb.
  simpl in Hnb. rewrite Hnb. reflexivity.
Qed.

(* transfer to the closed-form scheme through the verified checker (permutation of the adaptive-init coefficients) *)
From Coq Require Import Permutation.

Lemma sumQ_Permutation l l' : Permutation l l' -> sumQ l = sumQ l'.
Proof.
  induction 1 as [|x l l' _ IH|x y l|l l' l'' _ IH1 _ IH2]; simpl; try reflexivity.
  - rewrite IH. reflexivity.
  - ring.
  - congruence.
Qed.

Theorem std_nodal_exact bd a b n lmin lmax f x l0 c0 :
  std_perm_check (S n) lmin lmax = true ->
  box_ok a b -> length a = S n -> length b = S n -> length x = S n ->
  In (l0, c0) (combi_scheme_standard (S n) lmin lmax) -> in_comp bd a b x l0 = true ->
  combi_interp bd a b (combi_scheme_standard (S n) lmin lmax) f x = f x.
Proof.
  intros Hc Hbox La Lb Lx Hin Hx. destruct (std_perm_check_sound (S n) lmin lmax Hc) as [s [Hs Hp]].
  pose proof (init_inv n lmax lmin s Hs) as HI.
  destruct (init_scheme_fields (S n) lmax lmin s Hs) as [Ed Em].
  assert (0 <= s_lmin s)%Z as Hl.
  { rewrite Em. unfold init_scheme in Hs.
    destruct ((lmax >=? lmin) && (lmax >=? 0) && (lmin >=? 0))%Z eqn:E; [|discriminate].
    apply andb_true_iff in E. destruct E as [_ E]. lia. }
  unfold combi_interp.
  rewrite (sumQ_Permutation _ _ (Permutation_map (fun kv => qc_of_Z (snd kv) * comp_interp bd a b (fst kv) f x) Hp)).
  apply (adaptive_nodal_exact bd a b s f x l0 c0 HI Hl Hbox); try congruence.
  apply (Permutation_in _ Hp). exact Hin.
Qed.
