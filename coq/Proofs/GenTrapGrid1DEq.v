(* C02, source-derived model: the functions GENERATED from sparseSpACE/Grid.py (class TrapezoidalGrid1D, coq/Gen/TrapGrid1DGen.v,
   written by harness/translate/py2gallina_c02.py at every setup / check) equal the hand-written model Model/StdCombi.v on the
   whole-domain component grids of the standard combination.
   The attributes the methods read through self are parameters of the generated functions; `area_*` below are the values
   Grid1d.set_current_area(start = a, end = b, level = l) assigns to them (set_current_area itself WRITES attributes and is
   outside the translator's subset; the harness reads these attribute values off the implementation objects on every run and
   compares them with area_* through the entry point, sub 2). *)
From Coq Require Import ZArith List Bool QArith Qcanon Lia.
From SG Require Import Base.QcUtil Base.PyLib Base.PyNum Base.PyNumMath Model.CombiScheme Model.StdCombi Model.TrapGrid1DArea Gen.TrapGrid1DGen
  Proofs.SchemeBasics Proofs.PyLibFacts Proofs.PyNumFacts Proofs.StdGrid Proofs.StdHierTrap.
Import ListNotations.
Local Open Scope Z_scope.

Local Arguments Z.add : simpl never.
Local Arguments Z.sub : simpl never.
Local Arguments Z.mul : simpl never.
Local Arguments Z.pow : simpl never.
Local Arguments Z.eqb : simpl never.

(* the generated functions applied to the attribute values of the area *)
Definition gen_num_points (bd : bool) (a b : Qc) (l : Z) : option Qc :=
  TrapezoidalGrid1D_level_to_num_points_1d bd a b a b l.
Definition gen_weight (bd : bool) (a b : Qc) (l : Z) (i : Z) : option Qc :=
  TrapezoidalGrid1D_get_1d_weight bd false a b (area_num_points bd l) (area_nwb l) (area_lower bd) (area_upper bd l)
    (area_spacing a b l) i.
Definition gen_level_weights (bd : bool) (a b : Qc) (l : Z) : option (list Qc) :=
  TrapezoidalGrid1D_get_1D_level_weights bd false a b (area_num_points bd l) (area_nwb l) (area_lower bd) (area_upper bd l)
    (area_spacing a b l).

(* ---------- level_to_num_points_1d ---------- *)
Lemma py_isclose_refl x : py_isclose x x = true.
Proof.
  unfold py_isclose. apply Qc_leb_le.
  replace (x - x)%Qc with (Q2Qc 0) by ring.
  assert (Qc_abs (Q2Qc 0) = Q2Qc 0) as -> by reflexivity.
  assert (Q2Qc 0 <= Qc_abs x)%Qc as Hx.
  { unfold Qc_abs. destruct (Qc_leb 0 x) eqn:E; [apply Qc_leb_le; exact E|].
    assert (~ (0 <= x)%Qc) as N by (intro H; apply Qc_leb_le in H; congruence).
    apply Qcnot_le_lt in N. qc_order. }
  assert (Qc_max (Qc_abs x) (Qc_abs x) = Qc_abs x) as -> by (unfold Qc_max; destruct (Qc_leb (Qc_abs x) (Qc_abs x)); reflexivity).
  revert Hx. generalize (Qc_abs x). intros y Hy. qc_order.
Qed.

Lemma Qcpower_two n : Qcpower (py_Z2Qc 2) n = qc_of_Z (2 ^ Z.of_nat n).
Proof.
  induction n as [|n IH]; [reflexivity|].
  rewrite Nat2Z.inj_succ, Z.pow_succ_r by lia. rewrite qc_of_Z_mul, <- IH. reflexivity.
Qed.

Lemma qc_of_Z_sub x y : qc_of_Z (x - y) = (qc_of_Z x - qc_of_Z y)%Qc.
Proof.
  unfold qc_of_Z. apply Qc_is_canon. unfold Qcminus, Qcplus, Qcopp, Q2Qc; cbn [this].
  rewrite !Qred_correct. unfold Z.sub. rewrite inject_Z_plus, inject_Z_opp. reflexivity.
Qed.

Lemma qc_of_Z_plus x y : qc_of_Z (x + y) = (qc_of_Z x + qc_of_Z y)%Qc.
Proof.
  unfold qc_of_Z. apply Qc_is_canon. unfold Qcplus, Q2Qc; cbn [this]. rewrite !Qred_correct. rewrite inject_Z_plus. reflexivity.
Qed.

(* --- symbolic execution of the generated terms (the proofs must not depend on the syntactic shape of the source: they unfold,
   decide / split every integer test, and compare the numeric leaves) --- *)
Ltac py_step := cbn [bindE bindF bindO run_flow py_assert fst snd andb orb negb].
Ltac decide_tests :=
  repeat match goal with
  | |- context [(?a =? ?b)%Z] =>
      first [ replace (a =? b)%Z with true by (symmetry; apply Z.eqb_eq; lia)
            | replace (a =? b)%Z with false by (symmetry; apply Z.eqb_neq; lia) ]
  | |- context [(?a <? ?b)%Z] =>
      first [ replace (a <? b)%Z with true by (symmetry; apply Z.ltb_lt; lia)
            | replace (a <? b)%Z with false by (symmetry; apply Z.ltb_ge; lia) ]
  | |- context [(?a <=? ?b)%Z] =>
      first [ replace (a <=? b)%Z with true by (symmetry; apply Z.leb_le; lia)
            | replace (a <=? b)%Z with false by (symmetry; apply Z.leb_gt; lia) ]
  end.
Ltac split_test :=
  match goal with
  | |- context [(?a =? ?b)%Z] => destruct (Z.eqb_spec a b)
  | |- context [(?a <? ?b)%Z] => destruct (Z.ltb_spec a b)
  | |- context [(?a <=? ?b)%Z] => destruct (Z.leb_spec a b)
  end.
Ltac exec := repeat (py_step; decide_tests; try split_test).
(* integer-valued rational expressions: collect everything under one qc_of_Z, then lia *)
Ltac to_Z := change py_Z2Qc with qc_of_Z; rewrite <- ?qc_of_Z_plus, <- ?qc_of_Z_sub, <- ?qc_of_Z_mul.
Ltac qnorm := change (py_Qc 1 2) with Qchalf; change (py_Z2Qc 1) with (Q2Qc 1); change (py_Z2Qc 0) with (Q2Qc 0); change (py_Z2Qc 2) with Qc2.

Lemma py_fpow_two l : 0 <= l -> py_fpow (py_Z2Qc 2) l = Some (qc_of_Z (2 ^ l)).
Proof. intro Hl. rewrite <- (Z2Nat.id l Hl) at 1. rewrite py_fpow_nat, Qcpower_two, (Z2Nat.id l Hl). reflexivity. Qed.

Lemma Qc_eqb_refl x : Qc_eqb x x = true.
Proof. apply Qc_eqb_eq. reflexivity. Qed.

(* the boundary tests of level_to_num_points_1d, in BOTH versions of the source: math.isclose(start, a) / end == b (up to /repo
   f7c3775) and the helper methods Grid1d.touches_lower_boundary / touches_upper_boundary with the domain-relative tolerance
   |start - a| <= 1e-8 * |b - a| (fixes/C08-boundary-tests-domain-relative.patch).  On the whole interval (start = a, end = b) every
   one of them answers True: the distance is 0 and the tolerance is non-negative. *)
Lemma touch_refl (c x w : Qc) : (0 <= c)%Qc -> Qc_leb (Qc_abs (x - x)) (c * Qc_abs w) = true.
Proof.
  intro Hc. apply Qc_leb_le. replace (x - x)%Qc with (Q2Qc 0) by ring.
  assert (Qc_abs (Q2Qc 0) = Q2Qc 0) as -> by reflexivity.
  assert (Q2Qc 0 <= Qc_abs w)%Qc as Hw.
  { unfold Qc_abs. destruct (Qc_leb 0 w) eqn:E; [apply Qc_leb_le; exact E|].
    assert (~ (0 <= w)%Qc) as N by (intro H; apply Qc_leb_le in H; congruence).
    apply Qcnot_le_lt in N. qc_order. }
  revert Hc Hw. generalize (Qc_abs w). intro y.
  unfold Qcle, Qcmult, Q2Qc; cbn [this]. rewrite !Qred_correct. intros Hc Hy. apply Qmult_le_0_compat; assumption.
Qed.

(* helper methods the generated function calls (translated as separate definitions returning option bool): unfold whatever
   generated definition sits at the head of a bound call with three arguments - the proof does not name them, so that it runs on
   source versions with and without the helpers *)
Ltac unfold_helper_calls :=
  repeat match goal with
  | |- context [bindE (?f _ _ _) _] => progress (unfold f); cbn [run_flow]
  end.
Ltac touch_tests :=
  rewrite ?py_isclose_refl, ?Qc_eqb_refl;
  repeat (rewrite touch_refl by (unfold Qcle; vm_compute; discriminate)).

(* the generated level_to_num_points_1d on the whole interval [a, b] is the model's point count (an int in Python for
   level >= 0; the translation reads 2 ** level as the rational number) *)
Theorem gen_num_points_is_model bd a b l : 0 <= l -> gen_num_points bd a b l = Some (qc_of_Z (num_points_1d bd l)).
Proof.
  intro Hl. unfold gen_num_points, TrapezoidalGrid1D_level_to_num_points_1d.
  rewrite ?(py_fpow_two l Hl). cbn [bindE]. unfold_helper_calls. touch_tests. unfold num_points_1d.
  destruct bd; exec; f_equal; to_Z; f_equal; lia.
Qed.

(* ---------- get_1d_weight / weight_composite_trapezoidal ---------- *)
Definition wfun_Z (bd : bool) (a b : Qc) (l : Z) (i : Z) : Qc :=
  let h := area_spacing a b l in
  if bd then (if (i =? 0) || (i =? 2 ^ l) then h * Qchalf else h)%Qc else h.

Lemma gen_weight_value bd a b l i : 1 <= l -> 0 <= i < num_points_1d bd l -> gen_weight bd a b l i = Some (wfun_Z bd a b l i).
Proof.
  intros Hl Hi. pose proof (pow2_pos l ltac:(lia)) as Hp.
  assert (2 <= 2 ^ l) as Hp2 by (replace 2 with (2 ^ 1) at 1 by reflexivity; apply Z.pow_le_mono_r; lia).
  unfold gen_weight, TrapezoidalGrid1D_get_1d_weight, TrapezoidalGrid1D_weight_composite_trapezoidal.
  unfold area_num_points, area_nwb, area_lower, area_upper, num_points_1d, wfun_Z in *.
  generalize (area_spacing a b l). intro h.
  destruct bd; exec; try (exfalso; lia); f_equal; qnorm; ring.
Qed.

(* ---------- get_1D_level_weights ---------- *)
Lemma weights1_as_map bd a b l : 1 <= l -> weights1 bd a b l = map (wfun_Z bd a b l) (py_range (num_points_1d bd l)).
Proof.
  intro Hl. pose proof (pow2_pos l ltac:(lia)) as Hp.
  assert (2 <= 2 ^ l) as Hp2 by (replace 2 with (2 ^ 1) at 1 by reflexivity; apply Z.pow_le_mono_r; lia).
  unfold weights1, num_points_1d, py_range.
  assert (exists m, Z.to_nat (2 ^ l + 1) = S (S m) /\ Z.of_nat m = 2 ^ l - 1) as [m [Em Hm]].
  { exists (Z.to_nat (2 ^ l - 1)). split; lia. }
  rewrite Em. destruct bd.
  - replace (Z.to_nat (2 ^ l + 1 - 0)) with (S (S m)) by lia. rewrite map_map.
    apply map_ext_in. intros k Hk. apply in_seq in Hk. unfold wfun_Z, area_spacing.
    replace (S (S m) - 1)%nat with (S m) by lia.
    destruct (Nat.eqb_spec k 0) as [E0|E0]; destruct (Z.eqb_spec (Z.of_nat k) 0) as [Z0|Z0]; try lia; cbn [orb]; try reflexivity.
    destruct (Nat.eqb_spec k (S m)) as [E1|E1]; destruct (Z.eqb_spec (Z.of_nat k) (2 ^ l)) as [Z1|Z1]; try lia; reflexivity.
  - rewrite strip_ends_map_seq. replace (Z.to_nat (2 ^ l + 1 - 2)) with m by lia. rewrite map_map.
    rewrite <- seq_shift, map_map. apply map_ext_in. intros k Hk. apply in_seq in Hk. unfold wfun_Z.
    replace (S (S m) - 1)%nat with (S m) by lia. cbn [Nat.eqb orb].
    destruct (Nat.eqb_spec k m) as [E|_]; [lia|]. reflexivity.
Qed.

(* the generated weight list of a whole-domain 1D grid is the model's, every level >= 1, boundary on and off *)
Theorem gen_level_weights_is_model bd a b l : 1 <= l -> gen_level_weights bd a b l = Some (weights1 bd a b l).
Proof.
  intro Hl. unfold gen_level_weights, TrapezoidalGrid1D_get_1D_level_weights.
  fold (area_num_points bd l).
  rewrite (py_mapM_total _ (wfun_Z bd a b l)).
  - cbn [bindE run_flow]. rewrite weights1_as_map by exact Hl. reflexivity.
  - intros i Hi. apply py_range_In in Hi. pose proof (gen_weight_value bd a b l i Hl Hi) as H. unfold gen_weight in H.
    rewrite H. reflexivity.
Qed.

(* consequences for the generated code (C02 statements transported to what the source says now) *)
Theorem gen_level_weights_length bd a b l ws : 1 <= l -> gen_level_weights bd a b l = Some ws ->
  Some (qc_of_Z (Z.of_nat (length ws))) = gen_num_points bd a b l.
Proof.
  intros Hl H. rewrite gen_level_weights_is_model in H by exact Hl. injection H as <-.
  rewrite gen_num_points_is_model by lia. rewrite weights1_length by exact Hl. reflexivity.
Qed.
