(* C03: the FULL combination-validity statement for every state the C06 invariant admits (all dimensions, all tree shapes), and
   nestedness of the component grids.  Everything here is assembled from the C01 scheme invariant (Proofs/SchemeInv.v), the abstract
   combination lemma (Proofs/CombiAbstract.v) and the nestedness of the stripes under the tree invariant (Proofs/DimWiseCombi.v). *)
From Coq Require Import ZArith List Bool QArith Qcanon Arith Lia Sorted.
From SG Require Import Base.QcUtil Model.CombiScheme Model.RefTree Model.DimWise Model.DimWiseInterp Model.DimWiseInstall
     Proofs.SchemeBasics Proofs.SchemeIE Proofs.SchemeInv Proofs.CombiAbstract Proofs.RefTreeInv Proofs.RefTreeCheck
     Proofs.DimWiseInv Proofs.DimWiseStripes Proofs.DimWiseCombi Proofs.C03Main Proofs.DimWiseNodal
     Proofs.DimWiseInvRebal Proofs.DimWiseInstallP Proofs.DimWiseTotal Proofs.C03Any.
Import ListNotations.
Open Scope Z_scope.

(* the hierarchical level vector of a point x of component grid l0: per dimension the least level (>= lmin) whose stripe holds x_d *)
Definition dw_level_of (o : dw_opts) (st : dw_state) (x : list Qc) (l0 : lv) : lv :=
  level_of Qc Qc_eqb (dw_P o st) (s_lmin (st_scheme st)) 0 x l0.

Definition CombiValid (o : dw_opts) (st : dw_state) : Prop :=
  let s := st_scheme st in let cs := combi_scheme_adaptive s in
  sumZ (map snd cs) = 1 /\
  (forall k c, In (k, c) cs -> In k (index_set s) /\ c <> 0 /\ length k = s_dim s /\ Forall (fun v => s_lmin s <= v) k) /\
  (forall k j, In k (index_set s) -> length j = length k -> Forall2 (fun p q => s_lmin s <= p <= q) j k -> In j (index_set s)) /\
  (forall l, length l = s_dim s -> Forall (fun v => s_lmin s <= v) l ->
     dominating_sum cs l = if mem l (index_set s) then 1 else 0) /\
  (forall x l0 c0, In (l0, c0) cs -> dw_in_comp o st x l0 = true ->
     let h := dw_level_of o st x l0 in
     In h (index_set s) /\ dw_in_comp o st x h = true /\
     (forall l c, In (l, c) cs -> dw_in_comp o st x l = lv_geb l h) /\
     dw_coeff_sum o st x = dominating_sum cs h /\ dw_coeff_sum o st x = 1) /\
  (forall x, (forall l c, In (l, c) cs -> dw_in_comp o st x l = false) -> dw_coeff_sum o st x = 0) /\
  (forall x k, In k (index_set s) -> dw_in_comp o st x k = true ->
     exists l c, In (l, c) cs /\ c <> 0 /\ dw_in_comp o st x l = true).

Lemma sumZ_all_zero (l : list Z) : (forall v, In v l -> v = 0) -> sumZ l = 0.
Proof.
  induction l as [|a l IH]; intro H; [reflexivity|].
  change (sumZ (a :: l)) with (a + sumZ l). rewrite IH by (intros v Hv; apply H; right; assumption).
  rewrite (H a (or_introl eq_refl)). reflexivity.
Qed.

Theorem dw_inv_combination_valid a b o st : DwInv a b st -> CombiValid o st.
Proof.
  intro HD. pose proof (DwInv_TilesOK a b st HD) as HT. destruct HD as (_ & _ & _ & _ & HI).
  unfold CombiValid. cbv zeta. set (s := st_scheme st) in *. set (cs := combi_scheme_adaptive s).
  assert (NEST : forall d l l', s_lmin s <= l -> l <= l' -> incl (dw_P o st d l) (dw_P o st d l'))
    by (intros d l l' _ H; exact (dw_P_nested a b o st HT d l l' H)).
  assert (WF : forall g, In g (index_set s) -> length g = s_dim s /\ Forall (fun v => s_lmin s <= v) g)
    by (intros g Hg; apply index_set_In in Hg; apply (inv_wf s HI g Hg)).
  assert (SUP : forall k c, In (k, c) cs -> In k (index_set s)) by (intros k c Hk; apply (scheme_support s k c HI Hk)).
  assert (DC : forall k j, In k (index_set s) -> length j = length k ->
                Forall2 (fun p q => s_lmin s <= p <= q) j k -> In j (index_set s))
    by (intros k j Hk Lj Fj; apply (scheme_downward_closed s HI k j); assumption).
  assert (IE : forall l, length l = s_dim s -> Forall (fun v => s_lmin s <= v) l ->
                dominating_sum cs l = if mem l (index_set s) then 1 else 0)
    by (intros l Ll Fl; apply scheme_inclusion_exclusion; assumption).
  split; [apply scheme_total_one; exact HI|].
  split.
  { intros k c Hk. destruct (scheme_support s k c HI Hk) as [Hi Hc]. destruct (WF k Hi) as [L F]. repeat split; assumption. }
  split; [exact DC|]. split; [exact IE|]. split.
  { intros x l0 c0 Hin Hx. cbv zeta. unfold dw_level_of, dw_in_comp, dw_coeff_sum in *. fold s. fold cs.
    pose proof (SUP l0 c0 Hin) as Hl0. destruct (WF l0 Hl0) as [L0 F0].
    destruct (level_of_props Qc Qc_eqb (dw_P o st) (s_lmin s) x 0%nat l0 Hx F0) as [Lk F2].
    set (h := level_of Qc Qc_eqb (dw_P o st) (s_lmin s) 0 x l0) in *.
    assert (Hh : In h (index_set s)) by (apply (DC l0 h); assumption).
    assert (GE : forall l c, In (l, c) cs ->
              in_grid Qc Qc_eqb (dw_P o st) 0 x l = lv_geb l h).
    { intros l c Hl. destruct (WF l (SUP l c Hl)) as [Ll Fl].
      apply (in_grid_iff_geb Qc Qc_eqb Qc_eqb_eq (dw_P o st) (s_lmin s) NEST x 0%nat l0 l Hx F0 Fl). congruence. }
    assert (CS : coeff_sum_at Qc Qc_eqb (dw_P o st) cs x = dominating_sum cs h).
    { unfold coeff_sum_at, dominating_sum. f_equal. apply map_ext_in. intros [l c] Hl. simpl. rewrite (GE l c Hl). reflexivity. }
    split; [exact Hh|]. split.
    { apply (level_of_in_grid Qc Qc_eqb Qc_eqb_eq (dw_P o st) (s_lmin s) x 0%nat l0 Hx F0). }
    split; [exact GE|]. split; [exact CS|].
    rewrite CS. rewrite IE.
    - apply mem_In in Hh. rewrite Hh. reflexivity.
    - rewrite Lk. exact L0.
    - clear -F2. induction F2; constructor; [lia|assumption]. }
  split.
  { intros x H. unfold dw_coeff_sum, coeff_sum_at. fold s. fold cs. apply sumZ_all_zero. intros v Hv.
    apply in_map_iff in Hv. destruct Hv as [[l c] [<- Hl]]. simpl. unfold dw_in_comp in H. rewrite (H l c Hl). reflexivity. }
  intros x k Hk Hx. unfold dw_in_comp in *.
  exact (union_contains_sparse_grid Qc Qc_eqb Qc_eqb_eq (dw_P o st) (s_lmin s) NEST (index_set s) cs (s_dim s) WF IE x k Hk Hx).
Qed.

Theorem dw_every_history_combination_valid n lmin lmax a b o steps st0 :
  Forall2 (fun p q => (p < q)%Qc) a b -> dw_init (S n) lmin lmax a b = Some st0 ->
  exists st, dw_run o steps st0 = Some st /\ DwInv a b st /\ CombiValid o st.
Proof.
  intros Hab Hinit. destruct (dw_reachable_total n lmin lmax a b o steps st0 Hab Hinit) as (st & E & HD).
  exists st. split; [exact E|]. split; [exact HD|]. apply (dw_inv_combination_valid a b). exact HD.
Qed.

Theorem dw_installed_combination_valid n lmin lmax a b o rb trees steps st0 st1 st :
  Forall2 (fun p q => (p < q)%Qc) a b ->
  dw_init (S n) lmin lmax a b = Some st0 ->
  (forall d t, nth_error trees d = Some t -> Seg (nth d a 0%Qc) (nth d b 0%Qc) 0 0 t) ->
  dw_install o rb trees st0 = Some st1 -> dw_run o steps st1 = Some st -> CombiValid o st.
Proof.
  intros Hab Hinit Htr Hins Hrun. apply (dw_inv_combination_valid a b).
  eapply dw_installed_reachable_inv; eassumption.
Qed.

(* ---------------------------------------------------------------------------------------------- *)
(* nestedness of the component grids *)
Lemma dw_in_comp_mono_from a b o st : TilesOK a b st ->
  forall x d k l, in_grid Qc Qc_eqb (dw_P o st) d x k = true -> Forall2 Z.le k l -> in_grid Qc Qc_eqb (dw_P o st) d x l = true.
Proof.
  intro HT. induction x as [|xd x IH]; intros d k l H F.
  - destruct k; [|discriminate]. inversion F; subst. reflexivity.
  - destruct k as [|kd k]; [discriminate|]. inversion F as [|? ld ? l' Hd F']; subst.
    simpl in H. apply andb_true_iff in H. destruct H as [Hm H]. simpl. apply andb_true_iff. split.
    + apply (memX_In Qc Qc_eqb Qc_eqb_eq). apply (memX_In Qc Qc_eqb Qc_eqb_eq) in Hm.
      apply (dw_P_nested a b o st HT d kd ld Hd). exact Hm.
    + apply (IH (S d) k l'); assumption.
Qed.

Lemma Forall2_le_bump : forall k d, Forall2 Z.le k (bump d 1 k).
Proof.
  induction k as [|x k IH]; intros d; [destruct d; constructor|].
  destruct d; simpl; constructor; try lia; [|apply IH].
  clear. induction k; constructor; [lia|assumption].
Qed.

Lemma Forall2_len {A B} (R : A -> B -> Prop) k l : Forall2 R k l -> length k = length l.
Proof. induction 1; simpl; congruence. Qed.

Definition CompNested (o : dw_opts) (st : dw_state) : Prop :=
  (forall d l l', l <= l' -> incl (dw_P o st d l) (dw_P o st d l')) /\
  (forall x k l, Forall2 Z.le k l -> dw_in_comp o st x k = true -> dw_in_comp o st x l = true) /\
  (forall x k d, dw_in_comp o st x k = true -> dw_in_comp o st x (bump d 1 k) = true) /\
  (forall k l pk pl, length k = st_dim st -> Forall2 Z.le k l ->
     get_points_component_grid o st k = Some pk -> get_points_component_grid o st l = Some pl -> incl pk pl).

Theorem dw_inv_components_nested a b o st : DwInv a b st -> CompNested o st.
Proof.
  intro HD. pose proof (DwInv_TilesOK a b st HD) as HT. unfold CompNested.
  assert (M : forall x k l, Forall2 Z.le k l -> dw_in_comp o st x k = true -> dw_in_comp o st x l = true).
  { intros x k l F H. unfold dw_in_comp in *. apply (dw_in_comp_mono_from a b o st HT x 0%nat k l H F). }
  split; [exact (dw_P_nested a b o st HT)|]. split; [exact M|]. split.
  { intros x k d H. apply (M x k); [apply Forall2_le_bump|exact H]. }
  intros k l pk pl Lk F Hk Hl x Hx.
  assert (Ll : length l = st_dim st) by (rewrite <- Lk; symmetry; apply (Forall2_len _ _ _ F)).
  apply (component_points_are_tensor o st l pl Hl Ll). apply (M x k l F).
  apply (component_points_are_tensor o st k pk Hk Lk). exact Hx.
Qed.

Theorem dw_every_history_components_nested n lmin lmax a b o steps st0 :
  Forall2 (fun p q => (p < q)%Qc) a b -> dw_init (S n) lmin lmax a b = Some st0 ->
  exists st, dw_run o steps st0 = Some st /\ CompNested o st.
Proof.
  intros Hab Hinit. destruct (dw_reachable_total n lmin lmax a b o steps st0 Hab Hinit) as (st & E & HD).
  exists st. split; [exact E|]. apply (dw_inv_components_nested a b). exact HD.
Qed.
