(* C11 — Romberg extrapolation coefficients: they depend only on (m, j), and sum to one for EVERY m.
   c_{m,j} = prod_{i<>j} h_i^e/(h_i^e - h_j^e), h_i = (b-a)/2^i.  With r = (1/2)^e:  c_{m,j} = A_j * B_{m-j},
   A_j = prod_{s=1..j} 1/(1-r^s),  B_n = prod_{s=1..n} r^s/(r^s-1), and (1-r^m) * sum_j A_j B_{m-j} telescopes. *)
From Coq Require Import ZArith List QArith Qcanon Bool Arith Lia.
From SG Require Import Base.QcUtil Model.Romberg Proofs.RombergBasics.
Import ListNotations.
Open Scope Qc_scope.

(* ---------------------------------------------------------------------------------------------- *)
(* powers, products, sums over seq *)

Lemma pow_add (x : Qc) a b : x ^ (a + b) = x ^ a * x ^ b.
Proof. induction a as [|a IH]; simpl; [ring | rewrite IH; ring]. Qed.
Lemma pow_mul_base (x y : Qc) n : (x * y) ^ n = x ^ n * y ^ n.
Proof. induction n as [|n IH]; simpl; [ring | rewrite IH; ring]. Qed.
Lemma pow_pow (x : Qc) a b : (x ^ a) ^ b = x ^ (a * b).
Proof.
  induction b as [|b IH]; simpl.
  - rewrite Nat.mul_0_r. reflexivity.
  - rewrite IH, Nat.mul_succ_r, (Nat.add_comm (a * b) a), pow_add. reflexivity.
Qed.
Lemma pow_inv (x : Qc) n : (/ x) ^ n = / (x ^ n).
Proof.
  induction n as [|n IH]; simpl.
  - apply Qc_is_canon. reflexivity.
  - rewrite IH, Qcinv_mult_distr. reflexivity.
Qed.
Lemma pow_neq0 (x : Qc) n : x <> 0 -> x ^ n <> 0.
Proof.
  intro H. induction n as [|n IH]; simpl.
  - intro E. discriminate E.
  - intro E. apply Qcmult_integral in E. destruct E as [E|E]; [apply H; exact E | apply IH; exact E].
Qed.

Lemma prodQ_app a b : prodQ (a ++ b) = prodQ a * prodQ b.
Proof. induction a as [|x a IH]; simpl; [ring | rewrite IH; ring]. Qed.

Lemma seq_add_map lo n : seq lo n = map (fun t => (lo + t)%nat) (seq 0 n).
Proof.
  revert lo. induction n as [|n IH]; intro lo; simpl; [reflexivity|].
  rewrite Nat.add_0_r. f_equal. rewrite (IH (S lo)), <- seq_shift, map_map.
  apply map_ext. intro t. lia.
Qed.

(* prod_{t=0..n-1} f(n-t) = prod_{s=1..n} f(s) *)
Lemma prodQ_rev_seq (f : nat -> Qc) n :
  prodQ (map (fun t => f (n - t)%nat) (seq 0 n)) = prodQ (map f (seq 1 n)).
Proof.
  induction n as [|n IH]; [reflexivity|].
  rewrite (seq_S n 1), map_app, prodQ_app.
  change (seq 0 (S n)) with (0%nat :: seq 1 n). rewrite <- seq_shift.
  cbn [map prodQ]. rewrite map_map.
  change (fun x : nat => f (S n - S x)%nat) with (fun x : nat => f (n - x)%nat).
  rewrite IH, seq_shift. change (S n - 0)%nat with (S n). change (1 + n)%nat with (S n). ring.
Qed.

(* ---------------------------------------------------------------------------------------------- *)
Section Geometric.
Variable r : Qc.
Hypothesis r_pos : 0 < r.
Hypothesis r_lt1 : r < 1.

Lemma rpow_range s : 0 < r ^ s /\ r ^ s <= 1.
Proof.
  induction s as [|s [IH0 IH1]]; simpl.
  - split; [reflexivity | apply Qcle_refl].
  - split.
    + rewrite <- (Qcmult_0_l (r ^ s)). apply Qcmult_lt_compat_r; assumption.
    + apply Qcle_trans with (1 * r ^ s).
      * apply Qcmult_le_compat_r; [apply Qclt_le_weak; exact r_lt1 | apply Qclt_le_weak; exact IH0].
      * rewrite Qcmult_1_l. exact IH1.
Qed.

Lemma rpow_lt1 s : (1 <= s)%nat -> r ^ s < 1.
Proof.
  intro H. destruct s as [|s]; [lia|]. simpl.
  destruct (rpow_range s) as [H0 H1].
  apply Qclt_le_trans with (1 * r ^ s).
  - apply Qcmult_lt_compat_r; assumption.
  - rewrite Qcmult_1_l. exact H1.
Qed.

Lemma rpow_neq0 s : r ^ s <> 0.
Proof. intro E. destruct (rpow_range s) as [H _]. rewrite E in H. discriminate H. Qed.
Lemma one_minus_rpow s : (1 <= s)%nat -> 1 - r ^ s <> 0.
Proof.
  intros H E. apply (Qclt_not_eq _ _ (rpow_lt1 s H)).
  transitivity (r ^ s + (1 - r ^ s)); [rewrite E; ring | ring].
Qed.
Lemma rpow_minus_one s : (1 <= s)%nat -> r ^ s - 1 <> 0.
Proof.
  intros H E. apply (one_minus_rpow s H). transitivity (- (r ^ s - 1)); [ring | rewrite E; ring].
Qed.

(* the factor of the coefficient loop for nodes x_i = r^i *)
Definition gfactor (j i : nat) : Qc := if Nat.eqb i j then 1 else r ^ i / (r ^ i - r ^ j).
Definition gA (j : nat) : Qc := prodQ (map (fun s => / (1 - r ^ s)) (seq 1 j)).
Definition gB (n : nat) : Qc := prodQ (map (fun s => r ^ s / (r ^ s - 1)) (seq 1 n)).

Lemma gA_S j : gA (S j) = gA j * / (1 - r ^ (S j)).
Proof. unfold gA. rewrite seq_S, map_app, prodQ_app. simpl. ring. Qed.
Lemma gB_S n : gB (S n) = gB n * (r ^ (S n) / (r ^ (S n) - 1)).
Proof. unfold gB. rewrite seq_S, map_app, prodQ_app. simpl. ring. Qed.

Lemma gfactor_lt i j : (i < j)%nat -> gfactor j i = / (1 - r ^ (j - i)).
Proof.
  intro H. unfold gfactor. destruct (Nat.eqb_spec i j) as [E|_]; [lia|].
  replace j with (i + (j - i))%nat at 1 by lia. rewrite pow_add.
  field. split; [apply one_minus_rpow; lia|].
  replace (r ^ i - r ^ i * r ^ (j - i)) with (r ^ i * (1 - r ^ (j - i))) by ring.
  intro E. apply Qcmult_integral in E. destruct E as [E|E]; [exact (rpow_neq0 i E) | revert E; apply one_minus_rpow; lia].
Qed.

Lemma gfactor_gt i j : (j < i)%nat -> gfactor j i = r ^ (i - j) / (r ^ (i - j) - 1).
Proof.
  intro H. unfold gfactor. destruct (Nat.eqb_spec i j) as [E|_]; [lia|].
  replace i with (j + (i - j))%nat at 1 2 by lia. rewrite pow_add.
  field. split; [apply rpow_minus_one; lia|].
  replace (r ^ j * r ^ (i - j) - r ^ j) with (r ^ j * (r ^ (i - j) - 1)) by ring.
  intro E. apply Qcmult_integral in E. destruct E as [E|E]; [exact (rpow_neq0 j E) | revert E; apply rpow_minus_one; lia].
Qed.

Lemma prod_below lo j : (lo <= j)%nat -> prodQ (map (gfactor j) (seq lo (j - lo))) = gA (j - lo).
Proof.
  intro H. unfold gA. rewrite <- prodQ_rev_seq. rewrite (seq_add_map lo), map_map. f_equal.
  apply map_ext_in. intros t Ht. apply in_seq in Ht. rewrite gfactor_lt by lia. do 3 f_equal. lia.
Qed.

Lemma prod_above j n : prodQ (map (gfactor j) (seq (S j) n)) = gB n.
Proof.
  unfold gB. rewrite (seq_add_map (S j)), (seq_add_map 1%nat n), !map_map. f_equal.
  apply map_ext_in. intros t Ht. rewrite gfactor_gt by lia.
  replace (S j + t - j)%nat with (1 + t)%nat by lia. reflexivity.
Qed.

Lemma gcoeff_split lo m j : (lo <= j)%nat -> (j <= m)%nat ->
  prodQ (map (gfactor j) (seq lo (S m - lo))) = gA (j - lo) * gB (m - j).
Proof.
  intros H1 H2. replace (S m - lo)%nat with ((j - lo) + (1 + (m - j)))%nat by lia.
  rewrite seq_app, map_app, prodQ_app, prod_below by exact H1.
  replace (lo + (j - lo))%nat with j by lia. rewrite seq_app, map_app, prodQ_app.
  replace (j + 1)%nat with (S j) by lia. rewrite prod_above. simpl. unfold gfactor. rewrite Nat.eqb_refl. ring.
Qed.

(* the telescoping identity *)
Lemma term_middle k n :
  (1 - r ^ (S k + S n)) * (gA (S k) * gB (S n)) = gA k * gB (S n) - r ^ (S k + S n) * (gA (S k) * gB n).
Proof.
  rewrite gA_S, gB_S, pow_add.
  assert (H1 := one_minus_rpow (S k) ltac:(lia)). assert (H2 := rpow_minus_one (S n) ltac:(lia)).
  field. split; assumption.
Qed.
Lemma term_first n : (1 - r ^ (S n)) * (gA 0 * gB (S n)) = 0 - r ^ (S n) * (gA 0 * gB n).
Proof.
  rewrite gB_S. assert (H2 := rpow_minus_one (S n) ltac:(lia)). field. exact H2.
Qed.
Lemma term_last k : (1 - r ^ (S k)) * (gA (S k) * gB 0) = gA k * gB 0.
Proof.
  rewrite gA_S. assert (H1 := one_minus_rpow (S k) ltac:(lia)). field. exact H1.
Qed.

Definition conv (m : nat) : Qc := sumQ (map (fun j => gA j * gB (m - j)) (seq 0 (S m))).

Lemma sumQ_map_ext_in {A} (f g : A -> Qc) l : (forall x, In x l -> f x = g x) -> sumQ (map f l) = sumQ (map g l).
Proof. intro H. f_equal. apply map_ext_in. exact H. Qed.

Lemma sumQ_map_sub {A} (f g : A -> Qc) (c : Qc) l :
  sumQ (map (fun x => f x - c * g x) l) = sumQ (map f l) - c * sumQ (map g l).
Proof. induction l as [|x l IH]; simpl; [ring | rewrite IH; ring]. Qed.

Lemma conv_term m j : (j <= S m)%nat ->
  (1 - r ^ (S m)) * (gA j * gB (S m - j)) =
  (match j with O => 0 | S k => gA k * gB (m - k) end) - r ^ (S m) * (if Nat.eqb j (S m) then 0 else gA j * gB (m - j)).
Proof.
  intro Hj. destruct j as [|k].
  - rewrite !Nat.sub_0_r. cbn [Nat.eqb]. exact (term_first m).
  - destruct (Nat.eqb_spec (S k) (S m)) as [E|NE].
    + injection E as ->. rewrite !Nat.sub_diag. rewrite (term_last m). ring.
    + assert (Hn : exists n, m = (S k + n)%nat) by (exists (m - S k)%nat; lia).
      destruct Hn as [n ->].
      replace (S (S k + n) - S k)%nat with (S n) by lia.
      replace (S k + n - k)%nat with (S n) by lia.
      replace (S k + n - S k)%nat with n by lia.
      replace (S (S k + n)) with (S k + S n)%nat by lia.
      exact (term_middle k n).
Qed.

Lemma conv_step m : (1 - r ^ (S m)) * conv (S m) = (1 - r ^ (S m)) * conv m.
Proof.
  unfold conv at 1. rewrite <- sumQ_map_scale.
  rewrite (sumQ_map_ext_in _ (fun j => (match j with O => 0 | S k => gA k * gB (m - k) end)
                                      - r ^ (S m) * (if Nat.eqb j (S m) then 0 else gA j * gB (m - j)))).
  2:{ intros j Hj. apply in_seq in Hj. apply conv_term. lia. }
  rewrite (sumQ_map_sub (fun j => match j with O => 0 | S k => gA k * gB (m - k) end)
                        (fun j => if Nat.eqb j (S m) then 0 else gA j * gB (m - j))).
  assert (G : sumQ (map (fun j => match j with O => 0 | S k => gA k * gB (m - k) end) (seq 0 (S (S m)))) = conv m).
  { change (seq 0 (S (S m))) with (0%nat :: seq 1 (S m)). rewrite <- seq_shift. cbn [map sumQ]. rewrite map_map.
    unfold conv. ring. }
  assert (Hh : sumQ (map (fun j => if Nat.eqb j (S m) then 0 else gA j * gB (m - j)) (seq 0 (S (S m)))) = conv m).
  { rewrite (seq_S (S m) 0), map_app, sumQ_app. cbn [map sumQ]. change (0 + S m)%nat with (S m). rewrite Nat.eqb_refl.
    unfold conv. rewrite (sumQ_map_ext_in (fun j => if Nat.eqb j (S m) then 0 else gA j * gB (m - j)) (fun j => gA j * gB (m - j))).
    - ring.
    - intros j Hj. apply in_seq in Hj. destruct (Nat.eqb_spec j (S m)) as [E|_]; [lia | reflexivity]. }
  rewrite G, Hh. ring.
Qed.

Lemma conv_one m : conv m = 1.
Proof.
  induction m as [|m IH].
  - unfold conv, gA, gB. simpl. ring.
  - assert (H := conv_step m). rewrite IH in H.
    assert (N := one_minus_rpow (S m) ltac:(lia)).
    transitivity ((/ (1 - r ^ S m)) * ((1 - r ^ S m) * conv (S m))).
    + field. exact N.
    + rewrite H. field. exact N.
Qed.

(* sum over the levels lo..m of the coefficients restricted to lo..m *)
Theorem gcoeff_sum_one lo m : (lo <= m)%nat ->
  sumQ (map (fun j => prodQ (map (gfactor j) (seq lo (S m - lo)))) (seq lo (S m - lo))) = 1.
Proof.
  intro H.
  rewrite (sumQ_map_ext_in _ (fun j => gA (j - lo) * gB (m - j)) (seq lo (S m - lo))).
  2:{ intros j Hj. apply in_seq in Hj. apply gcoeff_split; lia. }
  rewrite (seq_add_map lo (S m - lo)), map_map.
  rewrite (sumQ_map_ext_in _ (fun t => gA t * gB ((m - lo) - t))).
  - replace (S m - lo)%nat with (S (m - lo)) by lia. apply (conv_one (m - lo)).
  - intros t Ht. apply in_seq in Ht. f_equal; f_equal; lia.
Qed.

End Geometric.

(* ---------------------------------------------------------------------------------------------- *)
(* back to get_romberg_coefficient *)

Definition ratio (e : nat) : Qc := (/ Qc2) ^ e.

Lemma ratio_range e : (1 <= e)%nat -> 0 < ratio e /\ ratio e < 1.
Proof.
  intro H. unfold ratio.
  assert (P : 0 < / Qc2) by reflexivity. assert (L : / Qc2 < 1) by reflexivity.
  split; [apply (rpow_range (/ Qc2) P L e) | apply (rpow_lt1 (/ Qc2) P L e H)].
Qed.

Lemma step_width_pow a b e i : step_width a b i ^ e = (b - a) ^ e * ratio e ^ i.
Proof.
  unfold step_width, ratio, pow2, Qcdiv. rewrite pow_mul_base, <- pow_inv, !pow_pow, Nat.mul_comm. reflexivity.
Qed.

(* the factor does not depend on the interval *)
Lemma coeff_factor_pure a b j e i : a <> b -> coeff_factor a b j e i = gfactor (ratio e) j i.
Proof.
  intro H. unfold coeff_factor, gfactor. destruct (Nat.eqb i j); [reflexivity|].
  rewrite !step_width_pow.
  assert (N : (b - a) ^ e <> 0). { apply pow_neq0. apply sub_neq0. intro E. apply H. symmetry. exact E. }
  destruct (Qc_eq_dec (ratio e ^ i - ratio e ^ j) 0) as [E|E].
  - replace ((b - a) ^ e * ratio e ^ i - (b - a) ^ e * ratio e ^ j) with ((b - a) ^ e * (ratio e ^ i - ratio e ^ j)) by ring.
    assert (I0 : / (0 : Qc) = 0) by (apply Qc_is_canon; reflexivity).
    rewrite E. unfold Qcdiv. rewrite Qcmult_0_r, I0, !Qcmult_0_r. reflexivity.
  - field. split; [exact E|].
    replace ((b - a) ^ e * ratio e ^ i - (b - a) ^ e * ratio e ^ j) with ((b - a) ^ e * (ratio e ^ i - ratio e ^ j)) by ring.
    intro Z. apply Qcmult_integral in Z. destruct Z as [Z|Z]; [exact (N Z) | exact (E Z)].
Qed.

Theorem romberg_coefficient_interval_independent a b a' b' e m j :
  a <> b -> a' <> b' -> romberg_coefficient a b e m j = romberg_coefficient a' b' e m j.
Proof.
  intros H H'. unfold romberg_coefficient. f_equal. apply map_ext. intro i.
  rewrite !coeff_factor_pure by assumption. reflexivity.
Qed.

(* sum_j c_{m,j} = 1 for every interval, every exponent >= 1, EVERY m *)
Theorem romberg_coeff_sum_one a b e m : a <> b -> (1 <= e)%nat ->
  sumQ (map (romberg_coefficient a b e m) (seq 0 (S m))) = 1.
Proof.
  intros H He. destruct (ratio_range e He) as [R0 R1].
  rewrite <- (gcoeff_sum_one (ratio e) R0 R1 0 m (Nat.le_0_l m)).
  rewrite Nat.sub_0_r. apply sumQ_map_ext_in. intros j _. unfold romberg_coefficient. f_equal.
  apply map_ext. intro i. apply coeff_factor_pure. exact H.
Qed.

(* the same for the extrapolation restricted to the levels lo..m (proposed repair of the Simpson coefficients: lo = 1) *)
Theorem romberg_coeff_from_sum_one lo a b e m : a <> b -> (1 <= e)%nat -> (lo <= m)%nat ->
  sumQ (map (romberg_coefficient_from lo a b e m) (seq 0 (S m))) = 1.
Proof.
  intros H He Hlo. destruct (ratio_range e He) as [R0 R1].
  replace (S m) with (lo + (S m - lo))%nat at 1 by lia. rewrite seq_app, map_app, sumQ_app. simpl (0 + lo)%nat.
  rewrite (sumQ_map_ext_in _ (fun _ => 0) (seq 0 lo)).
  2:{ intros j Hj. apply in_seq in Hj. unfold romberg_coefficient_from.
      destruct (Nat.ltb_spec j lo) as [_|C]; [reflexivity | lia]. }
  assert (Z : forall l : list nat, sumQ (map (fun _ => 0) l) = 0).
  { induction l as [|x l IH]; simpl; [reflexivity | rewrite IH; ring]. }
  rewrite Z, Qcplus_0_l.
  rewrite <- (gcoeff_sum_one (ratio e) R0 R1 lo m Hlo).
  apply sumQ_map_ext_in. intros j Hj. apply in_seq in Hj. unfold romberg_coefficient_from.
  destruct (Nat.ltb_spec j lo) as [C|_]; [lia|]. f_equal. apply map_ext. intro i. apply coeff_factor_pure. exact H.
Qed.
