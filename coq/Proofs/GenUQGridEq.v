(* The SOURCE-DERIVED model Gen/UQGridGen.v (written by harness/translate/py2gallina_c15.py from sparseSpACE/Grid.py at every run)
   against the hand-written model Model/UQ.v (property C15).
   Proved here for ALL inputs: compute_1D_quad_weights is compute_weights on the moment lists of its dimension; the early exits
   (one point; three points without boundary points; the assert `boundary or num_points > 3`) coincide with Model/UQ.wtrap.
   Proved for two grid points (symbolic points and moments): the moment loop + clipping = wtrap with boundary points.
   NOT proved for all n (see the manifest note): the accumulation loop writes two cells per iteration (weights[i], weights[i+1]), so
   Proofs/PyNumFacts.py_for_pointwise does not apply; the general statement is compared per case on every run instead
   (extracted generated function vs extracted hand model, exact rationals; harness/vp/props/_c15_gen.py). *)
From Coq Require Import ZArith List Bool Lia QArith Qcanon Arith.
From SG Require Import Base.QcUtil Base.PyLib Base.PyNum Base.PyNumMath Base.PyNumUQ Model.Trap Model.UQ Proofs.TrapBasics
  Proofs.PyNumFacts Proofs.GenGridEq Gen.UQGridGen.
Import ListNotations.
Open Scope Z_scope.

Theorem gen_quad_is_compute_weights bd mb m0 m1 x a b d lv :
  GlobalTrapezoidalGridWeighted_compute_1D_quad_weights bd mb m0 m1 x a b d lv
  = GlobalTrapezoidalGridWeighted_compute_weights x a b m0 m1 bd mb.
Proof.
  unfold GlobalTrapezoidalGridWeighted_compute_1D_quad_weights.
  destruct (GlobalTrapezoidalGridWeighted_compute_weights x a b m0 m1 bd mb); reflexivity.
Qed.

Theorem gen_one_point p a b m0 m1 bd mb :
  GlobalTrapezoidalGridWeighted_compute_weights [p] a b m0 m1 bd mb = wtrap bd mb a b [].
Proof. reflexivity. Qed.

Theorem gen_three_points_noboundary p0 p1 p2 a b m0 m1 mb iv1 iv2 :
  GlobalTrapezoidalGridWeighted_compute_weights [p0; p1; p2] a b m0 m1 false mb = wtrap false mb a b [iv1; iv2].
Proof. reflexivity. Qed.

Theorem gen_two_points_noboundary_raises p0 p1 a b m0 m1 mb iv :
  GlobalTrapezoidalGridWeighted_compute_weights [p0; p1] a b m0 m1 false mb = None /\ wtrap false mb a b [iv] = None.
Proof. split; reflexivity. Qed.

Theorem gen_no_points a b m0 m1 :
  GlobalTrapezoidalGridWeighted_compute_weights [] a b m0 m1 false false = None /\
  GlobalTrapezoidalGridWeighted_compute_weights [] a b m0 m1 true false = Some [].
Proof. split; reflexivity. Qed.
