(* The SOURCE-DERIVED model Gen/UQGridGen.v (written by harness/translate/py2gallina_c15.py from sparseSpACE/Grid.py at every run)
   against the hand-written model Model/UQ.v (property C15).
   Proved here for ALL inputs: compute_1D_quad_weights is compute_weights on the moment lists of its dimension; the early exits
   (one point; three points without boundary points; the assert `boundary or num_points > 3`) coincide with Model/UQ.wtrap.
   Proved for two grid points (symbolic points and moments): the moment loop + clipping = wtrap with boundary points.
   PHASE 4: gen_compute_weights_eq - the generated moment loop + clipping loop + renormalisation IS Model/UQ.wtrap for ALL n >= 2
   (loop lemmas of Proofs/GenUQGridLoop.v: the two-cells-per-iteration accumulation, the clipping loop with its assert, the scaling of
   the inner cells range(1, n-1)); precondition exactly where the Python divides by zero (two coinciding finite neighbours);
   gen_compute_weights_mod_eq - the modified-basis branch (through Proofs/GenGridEq.v of property C09) on strictly increasing grids. *)
From Coq Require Import ZArith List Bool Lia QArith Qcanon Arith.
From SG Require Import Base.QcUtil Base.PyLib Base.PyNum Base.PyNumMath Base.PyNumUQ Model.Trap Model.UQ Proofs.TrapBasics
  Proofs.PyNumFacts Proofs.UQ Proofs.GenGridEq Proofs.GenUQGridLoop.
From SG Require Gen.GridGen.
From SG Require Import Gen.UQGridGen.
Import ListNotations.
Open Scope Z_scope.
Local Arguments Z.add : simpl never.
Local Arguments Z.sub : simpl never.
Local Arguments Z.of_nat : simpl never.
Local Arguments Z.to_nat : simpl never.
Local Arguments Z.eqb : simpl never.
Local Arguments Z.gtb : simpl never.

Theorem gen_quad_is_compute_weights bd mb m0 m1 x a b d lv :
  GlobalTrapezoidalGridWeighted_compute_1D_quad_weights bd mb m0 m1 x a b d lv
  = GlobalTrapezoidalGridWeighted_compute_weights x a b m0 m1 bd mb.
Proof.
  unfold GlobalTrapezoidalGridWeighted_compute_1D_quad_weights.
  destruct (GlobalTrapezoidalGridWeighted_compute_weights x a b m0 m1 bd mb); reflexivity.
Qed.

Theorem gen_one_point p a b m0 m1 bd mb :
  GlobalTrapezoidalGridWeighted_compute_weights [p] a b m0 m1 bd mb = wtrap bd mb a b [].
Proof. reflexivity. Qed.

Theorem gen_three_points_noboundary p0 p1 p2 a b m0 m1 mb iv1 iv2 :
  GlobalTrapezoidalGridWeighted_compute_weights [p0; p1; p2] a b m0 m1 false mb = wtrap false mb a b [iv1; iv2].
Proof. reflexivity. Qed.

Theorem gen_two_points_noboundary_raises p0 p1 a b m0 m1 mb iv :
  GlobalTrapezoidalGridWeighted_compute_weights [p0; p1] a b m0 m1 false mb = None /\ wtrap false mb a b [iv] = None.
Proof. split; reflexivity. Qed.

Theorem gen_no_points a b m0 m1 :
  GlobalTrapezoidalGridWeighted_compute_weights [] a b m0 m1 false false = None /\
  GlobalTrapezoidalGridWeighted_compute_weights [] a b m0 m1 true false = Some [].
Proof. split; reflexivity. Qed.

(* ================================================================ all n *)
(* the extended-real grid point a rational stands for in the reading of Base/PyNumUQ.v *)
Definition unemb (q : Qc) : ext := if py_isinf q then (if Qc_leb 0 q then PosInf else NegInf) else Fin q.
Lemma unemb_isinf q : ext_isinf (unemb q) = py_isinf q.
Proof. unfold unemb. destruct (py_isinf q); [destruct (Qc_leb 0 q)|]; reflexivity. Qed.
Lemma unemb_val q : py_isinf q = false -> ext_val (unemb q) = q.
Proof. intro H. unfold unemb. rewrite H. reflexivity. Qed.

Definition ival_at (x m0s m1s : list Qc) (k : nat) : ival :=
  {| i_x1 := unemb (nth k x 0%Qc); i_x2 := unemb (nth (S k) x 0%Qc); i_m0 := nth k m0s 0%Qc; i_m1 := nth k m1s 0%Qc |}.
Definition ivs_of (x m0s m1s : list Qc) : list ival := map (ival_at x m0s m1s) (seq 0 (length x - 1)).

Theorem gen_compute_weights_eq x a b m0s m1s bd :
  (2 <= length x)%nat -> length m0s = (length x - 1)%nat -> length m1s = (length x - 1)%nat ->
  (forall k, (S k < length x)%nat -> py_isinf (nth k x 0%Qc) = false -> py_isinf (nth (S k) x 0%Qc) = false ->
             nth (S k) x 0%Qc <> nth k x 0%Qc) ->
  GlobalTrapezoidalGridWeighted_compute_weights x a b m0s m1s bd false = wtrap bd false a b (ivs_of x m0s m1s).
Proof.
  intros Hn L0 L1 Hd.
  unfold GlobalTrapezoidalGridWeighted_compute_weights, wtrap.
  assert (Livs : length (ivs_of x m0s m1s) = (length x - 1)%nat) by (unfold ivs_of; rewrite map_length, seq_length; reflexivity).
  rewrite Livs. replace (S (length x - 1)) with (length x) by lia.
  rewrite py_len_nat. set (n := length x) in *.
  match goal with |- context [py_for (py_range (Z.of_nat n - 1)) ?B _] => set (B1 := B) end.
  match goal with |- context [py_for (py_range (Z.of_nat n)) ?B _] => set (B2 := B) end.
  set (W1 := fun k => w1_of (ival_at x m0s m1s k)). set (W2 := fun k => w2_of (ival_at x m0s m1s k)).
  assert (F1 : forall k w, In k (seq 0 (n - 1)) -> length w = n ->
               B1 (Z.of_nat k) w = Nxt (step2 W1 W2 w k) /\ length (step2 W1 W2 w k) = n).
  { intros k w Hk Hw. apply in_seq in Hk. split; [|rewrite step2_length; exact Hw]. unfold B1.
    rewrite (py_getitem_at x _ k 0%Qc) by (try reflexivity; fold n; lia). cbn [bindE].
    rewrite (py_getitem_at x _ (S k) 0%Qc) by (fold n; lia). cbn [bindE].
    rewrite (py_getitem_at m0s _ k 0%Qc) by (try reflexivity; lia). cbn [bindE].
    rewrite (py_getitem_at m1s _ k 0%Qc) by (try reflexivity; lia). cbn [bindE].
    assert (E2 : (if py_isinf (nth k x 0%Qc) then Some (nth k m0s 0%Qc)
                  else bindO (if py_isinf (nth (S k) x 0%Qc) then Some (py_Z2Qc 0)
                              else bindO (py_fdiv (nth k m1s 0 - nth k m0s 0 * nth k x 0)%Qc (nth (S k) x 0 - nth k x 0)%Qc) (fun t => Some t))
                             (fun t => Some t)) = Some (W2 k)).
    { unfold W2, w2_of, ival_at. cbn [i_x1 i_x2 i_m0 i_m1]. rewrite !unemb_isinf.
      destruct (py_isinf (nth k x 0%Qc)) eqn:I1; [reflexivity|].
      destruct (py_isinf (nth (S k) x 0%Qc)) eqn:I2; [reflexivity|].
      rewrite py_fdiv_some by (apply sub_neq0; apply Hd; [lia | exact I1 | exact I2]).
      cbn [bindO]. rewrite !unemb_val by assumption. reflexivity. }
    rewrite E2. cbn [bindE].
    rewrite (py_getitem_at w _ k 0%Qc) by (try reflexivity; lia). cbn [bindE].
    rewrite (py_setitem_at w _ k) by (try reflexivity; lia). cbn [bindE].
    rewrite (py_getitem_at _ _ (S k) 0%Qc) by (rewrite ?list_set_length; lia). cbn [bindE].
    rewrite (py_setitem_at _ _ (S k)) by (rewrite ?list_set_length; lia). cbn [bindE].
    unfold step2, add_at, W1, w1_of. reflexivity. }
  assert (F2 : forall pre v post, B2 (Z.of_nat (length pre)) (pre ++ v :: post)
                 = match clip v with Some c => Nxt (pre ++ c :: post) | None => Fail end).
  { intros pre v post. unfold B2. rewrite getitem_mid. cbn [bindE]. unfold clip. change (py_Qc 0 1) with 0%Qc.
    destruct (Qc_leb 0 v); cbn [negb bindF]; [reflexivity|].
    rewrite ?getitem_mid. cbn [bindE]. rewrite clip_tol_gen. unfold py_assert.
    destruct (Qc_ltb (- v) clip_tol); [|reflexivity]. rewrite setitem_mid. reflexivity. }
  (* the accumulated weights are the hand model's *)
  assert (Eacc : fold_left (step2 W1 W2) (seq 0 (n - 1)) (repeat 0%Qc n) = accum 0 (ivs_of x m0s m1s)).
  { apply list_eq_nth.
    - rewrite fold_step2_length, repeat_length, accum_length, Livs. lia.
    - intros j Hj. rewrite fold_step2_length, repeat_length in Hj.
      rewrite accum2_nth by (rewrite repeat_length; lia). rewrite nth_repeat_0.
      rewrite accum_nth by (rewrite Livs; lia). rewrite Livs.
      assert (Nth : forall i, (i < n - 1)%nat -> nth i (ivs_of x m0s m1s) iv0 = ival_at x m0s m1s i).
      { intros i Hi. unfold ivs_of. rewrite (nth_indep _ iv0 (ival_at x m0s m1s 0)) by (rewrite map_length, seq_length; exact Hi).
        rewrite map_nth, seq_nth by exact Hi. reflexivity. }
      destruct (Nat.ltb_spec j (n - 1)) as [Hlt|Hge].
      + rewrite (Nth j Hlt). destruct j as [|j]; [cbn; unfold W1; ring|].
        replace ((0 <? S j) && (S j <=? n - 1))%nat with true by (symmetry; apply andb_true_iff; split; [apply Nat.ltb_lt | apply Nat.leb_le]; lia).
        cbn [Nat.eqb]. replace (S j - 1)%nat with j by lia. rewrite (Nth j) by lia. unfold W1, W2. ring.
      + assert (j = n - 1)%nat by lia. subst j.
        replace ((0 <? n - 1) && (n - 1 <=? n - 1))%nat with true by (symmetry; apply andb_true_iff; split; [apply Nat.ltb_lt | apply Nat.leb_le]; lia).
        replace (n - 1 =? 0)%nat with false by (symmetry; apply Nat.eqb_neq; lia). rewrite (Nth (n - 1 - 1)%nat) by lia. unfold W2. ring. }
  (* early exits *)
  destruct (Nat.eqb_spec n 1) as [E1|_]; [lia|].
  replace (Z.of_nat n =? 1) with false by (symmetry; apply Z.eqb_neq; lia).
  replace (Z.of_nat n =? 3) with (n =? 3)%nat by (destruct (Nat.eqb_spec n 3), (Z.eqb_spec (Z.of_nat n) 3); try reflexivity; lia).
  destruct (negb bd && (n =? 3)%nat) eqn:E3; [reflexivity|]. cbn [bindF].
  replace (Z.of_nat n >? 3) with (3 <? n)%nat by (rewrite Z.gtb_ltb; destruct (Nat.ltb_spec 3 n), (Z.ltb_spec 3 (Z.of_nat n)); try reflexivity; lia).
  destruct (bd || (3 <? n)%nat) eqn:EA; cbn [py_assert negb]; [|reflexivity].
  rewrite np_zeros_nat. cbn [bindE].
  replace (Z.of_nat n - 1) with (Z.of_nat (n - 1)) by lia. rewrite py_range_seq0.
  destruct (py_for_bounded_fold n (step2 W1 W2) (seq 0 (n - 1)) B1 F1 (repeat 0%Qc n) (repeat_length _ _)) as [EL1 _].
  rewrite EL1, Eacc. cbn [bindF].
  rewrite py_range_seq0.
  set (w1 := accum 0 (ivs_of x m0s m1s)). assert (Lw1 : length w1 = n) by (unfold w1; rewrite accum_length, Livs; lia).
  pose proof (py_for_clip B2 F2 w1 []) as EL2. cbn [length app] in EL2. rewrite Lw1 in EL2. rewrite EL2.
  unfold wtrap_general. fold w1. destruct (opt_list (map clip w1)) as [c|] eqn:Ec; [|reflexivity]. cbn [bindF app].
  destruct bd; cbn [negb]; [reflexivity|].
  cbn [orb] in EA. apply Nat.ltb_lt in EA.
  assert (Lc : length c = n) by (rewrite (opt_list_length _ _ Ec), map_length; exact Lw1).
  rewrite (strip_decompose c 0%Qc) at 1 by lia.
  set (inner := strip c). assert (Li : length inner = (n - 2)%nat) by (unfold inner; rewrite strip_length; lia).
  change (py_Qc 0 1) with 0%Qc. change (py_Qc 1 1) with 1%Qc.
  rewrite (py_setitem_at _ 0 0%nat) by (try reflexivity; cbn [length]; lia). cbn [bindE list_set].
  set (wA := 0%Qc :: inner ++ [nth (length c - 1) c 0%Qc]).
  assert (LA : length wA = n) by (unfold wA; cbn [length]; rewrite app_length, Li; cbn [length]; lia).
  rewrite py_len_nat, LA.
  replace (Z.of_nat n - 1) with (Z.of_nat (length (0%Qc :: inner))) by (cbn [length]; rewrite Li; lia).
  change wA with ((0%Qc :: inner) ++ nth (length c - 1) c 0%Qc :: []). rewrite setitem_mid. cbn [bindE].
  set (wB := (0%Qc :: inner) ++ [0%Qc]).
  assert (LB : length wB = n) by (unfold wB; rewrite app_length; cbn [length]; rewrite Li; lia).
  rewrite py_slice_1_m1. fold (strip wB). unfold wB at 1. cbn [app]. rewrite strip_zero_ends.
  rewrite py_fsum_sumQ. unfold renormalise. fold inner. unfold py_fdiv.
  destruct (Qc_eqb (sumQ inner) 0); [reflexivity|]. cbn [bindE].
  rewrite py_len_nat, LB.
  replace (Z.of_nat n - 1) with (Z.of_nat (n - 1)) by lia. change 1 with (Z.of_nat 1) at 1. rewrite py_range2_seq.
  replace (n - 1 - 1)%nat with (length inner) by lia.
  match goal with |- context [py_for _ ?B _] => set (B3 := B) end.
  assert (F3 : forall pre v post, B3 (Z.of_nat (length pre)) (pre ++ v :: post) = Nxt (pre ++ (1 / sumQ inner * v)%Qc :: post)).
  { intros pre v post. unfold B3. rewrite getitem_mid. cbn [bindE]. rewrite setitem_mid. reflexivity. }
  pose proof (py_for_scale_mid (1 / sumQ inner)%Qc B3 F3 inner [0%Qc] [0%Qc]) as EL3. cbn [length] in EL3.
  unfold wB. cbn [app] in *. rewrite EL3. reflexivity.
Qed.

(* the copy of GlobalTrapezoidalGrid.compute_weights inside Gen/UQGridGen.v is the function of Gen/GridGen.v (property C09) *)
Lemma trap_same x a b mb :
  UQGridGen.GlobalTrapezoidalGrid_compute_weights x a b mb = GridGen.GlobalTrapezoidalGrid_compute_weights x a b mb.
Proof. reflexivity. Qed.

Lemma map_nth_seq (w : list Qc) (g : Qc -> Qc) : map (fun k => g (nth k w 0%Qc)) (seq 0 (length w)) = map g w.
Proof.
  apply list_eq_nth; [rewrite !map_length, seq_length; reflexivity|].
  intros j Hj. rewrite map_length, seq_length in Hj.
  rewrite (nth_indep _ 0%Qc ((fun k => g (nth k w 0%Qc)) 0%nat)) by (rewrite map_length, seq_length; exact Hj).
  rewrite (map_nth (fun k => g (nth k w 0%Qc))), seq_nth by exact Hj.
  rewrite (nth_indep (map g w) 0%Qc (g 0%Qc)) by (rewrite map_length; exact Hj). rewrite (map_nth g). reflexivity.
Qed.

Lemma isclose_one_gen s : py_isclose s (py_Qc 1 1) = isclose_one s.
Proof.
  unfold py_isclose, isclose_one. change (py_Qc 1 1) with 1%Qc.
  replace (Qc_abs 1) with 1%Qc by (apply Qc_is_canon; vm_compute; reflexivity). reflexivity.
Qed.

Lemma pts_of_map (f : nat -> ival) (m : nat) :
  pts_of (map f (seq 0 (S m))) = ext_val (i_x1 (f 0%nat)) :: map (fun k => ext_val (i_x2 (f k))) (seq 0 (S m)).
Proof. cbn [seq map pts_of]. rewrite map_map. reflexivity. Qed.

Lemma pts_of_ivs_of x m0s m1s : (2 <= length x)%nat -> (forall q, In q x -> py_isinf q = false) -> pts_of (ivs_of x m0s m1s) = x.
Proof.
  intros Hn Hf. unfold ivs_of. destruct (length x - 1)%nat as [|m] eqn:Em; [lia|]. rewrite pts_of_map. cbn [ival_at i_x1 i_x2].
  apply list_eq_nth.
  - cbn [length]. rewrite map_length, seq_length. lia.
  - intros j Hj. cbn [length] in Hj. rewrite map_length, seq_length in Hj.
    destruct j as [|j].
    + cbn [nth]. apply unemb_val. apply Hf. apply nth_In. lia.
    + change (nth (S j) (ext_val (unemb (nth 0 x 0%Qc)) :: map (fun k => ext_val (unemb (nth (S k) x 0%Qc))) (seq 0 (S m))) 0%Qc)
        with (nth j (map (fun k => ext_val (unemb (nth (S k) x 0%Qc))) (seq 0 (S m))) 0%Qc).
      rewrite (nth_indep _ 0%Qc ((fun k => ext_val (unemb (nth (S k) x 0%Qc))) 0%nat)) by (rewrite map_length, seq_length; lia).
      rewrite (map_nth (fun k => ext_val (unemb (nth (S k) x 0%Qc)))), seq_nth by lia. cbn [Nat.add].
      apply unemb_val. apply Hf. apply nth_In. lia.
Qed.

(* the modified-basis branch (uniform distribution): the weights of GlobalTrapezoidalGrid.compute_weights divided by b - a *)
Theorem gen_compute_weights_mod_eq x a b m0s m1s bd :
  (2 <= length x)%nat -> strictly_increasing x -> (forall q, In q x -> py_isinf q = false) -> a <> b ->
  UQGridGen.GlobalTrapezoidalGridWeighted_compute_weights x a b m0s m1s bd true = wtrap bd true a b (ivs_of x m0s m1s).
Proof.
  intros Hn Hs Hf Hab.
  unfold UQGridGen.GlobalTrapezoidalGridWeighted_compute_weights, wtrap.
  assert (Livs : length (ivs_of x m0s m1s) = (length x - 1)%nat) by (unfold ivs_of; rewrite map_length, seq_length; reflexivity).
  rewrite Livs. replace (S (length x - 1)) with (length x) by lia. rewrite pts_of_ivs_of by assumption.
  rewrite py_len_nat. set (n := length x) in *.
  destruct (Nat.eqb_spec n 1) as [E1|_]; [lia|].
  replace (Z.of_nat n =? 1) with false by (symmetry; apply Z.eqb_neq; lia).
  replace (Z.of_nat n =? 3) with (n =? 3)%nat by (destruct (Nat.eqb_spec n 3), (Z.eqb_spec (Z.of_nat n) 3); try reflexivity; lia).
  destruct (negb bd && (n =? 3)%nat) eqn:E3; [reflexivity|]. cbn [bindF].
  replace (Z.of_nat n >? 3) with (3 <? n)%nat by (rewrite Z.gtb_ltb; destruct (Nat.ltb_spec 3 n), (Z.ltb_spec 3 (Z.of_nat n)); try reflexivity; lia).
  destruct (bd || (3 <? n)%nat) eqn:EA; cbn [py_assert negb]; [|reflexivity].
  rewrite trap_same, gen_compute_weights_increasing by (try assumption; fold n; lia).
  unfold wtrap_modified. destruct (compute_weights x a b true) as [w|]; [|reflexivity]. cbn [bindE bindF].
  rewrite np_zeros_len. cbn [bindE]. rewrite py_len_nat.
  rewrite (py_for_pointwise 0%Qc (fun k _ => (nth k w 0 / (b - a))%Qc)).
  - cbn [bindF]. rewrite map_nth_seq with (g := fun t => (t / (b - a))%Qc).
    rewrite py_fsum_sumQ, isclose_one_gen. unfold py_assert. destruct (isclose_one _); reflexivity.
  - intros k v Hk Hv.
    rewrite (py_getitem_at w _ k 0%Qc) by (try reflexivity; lia). cbn [bindE].
    rewrite py_fdiv_some by (apply sub_neq0; intro E; apply Hab; symmetry; exact E). cbn [bindE].
    rewrite (py_setitem_at v _ k) by (try reflexivity; lia). reflexivity.
  - apply repeat_length.
Qed.
