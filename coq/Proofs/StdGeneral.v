(* C02, closed-form scheme without the per-configuration checker: the statements of std_point_coeff_sum_one
   (Proofs/StdCombiSum.v) and std_nodal_exact (Proofs/StdNodal.v) for EVERY dimension S n and every 0 <= lmin <= lmax,
   from the general permutation theorem of Proofs/SchemeClosedForm.v. *)
From Coq Require Import ZArith List Bool QArith Qcanon Lia Permutation.
From SG Require Import Base.QcUtil Model.CombiScheme Model.StdCombi Proofs.SchemeBasics Proofs.SchemeIE Proofs.SchemeInv
  Proofs.CombiAbstract Proofs.StdGrid Proofs.StdCombiSum Proofs.NodalExact Proofs.StdNodal Proofs.SchemeClosedForm.
Import ListNotations.
Local Open Scope Z_scope.

Theorem std_point_coeff_sum_one_general bd a b n lmin lmax x l0 c0 :
  0 <= lmin <= lmax ->
  In (l0, c0) (combi_scheme_standard (S n) lmin lmax) -> in_comp bd a b x l0 = true ->
  coeff_sum bd a b (combi_scheme_standard (S n) lmin lmax) x = 1.
Proof.
  intros Hc Hin Hx. destruct (std_perm_check_general n lmin lmax Hc) as [s [Hs Hp]].
  pose proof (init_inv n lmax lmin s Hs) as HI.
  destruct (init_scheme_fields (S n) lmax lmin s Hs) as [_ Em].
  assert (0 <= s_lmin s) as Hl by (rewrite Em; lia).
  unfold coeff_sum.
  rewrite (sumZ_Permutation _ _ (Permutation_map (fun kv => if in_comp bd a b x (fst kv) then snd kv else 0) Hp)).
  apply (adaptive_point_coeff_sum_one bd a b s x l0 c0 HI Hl); [|assumption].
  apply (Permutation_in _ Hp). assumption.
Qed.

Theorem std_nodal_exact_general bd a b n lmin lmax (f : list Qc -> Qc) x l0 c0 :
  0 <= lmin <= lmax ->
  box_ok a b -> length a = S n -> length b = S n -> length x = S n ->
  In (l0, c0) (combi_scheme_standard (S n) lmin lmax) -> in_comp bd a b x l0 = true ->
  combi_interp bd a b (combi_scheme_standard (S n) lmin lmax) f x = f x.
Proof.
  intros Hc Hbox La Lb Lx Hin Hx. destruct (std_perm_check_general n lmin lmax Hc) as [s [Hs Hp]].
  pose proof (init_inv n lmax lmin s Hs) as HI.
  destruct (init_scheme_fields (S n) lmax lmin s Hs) as [Ed Em].
  assert (0 <= s_lmin s) as Hl by (rewrite Em; lia).
  unfold combi_interp.
  rewrite (sumQ_Permutation _ _ (Permutation_map (fun kv => (qc_of_Z (snd kv) * comp_interp bd a b (fst kv) f x)%Qc) Hp)).
  apply (adaptive_nodal_exact bd a b s f x l0 c0 HI Hl Hbox); try congruence.
  apply (Permutation_in _ Hp). exact Hin.
Qed.
