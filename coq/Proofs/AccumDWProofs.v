(* C05 on the dimension-wise model: the published combined rule (coefficient-weighted tensor trapezoidal weights over the CURRENT
   stripes) applied to a product integrand IS dw_combi_integral (the value Integration.calculate_operation_dimension_wise
   accumulates, C04's exact model) - in every state of the dimension-wise model. *)
From Coq Require Import ZArith List Bool QArith Qcanon Lia.
From SG Require Import Base.QcUtil Model.CombiScheme Model.RefTree Model.DimWise Model.DimWiseInterp Model.DimWiseExact
  Model.Accum Model.AccumDW Proofs.AccumProofs.
From SG Require Model.Trap.
Import ListNotations.
Open Scope Qc_scope.

Lemma apply_rule_combine (g : Qc -> Qc) x : forall w, apply_rule g (combine x w) = dotQ w (map g x).
Proof.
  unfold apply_rule. induction x as [|x0 x IH]; intros [|w0 w]; cbn; try reflexivity.
  rewrite IH. reflexivity.
Qed.

Lemma rule1_quad bd mb a b x g r : rule1 bd mb a b x = Some r -> dw_quad1 bd mb a b x g = Some (apply_rule g r).
Proof.
  unfold rule1, dw_quad1. destruct (Trap.compute_weights x a b mb) as [w|]; [|discriminate].
  intro H. injection H as <-. destruct bd; rewrite apply_rule_combine; reflexivity.
Qed.

Lemma apply_rule_app {P} (f : P -> Qc) r1 r2 : apply_rule f (r1 ++ r2) = apply_rule f r1 + apply_rule f r2.
Proof. unfold apply_rule. rewrite map_app. apply sumQ_app. Qed.

(* the tensor rule applied to a product function is the product of the 1D rules applied to the factors *)
Lemma tensor_cons g gs r rest :
  apply_rule (f_prod (g :: gs)) (tensor_rule (r :: rest)) = apply_rule g r * apply_rule (f_prod gs) (tensor_rule rest).
Proof.
  cbn [tensor_rule]. induction r as [|[x w] r IH]; [unfold apply_rule; cbn [flat_map map sumQ]; symmetry; apply Qcmult_0_l|].
  cbn [flat_map]. rewrite apply_rule_app, IH. cbn [fst snd].
  assert (E : apply_rule (f_prod (g :: gs)) (map (fun qv : list Qc * Qc => (x :: fst qv, w * snd qv)) (tensor_rule rest))
              = w * g x * apply_rule (f_prod gs) (tensor_rule rest)).
  { unfold apply_rule. rewrite map_map. cbn [fst snd f_prod].
    rewrite <- (sumQ_map_scale (w * g x) (fun pw : list Qc * Qc => snd pw * f_prod gs (fst pw))).
    f_equal. apply map_ext. intros [p v]. cbn [fst snd]. ring. }
  rewrite E.
  assert (C : apply_rule g ((x, w) :: r) = w * g x + apply_rule g r) by reflexivity.
  rewrite C. ring.
Qed.

Lemma tensor_nil : apply_rule (f_prod []) (tensor_rule []) = 1.
Proof. unfold apply_rule. cbn [tensor_rule map sumQ f_prod fst snd]. ring. Qed.

Definition gs_of (ds : list (nat * (Qc * Qc * Z * (Qc -> Qc)))) : list (Qc -> Qc) := map (fun x => snd (snd x)) ds.

Definition dw_quad_of (o : dw_opts) (mb : bool) (st : dw_state) (dq : nat * (Qc * Qc * Z * (Qc -> Qc))) : option Qc :=
  match dq with (d, (a0, b0, l0, g0)) => dw_quad1 (o_boundary o) mb a0 b0 (dw_stripe_coords o st d l0) g0 end.

Lemma comp_general o mb st ds : forall rs,
  all_some (map (dw_rule1_of o mb st) ds) = Some rs ->
  prod_opt (map (dw_quad_of o mb st) ds) = Some (apply_rule (f_prod (gs_of ds)) (tensor_rule rs)).
Proof.
  induction ds as [|[d [[[a0 b0] l0] g0]] ds IH]; intros rs H; cbn in H.
  - injection H as <-. cbn [map prod_opt gs_of]. rewrite tensor_nil. reflexivity.
  - destruct (rule1 (o_boundary o) mb a0 b0 (dw_stripe_coords o st d l0)) as [r|] eqn:R; [|discriminate].
    destruct (all_some (map (dw_rule1_of o mb st) ds)) as [rest|] eqn:A; [|discriminate]. injection H as <-.
    cbn [map prod_opt dw_quad_of gs_of snd]. rewrite (rule1_quad _ _ _ _ _ g0 r R). rewrite (IH rest eq_refl).
    fold (gs_of ds). rewrite tensor_cons. reflexivity.
Qed.

Lemma gs_of_zip4 gs : forall a b (l : lv) s, length a = length gs -> length b = length gs -> length l = length gs ->
  gs_of (combine (seq s (length l)) (zip4 a b l gs)) = gs.
Proof.
  induction gs as [|g gs IH]; intros [|a0 a] [|b0 b] [|l0 l] s Ha Hb Hl; cbn in *; try discriminate; try reflexivity.
  unfold gs_of in *. cbn [map snd]. f_equal. apply IH; lia.
Qed.

Lemma rule_ignores_g o mb st : forall a b (l : lv) gs gs' s n, length gs = length gs' ->
  map (dw_rule1_of o mb st) (combine (seq s n) (zip4 a b l gs)) = map (dw_rule1_of o mb st) (combine (seq s n) (zip4 a b l gs')).
Proof.
  induction a as [|a0 a IH]; intros [|b0 b] [|l0 l] [|g gs] [|g' gs'] s [|n] H; cbn in *; try discriminate; try reflexivity.
  f_equal. apply IH. lia.
Qed.

(* one component grid *)
Theorem dw_comp_rule_integral o mb st a b (l : lv) gs r :
  length a = length gs -> length b = length gs -> length l = length gs ->
  dw_comp_rule o mb st a b l = Some r -> dw_comp_integral o mb st a b l gs = Some (apply_rule (f_prod gs) r).
Proof.
  intros Ha Hb Hl. unfold dw_comp_rule, dw_comp_integral.
  rewrite (rule_ignores_g o mb st a b l (map (fun _ => fun x : Qc => x) l) gs 0%nat (length l)) by (rewrite map_length; exact Hl).
  destruct (all_some (map (dw_rule1_of o mb st) (combine (seq 0 (length l)) (zip4 a b l gs)))) as [rs|] eqn:A; [|discriminate].
  intro H. injection H as <-.
  change (fun dq : nat * (Qc * Qc * Z * (Qc -> Qc)) => let (d, p) := dq in let (p0, g0) := p in let (p1, l0) := p0 in let (a0, b0) := p1 in
            dw_quad1 (o_boundary o) mb a0 b0 (dw_stripe_coords o st d l0) g0) with (dw_quad_of o mb st).
  rewrite (comp_general o mb st _ rs A). rewrite (gs_of_zip4 gs a b l 0%nat Ha Hb Hl). reflexivity.
Qed.

(* the whole scheme: published combined rule applied to the integrand = dw_combi_integral *)
Theorem dw_rule_is_combi_integral o mb st a b gs sch :
  dw_wf st a b gs -> dw_published o mb st a b = Some sch ->
  dw_combi_integral o mb st a b gs = Some (apply_rule (f_prod gs) (combined_rule sch)).
Proof.
  intros [Ha [Hb Hf]]. unfold dw_published, dw_combi_integral. rewrite combined_rule_linear. unfold combine_components.
  revert sch Hf. induction (combi_scheme_adaptive (st_scheme st)) as [|[l c] rest IH]; intros sch Hf H; cbn in H.
  - injection H as <-. reflexivity.
  - inversion Hf as [|? ? Hl Hr]. subst. cbn [fst] in Hl.
    destruct (dw_comp_rule o mb st a b l) as [r|] eqn:R; [|discriminate].
    destruct (all_some _) as [sch'|] eqn:A in H; [|discriminate]. injection H as <-.
    cbn [map sum_opt fst snd]. rewrite (dw_comp_rule_integral o mb st a b l gs r Ha Hb Hl R).
    rewrite (IH sch' Hr A). cbn [sumQ map fst snd]. reflexivity.
Qed.

(* ... which is what the accumulator of the driver holds after the evaluation of that state, whatever happened before *)
Theorem dw_rule_is_reported o mb st a b gs sch (s : astate Qc) :
  dw_wf st a b gs -> dw_published o mb st a b = Some sch ->
  Some (st_total (evaluate_dw Qc 0 Qcplus Qcopp (contributions (f_prod gs) sch) s)) = dw_combi_integral o mb st a b gs /\
  st_total (evaluate_dw Qc 0 Qcplus Qcopp (contributions (f_prod gs) sch) s) = apply_rule (f_prod gs) (combined_rule sch).
Proof.
  intros W H. rewrite (dw_rule_is_combi_integral o mb st a b gs sch W H).
  rewrite (proj1 (evaluate_dw_total Qc 0 Qcplus Qcopp Qcplus_assoc Qcplus_comm Qcplus_0_l (contributions (f_prod gs) sch) s)).
  rewrite vsum_sumQ, combined_rule_linear. split; reflexivity.
Qed.

(* every state reached by a run of the dimension-wise model *)
Theorem dw_rule_is_reported_along_run o mb a b gs steps : forall st0,
  Forall (fun st => dw_wf st a b gs -> forall sch, dw_published o mb st a b = Some sch ->
                    dw_combi_integral o mb st a b gs = Some (apply_rule (f_prod gs) (combined_rule sch)))
         (dw_states o steps st0).
Proof.
  induction steps as [|bens r IH]; intro st0; cbn [dw_states].
  - constructor; [|constructor]. intros W sch H. apply dw_rule_is_combi_integral; assumption.
  - constructor; [intros W sch H; apply dw_rule_is_combi_integral; assumption|].
    destruct (dw_step o bens st0) as [st'|]; [apply IH|constructor].
Qed.
