(* C19 (deepened) — the learning-time min-max scaling puts every labelled sample INSIDE the learned range: all coordinates of
   the scaled learning/testing samples lie in [0.005, 0.995], so none of them would be removed by the out-of-range filter
   (thresholds 0.0049 / 0.9951) that later data pass through. *)
From Coq Require Import ZArith List QArith Qcanon Bool Lia Arith Permutation.
From SG Require Import Base.QcUtil Model.DataSet Model.Classify Model.ClassifyLearn
  Proofs.DataSetVec Proofs.DataSetScale Proofs.DataSetRevert Proofs.DataSetMove Proofs.ClassifyProofs Proofs.ClassifyLearnProofs.
Import ListNotations.
Open Scope Qc_scope.

Lemma lmin_le_in x l y : In y (x :: l) -> lmin x l <= y.
Proof.
  revert x. induction l as [|z l IH]; intros x Hin; cbn [lmin].
  - destruct Hin as [->|[]]. apply Qcle_refl.
  - destruct (Qc_min_cases x (lmin z l)) as [[E L]|[E L]]; rewrite E.
    + destruct Hin as [->|Hin]; [apply Qcle_refl|]. apply Qcle_trans with (lmin z l); [exact L | apply IH; exact Hin].
    + destruct Hin as [->|Hin]; [exact L | apply IH; exact Hin].
Qed.

Lemma lmax_ge_in x l y : In y (x :: l) -> y <= lmax x l.
Proof.
  revert x. induction l as [|z l IH]; intros x Hin; cbn [lmax].
  - destruct Hin as [->|[]]. apply Qcle_refl.
  - destruct (Qc_max_cases x (lmax z l)) as [[E L]|[E L]]; rewrite E.
    + destruct Hin as [->|Hin]; [exact L | apply IH; exact Hin].
    + destruct Hin as [->|Hin]; [apply Qcle_refl|]. apply Qcle_trans with (lmax z l); [apply IH; exact Hin | exact L].
Qed.

(* a <= b, b > 0, c >= 0  ->  a * (c / b) <= c *)
Lemma frac_le (a b c : Qc) : a <= b -> 0 < b -> 0 <= c -> a * (c / b) <= c.
Proof.
  intros Hab Hb Hc.
  assert (Hq : 0 <= c / b).
  { unfold Qcdiv. rewrite <- (Qcmult_0_l (/ b)). apply Qcmult_le_compat_r; [exact Hc | apply Qclt_le_weak, Qcinv_pos; exact Hb]. }
  apply Qcle_trans with (b * (c / b)); [apply Qcmult_le_compat_r; assumption|].
  assert (b <> 0) by (intro Z0; rewrite Z0 in Hb; apply (Qclt_not_eq _ _ Hb); reflexivity).
  assert (E : b * (c / b) = c) by (field; assumption). rewrite E. apply Qcle_refl.
Qed.

Lemma eps10_le_1 : eps10 <= 1.
Proof. vm_compute. discriminate. Qed.

(* one coordinate: mn <= x <= mx  ->  lo <= (x - mn) * ((hi - lo) / handle_zero (mx - mn)) + lo <= hi *)
Lemma coordinate_in_range (lo hi mn mx x : Qc) : lo < hi -> mn <= x -> x <= mx ->
  let y := (x + - mn) * ((hi - lo) / handle_zero (mx - mn)) + lo in lo <= y /\ y <= hi.
Proof.
  intros Hlh H1 H2 y.
  assert (Hr : 0 <= mx - mn) by (apply sub_nonneg; apply Qcle_trans with x; assumption).
  assert (Hhz : 0 < handle_zero (mx - mn)) by (apply handle_zero_pos; exact Hr).
  assert (Hd : 0 <= hi - lo) by (apply sub_nonneg, Qclt_le_weak; exact Hlh).
  assert (Ha : 0 <= x + - mn) by (apply sub_nonneg in H1; exact H1).
  assert (Hsc : 0 <= (hi - lo) / handle_zero (mx - mn)).
  { unfold Qcdiv. rewrite <- (Qcmult_0_l (/ handle_zero (mx - mn))).
    apply Qcmult_le_compat_r; [exact Hd | apply Qclt_le_weak, Qcinv_pos; exact Hhz]. }
  assert (Hab : x + - mn <= handle_zero (mx - mn)).
  { unfold handle_zero. destruct (Qc_ltb (mx - mn) eps10) eqn:E.
    - apply Qc_ltb_lt in E. apply Qcle_trans with (mx - mn); [qc_order|].
      apply Qcle_trans with eps10; [apply Qclt_le_weak; exact E | exact eps10_le_1].
    - qc_order. }
  pose proof (frac_le _ _ _ Hab Hhz Hd) as Hup.
  assert (Hlow : 0 <= (x + - mn) * ((hi - lo) / handle_zero (mx - mn))).
  { rewrite <- (Qcmult_0_l ((hi - lo) / handle_zero (mx - mn))). apply Qcmult_le_compat_r; assumption. }
  unfold y. set (t := (x + - mn) * ((hi - lo) / handle_zero (mx - mn))) in *. clearbody t. split; qc_order.
Qed.

Lemma nth_mm_scale n lo hi mn mx j : length mn = n -> length mx = n -> (j < n)%nat ->
  nth j (mm_scale lo hi mn mx) 0 = (hi - lo) / handle_zero (nth j mx 0 - nth j mn 0).
Proof.
  intros Lm Lx Hj. unfold mm_scale.
  assert (Lv : length (vsub mx mn) = n) by (apply vsub_length; assumption).
  rewrite (nth_map_lt _ _ j 0 0) by lia. rewrite (nth_vsub n) by assumption. reflexivity.
Qed.

Lemma c_lo_lt_c_hi : c_lo < c_hi.
Proof. apply Qc_ltb_lt. exact c_lo_lt_hi. Qed.
Lemma c_cut_order : c_lo_cut < c_lo /\ c_hi < c_hi_cut.
Proof. split; apply Qc_ltb_lt; vm_compute; reflexivity. Qed.

Lemma in_range_not_out (p : row) : Forall (fun y => c_lo <= y /\ y <= c_hi) p -> out_of_range p = false.
Proof.
  intro H. unfold out_of_range. destruct c_cut_order as [C1 C2]. apply orb_false_iff. split.
  - destruct (existsb (fun y => Qc_ltb y c_lo_cut) p) eqn:E; [|reflexivity]. apply existsb_exists in E. destruct E as [y [Hy Ly]].
    rewrite Forall_forall in H. destruct (H y Hy) as [L _]. apply Qc_ltb_lt in Ly. exfalso.
    apply (Qclt_not_le _ _ (Qclt_trans _ _ _ Ly C1)). exact L.
  - destruct (existsb (fun y => Qc_ltb c_hi_cut y) p) eqn:E; [|reflexivity]. apply existsb_exists in E. destruct E as [y [Hy Ly]].
    rewrite Forall_forall in H. destruct (H y Hy) as [_ U]. apply Qc_ltb_lt in Ly. exfalso.
    apply (Qclt_not_le _ _ (Qclt_trans _ _ _ C2 Ly)). exact U.
Qed.

(* the scaled labelled samples of the default initialisation all lie in [0.005, 0.995]^d *)
Theorem learning_samples_in_range d sd : wf d -> scale_range c_lo c_hi true d = (sd, false) ->
  Forall (fun s => Forall (fun y => c_lo <= y /\ y <= c_hi) (fst s) /\ out_of_range (fst s) = false) (rows sd).
Proof.
  intros Hwf H. pose proof (wf_values_len d Hwf) as Hlen. set (n := ddim d) in *.
  destruct Hwf as [Hne Hall].
  unfold scale_range in H. rewrite c_lo_lt_hi in H. cbn [negb] in H.
  unfold values in *. destruct (rows d) as [|[r0 l0] rest] eqn:ER; [contradiction|].
  cbn [map fst] in Hlen, H. inversion Hlen as [|? ? Hr0 Hrs]; subst.
  set (rs := map fst rest) in *. cbn [data_min data_max] in H.
  set (mn := colmin r0 rs) in *. set (mx := colmax r0 rs) in *.
  assert (Lmn : length mn = n) by (apply colmin_length; assumption).
  assert (Lmx : length mx = n) by (apply colmax_length; assumption).
  rewrite orb_true_r in H. inversion H; subst; clear H. cbn [rows].
  set (sc := mm_scale c_lo c_hi mn mx). set (mi := mm_min c_lo mn sc).
  assert (Lsc : length sc = n) by (unfold sc, mm_scale; rewrite map_length; apply vsub_length; assumption).
  assert (Lmi : length mi = n) by (unfold mi, mm_min; apply map2_length_eq; assumption).
  change ((transform sc mi r0, l0) :: map_rows (transform sc mi) rest) with (map_rows (transform sc mi) ((r0, l0) :: rest)).
  unfold map_rows. rewrite Forall_map. rewrite Forall_forall. intros s Hs. cbn [fst].
  assert (Ls : length (fst s) = n) by (rewrite Forall_forall in Hall; apply Hall; exact Hs).
  assert (Hin : In (fst s) (r0 :: rs)).
  { destruct Hs as [<-|Hs]; [left; reflexivity | right; unfold rs; apply in_map; exact Hs]. }
  assert (G : Forall (fun y => c_lo <= y /\ y <= c_hi) (transform sc mi (fst s))).
  { assert (Lt : length (transform sc mi (fst s)) = n) by (apply transform_length; assumption).
    rewrite Forall_forall. intros y Hy. destruct (In_nth _ _ 0 Hy) as [j [Hj Ej]]. rewrite Lt in Hj. subst y.
    rewrite (nth_transform n) by assumption.
    unfold mi, mm_min. rewrite (nth_map2 _ mn sc j 0 0 0) by lia.
    assert (Esc : nth j sc 0 = (c_hi - c_lo) / handle_zero (nth j mx 0 - nth j mn 0)) by (unfold sc; apply (nth_mm_scale n); assumption).
    rewrite Esc.
    assert (Hcol : In (nth j (fst s) 0) (nth j r0 0 :: col j rs)).
    { destruct Hin as [<-|Hin]; [left; reflexivity | right; unfold col; apply (in_map (fun r : row => nth j r 0) rs (fst s)); exact Hin]. }
    assert (B1 : nth j mn 0 <= nth j (fst s) 0) by (unfold mn; rewrite (nth_colmin n) by assumption; apply lmin_le_in; exact Hcol).
    assert (B2 : nth j (fst s) 0 <= nth j mx 0) by (unfold mx; rewrite (nth_colmax n) by assumption; apply lmax_ge_in; exact Hcol).
    pose proof (coordinate_in_range c_lo c_hi _ _ _ c_lo_lt_c_hi B1 B2) as C. cbv zeta in C.
    set (q := (c_hi - c_lo) / handle_zero (nth j mx 0 - nth j mn 0)) in *.
    replace (nth j (fst s) 0 * q + (c_lo - nth j mn 0 * q)) with ((nth j (fst s) 0 + - nth j mn 0) * q + c_lo) by ring.
    exact C. }
  split; [exact G | apply in_range_not_out; exact G].
Qed.

(* hence the whole learning and testing data of the default initialisation are inside the range, whatever the split *)
Theorem learning_and_testing_data_in_range v d sd perm idx lo even p learn test : wf d ->
  scale_range c_lo c_hi true d = (sd, false) -> init_split v sd perm idx lo even p = Some (learn, test) ->
  Forall (fun s => out_of_range (fst s) = false) (rows learn ++ rows test).
Proof.
  intros Hwf Hs Hi. pose proof (learning_samples_in_range d sd Hwf Hs) as G.
  pose proof (init_split_partitions _ _ _ _ _ _ _ _ _ Hi) as P.
  rewrite Forall_forall in *. intros s Hin. apply (Permutation_in _ P) in Hin. destruct (G s Hin) as [_ O]. exact O.
Qed.
