(* C18 — revert_scaling restores the samples also when the data set was shuffled / had its boundary samples moved in
   between the scalings: the affine-image invariant of DataSetRevert.v is closed under permutations of the samples
   (the column minimum is permutation invariant). *)
From Coq Require Import ZArith List QArith Qcanon Bool Lia Arith Permutation.
From SG Require Import Base.QcUtil Model.DataSet Proofs.DataSetVec Proofs.DataSetScale Proofs.DataSetRevert Proofs.DataSetMove.
Import ListNotations.
Open Scope Qc_scope.

(* ------------------------------------------------------------------ the column minimum is permutation invariant *)
Lemma lmin_spec x l : In (lmin x l) (x :: l) /\ Forall (fun z => lmin x l <= z) (x :: l).
Proof.
  revert x. induction l as [|y l IH]; intro x; cbn [lmin].
  - split; [left; reflexivity | constructor; [apply Qcle_refl | constructor]].
  - destruct (IH y) as [Hin Hall]. destruct (Qc_min_cases x (lmin y l)) as [[E L]|[E L]]; rewrite E.
    + split; [left; reflexivity|]. constructor; [apply Qcle_refl|].
      eapply Forall_impl; [|exact Hall]. intros z Hz. cbn beta in Hz. apply Qcle_trans with (lmin y l); assumption.
    + split; [right; exact Hin|]. constructor; [exact L | exact Hall].
Qed.

Lemma lmin_perm x l y l' : Permutation (x :: l) (y :: l') -> lmin x l = lmin y l'.
Proof.
  intro P. destruct (lmin_spec x l) as [I1 A1]. destruct (lmin_spec y l') as [I2 A2].
  rewrite Forall_forall in A1, A2. apply Qcle_antisym.
  - apply A1. apply (Permutation_in _ (Permutation_sym P)). exact I2.
  - apply A2. apply (Permutation_in _ P). exact I1.
Qed.

Lemma data_min_perm n (vs vs' : list row) : rows_len n vs -> Permutation vs vs' -> data_min vs = data_min vs'.
Proof.
  intros Hl P. destruct vs as [|r rs], vs' as [|r' rs'].
  - reflexivity.
  - apply Permutation_nil in P. discriminate.
  - apply Permutation_sym, Permutation_nil in P. discriminate.
  - cbn [data_min]. f_equal.
    assert (Hl' : rows_len n (r' :: rs')) by (unfold rows_len in *; eapply Permutation_Forall; eauto).
    inversion Hl; inversion Hl'; subst.
    apply (row_ext _ _ (length r)); [apply colmin_length; auto | apply colmin_length; auto; congruence|].
    intros j Hj. rewrite (nth_colmin (length r)), (nth_colmin (length r)); auto; try congruence.
    apply lmin_perm. change (Permutation (map (fun q => nth j q 0) (r :: rs)) (map (fun q => nth j q 0) (r' :: rs'))).
    apply Permutation_map. exact P.
Qed.

(* ------------------------------------------------------------------ the invariant is closed under sample permutations *)
Lemma inv_perm n d d' R fv cv : Inv n d R fv cv -> ddim d' = ddim d -> attrs d' = attrs d ->
  Permutation (rows d') (rows d) -> exists R', Permutation R' R /\ Inv n d' R' fv cv.
Proof.
  intros I Hd Ha P. unfold attrs in Ha. inversion Ha as [[A1 A2 A3 A4 A5]].
  rewrite (inv_rows _ _ _ _ _ I) in P. unfold map_rows in P.
  destruct (Permutation_map_inv _ _ P) as [R' [E PR]].
  exists R'. split; [apply Permutation_sym; exact PR|].
  destruct I as [Id Ir Ine Il If Ic Inz Is Io Ifac Ifz].
  constructor; auto; try congruence.
  - intro E0. subst R'. apply Permutation_sym, Permutation_nil in PR. contradiction.
  - eapply Permutation_Forall; [exact PR | exact Il].
  - rewrite A4, Io. apply (data_min_perm n).
    + unfold rows_len. rewrite Forall_map. exact Il.
    + apply Permutation_map. exact PR.
Qed.

Lemma inv_rows_length n d R fv cv : Inv n d R fv cv -> length (rows d) = length R.
Proof. intro I. rewrite (inv_rows _ _ _ _ _ I). unfold map_rows. apply map_length. Qed.

(* ------------------------------------------------------------------ histories with moves *)
Inductive hist_op := HAff (o : aff_op) | HShuffle (perm : list nat) | HMbf (idx : list nat).

Definition apply_hop (o : hist_op) (d : ds) : result :=
  match o with
  | HAff a => apply_op false a d
  | HShuffle perm => shuffle_with perm d
  | HMbf idx => move_boundaries_to_front idx d
  end.

Definition hop_ok (n len : nat) (o : hist_op) : Prop :=
  match o with
  | HAff a => op_ok n a
  | HShuffle perm => is_perm perm len = true
  | HMbf idx => idx_valid idx len = true
  end.

Fixpoint apply_hops (ops : list hist_op) (d : ds) : result :=
  match ops with
  | [] => (d, false)
  | o :: r => let '(d', e) := apply_hop o d in if e then (d', true) else apply_hops r d'
  end.

Lemma hops_preserve_inv n len ops : Forall (hop_ok n len) ops -> forall d R fv cv, Inv n d R fv cv -> length R = len ->
  exists d' R' fv' cv', apply_hops ops d = (d', false) /\ Permutation R' R /\ Inv n d' R' fv' cv'.
Proof.
  induction 1 as [|o ops Ho Hops IH]; intros d R fv cv I HL.
  - exists d, R, fv, cv. split; [reflexivity|]. split; [apply Permutation_refl | exact I].
  - assert (S1 : exists d1 R1 fv1 cv1, apply_hop o d = (d1, false) /\ Permutation R1 R /\ Inv n d1 R1 fv1 cv1).
    { destruct o as [a|perm|idx]; cbn [apply_hop hop_ok] in *.
      - destruct (ops_preserve_inv n [a] (Forall_cons _ Ho (Forall_nil _)) d R fv cv I) as [d1 [fv1 [cv1 [E I1]]]].
        cbn [apply_ops] in E. destruct (apply_op false a d) as [dd e]. destruct e; [discriminate|]. inversion E; subst.
        exists d1, R, fv1, cv1. split; [reflexivity|]. split; [apply Permutation_refl | exact I1].
      - destruct (shuffle_with perm d) as [d1 e] eqn:E.
        assert (He : e = false /\ ddim d1 = ddim d).
        { unfold shuffle_with in E. rewrite (inv_rows_length _ _ _ _ _ I), HL, Ho in E. inversion E. split; reflexivity. }
        destruct He as [-> Hd].
        destruct (shuffle_permutation perm d d1 E) as [P [A _]].
        destruct (inv_perm n d d1 R fv cv I Hd A P) as [R' [PR I']].
        exists d1, R', fv, cv. split; [reflexivity|]. split; assumption.
      - destruct (move_boundaries_to_front idx d) as [d1 e] eqn:E.
        assert (He : e = false /\ ddim d1 = ddim d).
        { unfold move_boundaries_to_front in E. rewrite (inv_rows_length _ _ _ _ _ I), HL, Ho in E. inversion E. split; reflexivity. }
        destruct He as [-> Hd].
        destruct (mbf_permutation idx d d1 E) as [P A].
        destruct (inv_perm n d d1 R fv cv I Hd A P) as [R' [PR I']].
        exists d1, R', fv, cv. split; [reflexivity|]. split; assumption. }
    destruct S1 as [d1 [R1 [fv1 [cv1 [E1 [P1 I1]]]]]].
    destruct (IH d1 R1 fv1 cv1 I1) as [d' [R' [fv' [cv' [E' [P' I']]]]]].
    { rewrite (Permutation_length P1). exact HL. }
    exists d', R', fv', cv'. split; [|split; [apply Permutation_trans with R1; assumption | exact I']].
    cbn [apply_hops]. rewrite E1. exact E'.
Qed.

Theorem revert_restores_with_moves : forall d0 ov o1 hops,
  wf d0 -> scaled d0 = false \/ ov = true ->
  op_ok (ddim d0) o1 -> Forall (hop_ok (ddim d0) (length (rows d0))) hops ->
  exists d1 d2 d3,
    apply_op ov o1 d0 = (d1, false) /\ apply_hops hops d1 = (d2, false) /\ revert_scaling d2 = (d3, false) /\
    Permutation (rows d3) (rows d0) /\ cleared d3.
Proof.
  intros d0 ov o1 hops Hwf Hov Ho Hops.
  destruct (revert_restores d0 ov o1 [] Hwf Hov Ho (Forall_nil _)) as [d1 [d2' [d3' [E1 [E2 _]]]]].
  cbn [apply_ops] in E2. inversion E2; subst d2'.
  assert (Hov' : negb (scaled d0) || ov = true) by (destruct Hov as [-> | ->]; [reflexivity | apply orb_true_r]).
  assert (S1 : exists fv cv, Inv (ddim d0) d1 (rows d0) fv cv).
  { destruct o1 as [lo hi|a|a]; cbn [apply_op op_ok] in *.
    - destruct (first_range d0 lo hi ov Hwf Hov' Ho) as [dd [sc [mi [E I]]]]. rewrite E1 in E. inversion E; subst. eauto.
    - destruct Ho as [Ha Hz]. destruct (first_factor d0 a ov Hwf Hov' Ha Hz) as [dd [E I]]. rewrite E1 in E. inversion E; subst. eauto.
    - destruct (first_shift d0 a ov Hwf Hov' Ho) as [dd [E I]]. rewrite E1 in E. inversion E; subst. eauto. }
  destruct S1 as [fv [cv I1]].
  destruct (hops_preserve_inv _ _ hops Hops d1 _ fv cv I1 eq_refl) as [d2 [R2 [fv2 [cv2 [E2' [P2 I2]]]]]].
  destruct (revert_under_inv _ d2 R2 fv2 cv2 I2) as [d3 [E3 [R3 C3]]].
  exists d1, d2, d3. split; [exact E1|]. split; [exact E2'|]. split; [exact E3|]. split; [rewrite R3; exact P2 | exact C3].
Qed.
