(* The SOURCE-DERIVED model Gen/ExtrapolationGen.v (written by harness/translate/py2gallina.py --target extrapolation from
   sparseSpACE/Extrapolation.py at every run) agrees with the hand-written model Model/Romberg.v (property C11).

   Translated: enum ExtrapolationVersion; the class family ExtrapolationCoefficients (abstract) / RombergLinearCoefficients /
   RombergDefaultCoefficients / RombergSimpsonCoefficients (constructors, get_step_width, get_romberg_coefficient,
   get_coefficient with dynamic dispatch on the class tag); ExtrapolationCoefficientsFactory (constructor, get);
   RombergWeightFactory.get; the family RombergWeights (abstract) / RombergTrapezoidalWeights / RombergSimpsonWeights
   (constructors, get_extrapolation_coefficient, get_step_width, get_boundary_point_weight, get_inner_point_weight).
   TRUSTED READING (Base/PyNum.v): floats are exact rationals.

   Levels and exponents are natural numbers in the hand-written model: the theorems are stated for arguments Z.of_nat _.
   Precondition a <> b: for a = b every step width is 0 and get_romberg_coefficient divides 0 by 0 (ZeroDivisionError)
   as soon as two levels take part, while the total model computes x/0 = 0. *)
From Coq Require Import ZArith List Bool Lia QArith Qcanon Arith.
From SG Require Import Base.QcUtil Base.PyLib Base.PyNum Model.Romberg Proofs.RombergBasics Proofs.RombergCoeff
  Proofs.RombergSliced Proofs.RombergTree Proofs.RombergFuel Proofs.PyNumFacts Gen.ExtrapolationGen.
Import ListNotations.
Open Scope Z_scope.
Local Arguments Z.add : simpl never.
Local Arguments Z.mul : simpl never.
Local Arguments Z.sub : simpl never.
Local Arguments Z.of_nat : simpl never.
Local Arguments Z.to_nat : simpl never.
Local Arguments Z.eqb : simpl never.
Local Arguments Z.leb : simpl never.
Local Arguments Z.ltb : simpl never.
Local Arguments Z.gtb : simpl never.
Local Arguments Z.geb : simpl never.

Ltac py_step := cbn [bindE bindF bindO run_flow py_assert fst snd andb negb].
(* numerals of the generated terms in the form of the hand-written model; equality of rational expressions *)
Lemma div_two_half' (u : Qc) : (u / Qc2 = Qchalf * u)%Qc.
Proof. rewrite Qchalf_eq, Qc2_eq. field. exact two_neq0. Qed.
Ltac qnorm :=
  change (py_Z2Qc 0) with 0%Qc; change (py_Z2Qc 1) with 1%Qc; change (py_Z2Qc 2) with Qc2; change (py_Z2Qc 3) with Qc3;
  change (py_Z2Qc 4) with Qc4; change (py_Qc 1 2) with Qchalf; change (py_Qc 0 1) with 0%Qc; change (py_Qc 1 1) with 1%Qc.
Ltac qfin := qnorm; first [ reflexivity
                          | rewrite ?div_two_half'; unfold Qcdiv; first [ ring | f_equal; ring | f_equal; f_equal; ring ] ].
Ltac znat := rewrite ?Zof_eqb, ?Zof_ltb, ?Zof_leb, ?Zof_gtb, ?Zof_geb.
(* the level assert of get_support_points_with_their_weights at level 0 *)
Ltac decide_level0 :=
  change (Z.of_nat 0) with 0; replace (0 <=? 0) with true by reflexivity;
  match goal with |- context [0 <=? Z.of_nat ?m] => replace (0 <=? Z.of_nat m) with true by (symmetry; apply Z.leb_le; lia) end;
  py_step.

(* ------------------------------------------------------------------ objects *)
Notation EC := mk_ExtrapolationCoefficients_t.
Notation C_Lin := ExtrapolationCoefficients_C_RombergLinearCoefficients.
Notation C_Def := ExtrapolationCoefficients_C_RombergDefaultCoefficients.
Notation C_Sim := ExtrapolationCoefficients_C_RombergSimpsonCoefficients.
Notation V_Def := ExtrapolationVersion_ROMBERG_DEFAULT.
Notation V_Lin := ExtrapolationVersion_ROMBERG_LINEAR.
Notation V_Sim := ExtrapolationVersion_ROMBERG_SIMPSON.

(* exponent and first level of the three coefficient classes (ROMBERG_LINEAR, ROMBERG_DEFAULT, ROMBERG_SIMPSON) *)
Definition cls_e (c : ExtrapolationCoefficients_cls) : nat := match c with C_Lin => 1 | C_Def => 2 | C_Sim => 3 end.
Definition cls_lo (c : ExtrapolationCoefficients_cls) : nat := match c with C_Sim => simpson_min_level | _ => 0 end.
Definition ver_cls (v : ExtrapolationVersion) : ExtrapolationCoefficients_cls :=
  match v with V_Def => C_Def | V_Lin => C_Lin | V_Sim => C_Sim end.

(* ------------------------------------------------------------------ get_step_width *)
Lemma pow2_neq0 k : pow2 k <> 0%Qc.
Proof. unfold pow2. apply pow_neq0. exact Qc2_neq0. Qed.

Theorem gen_get_step_width c a b k :
  ExtrapolationCoefficients_get_step_width (EC c a b) (Z.of_nat k) = Some (step_width a b k).
Proof.
  unfold ExtrapolationCoefficients_get_step_width. rewrite py_fpow_nat. py_step.
  cbn [ExtrapolationCoefficients_f_a ExtrapolationCoefficients_f_b].
  change (Qcpower (py_Z2Qc 2) k) with (pow2 k). rewrite py_fdiv_some by apply pow2_neq0. reflexivity.
Qed.

(* ------------------------------------------------------------------ get_romberg_coefficient *)
Lemma rpow_neq (r : Qc) : (0 < r)%Qc -> (r < 1)%Qc -> forall i j, i <> j -> (r ^ i <> r ^ j)%Qc.
Proof.
  intros P L.
  assert (W : forall i d, (1 <= d)%nat -> (r ^ i <> r ^ (i + d))%Qc).
  { intros i d Hd E. rewrite pow_add in E.
    assert (Z0 : (r ^ i * (1 - r ^ d) = 0)%Qc) by (transitivity (r ^ i - r ^ i * r ^ d)%Qc; [ring | rewrite <- E; ring]).
    apply Qcmult_integral in Z0. destruct Z0 as [Z0|Z0].
    - exact (rpow_neq0 r P L i Z0).
    - exact (one_minus_rpow r P L d Hd Z0). }
  intros i j N. destruct (Nat.lt_ge_cases i j) as [H|H].
  - replace j with (i + (j - i))%nat by lia. apply W. lia.
  - intro E. symmetry in E. revert E. replace i with (j + (i - j))%nat by lia. apply W. lia.
Qed.

Lemma step_pow_diff_neq0 a b e i j : a <> b -> (1 <= e)%nat -> i <> j ->
  (step_width a b i ^ e - step_width a b j ^ e <> 0)%Qc.
Proof.
  intros Hab He Hij. rewrite !step_width_pow.
  replace ((b - a) ^ e * ratio e ^ i - (b - a) ^ e * ratio e ^ j)%Qc with ((b - a) ^ e * (ratio e ^ i - ratio e ^ j))%Qc by ring.
  intro Z0. apply Qcmult_integral in Z0. destruct Z0 as [Z0|Z0].
  - revert Z0. apply pow_neq0. apply sub_neq0. intro E. apply Hab. symmetry. exact E.
  - destruct (ratio_range e He) as [R0 R1]. apply (rpow_neq (ratio e) R0 R1 i j Hij).
    transitivity (ratio e ^ j + (ratio e ^ i - ratio e ^ j))%Qc; [ring | rewrite Z0; ring].
Qed.

Lemma fold_left_mul_prodQ {A} (f : A -> Qc) (l : list A) (c : Qc) :
  fold_left (fun acc x => (acc * f x)%Qc) l c = (c * prodQ (map f l))%Qc.
Proof. revert c. induction l as [|x l IH]; intros c; cbn [fold_left map prodQ]; [ring|]. rewrite IH. ring. Qed.

Theorem gen_get_romberg_coefficient c a b m j e lo : a <> b -> (1 <= e)%nat ->
  ExtrapolationCoefficients_get_romberg_coefficient (EC c a b) (Z.of_nat m) (Z.of_nat j) (Z.of_nat e) (Z.of_nat lo)
  = Some (romberg_coefficient_from lo a b e m j).
Proof.
  intros Hab He. unfold ExtrapolationCoefficients_get_romberg_coefficient, romberg_coefficient_from.
  znat. destruct (j <? lo)%nat eqn:Elo; py_step; [qfin|].
  rewrite ?gen_get_step_width. py_step.
  replace (Z.of_nat m + 1) with (Z.of_nat (S m)) by lia. rewrite py_range2_seq, py_for_map'.
  rewrite (py_for_fold' (fun acc i => (acc * coeff_factor a b j e i)%Qc)).
  - py_step. rewrite fold_left_mul_prodQ. qfin.
  - intros i w Hi. rewrite ?gen_get_step_width. py_step. znat. unfold coeff_factor.
    destruct (Nat.eqb_spec i j) as [->|Nij]; cbn [negb]; py_step; rewrite ?gen_get_step_width, ?py_fpow_nat; py_step;
      rewrite ?py_fdiv_some by (apply step_pow_diff_neq0; assumption); py_step; qfin.
Qed.

(* ------------------------------------------------------------------ get_coefficient of the three classes + dynamic dispatch *)
Theorem gen_get_coefficient c a b m j : a <> b ->
  ExtrapolationCoefficients_dyn_get_coefficient (EC c a b) (Z.of_nat m) (Z.of_nat j)
  = Some (romberg_coefficient_from (cls_lo c) a b (cls_e c) m j).
Proof.
  intros Hab. unfold ExtrapolationCoefficients_dyn_get_coefficient. cbn [ExtrapolationCoefficients_cls_of].
  destruct c; cbn [cls_lo cls_e].
  - unfold RombergLinearCoefficients_get_coefficient.
    rewrite (gen_get_romberg_coefficient _ a b m j 1 0) by (try assumption; lia). reflexivity.
  - unfold RombergDefaultCoefficients_get_coefficient.
    rewrite (gen_get_romberg_coefficient _ a b m j 2 0) by (try assumption; lia). reflexivity.
  - unfold RombergSimpsonCoefficients_get_coefficient.
    change 3 with (Z.of_nat 3). change 1 with (Z.of_nat simpson_min_level).
    rewrite (gen_get_romberg_coefficient _ a b m j 3 simpson_min_level) by (try assumption; lia). reflexivity.
Qed.

Lemma romberg_coefficient_from_0 a b e m j : romberg_coefficient_from 0 a b e m j = romberg_coefficient a b e m j.
Proof. unfold romberg_coefficient_from, romberg_coefficient. cbn [Nat.ltb Nat.leb]. rewrite Nat.sub_0_r. reflexivity. Qed.

(* ------------------------------------------------------------------ constructors and factories *)
Theorem gen_coefficients_factory_get v a b s :
  ExtrapolationCoefficientsFactory_get (mk_ExtrapolationCoefficientsFactory_t v) a b s = Some (EC (ver_cls v) a b).
Proof. destruct v; reflexivity. Qed.

Notation RW := mk_RombergWeights_t.
Definition ver_wcls (v : ExtrapolationVersion) : RombergWeights_cls :=
  match v with V_Sim => RombergWeights_C_RombergSimpsonWeights | _ => RombergWeights_C_RombergTrapezoidalWeights end.

(* RombergWeightFactory.get(a, b, version): the object with the coefficient object of the same version inside *)
Theorem gen_weight_factory_get a b v :
  RombergWeightFactory_get a b v = Some (RW (ver_wcls v) a b v (EC (ver_cls v) a b)).
Proof. destruct v; reflexivity. Qed.

(* ------------------------------------------------------------------ weights *)
Section Weights.
  Variables (wc : RombergWeights_cls) (c : ExtrapolationCoefficients_cls) (a b : Qc) (v : ExtrapolationVersion).
  Hypothesis Hab : a <> b.
  Let self := RW wc a b v (EC c a b).
  Let coeff (m j : nat) := romberg_coefficient_from (cls_lo c) a b (cls_e c) m j.

  Lemma gen_w_step_width k : RombergWeights_get_step_width self (Z.of_nat k) = Some (step_width a b k).
  Proof. unfold RombergWeights_get_step_width, self. cbn [RombergWeights_f_extrapolation_factory]. rewrite gen_get_step_width. reflexivity. Qed.

  Lemma gen_w_coeff m j :
    ExtrapolationCoefficients_dyn_get_coefficient (RombergWeights_f_extrapolation_factory self) (Z.of_nat m) (Z.of_nat j)
    = Some (coeff m j).
  Proof. unfold self. cbn [RombergWeights_f_extrapolation_factory]. apply gen_get_coefficient. exact Hab. Qed.

  (* one loop iteration / straight-line piece: the two method calls in any order *)
  Ltac wstep := repeat (py_step; first [rewrite gen_w_coeff | rewrite gen_w_step_width]); py_step.

  Lemma gen_w_extrapolation_coefficient m j :
    RombergWeights_get_extrapolation_coefficient self (Z.of_nat m) (Z.of_nat j) = Some (coeff m j).
  Proof.
    unfold RombergWeights_get_extrapolation_coefficient. wstep. reflexivity.
  Qed.

  Lemma gen_trap_boundary m :
    RombergTrapezoidalWeights_get_boundary_point_weight self (Z.of_nat m)
    = Some (sumQ (map (fun j => (coeff m j * step_width a b j) / Qc2)%Qc (seq 0 (S m)))).
  Proof.
    unfold RombergTrapezoidalWeights_get_boundary_point_weight.
    replace (Z.of_nat m + 1) with (Z.of_nat (S m)) by lia. rewrite ?py_range2_from0, py_range_seq0, py_for_map'.
    rewrite (py_for_fold' (fun acc j => (acc + (coeff m j * step_width a b j) / Qc2)%Qc)).
    - py_step. rewrite fold_left_add_sumQ. qfin.
    - intros j w _. wstep. qfin.
  Qed.

  Lemma gen_trap_inner l m :
    RombergTrapezoidalWeights_get_inner_point_weight self (Z.of_nat l) (Z.of_nat m)
    = if (1 <=? l)%nat && (l <=? m)%nat
      then Some (sumQ (map (fun j => coeff m j * step_width a b j)%Qc (seq l (S m - l)))) else None.
  Proof.
    unfold RombergTrapezoidalWeights_get_inner_point_weight.
    change 1 with (Z.of_nat 1). rewrite !Zof_leb.
    destruct ((1 <=? l)%nat && (l <=? m)%nat); py_step; [|reflexivity].
    replace (Z.of_nat m + Z.of_nat 1) with (Z.of_nat (S m)) by lia. rewrite py_range2_seq, py_for_map'.
    rewrite (py_for_fold' (fun acc j => (acc + coeff m j * step_width a b j)%Qc)).
    - py_step. rewrite fold_left_add_sumQ. qfin.
    - intros j w _. wstep. qfin.
  Qed.

  Lemma gen_simpson_boundary m :
    RombergSimpsonWeights_get_boundary_point_weight self (Z.of_nat m)
    = Some (sumQ (map (fun j => coeff m j * step_width a b j)%Qc (seq 0 (S m))) / Qc3)%Qc.
  Proof.
    unfold RombergSimpsonWeights_get_boundary_point_weight.
    replace (Z.of_nat m + 1) with (Z.of_nat (S m)) by lia. rewrite ?py_range2_from0, py_range_seq0, py_for_map'.
    rewrite (py_for_fold' (fun acc j => (acc + coeff m j * step_width a b j)%Qc)).
    - py_step. rewrite fold_left_add_sumQ. qnorm. f_equal. f_equal. ring.
    - intros j w _. wstep. qfin.
  Qed.

  Lemma gen_simpson_inner l m :
    RombergSimpsonWeights_get_inner_point_weight self (Z.of_nat l) (Z.of_nat m)
    = if (1 <=? l)%nat && (l <=? m)%nat
      then Some (((coeff m l * Qc4) / Qc3) * step_width a b l
                 + sumQ (map (fun j => ((coeff m j * step_width a b j) * Qc2) / Qc3) (seq (S l) (m - l))))%Qc
      else None.
  Proof.
    unfold RombergSimpsonWeights_get_inner_point_weight.
    change 1 with (Z.of_nat 1). rewrite !Zof_leb.
    destruct ((1 <=? l)%nat && (l <=? m)%nat) eqn:Hlm; py_step; [|reflexivity].
    apply andb_true_iff in Hlm. destruct Hlm as [H1 H2]. apply Nat.leb_le in H1. apply Nat.leb_le in H2.
    wstep.
    replace (Z.of_nat l + Z.of_nat 1) with (Z.of_nat (S l)) by lia.
    replace (Z.of_nat m + Z.of_nat 1) with (Z.of_nat (S m)) by lia.
    rewrite Zof_gtb. change (py_Z2Qc 4) with Qc4. change (py_Z2Qc 3) with Qc3.
    destruct (Nat.ltb_spec m (S l)) as [Hlt|Hge]; py_step.
    - replace (m - l)%nat with 0%nat by lia. cbn [seq map sumQ]. f_equal. fold (coeff m l). ring.
    - rewrite py_range2_seq, py_for_map'.
      rewrite (py_for_fold' (fun acc j => (acc + ((coeff m j * step_width a b j) * Qc2) / Qc3)%Qc)).
      + py_step. rewrite fold_left_add_sumQ. replace (S m - S l)%nat with (m - l)%nat by lia. reflexivity.
      + intros j w _. wstep. qfin.
  Qed.
End Weights.

(* ------------------------------------------------------------------ the objects RombergWeightFactory.get hands out *)
Lemma map_coeff_from0 a b e m (g : Qc -> nat -> Qc) l :
  map (fun j => g (romberg_coefficient_from 0 a b e m j) j) l = map (fun j => g (romberg_coefficient a b e m j) j) l.
Proof. apply map_ext. intro j. rewrite romberg_coefficient_from_0. reflexivity. Qed.

(* ROMBERG_DEFAULT (exponent 2) and ROMBERG_LINEAR (exponent 1): RombergTrapezoidalWeights *)
Definition ver_e (v : ExtrapolationVersion) : nat := cls_e (ver_cls v).

Theorem gen_factory_trap_boundary a b v m f : a <> b -> v <> V_Sim ->
  RombergWeightFactory_get a b v = Some f ->
  RombergTrapezoidalWeights_get_boundary_point_weight f (Z.of_nat m) = Some (trap_boundary_weight a b (ver_e v) m).
Proof.
  intros Hab Hv E. rewrite gen_weight_factory_get in E. injection E as <-.
  rewrite gen_trap_boundary by exact Hab. unfold trap_boundary_weight, ver_e.
  destruct v; try contradiction; cbn [ver_cls cls_lo cls_e];
    rewrite (map_coeff_from0 a b _ m (fun cf j => (cf * step_width a b j) / Qc2)%Qc); reflexivity.
Qed.

Theorem gen_factory_trap_inner a b v l m f : a <> b -> v <> V_Sim ->
  RombergWeightFactory_get a b v = Some f ->
  RombergTrapezoidalWeights_get_inner_point_weight f (Z.of_nat l) (Z.of_nat m) = trap_inner_weight a b (ver_e v) l m.
Proof.
  intros Hab Hv E. rewrite gen_weight_factory_get in E. injection E as <-.
  rewrite gen_trap_inner by exact Hab. unfold trap_inner_weight, ver_e.
  destruct v; try contradiction; cbn [ver_cls cls_lo cls_e];
    rewrite (map_coeff_from0 a b _ m (fun cf j => cf * step_width a b j)%Qc); reflexivity.
Qed.

(* ROMBERG_SIMPSON: RombergSimpsonWeights; the first level taking part (min_level in the source) is the model's switch
   simpson_min_level *)
Theorem gen_factory_simpson_boundary a b m f : a <> b ->
  RombergWeightFactory_get a b V_Sim = Some f ->
  RombergSimpsonWeights_get_boundary_point_weight f (Z.of_nat m) = Some (simpson_boundary_weight a b m).
Proof.
  intros Hab E. rewrite gen_weight_factory_get in E. injection E as <-.
  rewrite gen_simpson_boundary by exact Hab. reflexivity.
Qed.

Theorem gen_factory_simpson_inner a b l m f : a <> b ->
  RombergWeightFactory_get a b V_Sim = Some f ->
  RombergSimpsonWeights_get_inner_point_weight f (Z.of_nat l) (Z.of_nat m) = simpson_inner_weight a b l m.
Proof.
  intros Hab E. rewrite gen_weight_factory_get in E. injection E as <-.
  rewrite gen_simpson_inner by exact Hab. reflexivity.
Qed.

(* the factory never raises *)
Theorem gen_weight_factory_total a b v : exists f, RombergWeightFactory_get a b v = Some f.
Proof. eexists. apply gen_weight_factory_get. Qed.

(* ------------------------------------------------------------------ slice algebra: RombergGridSlice.get_weight_for_left_and_right_support_point
   (self.left_point, self.right_point, self.width are parameters; the constructor sets width = right_point - left_point) *)
Lemma half_lit : (py_Z2Qc 1 / py_Z2Qc 2)%Qc = Qchalf.
Proof. apply Qc_is_canon. reflexivity. Qed.

Theorem gen_slice_pair s L R :
  RombergGridSlice_get_weight_for_left_and_right_support_point (sl_l s) (sl_r s) (sl_width s) L R = romberg_slice_pair s L R.
Proof.
  unfold RombergGridSlice_get_weight_for_left_and_right_support_point, romberg_slice_pair.
  destruct (Qc_leb L (sl_l s) && Qc_leb (sl_r s) R) eqn:E1; py_step; [|reflexivity].
  destruct (Qc_eqb L R) eqn:E2; py_step; [reflexivity|].
  assert (N : (L - R)%Qc <> 0%Qc).
  { apply sub_neq0. intro E. apply Qc_eqb_eq in E. congruence. }
  rewrite !py_fdiv_some by exact N. py_step. rewrite ?half_lit. qnorm. unfold sl_width, Qcdiv. apply f_equal. apply f_equal2; ring.
Qed.

(* ------------------------------------------------------------------ C11 statements for the generated definitions *)
(* the coefficients of every class sum to one over the levels that take part: for EVERY m, every interval *)
Theorem gen_coefficients_sum_one c a b m : a <> b -> (cls_lo c <= m)%nat ->
  exists cs, py_mapM (fun j => ExtrapolationCoefficients_dyn_get_coefficient (EC c a b) (Z.of_nat m) j) (py_range (Z.of_nat (S m))) = Some cs
             /\ sumQ cs = 1%Qc.
Proof.
  intros Hab Hlo. exists (map (romberg_coefficient_from (cls_lo c) a b (cls_e c) m) (seq 0 (S m))). split.
  - rewrite py_range_seq0.
    assert (G : forall l, py_mapM (fun j => ExtrapolationCoefficients_dyn_get_coefficient (EC c a b) (Z.of_nat m) j) (map Z.of_nat l)
                          = Some (map (romberg_coefficient_from (cls_lo c) a b (cls_e c) m) l)).
    { induction l as [|j l IH]; [reflexivity|]. cbn [map py_mapM]. rewrite gen_get_coefficient by exact Hab. rewrite IH. reflexivity. }
    apply G.
  - apply romberg_coeff_from_sum_one; [exact Hab | destruct c; cbn; lia | exact Hlo].
Qed.

(* ... and do not depend on the interval *)
Theorem gen_coefficients_interval_independent c a b a' b' m j : a <> b -> a' <> b' ->
  ExtrapolationCoefficients_dyn_get_coefficient (EC c a b) (Z.of_nat m) (Z.of_nat j)
  = ExtrapolationCoefficients_dyn_get_coefficient (EC c a' b') (Z.of_nat m) (Z.of_nat j).
Proof.
  intros H H'. rewrite !gen_get_coefficient by assumption. f_equal. unfold romberg_coefficient_from.
  destruct (j <? cls_lo c)%nat; [reflexivity|]. f_equal. apply map_ext. intro i.
  rewrite !coeff_factor_pure by assumption. reflexivity.
Qed.

(* the two weights of a slice for a support pair: sum = slice width, first moment exact *)
Theorem gen_slice_pair_consistent l r L R wl wr :
  RombergGridSlice_get_weight_for_left_and_right_support_point l r (r - l)%Qc L R = Some (wl, wr) ->
  (wl + wr = r - l /\ L * wl + R * wr = Qchalf * (r * r - l * l))%Qc.
Proof.
  intros E. pose (s := mkSlice l r 0 0 []).
  change l with (sl_l s) in E at 1. change r with (sl_r s) in E at 1. change (r - l)%Qc with (sl_width s) in E.
  rewrite gen_slice_pair in E. split.
  - exact (romberg_slice_pair_sum s L R wl wr E).
  - exact (romberg_slice_pair_moment s L R wl wr E).
Qed.

(* ------------------------------------------------------------------ slice weight assembly: get_final_weights
   Python returns a defaultdict(list) keyed by grid points; the hand-written model the list of contributions (point, weight)
   in the order in which they are appended.  fdict_of groups the contributions the way the Python dictionary does. *)
Definition fdict_app (d : list (Qc * list Qc)) (kv : contrib) := py_fdict_append d (fst kv) (snd kv).
Definition fdict_of (cs : list contrib) : list (Qc * list Qc) := fold_left fdict_app cs [].

Theorem gen_trapezoid_slice_final s :
  TrapezoidalGridSlice_get_final_weights (sl_l s) (sl_r s) (sl_width s) = option_map fdict_of (trapezoid_slice_final s).
Proof.
  unfold TrapezoidalGridSlice_get_final_weights, TrapezoidalGridSlice_get_weight_for_left_and_right_support_point. py_step.
  unfold trapezoid_slice_final, fdict_of, fdict_app. cbn [option_map fold_left fst snd]. qnorm. apply f_equal.
  apply (f_equal3 py_fdict_append); [apply (f_equal3 py_fdict_append); [reflexivity | reflexivity | qfin] | reflexivity | qfin].
Qed.

Lemma py_for_contribs {A R} (f : A -> option (list contrib)) (l : list A)
      (body : A -> list (Qc * list Qc) -> flow (list (Qc * list Qc)) R) d0 :
  (forall x d, In x l -> body x d = match f x with Some cs => Nxt (fold_left fdict_app cs d) | None => Fail end) ->
  py_for l body d0 = match opt_concat (map f l) with Some cs => Nxt (fold_left fdict_app cs d0) | None => Fail end.
Proof.
  revert d0. induction l as [|x l IH]; intros d0 H; [reflexivity|].
  cbn [py_for map opt_concat]. rewrite (H x d0 (or_introl eq_refl)). destruct (f x) as [cs|]; [|reflexivity].
  rewrite IH by (intros y d Hy; apply H; right; exact Hy).
  destruct (opt_concat (map f l)) as [cs'|]; [|reflexivity]. rewrite fold_left_app. reflexivity.
Qed.

(* RombergGridSlice.get_final_weights for a slice whose coefficient factory has the version ROMBERG_DEFAULT (what
   ExtrapolationGridSliceFactory builds for SliceVersion.ROMBERG_DEFAULT); self.support_sequence, self.max_level, the end points
   and the width are the attributes of the slice; subtract_constants is the no-op of class RombergGridSlice *)
Theorem gen_romberg_slice_final s :
  RombergGridSlice_get_final_weights (sl_l s) (sl_r s) (sl_width s) (Z.of_nat (sl_max_level s)) (sl_supp s)
    (mk_ExtrapolationCoefficientsFactory_t V_Def) = option_map fdict_of (romberg_slice_final s).
Proof.
  unfold RombergGridSlice_get_final_weights, romberg_slice_final.
  destruct (sl_supp s) as [|[a b] rest] eqn:Es; [reflexivity|].
  rewrite (py_getitem_at _ 0 0%nat (0%Qc, 0%Qc)) by (cbn [length]; lia). cbn [nth]. py_step.
  rewrite gen_coefficients_factory_get. py_step. cbn [ver_cls].
  replace (Z.of_nat (sl_max_level s) + 1) with (Z.of_nat (S (sl_max_level s))) by lia.
  rewrite ?py_range2_from0, py_range_seq0, py_for_map'.
  set (m := sl_max_level s). set (supp := (a, b) :: rest).
  set (f := fun level : nat =>
              let '(L, R) := nth level supp (0%Qc, 0%Qc) in
              match romberg_slice_pair s L R with
              | Some (wl, wr) => let c := romberg_coefficient a b 2 m level in Some [(L, (c * wl)%Qc); (R, (c * wr)%Qc)]
              | None => None
              end).
  match goal with |- _ = option_map fdict_of ?rhs => change rhs with (opt_concat (map f (seq 0 (S m)))) end.
  assert (P00 : romberg_slice_pair s 0%Qc 0%Qc = None).
  { unfold romberg_slice_pair. replace (Qc_eqb 0 0) with true by reflexivity. rewrite andb_false_r. reflexivity. }
  destruct (Qc_eq_dec a b) as [Eab|Nab].
  - (* degenerate interval: level 0 is rejected by the assert left <> right, in the code and in the model *)
    subst b.
    assert (Paa : romberg_slice_pair s a a = None).
    { unfold romberg_slice_pair. replace (Qc_eqb a a) with true by (symmetry; apply Qc_eqb_eq; reflexivity).
      rewrite andb_false_r. reflexivity. }
    assert (Hf0 : f 0%nat = None) by (unfold f, supp; cbn [nth]; rewrite Paa; reflexivity).
    cbn [seq map py_for opt_concat]. rewrite Hf0. cbn [option_map].
    unfold RombergGridSlice_get_support_points_with_their_weights at 1. decide_level0.
    rewrite (py_getitem_at supp 0 0%nat (0%Qc, 0%Qc)) by (try reflexivity; unfold supp; cbn [length]; lia).
    unfold supp at 1. cbn [nth]. py_step. rewrite gen_slice_pair, Paa. py_step.
    (* whatever the coefficient of the degenerate interval is (it may divide 0 by 0), the iteration fails *)
    repeat match goal with
           | |- context [ExtrapolationCoefficients_dyn_get_coefficient ?o ?mm ?j] =>
               destruct (ExtrapolationCoefficients_dyn_get_coefficient o mm j); py_step
           end; reflexivity.
  - rewrite (py_for_contribs f).
    + unfold contrib. destruct (opt_concat (map f (seq 0 (S m)))) as [cs|]; py_step; [|reflexivity].
      unfold RombergGridSlice_subtract_constants. py_step. reflexivity.
    + intros level d Hl. apply in_seq in Hl.
      unfold RombergGridSlice_get_support_points_with_their_weights, f.
      rewrite ?gen_get_coefficient by exact Nab. cbn [cls_lo cls_e]. rewrite ?romberg_coefficient_from_0. py_step.
      change 0 with (Z.of_nat 0) at 1. rewrite !Zof_leb.
      replace ((0 <=? level)%nat && (level <=? m)%nat) with true
        by (symmetry; apply andb_true_iff; split; apply Nat.leb_le; lia). py_step.
      destruct (Nat.lt_ge_cases level (length supp)) as [Hin|Hout].
      * rewrite (py_getitem_at supp _ level (0%Qc, 0%Qc)) by (try reflexivity; exact Hin). py_step.
        destruct (nth level supp (0%Qc, 0%Qc)) as [L R]. rewrite gen_slice_pair.
        destruct (romberg_slice_pair s L R) as [[wl wr]|] eqn:Ep; py_step; [|reflexivity].
        change (2 =? 2) with true. cbn [py_assert fst snd].
        unfold fdict_app. cbn [fold_left fst snd]. apply f_equal.
        apply (f_equal3 py_fdict_append); [apply (f_equal3 py_fdict_append); [reflexivity | reflexivity | ring] | reflexivity | ring].
      * rewrite py_getitem_out by (unfold py_len; lia). py_step.
        rewrite nth_overflow by exact Hout. rewrite P00. reflexivity.
Qed.

(* what the dictionary of a slice says: total weight and first moment (sum over all keys and all appended weights) *)
Fixpoint fdict_wsum (d : list (Qc * list Qc)) : Qc := match d with [] => 0 | (k, vs) :: r => sumQ vs + fdict_wsum r end.
Fixpoint fdict_wmom (d : list (Qc * list Qc)) : Qc := match d with [] => 0 | (k, vs) :: r => k * sumQ vs + fdict_wmom r end.

Lemma fdict_append_wsum d k v : fdict_wsum (py_fdict_append d k v) = (fdict_wsum d + v)%Qc.
Proof.
  induction d as [|[k' vs] r IH]; cbn [py_fdict_append fdict_wsum sumQ]; [ring|].
  destruct (Qc_eqb k k'); cbn [fdict_wsum]; [rewrite sumQ_app; cbn [sumQ]; ring | rewrite IH; ring].
Qed.
Lemma fdict_append_wmom d k v : fdict_wmom (py_fdict_append d k v) = (fdict_wmom d + k * v)%Qc.
Proof.
  induction d as [|[k' vs] r IH]; cbn [py_fdict_append fdict_wmom sumQ]; [ring|].
  destruct (Qc_eqb k k') eqn:E; cbn [fdict_wmom].
  - apply Qc_eqb_eq in E. subst k'. rewrite sumQ_app. cbn [sumQ]. ring.
  - rewrite IH. ring.
Qed.
Lemma fdict_of_sums cs : fdict_wsum (fdict_of cs) = wsum cs /\ fdict_wmom (fdict_of cs) = wmom cs.
Proof.
  unfold fdict_of.
  assert (G : forall d, fdict_wsum (fold_left fdict_app cs d) = (fdict_wsum d + wsum cs)%Qc /\
                        fdict_wmom (fold_left fdict_app cs d) = (fdict_wmom d + wmom cs)%Qc).
  { induction cs as [|[k v] cs IH]; intros d; cbn [fold_left wsum wmom]; [split; ring|].
    destruct (IH (fdict_app d (k, v))) as [I1 I2]. rewrite I1, I2. unfold fdict_app. cbn [fst snd].
    rewrite fdict_append_wsum, fdict_append_wmom. split; ring. }
  destruct (G []) as [G1 G2]. rewrite G1, G2. cbn [fdict_wsum fdict_wmom]. split; ring.
Qed.

(* C11 for the generated slice assembly: whenever get_final_weights returns, the weights of the dictionary sum to the slice
   width and reproduce int_l^r x dx -- Romberg slices (any support sequence the code accepts) and trapezoidal slices *)
Theorem gen_romberg_slice_final_consistent s d :
  RombergGridSlice_get_final_weights (sl_l s) (sl_r s) (sl_width s) (Z.of_nat (sl_max_level s)) (sl_supp s)
    (mk_ExtrapolationCoefficientsFactory_t V_Def) = Some d ->
  fdict_wsum d = sl_width s /\ fdict_wmom d = half_sq (sl_l s) (sl_r s).
Proof.
  rewrite gen_romberg_slice_final. destruct (romberg_slice_final s) as [cs|] eqn:E; cbn [option_map]; [|discriminate].
  intro H. injection H as <-. destruct (fdict_of_sums cs) as [S1 S2]. rewrite S1, S2.
  exact (slice_final_sums SV_Romberg s cs E).
Qed.
Theorem gen_trapezoid_slice_final_consistent s d :
  TrapezoidalGridSlice_get_final_weights (sl_l s) (sl_r s) (sl_width s) = Some d ->
  fdict_wsum d = sl_width s /\ fdict_wmom d = half_sq (sl_l s) (sl_r s).
Proof.
  rewrite gen_trapezoid_slice_final. destruct (trapezoid_slice_final s) as [cs|] eqn:E; cbn [option_map]; [|discriminate].
  intro H. injection H as <-. destruct (fdict_of_sums cs) as [S1 S2]. rewrite S1, S2.
  exact (slice_final_sums SV_Trapezoid s cs E).
Qed.

(* ------------------------------------------------------------------ support sequences: ExtrapolationGrid.compute_support_sequence
   and the recursion __compute_support_sequence_rec (fuel passed by the generated wrapper: S (len(grid_levels))).
   Indices and levels are natural numbers in the hand-written model. *)
Definition zpair (se : nat * nat) : Z * Z := (Z.of_nat (fst se), Z.of_nat (snd se)).

Lemma py_slice_nat {A} (l : list A) (a b : nat) :
  py_slice l (Some (Z.of_nat a)) (Some (Z.of_nat b)) = slice_list l a b.
Proof.
  unfold py_slice, py_slice_bound, slice_list, py_len.
  destruct (Z.of_nat a <? 0) eqn:E1; [apply Z.ltb_lt in E1; lia|].
  destruct (Z.of_nat b <? 0) eqn:E2; [apply Z.ltb_lt in E2; lia|].
  set (n := length l).
  destruct (Nat.le_gt_cases n a) as [Ha|Ha].
  - (* the slice starts behind the end *)
    replace (Z.to_nat (Z.min (Z.of_nat a) (Z.of_nat n))) with n by lia.
    rewrite !skipn_all2 by (fold n; lia). rewrite !firstn_nil. reflexivity.
  - replace (Z.to_nat (Z.min (Z.of_nat a) (Z.of_nat n))) with a by lia.
    destruct (Nat.le_gt_cases b n) as [Hb|Hb].
    + replace (Z.to_nat (Z.min (Z.of_nat b) (Z.of_nat n) - Z.min (Z.of_nat a) (Z.of_nat n))) with (b - a)%nat by lia. reflexivity.
    + replace (Z.to_nat (Z.min (Z.of_nat b) (Z.of_nat n) - Z.min (Z.of_nat a) (Z.of_nat n))) with (n - a)%nat by lia.
      rewrite !firstn_all2; [reflexivity | rewrite skipn_length; fold n; lia | rewrite skipn_length; fold n; lia].
Qed.

Lemma slice_list_map {A B} (g : A -> B) (l : list A) a b : slice_list (map g l) a b = map g (slice_list l a b).
Proof. unfold slice_list. rewrite skipn_map, firstn_map. reflexivity. Qed.

Lemma py_list_min_nat x r : py_list_min (map Z.of_nat (x :: r)) = Some (Z.of_nat (list_min x r)).
Proof.
  cbn [map py_list_min]. f_equal. revert x. induction r as [|y r IH]; intros x; [reflexivity|].
  cbn [map fold_left list_min]. rewrite <- Nat2Z.inj_min. apply IH.
Qed.

Lemma py_list_index_nat l x : In x l -> py_list_index (map Z.of_nat l) (Z.of_nat x) = Some (Z.of_nat (index_of x l)).
Proof.
  induction l as [|y l IH]; intros H; [destruct H|]. cbn [map py_list_index index_of].
  rewrite Zof_eqb. rewrite Nat.eqb_sym. destruct (Nat.eqb_spec x y) as [->|N]; [reflexivity|].
  destruct H as [H|H]; [congruence|]. rewrite (IH H). f_equal. lia.
Qed.

(* the generated recursion with enough fuel computes the model's recursion (whose own fuel only has to bound stop - start) *)
Lemma gen_support_rec lv fs fe : forall fuel f start stop,
  (stop - start < fuel)%nat -> (stop - start <= f)%nat ->
  ExtrapolationGrid___compute_support_sequence_rec_rec fuel (map Z.of_nat lv) (Z.of_nat start) (Z.of_nat stop) (Z.of_nat fs) fe
  = Some (map zpair (supp_rec f lv start stop fs)).
Proof.
  induction fuel as [|fuel IH]; intros f start stop Hfuel Hf; [lia|].
  cbn [ExtrapolationGrid___compute_support_sequence_rec_rec]. znat.
  destruct (Nat.leb_spec stop start) as [Hle|Hlt].
  - py_step. destruct f; cbn [supp_rec]; [reflexivity|].
    destruct (Nat.leb_spec stop start); [reflexivity | lia].
  - py_step. destruct f as [|f]; [lia|]. cbn [supp_rec].
    destruct (Nat.leb_spec stop start) as [C|_]; [lia|].
    replace (Z.of_nat start + 1) with (Z.of_nat (S start)) by lia.
    rewrite py_slice_nat, slice_list_map.
    destruct (slice_list lv (S start) stop) as [|x sl] eqn:E.
    + cbn [map py_len length]. change (Z.of_nat 0 =? 0) with true. py_step. reflexivity.
    + assert (L := slice_list_length lv (S start) stop). rewrite E in L.
      assert (A : (argmin (x :: sl) < length (x :: sl))%nat) by (apply argmin_lt; discriminate).
      unfold py_len. rewrite map_length.
      replace (Z.of_nat (length (x :: sl)) =? 0) with false by (symmetry; apply Z.eqb_neq; cbn [length]; lia). py_step.
      rewrite py_list_min_nat. py_step.
      rewrite py_list_index_nat by (destruct (list_min_in x sl) as [H|H]; [left; symmetry; exact H | right; exact H]). py_step.
      change (index_of (list_min x sl) (x :: sl)) with (argmin (x :: sl)).
      set (nb := (S start + argmin (x :: sl))%nat) in *.
      replace (Z.of_nat (S start) + Z.of_nat (argmin (x :: sl))) with (Z.of_nat nb) by (unfold nb; lia).
      znat. destruct (Nat.leb_spec nb fs) as [_|_]; py_step; cbn [fst snd].
      * rewrite (IH f nb stop) by (unfold nb; lia). py_step. reflexivity.
      * rewrite (IH f start nb) by (unfold nb; lia). py_step. reflexivity.
Qed.

(* every pair of the recursion lies inside [start, stop] *)
Lemma supp_rec_bounds lv fs : forall f start stop se, In se (supp_rec f lv start stop fs) ->
  (start <= fst se /\ snd se <= stop /\ fst se <= stop /\ start <= snd se)%nat.
Proof.
  induction f as [|f IH]; intros start stop se H; [destruct H|]. cbn [supp_rec] in H.
  destruct (Nat.leb_spec stop start) as [_|Hlt]; [destruct H|].
  destruct (slice_list lv (S start) stop) as [|x sl] eqn:E; [destruct H|].
  assert (L := slice_list_length lv (S start) stop). rewrite E in L.
  assert (A : (argmin (x :: sl) < length (x :: sl))%nat) by (apply argmin_lt; discriminate).
  set (nb := (S start + argmin (x :: sl))%nat) in *.
  destruct (Nat.leb_spec nb fs) as [_|_]; cbn [fst snd] in H; destruct H as [<-|H]; cbn [fst snd]; try (unfold nb; lia);
    apply IH in H; unfold nb in *; lia.
Qed.

(* compute_support_sequence: grid and levels of the same length n >= 1 (set_grid asserts it; for an empty grid the Python raises
   IndexError while the total model answers) *)
Theorem gen_compute_support_sequence grid lv fs fe : length grid = length lv -> (1 <= length grid)%nat ->
  ExtrapolationGrid_compute_support_sequence grid (map Z.of_nat lv) (Z.of_nat fs) fe = Some (support_sequence grid lv fs).
Proof.
  intros Hl H1. unfold ExtrapolationGrid_compute_support_sequence, ExtrapolationGrid___compute_support_sequence_rec.
  set (n := length lv) in *. unfold py_len. rewrite Hl, map_length. fold n.
  replace (Z.of_nat n - 1) with (Z.of_nat (n - 1)) by lia. change 0 with (Z.of_nat 0) at 1.
  rewrite (gen_support_rec lv fs fe (S n) n 0 (n - 1)) by lia. py_step.
  unfold support_sequence, support_sequence_idx. fold n.
  set (idx := (0%nat, (n - 1)%nat) :: supp_rec n lv 0 (n - 1) fs).
  change ([(0, Z.of_nat (n - 1))] ++ map zpair (supp_rec n lv 0 (n - 1) fs)) with (map zpair idx).
  assert (B : forall se, In se idx -> (fst se < length grid /\ snd se < length grid)%nat).
  { intros se [<-|H]; [cbn [fst snd]; lia|]. apply supp_rec_bounds in H. lia. }
  assert (G : forall l, (forall se, In se l -> (fst se < length grid /\ snd se < length grid)%nat) ->
     py_mapM (fun element : Z * Z => bindO (py_getitem grid (fst element)) (fun t2 => bindO (py_getitem grid (snd element))
                                      (fun t3 => Some (t2, t3)))) (map zpair l)
     = Some (map (fun se => (nthQ grid (fst se), nthQ grid (snd se))) l)).
  { induction l as [|se l IHl]; intros Hb; [reflexivity|]. cbn [map py_mapM]. unfold zpair at 1. cbn [fst snd].
    destruct (Hb se (or_introl eq_refl)) as [B1 B2].
    rewrite (py_getitem_at grid _ (fst se) 0%Qc) by (try reflexivity; exact B1).
    rewrite (py_getitem_at grid _ (snd se) 0%Qc) by (try reflexivity; exact B2). cbn [bindO].
    rewrite IHl by (intros se' H'; apply Hb; right; exact H'). reflexivity. }
  rewrite (G idx B). py_step. reflexivity.
Qed.

(* ExtrapolationGrid.get_step_width (self.a, self.b as parameters) *)
Theorem gen_grid_step_width a b k : ExtrapolationGrid_get_step_width a b (Z.of_nat k) = Some (step_width a b k).
Proof.
  unfold ExtrapolationGrid_get_step_width. rewrite py_fpow_nat. py_step.
  change (Qcpower (py_Z2Qc 2) k) with (pow2 k). rewrite py_fdiv_some by apply pow2_neq0. reflexivity.
Qed.
