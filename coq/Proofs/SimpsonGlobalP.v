(* C09 — GlobalSimpsonGrid with an odd number of points: the composite three-point rule on non-uniform panel pairs integrates every
   quadratic exactly on EVERY grid whose panel pairs have distinct points, and every cubic when every middle point is the midpoint
   of its pair (the classical Simpson rule; on a refinement tree this holds for the pairs whose middle point was created by bisection). *)
From Coq Require Import ZArith List QArith Qcanon Bool Arith Lia.
From SG Require Import Base.QcUtil Model.SimpsonGlobal.
Import ListNotations.
Open Scope Qc_scope.

Lemma q_consts : Qc2 = 1 + 1 /\ Qc3 = 1 + 1 + 1 /\ Qc6 = (1 + 1) * (1 + 1 + 1) /\ Qchalf = 1 / (1 + 1).
Proof. repeat split; apply Qc_is_canon; reflexivity. Qed.
Ltac qc_neq0 := let E := fresh in intro E; apply Qc_eq_Qeq in E; vm_compute in E; discriminate E.
Lemma sub_ne (x y : Qc) : x <> y -> x - y <> 0.
Proof. intros H E. apply H. transitivity (y + (x - y)); [ring | rewrite E; ring]. Qed.

(* one panel pair: quadratics on arbitrary spacing *)
Lemma panel_quadratic x1 x2 x3 c0 c1 c2 : x1 <> x2 -> x2 <> x3 ->
  simpson_wl x1 x2 x3 * cubic_eval c0 c1 c2 0 x1 + simpson_wm x1 x2 x3 * cubic_eval c0 c1 c2 0 x2
  + simpson_wr x1 x2 x3 * cubic_eval c0 c1 c2 0 x3 = cubic_int c0 c1 c2 0 x1 x3.
Proof.
  intros H12 H23. destruct q_consts as [E2 [E3 [E6 _]]].
  unfold simpson_wl, simpson_wm, simpson_wr, cubic_eval, cubic_int, cubic_prim. rewrite E2, E3, E6. cbn [Qcpower].
  field. repeat split; try qc_neq0; apply sub_ne; first [assumption | intro E; solve [apply H12; symmetry; exact E | apply H23; symmetry; exact E]].
Qed.

(* ... cubics when the middle point is the midpoint *)
Lemma panel_cubic x1 x3 c0 c1 c2 c3 : x1 <> x3 ->
  let x2 := (x1 + x3) * Qchalf in
  simpson_wl x1 x2 x3 * cubic_eval c0 c1 c2 c3 x1 + simpson_wm x1 x2 x3 * cubic_eval c0 c1 c2 c3 x2
  + simpson_wr x1 x2 x3 * cubic_eval c0 c1 c2 c3 x3 = cubic_int c0 c1 c2 c3 x1 x3.
Proof.
  intros H13 x2. destruct q_consts as [E2 [E3 [E6 Eh]]]. subst x2.
  unfold simpson_wl, simpson_wm, simpson_wr, cubic_eval, cubic_int, cubic_prim. rewrite E2, E3, E6, Eh. cbn [Qcpower].
  assert (D : x1 - x3 <> 0) by (apply sub_ne; exact H13).
  assert (D' : x3 - x1 <> 0) by (apply sub_ne; intro E; apply H13; symmetry; exact E).
  field. repeat split; try qc_neq0; try assumption.
  all: intro E; first [apply D | apply D']; apply Qc_eq_Qeq; apply Qc_eq_Qeq in E; qc_unfold_ops; Lqa.lra.
Qed.

(* composite rule: telescoping over the panel pairs, for any integrand whose panel rule is exact *)
Section Composite.
  Variables (f F : Qc -> Qc) (good : list Qc -> Prop).
  Hypothesis panel : forall x1 x2 x3 r, good (x1 :: x2 :: x3 :: r) ->
    simpson_wl x1 x2 x3 * f x1 + simpson_wm x1 x2 x3 * f x2 + simpson_wr x1 x2 x3 * f x3 = F x3 - F x1 /\ good (x3 :: r).

  Lemma composite_rec : forall fuel l, Nat.odd (length l) = true -> (length l <= 2 * fuel + 1)%nat -> good l ->
    length (simpson_weights_rec fuel l) = length l /\
    dotQ (simpson_weights_rec fuel l) (map f l) = F (last l 0) - F (hd 0 l).
  Proof.
    induction fuel as [|fuel IH]; intros l Ho Hl Hg.
    - destruct l as [|x [|y r]]; cbn [length] in *; try discriminate; [|lia].
      cbn [simpson_weights_rec map dotQ last hd length]. split; [reflexivity | ring].
    - destruct l as [|x1 [|x2 [|x3 r]]]; cbn [length] in Ho, Hl; try discriminate.
      + cbn [simpson_weights_rec map dotQ last hd length]. split; [reflexivity | ring].
      + destruct (panel x1 x2 x3 r Hg) as [Hp Hg'].
        assert (Ho' : Nat.odd (length (x3 :: r)) = true).
        { cbn [length]. rewrite Nat.odd_succ in Ho. rewrite Nat.even_succ in Ho. exact Ho. }
        destruct (IH (x3 :: r) Ho' ltac:(cbn [length]; lia) Hg') as [L D].
        cbn [simpson_weights_rec]. destruct (simpson_weights_rec fuel (x3 :: r)) as [|w3 ws] eqn:E; [cbn [length] in L; discriminate|].
        split; [cbn [length] in *; lia|].
        cbn [map dotQ] in D |- *. cbn [hd] in D.
        change (last (x1 :: x2 :: x3 :: r) 0) with (last (x3 :: r) 0).
        cbn [hd]. transitivity ((simpson_wl x1 x2 x3 * f x1 + simpson_wm x1 x2 x3 * f x2 + simpson_wr x1 x2 x3 * f x3)
                                + (w3 * f x3 + dotQ ws (map f r))); [ring|]. rewrite Hp, D. ring.
  Qed.
End Composite.

(* MAIN (item 2): GlobalSimpsonGrid, odd number of points >= 3 *)
Theorem simpson_global_quadratic_exact l w c0 c1 c2 :
  panel_pairs_ok l -> simpson_weights l = Some w ->
  length w = length l /\
  dotQ w (map (cubic_eval c0 c1 c2 0) l) = cubic_int c0 c1 c2 0 (hd 0 l) (last l 0).
Proof.
  intros Hok Hw. unfold simpson_weights in Hw.
  destruct (Nat.odd (length l)) eqn:Ho; [|discriminate]. destruct (3 <=? length l)%nat; [|discriminate]. injection Hw as <-.
  apply (composite_rec (cubic_eval c0 c1 c2 0) (cubic_prim c0 c1 c2 0) panel_pairs_ok); [|exact Ho|lia|exact Hok].
  intros x1 x2 x3 r [H12 [H23 Hr]]. split; [|exact Hr]. apply panel_quadratic; assumption.
Qed.

Theorem simpson_global_cubic_exact l w c0 c1 c2 c3 :
  panel_pairs_ok l -> panel_pairs_uniform l -> simpson_weights l = Some w ->
  dotQ w (map (cubic_eval c0 c1 c2 c3) l) = cubic_int c0 c1 c2 c3 (hd 0 l) (last l 0).
Proof.
  intros Hok Hu Hw. unfold simpson_weights in Hw.
  destruct (Nat.odd (length l)) eqn:Ho; [|discriminate]. destruct (3 <=? length l)%nat; [|discriminate]. injection Hw as <-.
  apply (composite_rec (cubic_eval c0 c1 c2 c3) (cubic_prim c0 c1 c2 c3) (fun l => panel_pairs_ok l /\ panel_pairs_uniform l));
    [|exact Ho|lia|split; assumption].
  intros x1 x2 x3 r [[H12 [H23 Hr]] [Em Hur]]. split; [|split; assumption]. subst x2.
  assert (H13 : x1 <> x3).
  { intro E. subst x3. apply H12. destruct q_consts as [_ [_ [_ Eh]]]. rewrite Eh. field. qc_neq0. }
  exact (panel_cubic x1 x3 c0 c1 c2 c3 H13).
Qed.

(* the weights sum to x_{n-1} - x_0 (f = 1) *)
Corollary simpson_global_sum l w : panel_pairs_ok l -> simpson_weights l = Some w -> sumQ w = last l 0 - hd 0 l.
Proof.
  intros Hok Hw. destruct (simpson_global_quadratic_exact l w 1 0 0 Hok Hw) as [L D].
  assert (E : dotQ w (map (cubic_eval 1 0 0 0) l) = sumQ w).
  { clear D Hw Hok. revert l L. induction w as [|x w IH]; intros [|y l] L; try discriminate; [reflexivity|].
    cbn [map dotQ sumQ]. rewrite IH by (cbn [length] in L; lia). unfold cubic_eval. ring. }
  rewrite <- E, D. unfold cubic_int, cubic_prim. destruct q_consts as [E2 [E3 _]]. rewrite E2, E3. field; repeat split; qc_neq0.
Qed.
