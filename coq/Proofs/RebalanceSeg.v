(* C06: rebalancing (rebalance / rebalance_interval, both rotation branches, every outcome of the binary64 decisions)
   preserves the structural invariant Seg of a 1D refinement tree:
     rebalance dec t = Some t' -> Seg a b 0 0 t -> Seg a b 0 0 t'.
   Idea: a segment handled by rebalance_interval(start, end, level) is a subtree Seg x y u w seg whose root has level
   `level` = max(u,w)+1.  The enumerate loop finds the root (position_level) and its two children (the only points of
   level+1); a rotation makes the chosen child the new root: the three subtrees involved are re-levelled by -1 / 0 / +1,
   which is again a Seg because Seg depends on the boundary levels only through their maximum (Seg_apply_deltas). *)
From Coq Require Import ZArith List Bool QArith Qcanon Arith Lia.
From SG Require Import Base.QcUtil Model.RefTree Proofs.RefTreeInv Proofs.RefTreeCheck.
Import ListNotations.
Open Scope Z_scope.
Local Arguments Z.add : simpl never.
Local Arguments Z.sub : simpl never.
Local Arguments Z.max : simpl never.
Local Arguments Z.eqb : simpl never.
Local Arguments Z.opp : simpl never.

(* ---------------------------------------------------------------------------------------------- *)
(* apply_deltas *)
Lemma apply_deltas_length seg : forall prev ds, length (apply_deltas prev ds seg) = length seg.
Proof. induction seg as [|iv seg IH]; intros prev ds; simpl; [reflexivity|]. rewrite IH. reflexivity. Qed.

Lemma apply_deltas_split A : forall prev ds1 d ds2 B, length A = S (length ds1) ->
  apply_deltas prev (ds1 ++ d :: ds2) (A ++ B) = apply_deltas prev (ds1 ++ [d]) A ++ apply_deltas d ds2 B.
Proof.
  induction A as [|a A IH]; intros prev ds1 d ds2 B L; simpl in L; [discriminate|].
  destruct ds1 as [|e ds1].
  - destruct A; [|simpl in L; discriminate]. reflexivity.
  - simpl in L. cbn [app apply_deltas tl]. f_equal. apply IH. lia.
Qed.

Lemma apply_deltas_pad A : forall prev ds, length A = S (length ds) ->
  apply_deltas prev ds A = apply_deltas prev (ds ++ [0]) A.
Proof.
  induction A as [|a A IH]; intros prev ds L; simpl in L; [discriminate|].
  destruct ds as [|e ds].
  - destruct A; [|simpl in L; discriminate]. reflexivity.
  - simpl in L. cbn [app apply_deltas tl]. f_equal. apply IH. lia.
Qed.

Lemma Seg_len x y u w T : Seg x y u w T -> (1 <= length T)%nat.
Proof. intro H. apply Seg_nonempty in H. destruct T; [contradiction | simpl; lia]. Qed.

Lemma Seg_eq x y u w u' w' T : Seg x y u w T -> u = u' -> w = w' -> Seg x y u' w' T.
Proof. intros H -> ->. exact H. Qed.

(* Seg sees the boundary levels only through their maximum: shifting all inner points by dm and the two boundary points
   by dl / dr keeps the structure whenever the maximum of the boundary levels moves by dm *)
Lemma Seg_apply_deltas x y u w T : Seg x y u w T -> forall dl dm dr,
  Z.max (u + dl) (w + dr) = Z.max u w + dm ->
  Seg x y (u + dl) (w + dr) (apply_deltas dl (repeat dm (length T - 1) ++ [dr]) T).
Proof.
  induction 1 as [x y u w c H|x y z u w T1 T2 H1 IH1 H2 IH2]; intros dl dm dr E.
  - simpl. unfold set_levels. simpl. apply Seg_leaf. assumption.
  - pose proof (Seg_len _ _ _ _ _ H1) as L1. pose proof (Seg_len _ _ _ _ _ H2) as L2.
    rewrite app_length.
    replace (repeat dm (length T1 + length T2 - 1) ++ [dr])
      with (repeat dm (length T1 - 1) ++ dm :: (repeat dm (length T2 - 1) ++ [dr])).
    2:{ replace (length T1 + length T2 - 1)%nat with ((length T1 - 1) + S (length T2 - 1))%nat by lia.
        rewrite repeat_app. simpl. rewrite <- app_assoc. reflexivity. }
    rewrite apply_deltas_split by (rewrite repeat_length; lia).
    apply Seg_node with (z := z).
    + eapply Seg_eq; [apply (IH1 dl dm dm); lia | reflexivity | lia].
    + eapply Seg_eq; [apply (IH2 dm dm dr); lia | lia | reflexivity].
Qed.

(* ---------------------------------------------------------------------------------------------- *)
(* the enumerate loop rb_scan *)
Lemma rb_scan_deep level A : forall i st, Forall (fun iv => level + 1 < i_l1 iv) A -> rb_scan level A i st = Some st.
Proof.
  induction A as [|iv A IH]; intros i st F; [reflexivity|].
  inversion F as [|? ? Hiv FA]; subst.
  destruct st as [[pl a] b]. cbn [rb_scan].
  assert (E1 : (i_l1 iv =? level) = false) by (apply Z.eqb_neq; lia).
  assert (E2 : (i_l1 iv =? level + 1) = false) by (apply Z.eqb_neq; lia).
  rewrite E1, E2. apply IH. assumption.
Qed.

Lemma rb_scan_app level A : forall B i st,
  rb_scan level (A ++ B) i st =
  match rb_scan level A i st with Some st' => rb_scan level B (i + length A)%nat st' | None => None end.
Proof.
  induction A as [|iv A IH]; intros B i st.
  - simpl. rewrite Nat.add_0_r. reflexivity.
  - destruct st as [[pl a] b]. cbn [app rb_scan length].
    replace (i + S (length A))%nat with (S i + length A)%nat by lia.
    destruct (i_l1 iv =? level + 1); [|apply IH].
    destruct a as [a|]; destruct (if i_l1 iv =? level then Some i else pl) as [p|]; try reflexivity; try apply IH;
      destruct b as [b|]; try reflexivity; apply IH.
Qed.

Lemma rb_scan_1 level iv i pl a b : rb_scan level [iv] i (pl, a, b) =
  let pl' := if i_l1 iv =? level then Some i else pl in
  if i_l1 iv =? level + 1 then
    match a, pl' with
    | None, None => Some (pl', Some i, b)
    | _, Some _ => match b with None => Some (pl', a, Some i) | Some _ => None end
    | Some _, None => None
    end
  else Some (pl', a, b).
Proof.
  cbn [rb_scan]. cbv zeta. destruct (i_l1 iv =? level + 1); [|reflexivity].
  destruct a; destruct (if i_l1 iv =? level then Some i else pl); try reflexivity; destruct b; reflexivity.
Qed.

(* a subtree: all points but the right boundary are deeper than the maximum of the boundary levels *)
Lemma Seg_body x y u w T : Seg x y u w T ->
  exists body lst, T = body ++ [lst] /\ i_l1 lst = w /\ Forall (fun iv => Z.max u w < i_l1 iv) body.
Proof.
  intro H. pose proof (Seg_nonempty _ _ _ _ _ H) as Hne.
  pose proof (Chain_last_l1 _ _ _ _ _ Hne (Seg_Chain _ _ _ _ _ H)) as E.
  destruct (Seg_inner _ _ _ _ _ H) as [F _].
  destruct (exists_last Hne) as (body & lst & ->).
  exists body, lst. split; [reflexivity|].
  unfold inner in E, F. rewrite map_app in E, F. simpl in E, F. rewrite removelast_last in E, F.
  apply app_inj_tail in E. destruct E as [_ E]. split; [assumption|].
  rewrite Forall_map in F. exact F.
Qed.

Lemma rb_scan_seg level x y u w T i st : Seg x y u w T -> level + 1 <= Z.max u w ->
  exists lst, i_l1 lst = w /\ rb_scan level T i st = rb_scan level [lst] (i + (length T - 1))%nat st.
Proof.
  intros H Hl. destruct (Seg_body _ _ _ _ _ H) as (body & lst & -> & E & F).
  exists lst. split; [assumption|].
  rewrite rb_scan_app, rb_scan_deep.
  - rewrite app_length. cbn [length]. replace (i + (length body + 1 - 1))%nat with (i + length body)%nat by lia. reflexivity.
  - eapply Forall_impl; [|exact F]. intros iv Hiv. cbv beta in Hiv. lia.
Qed.

Lemma scan_left_leaf L i iv : i_l1 iv = L -> rb_scan L [iv] i (None, None, None) = Some (Some i, None, None).
Proof.
  intro E. rewrite rb_scan_1, E, Z.eqb_refl.
  assert (E2 : (L =? L + 1) = false) by (apply Z.eqb_neq; lia). rewrite E2. reflexivity.
Qed.

Lemma scan_left_node L x X z u T11 T12 i : u <= L -> Seg x X u (L + 1) T11 -> Seg X z (L + 1) L T12 ->
  rb_scan L (T11 ++ T12) i (None, None, None)
  = Some (Some (i + (length T11 + length T12 - 1))%nat, Some (i + (length T11 - 1))%nat, None).
Proof.
  intros Hu H1 H2. pose proof (Seg_len _ _ _ _ _ H1) as L1. pose proof (Seg_len _ _ _ _ _ H2) as L2.
  rewrite rb_scan_app.
  destruct (rb_scan_seg L _ _ _ _ _ i (None, None, None) H1) as (l1 & E1 & ->); [lia|].
  rewrite rb_scan_1, E1.
  assert (Ea : (L + 1 =? L) = false) by (apply Z.eqb_neq; lia). rewrite Ea, Z.eqb_refl. cbv zeta iota beta.
  destruct (rb_scan_seg L _ _ _ _ _ (i + length T11)%nat (None, Some (i + (length T11 - 1))%nat, None) H2) as (l2 & E2 & ->); [lia|].
  rewrite rb_scan_1, E2, Z.eqb_refl.
  assert (Eb : (L =? L + 1) = false) by (apply Z.eqb_neq; lia). rewrite Eb. cbv zeta.
  f_equal. f_equal. f_equal. f_equal. lia.
Qed.

Lemma scan_right_leaf L i iv p q : i_l1 iv < L -> rb_scan L [iv] i (Some p, q, None) = Some (Some p, q, None).
Proof.
  intro E. rewrite rb_scan_1.
  assert (E1 : (i_l1 iv =? L) = false) by (apply Z.eqb_neq; lia).
  assert (E2 : (i_l1 iv =? L + 1) = false) by (apply Z.eqb_neq; lia). rewrite E1, E2. reflexivity.
Qed.

Lemma scan_noop L Y y w T i p q r : w < L -> Seg Y y (L + 1) w T -> rb_scan L T i (Some p, q, r) = Some (Some p, q, r).
Proof.
  intros Hw H. destruct (rb_scan_seg L _ _ _ _ _ i (Some p, q, r) H) as (l & E & ->); [lia|].
  rewrite rb_scan_1, E.
  assert (E1 : (w =? L) = false) by (apply Z.eqb_neq; lia).
  assert (E2 : (w =? L + 1) = false) by (apply Z.eqb_neq; lia). rewrite E1, E2. reflexivity.
Qed.

Lemma scan_right_node L z Y y w T21 T22 i p q : w < L -> Seg z Y L (L + 1) T21 -> Seg Y y (L + 1) w T22 ->
  rb_scan L (T21 ++ T22) i (Some p, q, None) = Some (Some p, q, Some (i + (length T21 - 1))%nat).
Proof.
  intros Hw H1 H2. pose proof (Seg_len _ _ _ _ _ H1) as L1.
  rewrite rb_scan_app.
  destruct (rb_scan_seg L _ _ _ _ _ i (Some p, q, None) H1) as (l1 & E1 & ->); [lia|].
  rewrite rb_scan_1, E1.
  assert (Ea : (L + 1 =? L) = false) by (apply Z.eqb_neq; lia). rewrite Ea, Z.eqb_refl. cbv zeta.
  destruct q as [q|]; cbv iota beta; eapply scan_noop; eassumption.
Qed.

(* the root and its children as found by rb_scan, for a segment T1 ++ T2 that splits at a point of level L *)
Lemma rb_scan_node L x z y u w T1 T2 : u < L -> w < L -> Seg x z u L T1 -> Seg z y L w T2 ->
  exists q r, rb_scan L (T1 ++ T2) 0 (None, None, None) = Some (Some (length T1 - 1)%nat, q, r) /\
    (q = None \/ exists T11 T12 X, T1 = T11 ++ T12 /\ Seg x X u (L + 1) T11 /\ Seg X z (L + 1) L T12 /\
                                   q = Some (length T11 - 1)%nat) /\
    (r = None \/ exists T21 T22 Y, T2 = T21 ++ T22 /\ Seg z Y L (L + 1) T21 /\ Seg Y y (L + 1) w T22 /\
                                   r = Some (length T1 + (length T21 - 1))%nat).
Proof.
  intros Hu Hw H1 H2. rewrite rb_scan_app.
  assert (S1 : exists q, rb_scan L T1 0 (None, None, None) = Some (Some (length T1 - 1)%nat, q, None) /\
                 (q = None \/ exists T11 T12 X, T1 = T11 ++ T12 /\ Seg x X u (L + 1) T11 /\ Seg X z (L + 1) L T12 /\
                                                q = Some (length T11 - 1)%nat)).
  { inversion H1 as [x0 y0 u0 w0 c Hlt|x0 y0 X u0 w0 T11 T12 Ha Hb]; subst.
    - exists None. split; [|left; reflexivity]. apply scan_left_leaf. reflexivity.
    - replace (Z.max u L + 1) with (L + 1) in Ha, Hb by lia.
      exists (Some (length T11 - 1)%nat). split.
      + rewrite (scan_left_node L x X z u T11 T12 0) by (assumption || lia). rewrite app_length. reflexivity.
      + right. exists T11, T12, X. repeat split; assumption. }
  destruct S1 as (q & -> & Hq).
  pose proof (Seg_len _ _ _ _ _ H1) as L1.
  inversion H2 as [x0 y0 u0 w0 c Hlt|x0 y0 Y u0 w0 T21 T22 Ha Hb]; subst.
  - exists q, None. split; [|split; [assumption | left; reflexivity]].
    apply scan_right_leaf. simpl. assumption.
  - replace (Z.max L w + 1) with (L + 1) in Ha, Hb by lia.
    exists q, (Some (length T1 + (length T21 - 1))%nat). split; [|split; [assumption|]].
    + rewrite (scan_right_node L z Y y w T21 T22) by assumption. reflexivity.
    + right. exists T21, T22, Y. repeat split; assumption.
Qed.

(* ---------------------------------------------------------------------------------------------- *)
(* the level lists *)
Lemma inner_length T : T <> [] -> length (inner T) = (length T - 1)%nat.
Proof.
  intro H. unfold inner. destruct (exists_last H) as (b & l & ->).
  rewrite map_app. simpl. rewrite removelast_last, map_length, app_length. simpl. lia.
Qed.

Lemma l1s_inner T : T <> [] -> map i_l1 (firstn (length T - 1) T) = inner T.
Proof.
  intro H. unfold inner. destruct (exists_last H) as (b & l & ->).
  rewrite map_app. simpl. rewrite removelast_last, app_length. simpl.
  replace (length b + 1 - 1)%nat with (length b + 0)%nat by lia.
  rewrite firstn_app_2. simpl. rewrite app_nil_r. reflexivity.
Qed.

Lemma Seg_inner_app x z y u w L T1 T2 : Seg x z u L T1 -> Seg z y L w T2 -> inner (T1 ++ T2) = inner T1 ++ L :: inner T2.
Proof.
  intros H1 H2. apply inner_app; [eapply Seg_nonempty; eassumption|].
  eapply Chain_last_l1; [eapply Seg_nonempty; eassumption | apply Seg_Chain; eassumption].
Qed.

Lemma Seg_inner_deep x y u w T k : Seg x y u w T -> k <= Z.max u w -> Forall (fun v => k < v) (inner T).
Proof.
  intros H Hk. destruct (Seg_inner _ _ _ _ _ H) as [F _].
  eapply Forall_impl; [|exact F]. intros v Hv. cbv beta in Hv. lia.
Qed.

(* ---------------------------------------------------------------------------------------------- *)
(* first rotation branch (the right child becomes the root) *)
Lemma rot_right_low level pl plr : forall A j reached R ds p ok,
  (j + length A <= S pl)%nat ->
  rot_right_scan level pl plr (j + length A)%nat R reached = (ds, p, ok) ->
  rot_right_scan level pl plr j (A ++ R) reached = (repeat 1 (length A) ++ ds, p, ok).
Proof.
  induction A as [|a A IH]; intros j reached R ds p ok Hj H.
  - simpl in *. rewrite Nat.add_0_r in H. assumption.
  - cbn [app rot_right_scan length repeat]. simpl in Hj.
    assert (E : Nat.leb j pl = true) by (apply Nat.leb_le; lia). rewrite E.
    rewrite (IH (S j) reached R ds p ok); [reflexivity | lia|].
    simpl in H. replace (S j + length A)%nat with (j + S (length A))%nat by lia. assumption.
Qed.

Lemma rot_right_high level pl plr : forall A j reached R ds p ok,
  (pl < j)%nat -> Forall (fun v => level + 1 < v) A ->
  rot_right_scan level pl plr (j + length A)%nat R reached = (ds, p, ok) ->
  rot_right_scan level pl plr j (A ++ R) reached = (repeat (if reached then -1 else 0) (length A) ++ ds, p, ok).
Proof.
  induction A as [|a A IH]; intros j reached R ds p ok Hj F H.
  - simpl in *. rewrite Nat.add_0_r in H. assumption.
  - inversion F as [|? ? Ha FA]; subst.
    cbn [app rot_right_scan length repeat].
    assert (E : Nat.leb j pl = false) by (apply Nat.leb_gt; lia). rewrite E.
    assert (E2 : (a =? level + 1) = false) by (apply Z.eqb_neq; lia). rewrite E2, orb_false_r.
    rewrite (IH (S j) reached R ds p ok); [| lia | assumption |].
    + destruct p; reflexivity.
    + simpl in H. replace (S j + length A)%nat with (j + S (length A))%nat by lia. assumption.
Qed.

Lemma rot_right_hit level pl plr j R ds ok reached : (pl < j)%nat ->
  rot_right_scan level pl plr (S j) R true = (ds, None, ok) ->
  rot_right_scan level pl plr j ((level + 1) :: R) reached = (-1 :: ds, Some j, Nat.eqb j plr && ok).
Proof.
  intros Hj H. cbn [rot_right_scan].
  assert (E : Nat.leb j pl = false) by (apply Nat.leb_gt; lia). rewrite E, Z.eqb_refl, orb_true_r, H. reflexivity.
Qed.

Lemma rot_right_spec x z Y y u w L T1 T21 T22 :
  u < L -> w < L -> Seg x z u L T1 -> Seg z Y L (L + 1) T21 -> Seg Y y (L + 1) w T22 ->
  let seg := T1 ++ T21 ++ T22 in
  exists ds segA segB,
    rot_right_scan L (length T1 - 1) (length T1 + (length T21 - 1)) 0 (map i_l1 (firstn (length seg - 1) seg)) false
    = (ds, Some (length T1 + (length T21 - 1))%nat, true) /\
    apply_deltas 0 ds seg = segA ++ segB /\ Seg x Y u L segA /\ Seg Y y L w segB /\
    length segA = (length T1 + length T21)%nat /\ length segB = length T22.
Proof.
  intros Hu Hw H1 H21 H22 seg.
  pose proof (Seg_len _ _ _ _ _ H1) as L1. pose proof (Seg_len _ _ _ _ _ H21) as L21. pose proof (Seg_len _ _ _ _ _ H22) as L22.
  assert (H2 : Seg z y L w (T21 ++ T22)).
  { eapply Seg_eq; [apply Seg_node with (z := Y) | reflexivity | reflexivity];
      (eapply Seg_eq; [eassumption | lia | lia]). }
  assert (Hne : seg <> []) by (unfold seg; destruct T1; [simpl in L1; lia | discriminate]).
  exists (repeat 1 (length T1) ++ repeat 0 (length T21 - 1) ++ -1 :: repeat (-1) (length T22 - 1)).
  exists (apply_deltas 0 (repeat 1 (length T1 - 1) ++ [1]) T1 ++ apply_deltas 1 (repeat 0 (length T21 - 1) ++ [-1]) T21).
  exists (apply_deltas (-1) (repeat (-1) (length T22 - 1) ++ [0]) T22).
  split; [|split; [|split; [|split; [|split]]]].
  - rewrite (l1s_inner seg Hne). unfold seg.
    rewrite (Seg_inner_app x z y u w L T1 (T21 ++ T22) H1 H2), (Seg_inner_app z Y y L w (L + 1) T21 T22 H21 H22).
    replace (inner T1 ++ L :: inner T21 ++ (L + 1) :: inner T22)
      with ((inner T1 ++ [L]) ++ inner T21 ++ (L + 1) :: inner T22 ++ []) by (rewrite <- !app_assoc, app_nil_r; reflexivity).
    assert (La : length (inner T1 ++ [L]) = length T1).
    { rewrite app_length, inner_length by (eapply Seg_nonempty; eassumption). simpl. lia. }
    assert (Lb : length (inner T21) = (length T21 - 1)%nat) by (apply inner_length; eapply Seg_nonempty; eassumption).
    assert (Lc : length (inner T22) = (length T22 - 1)%nat) by (apply inner_length; eapply Seg_nonempty; eassumption).
    set (pl := (length T1 - 1)%nat). set (plr := (length T1 + (length T21 - 1))%nat).
    pose proof (rot_right_high L pl plr (inner T22) (S (length T1 + length (inner T21))) true [] [] None true
                  ltac:(unfold pl; lia) (Seg_inner_deep _ _ _ _ _ (L + 1) H22 ltac:(lia)) eq_refl) as S3.
    pose proof (rot_right_hit L pl plr (length T1 + length (inner T21)) _ _ _ false ltac:(unfold pl; lia) S3) as S2.
    pose proof (rot_right_high L pl plr (inner T21) (length T1) false _ _ _ _
                  ltac:(unfold pl; lia) (Seg_inner_deep _ _ _ _ _ (L + 1) H21 ltac:(lia)) S2) as S1.
    assert (S1' : rot_right_scan L pl plr (0 + length (inner T1 ++ [L])) (inner T21 ++ (L + 1) :: inner T22 ++ []) false
                  = (repeat (if false then -1 else 0) (length (inner T21)) ++ -1 :: repeat (if true then -1 else 0) (length (inner T22)) ++ [],
                     Some (length T1 + length (inner T21))%nat, Nat.eqb (length T1 + length (inner T21)) plr && true)).
    { simpl. rewrite La. exact S1. }
    pose proof (rot_right_low L pl plr (inner T1 ++ [L]) 0 false _ _ _ _ ltac:(rewrite La; unfold pl; lia) S1') as S0.
    rewrite S0, La, Lb, Lc, app_nil_r. unfold plr. rewrite Nat.eqb_refl. reflexivity.
  - unfold seg.
    replace (repeat 1 (length T1) ++ repeat 0 (length T21 - 1) ++ -1 :: repeat (-1) (length T22 - 1))
      with (repeat 1 (length T1 - 1) ++ 1 :: (repeat 0 (length T21 - 1) ++ -1 :: repeat (-1) (length T22 - 1))).
    2:{ replace (length T1) with ((length T1 - 1) + 1)%nat at 2 by lia. rewrite repeat_app. simpl. rewrite <- app_assoc. reflexivity. }
    rewrite apply_deltas_split by (rewrite repeat_length; lia).
    rewrite apply_deltas_split by (rewrite repeat_length; lia).
    rewrite (apply_deltas_pad T22) by (rewrite repeat_length; lia).
    rewrite app_assoc. reflexivity.
  - eapply Seg_eq; [apply Seg_node with (z := z) | reflexivity | reflexivity].
    + eapply Seg_eq; [apply (Seg_apply_deltas _ _ _ _ _ H1 0 1 1); lia | lia | lia].
    + eapply Seg_eq; [apply (Seg_apply_deltas _ _ _ _ _ H21 1 0 (-1)); lia | lia | lia].
  - eapply Seg_eq; [apply (Seg_apply_deltas _ _ _ _ _ H22 (-1) (-1) 0); lia | lia | lia].
  - rewrite app_length, !apply_deltas_length. reflexivity.
  - apply apply_deltas_length.
Qed.

Lemma repeat_cons_pred {A} (a : A) n : (1 <= n)%nat -> repeat a n = a :: repeat a (n - 1).
Proof. intro H. destruct n; [lia|]. simpl. rewrite Nat.sub_0_r. reflexivity. Qed.

Lemma repeat_snoc_pred {A} (a : A) n : (1 <= n)%nat -> repeat a n = repeat a (n - 1) ++ [a].
Proof.
  intro H. replace n with ((n - 1) + 1)%nat at 1 by lia. rewrite repeat_app. reflexivity.
Qed.

(* ---------------------------------------------------------------------------------------------- *)
(* second rotation branch (the left child becomes the root) *)
Lemma rot_left_high level pl pll : forall A j reached, (pl <= j)%nat ->
  rot_left_scan level pl pll j A reached = (repeat 1 (length A), None, true).
Proof.
  induction A as [|a A IH]; intros j reached Hj; [reflexivity|].
  cbn [rot_left_scan length repeat].
  assert (E : Nat.leb pl j = true) by (apply Nat.leb_le; lia). rewrite E.
  rewrite (IH (S j) reached) by lia. reflexivity.
Qed.

Lemma rot_left_low level pl pll : forall A j reached R ds p ok,
  (j + length A <= pl)%nat -> Forall (fun v => level + 1 < v) A ->
  rot_left_scan level pl pll (j + length A)%nat R reached = (ds, p, ok) ->
  rot_left_scan level pl pll j (A ++ R) reached = (repeat (if reached then -1 else 0) (length A) ++ ds, p, ok).
Proof.
  induction A as [|a A IH]; intros j reached R ds p ok Hj F H.
  - simpl in *. rewrite Nat.add_0_r in H. assumption.
  - inversion F as [|? ? Ha FA]; subst. simpl in Hj.
    cbn [app rot_left_scan length repeat].
    assert (E : Nat.leb pl j = false) by (apply Nat.leb_gt; lia). rewrite E.
    assert (E2 : (a + (if reached then -1 else 0) =? level) = false) by (apply Z.eqb_neq; destruct reached; lia).
    rewrite E2.
    rewrite (IH (S j) reached R ds p ok); [| lia | assumption |].
    + destruct p; reflexivity.
    + simpl in H. replace (S j + length A)%nat with (j + S (length A))%nat by lia. assumption.
Qed.

Lemma rot_left_hit level pl pll j R ds ok : (j < pl)%nat ->
  rot_left_scan level pl pll (S j) R false = (ds, None, ok) ->
  rot_left_scan level pl pll j ((level + 1) :: R) true = (-1 :: ds, Some j, Nat.eqb j pll && ok).
Proof.
  intros Hj H. cbn [rot_left_scan].
  assert (E : Nat.leb pl j = false) by (apply Nat.leb_gt; lia). rewrite E.
  assert (E2 : (level + 1 + -1 =? level) = true) by (apply Z.eqb_eq; lia). rewrite E2, H. reflexivity.
Qed.

Lemma rot_left_spec x X z y u w L T11 T12 T2 :
  u < L -> w < L -> Seg x X u (L + 1) T11 -> Seg X z (L + 1) L T12 -> Seg z y L w T2 ->
  let seg := (T11 ++ T12) ++ T2 in
  exists ds segA segB,
    rot_left_scan L (length (T11 ++ T12) - 1) (length T11 - 1) 0 (map i_l1 (firstn (length seg - 1) seg)) true
    = (ds, Some (length T11 - 1)%nat, true) /\
    apply_deltas 0 ds seg = segA ++ segB /\ Seg x X u L segA /\ Seg X y L w segB /\
    length segA = length T11 /\ length segB = (length T12 + length T2)%nat.
Proof.
  intros Hu Hw H11 H12 H2 seg.
  pose proof (Seg_len _ _ _ _ _ H11) as L11. pose proof (Seg_len _ _ _ _ _ H12) as L12. pose proof (Seg_len _ _ _ _ _ H2) as L2.
  assert (H1 : Seg x z u L (T11 ++ T12)).
  { eapply Seg_eq; [apply Seg_node with (z := X) | reflexivity | reflexivity];
      (eapply Seg_eq; [eassumption | lia | lia]). }
  assert (Hne : seg <> []) by (unfold seg; destruct T11; [simpl in L11; lia | discriminate]).
  exists (repeat (-1) (length T11) ++ repeat 0 (length T12 - 1) ++ repeat 1 (length T2)).
  exists (apply_deltas 0 (repeat (-1) (length T11 - 1) ++ [-1]) T11).
  exists (apply_deltas (-1) (repeat 0 (length T12 - 1) ++ [1]) T12 ++ apply_deltas 1 (repeat 1 (length T2 - 1) ++ [0]) T2).
  split; [|split; [|split; [|split; [|split]]]].
  - rewrite (l1s_inner seg Hne). unfold seg.
    rewrite (Seg_inner_app x z y u w L (T11 ++ T12) T2 H1 H2), (Seg_inner_app x X z u L (L + 1) T11 T12 H11 H12).
    replace ((inner T11 ++ (L + 1) :: inner T12) ++ L :: inner T2)
      with (inner T11 ++ (L + 1) :: inner T12 ++ L :: inner T2) by (rewrite <- !app_assoc; reflexivity).
    assert (La : length (inner T11) = (length T11 - 1)%nat) by (apply inner_length; eapply Seg_nonempty; eassumption).
    assert (Lb : length (inner T12) = (length T12 - 1)%nat) by (apply inner_length; eapply Seg_nonempty; eassumption).
    assert (Lc : length (inner T2) = (length T2 - 1)%nat) by (apply inner_length; eapply Seg_nonempty; eassumption).
    rewrite app_length.
    set (pl := (length T11 + length T12 - 1)%nat). set (pll := (length T11 - 1)%nat).
    pose proof (rot_left_high L pl pll (L :: inner T2) (S (length (inner T11)) + length (inner T12)) false
                  ltac:(unfold pl; lia)) as S3.
    pose proof (rot_left_low L pl pll (inner T12) (S (length (inner T11))) false _ _ _ _
                  ltac:(unfold pl; lia) (Seg_inner_deep _ _ _ _ _ (L + 1) H12 ltac:(lia)) S3) as S2.
    pose proof (rot_left_hit L pl pll (length (inner T11)) _ _ _ ltac:(unfold pl; lia) S2) as S1.
    assert (S1' : rot_left_scan L pl pll (0 + length (inner T11)) ((L + 1) :: inner T12 ++ L :: inner T2) true
                  = (-1 :: repeat (if false then -1 else 0) (length (inner T12)) ++ repeat 1 (length (L :: inner T2)),
                     Some (length (inner T11)), Nat.eqb (length (inner T11)) pll && true)) by exact S1.
    pose proof (rot_left_low L pl pll (inner T11) 0 true _ _ _ _ ltac:(unfold pl; simpl; lia)
                  (Seg_inner_deep _ _ _ _ _ (L + 1) H11 ltac:(lia)) S1') as S0.
    rewrite S0. cbn [length]. rewrite La, Lb, Lc. unfold pll. rewrite Nat.eqb_refl. cbn [andb].
    f_equal. f_equal.
    rewrite (repeat_snoc_pred (-1) (length T11)), (repeat_cons_pred 1 (length T2)) by lia.
    rewrite <- app_assoc. reflexivity.
  - unfold seg.
    replace (repeat (-1) (length T11) ++ repeat 0 (length T12 - 1) ++ repeat 1 (length T2))
      with (repeat (-1) (length T11 - 1) ++ -1 :: (repeat 0 (length T12 - 1) ++ 1 :: repeat 1 (length T2 - 1))).
    2:{ rewrite (repeat_snoc_pred (-1) (length T11)), (repeat_cons_pred 1 (length T2)) by lia.
        rewrite <- app_assoc. reflexivity. }
    rewrite <- app_assoc.
    rewrite apply_deltas_split by (rewrite repeat_length; lia).
    rewrite apply_deltas_split by (rewrite repeat_length; lia).
    rewrite (apply_deltas_pad T2) by (rewrite repeat_length; lia).
    reflexivity.
  - eapply Seg_eq; [apply (Seg_apply_deltas _ _ _ _ _ H11 0 (-1) (-1)); lia | lia | lia].
  - eapply Seg_eq; [apply Seg_node with (z := z) | reflexivity | reflexivity].
    + eapply Seg_eq; [apply (Seg_apply_deltas _ _ _ _ _ H12 (-1) 0 1); lia | lia | lia].
    + eapply Seg_eq; [apply (Seg_apply_deltas _ _ _ _ _ H2 1 1 0); lia | lia | lia].
  - apply apply_deltas_length.
  - rewrite app_length, !apply_deltas_length. reflexivity.
Qed.

(* ---------------------------------------------------------------------------------------------- *)
(* list surgery *)
Lemma extract_seg {A} (pre seg post : list A) :
  firstn (length seg) (skipn (length pre) (pre ++ seg ++ post)) = seg.
Proof.
  rewrite skipn_app, skipn_all, Nat.sub_diag. simpl.
  rewrite firstn_app, firstn_all, Nat.sub_diag. simpl. apply app_nil_r.
Qed.

Lemma splice_decomp (pre seg post seg' : list ival) :
  splice (pre ++ seg ++ post) (length pre) (length pre + length seg) seg' = pre ++ seg' ++ post.
Proof.
  unfold splice.
  rewrite firstn_app, firstn_all, Nat.sub_diag. simpl. rewrite app_nil_r.
  rewrite skipn_app, (skipn_all2 pre) by lia. simpl.
  replace (length pre + length seg - length pre)%nat with (length seg) by lia.
  rewrite skipn_app, skipn_all, Nat.sub_diag. reflexivity.
Qed.

(* ---------------------------------------------------------------------------------------------- *)
Theorem rebalance_interval_Seg dec : forall fuel s e level objs objs' pre seg post x y u w,
  rebalance_interval fuel dec s e level objs = Some objs' ->
  objs = pre ++ seg ++ post -> length pre = s -> (s + length seg)%nat = e ->
  Seg x y u w seg -> level = Z.max u w + 1 ->
  exists seg', objs' = pre ++ seg' ++ post /\ Seg x y u w seg' /\ length seg' = length seg.
Proof.
  induction fuel as [|f IH]; intros s e level objs objs' pre seg post x y u w H Hobjs Hs He HS Hlev.
  - simpl in H. destruct (Nat.leb (e - s) 2); [|discriminate]. injection H as <-.
    exists seg. split; [assumption|]. split; [assumption | reflexivity].
  - cbn [rebalance_interval] in H.
    destruct (Nat.leb (e - s) 2) eqn:E2.
    { injection H as <-. exists seg. split; [assumption|]. split; [assumption | reflexivity]. }
    apply Nat.leb_gt in E2.
    assert (Hn : (e - s)%nat = length seg) by lia.
    assert (Hseg : firstn (e - s) (skipn s objs) = seg) by (rewrite Hn, <- Hs, Hobjs; apply extract_seg).
    rewrite Hseg in H. subst level.
    set (L := Z.max u w + 1) in *.
    (* the two recursive calls on a segment that is a node *)
    assert (Hrec : forall o1 segA segB m o3,
              o1 = pre ++ (segA ++ segB) ++ post -> Seg x m u L segA -> Seg m y L w segB ->
              (length segA + length segB)%nat = length seg ->
              match rebalance_interval f dec s (s + length segA) (L + 1) o1 with
              | Some o2 => rebalance_interval f dec (s + length segA) e (L + 1) o2
              | None => None
              end = Some o3 ->
              exists seg', o3 = pre ++ seg' ++ post /\ Seg x y u w seg' /\ length seg' = length seg).
    { intros o1 segA segB m o3 Ho1 HA HB HL Hcalls.
      destruct (rebalance_interval f dec s (s + length segA) (L + 1) o1) as [o2|] eqn:Ea; [|discriminate].
      destruct (IH _ _ _ _ _ pre segA (segB ++ post) x m u L Ea) as (segA' & Ho2 & HA' & LA');
        [rewrite Ho1, <- !app_assoc; reflexivity | assumption | reflexivity | assumption | lia|].
      destruct (IH _ _ _ _ _ (pre ++ segA') segB post m y L w Hcalls) as (segB' & Ho3 & HB' & LB');
        [rewrite Ho2, <- !app_assoc; reflexivity | rewrite app_length; lia | lia | assumption | lia|].
      exists (segA' ++ segB'). split; [rewrite Ho3, <- !app_assoc; reflexivity|].
      split; [apply Seg_node with (z := m); assumption | rewrite app_length; lia]. }
    (* seg is a node *)
    inversion HS as [x0 y0 u0 w0 c Hlt Ex Ey Eu Ew ET|x0 y0 z u0 w0 T1 T2 H1 H2 Ex Ey Eu Ew ET].
    { rewrite <- ET in Hn. simpl in Hn. lia. }
    fold L in H1, H2.
    pose proof (Seg_len _ _ _ _ _ H1) as L1. pose proof (Seg_len _ _ _ _ _ H2) as L2.
    destruct (rb_scan_node L x z y u w T1 T2 ltac:(lia) ltac:(lia) H1 H2) as (q & r & Hscan & Hq & Hr).
    rewrite <- ET in H. rewrite Hscan in H.
    assert (Hsp : forall seg', splice objs s e seg' = pre ++ seg' ++ post).
    { intro seg'. rewrite Hobjs, <- He, <- Hs. apply splice_decomp. }
    destruct (match r with Some r0 => if dec (length T1 - 1)%nat r0 (e - s - 2)%nat then Some r0 else None | None => None end)
      as [r0|] eqn:Er.
    + (* first branch: the right child becomes the root *)
      destruct r as [r1|]; [|discriminate]. destruct (dec _ r1 _); [|discriminate]. injection Er as <-.
      destruct Hr as [Hr|(T21 & T22 & Y & ET2 & Ha & Hb & Hr)]; [discriminate|]. injection Hr as ->.
      subst T2.
      pose proof (Seg_len _ _ _ _ _ Ha) as L21. pose proof (Seg_len _ _ _ _ _ Hb) as L22.
      assert (Elt : (length T1 - 1 <? length T1 + (length T21 - 1))%nat = true) by (apply Nat.ltb_lt; lia).
      rewrite Elt in H. cbn [negb] in H.
      destruct (rot_right_spec x z Y y u w L T1 T21 T22 ltac:(lia) ltac:(lia) H1 Ha Hb)
        as (ds & segA & segB & Hrot & Hap & HSA & HSB & LA & LB).
      cbv zeta in Hrot, Hap.
      replace (e - s - 1)%nat with (length (T1 ++ T21 ++ T22) - 1)%nat in H by (rewrite ET; lia).
      rewrite Hrot, Hap, Hsp in H.
      replace (s + (length T1 + (length T21 - 1)) + 1)%nat with (s + length segA)%nat in H by lia.
      rewrite ET. eapply Hrec; [reflexivity | exact HSA | exact HSB | | exact H].
      rewrite LA, LB, <- ET, !app_length. lia.
    + destruct (match q with Some l => if dec (length T1 - 1)%nat l (e - s - 2)%nat then Some l else None | None => None end)
        as [l0|] eqn:El.
      * (* second branch: the left child becomes the root *)
        destruct q as [q1|]; [|discriminate]. destruct (dec _ q1 _); [|discriminate]. injection El as <-.
        destruct Hq as [Hq|(T11 & T12 & X & ET1 & Ha & Hb & Hq)]; [discriminate|]. injection Hq as ->.
        subst T1.
        pose proof (Seg_len _ _ _ _ _ Ha) as L11. pose proof (Seg_len _ _ _ _ _ Hb) as L12.
        rewrite app_length in L1.
        assert (Elt : (length T11 - 1 <? length (T11 ++ T12) - 1)%nat = true) by (apply Nat.ltb_lt; rewrite app_length; lia).
        rewrite Elt in H. cbn [negb] in H.
        destruct (rot_left_spec x X z y u w L T11 T12 T2 ltac:(lia) ltac:(lia) Ha Hb H2)
          as (ds & segA & segB & Hrot & Hap & HSA & HSB & LA & LB).
        cbv zeta in Hrot, Hap.
        replace (e - s - 1)%nat with (length ((T11 ++ T12) ++ T2) - 1)%nat in H by (rewrite ET; lia).
        rewrite Hrot, Hap, Hsp in H.
        replace (s + (length T11 - 1) + 1)%nat with (s + length segA)%nat in H by lia.
        rewrite ET. eapply Hrec; [reflexivity | exact HSA | exact HSB | | exact H].
        rewrite LA, LB, <- ET, !app_length. lia.
      * (* no rotation *)
        replace (s + (length T1 - 1) + 1)%nat with (s + length T1)%nat in H by lia.
        rewrite ET. eapply (Hrec objs T1 T2 z); [rewrite ET; exact Hobjs | exact H1 | exact H2 | rewrite <- ET, app_length; reflexivity | exact H].
Qed.

Theorem rebalance_Seg dec a b t t' : rebalance dec t = Some t' -> Seg a b 0 0 t -> Seg a b 0 0 t'.
Proof.
  intros H HS. unfold rebalance in H.
  destruct (rebalance_interval_Seg dec _ _ _ _ _ _ [] t [] a b 0 0 H) as (t2 & E & HS2 & _);
    [rewrite app_nil_r; reflexivity | reflexivity | reflexivity | assumption | reflexivity|].
  simpl in E. rewrite app_nil_r in E. subst t'. assumption.
Qed.

(* ---------------------------------------------------------------------------------------------- *)
(* rebalance_interval is DEFINED on every subtree: none of the Python asserts (position_level is not None, the unique
   level+1 child on either side, position_level < position_level_1_right, position_new_leaf is not None, ...) can fail on a
   tree satisfying the invariant, and the model's fuel suffices *)
Theorem rebalance_interval_defined dec : forall fuel s e level objs pre seg post x y u w,
  (length seg <= fuel)%nat ->
  objs = pre ++ seg ++ post -> length pre = s -> (s + length seg)%nat = e ->
  Seg x y u w seg -> level = Z.max u w + 1 ->
  exists objs', rebalance_interval fuel dec s e level objs = Some objs'.
Proof.
  induction fuel as [|f IH]; intros s e level objs pre seg post x y u w Hfuel Hobjs Hs He HS Hlev.
  - pose proof (Seg_len _ _ _ _ _ HS). lia.
  - cbn [rebalance_interval].
    destruct (Nat.leb (e - s) 2) eqn:E2; [eexists; reflexivity|].
    apply Nat.leb_gt in E2.
    assert (Hn : (e - s)%nat = length seg) by lia.
    assert (Hseg : firstn (e - s) (skipn s objs) = seg) by (rewrite Hn, <- Hs, Hobjs; apply extract_seg).
    rewrite Hseg. subst level.
    set (L := Z.max u w + 1) in *.
    assert (Hrec : forall o1 segA segB m,
              o1 = pre ++ (segA ++ segB) ++ post -> Seg x m u L segA -> Seg m y L w segB ->
              (length segA + length segB)%nat = length seg ->
              exists o3, match rebalance_interval f dec s (s + length segA) (L + 1) o1 with
                         | Some o2 => rebalance_interval f dec (s + length segA) e (L + 1) o2
                         | None => None
                         end = Some o3).
    { intros o1 segA segB m Ho1 HA HB HL.
      pose proof (Seg_len _ _ _ _ _ HA) as LA. pose proof (Seg_len _ _ _ _ _ HB) as LB.
      destruct (IH s (s + length segA)%nat (L + 1) o1 pre segA (segB ++ post) x m u L) as (o2 & Ea);
        [lia | rewrite Ho1, <- !app_assoc; reflexivity | assumption | reflexivity | assumption | lia|].
      rewrite Ea.
      destruct (rebalance_interval_Seg dec _ _ _ _ _ _ pre segA (segB ++ post) x m u L Ea) as (segA' & Ho2 & HA' & LA');
        [rewrite Ho1, <- !app_assoc; reflexivity | assumption | reflexivity | assumption | lia|].
      apply (IH (s + length segA)%nat e (L + 1) o2 (pre ++ segA') segB post m y L w);
        [lia | rewrite Ho2, <- !app_assoc; reflexivity | rewrite app_length; lia | lia | assumption | lia]. }
    inversion HS as [x0 y0 u0 w0 c Hlt Ex Ey Eu Ew ET|x0 y0 z u0 w0 T1 T2 H1 H2 Ex Ey Eu Ew ET].
    { rewrite <- ET in Hn. simpl in Hn. lia. }
    fold L in H1, H2.
    pose proof (Seg_len _ _ _ _ _ H1) as L1. pose proof (Seg_len _ _ _ _ _ H2) as L2.
    destruct (rb_scan_node L x z y u w T1 T2 ltac:(lia) ltac:(lia) H1 H2) as (q & r & Hscan & Hq & Hr).
    rewrite Hscan.
    assert (Hsp : forall seg', splice objs s e seg' = pre ++ seg' ++ post).
    { intro seg'. rewrite Hobjs, <- He, <- Hs. apply splice_decomp. }
    destruct (match r with Some r0 => if dec (length T1 - 1)%nat r0 (e - s - 2)%nat then Some r0 else None | None => None end)
      as [r0|] eqn:Er.
    + destruct r as [r1|]; [|discriminate]. destruct (dec _ r1 _); [|discriminate]. injection Er as <-.
      destruct Hr as [Hr|(T21 & T22 & Y & ET2 & Ha & Hb & Hr)]; [discriminate|]. injection Hr as ->.
      subst T2.
      pose proof (Seg_len _ _ _ _ _ Ha) as L21. pose proof (Seg_len _ _ _ _ _ Hb) as L22.
      assert (Elt : (length T1 - 1 <? length T1 + (length T21 - 1))%nat = true) by (apply Nat.ltb_lt; lia).
      rewrite Elt. cbn [negb].
      destruct (rot_right_spec x z Y y u w L T1 T21 T22 ltac:(lia) ltac:(lia) H1 Ha Hb)
        as (ds & segA & segB & Hrot & Hap & HSA & HSB & LA & LB).
      cbv zeta in Hrot, Hap.
      replace (e - s - 1)%nat with (length (T1 ++ T21 ++ T22) - 1)%nat by (rewrite ET; lia).
      rewrite Hrot, Hap, Hsp.
      replace (s + (length T1 + (length T21 - 1)) + 1)%nat with (s + length segA)%nat by lia.
      eapply Hrec; [reflexivity | exact HSA | exact HSB|].
      rewrite LA, LB, <- ET, !app_length. lia.
    + destruct (match q with Some l => if dec (length T1 - 1)%nat l (e - s - 2)%nat then Some l else None | None => None end)
        as [l0|] eqn:El.
      * destruct q as [q1|]; [|discriminate]. destruct (dec _ q1 _); [|discriminate]. injection El as <-.
        destruct Hq as [Hq|(T11 & T12 & X & ET1 & Ha & Hb & Hq)]; [discriminate|]. injection Hq as ->.
        subst T1.
        pose proof (Seg_len _ _ _ _ _ Ha) as L11. pose proof (Seg_len _ _ _ _ _ Hb) as L12.
        rewrite app_length in L1.
        assert (Elt : (length T11 - 1 <? length (T11 ++ T12) - 1)%nat = true) by (apply Nat.ltb_lt; rewrite app_length; lia).
        rewrite Elt. cbn [negb].
        destruct (rot_left_spec x X z y u w L T11 T12 T2 ltac:(lia) ltac:(lia) Ha Hb H2)
          as (ds & segA & segB & Hrot & Hap & HSA & HSB & LA & LB).
        cbv zeta in Hrot, Hap.
        replace (e - s - 1)%nat with (length ((T11 ++ T12) ++ T2) - 1)%nat by (rewrite ET; lia).
        rewrite Hrot, Hap, Hsp.
        replace (s + (length T11 - 1) + 1)%nat with (s + length segA)%nat by lia.
        eapply Hrec; [reflexivity | exact HSA | exact HSB|].
        rewrite LA, LB, <- ET, !app_length. lia.
      * replace (s + (length T1 - 1) + 1)%nat with (s + length T1)%nat by lia.
        eapply (Hrec objs T1 T2 z); [rewrite ET; exact Hobjs | exact H1 | exact H2 | rewrite <- ET, app_length; reflexivity].
Qed.

Theorem rebalance_defined dec a b t : Seg a b 0 0 t -> exists t', rebalance dec t = Some t' /\ Seg a b 0 0 t'.
Proof.
  intro HS. unfold rebalance.
  destruct (rebalance_interval_defined dec (S (length t)) 0 (length t) 1 t [] t [] a b 0 0) as (t' & E);
    [lia | rewrite app_nil_r; reflexivity | reflexivity | reflexivity | assumption | reflexivity|].
  exists t'. split; [exact E|]. eapply rebalance_Seg; [exact E | exact HS].
Qed.
