(* C17: the source-derived find_closest_old_B (coq/Gen/DensityReuseGen.v) IS Model.find_closest. *)
From Coq Require Import ZArith List QArith Qcanon Bool Arith Lia.
From SG Require Import Base.QcUtil Base.PyLib Base.PyNum Base.PyC17 Model.Gram Model.DEReuse Gen.DensityReuseGen
  Proofs.PyLibFacts Proofs.PyNumFacts Proofs.SchemeBasics Proofs.GenDensityReuseEq Proofs.GenDensityReuseEq2.
Import ListNotations.
Local Arguments Z.add : simpl never.
Local Arguments Z.sub : simpl never.
Local Arguments Z.of_nat : simpl never.

(* ------------------------------------------------------------------ floats *)
Lemma float_in_memQ c o : py_c17_float_in c o = memQ c o.
Proof. unfold py_c17_float_in. induction o as [|b o IH]; [reflexivity|]. cbn [existsb memQ]. rewrite IH. reflexivity. Qed.

Lemma float_index_in : forall (s : list Qc) c, In c s -> exists k, py_c17_float_index s c = Some k.
Proof.
  induction s as [|y s IH]; intros c H; [destruct H|]. cbn [py_c17_float_index].
  destruct (Qc_eqb y c) eqn:E; [exists 0%Z; reflexivity|].
  destruct H as [H|H].
  - subst. exfalso. assert (T : Qc_eqb c c = true) by (apply Qc_eqb_eq; reflexivity). rewrite T in E. discriminate.
  - destruct (IH c H) as [k Hk]. rewrite Hk. exists (k + 1)%Z. reflexivity.
Qed.

Definition cnt1 (s o : list Qc) : nat := length (filter (fun c => negb (memQ c o)) s).

(* ------------------------------------------------------------------ generic loops *)
(* a loop that appends at most one element per iteration: the length of the result counts the iterations that append *)
Lemma count_loop {R} (P : nat -> bool) (body : Z -> list Z -> flow (list Z) R) : forall m start acc,
  (forall j row, (start <= j < start + m)%nat -> exists k, body (Z.of_nat j) row = Nxt (if P j then row ++ [k] else row)) ->
  exists row, py_for (map Z.of_nat (seq start m)) body acc = Nxt row /\
              length row = (length acc + length (filter P (seq start m)))%nat.
Proof.
  induction m as [|m IH]; intros start acc H.
  - exists acc. split; [reflexivity | cbn; lia].
  - cbn [seq map py_for filter]. destruct (H start acc ltac:(lia)) as [k Hk]. rewrite Hk.
    destruct (IH (S start) (if P start then acc ++ [k] else acc)) as [row [E L]].
    + intros j row' Hj. apply H. lia.
    + exists row. split; [exact E|]. rewrite L. destruct (P start); [rewrite app_length; cbn [length]; lia | lia].
Qed.

Lemma filter_seq_nth (Q : Qc -> bool) : forall (s : list Qc) k,
  length (filter (fun j => Q (nth (j - k) s 0%Qc)) (seq k (length s))) = length (filter Q s).
Proof.
  induction s as [|c s IH]; intro k; [reflexivity|].
  assert (E : filter (fun j => Q (nth (j - k) (c :: s) 0%Qc)) (seq (S k) (length s))
              = filter (fun j => Q (nth (j - S k) s 0%Qc)) (seq (S k) (length s))).
  { apply filter_ext_in. intros j Hj. apply in_seq in Hj. replace (j - k)%nat with (S (j - S k)) by lia. reflexivity. }
  change (seq k (length (c :: s))) with (k :: seq (S k) (length s)).
  change (filter (fun j => Q (nth (j - k) (c :: s) 0%Qc)) (k :: seq (S k) (length s)))
    with (if Q (nth (k - k) (c :: s) 0%Qc) then k :: filter (fun j => Q (nth (j - k) (c :: s) 0%Qc)) (seq (S k) (length s))
          else filter (fun j => Q (nth (j - k) (c :: s) 0%Qc)) (seq (S k) (length s))).
  rewrite E, Nat.sub_diag. change (nth 0 (c :: s) 0%Qc) with c. change (filter Q (c :: s)) with (if Q c then c :: filter Q s else filter Q s).
  destruct (Q c); cbn [length]; rewrite IH; reflexivity.
Qed.

(* a loop that appends exactly one element per iteration *)
Lemma collect_loop {A B R} (Rel : A -> B -> Prop) (body : A -> list B -> flow (list B) R) : forall (l : list A) acc,
  (forall x a, In x l -> exists y, body x a = Nxt (a ++ [y]) /\ Rel x y) ->
  exists ys, py_for l body acc = Nxt (acc ++ ys) /\ Forall2 Rel l ys.
Proof.
  induction l as [|x l IH]; intros acc H.
  - exists []. split; [rewrite app_nil_r; reflexivity | constructor].
  - cbn [py_for]. destruct (H x acc (or_introl eq_refl)) as [y [E Ry]]. rewrite E.
    destruct (IH (acc ++ [y]) (fun x' a Hx => H x' a (or_intror Hx))) as [ys [E2 F]].
    exists (y :: ys). split; [rewrite E2, <- app_assoc; reflexivity | constructor; assumption].
Qed.

(* the same with a second accumulator that collects a function of the element *)
Lemma collect_loop2 {A B C R} (Rel : A -> B -> Prop) (g : A -> C) (body : A -> list B * list C -> flow (list B * list C) R) :
  forall (l : list A) acc1 acc2,
  (forall x a1 a2, In x l -> exists y, body x (a1, a2) = Nxt (a1 ++ [y], a2 ++ [g x]) /\ Rel x y) ->
  exists ys, py_for l body (acc1, acc2) = Nxt (acc1 ++ ys, acc2 ++ map g l) /\ Forall2 Rel l ys.
Proof.
  induction l as [|x l IH]; intros acc1 acc2 H.
  - exists []. split; [rewrite !app_nil_r; reflexivity | constructor].
  - cbn [py_for]. destruct (H x acc1 acc2 (or_introl eq_refl)) as [y [E Ry]]. rewrite E.
    destruct (IH (acc1 ++ [y]) (acc2 ++ [g x]) (fun x' a1 a2 Hx => H x' a1 a2 (or_intror Hx))) as [ys [E2 F]].
    exists (y :: ys). split; [rewrite E2; cbn [map]; rewrite <- !app_assoc; reflexivity | constructor; assumption].
Qed.

(* ------------------------------------------------------------------ min / index: Z against nat *)
Lemma fold_min_out : forall r x y, Nat.min x (fold_left Nat.min r y) = fold_left Nat.min r (Nat.min x y).
Proof.
  induction r as [|z r IH]; intros x y; [reflexivity|]. cbn [fold_left]. rewrite IH, Nat.min_assoc. reflexivity.
Qed.

Lemma min_nat_list_fold : forall r x d, min_nat_list (x :: r) d = fold_left Nat.min r x.
Proof.
  induction r as [|y r IH]; intros x d; [reflexivity|].
  change (min_nat_list (x :: y :: r) d) with (Nat.min x (min_nat_list (y :: r) d)). rewrite IH. cbn [fold_left].
  apply fold_min_out.
Qed.

Lemma list_min_of_nat x r : py_list_min (map Z.of_nat (x :: r)) = Some (Z.of_nat (min_nat_list (x :: r) 0)).
Proof.
  cbn [map py_list_min]. f_equal. rewrite min_nat_list_fold. revert x. induction r as [|y r IH]; intro x; [reflexivity|].
  cbn [map fold_left]. rewrite <- Nat2Z.inj_min. apply IH.
Qed.

Lemma fold_min_in : forall r x, In (fold_left Nat.min r x) (x :: r).
Proof.
  induction r as [|y r IH]; intro x; [left; reflexivity|]. cbn [fold_left].
  destruct (IH (Nat.min x y)) as [H|H].
  - destruct (Nat.min_dec x y) as [E|E]; [left | right; left]; rewrite <- H; symmetry; exact E.
  - right. right. exact H.
Qed.

Lemma list_index_of_nat : forall l m, In m l ->
  py_list_index (map Z.of_nat l) (Z.of_nat m) = Some (Z.of_nat (index_of_nat m l)) /\ (index_of_nat m l < length l)%nat.
Proof.
  induction l as [|y l IH]; intros m H; [destruct H|]. cbn [map py_list_index index_of_nat length].
  destruct (Nat.eqb_spec m y) as [E|E].
  - subst. rewrite Z.eqb_refl. split; [reflexivity | lia].
  - assert (Z : (Z.of_nat y =? Z.of_nat m)%Z = false) by (apply Z.eqb_neq; lia). rewrite Z.
    destruct H as [H|H]; [exfalso; apply E; symmetry; exact H|]. destruct (IH m H) as [I1 I2]. rewrite I1.
    split; [f_equal; lia | lia].
Qed.

Lemma py_sum_lengths (rows : list (list Z)) : py_sum (map (fun i => py_len i) rows) = Z.of_nat (fold_right Nat.add 0%nat (map (@length Z) rows)).
Proof.
  unfold py_sum.
  assert (G : forall rows a, fold_left Z.add (map (fun i : list Z => py_len i) rows) a
                             = (a + Z.of_nat (fold_right Nat.add 0%nat (map (@length Z) rows)))%Z).
  { clear. induction rows as [|r rows IH]; intro a; [cbn; lia|]. cbn [map fold_left fold_right]. rewrite IH. unfold py_len. lia. }
  rewrite G. lia.
Qed.

(* ------------------------------------------------------------------ dictionaries of the model as association lists *)
Lemma dict_get_G (old : bdict) : NoDup (map fst old) -> forall e, In e old -> py_dict_get (dict_G old) (fst e) = Some (fst (snd e)).
Proof.
  induction old as [|e0 old IH]; intros Hnd e He; [destruct He|]. cbn [map] in Hnd. inversion Hnd as [|? ? Hn Hnd']; subst.
  unfold dict_G. cbn [map py_dict_get fst snd]. destruct He as [He|He].
  - subst e0. assert (T : tup_eqb (fst e) (fst e) = true) by (apply tup_eqb_eq; reflexivity). rewrite T. reflexivity.
  - assert (T : tup_eqb (fst e) (fst e0) = false).
    { apply tup_eqb_neq. intro Z. apply Hn. rewrite <- Z. apply in_map. exact He. }
    rewrite T. apply (IH Hnd' e He).
Qed.

Lemma map2_seq {A B C} (f : A -> B -> C) (da : A) (db : B) : forall (a : list A) (b : list B), length a = length b ->
  Gram.map2 f a b = map (fun d => f (nth d a da) (nth d b db)) (seq 0 (length a)).
Proof.
  induction a as [|x a IH]; intros [|y b] H; try discriminate; [reflexivity|].
  cbn [Gram.map2 length seq map nth]. f_equal. rewrite <- seq_shift, map_map. rewrite IH by (cbn in H; lia). reflexivity.
Qed.

Section Closest.
Variables (old : bdict) (stripes : list (list Qc)).
Hypothesis Hnd : NoDup (map fst old).
Hypothesis Hlen : forall e, In e old -> length (fst (snd e)) = length stripes.
Let n := length stripes.

Definition row_rel (ost : list (list Qc)) (z : Z) (row : list Z) : Prop :=
  length row = cnt1 (nth (Z.to_nat z) stripes []) (nth (Z.to_nat z) ost []).
Definition key_rel (x : list Z * list Qc) (rows : list (list Z)) : Prop :=
  exists ost, py_dict_get (dict_G old) (fst x) = Some ost /\ length ost = n /\ Forall2 (row_rel ost) (map Z.of_nat (seq 0 n)) rows.

Lemma differences_of (ys : list (list (list Z))) : forall (l : list (list Z * (list (list Qc) * list Qc))),
  (forall e, In e l -> In e old) ->
  Forall2 key_rel (dict_B l) ys ->
  map (fun s => py_sum (map (fun i => py_len i) s)) ys = map Z.of_nat (map (fun e => new_coord_count stripes (fst (snd e))) l).
Proof.
  revert ys. intros ys l. revert ys. induction l as [|e l IH]; intros ys Hin F; unfold dict_B in F; cbn [map] in F.
  - inversion F. reflexivity.
  - inversion F as [|? rows ? ys' [ost [G [Lo Fr]]] F']; subst. cbn [map]. f_equal; [|apply IH; [intros e' He'; apply Hin; right; exact He' | exact F']].
    cbn [fst] in G. rewrite (dict_get_G old Hnd e (Hin e (or_introl eq_refl))) in G. injection G as G. subst ost.
    rewrite py_sum_lengths. f_equal. unfold new_coord_count.
    rewrite (map2_seq _ [] [] stripes (fst (snd e))) by (symmetry; apply Hlen; apply Hin; left; reflexivity).
    fold n. f_equal.
    clear - Fr. revert Fr. generalize (seq 0 n). intros sq. revert rows. induction sq as [|d sq IHs]; intros rows Fr.
    + inversion Fr. reflexivity.
    + cbn [map] in Fr. inversion Fr as [|? r ? rows' R Fr']; subst. cbn [map]. f_equal; [|apply IHs; exact Fr'].
      unfold row_rel in R. rewrite Nat2Z.id in R. exact R.
Qed.

Theorem gen_find_closest :
  DensityEstimation_c17_find_closest_old_B (dict_B old) (dict_G old) stripes (Z.of_nat n) = Some (option_map fst (find_closest old stripes)).
Proof.
  unfold DensityEstimation_c17_find_closest_old_B.
  destruct (Nat.eq_dec (length old) 0) as [Hz|Hne].
  { assert (Eo : old = []) by (destruct old; [reflexivity | discriminate]). clear Hnd Hlen. subst old. reflexivity. }
  match goal with |- context [(?t =? 0)%Z] => assert (E0 : (t =? 0)%Z = false) end.
  { apply Z.eqb_neq. unfold py_len, dict_B. rewrite map_length. lia. }
  rewrite E0. cbn [bindF]. cbv zeta.
  (* the loop over the keys *)
  match goal with |- context [py_for (dict_B old) ?body ([], [])] =>
    assert (Hbody : forall x a1 a2, In x (dict_B old) ->
               exists y, body x (a1, a2) = Nxt (a1 ++ [y], a2 ++ [fst x]) /\ key_rel x y) end.
  { intros [key bk] a1 a2 Hx. cbn beta iota.
    assert (Hk : exists e, In e old /\ fst e = key).
    { unfold dict_B in Hx. apply in_map_iff in Hx. destruct Hx as [e [He1 He2]]. exists e. split; [exact He2|]. injection He1 as H1 _. exact H1. }
    destruct Hk as [e [He Hke]]. subst key.
    pose proof (dict_get_G old Hnd e He) as HG. pose proof (Hlen e He) as HL. set (ost := fst (snd e)) in *.
    rewrite py_range_seq.
    (* the loop over the dimensions *)
    match goal with |- context [py_for (map Z.of_nat (seq 0 n)) ?dbody []] =>
      destruct (collect_loop (row_rel ost) dbody (map Z.of_nat (seq 0 n)) []) as [rows [ER FR]] end.
    { intros z acc Hz. apply in_map_iff in Hz. destruct Hz as [d [Ez Hd]]. subst z. apply in_seq in Hd. cbn beta.
      rewrite (getitem_nat stripes d []) by (fold n; lia). cbn [bindE].
      set (s := nth d stripes []). set (o := nth d ost []).
      unfold py_len. rewrite py_range_seq.
      (* the loop over the coordinates of the stripe *)
      match goal with |- context [py_for (map Z.of_nat (seq 0 (length s))) ?ibody []] =>
        destruct (count_loop (fun j => negb (memQ (nth j s 0%Qc) o)) ibody (length s) 0 []) as [row [Erow Lrow]] end.
      { intros j row Hj. cbn beta.
        rewrite (getitem_nat s j 0%Qc) by lia. cbn [bindE]. rewrite HG. cbn [bindE].
        rewrite (getitem_nat ost d []) by lia. cbn [bindE]. fold o. rewrite float_in_memQ.
        destruct (memQ (nth j s 0%Qc) o); cbn [negb bindF].
        - exists 0%Z. reflexivity.
        - destruct (float_index_in s (nth j s 0%Qc) (@nth_In _ j s 0%Qc ltac:(lia))) as [k Hk]. rewrite Hk. cbn [bindE bindF].
          exists k. reflexivity. }
      erewrite bindF_Nxt_eq; [|exact Erow]. exists row. split; [reflexivity|].
      unfold row_rel. rewrite Nat2Z.id. fold s o. rewrite Lrow. cbn [length Nat.add]. unfold cnt1.
      rewrite <- (filter_seq_nth (fun c => negb (memQ c o)) s 0). f_equal. apply filter_ext. intro j. rewrite Nat.sub_0_r. reflexivity. }
    erewrite bindF_Nxt_eq; [|exact ER]. cbn [app]. exists rows. split; [reflexivity|].
    exists ost. split; [exact HG|]. split; [exact HL | exact FR]. }
  match goal with |- context [py_for (dict_B old) ?body ([], [])] =>
    destruct (collect_loop2 key_rel fst body (dict_B old) [] [] Hbody) as [ys [EL FL]] end.
  erewrite bindF_Nxt_eq; [|exact EL]. cbn [app].
  rewrite (differences_of ys old (fun e H => H) FL).
  set (ds := map (fun e => new_coord_count stripes (fst (snd e))) old).
  assert (Lds : length ds = length old) by (unfold ds; apply map_length).
  assert (Eds : exists d0 dr, ds = d0 :: dr) by (destruct ds as [|d0 dr]; [cbn in Lds; lia | eauto]).
  destruct Eds as [d0 [dr Eds]].
  rewrite Eds, list_min_of_nat, <- Eds. cbn [bindE].
  assert (Hin : In (min_nat_list ds 0) ds) by (rewrite Eds, min_nat_list_fold; apply fold_min_in).
  destruct (list_index_of_nat ds (min_nat_list ds 0) Hin) as [I1 I2]. rewrite I1. cbn [bindE].
  match goal with |- context [py_getitem ?kl ?ix] =>
    assert (Eg : py_getitem kl ix = Some (nth (index_of_nat (min_nat_list ds 0) ds) (map fst old) [])) end.
  { unfold dict_B. rewrite map_map. rewrite (getitem_nat _ (index_of_nat (min_nat_list ds 0) ds) []) by (rewrite map_length; lia).
    reflexivity. }
  rewrite Eg. cbn [bindE run_flow].
  assert (Efc : find_closest old stripes = nth_error old (index_of_nat (min_nat_list ds 0) ds)).
  { unfold find_closest. destruct old; [cbn in Hne; lia | reflexivity]. }
  rewrite Efc.
  destruct (nth_error old (index_of_nat (min_nat_list ds 0) ds)) as [e|] eqn:En.
  - cbn [option_map]. f_equal. f_equal. rewrite (nth_indep _ [] (fst e)) by (rewrite map_length; lia). rewrite map_nth. f_equal.
    apply nth_error_nth. exact En.
  - exfalso. apply nth_error_None in En. lia.
Qed.
End Closest.

(* composition with the model's invariant: the key the source-derived function returns names a stored right-hand side that is
   the right-hand side of its stored grid - the entry from which the (proved transparent) re-use copies *)
From SG Require Import Proofs.GramPD Proofs.DECacheP Proofs.DEReuseP.
Theorem gen_closest_key_is_valid data signs perms (st : bstate) stripes k :
  Inv data signs perms st -> NoDup (map fst (oldB st)) ->
  (forall e, In e (oldB st) -> length (fst (snd e)) = length stripes) ->
  DensityEstimation_c17_find_closest_old_B (dict_B (oldB st)) (dict_G (oldB st)) stripes (Z.of_nat (length stripes)) = Some (Some k) ->
  exists ost ob, In (k, (ost, ob)) (oldB st) /\ find_closest (oldB st) stripes = Some (k, (ost, ob)) /\
                 Forall good_stripe ost /\ ob = rhs (grid_hats ost) data signs.
Proof.
  intros [Io _] Hnd Hlen H. rewrite (gen_find_closest (oldB st) stripes Hnd Hlen) in H.
  destruct (find_closest (oldB st) stripes) as [[k' [ost ob]]|] eqn:E; [|discriminate].
  cbn [option_map fst] in H. injection H as H. subst k'.
  pose proof (find_closest_in _ _ _ E) as Hin. destruct (Io _ Hin) as [G B]. cbn [fst snd] in G, B.
  exists ost, ob. split; [exact Hin|]. split; [reflexivity|]. split; [exact G | exact B].
Qed.
