(* C04, dimension-wise strategy:
   - soundness of the checker dw_keeps_initial_space;
   - dw_exact_if (integral): in a state whose trees tile the domain (C06) and whose scheme satisfies the C01 invariant, a
     hierarchical hat is integrated EXACTLY by the combination whenever its level vector tau - componentwise a level at
     which the stripe of that dimension contains the hat's kinks - lies in the index set. *)
From Coq Require Import ZArith List Bool QArith Qcanon Lia Sorted Arith.
From SG Require Import Base.QcUtil Model.CombiScheme Model.RefTree.
From SG Require Import Model.StdCombi Model.Trap.
From SG Require Import Model.DimWise Model.DimWiseInterp Model.DimWiseExact
     Proofs.SchemeBasics Proofs.SchemeIE Proofs.SchemeInv Proofs.CombiAbstract Proofs.NodalExact Proofs.StdGrid Proofs.StdNodal
     Proofs.HatFacts Proofs.StdHier1D Proofs.StdHierTrap Proofs.TrapBasics Proofs.Trap
     Proofs.RefTreeInv Proofs.DimWiseStripes Proofs.DimWiseCombi Proofs.C03Main Proofs.DimWiseNodal
     Proofs.CombiProduct Proofs.HatOnGrid.
Import ListNotations.
Local Open Scope Qc_scope.
Local Arguments Z.add : simpl never.
Local Arguments Z.sub : simpl never.
Local Arguments Z.pow : simpl never.

(* ---------------------------------------------------------------------------------------------- *)
(* checker soundness *)
Theorem dw_keeps_initial_space_sound o st a b lmin lmax :
  dw_keeps_initial_space o st a b lmin lmax = true ->
  forall j i, In (j, i) (initial_hats (st_dim st) lmin lmax (o_boundary o)) ->
    dw_combi_integral o false st a b (hat_list a b j i) = Some (hat_exact a b j i).
Proof.
  unfold dw_keeps_initial_space. intros H j i Hin. rewrite forallb_forall in H. specialize (H _ Hin).
  unfold dw_keeps_hat in H. simpl in H.
  destruct (dw_combi_integral o false st a b (hat_list a b j i)) as [v|]; [|discriminate].
  apply Qc_eqb_eq in H. rewrite H. reflexivity.
Qed.

(* ---------------------------------------------------------------------------------------------- *)
(* the combined integral as a product combination *)
Definition q1 (bd : bool) (a0 b0 : Qc) (xs : list Qc) (g : Qc -> Qc) : Qc :=
  if bd then dotQ (weights_raw false xs a0 b0) (map g xs)
  else dotQ (Trap.strip (weights_raw false xs a0 b0)) (map g (Trap.strip xs)).

Lemma dw_quad1_q1 bd a0 b0 xs g : dw_quad1 bd false a0 b0 xs g = Some (q1 bd a0 b0 xs g).
Proof. reflexivity. Qed.

Fixpoint dw_es (o : dw_opts) (st : dw_state) (d0 : nat) (a b : list Qc) (gs : list (Qc -> Qc)) : list (Z -> Qc) :=
  match a, b, gs with
  | a0 :: a', b0 :: b', g0 :: gs' =>
    (fun l => q1 (o_boundary o) a0 b0 (dw_stripe_coords o st d0 l) g0) :: dw_es o st (S d0) a' b' gs'
  | _, _, _ => []
  end.

Lemma dw_es_length o st : forall a b gs d0, length b = length a -> length gs = length a -> length (dw_es o st d0 a b gs) = length a.
Proof.
  induction a as [|a0 a IH]; intros [|b0 b] [|g0 gs] d0 Lb Lg; simpl in *; try discriminate; [reflexivity|].
  rewrite IH by lia. reflexivity.
Qed.

Lemma dw_comp_prod o st : forall lv a b gs d0,
  length a = length lv -> length b = length lv -> length gs = length lv ->
  prod_opt (map (fun dq : nat * (Qc * Qc * Z * (Qc -> Qc)) =>
                   match dq with (d, (a0, b0, l0, g0)) => dw_quad1 (o_boundary o) false a0 b0 (dw_stripe_coords o st d l0) g0 end)
                (combine (seq d0 (length lv)) (zip4 a b lv gs)))
  = Some (prod_at (dw_es o st d0 a b gs) lv).
Proof.
  induction lv as [|l lv IH]; intros [|a0 a] [|b0 b] [|g0 gs] d0 La Lb Lg; simpl in La, Lb, Lg; try discriminate; [reflexivity|].
  cbn [length seq zip4 combine map prod_opt dw_es prod_at]. rewrite dw_quad1_q1.
  rewrite (IH a b gs (S d0)) by lia. reflexivity.
Qed.

Lemma sum_opt_some {A} (f : A -> Qc) l : sum_opt (map (fun x => Some (f x)) l) = Some (sumQ (map f l)).
Proof. induction l as [|x l IH]; simpl; [reflexivity | rewrite IH; reflexivity]. Qed.

Lemma dw_combi_integral_prod o st a b gs n :
  length a = n -> length b = n -> length gs = n ->
  (forall l c, In (l, c) (combi_scheme_adaptive (st_scheme st)) -> length l = n) ->
  dw_combi_integral o false st a b gs
  = Some (combined_prod (combi_scheme_adaptive (st_scheme st)) (dw_es o st 0 a b gs)).
Proof.
  intros La Lb Lg Hcs. unfold dw_combi_integral, combined_prod.
  rewrite <- sum_opt_some. f_equal. apply map_ext_in. intros [l c] Hin. cbn [fst snd].
  unfold dw_comp_integral. rewrite dw_comp_prod by (rewrite (Hcs l c Hin); assumption). reflexivity.
Qed.

(* ---------------------------------------------------------------------------------------------- *)
(* one dimension: the rule on the stripe of level l integrates the hat exactly once the stripe resolves its kinks *)
Lemma hatF_ends a0 b0 j i : a0 < b0 -> (0 <= j)%Z -> (0 <= i <= 2 ^ j)%Z ->
  hatF (gpoint a0 b0 j i) (step a0 b0 j) b0 - hatF (gpoint a0 b0 j i) (step a0 b0 j) a0 = hat1_int a0 b0 j i.
Proof.
  intros Hab Hj Hi. pose proof (pow2_pos j Hj) as Hp. unfold hat1_int.
  assert (HH : 0 < step a0 b0 j) by (apply step_pos; assumption).
  destruct (Z.eqb_spec i 0) as [E0|N0].
  - subst i. cbn [orb]. rewrite gpoint_0. rewrite (hatF_centre a0 _ HH).
    rewrite hatF_right; [|exact HH|].
    + rewrite (half_split (step a0 b0 j)) at 1. ring.
    + pose proof (gpoint_le a0 b0 j 1 (2 ^ j) Hab Hj ltac:(lia)) as L. rewrite gpoint_top in L by exact Hj.
      replace 1%Z with (0 + 1)%Z in L by lia. rewrite gpoint_succ, gpoint_0 in L. exact L.
  - destruct (Z.eqb_spec i (2 ^ j)) as [E1|N1].
    + subst i. cbn [orb]. rewrite gpoint_top by exact Hj. rewrite (hatF_centre b0 _ HH).
      rewrite hatF_left; [ring | exact HH|].
      pose proof (gpoint_le a0 b0 j 0 (2 ^ j - 1) Hab Hj ltac:(lia)) as L. rewrite gpoint_0 in L.
      rewrite gpoint_pred, gpoint_top in L by exact Hj. exact L.
    + cbn [orb]. rewrite hatF_right; [rewrite hatF_left; [ring | exact HH|] | exact HH|].
      * rewrite <- gpoint_pred. pose proof (gpoint_le a0 b0 j 0 (i - 1) Hab Hj ltac:(lia)) as L. rewrite gpoint_0 in L. exact L.
      * rewrite <- gpoint_succ. pose proof (gpoint_le a0 b0 j (i + 1) (2 ^ j) Hab Hj ltac:(lia)) as L.
        rewrite gpoint_top in L by exact Hj. exact L.
Qed.

Lemma sorted_list_bounds a0 r b0 : StronglySorted Qclt (a0 :: r ++ [b0]) ->
  forall x, In x (a0 :: r ++ [b0]) -> a0 <= x /\ x <= b0.
Proof.
  intros HS x Hx. destruct Hx as [<-|Hx].
  - split; [apply Qcle_refl|]. inversion HS as [|? ? _ HF]; subst. rewrite Forall_forall in HF.
    apply Qclt_le_weak. apply HF. apply in_or_app. right. left. reflexivity.
  - apply in_app_or in Hx. destruct Hx as [Hx|[<-|[]]].
    + destruct (sorted_mid_strict _ _ _ _ HS Hx) as [A B]. split; apply Qclt_le_weak; assumption.
    + split; [|apply Qcle_refl]. inversion HS as [|? ? _ HF]; subst. rewrite Forall_forall in HF.
      apply Qclt_le_weak. apply HF. apply in_or_app. right. left. reflexivity.
Qed.

Lemma nq_last_app (a0 : Qc) r b0 : nq (a0 :: r ++ [b0]) (length (a0 :: r ++ [b0]) - 1) = b0.
Proof.
  assert (E : (length (a0 :: r ++ [b0]) - 1 = S (length r))%nat) by (simpl; rewrite app_length; simpl; lia).
  rewrite E. unfold nq. cbn [nth]. rewrite app_nth2 by lia. rewrite Nat.sub_diag. reflexivity.
Qed.

Theorem q1_hat_exact a b o st d t a0 b0 j i tau l :
  TilesOK a b st -> nth_error (st_trees st) d = Some t -> nth d a 0 = a0 -> nth d b 0 = b0 ->
  a0 < b0 -> (0 <= j)%Z -> (0 <= i <= 2 ^ j)%Z -> (o_boundary o = false -> (1 <= i <= 2 ^ j - 1)%Z) ->
  dw_stripe_pts o st d tau <> [] ->
  resolves a0 b0 (gpoint a0 b0 j i) (step a0 b0 j) (dw_stripe_pts o st d tau) ->
  (tau <= l)%Z ->
  q1 (o_boundary o) a0 b0 (dw_stripe_coords o st d l) (hat1 a0 b0 j i) = hat1_int a0 b0 j i.
Proof.
  intros HT Hd Ea Eb Hab Hj Hi Hbd Hne HR Hl.
  assert (HH : 0 < step a0 b0 j) by (apply step_pos; assumption).
  (* the stripe at level l is defined, sorted, runs from a0 to b0 and resolves the kinks *)
  assert (Hdef : exists s, stripe_dim o st d l = Some s).
  { unfold dw_stripe_pts in Hne. destruct (stripe_dim o st d tau) as [s1|] eqn:E1; [|contradiction].
    destruct (dw_stripes_monotone o st d tau l s1 E1 Hl) as (s2 & E2 & _). eauto. }
  destruct Hdef as [s Es].
  destruct (dw_stripes_sorted_with_endpoints a b o st d l t s HT Hd Es) as [S0 (r & Er)].
  rewrite Ea, Eb in Er.
  assert (Epts : dw_stripe_coords o st d l = a0 :: map fst r ++ [b0]).
  { unfold dw_stripe_coords. rewrite Es, Er. simpl. rewrite map_app. reflexivity. }
  assert (S1 : StronglySorted Qclt (a0 :: map fst r ++ [b0])).
  { rewrite Er in S0. simpl in S0. rewrite map_app in S0. exact S0. }
  assert (HRl : resolves a0 b0 (gpoint a0 b0 j i) (step a0 b0 j) (a0 :: map fst r ++ [b0])).
  { rewrite <- Epts. rewrite dw_stripe_coords_pts. eapply resolves_incl; [|exact HR]. apply dw_stripe_pts_nested. exact Hl. }
  pose proof (sorted_list_bounds _ _ _ S1) as Hbounds.
  rewrite Epts. unfold q1. change (hat1 a0 b0 j i) with (hatc (gpoint a0 b0 j i) (step a0 b0 j)).
  destruct (o_boundary o) eqn:Ebd.
  - rewrite (trap_hat_on_grid a0 b0 _ _ _ a0 b0 HH S1 Hbounds HRl) by (simpl; lia).
    rewrite nq_last_app. change (nq (a0 :: map fst r ++ [b0]) 0) with a0. apply hatF_ends; assumption.
  - specialize (Hbd eq_refl). destruct (hat1_at_ends a0 b0 j i Hab Hj Hbd) as [Z0 Z1].
    rewrite (trap_hat_on_grid_inner a0 b0 _ _ _ a0 b0 HH S1 Hbounds HRl).
    + rewrite nq_last_app. change (nq (a0 :: map fst r ++ [b0]) 0) with a0. apply hatF_ends; assumption.
    + simpl. rewrite app_length. simpl. lia.
    + exact Z0.
    + rewrite nq_last_app. exact Z1.
Qed.

(* ---------------------------------------------------------------------------------------------- *)
(* per-dimension hypotheses on a tensor hat (j,i) and its level vector tau, positions counted from d0 *)
Inductive hat_ok (o : dw_opts) (st : dw_state) (a b : list Qc) (lmin : Z) : nat -> lv -> lv -> lv -> Prop :=
| hat_ok_nil d0 : hat_ok o st a b lmin d0 [] [] []
| hat_ok_cons d0 j0 i0 t0 j i tau tr :
    nth_error (st_trees st) d0 = Some tr ->
    nth d0 a 0 < nth d0 b 0 -> (0 <= j0)%Z -> (0 <= i0 <= 2 ^ j0)%Z ->
    (o_boundary o = false -> (1 <= i0 <= 2 ^ j0 - 1)%Z) ->
    (lmin <= t0)%Z ->
    dw_stripe_pts o st d0 t0 <> [] ->
    resolves (nth d0 a 0) (nth d0 b 0) (gpoint (nth d0 a 0) (nth d0 b 0) j0 i0) (step (nth d0 a 0) (nth d0 b 0) j0)
             (dw_stripe_pts o st d0 t0) ->
    hat_ok o st a b lmin (S d0) j i tau ->
    hat_ok o st a b lmin d0 (j0 :: j) (i0 :: i) (t0 :: tau).

Lemma skipn_cons_nth {A} (l : list A) d0 x r (dflt : A) : skipn d0 l = x :: r -> nth d0 l dflt = x /\ skipn (S d0) l = r.
Proof.
  revert l. induction d0 as [|d0 IH]; intros [|y l] H; simpl in *; try discriminate.
  - injection H as -> ->. split; reflexivity.
  - apply IH. exact H.
Qed.

Lemma hat_ok_stat a b o st lmin : TilesOK a b st -> forall d0 j i tau, hat_ok o st a b lmin d0 j i tau ->
  length (skipn d0 a) = length j -> length (skipn d0 b) = length j ->
  stat lmin (dw_es o st d0 (skipn d0 a) (skipn d0 b) (hat_list (skipn d0 a) (skipn d0 b) j i)) tau
  /\ prod_at (dw_es o st d0 (skipn d0 a) (skipn d0 b) (hat_list (skipn d0 a) (skipn d0 b) j i)) tau
     = hat_exact (skipn d0 a) (skipn d0 b) j i.
Proof.
  intros HT d0 j i tau H. induction H as [d0|d0 j0 i0 t0 j i tau tr Htr Hab Hj Hi Hbd Hlm Hne HR _ IH]; intros La Lb.
  - destruct (skipn d0 a); [|discriminate]. split; [constructor | reflexivity].
  - destruct (skipn d0 a) as [|a0 a'] eqn:Ea; [discriminate|]. destruct (skipn d0 b) as [|b0 b'] eqn:Eb; [discriminate|].
    destruct (skipn_cons_nth a d0 a0 a' 0 Ea) as [Na Sa]. destruct (skipn_cons_nth b d0 b0 b' 0 Eb) as [Nb Sb].
    simpl in La, Lb. rewrite Sa, Sb in IH. destruct (IH ltac:(lia) ltac:(lia)) as [IH1 IH2].
    rewrite Na, Nb in *.
    assert (Q : forall l, (t0 <= l)%Z ->
                q1 (o_boundary o) a0 b0 (dw_stripe_coords o st d0 l) (hat1 a0 b0 j0 i0) = hat1_int a0 b0 j0 i0).
    { intros l Hl. eapply (q1_hat_exact a b o st d0 tr a0 b0 j0 i0 t0 l); eassumption. }
    cbn [hat_list dw_es prod_at hat_exact]. split.
    + constructor; [|exact Hlm | exact IH1].
      intros l Hl. cbv beta. rewrite (Q l Hl), (Q t0 ltac:(lia)). reflexivity.
    + rewrite IH2. rewrite (Q t0 ltac:(lia)). reflexivity.
Qed.

Lemma hat_ok_length o st a b lmin d0 j i tau : hat_ok o st a b lmin d0 j i tau -> length i = length j /\ length tau = length j.
Proof. induction 1 as [|? ? ? ? ? ? ? ? ? ? ? ? ? ? ? ? ? [E1 E2]]; simpl; [split; reflexivity | rewrite E1, E2; split; reflexivity]. Qed.

Lemma hat_list_length : forall a b j i, length b = length a -> length j = length a -> length i = length a -> length (hat_list a b j i) = length a.
Proof.
  induction a as [|a0 a IH]; intros [|b0 b] [|j0 j] [|i0 i] Lb Lj Li; simpl in *; try discriminate; [reflexivity|].
  rewrite IH by lia. reflexivity.
Qed.

(* the 'if' direction of dw_exact_iff, for the integral. Full statement (not proved): the combined integral reproduces the hat
   IFF tau, taken componentwise MINIMAL, lies in the index set. *)
Theorem dw_exact_if_integral a b o st j i tau :
  Inv (st_scheme st) -> TilesOK a b st ->
  length a = s_dim (st_scheme st) -> length b = s_dim (st_scheme st) -> length j = s_dim (st_scheme st) ->
  hat_ok o st a b (s_lmin (st_scheme st)) 0 j i tau ->
  In tau (index_set (st_scheme st)) ->
  dw_combi_integral o false st a b (hat_list a b j i) = Some (hat_exact a b j i).
Proof.
  intros HI HT La Lb Lj Hok Htau. set (s := st_scheme st) in *. set (cs := combi_scheme_adaptive s). set (lmin := s_lmin s).
  destruct (hat_ok_length _ _ _ _ _ _ _ _ _ Hok) as [Li Lt].
  destruct (hat_ok_stat a b o st lmin HT 0 j i tau Hok) as [Hstat Hprod]; [simpl; lia | simpl; lia|]. simpl skipn in Hstat, Hprod.
  set (gs := hat_list a b j i) in *.
  assert (Lg : length gs = s_dim s) by (unfold gs; rewrite hat_list_length; lia).
  assert (Hcs : forall l c, In (l, c) cs -> length l = s_dim s).
  { intros l c Hl. destruct (scheme_support s l c HI Hl) as [Hli _]. apply index_set_In in Hli.
    destruct (inv_wf s HI l Hli) as [Ll _]. exact Ll. }
  rewrite (dw_combi_integral_prod o st a b gs (s_dim s) La Lb Lg Hcs). fold s cs. f_equal.
  set (es := dw_es o st 0 a b gs) in *.
  assert (Les : length es = s_dim s) by (unfold es; rewrite dw_es_length; lia).
  set (mx := fold_right Z.max 0%Z (tau ++ flat_map fst cs)).
  assert (Hmx : forall v, In v (tau ++ flat_map fst cs) -> (v <= mx)%Z).
  { unfold mx. induction (tau ++ flat_map fst cs) as [|y r IH]; intros v Hv; [destruct Hv|].
    simpl. destruct Hv as [->|Hv]; [lia|]. specialize (IH v Hv). lia. }
  set (M := Z.to_nat (mx - lmin)).
  rewrite <- Hprod.
  apply (product_combination_exact lmin (index_set s) cs es M).
  - intros l c Hl. rewrite Les. split; [apply (Hcs l c Hl)|].
    destruct (scheme_support s l c HI Hl) as [Hli _]. apply index_set_In in Hli.
    destruct (inv_wf s HI l Hli) as [_ Fl]. apply Forall_forall. intros v Hv. rewrite Forall_forall in Fl. specialize (Fl v Hv).
    assert (v <= mx)%Z by (apply Hmx; apply in_or_app; right; apply in_flat_map; exists (l, c); split; assumption).
    unfold M. lia.
  - intros l Ll Fl. rewrite Les in Ll. apply scheme_inclusion_exclusion; assumption.
  - intros k' j' Hk' Lj' Fj'. apply (scheme_downward_closed s HI k' j'); assumption.
  - exact Hstat.
  - exact Htau.
  - apply index_set_In in Htau. destruct (inv_wf s HI tau Htau) as [_ Ft].
    apply Forall_forall. intros v Hv. rewrite Forall_forall in Ft. specialize (Ft v Hv).
    assert (v <= mx)%Z by (apply Hmx; apply in_or_app; left; assumption). unfold M. fold lmin in Ft. lia.
Qed.

(* soundness of the executable form of hat_ok *)
Theorem hat_okb_sound o st a b lmin : forall j d0 i tau, hat_okb o st a b lmin d0 j i tau = true -> hat_ok o st a b lmin d0 j i tau.
Proof.
  induction j as [|j0 j IH]; intros d0 [|i0 i] [|t0 tau] H; cbn [hat_okb] in H; try discriminate; [constructor|].
  cbv zeta in H. apply andb_true_iff in H. destruct H as [H Hrec]. apply andb_true_iff in H. destruct H as [H Hres].
  apply andb_true_iff in H. destruct H as [H Hpts]. apply andb_true_iff in H. destruct H as [H Hlm].
  apply andb_true_iff in H. destruct H as [H Hbd]. apply andb_true_iff in H. destruct H as [H Hi2].
  apply andb_true_iff in H. destruct H as [H Hi1]. apply andb_true_iff in H. destruct H as [H Hj].
  apply andb_true_iff in H. destruct H as [Htr Hab].
  destruct (nth_error (st_trees st) d0) as [tr|] eqn:Etr; [|discriminate].
  apply (hat_ok_cons o st a b lmin d0 j0 i0 t0 j i tau tr Etr).
  - apply Qc_ltb_lt. assumption.
  - apply Z.leb_le. assumption.
  - split; apply Z.leb_le; assumption.
  - intro Ebd. rewrite Ebd in Hbd. simpl in Hbd. apply andb_true_iff in Hbd. destruct Hbd as [A B]. split; apply Z.leb_le; assumption.
  - apply Z.leb_le. assumption.
  - rewrite <- dw_stripe_coords_pts. destruct (dw_stripe_coords o st d0 t0); [discriminate | discriminate].
  - intros k Hk. rewrite forallb_forall in Hres.
    assert (Hin : In k [gpoint (nth d0 a 0) (nth d0 b 0) j0 i0 - step (nth d0 a 0) (nth d0 b 0) j0;
                        gpoint (nth d0 a 0) (nth d0 b 0) j0 i0;
                        gpoint (nth d0 a 0) (nth d0 b 0) j0 i0 + step (nth d0 a 0) (nth d0 b 0) j0]).
    { destruct Hk as [-> | [-> | ->]]; [left | right; left | right; right; left]; reflexivity. }
    specialize (Hres k Hin). apply orb_true_iff in Hres. destruct Hres as [H1|H1].
    + apply orb_true_iff in H1. destruct H1 as [H1|H1].
      * left. rewrite <- dw_stripe_coords_pts. apply (memX_In Qc Qc_eqb Qc_eqb_eq). exact H1.
      * right. left. apply Qc_leb_le. exact H1.
    + right. right. apply Qc_leb_le. exact H1.
  - apply IH. assumption.
Qed.
