(* C04: the tabulated evaluation used by the entry point (Model/DimWiseFast.v) equals the model functions. *)
From Coq Require Import ZArith List Bool QArith Qcanon Lia Arith.
From SG Require Import Base.QcUtil Model.CombiScheme Model.RefTree.
From SG Require Import Model.DimWise Model.DimWiseInterp Model.DimWiseExact Model.DimWiseFast.
Import ListNotations.
Local Arguments Z.add : simpl never.
Local Arguments Z.sub : simpl never.

Lemma nth_error_seq_some : forall n s k v, nth_error (seq s n) k = Some v -> v = (s + k)%nat.
Proof.
  induction n as [|n IH]; intros s k v H; [destruct k; discriminate|].
  destruct k as [|k]; simpl in H.
  - injection H as <-. lia.
  - apply IH in H. lia.
Qed.

Lemma memo_eq {A} (f : Z -> A) lo n l : memo f lo n l = f l.
Proof.
  unfold memo. destruct (Z.leb_spec lo l) as [H|H]; [|reflexivity].
  rewrite nth_error_map.
  destruct (nth_error (seq 0 n) (Z.to_nat (l - lo))) as [k|] eqn:E; [|reflexivity].
  apply nth_error_seq_some in E. cbn [option_map]. f_equal. lia.
Qed.

Lemma coords_fast_eq o st lo n d l : coords_fast o st (ctab o st lo n) d l = dw_stripe_coords o st d l.
Proof.
  unfold coords_fast, ctab. rewrite nth_error_map.
  destruct (nth_error (seq 0 (st_dim st)) d) as [k|] eqn:E; [|reflexivity].
  apply nth_error_seq_some in E. cbn [option_map]. rewrite memo_eq. subst k. reflexivity.
Qed.

Theorem dw_combi_integral_fast_eq o mb st lo n a b gs :
  dw_combi_integral_fast o mb st (ctab o st lo n) a b gs = dw_combi_integral o mb st a b gs.
Proof.
  unfold dw_combi_integral_fast, dw_combi_integral. f_equal. apply map_ext. intros [l c]. cbn [fst snd].
  unfold dw_comp_integral_fast, dw_comp_integral.
  replace (map (fun dq : nat * (Qc * Qc * Z * (Qc -> Qc)) =>
                  let (d, p) := dq in let (p0, g0) := p in let (p1, l0) := p0 in let (a0, b0) := p1 in
                  dw_quad1 (o_boundary o) mb a0 b0 (coords_fast o st (ctab o st lo n) d l0) g0)
               (combine (seq 0 (length l)) (zip4 a b l gs)))
    with (map (fun dq : nat * (Qc * Qc * Z * (Qc -> Qc)) =>
                  let (d, p) := dq in let (p0, g0) := p in let (p1, l0) := p0 in let (a0, b0) := p1 in
                  dw_quad1 (o_boundary o) mb a0 b0 (dw_stripe_coords o st d l0) g0)
               (combine (seq 0 (length l)) (zip4 a b l gs))); [reflexivity|].
  apply map_ext. intros [d [[[a0 b0] l0] g0]]. rewrite coords_fast_eq. reflexivity.
Qed.

Theorem dw_combi_interp_fast_eq o st lo n a b f x :
  dw_combi_interp_fast o st (ctab o st lo n) a b f x = dw_combi_interp o st a b f x.
Proof.
  unfold dw_combi_interp_fast, dw_combi_interp. f_equal. apply map_ext. intros [l c]. cbn [fst snd].
  unfold dw_comp_interp. f_equal. f_equal. unfold dw_grids_fast, dw_grids. apply map_ext. intros [d l0]. cbn [fst snd].
  apply coords_fast_eq.
Qed.

Theorem keeps_of_eq o st a b lmin lmax :
  keeps_of a b (initial_hats (st_dim st) lmin lmax (o_boundary o))
           (map (fun ji => dw_combi_integral o false st a b (hat_list a b (fst ji) (snd ji)))
                (initial_hats (st_dim st) lmin lmax (o_boundary o)))
  = dw_keeps_initial_space o st a b lmin lmax.
Proof.
  unfold keeps_of, dw_keeps_initial_space. induction (initial_hats (st_dim st) lmin lmax (o_boundary o)) as [|h r IH]; [reflexivity|].
  cbn [map combine forallb fst snd]. rewrite IH. reflexivity.
Qed.

Theorem entry_tabulated_equal o st lo n a b lmin lmax :
  (forall mb gs, dw_combi_integral_fast o mb st (ctab o st lo n) a b gs = dw_combi_integral o mb st a b gs) /\
  (forall f x, dw_combi_interp_fast o st (ctab o st lo n) a b f x = dw_combi_interp o st a b f x) /\
  keeps_of a b (initial_hats (st_dim st) lmin lmax (o_boundary o))
           (map (fun ji => dw_combi_integral o false st a b (hat_list a b (fst ji) (snd ji)))
                (initial_hats (st_dim st) lmin lmax (o_boundary o)))
  = dw_keeps_initial_space o st a b lmin lmax.
Proof.
  split; [intros; apply dw_combi_integral_fast_eq | split; [intros; apply dw_combi_interp_fast_eq | apply keeps_of_eq]].
Qed.
