(* C18 (phase 3) - remove_labels as a natural row operation; split_one_vs_others keeps the samples of every result set in place,
   marks exactly the class with 1 and gives every other sample one label in [-1, 0]. *)
From Coq Require Import ZArith List QArith Qcanon Bool Lia Arith Permutation.
From SG Require Import Base.QcUtil Model.DataSet Model.DataSetOff Proofs.DataSetVec Proofs.DataSetScale Proofs.DataSetRevert
  Proofs.DataSetMove Proofs.DataSetTrack Proofs.DataSetDerived.
Import ListNotations.
Open Scope Qc_scope.

Lemma remove_labels_form p idx d : remove_labels p idx d = set_rows_rebuilt d (rl_rows idx (rows d)).
Proof.
  unfold remove_labels. rewrite split_without_labels_form. cbn [with_attrs rows]. unfold rl_rows, label_part. reflexivity.
Qed.

Lemma relabel_at_map_rows f idx l : relabel_at idx (map_rows f l) = map_rows f (relabel_at idx l).
Proof.
  unfold relabel_at. rewrite map_rows_length. generalize 0%nat. induction l as [|[r lb] l IH]; intro k; [reflexivity|].
  cbn [map_rows map length seq combine fst snd]. f_equal; [destruct (memn k idx); reflexivity | apply IH].
Qed.

Lemma natural_rl_rows m idx : natural_on m (rl_rows idx).
Proof.
  split.
  - intros f l _. unfold rl_rows.
    rewrite (filter_map_rows (fun z => Z.eqb z (-1)%Z)), (filter_map_rows (fun z => Z.leb 0 z)), relabel_at_map_rows.
    destruct (filter (fun s => Z.eqb (snd s) (-1)%Z) l) as [|s1 r1]; [reflexivity|].
    destruct (filter (fun s => Z.leb 0 (snd s)) l) as [|s2 r2]; [reflexivity|].
    cbn [map_rows map]. unfold map_rows. rewrite map_app. reflexivity.
  - intros l _ x Hx. unfold rl_rows in Hx.
    assert (H1 : incl (map fst (filter (fun s => Z.eqb (snd s) (-1)%Z) l)) (map fst l))
      by (apply incl_map_fst_sub; intros y Hy; apply filter_In in Hy; tauto).
    assert (H2 : incl (map fst (relabel_at idx (filter (fun s => Z.leb 0 (snd s)) l))) (map fst l))
      by (rewrite relabel_at_fst; apply incl_map_fst_sub; intros y Hy; apply filter_In in Hy; tauto).
    destruct (filter (fun s => Z.eqb (snd s) (-1)%Z) l) as [|s1 r1]; [apply H2; exact Hx|].
    destruct (filter (fun s => Z.leb 0 (snd s)) l) as [|s2 r2]; [apply H1; exact Hx|].
    rewrite map_app in Hx. apply in_app_or in Hx. destruct Hx as [Hx|Hx]; [apply H2 | apply H1]; exact Hx.
Qed.

(* ------------------------------------------------------------------ split_one_vs_others *)
Lemma opt_list_Forall2 {A B} (f : A -> option B) l r : opt_list (map f l) = Some r -> Forall2 (fun a b => f a = Some b) l r.
Proof.
  revert r. induction l as [|a l IH]; intros r H; cbn in H.
  - inversion H. constructor.
  - destruct (f a) as [b|] eqn:E; [|discriminate]. destruct (opt_list (map f l)) as [r'|]; [|discriminate].
    inversion H; subst. constructor; [exact E | apply IH; reflexivity].
Qed.

Lemma Forall2_imp {A B} (P Q : A -> B -> Prop) l r : (forall a b, P a b -> Q a b) -> Forall2 P l r -> Forall2 Q l r.
Proof. intros H F. induction F; constructor; auto. Qed.

Lemma Q2Qc_nonpos q : (q <= 0)%Q -> Q2Qc q <= 0.
Proof. intro H. unfold Qcle. cbn [this Q2Qc]. rewrite Qred_correct. exact H. Qed.

Lemma ovo_label_bounds cnj others : (0 <= cnj)%Z -> - (1) <= ovo_label cnj others /\ ovo_label cnj others <= 0.
Proof.
  intro Hc. unfold ovo_label. destruct (Z.leb others 0); [split; [apply Qcle_refl | discriminate]|].
  assert (Hy : Q2Qc (- (cnj # Z.to_pos others)) <= 0).
  { apply Q2Qc_nonpos. unfold Qle, Qopp. cbn [Qnum Qden]. lia. }
  destruct (Qc_max_cases (- (1)) (Q2Qc (- (cnj # Z.to_pos others)))) as [[E L]|[E L]]; rewrite E.
  - split; [exact L | exact Hy].
  - split; [apply Qcle_refl | discriminate].
Qed.

Lemma py_index_In {A} (l : list A) j x : py_index l j = Some x -> In x l.
Proof.
  unfold py_index. destruct (Z.leb 0 j && Z.ltb j (Z.of_nat (length l))); [apply nth_error_In|].
  destruct (Z.ltb j 0 && Z.leb (- Z.of_nat (length l)) j); [apply nth_error_In | discriminate].
Qed.

Theorem split_one_vs_others_keeps_samples order d sets : split_one_vs_others order d = Some sets ->
  Forall2 (fun j s =>
     map fst s = values d /\
     Forall2 (fun src x => fst x = fst src /\ (snd src = j -> snd x = 1) /\ (snd src <> j -> - (1) <= snd x /\ snd x <= 0)) (rows d) s)
   order sets.
Proof.
  intro H. apply opt_list_Forall2 in H. eapply Forall2_imp; [|exact H]. clear H. intros j s Hs. cbn beta in Hs.
  unfold ovo_set in Hs. destruct (py_index (map (fun k => count_label k (rows d)) order) j) as [cnj|] eqn:E; [|discriminate].
  inversion Hs; subst s; clear Hs.
  assert (Hc : (0 <= cnj)%Z).
  { apply py_index_In in E. apply in_map_iff in E. destruct E as [k [Ek _]]. subst cnj. unfold count_label. lia. }
  split; [unfold values; rewrite map_map; reflexivity|].
  match goal with |- context [ovo_label ?a ?b] => pose proof (ovo_label_bounds a b Hc) as Hb; revert Hb; generalize (ovo_label a b) end.
  intros lab Hb. clear E Hc.
  induction (rows d) as [|[r lb] l IH]; [constructor|]. cbn [map]. constructor; [|exact IH].
  cbn [fst snd]. split; [reflexivity|]. split.
  - intro El. subst lb. rewrite Z.eqb_refl. reflexivity.
  - intro Hn. assert (Z.eqb lb j = false) as -> by (apply Z.eqb_neq; exact Hn). exact Hb.
Qed.
