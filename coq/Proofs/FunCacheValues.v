(* C12 — arguments are VALUES: the history of results of the cache machine is a function of the numerical values passed.
   Raw arguments are sequences of arbitrary (non-canonical) rationals - the same number may be passed as 1 or 2/2, 0 or -0, in
   any container, as the same or as a fresh object: the model sees an argument only through `canon` (the exact value of every
   coordinate). Two histories whose arguments are pointwise numerically equal (Qeq) yield identical results and identical
   dictionaries after every operation. Any dependence of the implementation on object identity, container type or number
   representation therefore shows up as a difference to the model. *)
From Coq Require Import ZArith List QArith Qcanon Bool.
From SG Require Import Base.QcUtil Model.FunCache Model.FunCacheVec.
Import ListNotations.

Definition rawpoint := list Q.
Inductive rawop :=
| RawSingle (p : rawpoint) | RawBatch (ps : list rawpoint) | RawVec (ps : list rawpoint)
| RawReset | RawDeact | RawSize | RawDebug (b : bool).

Definition canon_point (p : rawpoint) : point := map Q2Qc p.
Definition canon (o : rawop) : vop :=
  match o with
  | RawSingle p => VBase (OSingle (canon_point p))
  | RawBatch ps => VBase (OBatch (map canon_point ps))
  | RawVec ps => VBase (OVec (map canon_point ps))
  | RawReset => VBase OReset | RawDeact => VBase ODeact | RawSize => VBase OSize
  | RawDebug b => VDebug b
  end.

Definition same_point (p q : rawpoint) : Prop := Forall2 Qeq p q.
Definition same_arg (o o' : rawop) : Prop :=
  match o, o' with
  | RawSingle p, RawSingle q => same_point p q
  | RawBatch ps, RawBatch qs | RawVec ps, RawVec qs => Forall2 same_point ps qs
  | RawReset, RawReset | RawDeact, RawDeact | RawSize, RawSize => True
  | RawDebug b, RawDebug b' => b = b'
  | _, _ => False
  end.

Lemma canon_point_eq p q : same_point p q -> canon_point p = canon_point q.
Proof.
  induction 1 as [|x y p q Hxy _ IH]; [reflexivity|]. cbn [canon_point map]. f_equal; [|exact IH].
  apply Qc_is_canon. cbn [Q2Qc this]. rewrite Hxy. reflexivity.
Qed.

Lemma canon_points_eq ps qs : Forall2 same_point ps qs -> map canon_point ps = map canon_point qs.
Proof. induction 1 as [|p q ps qs H _ IH]; [reflexivity|]. cbn [map]. rewrite (canon_point_eq p q H), IH. reflexivity. Qed.

Lemma canon_eq o o' : same_arg o o' -> canon o = canon o'.
Proof.
  destruct o, o'; cbn [same_arg canon]; intro H; try contradiction; try reflexivity.
  - rewrite (canon_point_eq _ _ H). reflexivity.
  - rewrite (canon_points_eq _ _ H). reflexivity.
  - rewrite (canon_points_eq _ _ H). reflexivity.
  - subst. reflexivity.
Qed.

(* for every eval, vectorised eval, variant and start state: histories with numerically equal arguments are indistinguishable *)
Theorem history_is_function_of_values eval olen evec checks vr s ops ops' : Forall2 same_arg ops ops' ->
  vrun eval olen evec checks vr s (map canon ops) = vrun eval olen evec checks vr s (map canon ops').
Proof.
  intro H. f_equal. induction H as [|o o' ops ops' Ho _ IH]; [reflexivity|]. cbn [map]. rewrite (canon_eq o o' Ho), IH. reflexivity.
Qed.
