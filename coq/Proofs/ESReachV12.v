(* C04 corollary (additive, import only): with coarsen_grid versions 1 and 2 proved valid in general (Proofs/ESV1Full.v,
   Proofs/ESV2Full.v, lmin-aware arithmetic base = lmin) the extend-split exactness theorem of C04
   (Proofs/ESReach.v es_reachable_multilinear_exact) becomes UNCONDITIONAL for versions 1 and 2 as it is for version 0:
   in every reachable state of every history, in every dimension >= 1, every multilinear monomial is integrated exactly.
   (Version 3: the state machine of Model/ExtendSplit.v evaluates every version other than 0 and 1 with the version-2
   arithmetic; the real version 3 is Model/ESV3.v - its validity is C07_local_combi_v3_valid, the integral statement for it
   would need state_areas over area_grids4 and is not stated here.) *)
From Coq Require Import ZArith List Bool QArith Qcanon Lia Permutation.
From SG Require Import Base.QcUtil Model.CombiScheme Model.ExtendSplit Model.ESInterp Model.ESExact
     Proofs.ESGeom Proofs.ESInv Proofs.ESV0 Proofs.ESDict Proofs.ESExact Proofs.ESMoments Proofs.ESReach
     Proofs.ESShift Proofs.ESV12Low Proofs.ESV2Full Proofs.ESV1Full.
Import ListNotations.
Open Scope Z_scope.

Lemma local_combi_v12_nonempty n v lmin lmax c : v <> 0 -> lmin <= lmax -> local_combi (mkCP (S n) v lmin lmax lmin) c <> [].
Proof.
  intros Hv Hle E. rewrite (local_combi_v12_form n v lmin lmax lmin c Hv) in E. apply map_eq_nil in E.
  exact (std_nonempty n lmin lmax ltac:(lia) E).
Qed.

Theorem es_reachable_multilinear_exact_v12 n v nrbe lmin lmax auto single a b bens0 hist exps :
  v = 1 \/ v = 2 -> wfbox a b -> length a = S n -> lmin <= lmax ->
  length exps = S n -> Forall (fun k => (k <= 1)%nat) exps ->
  es_integral a b (state_areas (run_events (start_state (S n) v nrbe lmin lmax lmin auto single a b bens0) hist)) exps
  = bmom a b exps.
Proof.
  intros Hv Hbox Hdim Hlev Lx Fx.
  apply (es_reachable_multilinear_exact (S n) v nrbe lmin lmax lmin auto single a b bens0 Hbox Hdim Hlev hist exps); try assumption.
  intros x Hx.
  pose proof (coarsening_nonneg (S n) v nrbe lmin lmax lmin auto single a b bens0 hist Hbox Hdim Hlev x Hx) as C.
  rewrite (area_grids_history (S n) v nrbe lmin lmax lmin auto single a b bens0 Hbox Hdim Hlev hist x Hx).
  split.
  - destruct Hv as [E | E]; subst v; [apply local_combi_v1_valid | apply local_combi_v2_valid]; lia.
  - apply local_combi_v12_nonempty; [destruct Hv; subst; discriminate | lia].
Qed.
